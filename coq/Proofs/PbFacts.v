(* Facts about the protobuf encoder model (Model/Pb.v) and the independent wire decoder
   (Model/PbDecode.v): the decoder inverts the encoder, message by message and on the stream. *)
From Coq Require Import String.
Require Import PV.Base.Prelude PV.Base.Utf8 PV.Base.F64 PV.Base.StrFacts PV.Base.Utf8Facts.
Require Import PV.Model.Proto PV.Model.Value PV.Model.Pb PV.Model.PbDecode.
Open Scope N_scope.

(* ------------------------------------------------------------------ small list facts *)
Lemma blen_app a b : blen (a ++ b) = blen a + blen b.
Proof. unfold blen. rewrite app_length, Nat2N.inj_add. reflexivity. Qed.
Lemma blen_nil : blen [] = 0.
Proof. reflexivity. Qed.

Lemma ltb_true a b : a < b -> (a <? b) = true.
Proof. intros. apply N.ltb_lt. assumption. Qed.
Lemma ltb_false a b : b <= a -> (a <? b) = false.
Proof. intros. apply N.ltb_ge. assumption. Qed.

(* ------------------------------------------------------------------ varints *)
Lemma varint_aux_S f n :
  varint_aux (S f) n = if n <? 128 then [n] else (128 + n mod 128) :: varint_aux f (n / 128).
Proof. reflexivity. Qed.
Lemma dvarint_S_cons f b r :
  dvarint (S f) (b :: r) =
  if b <? 128 then Some (b, r)
  else match dvarint f r with Some (v, r') => Some ((b - 128) + 128 * v, r') | None => None end.
Proof. reflexivity. Qed.

Fixpoint vbound (f : nat) : N := match f with O => 1 | S f' => 128 * vbound f' end.

(* quotient and remainder by 128, named (guide rule 5) *)
Lemma divmod128 n : exists q r, n = 128 * q + r /\ r < 128 /\ n / 128 = q /\ n mod 128 = r.
Proof.
  exists (n / 128), (n mod 128). repeat split.
  - apply N.div_mod'.
  - apply N.mod_lt. discriminate.
Qed.

Lemma dvarint_varint_aux f : forall n rest,
  n < 128 * vbound f -> dvarint (S f) (varint_aux (S f) n ++ rest) = Some (n, rest).
Proof.
  induction f as [|f IH]; intros n rest Hn.
  - cbn [vbound] in Hn. rewrite varint_aux_S, (ltb_true n 128) by lia.
    cbn [app]. rewrite dvarint_S_cons, (ltb_true n 128) by lia. reflexivity.
  - rewrite varint_aux_S. destruct (N.ltb_spec n 128) as [Hlt|Hge].
    + cbn [app]. rewrite dvarint_S_cons, (ltb_true n 128) by lia. reflexivity.
    + destruct (divmod128 n) as (q & r & E & Hr & Eq & Er). rewrite Eq, Er.
      cbn [app]. rewrite dvarint_S_cons, (ltb_false (128 + r) 128) by lia.
      cbn [vbound] in Hn. set (B := vbound f) in *.
      rewrite IH by lia. f_equal. f_equal. lia.
Qed.

Theorem varint_roundtrip n rest : n < two64 -> decode_varint (varint n ++ rest) = Some (n, rest).
Proof.
  intros Hn. unfold decode_varint, varint.
  rewrite (dvarint_varint_aux 9).
  - rewrite (ltb_true n two64) by assumption. reflexivity.
  - change (128 * vbound 9) with 1180591620717411303424. unfold two64 in Hn. lia.
Qed.

Lemma varint_length_pos n : (1 <= length (varint n))%nat.
Proof. unfold varint. rewrite varint_aux_S. destruct (n <? 128); cbn [length]; lia. Qed.
Lemma varint_nonempty n r : varint n ++ r <> [].
Proof.
  pose proof (varint_length_pos n) as H. destruct (varint n); cbn in *; [lia|discriminate].
Qed.

(* keys *)
Lemma key_div fnum wt : wt < 8 -> (fnum * 8 + wt) / 8 = fnum.
Proof.
  intros H. rewrite N.div_add_l by discriminate. rewrite (N.div_small wt 8) by assumption. lia.
Qed.
Lemma key_mod fnum wt : wt < 8 -> (fnum * 8 + wt) mod 8 = wt.
Proof.
  intros H. rewrite N.add_comm, N.mod_add by discriminate. apply N.mod_small. assumption.
Qed.

(* ------------------------------------------------------------------ fixed64 *)
Fixpoint bbound (k : nat) : N := match k with O => 1 | S k' => 256 * bbound k' end.
Lemma divmod256 n : exists q r, n = 256 * q + r /\ r < 256 /\ n / 256 = q /\ n mod 256 = r.
Proof.
  exists (n / 256), (n mod 256). repeat split.
  - apply N.div_mod'.
  - apply N.mod_lt. discriminate.
Qed.
Lemma le_decode_bytes k : forall b, b < bbound k -> le_decode (le_bytes k b) = b.
Proof.
  induction k as [|k IH]; intros b Hb.
  - cbn [bbound] in Hb. cbn [le_bytes le_decode]. lia.
  - cbn [le_bytes le_decode]. destruct (divmod256 b) as (q & r & E & Hr & Eq & Er). rewrite Eq, Er.
    cbn [bbound] in Hb. set (B := bbound k) in *. rewrite IH by lia. lia.
Qed.
Lemma le_bytes_length k : forall b, length (le_bytes k b) = k.
Proof. induction k; intros; cbn [le_bytes length]; [reflexivity|]. rewrite IHk. reflexivity. Qed.
Lemma le64_roundtrip b : b < two64 -> le_decode (le64 b) = b.
Proof. intros H. apply le_decode_bytes. exact H. Qed.
Lemma le64_blen b : blen (le64 b) = 8.
Proof. unfold blen, le64. rewrite le_bytes_length. reflexivity. Qed.

Lemma take_bytes_app a r : take_bytes (blen a) (a ++ r) = Some (a, r).
Proof.
  unfold take_bytes. rewrite blen_app, ltb_false by lia. unfold blen. rewrite Nat2N.id.
  rewrite firstn_app, skipn_app, firstn_all, skipn_all, Nat.sub_diag. cbn [firstn skipn app].
  rewrite app_nil_r. reflexivity.
Qed.

(* ------------------------------------------------------------------ strings *)
(* a Rust String: Unicode scalar values (no surrogates) *)
Definition str_ok (s : str) : Prop := forallb uscalarb s = true.

Lemma str_ok_wf s : str_ok s -> wf_str s.
Proof.
  unfold str_ok, wf_str. induction s as [|c s IH]; cbn [forallb]; intros H; constructor.
  - apply andb_prop in H. destruct H as [H _]. unfold uscalarb in H. apply andb_prop in H.
    destruct H as [H _]. apply N.ltb_lt in H. exact H.
  - apply IH. apply andb_prop in H. tauto.
Qed.

Lemma decode_utf8_utf8 s : str_ok s -> decode_utf8 (utf8 s) = Some s.
Proof.
  intros H. unfold decode_utf8. rewrite utf8_dec_utf8; [|apply str_ok_wf; exact H|apply le_n].
  rewrite H. unfold bytes_eqb. rewrite str_eqb_refl. reflexivity.
Qed.

(* ------------------------------------------------------------------ records: a second, generic, description
   of what a message body looks like (a list of (field number, payload)), used only in proofs *)
Definition enc_val (v : wval) : list N :=
  match v with
  | WVar n => varint n
  | WFix b => le64 b
  | WStr s => varint (blen (utf8 s)) ++ utf8 s
  | WBytes b => varint (blen b) ++ b
  end.
Definition wt_of (v : wval) : N := match v with WVar _ => 0 | WFix _ => 1 | WStr _ | WBytes _ => 2 end.
Definition enc_rec (p : N * wval) : list N := tag (fst p) (wt_of (snd p)) ++ enc_val (snd p).
Definition enc_flat (fs : list (N * wval)) : list N := flat_map enc_rec fs.

Definition payload_len (v : wval) : N :=
  match v with WStr s => blen (utf8 s) | WBytes b => blen b | _ => 0 end.
Definition val_ok (t : ftype) (v : wval) : Prop :=
  match t, v with
  | TDouble, WFix b => b < two64
  | TUint64, WVar n | TInt64, WVar n => n < two64
  | TEnum e, WVar n => enum_has e n = true
  | TString, WStr s => str_ok s
  | TMsg _, WBytes _ => True
  | _, _ => False
  end.
Definition typed (m : msg) (p : N * wval) : Prop :=
  exists fd, find_field m (fst p) = Some fd /\ val_ok (f_type fd) (snd p).
Definition rec_ok (m : msg) (p : N * wval) : Prop := typed m p /\ payload_len (snd p) < two64.

Lemma enum_has_bound e n : enum_has e n = true -> n < two64.
Proof.
  destruct e. unfold enum_has, enum_values. cbn [existsb snd]. rewrite !orb_true_iff, !N.eqb_eq.
  unfold two64. intros H. repeat destruct H as [H|H]; try subst n; try lia; try discriminate.
Qed.

Lemma find_field_small m n fd : find_field m n = Some fd -> n < 8 /\ f_num fd = n.
Proof.
  unfold find_field. intros H. apply find_some in H. destruct H as [Hin H].
  apply andb_prop in H. destruct H as [_ H]. apply N.eqb_eq in H. split; [|exact H]. subst n.
  assert (A : forallb (fun f => f_num f <? 8) pb_fields = true) by (vm_compute; reflexivity).
  rewrite forallb_forall in A. apply A in Hin. apply N.ltb_lt in Hin. exact Hin.
Qed.

Lemma read_payload_enc t v rest :
  val_ok t v -> payload_len v < two64 -> read_payload t (enc_val v ++ rest) = Some (v, rest).
Proof.
  intros Hv Hl. destruct t, v; cbn [val_ok] in Hv; try contradiction; cbn [read_payload enc_val payload_len] in *.
  - rewrite <- (le64_blen bits) at 1. rewrite take_bytes_app, le64_roundtrip by assumption. reflexivity.
  - rewrite varint_roundtrip by assumption. reflexivity.
  - rewrite varint_roundtrip by assumption. reflexivity.
  - rewrite <- app_assoc, varint_roundtrip by assumption. rewrite take_bytes_app.
    rewrite decode_utf8_utf8 by assumption. reflexivity.
  - rewrite varint_roundtrip by (eapply enum_has_bound; eassumption). rewrite Hv. reflexivity.
  - rewrite <- app_assoc, varint_roundtrip by assumption. rewrite take_bytes_app. reflexivity.
Qed.

Lemma wire_type_ok t v : val_ok t v -> wt_of v = wire_type t.
Proof. destruct t, v; cbn; intros; try contradiction; reflexivity. Qed.
Lemma wt_of_small v : wt_of v < 8.
Proof. destruct v; cbn; lia. Qed.

Lemma parse_fields_S f m bs :
  bs <> [] ->
  parse_fields (S f) m bs =
  match decode_varint bs with
  | Some (key, r) =>
      match find_field m (key / 8) with
      | Some fd =>
          if key mod 8 =? wire_type (f_type fd) then
            match read_payload (f_type fd) r with
            | Some (v, r') => match parse_fields f m r' with Some fs => Some ((key / 8, v) :: fs) | None => None end
            | None => None
            end
          else None
      | None => None
      end
  | None => None
  end.
Proof. destruct bs; [congruence|reflexivity]. Qed.

Lemma enc_rec_length_pos p : (1 <= length (enc_rec p))%nat.
Proof. unfold enc_rec, tag. rewrite app_length. pose proof (varint_length_pos (fst p * 8 + wt_of (snd p))). lia. Qed.

Lemma parse_fields_flat m fs :
  Forall (rec_ok m) fs ->
  forall fuel, (length (enc_flat fs) <= fuel)%nat -> parse_fields fuel m (enc_flat fs) = Some fs.
Proof.
  induction 1 as [|p fs Hp Hfs IH]; intros fuel Hf.
  - destruct fuel; reflexivity.
  - unfold enc_flat in *. cbn [flat_map] in *. rewrite app_length in Hf.
    pose proof (enc_rec_length_pos p) as Hpos.
    destruct fuel as [|fuel]; [lia|].
    destruct Hp as [(fd & Hfd & Hv) Hl]. destruct p as [n v]. cbn [fst snd] in *.
    destruct (find_field_small _ _ _ Hfd) as [Hn _]. pose proof (wt_of_small v) as Hw.
    rewrite parse_fields_S.
    2:{ unfold enc_rec, tag. cbn [fst snd]. rewrite <- !app_assoc. apply varint_nonempty. }
    unfold enc_rec, tag. cbn [fst snd]. rewrite <- !app_assoc.
    rewrite varint_roundtrip by (unfold two64; lia).
    rewrite key_div, key_mod by assumption. rewrite Hfd.
    rewrite (wire_type_ok _ _ Hv), N.eqb_refl.
    rewrite read_payload_enc by assumption.
    rewrite IH by lia. reflexivity.
Qed.

Lemma parse_msg_flat m fs : Forall (rec_ok m) fs -> parse_msg m (enc_flat fs) = Some fs.
Proof. intros H. unfold parse_msg. apply parse_fields_flat; [exact H|apply le_n]. Qed.

(* every length-delimited payload is shorter than the message that contains it *)
Lemma payload_le_enc v : payload_len v <= blen (enc_val v).
Proof. destruct v; cbn [payload_len enc_val]; rewrite ?blen_app; lia. Qed.
Lemma sizes_of_total fs :
  blen (enc_flat fs) < two64 -> Forall (fun p => payload_len (snd p) < two64) fs.
Proof.
  induction fs as [|p fs IH]; intros H; constructor.
  - unfold enc_flat in H. cbn [flat_map] in H. unfold enc_rec in H. rewrite !blen_app in H.
    pose proof (payload_le_enc (snd p)). lia.
  - apply IH. unfold enc_flat in *. cbn [flat_map] in H. rewrite blen_app in H. lia.
Qed.
Lemma recs_ok_intro m fs :
  Forall (typed m) fs -> blen (enc_flat fs) < two64 -> Forall (rec_ok m) fs.
Proof.
  intros Ht Hs. apply sizes_of_total in Hs. rewrite Forall_forall in *. intros p Hp. split; auto.
Qed.

(* ------------------------------------------------------------------ stage 2 on record lists of known shape *)
Definition olist {A} (o : option A) : list A := match o with Some v => [v] | None => [] end.
Definition oall {A} (P : A -> Prop) (o : option A) : Prop := match o with Some v => P v | None => True end.

Lemma enc_flat_app a b : enc_flat (a ++ b) = enc_flat a ++ enc_flat b.
Proof. unfold enc_flat. apply flat_map_app. Qed.
Lemma enc_flat_map {A} (f : A -> N * wval) l : enc_flat (map f l) = flat_map (fun x => enc_rec (f x)) l.
Proof. unfold enc_flat. induction l as [|x l IH]; cbn [map flat_map]; [reflexivity|]. rewrite IH. reflexivity. Qed.
Lemma flat_map_olist {A} (h : A -> list N) o : flat_map h (olist o) = wopt h o.
Proof. destruct o; cbn [olist flat_map wopt]; [apply app_nil_r|reflexivity]. Qed.

Lemma vals_app n a b : vals n (a ++ b) = vals n a ++ vals n b.
Proof. unfold vals. rewrite filter_app, map_app. reflexivity. Qed.
Lemma vals_map_eq {A} k (g : A -> wval) l : vals k (map (fun v => (k, g v)) l) = map g l.
Proof.
  unfold vals. induction l as [|x l IH]; cbn [map filter fst]; [reflexivity|].
  rewrite N.eqb_refl. cbn [map snd]. rewrite IH. reflexivity.
Qed.
Lemma vals_map_ne {A} k k' (g : A -> wval) l : k' <> k -> vals k (map (fun v => (k', g v)) l) = [].
Proof.
  intros Hne. unfold vals. induction l as [|x l IH]; cbn [map filter fst]; [reflexivity|].
  rewrite (proj2 (N.eqb_neq k' k)) by assumption. exact IH.
Qed.

Lemma Forall_olist {A} (P : A -> Prop) o : Forall P (olist o) <-> oall P o.
Proof.
  destruct o; cbn [olist oall]; split; intros H; auto.
  inversion H; assumption.
Qed.

Lemma last_opt_olist {A} (o : option A) : last_opt (olist o) = o.
Proof. destruct o; reflexivity. Qed.

Lemma get_scalar_shape {A} (proj : wval -> option A) (mk : A -> wval) n fs o :
  (forall v, proj (mk v) = Some v) -> vals n fs = map mk (olist o) -> get_scalar proj n fs = Some o.
Proof.
  intros Hp Hv. unfold get_scalar. rewrite Hv. destruct o; cbn [olist map last_opt]; [rewrite Hp|]; reflexivity.
Qed.
Lemma mapM_map {A B} (d : B -> option A) (e : A -> B) l :
  Forall (fun y => d (e y) = Some y) l -> mapM d (map e l) = Some l.
Proof.
  induction 1 as [|y l Hy Hl IH]; cbn [map mapM]; [reflexivity|]. rewrite Hy, IH. reflexivity.
Qed.
Lemma get_msgs_shape {A} (e : A -> list N) n fs l :
  vals n fs = map (fun y => WBytes (e y)) l -> get_msgs n fs = Some (map e l).
Proof.
  intros Hv. unfold get_msgs. rewrite Hv. rewrite <- (map_map e WBytes). apply mapM_map.
  rewrite Forall_forall. reflexivity.
Qed.
Lemma get_msg_shape {A} (e : A -> list N) n fs o :
  vals n fs = map (fun y => WBytes (e y)) (olist o) -> get_msg n fs = Some (option_map e o).
Proof.
  intros Hv. unfold get_msg. rewrite Hv. destruct o; cbn [olist map mapM as_bytes option_map concat]; [|reflexivity].
  rewrite app_nil_r. reflexivity.
Qed.
Lemma opt_dec_map {A} (d : list N -> option A) (e : A -> list N) o :
  oall (fun y => d (e y) = Some y) o -> opt_dec d (option_map e o) = Some o.
Proof. destruct o; cbn [oall option_map opt_dec]; intros H; [rewrite H|]; reflexivity. Qed.

Ltac fnum_eval :=
  repeat match goal with
         | |- context [fnum ?m ?s] => let r := eval vm_compute in (fnum m s) in change (fnum m s) with r
         end.
(* vals k (known shape) = the occurrences of field k *)
Ltac vals_solve :=
  rewrite ?vals_app;
  repeat first [rewrite vals_map_eq | rewrite vals_map_ne by discriminate];
  rewrite ?app_nil_r; cbn [app]; reflexivity.
Ltac typed_field := eexists; split; [reflexivity | cbn [f_type val_ok fst snd]; auto].

(* ------------------------------------------------------------------ LabelPair *)
Definition wf_LabelPair (l : PLabelPair) : Prop := oall str_ok (plp_name l) /\ oall str_ok (plp_value l).
Definition flat_LabelPair (l : PLabelPair) : list (N * wval) :=
  map (fun s => (1, WStr s)) (olist (plp_name l)) ++ map (fun s => (2, WStr s)) (olist (plp_value l)).
Lemma enc_LabelPair_flat l : enc_LabelPair l = enc_flat (flat_LabelPair l).
Proof.
  unfold flat_LabelPair. rewrite !enc_flat_app, !enc_flat_map, !flat_map_olist. reflexivity.
Qed.
Lemma typed_LabelPair l : wf_LabelPair l -> Forall (typed MLabelPair) (flat_LabelPair l).
Proof.
  intros (H1 & H2). unfold flat_LabelPair. rewrite !Forall_app, !Forall_map, !Forall_olist.
  repeat split.
  - destruct (plp_name l); cbn [oall] in *; [typed_field|exact I].
  - destruct (plp_value l); cbn [oall] in *; [typed_field|exact I].
Qed.
Theorem dec_LabelPair_ok l :
  wf_LabelPair l -> blen (enc_LabelPair l) < two64 -> dec_LabelPair (enc_LabelPair l) = Some l.
Proof.
  intros W S. unfold dec_LabelPair. rewrite enc_LabelPair_flat in *.
  rewrite parse_msg_flat by (apply recs_ok_intro; [apply typed_LabelPair; exact W|exact S]).
  fnum_eval. unfold flat_LabelPair.
  rewrite (get_scalar_shape as_str WStr 1 _ (plp_name l)) by (try reflexivity; vals_solve).
  rewrite (get_scalar_shape as_str WStr 2 _ (plp_value l)) by (try reflexivity; vals_solve).
  destruct l; reflexivity.
Qed.

(* ------------------------------------------------------------------ scalars *)
Definition u64 (n : N) : Prop := n < two64.
Definition i64 (z : Z) : Prop := (- 0x8000000000000000 <= z < 0x8000000000000000)%Z.

Lemma i64_of_Z_bound z : i64_of_Z z < two64.
Proof.
  unfold i64_of_Z, two64. pose proof (Z.mod_pos_bound z 0x10000000000000000 eq_refl). lia.
Qed.
Lemma i64_roundtrip z : i64 z -> i64_to_Z (i64_of_Z z) = z.
Proof.
  unfold i64, i64_of_Z, i64_to_Z. intros H. destruct (Z.neg_nonneg_cases z) as [Hn|Hp].
  - assert (E : (z mod 0x10000000000000000 = z + 0x10000000000000000)%Z).
    { rewrite <- (Z_mod_plus_full z 1 0x10000000000000000). rewrite Z.mul_1_l. apply Z.mod_small. lia. }
    rewrite E. rewrite ltb_false by lia. lia.
  - rewrite Z.mod_small by lia. rewrite ltb_true by lia. lia.
Qed.
Lemma olist_option_map {A B} (f : A -> B) o : olist (option_map f o) = map f (olist o).
Proof. destruct o; reflexivity. Qed.
Lemma wopt_option_map {A B} (h : B -> list N) (f : A -> B) o : wopt h (option_map f o) = wopt (fun x => h (f x)) o.
Proof. destruct o; reflexivity. Qed.

(* ------------------------------------------------------------------ Gauge, Counter, Untyped *)
Definition wf_Gauge (g : PGauge) : Prop := oall u64 (pg_value g).
Definition flat_Gauge (g : PGauge) : list (N * wval) := map (fun b => (1, WFix b)) (olist (pg_value g)).
Lemma enc_Gauge_flat g : enc_Gauge g = enc_flat (flat_Gauge g).
Proof. unfold flat_Gauge. rewrite !enc_flat_map, !flat_map_olist. reflexivity. Qed.
Lemma typed_Gauge g : wf_Gauge g -> Forall (typed MGauge) (flat_Gauge g).
Proof.
  intros H. unfold flat_Gauge. rewrite !Forall_map, !Forall_olist.
  unfold wf_Gauge in H. destruct (pg_value g); cbn [oall] in *; [typed_field|exact I].
Qed.
Theorem dec_Gauge_ok g : wf_Gauge g -> blen (enc_Gauge g) < two64 -> dec_Gauge (enc_Gauge g) = Some g.
Proof.
  intros W S. unfold dec_Gauge. rewrite enc_Gauge_flat in *.
  rewrite parse_msg_flat by (apply recs_ok_intro; [apply typed_Gauge; exact W|exact S]).
  fnum_eval. unfold flat_Gauge.
  rewrite (get_scalar_shape as_fix WFix 1 _ (pg_value g)) by (try reflexivity; vals_solve).
  destruct g; reflexivity.
Qed.

Definition wf_Counter (c : PCounter) : Prop := oall u64 (pc_value c).
Definition flat_Counter (c : PCounter) : list (N * wval) := map (fun b => (1, WFix b)) (olist (pc_value c)).
Lemma enc_Counter_flat c : enc_Counter c = enc_flat (flat_Counter c).
Proof. unfold flat_Counter. rewrite !enc_flat_map, !flat_map_olist. reflexivity. Qed.
Lemma typed_Counter c : wf_Counter c -> Forall (typed MCounter) (flat_Counter c).
Proof.
  intros H. unfold flat_Counter. rewrite !Forall_map, !Forall_olist.
  unfold wf_Counter in H. destruct (pc_value c); cbn [oall] in *; [typed_field|exact I].
Qed.
Theorem dec_Counter_ok c : wf_Counter c -> blen (enc_Counter c) < two64 -> dec_Counter (enc_Counter c) = Some c.
Proof.
  intros W S. unfold dec_Counter. rewrite enc_Counter_flat in *.
  rewrite parse_msg_flat by (apply recs_ok_intro; [apply typed_Counter; exact W|exact S]).
  fnum_eval. unfold flat_Counter.
  rewrite (get_scalar_shape as_fix WFix 1 _ (pc_value c)) by (try reflexivity; vals_solve).
  destruct c; reflexivity.
Qed.

Definition wf_Untyped (u : PUntyped) : Prop := oall u64 (pu_value u).
Definition flat_Untyped (u : PUntyped) : list (N * wval) := map (fun b => (1, WFix b)) (olist (pu_value u)).
Lemma enc_Untyped_flat u : enc_Untyped u = enc_flat (flat_Untyped u).
Proof. unfold flat_Untyped. rewrite !enc_flat_map, !flat_map_olist. reflexivity. Qed.
Lemma typed_Untyped u : wf_Untyped u -> Forall (typed MUntyped) (flat_Untyped u).
Proof.
  intros H. unfold flat_Untyped. rewrite !Forall_map, !Forall_olist.
  unfold wf_Untyped in H. destruct (pu_value u); cbn [oall] in *; [typed_field|exact I].
Qed.
Theorem dec_Untyped_ok u : wf_Untyped u -> blen (enc_Untyped u) < two64 -> dec_Untyped (enc_Untyped u) = Some u.
Proof.
  intros W S. unfold dec_Untyped. rewrite enc_Untyped_flat in *.
  rewrite parse_msg_flat by (apply recs_ok_intro; [apply typed_Untyped; exact W|exact S]).
  fnum_eval. unfold flat_Untyped.
  rewrite (get_scalar_shape as_fix WFix 1 _ (pu_value u)) by (try reflexivity; vals_solve).
  destruct u; reflexivity.
Qed.

(* ------------------------------------------------------------------ Quantile, Bucket *)
Definition wf_Quantile (q : PQuantile) : Prop := oall u64 (pq_quantile q) /\ oall u64 (pq_value q).
Definition flat_Quantile (q : PQuantile) : list (N * wval) :=
  map (fun b => (1, WFix b)) (olist (pq_quantile q)) ++ map (fun b => (2, WFix b)) (olist (pq_value q)).
Lemma enc_Quantile_flat q : enc_Quantile q = enc_flat (flat_Quantile q).
Proof. unfold flat_Quantile. rewrite !enc_flat_app, !enc_flat_map, !flat_map_olist. reflexivity. Qed.
Lemma typed_Quantile q : wf_Quantile q -> Forall (typed MQuantile) (flat_Quantile q).
Proof.
  intros (H1 & H2). unfold flat_Quantile. rewrite !Forall_app, !Forall_map, !Forall_olist.
  repeat split.
  - destruct (pq_quantile q); cbn [oall] in *; [typed_field|exact I].
  - destruct (pq_value q); cbn [oall] in *; [typed_field|exact I].
Qed.
Theorem dec_Quantile_ok q : wf_Quantile q -> blen (enc_Quantile q) < two64 -> dec_Quantile (enc_Quantile q) = Some q.
Proof.
  intros W S. unfold dec_Quantile. rewrite enc_Quantile_flat in *.
  rewrite parse_msg_flat by (apply recs_ok_intro; [apply typed_Quantile; exact W|exact S]).
  fnum_eval. unfold flat_Quantile.
  rewrite (get_scalar_shape as_fix WFix 1 _ (pq_quantile q)) by (try reflexivity; vals_solve).
  rewrite (get_scalar_shape as_fix WFix 2 _ (pq_value q)) by (try reflexivity; vals_solve).
  destruct q; reflexivity.
Qed.

Definition wf_Bucket (b : PBucket) : Prop := oall u64 (pbk_cum b) /\ oall u64 (pbk_upper b).
Definition flat_Bucket (b : PBucket) : list (N * wval) :=
  map (fun n => (1, WVar n)) (olist (pbk_cum b)) ++ map (fun x => (2, WFix x)) (olist (pbk_upper b)).
Lemma enc_Bucket_flat b : enc_Bucket b = enc_flat (flat_Bucket b).
Proof. unfold flat_Bucket. rewrite !enc_flat_app, !enc_flat_map, !flat_map_olist. reflexivity. Qed.
Lemma typed_Bucket b : wf_Bucket b -> Forall (typed MBucket) (flat_Bucket b).
Proof.
  intros (H1 & H2). unfold flat_Bucket. rewrite !Forall_app, !Forall_map, !Forall_olist.
  repeat split.
  - destruct (pbk_cum b); cbn [oall] in *; [typed_field|exact I].
  - destruct (pbk_upper b); cbn [oall] in *; [typed_field|exact I].
Qed.
Theorem dec_Bucket_ok b : wf_Bucket b -> blen (enc_Bucket b) < two64 -> dec_Bucket (enc_Bucket b) = Some b.
Proof.
  intros W S. unfold dec_Bucket. rewrite enc_Bucket_flat in *.
  rewrite parse_msg_flat by (apply recs_ok_intro; [apply typed_Bucket; exact W|exact S]).
  fnum_eval. unfold flat_Bucket.
  rewrite (get_scalar_shape as_var WVar 1 _ (pbk_cum b)) by (try reflexivity; vals_solve).
  rewrite (get_scalar_shape as_fix WFix 2 _ (pbk_upper b)) by (try reflexivity; vals_solve).
  destruct b; reflexivity.
Qed.

(* ------------------------------------------------------------------ Summary, Histogram *)
Definition wf_Summary (s : PSummary) : Prop :=
  oall u64 (ps_count s) /\ oall u64 (ps_sum s) /\ Forall wf_Quantile (ps_quantile s).
Definition flat_Summary (s : PSummary) : list (N * wval) :=
  map (fun n => (1, WVar n)) (olist (ps_count s)) ++ map (fun b => (2, WFix b)) (olist (ps_sum s))
  ++ map (fun q => (3, WBytes (enc_Quantile q))) (ps_quantile s).
Lemma enc_Summary_flat s : enc_Summary s = enc_flat (flat_Summary s).
Proof. unfold flat_Summary. rewrite !enc_flat_app, !enc_flat_map, !flat_map_olist. reflexivity. Qed.
Lemma typed_Summary s : wf_Summary s -> Forall (typed MSummary) (flat_Summary s).
Proof.
  intros (H1 & H2 & H3). unfold flat_Summary. rewrite !Forall_app, !Forall_map, !Forall_olist.
  repeat split.
  - destruct (ps_count s); cbn [oall] in *; [typed_field|exact I].
  - destruct (ps_sum s); cbn [oall] in *; [typed_field|exact I].
  - apply Forall_forall. intros q _. typed_field.
Qed.
Theorem dec_Summary_ok s : wf_Summary s -> blen (enc_Summary s) < two64 -> dec_Summary (enc_Summary s) = Some s.
Proof.
  intros W S. unfold dec_Summary. rewrite enc_Summary_flat in *.
  rewrite parse_msg_flat by (apply recs_ok_intro; [apply typed_Summary; exact W|exact S]).
  apply sizes_of_total in S. fnum_eval. unfold flat_Summary in *.
  rewrite (get_scalar_shape as_var WVar 1 _ (ps_count s)) by (try reflexivity; vals_solve).
  rewrite (get_scalar_shape as_fix WFix 2 _ (ps_sum s)) by (try reflexivity; vals_solve).
  rewrite (get_msgs_shape enc_Quantile 3 _ (ps_quantile s)) by vals_solve.
  rewrite mapM_map; [destruct s; reflexivity|].
  rewrite !Forall_app, !Forall_map in S. destruct S as (_ & _ & S). destruct W as (_ & _ & W).
  rewrite Forall_forall in *. intros q Hq. apply dec_Quantile_ok; [apply W; exact Hq|exact (S q Hq)].
Qed.

Definition wf_Histogram (h : PHistogram) : Prop :=
  oall u64 (ph_count h) /\ oall u64 (ph_sum h) /\ Forall wf_Bucket (ph_bucket h).
Definition flat_Histogram (h : PHistogram) : list (N * wval) :=
  map (fun n => (1, WVar n)) (olist (ph_count h)) ++ map (fun b => (2, WFix b)) (olist (ph_sum h))
  ++ map (fun b => (3, WBytes (enc_Bucket b))) (ph_bucket h).
Lemma enc_Histogram_flat h : enc_Histogram h = enc_flat (flat_Histogram h).
Proof. unfold flat_Histogram. rewrite !enc_flat_app, !enc_flat_map, !flat_map_olist. reflexivity. Qed.
Lemma typed_Histogram h : wf_Histogram h -> Forall (typed MHistogram) (flat_Histogram h).
Proof.
  intros (H1 & H2 & H3). unfold flat_Histogram. rewrite !Forall_app, !Forall_map, !Forall_olist.
  repeat split.
  - destruct (ph_count h); cbn [oall] in *; [typed_field|exact I].
  - destruct (ph_sum h); cbn [oall] in *; [typed_field|exact I].
  - apply Forall_forall. intros q _. typed_field.
Qed.
Theorem dec_Histogram_ok h : wf_Histogram h -> blen (enc_Histogram h) < two64 -> dec_Histogram (enc_Histogram h) = Some h.
Proof.
  intros W S. unfold dec_Histogram. rewrite enc_Histogram_flat in *.
  rewrite parse_msg_flat by (apply recs_ok_intro; [apply typed_Histogram; exact W|exact S]).
  apply sizes_of_total in S. fnum_eval. unfold flat_Histogram in *.
  rewrite (get_scalar_shape as_var WVar 1 _ (ph_count h)) by (try reflexivity; vals_solve).
  rewrite (get_scalar_shape as_fix WFix 2 _ (ph_sum h)) by (try reflexivity; vals_solve).
  rewrite (get_msgs_shape enc_Bucket 3 _ (ph_bucket h)) by vals_solve.
  rewrite mapM_map; [destruct h; reflexivity|].
  rewrite !Forall_app, !Forall_map in S. destruct S as (_ & _ & S). destruct W as (_ & _ & W).
  rewrite Forall_forall in *. intros q Hq. apply dec_Bucket_ok; [apply W; exact Hq|exact (S q Hq)].
Qed.

(* ------------------------------------------------------------------ Metric *)
Definition wf_Metric (m : PMetric) : Prop :=
  Forall wf_LabelPair (pm_label m) /\ oall wf_Gauge (pm_gauge m) /\ oall wf_Counter (pm_counter m)
  /\ oall wf_Summary (pm_summary m) /\ oall wf_Untyped (pm_untyped m) /\ oall wf_Histogram (pm_histogram m)
  /\ oall i64 (pm_ts m).
Definition flat_Metric (m : PMetric) : list (N * wval) :=
  map (fun l => (1, WBytes (enc_LabelPair l))) (pm_label m)
  ++ map (fun g => (2, WBytes (enc_Gauge g))) (olist (pm_gauge m))
  ++ map (fun c => (3, WBytes (enc_Counter c))) (olist (pm_counter m))
  ++ map (fun s => (4, WBytes (enc_Summary s))) (olist (pm_summary m))
  ++ map (fun u => (5, WBytes (enc_Untyped u))) (olist (pm_untyped m))
  ++ map (fun h => (7, WBytes (enc_Histogram h))) (olist (pm_histogram m))
  ++ map (fun n => (6, WVar n)) (olist (option_map i64_of_Z (pm_ts m))).
Lemma enc_Metric_flat m : enc_Metric m = enc_flat (flat_Metric m).
Proof.
  unfold flat_Metric. rewrite !enc_flat_app, !enc_flat_map, !flat_map_olist, wopt_option_map. reflexivity.
Qed.
Lemma typed_Metric m : wf_Metric m -> Forall (typed MMetric) (flat_Metric m).
Proof.
  intros (H1 & H2 & H3 & H4 & H5 & H6 & H7). unfold flat_Metric.
  rewrite !Forall_app, !Forall_map, !Forall_olist.
  repeat split.
  - apply Forall_forall. intros q _. typed_field.
  - destruct (pm_gauge m); cbn [oall] in *; [typed_field|exact I].
  - destruct (pm_counter m); cbn [oall] in *; [typed_field|exact I].
  - destruct (pm_summary m); cbn [oall] in *; [typed_field|exact I].
  - destruct (pm_untyped m); cbn [oall] in *; [typed_field|exact I].
  - destruct (pm_histogram m); cbn [oall] in *; [typed_field|exact I].
  - destruct (pm_ts m); cbn [oall option_map] in *; [typed_field; apply i64_of_Z_bound|exact I].
Qed.

Lemma oall_dec {A} (P : A -> Prop) (e : A -> list N) (d : list N -> option A) o :
  oall P o -> Forall (fun y => blen (e y) < two64) (olist o) ->
  (forall y, P y -> blen (e y) < two64 -> d (e y) = Some y) ->
  oall (fun y => d (e y) = Some y) o.
Proof.
  destruct o; cbn [oall olist]; intros HP HS H; [|exact I]. apply H; [exact HP|]. inversion HS; assumption.
Qed.

Theorem dec_Metric_ok m : wf_Metric m -> blen (enc_Metric m) < two64 -> dec_Metric (enc_Metric m) = Some m.
Proof.
  intros W S. unfold dec_Metric. rewrite enc_Metric_flat in *.
  rewrite parse_msg_flat by (apply recs_ok_intro; [apply typed_Metric; exact W|exact S]).
  apply sizes_of_total in S. fnum_eval. unfold flat_Metric in *.
  rewrite !Forall_app, !Forall_map in S. destruct S as (S1 & S2 & S3 & S4 & S5 & S6 & _).
  destruct W as (W1 & W2 & W3 & W4 & W5 & W6 & W7).
  rewrite (get_msgs_shape enc_LabelPair 1 _ (pm_label m)) by vals_solve.
  rewrite mapM_map.
  2:{ rewrite Forall_forall in *. intros l Hl. apply dec_LabelPair_ok; [apply W1; exact Hl|exact (S1 l Hl)]. }
  rewrite (get_msg_shape enc_Gauge 2 _ (pm_gauge m)) by vals_solve.
  rewrite opt_dec_map by (eapply oall_dec; [exact W2|exact S2|exact dec_Gauge_ok]).
  rewrite (get_msg_shape enc_Counter 3 _ (pm_counter m)) by vals_solve.
  rewrite opt_dec_map by (eapply oall_dec; [exact W3|exact S3|exact dec_Counter_ok]).
  rewrite (get_msg_shape enc_Summary 4 _ (pm_summary m)) by vals_solve.
  rewrite opt_dec_map by (eapply oall_dec; [exact W4|exact S4|exact dec_Summary_ok]).
  rewrite (get_msg_shape enc_Untyped 5 _ (pm_untyped m)) by vals_solve.
  rewrite opt_dec_map by (eapply oall_dec; [exact W5|exact S5|exact dec_Untyped_ok]).
  rewrite (get_msg_shape enc_Histogram 7 _ (pm_histogram m)) by vals_solve.
  rewrite opt_dec_map by (eapply oall_dec; [exact W6|exact S6|exact dec_Histogram_ok]).
  rewrite (get_scalar_shape as_var WVar 6 _ (option_map i64_of_Z (pm_ts m))) by (try reflexivity; vals_solve).
  destruct m as [ls g c s u h ts]. cbn [pm_label pm_gauge pm_counter pm_summary pm_untyped pm_histogram pm_ts] in *.
  destruct ts as [z|]; cbn [option_map oall] in *; [rewrite i64_roundtrip by exact W7|]; reflexivity.
Qed.

(* ------------------------------------------------------------------ MetricFamily *)
Definition wf_Family (f : PFamily) : Prop :=
  oall str_ok (pf_name f) /\ oall str_ok (pf_help f) /\ Forall wf_Metric (pf_metric f).
Definition flat_Family (f : PFamily) : list (N * wval) :=
  map (fun s => (1, WStr s)) (olist (pf_name f)) ++ map (fun s => (2, WStr s)) (olist (pf_help f))
  ++ map (fun n => (3, WVar n)) (olist (option_map mtype_num (pf_type f)))
  ++ map (fun m => (4, WBytes (enc_Metric m))) (pf_metric f).
Lemma enc_Family_flat f : enc_Family f = enc_flat (flat_Family f).
Proof.
  unfold flat_Family. rewrite !enc_flat_app, !enc_flat_map, !flat_map_olist, wopt_option_map. reflexivity.
Qed.
Lemma typed_Family f : wf_Family f -> Forall (typed MMetricFamily) (flat_Family f).
Proof.
  intros (H1 & H2 & H3). unfold flat_Family. rewrite !Forall_app, !Forall_map, !Forall_olist.
  repeat split.
  - destruct (pf_name f); cbn [oall] in *; [typed_field|exact I].
  - destruct (pf_help f); cbn [oall] in *; [typed_field|exact I].
  - destruct (pf_type f) as [[]|]; cbn [oall option_map] in *; [typed_field..|exact I].
  - apply Forall_forall. intros q _. typed_field.
Qed.
Lemma mtype_roundtrip t : opt_bind mtype_of_num (option_map mtype_num t) = Some t.
Proof. destruct t as [[]|]; reflexivity. Qed.

Theorem dec_Family_ok f : wf_Family f -> blen (enc_Family f) < two64 -> dec_Family (enc_Family f) = Some f.
Proof.
  intros W S. unfold dec_Family. rewrite enc_Family_flat in *.
  rewrite parse_msg_flat by (apply recs_ok_intro; [apply typed_Family; exact W|exact S]).
  apply sizes_of_total in S. fnum_eval. unfold flat_Family in *.
  rewrite !Forall_app, !Forall_map in S. destruct S as (_ & _ & _ & S). destruct W as (_ & _ & W).
  rewrite (get_scalar_shape as_str WStr 1 _ (pf_name f)) by (try reflexivity; vals_solve).
  rewrite (get_scalar_shape as_str WStr 2 _ (pf_help f)) by (try reflexivity; vals_solve).
  rewrite (get_scalar_shape as_var WVar 3 _ (option_map mtype_num (pf_type f))) by (try reflexivity; vals_solve).
  rewrite mtype_roundtrip.
  rewrite (get_msgs_shape enc_Metric 4 _ (pf_metric f)) by vals_solve.
  rewrite mapM_map; [destruct f; reflexivity|].
  rewrite Forall_forall in *. intros m Hm. apply dec_Metric_ok; [apply W; exact Hm|exact (S m Hm)].
Qed.

(* ------------------------------------------------------------------ the stream *)
Lemma dvarint_shorter fuel : forall bs v r, dvarint fuel bs = Some (v, r) -> (length r < length bs)%nat.
Proof.
  induction fuel as [|f IH]; intros bs v r H; [discriminate|].
  destruct bs as [|b bs]; [discriminate|]. rewrite dvarint_S_cons in H.
  destruct (b <? 128).
  - inversion H; subst. cbn [length]. lia.
  - destruct (dvarint f bs) as [[v' r']|] eqn:E; [|discriminate]. inversion H; subst.
    apply IH in E. cbn [length]. lia.
Qed.
Lemma decode_varint_shorter bs v r : decode_varint bs = Some (v, r) -> (length r < length bs)%nat.
Proof.
  unfold decode_varint. destruct (dvarint 10 bs) as [[v' r']|] eqn:E; [|discriminate].
  destruct (v' <? two64); [|discriminate]. intros H; inversion H; subst. eapply dvarint_shorter; eassumption.
Qed.
Lemma take_bytes_shorter n bs b r : take_bytes n bs = Some (b, r) -> (length r <= length bs)%nat.
Proof.
  unfold take_bytes. destruct (blen bs <? n); [discriminate|]. intros H; inversion H; subst.
  rewrite skipn_length. lia.
Qed.

Lemma decode_frames_S f bs :
  bs <> [] ->
  decode_frames (S f) bs =
  match decode_varint bs with
  | Some (len, r) =>
      match take_bytes len r with
      | Some (body, r') =>
          match dec_Family body with
          | Some fam => match decode_frames f r' with Some more => Some (fam :: more) | None => None end
          | None => None
          end
      | None => None
      end
  | None => None
  end.
Proof. destruct bs; [congruence|reflexivity]. Qed.

Lemma decode_frames_fuel f1 : forall f2 bs,
  (length bs <= f1)%nat -> (length bs <= f2)%nat -> decode_frames f1 bs = decode_frames f2 bs.
Proof.
  induction f1 as [|f1 IH]; intros f2 bs H1 H2.
  - destruct bs; [|cbn [length] in H1; lia]. destruct f2; reflexivity.
  - destruct bs as [|b bs]; [destruct f2; reflexivity|].
    destruct f2 as [|f2]; [cbn [length] in H2; lia|].
    rewrite !decode_frames_S by discriminate.
    destruct (decode_varint (b :: bs)) as [[len r]|] eqn:E1; [|reflexivity].
    destruct (take_bytes len r) as [[body r']|] eqn:E2; [|reflexivity].
    destruct (dec_Family body); [|reflexivity].
    apply decode_varint_shorter in E1. apply take_bytes_shorter in E2.
    rewrite (IH f2 r') by lia. reflexivity.
Qed.
Lemma decode_frames_stream fuel bs : (length bs <= fuel)%nat -> decode_frames fuel bs = decode_stream bs.
Proof. intros H. unfold decode_stream. apply decode_frames_fuel; [exact H|apply le_n]. Qed.

Lemma decode_stream_frame f rest :
  wf_Family f -> blen (enc_Family f) < two64 ->
  decode_stream (frame f ++ rest) =
  match decode_stream rest with Some more => Some (f :: more) | None => None end.
Proof.
  intros W S. unfold decode_stream at 1. unfold frame. rewrite <- !app_assoc.
  pose proof (varint_length_pos (blen (enc_Family f))) as Hpos.
  remember (length (varint (blen (enc_Family f)) ++ enc_Family f ++ rest)) as fuel eqn:Ef.
  rewrite !app_length in Ef. destruct fuel as [|fuel]; [lia|].
  rewrite decode_frames_S by apply varint_nonempty.
  rewrite varint_roundtrip by exact S. rewrite take_bytes_app. rewrite dec_Family_ok by assumption.
  rewrite decode_frames_stream by lia. reflexivity.
Qed.

Definition frames (fams : list PFamily) : list N := flat_map frame fams.

Lemma decode_stream_frames fams rest :
  Forall (fun f => wf_Family f /\ blen (enc_Family f) < two64) fams ->
  decode_stream (frames fams ++ rest) =
  match decode_stream rest with Some more => Some (fams ++ more) | None => None end.
Proof.
  induction 1 as [|f fams [W S] _ IH].
  - cbn [frames flat_map app]. destruct (decode_stream rest); reflexivity.
  - unfold frames in *. cbn [flat_map]. rewrite <- app_assoc. rewrite decode_stream_frame by assumption.
    rewrite IH. destruct (decode_stream rest); reflexivity.
Qed.

Lemma decode_stream_nil_inv bs : decode_stream bs = Some [] -> bs = [].
Proof.
  destruct bs as [|b bs]; [reflexivity|]. unfold decode_stream. cbn [length].
  rewrite decode_frames_S by discriminate.
  destruct (decode_varint (b :: bs)) as [[len r]|]; [|discriminate].
  destruct (take_bytes len r) as [[body r']|]; [|discriminate].
  destruct (dec_Family body); [|discriminate].
  destruct (decode_frames (length bs) r'); discriminate.
Qed.

(* ------------------------------------------------------------------ ProtobufEncoder::encode: what is written, when it fails *)
Definition refused (f : PFamily) : Prop := pf_metric f = [] \/ pf_name_str f = [].
Definition too_large (f : PFamily) : Prop := MAX_MESSAGE_SIZE < blen (enc_Family f).
Definition accepted (f : PFamily) : Prop := ~ refused f /\ ~ too_large f.

Lemma check_family_false f : check_family f = false <-> refused f.
Proof.
  unfold check_family, refused. destruct (pf_metric f), (pf_name_str f); cbn; split; intros H; try discriminate; auto;
    destruct H; discriminate.
Qed.
Lemma check_family_true f : check_family f = true <-> ~ refused f.
Proof.
  rewrite <- check_family_false. destruct (check_family f); split; intros H; try discriminate; auto;
    try (exfalso; apply H; reflexivity).
Qed.

Lemma encode_to_accepted pre : forall buf rest,
  Forall accepted pre -> encode_to buf (pre ++ rest) = encode_to (buf ++ frames pre) rest.
Proof.
  induction pre as [|f pre IH]; intros buf rest H.
  - cbn [app frames flat_map]. rewrite app_nil_r. reflexivity.
  - inversion H as [|? ? [Hr Hl] Hpre]; subst. cbn [app encode_to].
    apply check_family_true in Hr. rewrite Hr. cbn [negb].
    unfold too_large in Hl. rewrite ltb_false by lia.
    rewrite IH by assumption. unfold frames. cbn [flat_map]. rewrite !app_assoc. reflexivity.
Qed.
Lemma encode_to_refused buf f post : refused f -> encode_to buf (f :: post) = PErr EMsg buf.
Proof. intros H. apply check_family_false in H. cbn [encode_to]. rewrite H. reflexivity. Qed.
Lemma encode_to_too_large buf f post :
  ~ refused f -> too_large f -> encode_to buf (f :: post) = PErr EOther buf.
Proof.
  intros H Hl. apply check_family_true in H. cbn [encode_to]. rewrite H. cbn [negb].
  unfold too_large in Hl. rewrite ltb_true by exact Hl. reflexivity.
Qed.

(* the three outcomes, with the exact buffer contents *)
Theorem encode_to_cases buf fams :
  (Forall accepted fams /\ encode_to buf fams = POk (buf ++ frames fams))
  \/ (exists pre f post, fams = pre ++ f :: post /\ Forall accepted pre /\ refused f
                         /\ encode_to buf fams = PErr EMsg (buf ++ frames pre))
  \/ (exists pre f post, fams = pre ++ f :: post /\ Forall accepted pre /\ ~ refused f /\ too_large f
                         /\ encode_to buf fams = PErr EOther (buf ++ frames pre)).
Proof.
  revert buf. induction fams as [|f fams IH]; intros buf.
  - left. split; [constructor|]. cbn [frames flat_map encode_to]. rewrite app_nil_r. reflexivity.
  - destruct (check_family f) eqn:C.
    + apply check_family_true in C.
      destruct (N.ltb_spec MAX_MESSAGE_SIZE (blen (enc_Family f))) as [L|L].
      * right. right. exists [], f, fams. repeat split; auto.
        cbn [frames flat_map]. rewrite app_nil_r. apply encode_to_too_large; assumption.
      * assert (A : accepted f) by (split; [exact C|unfold too_large; lia]).
        assert (E : forall rest, encode_to buf (f :: rest) = encode_to (buf ++ frame f) rest).
        { intros rest. change (f :: rest) with ([f] ++ rest). rewrite (encode_to_accepted [f] buf rest) by (constructor; [exact A|constructor]).
          unfold frames. cbn [flat_map]. rewrite app_nil_r. reflexivity. }
        destruct (IH (buf ++ frame f)) as [[Hall Ho]|[(pre & g & post & -> & Hp & Hg & Ho)|(pre & g & post & -> & Hp & Hg & Hl & Ho)]].
        -- left. split; [constructor; assumption|]. rewrite E, Ho. unfold frames. cbn [flat_map].
           rewrite !app_assoc. reflexivity.
        -- right. left. exists (f :: pre), g, post. repeat split; auto.
           rewrite E, Ho. unfold frames. cbn [flat_map]. rewrite !app_assoc. reflexivity.
        -- right. right. exists (f :: pre), g, post. repeat split; auto.
           rewrite E, Ho. unfold frames. cbn [flat_map]. rewrite !app_assoc. reflexivity.
    + apply check_family_false in C. right. left. exists [], f, fams. repeat split; auto.
      cbn [frames flat_map]. rewrite app_nil_r. apply encode_to_refused. exact C.
Qed.

Lemma accepted_size f : accepted f -> blen (enc_Family f) < two64.
Proof. intros [_ H]. unfold too_large, MAX_MESSAGE_SIZE in H. unfold two64. lia. Qed.

Lemma encode_stream_ok_inv fams bytes :
  encode_stream fams = Ok bytes -> Forall accepted fams /\ bytes = frames fams.
Proof.
  unfold encode_stream.
  destruct (encode_to_cases [] fams) as [[Hall Ho]|[(pre & g & post & _ & _ & _ & Ho)|(pre & g & post & _ & _ & _ & _ & Ho)]];
    rewrite Ho; intros H; inversion H; subst. split; [exact Hall|reflexivity].
Qed.

Theorem encode_decode_stream fams bytes rest :
  Forall wf_Family fams -> encode_stream fams = Ok bytes ->
  decode_stream (bytes ++ rest) = match decode_stream rest with Some more => Some (fams ++ more) | None => None end.
Proof.
  intros W H. apply encode_stream_ok_inv in H. destruct H as [A ->].
  apply decode_stream_frames. rewrite Forall_forall in *. intros f Hf. split; [apply W; exact Hf|].
  apply accepted_size. apply A. exact Hf.
Qed.

Theorem roundtrip_stream fams bytes :
  Forall wf_Family fams -> encode_stream fams = Ok bytes -> decode_stream bytes = Some fams.
Proof.
  intros W H. pose proof (encode_decode_stream fams bytes [] W H) as E.
  rewrite app_nil_r in E. rewrite E. change (decode_stream []) with (Some (@nil PFamily)). cbv iota beta.
  rewrite app_nil_r. reflexivity.
Qed.

Theorem no_trailing_bytes fams bytes rest :
  Forall wf_Family fams -> encode_stream fams = Ok bytes ->
  decode_stream (bytes ++ rest) = Some fams -> rest = [].
Proof.
  intros W H D. rewrite (encode_decode_stream fams bytes rest W H) in D.
  destruct (decode_stream rest) as [more|] eqn:E; [|discriminate].
  inversion D as [D']. rewrite <- (app_nil_r fams) in D' at 2. apply app_inv_head in D'. subst more.
  apply decode_stream_nil_inv. exact E.
Qed.

Theorem encode_err_msg_iff fams :
  encode_stream fams = Err EMsg <->
  exists pre f post, fams = pre ++ f :: post /\ Forall accepted pre /\ refused f.
Proof.
  unfold encode_stream. split.
  - destruct (encode_to_cases [] fams) as [[Hall Ho]|[(pre & g & post & E & Hp & Hg & Ho)|(pre & g & post & _ & _ & _ & _ & Ho)]];
      rewrite Ho; intros H; try discriminate. exists pre, g, post. auto.
  - intros (pre & f & post & -> & Hp & Hf). rewrite encode_to_accepted by exact Hp.
    rewrite encode_to_refused by exact Hf. reflexivity.
Qed.

Theorem encode_ok_iff fams : (exists bytes, encode_stream fams = Ok bytes) <-> Forall accepted fams.
Proof.
  split.
  - intros [b H]. apply encode_stream_ok_inv in H. tauto.
  - intros H. exists (frames fams). unfold encode_stream.
    pose proof (encode_to_accepted fams [] [] H) as E. rewrite app_nil_r in E. rewrite E. reflexivity.
Qed.

Theorem refused_is_error fams f :
  In f fams -> refused f -> exists e, encode_stream fams = Err e.
Proof.
  intros Hin Hr. unfold encode_stream.
  destruct (encode_to_cases [] fams) as [[Hall Ho]|[(pre & g & post & _ & _ & _ & Ho)|(pre & g & post & _ & _ & _ & _ & Ho)]];
    rewrite Ho; eauto.
  exfalso. rewrite Forall_forall in Hall. destruct (Hall f Hin) as [Hn _]. auto.
Qed.

(* ------------------------------------------------------------------ the gathered data model (Model/Proto.v) as wire data *)
Lemma digits2_pos_bound m : (Zpos m < 2 ^ Zpos (digits2_pos m))%Z.
Proof.
  induction m as [m IH|m IH|]; cbn [digits2_pos].
  - rewrite Pos2Z.inj_succ, Z.pow_succ_r by lia. rewrite Pos2Z.inj_xI. lia.
  - rewrite Pos2Z.inj_succ, Z.pow_succ_r by lia. rewrite Pos2Z.inj_xO. lia.
  - reflexivity.
Qed.

Lemma sf2bits_bound x : valid_binary x = true -> (0 <= sf2bits x < 0x10000000000000000)%Z.
Proof.
  destruct x as [s|s| |s m e]; intros V.
  - destruct s; vm_compute; split; congruence.
  - destruct s; vm_compute; split; congruence.
  - vm_compute; split; congruence.
  - unfold valid_binary, SpecFloat.valid_binary, bounded, canonical_mantissa in V.
    apply andb_prop in V. destruct V as [V1 V2]. apply Zeq_bool_eq in V1. apply Z.leb_le in V2.
    unfold fexp, emin, emax, prec in V1, V2.
    pose proof (digits2_pos_bound m) as D. set (d := Zpos (digits2_pos m)) in *.
    assert (Hd : (d <= 53)%Z) by lia.
    assert (Hm : (Zpos m < 2 ^ 53)%Z).
    { eapply Z.lt_le_trans; [exact D|]. apply Z.pow_le_mono_r; lia. }
    assert (He : (-1074 <= e <= 971)%Z) by lia.
    unfold sf2bits. change (Z.shiftl 1 52) with 4503599627370496%Z.
    change (Z.shiftl 1 63) with 9223372036854775808%Z.
    rewrite Z.shiftl_mul_pow2 by lia. change (2 ^ 52)%Z with 4503599627370496%Z.
    change (2 ^ 53)%Z with 9007199254740992%Z in Hm.
    destruct (Z.ltb_spec (Zpos m) 4503599627370496); destruct s; lia.
Qed.

Lemma f2bits_bound x : f2bits x < two64.
Proof.
  unfold f2bits, two64. pose proof (sf2bits_bound (Prim2SF x) (Prim2SF_valid x)). lia.
Qed.

(* well-formedness of gathered families: Rust strings, u64 counts, i64 timestamps *)
Definition wf_lp (l : LabelPair) : Prop := str_ok (lp_name l) /\ str_ok (lp_value l).
Definition wf_summary (s : Summary) : Prop := s_count s < two64.
Definition wf_hist (h : Histogram) : Prop := h_count h < two64 /\ Forall (fun b => b_cum b < two64) (h_bucket h).
Definition wf_metric (m : Metric) : Prop :=
  Forall wf_lp (m_label m) /\ oall wf_summary (m_summary m) /\ oall wf_hist (m_histogram m) /\ oall i64 (m_ts m).
Definition wf_family (f : MetricFamily) : Prop :=
  str_ok (mf_name f) /\ str_ok (mf_help f) /\ Forall wf_metric (mf_metric f).

Lemma wf_pb_of_metric m : wf_metric m -> wf_Metric (pb_of_metric m).
Proof.
  intros (H1 & H2 & H3 & H4). unfold wf_Metric, pb_of_metric.
  cbn [pm_label pm_gauge pm_counter pm_summary pm_untyped pm_histogram pm_ts]. repeat split.
  - rewrite Forall_map. eapply Forall_impl; [|exact H1]. intros l [A B]. split; assumption.
  - destruct (m_gauge m); cbn [option_map oall]; [apply f2bits_bound|exact I].
  - destruct (m_counter m); cbn [option_map oall]; [apply f2bits_bound|exact I].
  - destruct (m_summary m) as [s|]; cbn [option_map oall] in *; [|exact I].
    unfold wf_Summary, pb_of_summary. cbn [ps_count ps_sum ps_quantile oall]. repeat split.
    + exact H2.
    + apply f2bits_bound.
    + rewrite Forall_map. apply Forall_forall. intros q _. split; cbn; apply f2bits_bound.
  - destruct (m_untyped m); cbn [option_map oall]; [apply f2bits_bound|exact I].
  - destruct (m_histogram m) as [h|]; cbn [option_map oall] in *; [|exact I].
    destruct H3 as [H3 H3']. unfold wf_Histogram, pb_of_hist. cbn [ph_count ph_sum ph_bucket oall]. repeat split.
    + exact H3.
    + apply f2bits_bound.
    + rewrite Forall_map. eapply Forall_impl; [|exact H3']. intros b Hb. split; cbn; [exact Hb|apply f2bits_bound].
  - exact H4.
Qed.
Lemma wf_pb_of_family f : wf_family f -> wf_Family (pb_of_family f).
Proof.
  intros (H1 & H2 & H3). unfold wf_Family, pb_of_family. cbn [pf_name pf_help pf_metric oall]. repeat split; auto.
  rewrite Forall_map. eapply Forall_impl; [|exact H3]. intros m. apply wf_pb_of_metric.
Qed.

Theorem roundtrip_gathered fams bytes :
  Forall wf_family fams -> encode_stream (map pb_of_family fams) = Ok bytes ->
  decode_stream bytes = Some (map pb_of_family fams).
Proof.
  intros W H. apply roundtrip_stream; [|exact H]. rewrite Forall_map. eapply Forall_impl; [|exact W].
  intros f. apply wf_pb_of_family.
Qed.

