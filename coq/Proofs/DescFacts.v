(* Facts about src/desc.rs: validators, the hashed byte strings, order independence. *)
Require Import PV.Base.Prelude PV.Base.Utf8 PV.Base.Fnv PV.Base.StrFacts PV.Base.SortFacts PV.Base.Utf8Facts.
Require Import PV.Model.Proto PV.Model.Desc.
From Coq Require Import Permutation Sorting.Sorted.
Open Scope N_scope.

(* ---------- the validators are exactly the two regular languages ---------- *)
Definition in_range (lo hi c : N) : Prop := lo <= c /\ c <= hi.
Definition Alpha (c : N) : Prop := in_range 0x41 0x5A c \/ in_range 0x61 0x7A c.   (* A-Z a-z *)
Definition Digit (c : N) : Prop := in_range 0x30 0x39 c.                           (* 0-9 *)
Definition LabelHead (c : N) : Prop := Alpha c \/ c = 0x5F.                        (* [a-zA-Z_] *)
Definition MetricHead (c : N) : Prop := LabelHead c \/ c = 0x3A.                   (* [a-zA-Z_:] *)
(* the language  head (head or digit)...  *)
Definition Ident (head : N -> Prop) (s : str) : Prop :=
  exists c r, s = c :: r /\ head c /\ Forall (fun x => head x \/ Digit x) r.

Lemma is_ascii_alpha_spec c : is_ascii_alpha c = true <-> Alpha c.
Proof.
  unfold is_ascii_alpha, Alpha, in_range. rewrite orb_true_iff, !andb_true_iff, !N.leb_le. tauto.
Qed.
Lemma is_ascii_digit_spec c : is_ascii_digit c = true <-> Digit c.
Proof. unfold is_ascii_digit, Digit, in_range. rewrite andb_true_iff, !N.leb_le. tauto. Qed.
Lemma cs_nocolon_spec c : cs_nocolon c = true <-> LabelHead c.
Proof. unfold cs_nocolon, LabelHead. rewrite orb_true_iff, is_ascii_alpha_spec, N.eqb_eq. tauto. Qed.
Lemma cs_colon_spec c : cs_colon c = true <-> MetricHead c.
Proof. unfold cs_colon, MetricHead. rewrite orb_true_iff, cs_nocolon_spec, N.eqb_eq. tauto. Qed.

Lemma is_valid_ident_spec cs head s :
  (forall c, cs c = true <-> head c) -> (is_valid_ident cs s = true <-> Ident head s).
Proof.
  intros Hcs. unfold is_valid_ident, Ident. destruct s as [|c r].
  - split; [discriminate|]. intros (c & r & H & _). discriminate.
  - rewrite andb_true_iff, forallb_forall, Hcs. split.
    + intros [H1 H2]. exists c, r. repeat split; auto. apply Forall_forall. intros x Hx.
      specialize (H2 x Hx). apply orb_true_iff in H2. rewrite Hcs, is_ascii_digit_spec in H2. auto.
    + intros (c' & r' & E & H1 & H2). inversion E; subst. split; auto. intros x Hx.
      rewrite Forall_forall in H2. apply orb_true_iff. rewrite Hcs, is_ascii_digit_spec. auto.
Qed.

Theorem metric_name_iff s : is_valid_metric_name s = true <-> Ident MetricHead s.
Proof. apply is_valid_ident_spec. apply cs_colon_spec. Qed.
Theorem label_name_iff s : is_valid_label_name s = true <-> Ident LabelHead s.
Proof. apply is_valid_ident_spec. apply cs_nocolon_spec. Qed.

(* every accepted character is ASCII: non-ASCII letters and digits are refused *)
Lemma metric_name_ascii s c : is_valid_metric_name s = true -> In c s -> c < 0x80.
Proof.
  intros H Hin. apply metric_name_iff in H as (c0 & r & -> & H0 & Hr). destruct Hin as [<-|Hin].
  - unfold MetricHead, LabelHead, Alpha, in_range in H0. lia.
  - rewrite Forall_forall in Hr. specialize (Hr c Hin). unfold MetricHead, LabelHead, Alpha, Digit, in_range in Hr. lia.
Qed.
Lemma label_name_ascii s c : is_valid_label_name s = true -> In c s -> c < 0x80.
Proof.
  intros H Hin. apply label_name_iff in H as (c0 & r & -> & H0 & Hr). destruct Hin as [<-|Hin].
  - unfold LabelHead, Alpha, in_range in H0. lia.
  - rewrite Forall_forall in Hr. specialize (Hr c Hin). unfold LabelHead, Alpha, Digit, in_range in Hr. lia.
Qed.
Lemma valid_label_name_wf s : is_valid_label_name s = true -> wf_str s.
Proof. intros H. apply Forall_forall. intros c Hc. apply (label_name_ascii s c H) in Hc. unfold scalar. lia. Qed.
Lemma valid_metric_name_wf s : is_valid_metric_name s = true -> wf_str s.
Proof. intros H. apply Forall_forall. intros c Hc. apply (metric_name_ascii s c H) in Hc. unfold scalar. lia. Qed.
Lemma label_name_no_dollar s : is_valid_label_name s = true -> forall r, s <> DOLLAR :: r.
Proof.
  intros H r ->. apply label_name_iff in H as (c0 & r0 & E & H0 & _). inversion E; subst.
  unfold LabelHead, Alpha, in_range, DOLLAR in H0. lia.
Qed.
Lemma label_name_is_metric_name s : is_valid_label_name s = true -> is_valid_metric_name s = true.
Proof.
  rewrite label_name_iff, metric_name_iff. intros (c & r & -> & H & Hr). exists c, r. repeat split.
  - left; auto.
  - eapply Forall_impl; [|exact Hr]. cbn. intros a [Ha|Ha]; [left; left; auto|right; auto].
Qed.

(* ---------- the hashed byte strings are injective ---------- *)
Theorem id_preimage_inj n1 vs1 n2 vs2 :
  wf_str n1 -> wf_strs vs1 -> wf_str n2 -> wf_strs vs2 ->
  (id_preimage n1 vs1 = id_preimage n2 vs2 <-> n1 = n2 /\ vs1 = vs2).
Proof.
  intros W1 W2 W3 W4. split; [|intros [-> ->]; reflexivity]. unfold id_preimage. intros E.
  apply enc_sep_inj in E; [inversion E; auto| |]; constructor; auto.
Qed.
Theorem dim_preimage_inj h1 ns1 h2 ns2 :
  wf_str h1 -> wf_strs ns1 -> wf_str h2 -> wf_strs ns2 ->
  (dim_preimage h1 ns1 = dim_preimage h2 ns2 <-> h1 = h2 /\ ns1 = ns2).
Proof.
  intros W1 W2 W3 W4. split; [|intros [-> ->]; reflexivity]. unfold dim_preimage. intros E.
  apply enc_sep_inj in E; [inversion E; auto| |]; constructor; auto.
Qed.

(* ---------- generic list facts ---------- *)
Lemma Permutation_filter {A} (f : A -> bool) l l' : Permutation l l' -> Permutation (filter f l) (filter f l').
Proof.
  induction 1 as [|x l l' P IH|x y l|l1 l2 l3 P1 IH1 P2 IH2]; cbn; auto.
  - destruct (f x); auto.
  - destruct (f x), (f y); auto. apply perm_swap.
  - eapply Permutation_trans; eauto.
Qed.
Lemma NoDup_map_inj_on {A B} (f : A -> B) l x y : NoDup (map f l) -> In x l -> In y l -> f x = f y -> x = y.
Proof.
  induction l as [|a l IH]; cbn; [tauto|]. intros ND Hx Hy E. inversion ND as [|? ? Hn ND']; subst.
  destruct Hx as [->|Hx], Hy as [->|Hy]; auto.
  - exfalso. apply Hn. rewrite E. apply in_map; auto.
  - exfalso. apply Hn. rewrite <- E. apply in_map; auto.
Qed.
Lemma filter_all_true {A} (f : A -> bool) l : (forall x, In x l -> f x = true) -> filter f l = l.
Proof. induction l as [|x l IH]; cbn; auto. intros H. rewrite (H x (or_introl eq_refl)). f_equal. auto. Qed.
Lemma filter_all_false {A} (f : A -> bool) l : (forall x, In x l -> f x = false) -> filter f l = [].
Proof. induction l as [|x l IH]; cbn; auto. intros H. rewrite (H x (or_introl eq_refl)). auto. Qed.

Definition str_le := le str_leb.
Definition sorted_strs (l : list str) := StronglySorted str_le l.
Lemma sort_strs_sorted l : sorted_strs (sort_by str_leb l).
Proof. apply sort_by_sorted; [apply str_leb_total|apply str_leb_trans]. Qed.
Lemma sorted_strs_unique l1 l2 : sorted_strs l1 -> sorted_strs l2 -> Permutation l1 l2 -> l1 = l2.
Proof. intros. apply (sorted_perm_unique str_leb); auto. intros. apply str_leb_antisym; auto. Qed.
Lemma sort_strs_perm_inv l l' : Permutation l l' -> sort_by str_leb l = sort_by str_leb l'.
Proof.
  intros. apply sort_by_perm_inv; auto; try apply str_leb_total; try apply str_leb_trans.
  intros. apply str_leb_antisym; auto.
Qed.

(* ---------- the name set built by Desc::new ---------- *)
Definition has_dollar (s : str) : bool := match s with c :: _ => c =? DOLLAR | [] => false end.
Definition dollar (v : str) : str := DOLLAR :: v.

Lemma set_insert_spec x l : sorted_strs l -> ~ In x l ->
  sorted_strs (set_insert x l) /\ Permutation (set_insert x l) (x :: l).
Proof.
  intros S Hn. unfold set_insert. apply mem_str_false in Hn. rewrite Hn. split.
  - apply insert_by_sorted; auto; [apply str_leb_total|apply str_leb_trans].
  - apply insert_by_perm.
Qed.

Lemma add_vars_spec vs : forall set names,
  sorted_strs set -> NoDup set -> add_vars vs set = Some names ->
  sorted_strs names /\ NoDup names /\ Permutation names (map dollar (rev vs) ++ set)
  /\ Forall (fun v => is_valid_label_name v = true) vs /\ (forall v, In v vs -> ~ In v set).
Proof.
  induction vs as [|v vs IH]; intros set names S ND H; cbn in H.
  - inversion H; subst. cbn. repeat split; auto. 
  - destruct (is_valid_label_name v) eqn:Ev; cbn in H; [|discriminate].
    destruct (mem_str v set) eqn:E1; cbn in H; [discriminate|].
    destruct (mem_str (DOLLAR :: v) set) eqn:E2; cbn in H; [discriminate|].
    apply mem_str_false in E1, E2.
    destruct (set_insert_spec (DOLLAR :: v) set S E2) as [S' P'].
    assert (ND' : NoDup (set_insert (DOLLAR :: v) set)).
    { eapply Permutation_NoDup; [apply Permutation_sym; exact P'|]. constructor; auto. }
    destruct (IH _ _ S' ND' H) as (Sn & NDn & Pn & Fv & Hd). repeat split; auto.
    + cbn [rev]. rewrite map_app. cbn [map]. rewrite <- app_assoc. cbn [app].
      eapply Permutation_trans; [exact Pn|]. apply Permutation_app_head. exact P'.
    + intros w [<-|Hw]; auto. intros Hin. apply (Hd w Hw).
      eapply Permutation_in; [apply Permutation_sym; exact P'|]. right; auto.
Qed.

Lemma NoDup_app_l {A} (l l' : list A) : NoDup (l ++ l') -> NoDup l.
Proof. induction l' as [|a l' IH]; [rewrite app_nil_r; auto|]. intros H. apply NoDup_remove_1 in H. auto. Qed.
Lemma NoDup_app_r {A} (l l' : list A) : NoDup (l ++ l') -> NoDup l'.
Proof. induction l as [|a l IH]; cbn; auto. intros H. inversion H; auto. Qed.
Lemma NoDup_app_disj {A} (l l' : list A) x : NoDup (l ++ l') -> In x l -> ~ In x l'.
Proof.
  induction l as [|a l IH]; cbn; [tauto|]. intros H [->|Hx] Hin.
  - inversion H; subst. apply H2. apply in_or_app. auto.
  - inversion H; subst. eapply IH; eauto.
Qed.
Lemma NoDup_app_intro {A} (a b : list A) : NoDup a -> NoDup b -> (forall v, In v b -> ~ In v a) -> NoDup (a ++ b).
Proof.
  induction a as [|x a IH]; cbn; auto. intros Ha Hb Hd. inversion Ha; subst. constructor.
  - rewrite in_app_iff. intros [H|H]; auto. apply (Hd x H). left; auto.
  - apply IH; auto. intros v Hv Hin. apply (Hd v Hv). right; auto.
Qed.
Lemma add_vars_nodup_vars vs set names :
  sorted_strs set -> NoDup set -> add_vars vs set = Some names -> NoDup vs.
Proof.
  intros S ND H. destruct (add_vars_spec vs set names S ND H) as (_ & NDn & P & _ & _).
  assert (ND2 : NoDup (map dollar (rev vs) ++ set)) by (eapply Permutation_NoDup; eauto).
  apply NoDup_app_l in ND2. apply NoDup_map_inv in ND2. apply NoDup_rev in ND2. rewrite rev_involutive in ND2. exact ND2.
Qed.

(* the converse: add_vars succeeds on valid, duplicate-free variable names disjoint from the set *)
Lemma add_vars_complete vs : forall set,
  sorted_strs set -> Forall (fun s => has_dollar s = false \/ ~ In s (map dollar vs)) set ->
  Forall (fun v => is_valid_label_name v = true) vs -> NoDup vs -> (forall v, In v vs -> ~ In v set) ->
  exists names, add_vars vs set = Some names.
Proof.
  induction vs as [|v vs IH]; intros set S Hset Fv ND Hd; cbn; [eauto|].
  inversion Fv as [|? ? Hv Fv']; subst. inversion ND as [|? ? Hnv ND']; subst. rewrite Hv. cbn.
  assert (E1 : mem_str v set = false) by (apply mem_str_false; apply Hd; left; auto). rewrite E1. cbn.
  assert (E2 : mem_str (DOLLAR :: v) set = false).
  { apply mem_str_false. intros Hin. rewrite Forall_forall in Hset. destruct (Hset _ Hin) as [H|H].
    - cbn in H. rewrite N.eqb_refl in H. discriminate.
    - apply H. left. reflexivity. }
  rewrite E2. cbn. apply mem_str_false in E2.
  destruct (set_insert_spec (DOLLAR :: v) set S E2) as [S' P']. apply IH; auto.
  - apply Forall_forall. intros s Hs. apply (Permutation_in _ P') in Hs. destruct Hs as [<-|Hs].
    + right. intros Hin. apply in_map_iff in Hin as (w & Ew & Hw). inversion Ew; subst. contradiction.
    + rewrite Forall_forall in Hset. destruct (Hset _ Hs) as [H|H]; auto. right. intros Hin. apply H. right; auto.
  - intros w Hw Hin. apply (Permutation_in _ P') in Hin. destruct Hin as [E|Hin].
    + rewrite Forall_forall in Fv'. pose proof (Fv' w Hw) as Hvw.
      eapply label_name_no_dollar; eauto.
    + apply (Hd w); auto. right; auto.
Qed.

(* ---------- Desc::new ---------- *)
Definition cnames (consts : list (str * str)) : list str := sort_by str_leb (map fst consts).
Definition cvals (consts : list (str * str)) : list str :=
  map (fun k => match alookup k consts with Some v => v | None => [] end) (cnames consts).
Definition cpairs (consts : list (str * str)) : list LabelPair :=
  sort_by lp_leb (map (fun kv => mkLP (fst kv) (snd kv)) consts).

Lemma cnames_perm consts : Permutation (cnames consts) (map fst consts).
Proof. apply sort_by_perm. Qed.
Lemma cnames_sorted consts : sorted_strs (cnames consts).
Proof. apply sort_strs_sorted. Qed.
Lemma cnames_nodup consts : NoDup (map fst consts) -> NoDup (cnames consts).
Proof. intros. eapply Permutation_NoDup; [apply Permutation_sym, cnames_perm|auto]. Qed.

Lemma desc_new_inv fq help vars consts d :
  desc_new fq help vars consts = Some d ->
  help <> [] /\ is_valid_metric_name fq = true
  /\ Forall (fun n => is_valid_label_name n = true) (map fst consts)
  /\ exists names, add_vars vars (cnames consts) = Some names
       /\ d = mkDesc fq help (cpairs consts) vars (fnv1a (id_preimage fq (cvals consts))) (fnv1a (dim_preimage help names)).
Proof.
  unfold desc_new. destruct help as [|h0 help]; [discriminate|]. cbn [is_nil].
  destruct (is_valid_metric_name fq) eqn:E1; cbn [negb]; [|discriminate].
  destruct (forallb (fun kv => is_valid_label_name (fst kv)) consts) eqn:E2; cbn [negb]; [|discriminate].
  fold (cnames consts). destruct (add_vars vars (cnames consts)) as [names|] eqn:E3; [|discriminate].
  intros H. inversion H; subst. repeat split; try congruence.
  - rewrite forallb_forall in E2. apply Forall_forall. intros n Hn. apply in_map_iff in Hn as (kv & <- & Hkv). auto.
  - exists names. split; auto.
Qed.

(* C09: Desc::new succeeds exactly when help is non-empty, all names are valid and no label
   name occurs twice among constant and variable labels *)
Theorem desc_new_ok_iff fq help vars consts :
  NoDup (map fst consts) ->
  ((exists d, desc_new fq help vars consts = Some d) <->
   help <> [] /\ is_valid_metric_name fq = true
   /\ Forall (fun n => is_valid_label_name n = true) (map fst consts ++ vars)
   /\ NoDup (map fst consts ++ vars)).
Proof.
  intros NDc. split.
  - intros [d H]. apply desc_new_inv in H as (Hh & Hfq & Hc & names & Ha & _).
    pose proof (add_vars_spec vars _ _ (cnames_sorted consts) (cnames_nodup _ NDc) Ha) as (_ & _ & _ & Fv & Hd).
    pose proof (add_vars_nodup_vars vars _ _ (cnames_sorted consts) (cnames_nodup _ NDc) Ha) as NDv.
    repeat split; auto.
    + apply Forall_app; auto.
    + apply NoDup_app_intro; auto. intros v Hv Hin. apply (Hd v Hv).
      apply (Permutation_in _ (Permutation_sym (cnames_perm consts))). exact Hin.
  - intros (Hh & Hfq & Fall & NDall). apply Forall_app in Fall as [Fc Fv].
    unfold desc_new. destruct help as [|h0 help]; [congruence|]. cbn [is_nil]. rewrite Hfq. cbn [negb].
    assert (E2 : forallb (fun kv => is_valid_label_name (fst kv)) consts = true).
    { apply forallb_forall. intros kv Hkv. rewrite Forall_forall in Fc. apply Fc. apply in_map; auto. }
    rewrite E2. cbn [negb]. fold (cnames consts).
    destruct (add_vars_complete vars (cnames consts)) as [names Hn]; auto.
    + apply cnames_sorted.
    + apply Forall_forall. intros s Hs. left. apply (Permutation_in _ (cnames_perm consts)) in Hs.
      rewrite Forall_forall in Fc. specialize (Fc s Hs). destruct s as [|c s]; [reflexivity|]. cbn.
      destruct (c =? DOLLAR) eqn:E; auto. apply N.eqb_eq in E. subst. exfalso. eapply label_name_no_dollar; eauto.
    + eapply NoDup_app_r; eauto.
    + intros v Hv Hin. apply (Permutation_in _ (cnames_perm consts)) in Hin. eapply NoDup_app_disj; eauto.
    + rewrite Hn. eauto.
Qed.

(* C15: neither result depends on the order in which the constant labels are supplied / iterated *)
Lemma lp_leb_total a b : lp_leb a b = true \/ lp_leb b a = true.
Proof. apply str_leb_total. Qed.
Lemma lp_leb_trans a b c : lp_leb a b = true -> lp_leb b c = true -> lp_leb a c = true.
Proof. apply str_leb_trans. Qed.

Lemma cpairs_perm_inv consts consts' :
  NoDup (map fst consts) -> Permutation consts consts' -> cpairs consts = cpairs consts'.
Proof.
  intros ND P. unfold cpairs. apply sort_by_perm_inv.
  - apply lp_leb_total.
  - apply lp_leb_trans.
  - apply Permutation_map; auto.
  - intros x y Hx Hy H1 H2. assert (E : lp_name x = lp_name y) by (apply str_leb_antisym; auto).
    apply in_map_iff in Hx as (kx & <- & Hkx). apply in_map_iff in Hy as (ky & <- & Hky). cbn in E.
    assert (kx = ky) by (eapply NoDup_map_inj_on; eauto). subst. reflexivity.
Qed.

Theorem desc_new_order_independent fq help vars consts consts' :
  NoDup (map fst consts) -> Permutation consts consts' ->
  desc_new fq help vars consts = desc_new fq help vars consts'.
Proof.
  intros ND P. unfold desc_new.
  assert (E1 : forallb (fun kv => is_valid_label_name (fst kv)) consts = forallb (fun kv => is_valid_label_name (fst kv)) consts').
  { apply eq_true_iff_eq. rewrite !forallb_forall. split; intros H x Hx; apply H.
    - eapply Permutation_in; [apply Permutation_sym; exact P|exact Hx].
    - eapply Permutation_in; [exact P|exact Hx]. }
  assert (E2 : sort_by str_leb (map fst consts) = sort_by str_leb (map fst consts')).
  { apply sort_strs_perm_inv. apply Permutation_map; auto. }
  rewrite <- E1, <- E2.
  assert (E3 : map (fun k => match alookup k consts with Some v => v | None => [] end) (sort_by str_leb (map fst consts))
             = map (fun k => match alookup k consts' with Some v => v | None => [] end) (sort_by str_leb (map fst consts))).
  { apply map_ext. intros k. rewrite (alookup_perm k consts consts'); auto. }
  rewrite E3. fold (cpairs consts). fold (cpairs consts'). rewrite (cpairs_perm_inv consts consts'); auto.
Qed.

(* C15: identity.  The bytes hashed for `id` are an injective function of the fully-qualified
   name and the constant-label values taken in label-name order. *)
Definition wf_consts (consts : list (str * str)) : Prop := Forall (fun kv => wf_str (fst kv) /\ wf_str (snd kv)) consts.
Lemma cvals_wf consts : wf_consts consts -> wf_strs (cvals consts).
Proof.
  intros W. unfold cvals. apply Forall_forall. intros v Hv. apply in_map_iff in Hv as (k & <- & _).
  destruct (alookup k consts) eqn:E; [|constructor]. apply alookup_In in E. unfold wf_consts in W.
  rewrite Forall_forall in W. apply (W _ E).
Qed.
Definition desc_id_bytes (fq : str) (consts : list (str * str)) : list N := id_preimage fq (cvals consts).

Theorem desc_id_bytes_iff fq1 consts1 fq2 consts2 :
  wf_str fq1 -> wf_consts consts1 -> wf_str fq2 -> wf_consts consts2 ->
  (desc_id_bytes fq1 consts1 = desc_id_bytes fq2 consts2 <-> fq1 = fq2 /\ cvals consts1 = cvals consts2).
Proof. intros. apply id_preimage_inj; auto using cvals_wf. Qed.

(* C15: dimension signature.  The bytes hashed for `dim_hash` determine, and are determined by,
   the help text, the set of constant label names and the set of variable label names. *)
Lemma names_split names vs cn :
  Permutation names (map dollar vs ++ cn) -> Forall (fun n => is_valid_label_name n = true) cn ->
  Permutation (filter has_dollar names) (map dollar vs) /\ Permutation (filter (fun s => negb (has_dollar s)) names) cn.
Proof.
  intros P Fc.
  assert (Hc : forall x, In x cn -> has_dollar x = false).
  { intros x Hx. rewrite Forall_forall in Fc. specialize (Fc x Hx). destruct x as [|c x]; auto. cbn.
    destruct (c =? DOLLAR) eqn:E; auto. apply N.eqb_eq in E. subst. exfalso. eapply label_name_no_dollar; eauto. }
  assert (Hv : forall x, In x (map dollar vs) -> has_dollar x = true).
  { intros x Hx. apply in_map_iff in Hx as (v & <- & _). cbn. apply N.eqb_refl. }
  split.
  - eapply Permutation_trans; [apply Permutation_filter; exact P|]. rewrite filter_app.
    rewrite (filter_all_true _ (map dollar vs)); auto. rewrite (filter_all_false _ cn); auto. rewrite app_nil_r. auto.
  - eapply Permutation_trans; [apply Permutation_filter; exact P|]. rewrite filter_app.
    rewrite (filter_all_false _ (map dollar vs)). 2:{ intros x Hx. rewrite (Hv x Hx). reflexivity. }
    rewrite (filter_all_true _ cn). 2:{ intros x Hx. rewrite (Hc x Hx). reflexivity. }
    auto.
Qed.

Theorem dim_names_iff vs1 cn1 names1 vs2 cn2 names2 :
  sorted_strs cn1 -> NoDup cn1 -> Forall (fun n => is_valid_label_name n = true) cn1 ->
  sorted_strs cn2 -> NoDup cn2 -> Forall (fun n => is_valid_label_name n = true) cn2 ->
  add_vars vs1 cn1 = Some names1 -> add_vars vs2 cn2 = Some names2 ->
  (names1 = names2 <-> cn1 = cn2 /\ Permutation vs1 vs2).
Proof.
  intros S1 N1 F1 S2 N2 F2 H1 H2.
  destruct (add_vars_spec _ _ _ S1 N1 H1) as (Sn1 & _ & P1 & _ & _).
  destruct (add_vars_spec _ _ _ S2 N2 H2) as (Sn2 & _ & P2 & _ & _).
  split.
  - intros ->. destruct (names_split _ _ _ P1 F1) as [A1 B1]. destruct (names_split _ _ _ P2 F2) as [A2 B2]. split.
    + apply sorted_strs_unique; auto. eapply Permutation_trans; [apply Permutation_sym; exact B1|exact B2].
    + assert (P : Permutation (map dollar (rev vs1)) (map dollar (rev vs2))).
      { eapply Permutation_trans; [apply Permutation_sym; exact A1|exact A2]. }
      apply (Permutation_map (@tl N)) in P. rewrite !map_map in P. cbn in P. rewrite !map_id in P.
      eapply Permutation_trans; [apply Permutation_rev|]. eapply Permutation_trans; [exact P|]. apply Permutation_sym, Permutation_rev.
  - intros [-> Pv]. apply sorted_strs_unique; auto.
    eapply Permutation_trans; [exact P1|]. eapply Permutation_trans; [|apply Permutation_sym; exact P2].
    apply Permutation_app_tail. apply Permutation_map.
    eapply Permutation_trans; [apply Permutation_sym, Permutation_rev|]. eapply Permutation_trans; [exact Pv|]. apply Permutation_rev.
Qed.

Definition desc_dim_bytes (help : str) (vars : list str) (consts : list (str * str)) : option (list N) :=
  option_map (dim_preimage help) (add_vars vars (cnames consts)).

Lemma names_wf vs cn names : Forall (fun n => is_valid_label_name n = true) cn ->
  sorted_strs cn -> NoDup cn -> add_vars vs cn = Some names -> wf_strs names.
Proof.
  intros Fc S ND H. destruct (add_vars_spec _ _ _ S ND H) as (_ & _ & P & Fv & _).
  apply Forall_forall. intros n Hn. apply (Permutation_in _ P) in Hn. apply in_app_or in Hn as [Hn|Hn].
  - apply in_map_iff in Hn as (v & <- & Hv). apply in_rev in Hv. rewrite Forall_forall in Fv.
    constructor; [unfold scalar, DOLLAR; lia|]. apply valid_label_name_wf. auto.
  - rewrite Forall_forall in Fc. apply valid_label_name_wf. auto.
Qed.

Theorem desc_dim_bytes_iff help1 vars1 consts1 b1 help2 vars2 consts2 b2 :
  wf_str help1 -> wf_str help2 -> NoDup (map fst consts1) -> NoDup (map fst consts2) ->
  Forall (fun n => is_valid_label_name n = true) (map fst consts1) ->
  Forall (fun n => is_valid_label_name n = true) (map fst consts2) ->
  desc_dim_bytes help1 vars1 consts1 = Some b1 -> desc_dim_bytes help2 vars2 consts2 = Some b2 ->
  (b1 = b2 <-> help1 = help2 /\ Permutation (map fst consts1) (map fst consts2) /\ Permutation vars1 vars2).
Proof.
  intros W1 W2 N1 N2 F1 F2 H1 H2. unfold desc_dim_bytes in *.
  destruct (add_vars vars1 (cnames consts1)) as [names1|] eqn:E1; [|discriminate].
  destruct (add_vars vars2 (cnames consts2)) as [names2|] eqn:E2; [|discriminate].
  cbn [option_map] in H1, H2. inversion H1; inversion H2; subst. clear H1 H2.
  assert (Fc1 : Forall (fun n => is_valid_label_name n = true) (cnames consts1)).
  { apply Forall_forall. intros n Hn. apply (Permutation_in _ (cnames_perm _)) in Hn. rewrite Forall_forall in F1. auto. }
  assert (Fc2 : Forall (fun n => is_valid_label_name n = true) (cnames consts2)).
  { apply Forall_forall. intros n Hn. apply (Permutation_in _ (cnames_perm _)) in Hn. rewrite Forall_forall in F2. auto. }
  assert (Wn1 : wf_strs names1) by (exact (names_wf _ _ _ Fc1 (cnames_sorted _) (cnames_nodup _ N1) E1)).
  assert (Wn2 : wf_strs names2) by (exact (names_wf _ _ _ Fc2 (cnames_sorted _) (cnames_nodup _ N2) E2)).
  rewrite (dim_preimage_inj help1 names1 help2 names2 W1 Wn1 W2 Wn2).
  rewrite (dim_names_iff vars1 (cnames consts1) names1 vars2 (cnames consts2) names2
             (cnames_sorted _) (cnames_nodup _ N1) Fc1 (cnames_sorted _) (cnames_nodup _ N2) Fc2 E1 E2).
  split.
  - intros (A & B & C). repeat split; auto.
    eapply Permutation_trans; [apply Permutation_sym, cnames_perm|]. rewrite B. apply cnames_perm.
  - intros (A & B & C). repeat split; auto. apply sort_strs_perm_inv. auto.
Qed.

(* what desc_new computes is the hash of exactly these byte strings *)
Theorem desc_new_hashes fq help vars consts d :
  desc_new fq help vars consts = Some d ->
  d_id d = fnv1a (desc_id_bytes fq consts)
  /\ exists b, desc_dim_bytes help vars consts = Some b /\ d_dim d = fnv1a b.
Proof.
  intros H. apply desc_new_inv in H as (_ & _ & _ & names & Ha & ->). cbn. split; auto.
  exists (dim_preimage help names). unfold desc_dim_bytes. rewrite Ha. auto.
Qed.

(* hence, up to collisions of the 64-bit hash itself: *)
Definition fnv_injective_on (pool : list (list N)) : Prop :=
  forall a b, In a pool -> In b pool -> fnv1a a = fnv1a b -> a = b.
