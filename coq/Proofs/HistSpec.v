(* The trace validator implies the executable spec written from the property text:
     xrun bounds xinit es = Some _  ->  in_domain bounds es = true  ->  spec_hist bounds es = true
   for ALL traces es.  in_domain is the spec's own executable side condition: the observation values carried by the
   call markers are +-2^k with pairwise distinct exponents k < 53 (so the set a snapshot describes can be decoded from
   its sum, and every sum is an exactly representable binary64), and the bucket bounds are non-decreasing. *)
Require Import PV.Base.Prelude PV.Base.F64 PV.Model.Conc PV.Model.HistConc PV.Model.HistExec PV.Spec.SpecC02.
Require Import PV.Proofs.HistConcLemmas PV.Proofs.HistConcInv PV.Proofs.HistConcProof PV.Proofs.HistConcOwn.
Require Import PV.Proofs.HistExecSound PV.Proofs.HistExecInv PV.Proofs.HistConcThms.
Require Import PV.Proofs.HistValues PV.Proofs.HistLog PV.Proofs.HistReads PV.Proofs.HistMain.
Require Import PV.Proofs.HistSpecArith PV.Proofs.HistSpecFloat PV.Proofs.HistSpecSim PV.Proofs.HistSpecInv PV.Proofs.HistSpecSnap.
From Coq Require Import ZArith Lia Bool Arith Permutation.
Open Scope Z_scope.

Definition trace_vals (es : list event) : list Z := flat_map evals es.
Definition val_ok53 (v : Z) : bool := (Z.abs v =? 2 ^ vexp v) && (vexp v <? 53).
Fixpoint nondecrb (l : list Z) : bool :=
  match l with [] => true | a :: r => match r with [] => true | b :: _ => a <=? b end && nondecrb r end.
Definition in_domain (bounds : list Z) (es : list event) : bool :=
  forallb val_ok53 (trace_vals es) && distinctb (map vexp (trace_vals es)) && nondecrb bounds.

Lemma nondecrb_nondecr l : nondecrb l = true -> nondecr l.
Proof.
  induction l as [|a l IH]; cbn [nondecrb nondecr]; auto. intros H. apply andb_true_iff in H as [H1 H2]. split; auto.
  destruct l; auto. apply Z.leb_le; auto.
Qed.

Lemma in_domain_Dom53 bounds es : in_domain bounds es = true -> Dom53 (trace_vals es) /\ nondecr bounds.
Proof.
  unfold in_domain. intros H. apply andb_true_iff in H as [H H3]. apply andb_true_iff in H as [H1 H2].
  split; [|apply nondecrb_nondecr; auto]. rewrite forallb_forall in H1.
  split; [split|]; [| apply distinctb_NoDup; auto |].
  - apply Forall_forall. intros v Hv. specialize (H1 v Hv). unfold val_ok53 in H1. apply andb_true_iff in H1 as [A Bq].
    apply Z.eqb_eq in A. apply Z.ltb_lt in Bq. repeat split; auto; [apply Z.log2_nonneg|lia].
  - apply Forall_forall. intros v Hv. specialize (H1 v Hv). unfold val_ok53 in H1. apply andb_true_iff in H1 as [_ Bq]. apply Z.ltb_lt in Bq. auto.
Qed.

Section T.
Variable bounds : list Z.
Hypothesis Hnd : nondecr bounds.

Lemma hexec_call_vals x t c x' : hexec bounds x (ECall t c) = Some x' ->
  match c with CObs _ | CBatch _ => call_vals (ECall t c) <> None | _ => True end.
Proof.
  intros H. destruct c; auto; unfold HistExec.hexec in H; break_match H; cbn [call_vals]; try rewrite E1; try discriminate.
  fold (bits_vals bits) in E1. rewrite E1. discriminate.
Qed.

Lemma sstep_ret_unit s t :
  sstep bounds s (ERet t RUnit) =
  {| s_obs := mark_done t (s_obs s); s_col := s_col s; s_sums := s_sums s; s_pending := remove_nat t (s_pending s); s_reads := s_reads s; s_ok := s_ok s |}.
Proof. reflexivity. Qed.

Lemma kcol_not o s t cc : J o s -> In cc (s_col s) -> (forall l0, kind_of (ax (ox o) t) <> KCol l0) -> cc_t cc <> t.
Proof. intros Jv Hc Hk E. destruct (J_col _ _ Jv cc Hc) as (l0 & A1 & _). rewrite E in A1. eapply Hk; eauto. Qed.
Lemma kread_not o s t u q : J o s -> In (u, q) (s_reads s) -> kind_of (ax (ox o) t) <> KCount -> kind_of (ax (ox o) t) <> KSum -> u <> t.
Proof. intros Jv Hr H1 H2 E. subst. destruct (J_reads_kind _ _ Jv _ _ Hr); auto. Qed.

Definition step_goal (o : ost) (s : sst) (e : event) (o' : ost) : Prop :=
  J o' (sstep bounds s e) /\ s_ok (sstep bounds s e) = true /\ all_vals (s_obs (sstep bounds s e)) = all_vals (s_obs s) ++ evals e.

(* ---- invocations ---- *)
Lemma step_call o s t c o' :
  RI bounds o -> J o s -> s_ok s = true -> ostep bounds o (ECall t c) = Some o' -> step_goal o s (ECall t c) o'.
Proof.
  intros R Jv Hok Hs. unfold step_goal.
  destruct (ostep_fields bounds _ _ _ Hs) as (Hx & _).
  pose proof (hexec_ax bounds _ _ _ Hx) as [Hax (Hat & Hat' & Hkn & _)]. cbn [ev_tid] in Hax.
  pose proof (hexec_class bounds _ _ _ Hx) as C.
  pose proof R as (G & SI & OI & _). pose proof G as (I & X & Ow).
  destruct C as [t0 c0 vs cc ws He Hv Hidle Hpl Hrecs Hthr | t0 cc ws Ht Hv Hcl Hrecs Hthr | Hv Hq].
  - inversion He; subst t0 c0. unfold evals. rewrite Hv.
    assert (Hobs : ax (ox o') t = AObs) by (rewrite Hat'; destruct c; cbn in Hv; try discriminate Hv; reflexivity).
    destruct Hpl as (Hne & _). split; [eapply J_call_obs; eauto|]. rewrite (sstep_obs_call bounds s t c vs Hv). cbn [s_ok s_obs]. split; auto.
    rewrite all_vals_app. unfold all_vals at 2. cbn. rewrite app_nil_r. reflexivity.
  - exfalso. cbn [ev_tid] in Ht. subst t0. rewrite (X_none _ X t Hat) in Hcl. discriminate.
  - pose proof (hexec_call_vals _ _ _ _ Hx) as Hcv. unfold evals. rewrite Hv. rewrite app_nil_r.
    destruct c; try (exfalso; apply Hkn; reflexivity); try (exfalso; apply Hcv; exact Hv).
    + (* collect *)
      rewrite sstep_collect_call. cbn [s_ok s_obs]. split; [|auto].
      eapply (J_call_other bounds o s t CCollect o'); eauto.
      * rewrite Hat'. discriminate.
      * intros c' [<-|[]]. cbn. auto.
      * intros l0. rewrite Hat'. cbn. intros E. inversion E. split; [rewrite (O_vlen _ _ OI); reflexivity|discriminate].
      * intros _. rewrite Hat'. cbn. eauto.
      * intros u q [].
    + (* get_sample_count *)
      rewrite (sstep_read_call bounds s t CSCount) by auto. cbn [s_ok s_obs]. split; [|auto].
      eapply (J_call_other bounds o s t CSCount o'); eauto.
      * rewrite Hat'. discriminate.
      * intros c' [].
      * intros l0. rewrite Hat'. discriminate.
      * intros H; exfalso; apply H; reflexivity.
      * intros u q [E|[]]. inversion E; subst. rewrite Hat'. cbn. auto.
    + (* get_sample_sum *)
      rewrite (sstep_read_call bounds s t CSSum) by auto. cbn [s_ok s_obs]. split; [|auto].
      eapply (J_call_other bounds o s t CSSum o'); eauto.
      * rewrite Hat'. discriminate.
      * intros c' [].
      * intros l0. rewrite Hat'. discriminate.
      * intros H; exfalso; apply H; reflexivity.
      * intros u q [E|[]]. inversion E; subst. rewrite Hat'. cbn. auto.
Qed.


(* ---- atomic steps, lock attempts, unlocks ---- *)
Definition internal (e : event) : Prop :=
  match e with EAt _ _ _ _ _ _ _ _ | ELock _ _ _ _ | EUnlock _ _ _ => True | _ => False end.

Lemma step_internal o s e o' :
  internal e -> RI bounds o -> J o s -> s_ok s = true -> ostep bounds o e = Some o' -> step_goal o s e o'.
Proof.
  intros Hi R Jv Hok Hs. unfold step_goal.
  destruct (ostep_fields bounds _ _ _ Hs) as (Hx & _).
  pose proof (hexec_ax bounds _ _ _ Hx) as [Hax Hev].
  pose proof (hexec_class bounds _ _ _ Hx) as C.
  assert (Hst : sstep bounds s e = s) by (destruct e; try contradiction; reflexivity).
  assert (Hcv : call_vals e = None) by (destruct e; try contradiction; reflexivity).
  assert (Hk : kind_of (ax (ox o') (ev_tid e)) = kind_of (ax (ox o) (ev_tid e)) /\ kind_of (ax (ox o) (ev_tid e)) <> KNone).
  { destruct e; try contradiction; cbn [ev_tid]; tauto. }
  destruct Hk as [Hk Hnn].
  assert (Hnr : forall r, e <> ERet (ev_tid e) r) by (intros r E; rewrite E in Hi; exact Hi).
  assert (Hnc : forall c, e <> ECall (ev_tid e) c) by (intros c E; rewrite E in Hi; exact Hi).
  rewrite Hst. unfold evals. rewrite Hcv, app_nil_r. split; [|auto].
  destruct C as [t0 c0 vs cc ws He _ _ _ _ _ | t0 cc ws Ht _ Hcl Hrecs Hthr | _ Hq].
  - exfalso. rewrite He in Hi. exact Hi.
  - eapply (J_claim bounds o s e o' t0); eauto. rewrite <- Ht; auto. intros u Hu. apply Hax. rewrite Ht; auto.
  - eapply (J_internal_other bounds o s e o' (ev_tid e)); eauto.
Qed.

(* ---- an observe / flush returns ---- *)
Lemma step_ret_unit o s t o' :
  RI bounds o -> J o s -> s_ok s = true -> ostep bounds o (ERet t RUnit) = Some o' -> step_goal o s (ERet t RUnit) o'.
Proof.
  intros R Jv Hok Hs. unfold step_goal.
  destruct (ostep_fields bounds _ _ _ Hs) as (Hx & _).
  pose proof (hexec_ax bounds _ _ _ Hx) as [Hax (Hbase & Hat' & Hkn & Hrm & _)]. cbn [ev_tid] in Hax. cbn [ret_match] in Hrm.
  pose proof R as (G & SI & OI & _). pose proof G as (I & X & Ow).
  assert (Hnn : ax (ox o) t <> ANone) by (rewrite Hrm; discriminate).
  assert (Hidle : thr (base (ox o)) t = Idle) by (apply (X_obsret _ X); auto).
  rewrite sstep_ret_unit. cbn [s_ok s_obs]. unfold evals. cbn [call_vals]. rewrite app_nil_r.
  split; [|split; [auto|rewrite !all_vals_tv, mark_done_tv; reflexivity]].
  eapply (J_return bounds o s (ERet t RUnit) o' t); eauto.
  - apply mark_done_tv.
  - intros oc Hoc Hd. destruct (mark_done_in _ _ _ Hoc Hd) as [Hin|(Et & oc0 & Hin & Et0 & Ev)].
    + apply (J_done _ _ Jv oc Hin Hd).
    + rewrite <- Ev. eapply (call_has_ticket bounds o s t); eauto. rewrite Hidle; reflexivity. apply cvals_in; auto.
  - intros c Hc. split; auto. eapply kcol_not; eauto. intros l0. rewrite Hrm. discriminate.
  - intros u q Hu. split; auto. eapply kread_not; eauto; rewrite Hrm; discriminate.
Qed.


(* ---- a collection returns: the snapshot check ---- *)
Lemma step_ret_snap o s t cnt sum bks o' :
  RI bounds o -> J o s -> s_ok s = true -> Dom53 (all_vals (s_obs s)) ->
  ostep bounds o (ERet t (RSnap cnt sum bks)) = Some o' -> step_goal o s (ERet t (RSnap cnt sum bks)) o'.
Proof.
  intros R Jv Hok D Hs. unfold step_goal.
  pose proof (RI_step bounds _ _ _ R Hs) as R'.
  destruct (ostep_fields bounds _ _ _ Hs) as (Hx & _ & _ & Hsame & _).
  pose proof (hexec_ax bounds _ _ _ Hx) as [Hax (Hbase & Hat' & Hkn & Hrm & _)]. cbn [ev_tid] in Hax. cbn [ret_match] in Hrm.
  pose proof R as (G & SI & OI & _). pose proof G as (I & X & Ow).
  destruct Hrm as (l0 & k & N & sv & bs & Ha).
  assert (Hnn : ax (ox o) t <> ANone) by (rewrite Ha; discriminate).
  assert (Hidle : thr (base (ox o)) t = Idle) by (destruct (X_colret _ X _ _ _ _ _ _ Ha) as (_ & _ & _ & H); auto).
  destruct (returned_snapshot_is_cut bounds _ _ _ _ _ _ Hx) as (c & Hc & Hl1 & Hcnt & Hsum & Hbk).
  assert (Hc0 : cut_l0 c = l0 /\ cut_k c = k).
  { clear - Hx Ha Hc. unfold HistExec.hexec in Hx. rewrite Ha in Hx. break_match Hx. inversion Hx as [H0]. rewrite <- H0 in Hc. cbn [cuts] in Hc. inversion Hc; subst. auto. }
  destruct Hc0 as [Hc1 Hc2].
  destruct R' as (G' & _ & OI' & es1 & Hr1).
  assert (Hin : In c (cuts (ox o'))) by (rewrite Hc; left; reflexivity).
  destruct (cut_describes_set bounds _ _ _ Hr1 Hin) as (A1 & A2 & A3 & A4 & A5).
  destruct Hsame as [Hv _]; [rewrite Hbase; reflexivity|].
  assert (Hpv : prefix_values o' (cut_k c) = prefix_values o k) by (unfold prefix_values; rewrite Hv, Hc2; reflexivity).
  rewrite Hpv in *. rewrite Hc1, Hc2, Hv in *.
  rewrite A4 in Hcnt, Hsum, Hbk, A5. cbn [fst snd] in Hcnt, Hsum, Hbk, A5. rewrite (A5 Hnd) in Hbk.
  unfold evals. cbn [call_vals]. rewrite app_nil_r.
  unfold sstep. destruct (find (fun cc => Nat.eqb (cc_t cc) t) (s_col s)) as [cc|] eqn:Ef.
  2: { exfalso. destruct (J_col_ex _ _ Jv t l0) as (cc0 & Hcc0 & Hcct); [rewrite Ha; reflexivity|].
       pose proof (find_none _ _ Ef cc0 Hcc0) as Hn. cbn in Hn. rewrite Hcct, Nat.eqb_refl in Hn. discriminate. }
  apply find_some in Ef as [Hcc Et]. apply Nat.eqb_eq in Et.
  assert (Hkc : kind_of (ax (ox o) (cc_t cc)) = KCol l0) by (rewrite Et, Ha; reflexivity).
  assert (Hk1 : (k <= length (vlog o))%nat) by lia. assert (Hk0 : (l0 <= k)%nat) by lia.
  destruct (snapshot_ok bounds o s k OI G Jv D Hk1 l0 cc cnt sum bks Hk0 Hcc Hkc Hcnt Hsum Hbk) as (S1 & S2 & S3).
  rewrite S1, S2. cbn [s_ok s_obs]. split; [|split; [rewrite Hok, S3; reflexivity|reflexivity]].
  eapply (J_return bounds o s (ERet t (RSnap cnt sum bks)) o' t); eauto.
  - intros oc Hoc Hd. apply (J_done _ _ Jv); auto.
  - intros c' Hc'. apply filter_In in Hc' as [H1 H2]. split; auto. apply negb_true_iff in H2. apply Nat.eqb_neq in H2. auto.
  - intros c' H1 H2. apply filter_In. split; auto. apply negb_true_iff. apply Nat.eqb_neq. auto.
  - intros m [<-|Hm]; [right; exists k; split; [lia|reflexivity]|left; auto].
  - intros u q Hu. split; auto. eapply kread_not; eauto; rewrite Ha; discriminate.
Qed.

(* ---- get_sample_count / get_sample_sum return ---- *)
Lemma step_ret_val o s t b o' :
  RI bounds o -> J o s -> s_ok s = true -> Dom53 (all_vals (s_obs s)) ->
  ostep bounds o (ERet t (RVal b)) = Some o' -> step_goal o s (ERet t (RVal b)) o'.
Proof.
  intros R Jv Hok D Hs. unfold step_goal.
  destruct (ostep_fields bounds _ _ _ Hs) as (Hx & _).
  pose proof (hexec_ax bounds _ _ _ Hx) as [Hax (Hbase & Hat' & Hkn & Hrm & _)]. cbn [ev_tid] in Hax. cbn [ret_match] in Hrm.
  pose proof R as (G & SI & OI & _). pose proof G as (I & X & Ow).
  assert (Hnn : ax (ox o) t <> ANone) by (intros E; rewrite E in Hkn; apply Hkn; reflexivity).
  assert (Hidle : thr (base (ox o)) t = Idle).
  { apply (X_reads _ X). destruct Hrm as [(v & E & _)|(h & v & E & _)]; rewrite E; eauto 8. }
  assert (Hkr : forall l0, kind_of (ax (ox o) t) <> KCol l0) by (intros l0; destruct Hrm as [(v & E & _)|(h & v & E & _)]; rewrite E; discriminate).
  assert (Hgen : forall ok', J o' {| s_obs := s_obs s; s_col := s_col s; s_sums := s_sums s; s_pending := remove_nat t (s_pending s);
                                    s_reads := filter (fun r => negb (Nat.eqb (fst r) t)) (s_reads s); s_ok := ok' |}).
  { intros ok'. eapply (J_return bounds o s (ERet t (RVal b)) o' t); eauto.
    - intros oc Hoc Hd. apply (J_done _ _ Jv); auto.
    - intros c' Hc'. split; auto. eapply kcol_not; eauto.
    - intros u q Hu. apply filter_In in Hu as [H1 H2]. split; auto. cbn [fst] in H2. apply negb_true_iff in H2. apply Nat.eqb_neq in H2. auto. }
  unfold evals. cbn [call_vals]. rewrite app_nil_r.
  unfold sstep. destruct (find (fun r => Nat.eqb (fst r) t) (s_reads s)) as [[u [|]]|] eqn:Ef; cbn [s_ok s_obs]; try (split; [apply Hgen|auto]; fail).
  apply find_some in Ef as [Hu Et]. cbn [fst] in Et. apply Nat.eqb_eq in Et. subst u.
  destruct (J_reads _ _ Jv t Hu) as (P1 & P2 & P3).
  split; [apply Hgen|]. split; [|reflexivity]. rewrite Hok. cbn [andb].
  destruct D as [DD DF].
  destruct Hrm as [(v & E & Hb)|(h & v & E & Hb)].
  - (* count *) apply orb_true_iff. left. apply Z.eqb_eq. rewrite Hb, (P2 v E), count_in_eq, total_mask_eq.
    rewrite (count_members (all_vals (s_obs s)) (all_vals (s_obs s))); [|auto|apply incl_refl|apply Dom_NoDup; auto].
    unfold zcount. f_equal. f_equal. generalize (all_vals (s_obs s)). intros l. induction l as [|a l IHl]; cbn [filter]; auto. f_equal. exact IHl.
  - (* sum *) apply orb_true_iff. right. rewrite Hb, zbits_roundtrip.
    + apply Z.eqb_eq. rewrite (P3 _ _ _ _ E), total_sum_eq. reflexivity.
    + rewrite (P3 _ _ _ _ E). apply zsum_bound; auto.
Qed.

(* ---- every accepted event ---- *)
Theorem sim_step o s e o' :
  RI bounds o -> J o s -> s_ok s = true -> Dom53 (all_vals (s_obs s) ++ evals e) ->
  ostep bounds o e = Some o' -> step_goal o s e o'.
Proof.
  intros R Jv Hok HD Hs.
  assert (D : Dom53 (all_vals (s_obs s))) by (eapply Dom53_app_l; eauto).
  destruct (ostep_fields bounds _ _ _ Hs) as (Hx & _).
  pose proof (hexec_ax bounds _ _ _ Hx) as [_ Hev].
  destruct e; try contradiction.
  - apply step_call; auto.
  - destruct r.
    + apply step_ret_unit; auto.
    + apply step_ret_val; auto.
    + apply step_ret_snap; auto.
    + exfalso. destruct Hev as (_ & _ & _ & Hrm & _). exact Hrm.
    + exfalso. destruct Hev as (_ & _ & _ & Hrm & _). exact Hrm.
  - apply step_internal; auto. exact I.
  - apply step_internal; auto. exact I.
  - apply step_internal; auto. exact I.
Qed.

Theorem sim_run es : forall o s o',
  RI bounds o -> J o s -> s_ok s = true -> Dom53 (all_vals (s_obs s) ++ trace_vals es) ->
  orun bounds o es = Some o' -> s_ok (fold_left (sstep bounds) es s) = true.
Proof.
  induction es as [|e es IH]; intros o s o' R Jv Hok HD Hr; cbn [fold_left]; auto.
  cbn [orun] in Hr. destruct (ostep bounds o e) as [o1|] eqn:Es; [|discriminate].
  unfold trace_vals in HD. cbn [flat_map] in HD. fold (trace_vals es) in HD. rewrite app_assoc in HD.
  destruct (sim_step o s e o1 R Jv Hok (Dom53_app_l _ _ HD) Es) as (J1 & Ok1 & Av).
  apply (IH o1 _ o'); auto.
  - eapply RI_step; eauto.
  - rewrite Av. exact HD.
Qed.

End T.

(* the uniform statement: a trace accepted by the validator, inside the spec's domain, satisfies the executable spec *)
Theorem spec_of_validated bounds es x :
  xrun bounds xinit es = Some x -> in_domain bounds es = true -> spec_hist bounds es = true.
Proof.
  intros Hr Hd. destruct (in_domain_Dom53 _ _ Hd) as [D Hn].
  destruct (xrun_orun bounds es oinit x Hr) as (o & Ho & _).
  unfold spec_hist. apply (sim_run bounds Hn es oinit sinit o); auto.
  - apply RI_init.
  - apply J_init.
Qed.
