(* C04 end to end: what Registry::gather returns lies inside the domain of the text round trip.

   [family_valid] (Proofs/TextFacts.v) is the hypothesis of c04_roundtrip.  Here it is derived for
   `gather_families p l collected` (Model/Registry.v):
   - names: from C09 (Proofs/C09Facts.v: gather_names_wf, for library collectors admitted by register
     on a registry built by new_custom; nothing is re-proved);
   - help texts and label values are strings of Unicode scalar values: the Rust typing invariant of
     `String`, stated as hypotheses on the collected families and on the common labels (gather only
     rearranges and concatenates);
   - a histogram sample has no label called le: the constructors of the library refuse it for the
     metric's own labels ([lib_family_reserved], from hcore_new / vec_create of C09); for the registry's
     COMMON labels Registry::new_custom refuses the name le since the repair `fix: refuse the reserved
     label name le among the registry's common labels` ([new_custom_no_le], from reg_new_custom_ok_iff);
     before that repair this was a hypothesis the library did not enforce (Props/C04.v records the
     history that exposed h_bucket{le="x",le="1"});
   - the library produces no summaries and no UNTYPED families, so the quantile clause is vacuous and
     the encoder cannot return Err on a gathered list;
   - families of one name are merged by gather and typed after the first: the le clause of the merged
     family needs "collectors sharing a name share a type" ([agree_type], the hypothesis of C14). *)
From Coq Require Import String Permutation.
Require Import PV.Base.Prelude PV.Base.F64 PV.Base.Utf8 PV.Base.Utf8Facts PV.Base.StrFacts PV.Base.SortFacts.
Require Import PV.Model.Proto PV.Model.Desc PV.Model.Value PV.Model.Hist PV.Model.Vec PV.Model.Registry.
Require Import PV.Model.Text PV.Model.TextParse.
Require Import PV.Spec.SpecC04.
Require Import PV.Proofs.GatherFacts PV.Proofs.C09Facts.
Require Import PV.Proofs.TextEscape PV.Proofs.TextLine PV.Proofs.TextFamily PV.Proofs.TextFacts.
Open Scope N_scope.

(* ------------------------------------------------------------------ hypotheses on what the collectors return *)
(* Rust's String: help and label values are lists of scalar values *)
Definition strings_wf (f : MetricFamily) : Prop :=
  wf_str (mf_help f) /\ forall m l, In m (mf_metric f) -> In l (m_label m) -> wf_str (lp_value l).
Definition common_strings_wf (labels : option (list (str * str))) : Prop :=
  forall kv, In kv (match labels with Some l => l | None => [] end) -> wf_str (snd kv).
(* no own label le on histogram samples, no own label quantile on summary samples *)
Definition reserved_free (f : MetricFamily) : Prop :=
  forall m l, In m (mf_metric f) -> In l (m_label m) ->
    (mf_type f = HISTOGRAM -> lp_name l <> k_le) /\ (mf_type f = SUMMARY -> lp_name l <> k_quantile).
(* the registry's common labels are not called le (quantile) when a histogram (summary) is collected *)
Definition common_reserved_free (labels : option (list (str * str))) (collected : list MetricFamily) : Prop :=
  forall f, In f collected -> mf_metric f <> [] ->
    (mf_type f = HISTOGRAM -> ~ In k_le (common_names labels)) /\ (mf_type f = SUMMARY -> ~ In k_quantile (common_names labels)).

(* ------------------------------------------------------------------ the samples of a gathered family *)
Lemma with_common_label_In l ms m lp :
  In m (with_common l ms) -> In lp (m_label m) ->
  (exists m0, In m0 ms /\ In lp (m_label m0))
  \/ (exists kv, In kv (match l with Some x => x | None => [] end) /\ lp = mkLP (fst kv) (snd kv)).
Proof.
  destruct l as [cl|]; cbn [with_common].
  - intros Hm Hlp. apply in_map_iff in Hm as (m0 & <- & Hm0). unfold add_labels in Hlp. cbn [m_label] in Hlp.
    apply in_app_or in Hlp as [Hlp|Hlp]; [left; eauto|right].
    apply (Permutation_in lp (common_pairs_Perm cl)) in Hlp. apply in_map_iff in Hlp as (kv & <- & Hkv). eauto.
  - intros Hm Hlp. left. eauto.
Qed.

(* ------------------------------------------------------------------ gather keeps families valid: general form *)
Theorem gather_family_valid_gen p l collected :
  Forall C09Facts.family_wf (gather_families p l collected) ->
  agree_type collected ->
  Forall strings_wf collected -> common_strings_wf l ->
  Forall reserved_free collected -> common_reserved_free l collected ->
  Forall family_valid (gather_families p l collected).
Proof.
  intros Hwf Hagree Hstr Hcstr Hres Hcres. rewrite Forall_forall in *. intros g Hg.
  destruct (Hwf g Hg) as [Hname Hmetrics].
  apply gather_In in Hg as (n & _ & Hg). apply gathered_family_inv in Hg as (f & r & _ & Hf & En & Hne & ->).
  cbn [mf_name mf_metric] in Hname, Hmetrics. unfold family_valid. cbn [mf_name mf_help mf_type mf_metric].
  split; [exact Hname|]. split; [apply (Hstr f Hf)|].
  intros m lp Hm Hlp. rewrite Forall_forall in Hmetrics. destruct (Hmetrics m Hm) as [Hvalid _].
  split. { rewrite Forall_forall in Hvalid. apply Hvalid. apply in_map, Hlp. }
  destruct (with_common_label_In _ _ _ _ Hm Hlp) as [(m0 & Hm0 & Hlp0)|(kv & Hkv & ->)].
  - apply -> (sort_by_In metric_leb) in Hm0. apply metrics_of_In in Hm0 as (f0 & Hf0 & En0 & Hm0).
    assert (Hne0 : mf_metric f0 <> []) by (intros X; rewrite X in Hm0; destruct Hm0).
    assert (Et : mf_type f = mf_type f0) by (apply Hagree; auto; congruence).
    split; [apply (proj2 (Hstr f0 Hf0) m0 lp Hm0 Hlp0)|]. rewrite Et. apply (Hres f0 Hf0 m0 lp Hm0 Hlp0).
  - cbn [lp_name lp_value]. split; [apply Hcstr, Hkv|].
    assert (Hin : In (fst kv) (common_names l)).
    { unfold common_names. destruct l as [cl|]; [apply in_map, Hkv|destruct Hkv]. }
    destruct (Hcres f Hf Hne) as [H1 H2]. split; intros Ht E; [apply (H1 Ht)|apply (H2 Ht)]; rewrite <- E; exact Hin.
Qed.

(* ------------------------------------------------------------------ what library collectors return *)
Lemma lib_hist_no_le o vals h0 h m h' lp :
  map_like (o_consts (ho_common o)) -> hcore_new o vals = Ok h0 -> same_hmeta h h0 -> hist_metric h = Some (m, h') ->
  In lp (m_label m) -> lp_name lp <> k_le.
Proof.
  intros ND Hn [_ E2] Hm Hlp E. apply (hcore_new_wf o vals h0 ND) in Hn as (_ & _ & P & Hle). apply Hle.
  apply (Permutation_in _ P). rewrite <- E2, <- (hist_metric_labels _ _ _ Hm).
  change BUCKET_LABEL with k_le. rewrite <- E. apply in_map, Hlp.
Qed.

(* the library hands gather counters, gauges and histograms only, and its histogram samples carry no le *)
Theorem lib_family_reserved d mf :
  lib_family d mf ->
  (mf_type mf = COUNTER \/ mf_type mf = GAUGE \/ mf_type mf = HISTOGRAM) /\ reserved_free mf.
Proof.
  intros H. destruct H as [o t k vals c0 c ND Hn Hs|o vals h0 h m h' ND Hn Hs Hm|o kind v ms ND Hv Hms|name help v d Hd].
  - unfold value_collect, reserved_free. cbn [mf_type mf_metric]. destruct (vc_type c); cbn [valtype_mtype]; split; auto;
      intros m l _ _; split; discriminate.
  - unfold reserved_free. cbn [mf_type mf_metric]. split; [auto|]. intros m0 lp [<-|[]] Hlp. split; [|discriminate].
    intros _. eapply lib_hist_no_le; eauto.
  - unfold reserved_free. cbn [mf_type mf_metric]. destruct kind as [t k|bs]; cbn [veckind_mtype].
    + destruct t; cbn [valtype_mtype]; split; auto; intros m l _ _; split; discriminate.
    + split; [auto|]. intros m lp Hm Hlp. split; [|discriminate]. intros _. rewrite Forall_forall in Hms.
      specialize (Hms m Hm). inversion Hms as [|bs' vals h0 h m' h' Hn Hs Hhm]; subst.
      eapply (lib_hist_no_le (mkHOpts o bs)); eauto.
  - unfold reserved_free. cbn [mf_type mf_metric]. split; auto. intros m l _ _. split; discriminate.
Qed.

(* ------------------------------------------------------------------ gather of library collectors *)
Definition lib_collected {C} (p : option str) (l : option (list (str * str))) (collected : list MetricFamily) : Prop :=
  Forall (fun mf => exists d, lib_family d mf /\ @admitted C p l d) collected.

(* a registry accepted by new_custom has no common label called le *)
Lemma new_custom_no_le {C} p l : (exists r0 : regcore C, reg_new_custom p l = Ok r0) -> ~ In k_le (common_names l).
Proof. intros H. apply reg_new_custom_ok_iff in H as (_ & _ & H). exact H. Qed.

Theorem gather_family_valid_lib {C} p l collected :
  (exists r0 : regcore C, reg_new_custom p l = Ok r0) ->
  map_like match l with Some x => x | None => [] end ->
  @lib_collected C p l collected ->
  agree_type collected ->
  Forall strings_wf collected -> common_strings_wf l ->
  Forall family_valid (gather_families p l collected).
Proof.
  intros Hr ND Hlib Hagree Hstr Hcstr. apply gather_family_valid_gen; auto.
  - apply (@gather_names_wf C); auto.
  - eapply Forall_impl; [|exact Hlib]. intros mf (d & Hf & _). apply (lib_family_reserved d mf Hf).
  - intros f Hf _. unfold lib_collected in Hlib. rewrite Forall_forall in Hlib. destruct (Hlib f Hf) as (d & Hd & _).
    destruct (lib_family_reserved d f Hd) as [Ht _]. split; [intros _; apply (new_custom_no_le p l Hr)|].
    intros E. rewrite E in Ht. destruct Ht as [X|[X|X]]; discriminate.
Qed.

(* ------------------------------------------------------------------ the encoder cannot refuse a gathered list *)
Theorem gathered_not_bad p l collected g :
  Forall C09Facts.family_wf (gather_families p l collected) ->
  (forall f, In f collected -> mf_type f <> UNTYPED) ->
  In g (gather_families p l collected) -> ~ family_bad g.
Proof.
  intros Hwf Hty Hg [H|[H|H]].
  - exact (gather_no_empty_family p l collected g Hg H).
  - rewrite Forall_forall in Hwf. destruct (Hwf g Hg) as [Hn _]. unfold valid_metric in Hn. rewrite H in Hn. discriminate.
  - destruct (gather_help_type p l collected g Hg) as (f & Hf & _ & _ & _ & Et). apply (Hty f Hf). congruence.
Qed.

Section Oracles.
  Variable show : f64 -> str.
  Variable showz : Z -> str.

  Theorem gathered_encode_ok_lib {C} p l collected buf :
    (exists r0 : regcore C, reg_new_custom p l = Ok r0) ->
    map_like match l with Some x => x | None => [] end ->
    @lib_collected C p l collected ->
    exists out, encode show showz buf (gather_families p l collected) = EOk out.
  Proof.
    intros Hr ND Hlib. apply ok_iff. intros g Hg. apply (gathered_not_bad p l collected g); auto.
    - apply (@gather_names_wf C); auto.
    - intros f Hf E. unfold lib_collected in Hlib. rewrite Forall_forall in Hlib. destruct (Hlib f Hf) as (d & Hd & _).
      destruct (lib_family_reserved d f Hd) as [Ht _]. rewrite E in Ht. destruct Ht as [X|[X|X]]; discriminate.
  Qed.

  (* gather -> TextEncoder -> independent reader = the gathered families *)
  Theorem gathered_roundtrip_lib {C} p l collected :
    (exists r0 : regcore C, reg_new_custom p l = Ok r0) ->
    map_like match l with Some x => x | None => [] end ->
    @lib_collected C p l collected ->
    agree_type collected ->
    Forall strings_wf collected -> common_strings_wf l ->
    numbers_ok show showz (gather_families p l collected) = true ->
    exists out, encode show showz [] (gather_families p l collected) = EOk out
                /\ parse out = Some (view (gather_families p l collected))
                /\ count_lf out = shape_lines (gather_families p l collected).
  Proof.
    intros Hr ND Hlib Hagree Hstr Hcstr Hnum.
    destruct (@gathered_encode_ok_lib C p l collected [] Hr ND Hlib) as [out He]. exists out.
    pose proof (@gather_family_valid_lib C p l collected Hr ND Hlib Hagree Hstr Hcstr) as Hv.
    split; [exact He|]. split; [eapply roundtrip_valid; eauto | eapply line_count_valid; eauto].
  Qed.

  (* the same for any collectors (custom ones included), in terms of the collected families only *)
  Theorem gathered_roundtrip_gen p l collected out :
    Forall C09Facts.family_wf (gather_families p l collected) ->
    agree_type collected ->
    Forall strings_wf collected -> common_strings_wf l ->
    Forall reserved_free collected -> common_reserved_free l collected ->
    numbers_ok show showz (gather_families p l collected) = true ->
    encode show showz [] (gather_families p l collected) = EOk out ->
    parse out = Some (view (gather_families p l collected)).
  Proof. intros H1 H2 H3 H4 H5 H6. apply roundtrip_valid. apply gather_family_valid_gen; auto. Qed.
End Oracles.

(* ------------------------------------------------------------------ boolean forms of the hypotheses (for examples) *)
Definition strings_wfb (f : MetricFamily) : bool :=
  forallb scalarb (mf_help f) && forallb (fun m => forallb (fun l => forallb scalarb (lp_value l)) (m_label m)) (mf_metric f).
Lemma strings_wfb_ok f : strings_wfb f = true -> strings_wf f.
Proof.
  unfold strings_wfb, strings_wf. intros H. apply andb_prop in H as [H1 H2]. split; [apply forallb_scalar_wf, H1|].
  intros m l Hm Hl. rewrite forallb_forall in H2. specialize (H2 m Hm). rewrite forallb_forall in H2. apply forallb_scalar_wf, H2, Hl.
Qed.
Definition agree_typeb (collected : list MetricFamily) : bool :=
  forallb (fun f => forallb (fun g => is_nil (mf_metric f) || is_nil (mf_metric g) || negb (str_eqb (mf_name f) (mf_name g))
                                    || mtype_eqb (mf_type f) (mf_type g)) collected) collected.
Lemma agree_typeb_ok collected : agree_typeb collected = true -> agree_type collected.
Proof.
  unfold agree_typeb, agree_type. intros H f g Hf Hg Hnf Hng En. rewrite forallb_forall in H. specialize (H f Hf).
  rewrite forallb_forall in H. specialize (H g Hg). rewrite En, str_eqb_refl in H. cbn [negb] in H. rewrite orb_false_r in H.
  destruct (mf_metric f); [congruence|]. destruct (mf_metric g); [congruence|]. cbn [is_nil orb] in H.
  destruct (mf_type f), (mf_type g); try discriminate; reflexivity.
Qed.
