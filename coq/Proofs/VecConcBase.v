(* C10, part 1: list / map lemmas, the lock invariant, the memory invariant (abstract map = concrete map),
   for every reachable state of Model/VecConc.v, any number of threads, any schedule. *)
Require Import PV.Base.Prelude PV.Base.StrFacts PV.Model.Conc PV.Model.VecConc.
From Coq Require Import Arith Lia Permutation.
Open Scope N_scope.

(* ------------------------------------------------------------------ keys, maps *)
Lemma key_eqb_eq a b : key_eqb a b = true <-> a = b.
Proof.
  revert b; induction a as [|x a IH]; destruct b as [|y b]; cbn; try (split; congruence).
  rewrite andb_true_iff, str_eqb_eq, IH. split; [intros [-> ->]; auto | intros H; inversion H; auto].
Qed.
Lemma key_eqb_refl a : key_eqb a a = true.
Proof. apply key_eqb_eq; auto. Qed.
Lemma key_eqb_neq a b : key_eqb a b = false <-> a <> b.
Proof. rewrite <- key_eqb_eq. destruct (key_eqb a b); split; congruence. Qed.

Ltac keq :=
  repeat match goal with
         | H : key_eqb _ _ = true |- _ => apply key_eqb_eq in H; subst
         | H : key_eqb _ _ = false |- _ => apply key_eqb_neq in H
         end.

Section KM.
Context {V : Type}.
Implicit Types (m : list (key * V)).

Lemma klookup_In k m v : klookup k m = Some v -> In (k, v) m.
Proof.
  induction m as [|[k' v'] m IH]; cbn; [discriminate|].
  destruct (key_eqb k k') eqn:E; keq; [intros H; inversion H; auto | auto].
Qed.
Lemma klookup_None k m : klookup k m = None <-> ~ In k (map fst m).
Proof.
  induction m as [|[k' v'] m IH]; cbn; [tauto|].
  destruct (key_eqb k k') eqn:E; keq; [split; [discriminate | intros H; exfalso; auto] |].
  rewrite IH. split; [intros H [H1|H1]; congruence | tauto].
Qed.
Lemma klookup_NoDup_In k v m : NoDup (map fst m) -> In (k, v) m -> klookup k m = Some v.
Proof.
  induction m as [|[k' v'] m IH]; cbn; [tauto|]. intros ND [H|H].
  - inversion H; subst. rewrite key_eqb_refl; auto.
  - inversion ND; subst. destruct (key_eqb k k') eqn:E; keq; auto.
    exfalso. apply H2. apply in_map_iff. exists (k', v); auto.
Qed.
Lemma kinsert_fresh k v m : klookup k m = None -> kinsert k v m = m ++ [(k, v)].
Proof.
  induction m as [|[k' v'] m IH]; cbn; auto.
  destruct (key_eqb k k'); [discriminate|]. intros H. rewrite IH; auto.
Qed.
Lemma kremove_In k m k' v : In (k', v) (kremove k m) <-> In (k', v) m /\ k' <> k.
Proof.
  induction m as [|[k1 v1] m IH]; cbn; [tauto|].
  destruct (key_eqb k k1) eqn:E; keq; cbn; rewrite IH; split.
  - tauto.
  - intros [[H|H] N]; [inversion H; congruence | auto].
  - intros [H|H]; [inversion H; subst; split; auto | tauto].
  - tauto.
Qed.
Lemma kremove_keys_incl k m : incl (map fst (kremove k m)) (map fst m).
Proof.
  intros x H. apply in_map_iff in H as ([k' v] & <- & H). apply kremove_In in H as [H _].
  apply in_map_iff. exists (k', v); auto.
Qed.
Lemma kremove_NoDup k m : NoDup (map fst m) -> NoDup (map fst (kremove k m)).
Proof.
  induction m as [|[k1 v1] m IH]; cbn; auto. intros ND; inversion ND; subst.
  destruct (key_eqb k k1); cbn; auto. constructor; auto. intros H; apply H1. eapply kremove_keys_incl; eauto.
Qed.
Lemma kremove_absent k m : ~ In k (map fst (kremove k m)).
Proof.
  intros H. apply in_map_iff in H as ([k' v] & E & H). cbn in E; subst. apply kremove_In in H as [_ H]; auto.
Qed.
Lemma klookup_kremove_same k m : klookup k (kremove k m) = None.
Proof. apply klookup_None, kremove_absent. Qed.
Lemma klookup_kremove_other k k' m : k' <> k -> klookup k' (kremove k m) = klookup k' m.
Proof.
  intros N. induction m as [|[k1 v1] m IH]; cbn; auto.
  destruct (key_eqb k k1) eqn:E; keq; cbn.
  - rewrite IH. destruct (key_eqb k' k1) eqn:E2; keq; congruence.
  - rewrite IH; auto.
Qed.
End KM.

Lemma kremove_map {V W} (f : V -> W) k (m : list (key * V)) :
  kremove k (map (fun e => (fst e, f (snd e))) m) = map (fun e => (fst e, f (snd e))) (kremove k m).
Proof. induction m as [|[k1 v1] m IH]; cbn; auto. destruct (key_eqb k k1); cbn; congruence. Qed.
Lemma klookup_map {V W} (f : V -> W) k (m : list (key * V)) :
  klookup k (map (fun e => (fst e, f (snd e))) m) = option_map f (klookup k m).
Proof. induction m as [|[k1 v1] m IH]; cbn; auto. destruct (key_eqb k k1); cbn; auto. Qed.

(* ------------------------------------------------------------------ cells *)
Lemma cell_mem_In c m : cell_mem c m = true <-> In c (map fst m).
Proof.
  induction m as [|[c' v] m IH]; cbn; [split; [discriminate | tauto]|].
  rewrite orb_true_iff, IH, N.eqb_eq. split; intros [H|H]; auto.
Qed.
Lemma cell_mem_set c c' v m : cell_mem c (cell_set c' v m) = cell_mem c m.
Proof. induction m as [|[c1 v1] m IH]; cbn; auto. destruct (c' =? c1); cbn; rewrite ?IH; auto. Qed.
Lemma cell_get_set_same c v m : cell_mem c m = true -> cell_get c (cell_set c v m) = v.
Proof.
  induction m as [|[c1 v1] m IH]; cbn; [discriminate|].
  destruct (c =? c1) eqn:E; cbn; rewrite E; auto.
Qed.
Lemma cell_get_set_other c c' v m : c <> c' -> cell_get c (cell_set c' v m) = cell_get c m.
Proof.
  intros Hn. induction m as [|[c1 v1] m IH]; cbn; auto.
  destruct (c' =? c1) eqn:E; cbn.
  - apply N.eqb_eq in E; subst. destruct (c =? c1) eqn:E2; auto. apply N.eqb_eq in E2; congruence.
  - rewrite IH; auto.
Qed.
Lemma cell_get_absent c m : cell_mem c m = false -> cell_get c m = 0.
Proof.
  induction m as [|[c1 v1] m IH]; cbn; auto. destruct (c =? c1); cbn; [discriminate | auto].
Qed.

Lemma key_of_cell_In c m k : key_of_cell c m = Some k -> In (k, c) m.
Proof.
  induction m as [|[k1 c1] m IH]; cbn; [discriminate|].
  destruct (c =? c1) eqn:E; [apply N.eqb_eq in E; subst; intros H; inversion H; auto | auto].
Qed.

Lemma remove_tid_In t u l : In u (remove_tid t l) -> In u l.
Proof.
  induction l as [|x l IH]; cbn; auto. destruct (Nat.eqb x t); cbn; [auto | intros [H|H]; auto].
Qed.
Lemma remove_tid_NoDup t l : NoDup l -> NoDup (remove_tid t l).
Proof.
  induction l as [|x l IH]; cbn; auto. intros ND; inversion ND; subst.
  destruct (Nat.eqb x t); auto. constructor; auto. intros H; apply H1. eapply remove_tid_In; eauto.
Qed.
Lemma remove_tid_spec t l : NoDup l -> forall u, In u (remove_tid t l) <-> In u l /\ u <> t.
Proof.
  induction l as [|x l IH]; cbn; [tauto|]. intros ND u; inversion ND; subst.
  destruct (Nat.eqb x t) eqn:E.
  - apply Nat.eqb_eq in E; subst. split; [intros H; split; auto; intros ->; auto | intros [[H|H] N]; congruence].
  - apply Nat.eqb_neq in E. cbn. rewrite IH; auto. split; [intros [H|H]; [subst; auto | tauto] | tauto].
Qed.
Lemma remove_tid_length t l : In t l -> length (remove_tid t l) = pred (length l).
Proof.
  induction l as [|x l IH]; cbn; [tauto|]. destruct (Nat.eqb x t) eqn:E; auto.
  apply Nat.eqb_neq in E. intros [H|H]; [congruence|]. cbn. rewrite IH; auto. destruct l; [destruct H | auto].
Qed.

(* ------------------------------------------------------------------ inverting a step *)
Ltac inv_step H :=
  unfold step0 in H;
  repeat match type of H with
         | match ?x with _ => _ end = Some _ => let E := fresh "E" in destruct x eqn:E; try discriminate H
         | (if ?b then _ else _) = Some _ => let E := fresh "E" in destruct b eqn:E; try discriminate H
         end;
  inversion H; subst; clear H.

Ltac boolp :=
  repeat match goal with
         | H : _ && _ = true |- _ => apply andb_true_iff in H; destruct H
         | H : _ || _ = false |- _ => apply orb_false_iff in H; destruct H
         | H : negb _ = false |- _ => apply negb_false_iff in H
         | H : negb _ = true |- _ => apply negb_true_iff in H
         | H : Nat.eqb _ _ = true |- _ => apply Nat.eqb_eq in H
         | H : Nat.eqb _ _ = false |- _ => apply Nat.eqb_neq in H
         | H : N.eqb _ _ = true |- _ => apply N.eqb_eq in H
         | H : N.eqb _ _ = false |- _ => apply N.eqb_neq in H
         end.

Lemma updf_same {A} (f : nat -> A) t x : updf f t x t = x.
Proof. unfold updf. rewrite Nat.eqb_refl; auto. Qed.
Lemma updf_other {A} (f : nat -> A) t x u : u <> t -> updf f t x u = f u.
Proof. unfold updf. intros N. apply Nat.eqb_neq in N. rewrite N; auto. Qed.

(* ------------------------------------------------------------------ the lock invariant *)
Record LockInv (s : vstate) : Prop := {
  L_rd : v_rd s = length (g_rh s);
  L_nd : NoDup (g_rh s);
  L_rh : forall t, In t (g_rh s) <-> holds_read (v_pc s t) = true;
  L_wh : forall t, g_wh s = Some t <-> holds_write (v_pc s t) = true;
  L_wr : v_wr s = match g_wh s with Some _ => true | None => false end;
  L_ex : g_wh s <> None -> g_rh s = [] }.

Lemma lock_init nl : LockInv (vinit nl).
Proof.
  constructor; cbn; auto.
  - constructor.
  - intros; split; [tauto | discriminate].
  - intros; split; discriminate.
Qed.

(* steps that move a thread inside the same locking class and leave the lock word alone *)
Lemma lock_same s s' t p :
  LockInv s ->
  v_rd s' = v_rd s -> v_wr s' = v_wr s -> g_rh s' = g_rh s -> g_wh s' = g_wh s -> v_pc s' = updf (v_pc s) t p ->
  holds_read p = holds_read (v_pc s t) -> holds_write p = holds_write (v_pc s t) -> LockInv s'.
Proof.
  intros [] E1 E2 E3 E4 E5 Hr Hw. constructor; rewrite ?E1, ?E2, ?E3, ?E4, ?E5; auto.
  - intros u. unfold updf. destruct (Nat.eqb u t) eqn:E; [apply Nat.eqb_eq in E; subst; rewrite Hr|]; auto.
  - intros u. unfold updf. destruct (Nat.eqb u t) eqn:E; [apply Nat.eqb_eq in E; subst; rewrite Hw|]; auto.
Qed.

Lemma lock_unchanged s : LockInv s -> forall s', v_rd s' = v_rd s -> v_wr s' = v_wr s -> g_rh s' = g_rh s -> g_wh s' = g_wh s ->
  v_pc s' = v_pc s -> LockInv s'.
Proof. intros [] s' E1 E2 E3 E4 E5. constructor; rewrite ?E1, ?E2, ?E3, ?E4, ?E5; auto. Qed.

Lemma no_writer s : LockInv s -> v_wr s = false -> g_wh s = None.
Proof. intros [] E. rewrite L_wr0 in E. destruct (g_wh s); [discriminate | auto]. Qed.
Lemma no_reader s : LockInv s -> v_rd s = 0%nat -> g_rh s = [].
Proof. intros [] E. rewrite L_rd0 in E. destruct (g_rh s); [auto | discriminate]. Qed.

Lemma lock_acq_read s s' t p :
  LockInv s -> v_pc s' = updf (v_pc s) t p -> v_wr s = false ->
  holds_read (v_pc s t) = false -> holds_read p = true -> holds_write p = false ->
  v_rd s' = S (v_rd s) -> v_wr s' = false -> g_rh s' = t :: g_rh s -> g_wh s' = g_wh s ->
  LockInv s'.
Proof.
  intros I E5 W R0 R1 W1 E1 E2 E3 E4. pose proof (no_writer s I W) as Hnw. destruct I as [I1 I2 I3 I4 I5 I6].
  constructor; rewrite ?E1, ?E2, ?E3, ?E4, ?E5, ?Hnw; cbn [length]; auto.
  - constructor; auto. rewrite I3, R0. discriminate.
  - intros u. unfold updf. destruct (Nat.eqb u t) eqn:Eu.
    + apply Nat.eqb_eq in Eu; subst. cbn. rewrite R1. tauto.
    + apply Nat.eqb_neq in Eu. cbn. rewrite <- I3. split; [intros [H|H]; [congruence | auto] | auto].
  - intros u. unfold updf. destruct (Nat.eqb u t) eqn:Eu.
    + rewrite W1. split; discriminate.
    + rewrite <- I4, Hnw. tauto.
  - congruence.
Qed.

Lemma lock_acq_write s s' t p :
  LockInv s -> v_pc s' = updf (v_pc s) t p -> v_wr s = false -> v_rd s = 0%nat ->
  holds_read p = false -> holds_write p = true ->
  v_rd s' = 0%nat -> v_wr s' = true -> g_rh s' = g_rh s -> g_wh s' = Some t ->
  LockInv s'.
Proof.
  intros I E5 W R R1 W1 E1 E2 E3 E4. pose proof (no_writer s I W) as Hnw. pose proof (no_reader s I R) as Hnr.
  destruct I as [I1 I2 I3 I4 I5 I6].
  constructor; rewrite ?E1, ?E2, ?E3, ?E4, ?E5, ?Hnr; cbn [length]; auto.
  - constructor.
  - intros u. unfold updf. destruct (Nat.eqb u t) eqn:Eu.
    + rewrite R1. cbn. split; [tauto | discriminate].
    + rewrite <- I3, Hnr. tauto.
  - intros u. unfold updf. destruct (Nat.eqb u t) eqn:Eu.
    + apply Nat.eqb_eq in Eu; subst. rewrite W1. tauto.
    + apply Nat.eqb_neq in Eu. rewrite <- I4, Hnw. split; [intros H; inversion H; congruence | discriminate].
Qed.

Lemma lock_rel_read s s' t p :
  LockInv s -> v_pc s' = updf (v_pc s) t p -> holds_read (v_pc s t) = true -> holds_read p = false -> holds_write p = false ->
  v_rd s' = pred (v_rd s) -> v_wr s' = v_wr s -> g_rh s' = remove_tid t (g_rh s) -> g_wh s' = g_wh s ->
  LockInv s'.
Proof.
  intros I E5 R0 R1 W1 E1 E2 E3 E4. destruct I as [I1 I2 I3 I4 I5 I6].
  assert (Hin : In t (g_rh s)) by (apply I3; auto).
  assert (Hnw : g_wh s = None).
  { destruct (g_wh s) eqn:E; auto. rewrite I6 in Hin; [destruct Hin | discriminate]. }
  constructor; rewrite ?E1, ?E2, ?E3, ?E4, ?E5; auto.
  - rewrite remove_tid_length, I1; auto.
  - apply remove_tid_NoDup; auto.
  - intros u. rewrite remove_tid_spec by auto. unfold updf. destruct (Nat.eqb u t) eqn:Eu.
    + apply Nat.eqb_eq in Eu; subst. rewrite R1. split; [tauto | discriminate].
    + apply Nat.eqb_neq in Eu. rewrite <- I3. tauto.
  - intros u. unfold updf. destruct (Nat.eqb u t) eqn:Eu.
    + rewrite W1, Hnw. split; discriminate.
    + apply I4.
  - rewrite Hnw. tauto.
Qed.

Lemma lock_rel_write s s' t p :
  LockInv s -> v_pc s' = updf (v_pc s) t p -> holds_write (v_pc s t) = true -> holds_read p = false -> holds_write p = false ->
  v_rd s' = v_rd s -> v_wr s' = false -> g_rh s' = g_rh s -> g_wh s' = None ->
  LockInv s'.
Proof.
  intros I E5 W0 R1 W1 E1 E2 E3 E4. destruct I as [I1 I2 I3 I4 I5 I6].
  assert (Hw : g_wh s = Some t) by (apply I4; auto).
  assert (Hnr : g_rh s = []) by (apply I6; congruence).
  constructor; rewrite ?E1, ?E2, ?E3, ?E4, ?E5; auto.
  - intros u. unfold updf. destruct (Nat.eqb u t) eqn:Eu.
    + rewrite R1, Hnr. cbn. split; [tauto | discriminate].
    + apply I3.
  - intros u. unfold updf. destruct (Nat.eqb u t) eqn:Eu.
    + rewrite W1. split; discriminate.
    + apply Nat.eqb_neq in Eu. rewrite <- I4, Hw. split; [discriminate | intros H; inversion H; congruence].
Qed.

Ltac sproj := cbn [v_nl v_rd v_wr v_map v_cells v_next v_pc g_rh g_wh g_abs g_lin g_open g_done g_now set_pc set_lock set_mem lin set_open add_done tick].
Ltac pcrw := match goal with E : v_pc _ _ = _ |- _ => rewrite E; reflexivity end.

Lemma lock_step0 s l s' : LockInv s -> step0 s l = Some s' -> LockInv s'.
Proof.
  intros I H. inv_step H; boolp.
  all: try solve [exact I].
  all: repeat match goal with |- context [if ?b then _ else _] => destruct b end.
  all: try solve [eapply lock_same; [exact I | reflexivity | reflexivity | reflexivity | reflexivity | reflexivity | pcrw | pcrw]].
  all: try solve [eapply lock_acq_read; [exact I | reflexivity | assumption | pcrw | reflexivity | reflexivity | reflexivity | reflexivity | reflexivity | reflexivity]].
  all: try solve [eapply lock_acq_write; [exact I | reflexivity | assumption | assumption | reflexivity | reflexivity | reflexivity | reflexivity | reflexivity | reflexivity]].
  all: try solve [eapply lock_rel_read; [exact I | reflexivity | pcrw | reflexivity | reflexivity | reflexivity | reflexivity | reflexivity | reflexivity]].
  all: try solve [eapply lock_rel_write; [exact I | reflexivity | pcrw | reflexivity | reflexivity | reflexivity | reflexivity | reflexivity | reflexivity]].
Qed.

Lemma lock_step s l s' : LockInv s -> step s l = Some s' -> LockInv s'.
Proof.
  unfold step. intros I H. destruct (step0 s l) eqn:E; [|discriminate]. inversion H; subst.
  eapply lock_unchanged; [eapply lock_step0; eauto | ..]; reflexivity.
Qed.

Lemma excl_w s t u : LockInv s -> holds_write (v_pc s t) = true -> u <> t ->
  holds_write (v_pc s u) = false /\ holds_read (v_pc s u) = false.
Proof.
  intros [] W Hn. assert (Hw : g_wh s = Some t) by (apply L_wh0; auto). split.
  - destruct (holds_write (v_pc s u)) eqn:E; auto. apply L_wh0 in E. congruence.
  - destruct (holds_read (v_pc s u)) eqn:E; auto. apply L_rh0 in E. rewrite L_ex0 in E; [destruct E | congruence].
Qed.

(* ------------------------------------------------------------------ the memory invariant *)
Definition abs_f (cs : list (N * N)) (kc : key * N) : key * (N * N) := (fst kc, (snd kc, cell_get (snd kc) cs)).
Definition abs_map (m : list (key * N)) (cs : list (N * N)) : list (key * (N * N)) := map (abs_f cs) m.
Definition abs_of (s : vstate) := abs_map (v_map s) (v_cells s).

Definition pc_mem (m : list (key * N)) (cs : list (N * N)) (p : pc) : Prop :=
  match p with
  | PG3 _ _ (Some c) | PG7 _ _ c | PU _ c _ => cell_mem c cs = true
  | PG6 k _ => klookup k m = None
  | PC2 snap vis => snap = m /\ incl (vis_keys vis) m /\ NoDup (vis_cells vis)
  | _ => True
  end.

Record MemInv (s : vstate) : Prop := {
  M_keys : NoDup (map fst (v_map s));
  M_cells : NoDup (map snd (v_map s));
  M_in : forall k c, In (k, c) (v_map s) -> cell_mem c (v_cells s) = true;
  M_lt : forall c, cell_mem c (v_cells s) = true -> c < v_next s;
  M_abs : g_abs s = mkA (abs_of s) (v_next s);
  M_pc : forall t, pc_mem (v_map s) (v_cells s) (v_pc s t) }.

Lemma mem_init nl : MemInv (vinit nl).
Proof. constructor; cbn; auto; try constructor; try (intros; tauto || discriminate). Qed.

Lemma abs_map_lookup k m cs : klookup k (abs_map m cs) = option_map (fun c => (c, cell_get c cs)) (klookup k m).
Proof. unfold abs_map. induction m as [|[k1 c1] m IH]; cbn; auto. destruct (key_eqb k k1); cbn; auto. Qed.
Lemma abs_map_keys m cs : a_keys (abs_map m cs) = m.
Proof. unfold abs_map. induction m as [|[k1 c1] m IH]; cbn; auto. f_equal; auto. Qed.
Lemma abs_map_remove k m cs : kremove k (abs_map m cs) = abs_map (kremove k m) cs.
Proof. unfold abs_map. induction m as [|[k1 c1] m IH]; cbn; auto. destruct (key_eqb k k1); cbn; rewrite IH; reflexivity. Qed.
Lemma abs_map_value c m cs : In c (map snd m) -> a_value c (abs_map m cs) = cell_get c cs.
Proof. unfold abs_map.
  induction m as [|[k1 c1] m IH]; cbn; [tauto|]. destruct (c1 =? c) eqn:E.
  - apply N.eqb_eq in E; subst; auto.
  - apply N.eqb_neq in E. intros [H|H]; [congruence | auto].
Qed.
Lemma abs_map_ext m cs cs' : (forall c, In c (map snd m) -> cell_get c cs' = cell_get c cs) -> abs_map m cs' = abs_map m cs.
Proof. unfold abs_map.
  induction m as [|[k1 c1] m IH]; cbn; auto. intros H. unfold abs_f at 1 3; cbn. rewrite H by auto. f_equal. apply IH; auto.
Qed.
Lemma abs_map_bump c d m cs : cell_mem c cs = true ->
  map (a_bump c d) (abs_map m cs) = abs_map m (cell_set c (wrap64 (cell_get c cs + d)) cs).
Proof. unfold abs_map.
  intros Hc. induction m as [|[k1 c1] m IH]; cbn; auto. rewrite IH. f_equal.
  unfold a_bump, abs_f; cbn. destruct (c1 =? c) eqn:E.
  - apply N.eqb_eq in E; subst. rewrite cell_get_set_same; auto.
  - apply N.eqb_neq in E. rewrite cell_get_set_other; auto.
Qed.

Section Aspec.
Variable s : vstate.
Hypothesis MI : MemInv s.

Lemma aspec_get_hit k c : klookup k (v_map s) = Some c -> aspec (g_abs s) (AGet k) = (g_abs s, RChild c).
Proof. intros H. rewrite (M_abs s MI). cbn. unfold abs_of. rewrite abs_map_lookup, H. reflexivity. Qed.
Lemma aspec_get_miss k : klookup k (v_map s) = None ->
  aspec (g_abs s) (AGet k) = (mkA (abs_of s ++ [(k, (v_next s, 0))]) (v_next s + 1), RChild (v_next s)).
Proof.
  intros H. rewrite (M_abs s MI). cbn. unfold abs_of. rewrite abs_map_lookup, H. cbn.
  rewrite kinsert_fresh; auto. rewrite abs_map_lookup, H; auto.
Qed.
Lemma aspec_remove_hit k c : klookup k (v_map s) = Some c ->
  aspec (g_abs s) (ARemove k) = (mkA (abs_map (kremove k (v_map s)) (v_cells s)) (v_next s), RDone).
Proof. intros H. rewrite (M_abs s MI). cbn. unfold abs_of. rewrite abs_map_lookup, H. cbn. rewrite abs_map_remove; auto. Qed.
Lemma aspec_remove_miss k : klookup k (v_map s) = None -> aspec (g_abs s) (ARemove k) = (g_abs s, RAbsent).
Proof. intros H. rewrite (M_abs s MI). cbn. unfold abs_of. rewrite abs_map_lookup, H. reflexivity. Qed.
Lemma aspec_collect : aspec (g_abs s) ACollect = (g_abs s, RKeys (v_map s)).
Proof. rewrite (M_abs s MI). cbn. unfold abs_of. rewrite abs_map_keys; auto. Qed.
Lemma aspec_read k c : In (k, c) (v_map s) -> aspec (g_abs s) (ARead c) = (g_abs s, RValue (cell_get c (v_cells s))).
Proof.
  intros H. rewrite (M_abs s MI). cbn. unfold abs_of. rewrite abs_map_value; auto.
  apply in_map_iff. exists (k, c); auto.
Qed.
Lemma aspec_upd c d : cell_mem c (v_cells s) = true ->
  aspec (g_abs s) (AUpd c d) = (mkA (abs_map (v_map s) (cell_set c (wrap64 (cell_get c (v_cells s) + d)) (v_cells s))) (v_next s), RDone).
Proof. intros H. rewrite (M_abs s MI). cbn. unfold abs_of. rewrite abs_map_bump; auto. Qed.
Lemma aspec_reset : aspec (g_abs s) AReset = (mkA [] (v_next s), RDone).
Proof. rewrite (M_abs s MI). reflexivity. Qed.
End Aspec.

Lemma pc_mem_cells m cs cs' p :
  (forall c, cell_mem c cs = true -> cell_mem c cs' = true) -> pc_mem m cs p -> pc_mem m cs' p.
Proof. intros H. destruct p as [  |  |  | ? ? [?|] |  |  |  |  |  |  |  |  |  |  |  |  |  |  ]; cbn; auto. Qed.

(* steps that leave the memory and the abstract state alone *)
Lemma mem_frame s s' t p :
  MemInv s -> v_map s' = v_map s -> v_cells s' = v_cells s -> v_next s' = v_next s -> g_abs s' = g_abs s ->
  v_pc s' = updf (v_pc s) t p -> pc_mem (v_map s) (v_cells s) p -> MemInv s'.
Proof.
  intros [] E1 E2 E3 E4 E5 Hp. constructor; unfold abs_of; rewrite ?E1, ?E2, ?E3, ?E4, ?E5; auto.
  intros u. unfold updf. destruct (Nat.eqb u t); auto.
Qed.
Lemma mem_unchanged s s' :
  MemInv s -> v_map s' = v_map s -> v_cells s' = v_cells s -> v_next s' = v_next s -> g_abs s' = g_abs s ->
  v_pc s' = v_pc s -> MemInv s'.
Proof. intros [] E1 E2 E3 E4 E5. constructor; unfold abs_of; rewrite ?E1, ?E2, ?E3, ?E4, ?E5; auto. Qed.

Lemma kremove_snd_incl {V} k (m : list (key * V)) : incl (map snd (kremove k m)) (map snd m).
Proof.
  intros x H. apply in_map_iff in H as ([k' v] & <- & H). apply kremove_In in H as [H _].
  apply in_map_iff. exists (k', v); auto.
Qed.
Lemma kremove_NoDup_snd {V} k (m : list (key * V)) : NoDup (map snd m) -> NoDup (map snd (kremove k m)).
Proof.
  induction m as [|[k1 v1] m IH]; cbn; auto. intros ND; inversion ND; subst.
  destruct (key_eqb k k1); cbn; auto. constructor; auto. intros H; apply H1. eapply kremove_snd_incl; eauto.
Qed.

(* a step of a writer: nobody else is inside a critical section, so only cell-membership facts of others matter *)
Lemma others_pc_mem s t m' cs' :
  LockInv s -> MemInv s -> holds_write (v_pc s t) = true ->
  (forall c, cell_mem c (v_cells s) = true -> cell_mem c cs' = true) ->
  forall u, u <> t -> pc_mem m' cs' (v_pc s u).
Proof.
  intros LI MI W Hc u Hn. destruct (excl_w s t u LI W Hn) as [Hw Hr]. pose proof (M_pc s MI u) as Hp.
  destruct (v_pc s u) as [  |  |  | ? ? [?|] |  |  |  |  |  |  |  |  |  |  |  |  |  |  ]; cbn in *; auto; try discriminate.
Qed.

Lemma NoDup_snoc {A} (l : list A) x : NoDup l -> ~ In x l -> NoDup (l ++ [x]).
Proof.
  intros ND Hn. apply NoDup_rev in ND. rewrite <- (rev_involutive (l ++ [x])). apply NoDup_rev.
  rewrite rev_app_distr. cbn. constructor; auto. rewrite <- in_rev; auto.
Qed.

Lemma pc_upd_cases {A} (f : nat -> A) t x (P : A -> Prop) : P x -> (forall u, u <> t -> P (f u)) -> forall u, P (updf f t x u).
Proof.
  intros Hx Hf u. unfold updf. destruct (Nat.eqb u t) eqn:E; auto. apply Nat.eqb_neq in E; auto.
Qed.

Lemma mem_insert s t k d : LockInv s -> MemInv s -> v_pc s t = PG6 k d ->
  MemInv (set_pc (lin t (AGet k) (set_mem s (kinsert k (v_next s) (v_map s)) ((v_next s, 0) :: v_cells s) (v_next s + 1))) t (PG7 k d (v_next s))).
Proof.
  intros LI MI Hpc. pose proof (M_pc s MI t) as Hk. rewrite Hpc in Hk. cbn in Hk.
  assert (Hfresh : ~ In (v_next s) (map snd (v_map s))).
  { intros H. apply in_map_iff in H as ([k1 c1] & E & H). cbn in E; subst.
    apply (M_in s MI) in H. apply (M_lt s MI) in H. lia. }
  assert (Hw : holds_write (v_pc s t) = true) by (rewrite Hpc; reflexivity).
  constructor; unfold abs_of; cbn [v_map v_cells v_next g_abs v_pc set_pc lin set_mem]; rewrite ?kinsert_fresh by auto.
  - rewrite map_app. apply NoDup_snoc; [apply (M_keys s MI) | apply klookup_None; auto].
  - rewrite map_app. apply NoDup_snoc; [apply (M_cells s MI) | auto].
  - intros k1 c1 H. cbn. apply in_app_iff in H as [H|H].
    + rewrite (M_in s MI _ _ H). apply orb_true_r.
    + destruct H as [H|[]]. inversion H; subst. rewrite N.eqb_refl; auto.
  - intros c H. cbn in H. apply orb_true_iff in H as [H|H]; [apply N.eqb_eq in H; subst; lia | apply (M_lt s MI) in H; lia].
  - rewrite aspec_get_miss by auto. cbn [fst]. f_equal. unfold abs_of.
    unfold abs_map. rewrite map_app. cbn [map]. f_equal.
    + apply abs_map_ext. intros c Hc. cbn. destruct (c =? v_next s) eqn:E; auto. apply N.eqb_eq in E; subst. tauto.
    + unfold abs_f; cbn. rewrite N.eqb_refl; auto.
  - apply pc_upd_cases.
    + cbn. rewrite N.eqb_refl; auto.
    + intros u Hu. eapply others_pc_mem; eauto. intros c Hc. cbn. rewrite Hc. apply orb_true_r.
Qed.

Lemma mem_remove s t k c : LockInv s -> MemInv s -> v_pc s t = PM2 k -> klookup k (v_map s) = Some c ->
  MemInv (set_pc (lin t (ARemove k) (set_mem s (kremove k (v_map s)) (v_cells s) (v_next s))) t (PM3 k true)).
Proof.
  intros LI MI Hpc Hk.
  assert (Hw : holds_write (v_pc s t) = true) by (rewrite Hpc; reflexivity).
  constructor; unfold abs_of; cbn [v_map v_cells v_next g_abs v_pc set_pc lin set_mem].
  - apply kremove_NoDup, (M_keys s MI).
  - apply kremove_NoDup_snd, (M_cells s MI).
  - intros k1 c1 H. apply kremove_In in H as [H _]. apply (M_in s MI _ _ H).
  - apply (M_lt s MI).
  - erewrite aspec_remove_hit by eauto. reflexivity.
  - apply pc_upd_cases; [exact I|]. intros u Hu. eapply others_pc_mem; eauto.
Qed.

Lemma mem_reset s t : LockInv s -> MemInv s -> v_pc s t = PZ2 ->
  MemInv (set_pc (lin t AReset (set_mem s [] (v_cells s) (v_next s))) t PZ3).
Proof.
  intros LI MI Hpc.
  assert (Hw : holds_write (v_pc s t) = true) by (rewrite Hpc; reflexivity).
  constructor; unfold abs_of; cbn [v_map v_cells v_next g_abs v_pc set_pc lin set_mem map].
  - constructor.
  - constructor.
  - intros k1 c1 [].
  - apply (M_lt s MI).
  - rewrite aspec_reset by auto. reflexivity.
  - apply pc_upd_cases; [exact I|]. intros u Hu. eapply others_pc_mem; eauto.
Qed.

Lemma mem_upd s t k c d : MemInv s -> v_pc s t = PU k c d -> cell_mem c (v_cells s) = true ->
  MemInv (set_pc (lin t (AUpd c d) (set_mem s (v_map s) (cell_set c (wrap64 (cell_get c (v_cells s) + d)) (v_cells s)) (v_next s))) t (PR RUnit)).
Proof.
  intros MI Hpc Hc.
  constructor; unfold abs_of; cbn [v_map v_cells v_next g_abs v_pc set_pc lin set_mem map].
  - apply (M_keys s MI).
  - apply (M_cells s MI).
  - intros k1 c1 H. rewrite cell_mem_set. apply (M_in s MI _ _ H).
  - intros c1. rewrite cell_mem_set. apply (M_lt s MI).
  - rewrite aspec_upd by auto. reflexivity.
  - apply pc_upd_cases; [exact I|]. intros u Hu. eapply pc_mem_cells; [|apply (M_pc s MI u)].
    intros c1. rewrite cell_mem_set; auto.
Qed.

Lemma memN_false_notin x l : memN x l = false -> ~ In x l.
Proof. apply memN_false. Qed.

Lemma mem_step0 s l s' : LockInv s -> MemInv s -> step0 s l = Some s' -> MemInv s'.
Proof.
  intros LI MI H. inv_step H; boolp.
  all: try solve [exact MI].
  all: repeat match goal with |- context [if ?b then _ else _] => destruct b end.
  (* no memory change, new pc needs nothing *)
  all: try solve [eapply mem_frame; [exact MI | reflexivity | reflexivity | reflexivity | reflexivity | reflexivity | exact I]].
  all: try (match goal with E : v_pc ?s ?t = _ |- _ => pose proof (M_pc s MI t) as Hpc; rewrite E in Hpc; cbn in Hpc end).
  - (* collect: load of one child *)
    destruct Hpc as (Hs & Hi & Hn). apply key_of_cell_In in E5 as Hin.
    eapply mem_frame; [exact MI | reflexivity | reflexivity | reflexivity | | reflexivity | ].
    + sproj. erewrite aspec_read by eauto. reflexivity.
    + cbn. split; [auto | split].
      * unfold vis_keys. rewrite map_app. cbn. intros x Hx. apply in_app_iff in Hx as [Hx | [<- | []]]; auto.
      * unfold vis_cells. rewrite map_app. cbn. apply NoDup_snoc; auto. apply memN_false; auto.
  - (* fetch_add through the handle *)
    subst. eapply mem_upd; eauto.
  - (* collect: read-lock acquisition *)
    eapply mem_frame; [exact MI | reflexivity | reflexivity | reflexivity | | reflexivity | ].
    + sproj. rewrite aspec_collect by auto. reflexivity.
    + cbn. rewrite (M_abs s MI). cbn. unfold abs_of. rewrite abs_map_keys. split; [auto | split; [intros x [] | constructor]].
  - eapply mem_frame; [exact MI | reflexivity | reflexivity | reflexivity | reflexivity | reflexivity | exact Hpc].
  - eapply mem_frame; [exact MI | reflexivity | reflexivity | reflexivity | reflexivity | reflexivity | exact Hpc].
  - eapply mem_frame; [exact MI | reflexivity | reflexivity | reflexivity | | reflexivity | ].
    + sproj. erewrite aspec_get_hit by eauto. reflexivity.
    + cbn. apply klookup_In in E1. apply (M_in s MI _ _ E1).
  - eapply mem_frame; [exact MI | reflexivity | reflexivity | reflexivity | | reflexivity | ].
    + sproj. erewrite aspec_get_hit by eauto. reflexivity.
    + cbn. apply klookup_In in E1. apply (M_in s MI _ _ E1).
  - eapply mem_frame; [exact MI | reflexivity | reflexivity | reflexivity | reflexivity | reflexivity | exact E1].
  - apply mem_insert; auto.
  - eapply mem_remove; eauto.
  - eapply mem_frame; [exact MI | reflexivity | reflexivity | reflexivity | | reflexivity | exact I].
    sproj. rewrite aspec_remove_miss by auto. reflexivity.
  - apply mem_reset; auto.
Qed.

Lemma mem_step s l s' : LockInv s -> MemInv s -> step s l = Some s' -> MemInv s'.
Proof.
  unfold step. intros LI MI H. destruct (step0 s l) eqn:E; [|discriminate]. inversion H; subst.
  eapply mem_unchanged; [eapply mem_step0; eauto | ..]; reflexivity.
Qed.

(* ------------------------------------------------------------------ reachability *)
Inductive reach (nl : nat) : list label -> vstate -> Prop :=
| reach_nil : reach nl [] (vinit nl)
| reach_snoc tr s l s' : reach nl tr s -> step s l = Some s' -> reach nl (tr ++ [l]) s'.

Lemma vrun_reach_gen nl pre s tr s' : reach nl pre s -> vrun s tr = Some s' -> reach nl (pre ++ tr) s'.
Proof.
  revert pre s. induction tr as [|l tr IH]; intros pre s R H; cbn in H.
  - inversion H; subst. rewrite app_nil_r; auto.
  - destruct (step s l) eqn:E; [|discriminate]. replace (pre ++ l :: tr) with ((pre ++ [l]) ++ tr) by (rewrite <- app_assoc; auto).
    eapply IH; eauto. econstructor; eauto.
Qed.
Lemma vrun_reach nl tr s : vrun (vinit nl) tr = Some s -> reach nl tr s.
Proof. intros H. apply (vrun_reach_gen nl [] (vinit nl) tr s); [constructor | auto]. Qed.
Lemma reach_vrun nl tr s : reach nl tr s -> vrun (vinit nl) tr = Some s.
Proof.
  assert (G : forall s0 tr1 s1 l s2, vrun s0 tr1 = Some s1 -> step s1 l = Some s2 -> vrun s0 (tr1 ++ [l]) = Some s2).
  { intros s0 tr1; revert s0; induction tr1 as [|x tr1 IH]; intros s0 s1 l s2 H1 H2; cbn in *.
    - inversion H1; subst. rewrite H2; auto.
    - destruct (step s0 x); [eauto | discriminate]. }
  induction 1; cbn; eauto.
Qed.

Lemma reach_lock nl tr s : reach nl tr s -> LockInv s.
Proof. induction 1; [apply lock_init | eapply lock_step; eauto]. Qed.
Lemma reach_mem nl tr s : reach nl tr s -> MemInv s.
Proof. induction 1; [apply mem_init | eapply mem_step; eauto using reach_lock]. Qed.
