(* C08, the uniform theorem: the executable spec written from the property text (Spec/SpecC08.v) holds
   of the world model (Model/World.v) for ALL histories inside the executable domain [dom08]:
     dom08 ops = (length ops < 2^63) && (no two distinct label-value tuples used in an OpWith of ops
                                          have the same FNV-1a hash).
   Only pinned statements; lemmas in Proofs/C08Spec.v.  Lines to add to Props/C08.v are these. *)
Require Import PV.Base.Prelude PV.Base.Utf8 PV.Base.Fnv PV.Base.F64.
Require Import PV.Model.Proto PV.Model.Desc PV.Model.Value PV.Model.Hist PV.Model.Vec PV.Model.Registry PV.Model.World.
Require Import PV.Spec.SpecC08 PV.Proofs.C08Spec.
Open Scope N_scope.

Theorem c08_spec_model : forall ops, dom08 ops = true -> spec_c08 ops (run world0 ops) = true.
Proof. exact spec_c08_model. Qed.

(* the oracle never raises an alarm on observations equal to the model's *)
Theorem c08_spec_no_false_alarm : forall ops impl_obs,
  dom08 ops = true -> impl_obs = run world0 ops -> spec_c08 ops impl_obs = true.
Proof. exact spec_c08_no_false_alarm. Qed.

(* what the executable domain predicate means *)
Theorem c08_dom08_iff : forall ops, dom08 ops = true <->
  N.of_nat (length ops) < 2 ^ 63
  /\ forall a b, In a (with_keys ops) -> In b (with_keys ops) -> fnv1a (enc_sep a) = fnv1a (enc_sep b) -> a = b.
Proof. exact dom08_iff. Qed.

(* non-vacuity: scenarios of every generated shape are inside the domain; the collision condition is needed *)
Theorem c08_dom08_examples :
  map dom08 [ex_direct; ex_refused; ex_local; ex_vec; ex_helper; ex_mixed] = [true; true; true; true; true; true].
Proof. exact dom08_examples. Qed.
Theorem c08_collision_outside_domain :
  dom08 ex_collision = false /\ spec_c08 ex_collision (run world0 ex_collision) = false.
Proof. exact collision_outside_domain. Qed.

Check c08_spec_model : forall ops, dom08 ops = true -> spec_c08 ops (run world0 ops) = true.
Check c08_spec_no_false_alarm : forall ops impl_obs,
  dom08 ops = true -> impl_obs = run world0 ops -> spec_c08 ops impl_obs = true.
Check c08_dom08_iff : forall ops, dom08 ops = true <->
  N.of_nat (length ops) < 2 ^ 63
  /\ forall a b, In a (with_keys ops) -> In b (with_keys ops) -> fnv1a (enc_sep a) = fnv1a (enc_sep b) -> a = b.

Print Assumptions c08_spec_model.
Print Assumptions c08_spec_no_false_alarm.
Print Assumptions c08_dom08_iff.
Print Assumptions c08_dom08_examples.
Print Assumptions c08_collision_outside_domain.
