(* The spec's snapshot check holds for the snapshot of a ticket prefix: decoding, count, buckets, inclusion of the
   completed calls, per-thread prefix closure and batch atomicity, growth, quiescent exactness. *)
Require Import PV.Base.Prelude PV.Base.F64 PV.Model.Conc PV.Model.HistConc PV.Model.HistExec PV.Spec.SpecC02.
Require Import PV.Proofs.HistConcLemmas PV.Proofs.HistConcInv PV.Proofs.HistConcProof PV.Proofs.HistConcOwn.
Require Import PV.Proofs.HistExecSound PV.Proofs.HistExecInv PV.Proofs.HistConcThms.
Require Import PV.Proofs.HistValues PV.Proofs.HistLog PV.Proofs.HistReads PV.Proofs.HistMain.
Require Import PV.Proofs.HistSpecArith PV.Proofs.HistSpecFloat PV.Proofs.HistSpecSim PV.Proofs.HistSpecInv.
From Coq Require Import ZArith Lia Bool Arith Permutation.
Open Scope Z_scope.

(* the domain of the theorem: exponents below 53, so that every subset sum is an exactly representable binary64 *)
Definition Dom53 (l : list Z) : Prop := Dom l /\ Forall (fun v => vexp v < 53) l.

Lemma Dom53_perm a b : Permutation a b -> Dom53 a -> Dom53 b.
Proof. intros P [D F]. split; [eapply Dom_perm; eauto|eapply Permutation_Forall; eauto]. Qed.
Lemma Dom53_app_l a b : Dom53 (a ++ b) -> Dom53 a.
Proof. intros [D F]. split; [eapply Dom_app_l; eauto|apply Forall_app in F as [F _]; auto]. Qed.

Lemma Dom_sub vals l : Dom vals -> incl l vals -> NoDup l -> Dom l.
Proof.
  intros [D1 D2] Hi Hn. split.
  - apply Forall_forall. intros w Hw. rewrite Forall_forall in D1. apply D1. apply Hi; auto.
  - assert (Hinj : forall a b, In a l -> In b l -> vexp a = vexp b -> a = b).
    { intros a b Ha Hb. apply (Dom_exp_inj vals); [split; auto|apply Hi; auto|apply Hi; auto]. }
    clear Hi. induction l as [|a l IH]; cbn; constructor.
    + inversion Hn; subst. intros Hin. apply in_map_iff in Hin as (b & Eb & Hb).
      assert (b = a) by (apply Hinj; [right; auto|left; auto|auto]). subst. contradiction.
    + inversion Hn; subst. apply IH; auto. intros; apply Hinj; auto; right; auto.
Qed.

Lemma abs_zsum_le l : Z.abs (zsum l) <= mask_of l.
Proof. unfold zsum, mask_of. induction l as [|v l IH]; cbn [fold_right]; [reflexivity|]. pose proof (Z.abs_triangle v (fold_right Z.add 0 l)). lia. Qed.

Lemma mask_nonneg l : 0 <= mask_of l.
Proof. unfold mask_of. induction l; cbn [fold_right]; lia. Qed.

Lemma mask_lt_53 l : Dom l -> Forall (fun v => vexp v < 53) l -> mask_of l < 2 ^ 53.
Proof.
  intros D F. pose proof (mask_nonneg l) as H0.
  destruct (Z.lt_ge_cases (mask_of l) (2 ^ 53)) as [|Hge]; auto. exfalso.
  assert (Hpos : 0 < mask_of l) by lia.
  pose proof (Z.bit_log2 _ Hpos) as Hb. assert (Hl : 53 <= Z.log2 (mask_of l)) by (apply Z.log2_le_pow2; lia).
  rewrite testbit_mask in Hb by (auto; lia). apply existsb_exists in Hb as (w & Hw & Ew). apply Z.eqb_eq in Ew.
  rewrite Forall_forall in F. specialize (F w Hw). lia.
Qed.

Lemma zsum_bound l : Dom l -> Forall (fun v => vexp v < 53) l -> Z.abs (zsum l) < 2 ^ 53.
Proof. intros D F. pose proof (abs_zsum_le l). pose proof (mask_lt_53 l D F). lia. Qed.

(* ---- per-thread closure, generically ---- *)
Lemma thread_closed_ok mask t : forall l still,
  (forall oc, In oc l -> oc_t oc = t -> all_in mask (oc_vals oc) || none_in mask (oc_vals oc) = true) ->
  (still = false -> forall oc, In oc l -> oc_t oc = t -> all_in mask (oc_vals oc) = false) ->
  (forall l1 oc1 l2 oc2 l3, l = l1 ++ oc1 :: l2 ++ oc2 :: l3 -> oc_t oc1 = t -> oc_t oc2 = t ->
     all_in mask (oc_vals oc2) = true -> all_in mask (oc_vals oc1) = true) ->
  thread_closed mask t l still = true.
Proof.
  induction l as [|oc l IH]; intros still Hat Hst Hmono; cbn [thread_closed]; auto.
  destruct (Nat.eqb_spec (oc_t oc) t) as [Et|Et].
  - rewrite (Hat oc (or_introl eq_refl) Et). cbn [andb].
    destruct (all_in mask (oc_vals oc)) eqn:Ea.
    + assert (still = true) as ->. { destruct still; auto. rewrite (Hst eq_refl oc (or_introl eq_refl) Et) in Ea. discriminate. }
      cbn [andb]. apply IH.
      * intros; apply Hat; auto; right; auto.
      * discriminate.
      * intros l1 oc1 l2 oc2 l3 E. apply (Hmono (oc :: l1) oc1 l2 oc2 l3). rewrite E. reflexivity.
    + rewrite andb_false_r. cbn [andb]. apply IH.
      * intros; apply Hat; auto; right; auto.
      * intros _ oc' Hoc' Et'. destruct (all_in mask (oc_vals oc')) eqn:Ea'; auto.
        apply in_split in Hoc' as (l2 & l3 & ->). rewrite (Hmono [] oc l2 oc' l3 eq_refl Et Et' Ea') in Ea. discriminate.
      * intros l1 oc1 l2 oc2 l3 E. apply (Hmono (oc :: l1) oc1 l2 oc2 l3). rewrite E. reflexivity.
  - apply IH.
    + intros; apply Hat; auto; right; auto.
    + intros Hs oc' Hoc'. apply Hst; auto. right; auto.
    + intros l1 oc1 l2 oc2 l3 E. apply (Hmono (oc :: l1) oc1 l2 oc2 l3). rewrite E. reflexivity.
Qed.

Section P.
Variable bounds : list Z.

Section Cut.
Variables (o : ost) (s : sst) (k : nat).
Hypothesis OI : OInv bounds o.
Hypothesis G : Good bounds (ox o).
Hypothesis Jv : J o s.
Hypothesis D : Dom53 (all_vals (s_obs s)).
Hypothesis Hk : (k <= length (vlog o))%nat.

Let vsS := prefix_values o k.
Let all := all_vals (s_obs s).

Lemma nodup_parts : NoDup (concat (vlog o) ++ concat (map (pend o) (claimers o s))).
Proof. eapply Permutation_NoDup; [apply (J_perm _ _ Jv)|]. apply Dom_NoDup. apply D. Qed.

Lemma S_split : concat (vlog o) = vsS ++ concat (skipn k (vlog o)).
Proof. unfold vsS, prefix_values. rewrite <- concat_app, firstn_skipn. reflexivity. Qed.

Lemma S_incl : incl vsS all.
Proof.
  intros v Hv. eapply Permutation_in; [apply Permutation_sym; apply (J_perm _ _ Jv)|]. apply in_app_iff. left. rewrite S_split. apply in_app_iff. auto.
Qed.
Lemma S_nodup : NoDup vsS.
Proof. pose proof nodup_parts as H. apply NoDup_app_l in H. rewrite S_split in H. apply NoDup_app_l in H. auto. Qed.

Lemma S_member v : In v all -> (member (mask_of vsS) v = true <-> In v vsS).
Proof. intros Hv. apply (member_mask all); auto. apply D. apply S_incl. apply S_nodup. Qed.

(* a ticket is inside the prefix with all its values, or outside with all of them *)
Lemma ticket_in i vs : nth_error (vlog o) i = Some vs -> (i < k)%nat -> incl vs vsS.
Proof.
  intros Hi Hlt v Hv. unfold vsS, prefix_values. apply (in_concat_nth _ i vs); auto. rewrite nth_error_firstn_lt; auto.
Qed.
Lemma ticket_out i vs v : nth_error (vlog o) i = Some vs -> (k <= i)%nat -> In v vs -> ~ In v vsS.
Proof.
  intros Hi Hge Hv Hin. pose proof nodup_parts as H. apply NoDup_app_l in H. rewrite <- (firstn_skipn k (vlog o)) in H.
  apply (NoDup_concat_disjoint _ _ v H); auto. apply in_concat. exists vs. split; auto. eapply nth_error_skipn_in; eauto.
Qed.

Lemma val_of_call_in oc v : In oc (s_obs s) -> In v (oc_vals oc) -> In v all.
Proof. intros Hoc Hv. unfold all, all_vals. apply in_flat_map. eauto. Qed.

(* the call at position p of thread u: a ticket, or not yet claimed (then none of its values is in any ticket) *)
Lemma call_ticket_or_pending u p vs : nth_error (cvals u (s_obs s)) p = Some vs ->
  (exists i, nth_error (owners o) i = Some (u, S p) /\ nth_error (vlog o) i = Some vs)
  \/ (forall v, In v vs -> ~ In v (concat (vlog o))).
Proof.
  intros Hp. assert (Hlt : (p < ncalls o u)%nat) by (rewrite <- (J_ncalls _ _ Jv u); apply nth_error_Some; congruence).
  destruct (Nat.le_gt_cases (S p) (claimed o u)) as [Hc|Hc].
  - left. destruct (O_all _ _ OI u (S p)) as [i Hi]; [lia|]. exists i. split; auto.
    destruct (J_tick _ _ Jv _ _ _ Hi) as (vs' & H1 & H2). replace (S p - 1)%nat with p in H1 by lia. congruence.
  - right. unfold claimed in Hc. destruct (is_claim (thr (base (ox o)) u)) eqn:Ec; [|lia].
    assert (p = (ncalls o u - 1)%nat) by lia. subst p. rewrite (J_unclaimed _ _ Jv u Ec) in Hp. inversion Hp; subst vs.
    assert (Hu : In u (claimers o s)).
    { unfold claimers. apply filter_In. split; auto. apply (J_pend _ _ Jv). destruct G as (_ & X & _).
      assert (ax (ox o) u = AObs) as ->; [|discriminate]. apply (X_obs _ X). left. destruct (thr (base (ox o)) u); try discriminate Ec. eauto. }
    intros v Hv Hin. pose proof nodup_parts as H. rewrite <- (app_nil_r (concat (vlog o))) in H at 1.
    assert (In v (concat (map (pend o) (claimers o s)))) by (apply in_concat; exists (pend o u); split; auto; apply in_map; auto).
    clear - H Hin H0. induction (concat (vlog o)) as [|a l IH]; [destruct Hin|]. cbn in H. inversion H; subst. destruct Hin as [->|Hin].
    + apply H3. rewrite app_nil_r. apply in_app_iff. auto.
    + apply IH; auto.
Qed.

Lemma call_atomic oc : In oc (s_obs s) ->
  all_in (mask_of vsS) (oc_vals oc) || none_in (mask_of vsS) (oc_vals oc) = true.
Proof.
  intros Hoc. pose proof (cvals_in (oc_t oc) _ oc Hoc eq_refl) as Hin. apply In_nth_error in Hin as [p Hp].
  destruct (call_ticket_or_pending _ _ _ Hp) as [(i & _ & Hi)|Hout].
  - destruct (Nat.lt_ge_cases i k) as [Hlt|Hge].
    + assert (all_in (mask_of vsS) (oc_vals oc) = true) as ->; [|reflexivity]. unfold all_in. apply forallb_forall. intros v Hv.
      apply S_member; [eapply val_of_call_in; eauto|]. eapply ticket_in; eauto.
    + assert (none_in (mask_of vsS) (oc_vals oc) = true) as ->; [|apply orb_true_r]. unfold none_in. apply forallb_forall. intros v Hv.
      apply negb_true_iff. apply not_true_is_false. intros Hm. apply S_member in Hm; [|eapply val_of_call_in; eauto]. eapply ticket_out; eauto.
  - assert (none_in (mask_of vsS) (oc_vals oc) = true) as ->; [|apply orb_true_r]. unfold none_in. apply forallb_forall. intros v Hv.
    apply negb_true_iff. apply not_true_is_false. intros Hm. apply S_member in Hm; [|eapply val_of_call_in; eauto].
    apply (Hout v Hv). rewrite S_split. apply in_app_iff. auto.
Qed.

Lemma tv_in_nonempty oc : In oc (s_obs s) -> oc_vals oc <> [].
Proof. intros H. apply (J_nonempty _ _ Jv (oc_t oc, oc_vals oc)). unfold tv. apply in_map_iff. eauto. Qed.

Lemma cvals_pos u l1 oc l2 : oc_t oc = u -> nth_error (cvals u (l1 ++ oc :: l2)) (length (cvals u l1)) = Some (oc_vals oc).
Proof.
  intros E. rewrite cvals_app. rewrite nth_error_app2, Nat.sub_diag by lia.
  change (oc :: l2) with ([oc] ++ l2). rewrite cvals_app, cvals_single. rewrite E, Nat.eqb_refl. reflexivity.
Qed.

Lemma call_mono u l1 oc1 l2 oc2 l3 : s_obs s = l1 ++ oc1 :: l2 ++ oc2 :: l3 -> oc_t oc1 = u -> oc_t oc2 = u ->
  all_in (mask_of vsS) (oc_vals oc2) = true -> all_in (mask_of vsS) (oc_vals oc1) = true.
Proof.
  intros E E1 E2 Ha.
  assert (Hoc2 : In oc2 (s_obs s)) by (rewrite E; apply in_app_iff; right; right; apply in_app_iff; right; left; auto).
  assert (Hoc1 : In oc1 (s_obs s)) by (rewrite E; apply in_app_iff; right; left; auto).
  pose proof (cvals_pos u l1 oc1 (l2 ++ oc2 :: l3) E1) as P1. rewrite <- E in P1.
  pose proof (cvals_pos u (l1 ++ oc1 :: l2) oc2 l3 E2) as P2. rewrite <- app_assoc in P2. cbn [app] in P2. rewrite <- E in P2.
  set (p1 := length (cvals u l1)) in *. set (p2 := length (cvals u (l1 ++ oc1 :: l2))) in *.
  assert (Hlt : (p1 < p2)%nat).
  { unfold p1, p2. rewrite cvals_app, app_length. change (oc1 :: l2) with ([oc1] ++ l2). rewrite cvals_app, app_length, cvals_single, E1, Nat.eqb_refl. cbn. lia. }
  (* some value of oc2 is in S *)
  destruct (oc_vals oc2) as [|v2 r2] eqn:Ev2; [exfalso; apply (tv_in_nonempty oc2 Hoc2); auto|].
  assert (Hv2 : In v2 vsS).
  { unfold all_in in Ha. cbn [forallb] in Ha. apply andb_true_iff in Ha as [Hm _]. apply S_member; auto. apply (val_of_call_in oc2 v2 Hoc2). rewrite Ev2. left; reflexivity. }
  destruct (call_ticket_or_pending _ _ _ P2) as [(i2 & Ho2 & Hi2)|Hout].
  2: { exfalso. apply (Hout v2 (or_introl eq_refl)). rewrite S_split. apply in_app_iff. auto. }
  assert (Hi2k : (i2 < k)%nat).
  { destruct (Nat.lt_ge_cases i2 k); auto. exfalso. apply (ticket_out i2 _ v2 Hi2 H (or_introl eq_refl)). auto. }
  pose proof (O_rng _ _ OI _ _ _ Ho2) as Hr2.
  destruct (O_all _ _ OI u (S p1)) as [i1 Ho1]; [lia|].
  pose proof (O_ord _ _ OI _ _ _ _ _ Ho1 Ho2 ltac:(lia)) as Hord.
  destruct (J_tick _ _ Jv _ _ _ Ho1) as (vs1 & H1 & Hi1). replace (S p1 - 1)%nat with p1 in H1 by lia. rewrite P1 in H1. inversion H1; subst vs1.
  unfold all_in. apply forallb_forall. intros v Hv. apply S_member; [eapply val_of_call_in; eauto|]. eapply (ticket_in i1); eauto. lia.
Qed.

Lemma closure_ok : forallb (fun oc => thread_closed (mask_of vsS) (oc_t oc) (s_obs s) true) (s_obs s) = true.
Proof.
  apply forallb_forall. intros oc _. apply thread_closed_ok.
  - intros oc' Hoc' _. apply call_atomic; auto.
  - discriminate.
  - intros l1 oc1 l2 oc2 l3 E. apply (call_mono (oc_t oc) l1 oc1 l2 oc2 l3 E).
Qed.

Lemma buckets_ok (L : list Z) : L = map (fun b => zcount (fun v => v <=? b) vsS) bounds ->
  Nat.eqb (length L) (length bounds) = true
  /\ forallb (fun bb => snd bb =? count_in (mask_of vsS) (fun v => v <=? fst bb) (s_obs s)) (combine bounds L) = true.
Proof.
  intros ->. split; [rewrite map_length; apply Nat.eqb_refl|].
  assert (Hc : forall b, count_in (mask_of vsS) (fun v => v <=? b) (s_obs s) = zcount (fun v => v <=? b) vsS).
  { intros b. rewrite count_in_eq. apply (count_members all); [apply D|apply S_incl|apply S_nodup]. }
  assert (Hg : forall bs, forallb (fun bb => snd bb =? count_in (mask_of vsS) (fun v => v <=? fst bb) (s_obs s))
                               (combine bs (map (fun b => zcount (fun v => v <=? b) vsS) bs)) = true).
  { induction bs as [|b bs IH]; cbn [map combine forallb]; auto. cbn [fst snd]. rewrite Hc, Z.eqb_refl. exact IH. }
  apply Hg.
Qed.

Theorem snapshot_ok l0 cc cnt sumbits bks :
  (l0 <= k)%nat -> In cc (s_col s) -> kind_of (ax (ox o) (cc_t cc)) = KCol l0 ->
  Z.of_N cnt = Z.of_nat (length vsS) -> sumbits = zbits (zsum vsS) ->
  map Z.of_N bks = map (fun b => zcount (fun v => v <=? b) vsS) bounds ->
  z_of_bits sumbits = Some (zsum vsS) /\ decode (s_obs s) (zsum vsS) = Some (mask_of vsS)
  /\ check_snapshot bounds s cc (Z.of_N cnt) (mask_of vsS) (map Z.of_N bks) = true.
Proof.
  intros Hl0 Hcc Hkind Hcnt Hsum Hb.
  assert (DS : Dom vsS) by (apply (Dom_sub all); [apply D|apply S_incl|apply S_nodup]).
  assert (FS : Forall (fun v => vexp v < 53) vsS).
  { apply Forall_forall. intros v Hv. destruct D as [_ F]. rewrite Forall_forall in F. apply F. apply S_incl; auto. }
  split; [rewrite Hsum; apply zbits_roundtrip; apply zsum_bound; auto|].
  split; [apply decode_correct; [apply D|apply S_incl|apply S_nodup]|].
  destruct (J_col _ _ Jv cc Hcc) as (l0' & A1 & A2 & A3 & A4 & A5). rewrite Hkind in A1. inversion A1; subst l0'.
  destruct (buckets_ok _ Hb) as [B1 B2].
  unfold check_snapshot. repeat (apply andb_true_iff; split).
  - apply Z.eqb_eq. rewrite total_mask_eq. apply mask_subset; auto. apply D. apply S_incl.
  - apply Z.eqb_eq. rewrite Hcnt, count_in_eq. rewrite (count_members all); [|apply D|apply S_incl|apply S_nodup].
    unfold zcount. f_equal. f_equal. clear. induction vsS as [|a l IHl]; cbn [filter]; auto. f_equal. exact IHl.
  - exact B1.
  - exact B2.
  - apply forallb_forall. intros vs Hvs. destruct (A3 vs Hvs) as (i & Hi & Hn). unfold all_in. apply forallb_forall. intros v Hv.
    assert (Hin : In v vsS) by (eapply (ticket_in i); eauto; lia). apply S_member; auto. apply S_incl; auto.
  - apply closure_ok.
  - apply forallb_forall. intros m Hm. destruct (A4 m Hm) as (k1 & Hk1 & ->). apply Z.eqb_eq. unfold pmask.
    assert (Hi : incl (prefix_values o k1) vsS).
    { unfold vsS, prefix_values. destruct (firstn_prefix (vlog o) k1 k ltac:(lia)) as [r Hr]. rewrite Hr, concat_app. intros v Hv. apply in_app_iff. auto. }
    apply mask_subset; auto. apply (Dom_sub vsS); auto.
    unfold vsS, prefix_values in *. destruct (firstn_prefix (vlog o) k1 k ltac:(lia)) as [r Hr]. pose proof S_nodup as Hn. unfold vsS, prefix_values in Hn.
    rewrite Hr, concat_app in Hn. apply NoDup_app_l in Hn. auto.
  - destruct (cc_quiet cc) eqn:Eq; auto. destruct (A5 eq_refl) as [Hlen Hp]. apply Z.eqb_eq. rewrite total_mask_eq. apply mask_of_perm.
    assert (k = length (vlog o)) by lia. apply Permutation_sym.
    assert (Hnc : is_claim (thr (base (ox o)) (cc_t cc)) = false).
    { destruct G as (_ & X & _). destruct (ax (ox o) (cc_t cc)) eqn:Ea; try discriminate Hkind.
      - destruct (X_col _ X _ _ Ea) as (_ & [H1|[p H1]] & _); rewrite H1; reflexivity.
      - destruct (X_colret _ X _ _ _ _ _ _ Ea) as (_ & _ & _ & H1). rewrite H1. reflexivity. }
    pose proof (quiet_perm o s _ Jv Hp Hnc) as P. unfold vsS, prefix_values. rewrite H, firstn_all. exact P.
Qed.

End Cut.
End P.
