(* C10: theorems about the concurrent vector model (Model/VecConc.v), for ALL traces / schedules and any
   number of threads.  Invariants: Proofs/VecConcBase.v (lock word, memory, abstract = concrete),
   Proofs/VecConcLin.v (the linearisation log).  Here: the assembled statements, the consequences named
   in the property, the soundness of the executable validator. *)
Require Import PV.Base.Prelude PV.Base.StrFacts PV.Model.Conc PV.Model.VecConc.
Require Import PV.Proofs.VecConcBase PV.Proofs.VecConcLin.
From Coq Require Import Arith Lia Permutation Sorted.
Open Scope N_scope.

Lemma reach_ginv nl tr s : reach nl tr s -> GInv tr s.
Proof. induction 1; [apply ginv_init | eapply ginv_step; eauto using reach_lock, reach_mem]. Qed.
Lemma reach_nl nl tr s : reach nl tr s -> v_nl s = nl.
Proof.
  intros R; induction R as [|tr s l s' R IH Hs]; auto. unfold step in Hs. destruct (step0 s l) as [s0|] eqn:E; [|discriminate]. inversion Hs; subst s'.
  cbn [v_nl tick]. rewrite <- IH. clear - E. inv_step E; reflexivity.
Qed.

(* ------------------------------------------------------------------ the generic real-time lemma *)
(* if every operation takes effect inside its own call/return window, the order of the effects extends
   the real-time order of the calls *)
Lemma real_time_generic (inv_a lin_a resp_a inv_b lin_b resp_b : nat) :
  (inv_a <= lin_a <= resp_a)%nat -> (inv_b <= lin_b <= resp_b)%nat -> (resp_a < inv_b)%nat -> (lin_a < lin_b)%nat.
Proof. lia. Qed.

(* ------------------------------------------------------------------ consistency of a log with the abstract specification *)
Fixpoint consistent (a : astate) (L : list (aop * ares)) : Prop :=
  match L with
  | [] => True
  | (o, r) :: L' => snd (aspec a o) = r /\ consistent (fst (aspec a o)) L'
  end.
Fixpoint arun (a : astate) (L : list (aop * ares)) : astate :=
  match L with [] => a | (o, _) :: L' => arun (fst (aspec a o)) L' end.

Lemma replay_consistent a L a' : areplay a (map fst L) = (a', map snd L) -> consistent a L /\ arun a L = a'.
Proof.
  revert a; induction L as [|[o r] L IH]; intros a H; cbn in *.
  - inversion H; auto.
  - destruct (aspec a o) as [a1 x] eqn:E1. destruct (areplay a1 (map fst L)) as [a2 xs] eqn:E2.
    inversion H; subst. cbn. destruct (IH a1 E2). auto.
Qed.
Lemma consistent_app a L1 L2 : consistent a (L1 ++ L2) <-> consistent a L1 /\ consistent (arun a L1) L2.
Proof.
  revert a; induction L1 as [|[o r] L1 IH]; intros a; cbn; [tauto|]. rewrite IH. tauto.
Qed.
Lemma arun_app a L1 L2 : arun a (L1 ++ L2) = arun (arun a L1) L2.
Proof. revert a; induction L1 as [|[o r] L1 IH]; intros a; cbn; auto. Qed.

Definition chron (s : vstate) : list (aop * ares) := map opres (rev (g_lin s)).

Lemma chron_consistent nl tr s : reach nl tr s -> consistent ainit (chron s) /\ arun ainit (chron s) = g_abs s.
Proof.
  intros R. pose proof (G_replay tr s (reach_ginv nl tr s R)) as H. apply replay_consistent.
  unfold chron. rewrite !map_map. cbn. exact H.
Qed.

(* ---- facts about the abstract specification *)
Lemma klookup_kinsert_same {V} k (v : V) m : klookup k m = None -> klookup k (kinsert k v m) = Some v.
Proof. intros H. rewrite kinsert_fresh by auto. induction m as [|[k1 v1] m IH]; cbn in *; [rewrite key_eqb_refl; auto|].
  destruct (key_eqb k k1); [discriminate | auto]. Qed.
Lemma klookup_kinsert_other {V} k k' (v : V) m : k' <> k -> klookup k' (kinsert k v m) = klookup k' m.
Proof.
  intros Hn. induction m as [|[k1 v1] m IH]; cbn.
  - apply key_eqb_neq in Hn. rewrite Hn; auto.
  - destruct (key_eqb k k1) eqn:E; cbn.
    + apply key_eqb_eq in E; subst. apply key_eqb_neq in Hn. rewrite Hn; auto.
    + destruct (key_eqb k' k1); auto.
Qed.
Lemma klookup_bump k c d m : klookup k (map (a_bump c d) m) = option_map (fun cv => snd (a_bump c d (k, cv))) (klookup k m).
Proof.
  induction m as [|[k1 [c1 v1]] m IH]; cbn; auto. unfold a_bump at 1; cbn. destruct (c1 =? c) eqn:Ec; cbn; destruct (key_eqb k k1); auto.
  all: cbn; unfold a_bump; cbn; rewrite Ec; reflexivity.
Qed.
Lemma klookup_bump_id k c d m : option_map fst (klookup k (map (a_bump c d) m)) = option_map fst (klookup k m).
Proof.
  rewrite klookup_bump. destruct (klookup k m) as [[c1 v1]|]; cbn; auto. unfold a_bump; cbn. destruct (c1 =? c); auto.
Qed.

Definition child_of (a : astate) (k : key) : option N := option_map fst (klookup k (a_map a)).
Definition kills (k : key) (o : aop) : Prop := o = AReset \/ o = ARemove k.

(* operations other than get-or-create of k never make k present, other than remove k / reset never make it absent or change its child *)
Lemma aspec_child_stable a o k c : child_of a k = Some c -> ~ kills k o -> child_of (fst (aspec a o)) k = Some c.
Proof.
  unfold child_of, kills. intros H Hk. destruct o; cbn; auto.
  - destruct (klookup k0 (a_map a)) eqn:E; cbn; auto. destruct (key_eqb k k0) eqn:Ek.
    + apply key_eqb_eq in Ek; subst. rewrite E in H. discriminate.
    + apply key_eqb_neq in Ek. rewrite klookup_kinsert_other; auto.
  - rewrite klookup_bump_id; auto.
  - destruct (klookup k0 (a_map a)) eqn:E; cbn; auto. rewrite klookup_kremove_other; auto. intros ->. tauto.
  - tauto.
Qed.
Lemma aspec_absent_stable a o k : child_of a k = None -> o <> AGet k -> child_of (fst (aspec a o)) k = None.
Proof.
  unfold child_of. intros H Hk. destruct o; cbn; auto.
  - destruct (klookup k0 (a_map a)) eqn:E; cbn; auto. rewrite klookup_kinsert_other; auto. congruence.
  - rewrite klookup_bump_id; auto.
  - destruct (klookup k0 (a_map a)) eqn:E; cbn; auto. destruct (key_eqb k k0) eqn:Ek.
    + apply key_eqb_eq in Ek; subst. rewrite klookup_kremove_same; auto.
    + apply key_eqb_neq in Ek. rewrite klookup_kremove_other; auto.
Qed.
Lemma aspec_get_child a k r : snd (aspec a (AGet k)) = r -> exists c, r = RChild c /\ child_of (fst (aspec a (AGet k))) k = Some c
  /\ (child_of a k = None -> c = a_next a).
Proof.
  unfold child_of. cbn. destruct (klookup k (a_map a)) as [[c v]|] eqn:E; cbn; intros <-.
  - exists c. rewrite E. cbn. repeat split; auto. discriminate.
  - exists (a_next a). rewrite klookup_kinsert_same; auto.
Qed.
Lemma aspec_kill_absent a o k : kills k o -> child_of (fst (aspec a o)) k = None.
Proof.
  unfold child_of. intros [->| ->]; cbn; auto.
  destruct (klookup k (a_map a)) eqn:E; cbn; [rewrite klookup_kremove_same | rewrite E]; auto.
Qed.

Lemma run_child_stable a L k c : child_of a k = Some c -> (forall o r, In (o, r) L -> ~ kills k o) -> child_of (arun a L) k = Some c.
Proof.
  revert a; induction L as [|[o r] L IH]; intros a H Hn; cbn; auto.
  apply IH; [apply aspec_child_stable; eauto; eapply Hn; left; eauto | intros; eapply Hn; right; eauto].
Qed.
Lemma run_absent_stable a L k : child_of a k = None -> (forall o r, In (o, r) L -> o <> AGet k) -> child_of (arun a L) k = None.
Proof.
  revert a; induction L as [|[o r] L IH]; intros a H Hn; cbn; auto.
  apply IH; [apply aspec_absent_stable; eauto; eapply Hn; left; eauto | intros; eapply Hn; right; eauto].
Qed.

(* simultaneous / successive requests for the same label values get the same child as long as the key is not removed in between *)
Lemma consistent_mid a L1 o r L2 :
  consistent a (L1 ++ (o, r) :: L2) -> snd (aspec (arun a L1) o) = r /\ consistent (fst (aspec (arun a L1) o)) L2.
Proof. intros H. apply consistent_app in H as [_ H]. exact H. Qed.
Lemma aspec_get_present a k c : child_of a k = Some c -> snd (aspec a (AGet k)) = RChild c.
Proof. unfold child_of. cbn. destruct (klookup k (a_map a)) as [[c1 v1]|]; cbn; congruence. Qed.

Lemma log_same_child a L1 k c1 L2 c2 L3 :
  consistent a (L1 ++ (AGet k, RChild c1) :: L2 ++ (AGet k, RChild c2) :: L3) ->
  (forall o r, In (o, r) L2 -> ~ kills k o) -> c1 = c2.
Proof.
  intros H Hn. apply consistent_mid in H as [H1 H]. apply consistent_mid in H as [H2 _].
  destruct (aspec_get_child _ _ _ H1) as (c & E & Hc & _). inversion E; subst c.
  pose proof (run_child_stable _ L2 k c1 Hc Hn) as Hs.
  rewrite (aspec_get_present _ _ _ Hs) in H2. congruence.
Qed.

Lemma keys_of_absent a k : child_of a k = None -> ~ In k (map fst (a_keys (a_map a))).
Proof.
  unfold child_of. intros H. destruct (klookup k (a_map a)) eqn:E; [discriminate|].
  apply klookup_None in E. unfold a_keys. rewrite map_map. cbn. exact E.
Qed.

(* a removed (or reset) key is not shown by a later collection unless it was requested again *)
Lemma log_removed_not_collected a L1 o r k L2 kcs L3 :
  consistent a (L1 ++ (o, r) :: L2 ++ (ACollect, RKeys kcs) :: L3) -> kills k o ->
  (forall o' r', In (o', r') L2 -> o' <> AGet k) -> ~ In k (map fst kcs).
Proof.
  intros H Hk Hn. apply consistent_mid in H as [_ H]. apply consistent_mid in H as [H2 _].
  cbn [aspec snd] in H2. inversion H2; subst.
  apply keys_of_absent. apply run_absent_stable; auto. apply aspec_kill_absent; auto.
Qed.

(* child ids handed out are below the counter, which never decreases *)
Lemma aspec_next_mono a o : a_next a <= a_next (fst (aspec a o)).
Proof. destruct o; cbn; try lia. all: destruct (klookup k (a_map a)); cbn; lia. Qed.
Lemma arun_next_mono a L : a_next a <= a_next (arun a L).
Proof. revert a; induction L as [|[o r] L IH]; intros a; cbn; [lia|]. pose proof (aspec_next_mono a o). specialize (IH (fst (aspec a o))). lia. Qed.
Definition ids_below (a : astate) : Prop := forall k c v, In (k, (c, v)) (a_map a) -> c < a_next a.
Lemma ids_below_step a o : ids_below a -> ids_below (fst (aspec a o)).
Proof.
  unfold ids_below. intros H. destruct o; cbn; auto.
  - destruct (klookup k (a_map a)) eqn:E; cbn; auto. rewrite kinsert_fresh by auto. intros k1 c1 v1 Hin.
    apply in_app_iff in Hin as [Hin|[Hin|[]]]; [apply H in Hin; lia | inversion Hin; lia].
  - intros k1 c1 v1 Hin. apply in_map_iff in Hin as ([k2 [c2 v2]] & E & Hin). apply H in Hin.
    unfold a_bump in E; cbn in E. destruct (c2 =? c); inversion E; subst; auto.
  - destruct (klookup k (a_map a)) eqn:E; cbn; auto. intros k1 c1 v1 Hin. apply kremove_In in Hin as [Hin _]. eauto.
  - intros ? ? ? [].
Qed.
Lemma ids_below_run a L : ids_below a -> ids_below (arun a L).
Proof. revert a; induction L as [|[o r] L IH]; intros a H; cbn; auto using ids_below_step. Qed.
Lemma consistent_child_below a L o c : ids_below a -> consistent a L -> In (o, RChild c) L -> c < a_next (arun a L).
Proof.
  revert a; induction L as [|[o1 r1] L IH]; intros a Hb Hc Hin; [destruct Hin|].
  cbn [consistent] in Hc. destruct Hc as [Hr Hc]. cbn [arun]. destruct Hin as [Hin|Hin].
  - assert (Heq : o1 = o /\ r1 = RChild c) by (inversion Hin; auto). destruct Heq as [-> ->]. pose proof (arun_next_mono (fst (aspec a o)) L).
    assert (c < a_next (fst (aspec a o))); [|lia].
    destruct o; cbn in Hr |- *; try discriminate; destruct (klookup k (a_map a)) as [[c1 v1]|] eqn:E; cbn in *; inversion Hr; subst; try lia.
    apply klookup_In in E. apply Hb in E. auto.
  - apply IH; auto using ids_below_step.
Qed.

(* a child requested again after removal is a new child: its id was never handed out before, and it starts from zero *)
Lemma log_recreated_is_fresh a L1 o r k L2 c L3 :
  ids_below a ->
  consistent a (L1 ++ (o, r) :: L2 ++ (AGet k, RChild c) :: L3) -> kills k o ->
  (forall o' r', In (o', r') L2 -> o' <> AGet k) ->
  (forall o' c', In (o', RChild c') (L1 ++ (o, r) :: L2) -> c' < c)
  /\ klookup k (a_map (arun a (L1 ++ (o, r) :: L2 ++ [(AGet k, RChild c)]))) = Some (c, 0).
Proof.
  intros Hb H Hk Hn.
  assert (Hpre : consistent a (L1 ++ (o, r) :: L2)).
  { replace (L1 ++ (o, r) :: L2 ++ (AGet k, RChild c) :: L3) with ((L1 ++ (o, r) :: L2) ++ (AGet k, RChild c) :: L3) in H
      by (rewrite <- app_assoc; reflexivity). apply consistent_app in H; tauto. }
  replace (L1 ++ (o, r) :: L2 ++ (AGet k, RChild c) :: L3) with ((L1 ++ (o, r) :: L2) ++ (AGet k, RChild c) :: L3) in H
    by (rewrite <- app_assoc; reflexivity).
  apply consistent_mid in H as [Hg _].
  set (a1 := arun a (L1 ++ (o, r) :: L2)) in *.
  assert (Habs : child_of a1 k = None).
  { unfold a1. rewrite arun_app. cbn. apply run_absent_stable; auto. apply aspec_kill_absent; auto. }
  unfold child_of in Habs. cbn in Hg. destruct (klookup k (a_map a1)) eqn:E; [discriminate|]. cbn in Hg. inversion Hg; subst c. split.
  - intros o' c' Hin. eapply consistent_child_below in Hin; eauto.
  - replace (L1 ++ (o, r) :: L2 ++ [(AGet k, RChild (a_next a1))]) with ((L1 ++ (o, r) :: L2) ++ [(AGet k, RChild (a_next a1))])
      by (rewrite <- app_assoc; reflexivity).
    rewrite arun_app. fold a1. cbn. rewrite E. cbn. apply klookup_kinsert_same; auto.
Qed.

Lemma nodup_keys_step a o : NoDup (map fst (a_map a)) -> NoDup (map fst (a_map (fst (aspec a o)))).
Proof.
  intros H. destruct o; cbn; auto.
  - destruct (klookup k (a_map a)) eqn:E; cbn; auto. rewrite kinsert_fresh, map_app by auto. apply NoDup_snoc; auto. apply klookup_None; auto.
  - rewrite map_map. erewrite map_ext; [exact H|]. intros [k1 [c1 v1]]. unfold a_bump; cbn. destruct (c1 =? c); auto.
  - destruct (klookup k (a_map a)) eqn:E; cbn; auto. apply kremove_NoDup; auto.
  - constructor.
Qed.
(* a collection's key set never contains the same label values twice *)
Lemma log_no_duplicate_keys a L kcs : NoDup (map fst (a_map a)) -> consistent a L -> In (ACollect, RKeys kcs) L -> NoDup (map fst kcs).
Proof.
  revert a; induction L as [|[o r] L IH]; intros a Hn Hc Hin; [destruct Hin|]. cbn [consistent] in Hc. destruct Hc as [Hr Hc]. destruct Hin as [Hin|Hin].
  - assert (Heq : o = ACollect /\ r = RKeys kcs) by (inversion Hin; auto). destruct Heq as [-> ->].
    cbn in Hr. inversion Hr. unfold a_keys. rewrite map_map. cbn. exact Hn.
  - apply (IH (fst (aspec a o))); auto using nodup_keys_step.
Qed.

(* ------------------------------------------------------------------ updates through handles: nothing lost, nothing counted twice *)
Definition upd_amount (c : N) (o : aop) : N := match o with AUpd c' d => if c' =? c then d else 0 | _ => 0 end.
Fixpoint upd_sum (c : N) (log : list lent) : N :=
  match log with [] => 0 | e :: r => upd_amount c (le_op e) + upd_sum c r end.

Record UpdInv (s : vstate) : Prop := {
  U_mem : forall e c d, In e (g_lin s) -> le_op e = AUpd c d -> cell_mem c (v_cells s) = true;
  U_val : forall c, cell_mem c (v_cells s) = true -> cell_get c (v_cells s) = wrap64 (upd_sum c (g_lin s));
  U_read : forall newer tm t c v older, g_lin s = newer ++ (tm, t, ARead c, RValue v) :: older -> v = wrap64 (upd_sum c older) }.

Lemma upd_sum_zero c log : (forall e c' d, In e log -> le_op e = AUpd c' d -> c' <> c) -> upd_sum c log = 0.
Proof.
  induction log as [|e log IH]; cbn; auto. intros H. rewrite IH by (intros; eapply H; eauto).
  unfold upd_amount. destruct (le_op e) eqn:E; auto. destruct (c0 =? c) eqn:Ec; auto. apply N.eqb_eq in Ec. exfalso. eapply H; eauto.
Qed.
Lemma wrap64_add_l x d : wrap64 (wrap64 x + d) = wrap64 (x + d).
Proof. unfold wrap64. apply N.add_mod_idemp_l. discriminate. Qed.

Definition quiet_op (o : aop) : Prop := match o with AUpd _ _ | ARead _ => False | _ => True end.

Lemma upd_frame s s' : UpdInv s -> v_cells s' = v_cells s ->
  (g_lin s' = g_lin s \/ exists e, g_lin s' = e :: g_lin s /\ quiet_op (le_op e)) -> UpdInv s'.
Proof.
  intros [U1 U2 U3] Ec [El|(e & El & Hq)]; constructor; rewrite ?Ec, ?El; auto.
  - intros x c d [Hx|Hx] Ho; [subst x; rewrite Ho in Hq; destruct Hq | eauto].
  - intros c Hc. cbn. rewrite U2 by auto. destruct (le_op e); cbn in *; try tauto; auto.
  - intros newer tm t c v older H. destruct newer as [|x newer]; cbn in H; inversion H; subst.
    + cbn in Hq. destruct Hq.
    + eauto.
Qed.

Lemma upd_init nl : UpdInv (vinit nl).
Proof.
  constructor; cbn; [tauto | discriminate |]. intros [|x newer]; cbn; discriminate.
Qed.

Lemma upd_step0 s l s' : MemInv s -> UpdInv s -> step0 s l = Some s' -> UpdInv s'.
Proof.
  intros MI UI H. inv_step H; boolp.
  all: try solve [exact UI].
  all: try solve [eapply upd_frame; [exact UI | reflexivity | left; reflexivity]].
  all: try solve [eapply upd_frame; [exact UI | reflexivity | right; eexists; split; [reflexivity | exact I]]].
  - (* collect: load *)
    destruct UI as [U1 U2 U3]. apply key_of_cell_In in E5 as Hin. pose proof (M_in s MI _ _ Hin) as Hm.
    constructor; sproj.
    + intros x c d [Hx|Hx] Ho; [subst x; discriminate | eauto].
    + intros c Hc. cbn. rewrite U2; auto.
    + intros newer tm t0 c v older Hl. erewrite aspec_read in Hl by eauto. cbn [snd] in Hl.
      destruct newer as [|x newer]; cbn in Hl; inversion Hl; subst; eauto.
  - (* fetch_add *)
    destruct UI as [U1 U2 U3]. subst.
    constructor; sproj.
    + intros x c0 d0 [Hx|Hx] Ho; rewrite cell_mem_set; [subst x; cbn in Ho; inversion Ho; subst; auto | eauto].
    + intros c0. rewrite cell_mem_set. intros Hc. cbn [upd_sum le_op snd fst upd_amount]. destruct (c =? c0) eqn:Ec.
      * apply N.eqb_eq in Ec; subst c0. rewrite cell_get_set_same by auto. rewrite U2 by auto.
        rewrite wrap64_add_l. f_equal. lia.
      * apply N.eqb_neq in Ec. rewrite cell_get_set_other by auto. rewrite U2 by auto. f_equal.
    + intros newer tm t0 c0 v older Hl. destruct newer as [|x newer]; cbn in Hl; inversion Hl; subst; eauto.
  - (* insert: a fresh cell *)
    destruct UI as [U1 U2 U3].
    constructor; sproj.
    + intros x c d0 [Hx|Hx] Ho; [subst x; discriminate|]. cbn. erewrite U1 by eauto. apply orb_true_r.
    + intros c. cbn [cell_mem cell_get upd_sum le_op snd fst upd_amount]. destruct (c =? v_next s) eqn:Ec.
      * apply N.eqb_eq in Ec; subst c. intros _. rewrite upd_sum_zero; [reflexivity|].
        intros e c' d' Hin Ho ->. eapply U1 in Hin; eauto. apply (M_lt s MI) in Hin. lia.
      * cbn. intros Hc. rewrite U2; auto.
    + intros newer tm t0 c v older Hl. destruct newer as [|x newer]; cbn in Hl; inversion Hl; subst; eauto.
Qed.

Lemma reach_upd nl tr s : reach nl tr s -> UpdInv s.
Proof.
  intros R; induction R as [|tr s l s' R IH Hs]; [apply upd_init|]. unfold step in Hs. destruct (step0 s l) as [s0|] eqn:E; [|discriminate]. inversion Hs; subst.
  eapply upd_frame; [eapply upd_step0; eauto using reach_mem | reflexivity | left; reflexivity].
Qed.

(* ------------------------------------------------------------------ the executable validator is sound *)
Definition visible (tr : list label) : list event :=
  flat_map (fun l => match l with LE e => [e] | LTau _ => [] end) tr.

Lemma visible_app a b : visible (a ++ b) = visible a ++ visible b.
Proof. apply flat_map_app. Qed.
Lemma saturate_run n t s : vrun s (sat_labels n t s) = Some (saturate n t s) /\ visible (sat_labels n t s) = [].
Proof.
  revert s; induction n as [|n IH]; intros s; cbn; auto.
  destruct (step s (LTau t)) as [s1|] eqn:E; cbn; auto. rewrite E. apply IH.
Qed.
Lemma vexec_sound s e s' : vexec s e = Some s' -> exists ls, vrun s (LE e :: ls) = Some s' /\ visible (LE e :: ls) = [e].
Proof.
  unfold vexec. destruct (step s (LE e)) as [s1|] eqn:E; [|discriminate]. destruct (ev_tid e) as [t|]; [|discriminate].
  intros H; inversion H; subst. exists (sat_labels 2 t s1). destruct (saturate_run 2 t s1) as [H1 H2]. cbn [vrun]. rewrite E. split; auto.
  cbn [visible flat_map]. change (flat_map _ (sat_labels 2 t s1)) with (visible (sat_labels 2 t s1)). rewrite H2; auto.
Qed.
Lemma vrun_app s tr1 s1 tr2 : vrun s tr1 = Some s1 -> vrun s (tr1 ++ tr2) = vrun s1 tr2.
Proof.
  revert s; induction tr1 as [|l tr1 IH]; intros s H; cbn in *; [inversion H; auto|].
  destruct (step s l); [auto | discriminate].
Qed.
Lemma validate_sound s i es s' : validate vexec s i es = (None, s') -> exists tr, vrun s tr = Some s' /\ visible tr = es.
Proof.
  revert s i; induction es as [|e es IH]; intros s i H; cbn in H.
  - inversion H; subst. exists []; auto.
  - destruct (vexec s e) as [s1|] eqn:E; [|discriminate]. apply vexec_sound in E as (ls & H1 & H2).
    apply IH in H as (tr & H3 & H4). exists ((LE e :: ls) ++ tr). split.
    + erewrite vrun_app; eauto.
    + rewrite visible_app, H2, H4. reflexivity.
Qed.
(* every trace accepted by the validator is the visible part of a path of the model *)
Theorem validated_is_reachable nl nth es :
  vcheck nl nth es = true -> exists tr s, reach nl tr s /\ visible tr = es /\ vfinal nth s = true.
Proof.
  unfold vcheck. destruct (validate vexec (vinit nl) 0 es) as [[i|] s] eqn:E; [discriminate|]. intros Hf.
  apply validate_sound in E as (tr & H1 & H2). exists tr, s. auto using vrun_reach.
Qed.

(* ------------------------------------------------------------------ which step of the trace a logged operation is *)
Definition lin_label (o : aop) (t : nat) (l : label) : Prop :=
  match o with
  | AGet _ | ARemove _ | AReset => l = LTau t                       (* the lookup that hits / the insert / the remove / the clear *)
  | AUpd c d => exists o' b a, l = LE (EAt t c KFetchAdd o' None b a true)      (* the fetch_add through the handle *)
  | ACollect => exists cell, l = LE (ELock t cell LRead true)                   (* the read-lock acquisition *)
  | ARead c => exists o' b a, l = LE (EAt t c KLoad o' None b a true)           (* the load of that child *)
  end.

Lemma step0_log s l s' : step0 s l = Some s' ->
  g_lin s' = g_lin s \/ exists t o r, g_lin s' = (g_now s, t, o, r) :: g_lin s /\ lin_label o t l.
Proof.
  intros H. inv_step H; boolp; subst.
  all: try solve [left; reflexivity].
  all: right; eexists _, _, _; (split; [reflexivity | cbn; eauto]).
Qed.

Definition StepInv (tr : list label) (s : vstate) : Prop :=
  forall e, In e (g_lin s) -> exists l, nth_error tr (le_time e) = Some l /\ lin_label (le_op e) (le_tid e) l.

Lemma reach_stepinv nl tr s : reach nl tr s -> StepInv tr s.
Proof.
  intros R; induction R as [|tr s l s' R IH Hs]; [intros e []|].
  pose proof (reach_ginv nl tr s R) as G. pose proof (G_now tr s G) as Hn. pose proof (G_time tr s G) as Ht.
  unfold step in Hs. destruct (step0 s l) as [s0|] eqn:E; [|discriminate]. inversion Hs; subst s'. clear Hs.
  assert (Hold : forall e, In e (g_lin s) -> exists l0, nth_error (tr ++ [l]) (le_time e) = Some l0 /\ lin_label (le_op e) (le_tid e) l0).
  { intros e He. destruct (IH e He) as (l0 & H1 & H2). exists l0. split; auto. rewrite nth_error_snoc_old; auto.
    rewrite Forall_forall in Ht. apply Ht in He. lia. }
  intros e He. cbn [g_lin tick] in He. destruct (step0_log s l s0 E) as [El|(t & o & r & El & Hl)]; rewrite El in He.
  - auto.
  - destruct He as [He|He]; auto. subst e. exists l. cbn. rewrite Hn. split; auto. apply nth_error_snoc_last.
Qed.

(* ------------------------------------------------------------------ map accesses only under the lock *)
Theorem map_changes_only_under_write_lock nl tr s l s' :
  reach nl tr s -> step s l = Some s' -> v_map s' <> v_map s ->
  exists t, l = LTau t /\ g_wh s = Some t /\ v_wr s = true
            /\ forall u, u <> t -> holds_write (v_pc s u) = false /\ holds_read (v_pc s u) = false.
Proof.
  intros R Hs Hne. pose proof (reach_lock nl tr s R) as LI.
  unfold step in Hs. destruct (step0 s l) as [s0|] eqn:E; [|discriminate]. inversion Hs; subst s'. clear Hs. cbn [v_map tick] in Hne.
  inv_step E; try (exfalso; apply Hne; reflexivity).
  all: exists t; (split; [reflexivity|]).
  all: assert (Hw : holds_write (v_pc s t) = true) by (match goal with E : v_pc _ _ = _ |- _ => rewrite E; reflexivity end).
  all: assert (Hh : g_wh s = Some t) by (apply (L_wh s LI); auto).
  all: split; [auto | split; [rewrite (L_wr s LI), Hh; auto | intros u Hu; apply (excl_w s t u LI Hw Hu)]].
Qed.

Theorem map_reads_only_under_lock nl tr s t s' :
  reach nl tr s -> step s (LTau t) = Some s' -> In t (g_rh s) \/ g_wh s = Some t.
Proof.
  intros R Hs. pose proof (reach_lock nl tr s R) as LI.
  unfold step in Hs. destruct (step0 s (LTau t)) as [s0|] eqn:E; [|discriminate]. clear Hs.
  inv_step E.
  all: try solve [left; apply (L_rh s LI); match goal with E : v_pc _ _ = _ |- _ => rewrite E; reflexivity end].
  all: try solve [right; apply (L_wh s LI); match goal with E : v_pc _ _ = _ |- _ => rewrite E; reflexivity end].
Qed.

Theorem collect_loads_under_read_lock nl tr s t c o b a s' :
  reach nl tr s -> step s (LE (EAt t c KLoad o None b a true)) = Some s' -> In t (g_rh s) /\ g_wh s = None.
Proof.
  intros R Hs. pose proof (reach_lock nl tr s R) as LI.
  unfold step in Hs. destruct (step0 s _) as [s0|] eqn:E; [|discriminate]. clear Hs.
  inv_step E. assert (Hr : In t (g_rh s)) by (apply (L_rh s LI); match goal with E : v_pc _ _ = _ |- _ => rewrite E; reflexivity end). split; auto.
  destruct (g_wh s) eqn:Ew; auto. rewrite (L_ex s LI) in Hr; [destruct Hr | congruence].
Qed.

(* ------------------------------------------------------------------ consequences for reachable states *)
Section Reach.
Variables (nl : nat) (tr : list label) (s : vstate).
Hypothesis R : reach nl tr s.

Lemma lins_in_chron t ti trr x : In x (lins_in t ti trr (g_lin s)) -> In x (chron s).
Proof.
  unfold lins_in, chron. intros H. apply in_map_iff in H as (e & <- & H). apply in_map. rewrite <- in_rev in H.
  apply filter_In in H as [H _]. rewrite <- in_rev. exact H.
Qed.

Theorem same_child_on_race L1 k c1 L2 c2 L3 :
  chron s = L1 ++ (AGet k, RChild c1) :: L2 ++ (AGet k, RChild c2) :: L3 ->
  (forall o r, In (o, r) L2 -> ~ kills k o) -> c1 = c2.
Proof. intros E. destruct (chron_consistent nl tr s R) as [H _]. rewrite E in H. eapply log_same_child; eauto. Qed.

Theorem removed_not_collected L1 o r k L2 kcs L3 :
  chron s = L1 ++ (o, r) :: L2 ++ (ACollect, RKeys kcs) :: L3 -> kills k o ->
  (forall o' r', In (o', r') L2 -> o' <> AGet k) -> ~ In k (map fst kcs).
Proof. intros E. destruct (chron_consistent nl tr s R) as [H _]. rewrite E in H. eapply log_removed_not_collected; eauto. Qed.

Lemma ainit_ids_below : ids_below ainit.
Proof. intros ? ? ? []. Qed.

Theorem recreated_is_fresh L1 o r k L2 c L3 :
  chron s = L1 ++ (o, r) :: L2 ++ (AGet k, RChild c) :: L3 -> kills k o ->
  (forall o' r', In (o', r') L2 -> o' <> AGet k) ->
  (forall o' c', In (o', RChild c') (L1 ++ (o, r) :: L2) -> c' < c)
  /\ klookup k (a_map (arun ainit (L1 ++ (o, r) :: L2 ++ [(AGet k, RChild c)]))) = Some (c, 0).
Proof. intros E. destruct (chron_consistent nl tr s R) as [H _]. rewrite E in H. eapply log_recreated_is_fresh; eauto using ainit_ids_below. Qed.

Theorem collected_keys_nodup t l ti trr : In (t, CVCollect, RColl l, ti, trr) (g_done s) -> NoDup (map fst l).
Proof.
  intros Hin. pose proof (reach_ginv nl tr s R) as G. destruct (G_done tr s G _ _ _ _ _ Hin) as (_ & _ & Hm & _).
  cbn in Hm. destruct Hm as (snap & vis & Hr & Hl & Hp). inversion Hr; subst l.
  assert (Hs : NoDup (map fst snap)).
  { destruct (chron_consistent nl tr s R) as [Hc _]. eapply log_no_duplicate_keys; [| exact Hc |]; [constructor|].
    apply (lins_in_chron t ti trr). rewrite Hl. left; reflexivity. }
  apply (Permutation_map fst) in Hp. apply Permutation_sym in Hp. eapply Permutation_NoDup in Hp; eauto.
  unfold vis_result, vis_keys in *. rewrite map_map in *. cbn in *. exact Hp.
Qed.

Theorem returned_collection_nodup i t l : nth_error tr i = Some (LE (ERet t (RColl l))) -> NoDup (map fst l).
Proof.
  intros H. pose proof (reach_ginv nl tr s R) as G. destruct (G_rets tr s G _ _ _ H) as (c & ti & Hin).
  destruct (G_done tr s G _ _ _ _ _ Hin) as (_ & _ & Hm & _).
  destruct c; cbn in Hm; try tauto.
  - destruct (Nat.eqb (length k) (v_nl s)); destruct Hm; discriminate.
  - destruct (Nat.eqb (length k) (v_nl s)); [destruct Hm as [[Hm _]|[Hm _]] | destruct Hm as [Hm _]]; discriminate.
  - destruct Hm; discriminate.
  - eapply collected_keys_nodup; eauto.
Qed.

Theorem handle_survives_removal t k c d o :
  v_pc s t = PU k c d ->
  let v := cell_get c (v_cells s) in
  exists s', step s (LE (EAt t c KFetchAdd o None v (wrap64 (v + d)) true)) = Some s'
             /\ cell_get c (v_cells s') = wrap64 (v + d)
             /\ v_map s' = v_map s
             /\ (~ In c (map snd (v_map s)) -> g_abs s' = g_abs s).
Proof.
  intros Hpc v. pose proof (reach_mem nl tr s R) as MI. pose proof (M_pc s MI t) as Hc. rewrite Hpc in Hc. cbn in Hc.
  unfold step, step0. rewrite Hpc. fold v. rewrite !N.eqb_refl, Hc. cbn [andb].
  eexists. split; [reflexivity|]. sproj. split; [apply cell_get_set_same; auto | split; [reflexivity|]].
  intros Hn. subst v. rewrite aspec_upd by auto. cbn [fst]. rewrite (M_abs s MI). f_equal. unfold abs_of.
  apply abs_map_ext. intros c1 H1. apply cell_get_set_other. congruence.
Qed.

Theorem fresh_child_on_insert t k d s' :
  v_pc s t = PG6 k d -> step s (LTau t) = Some s' ->
  v_pc s' t = PG7 k d (v_next s) /\ klookup k (v_map s') = Some (v_next s) /\ cell_get (v_next s) (v_cells s') = 0
  /\ cell_mem (v_next s) (v_cells s) = false /\ ~ In (v_next s) (map snd (v_map s)).
Proof.
  intros Hpc Hs. pose proof (reach_mem nl tr s R) as MI. pose proof (M_pc s MI t) as Hk. rewrite Hpc in Hk. cbn in Hk.
  unfold step, step0 in Hs. rewrite Hpc in Hs. inversion Hs; subst s'. sproj.
  assert (Hf : cell_mem (v_next s) (v_cells s) = false).
  { destruct (cell_mem (v_next s) (v_cells s)) eqn:E; auto. apply (M_lt s MI) in E. lia. }
  repeat split.
  - apply updf_same.
  - apply klookup_kinsert_same; auto.
  - cbn. rewrite N.eqb_refl; auto.
  - auto.
  - intros H. apply in_map_iff in H as ([k1 c1] & E & H). cbn in E; subst. apply (M_in s MI) in H. congruence.
Qed.

Theorem no_lost_update newer tm t c v older :
  g_lin s = newer ++ (tm, t, ARead c, RValue v) :: older -> v = wrap64 (upd_sum c older).
Proof. apply (U_read s (reach_upd nl tr s R)). Qed.

Theorem cell_is_sum_of_updates c : cell_mem c (v_cells s) = true -> cell_get c (v_cells s) = wrap64 (upd_sum c (g_lin s)).
Proof. apply (U_val s (reach_upd nl tr s R)). Qed.

(* real time: operations of a call that returned before another was invoked are linearised earlier *)
Theorem real_time_order t1 c1 r1 ti1 tr1 t2 c2 r2 ti2 tr2 e1 e2 :
  In (t1, c1, r1, ti1, tr1) (g_done s) -> In (t2, c2, r2, ti2, tr2) (g_done s) -> (tr1 < ti2)%nat ->
  In e1 (g_lin s) -> winb t1 ti1 tr1 e1 = true -> In e2 (g_lin s) -> winb t2 ti2 tr2 e2 = true ->
  (le_time e1 < le_time e2)%nat.
Proof.
  intros _ _ Hlt _ H1 _ H2. unfold winb, mineb in *.
  apply andb_true_iff in H1 as [H1 H1c]. apply andb_true_iff in H1 as [_ H1b].
  apply andb_true_iff in H2 as [H2 H2c]. apply andb_true_iff in H2 as [_ H2b].
  apply Nat.leb_le in H1b, H1c, H2b, H2c. eapply real_time_generic; eauto.
Qed.

(* sequential histories: with one thread, completed calls are totally ordered in real time, so the order of the log is the program order *)
Definition lab_tid (l : label) : option nat := match l with LE e => ev_tid e | LTau t => Some t end.
Theorem sequential_total t0 d1 d2 :
  (forall l, In l tr -> lab_tid l = Some t0) ->
  In d1 (g_done s) -> In d2 (g_done s) -> d1 = d2 \/ (snd d1 < snd (fst d2))%nat \/ (snd d2 < snd (fst d1))%nat.
Proof.
  intros Hall H1 H2. pose proof (reach_ginv nl tr s R) as G.
  destruct d1 as [[[[t1 c1] r1] ti1] tr1]. destruct d2 as [[[[t2 c2] r2] ti2] tr2]. cbn.
  destruct (G_done tr s G _ _ _ _ _ H1) as (_ & _ & _ & Hc1 & _). destruct (G_done tr s G _ _ _ _ _ H2) as (_ & _ & _ & Hc2 & _).
  apply nth_error_In in Hc1, Hc2. apply Hall in Hc1, Hc2. cbn in Hc1, Hc2. inversion Hc1; inversion Hc2; subst.
  destruct (G_disj tr s G _ _ _ _ _ _ _ _ _ H1 H2) as [E|[E|E]]; auto. left. inversion E; subst; auto.
Qed.
End Reach.

(* ------------------------------------------------------------------ the assembled statements, over executable runs *)
Definition owner_ok (s : vstate) (e : lent) : Prop :=
  (exists c ti, g_open s (le_tid e) = Some (c, ti) /\ (ti <= le_time e)%nat)
  \/ (exists c r ti trr, In (le_tid e, c, r, ti, trr) (g_done s) /\ (ti <= le_time e <= trr)%nat).

Theorem linearizable nl tr s : vrun (vinit nl) tr = Some s ->
  (* the log, replayed on the abstract map specification, yields the logged results and the abstract state *)
  areplay ainit (map le_op (rev (g_lin s))) = (g_abs s, map le_res (rev (g_lin s)))
  (* the log is ordered by time, and each logged operation is the designated step of the trace *)
  /\ StronglySorted (fun a b => (le_time b < le_time a)%nat) (g_lin s)
  /\ (forall e, In e (g_lin s) -> exists l, nth_error tr (le_time e) = Some l /\ lin_label (le_op e) (le_tid e) l)
  (* every returned call of the trace is recorded; a recorded call is a call/return pair of the trace, and it
     returned what the operations logged inside its window dictate *)
  /\ (forall i t c, nth_error tr i = Some (LE (ECall t c)) -> g_open s t = Some (c, i) \/ exists r trr, In (t, c, r, i, trr) (g_done s))
  /\ (forall i t r, nth_error tr i = Some (LE (ERet t r)) -> exists c ti, In (t, c, r, ti, i) (g_done s))
  /\ (forall t c r ti trr, In (t, c, r, ti, trr) (g_done s) ->
        (ti < trr)%nat /\ nth_error tr ti = Some (LE (ECall t c)) /\ nth_error tr trr = Some (LE (ERet t r))
        /\ ret_matches nl c r (lins_in t ti trr (g_lin s)))
  (* every logged operation lies inside the window of a call of its thread *)
  /\ (forall e, In e (g_lin s) -> owner_ok s e).
Proof.
  intros H. apply vrun_reach in H. pose proof (reach_ginv nl tr s H) as G. pose proof (reach_nl nl tr s H) as Hnl.
  split; [apply (G_replay tr s G)|]. split; [apply (G_sorted tr s G)|]. split; [apply (reach_stepinv nl tr s H)|].
  split; [apply (G_calls tr s G)|]. split; [apply (G_rets tr s G)|]. split; [|apply (G_owner tr s G)].
  intros t c r ti trr Hin. destruct (G_done tr s G _ _ _ _ _ Hin) as (A & B & C & D & E). rewrite Hnl in C. auto.
Qed.

Theorem invariants nl tr s : vrun (vinit nl) tr = Some s ->
  LockInv s
  /\ NoDup (map fst (v_map s)) /\ NoDup (map snd (v_map s))
  /\ g_abs s = mkA (map (fun kc => (fst kc, (snd kc, cell_get (snd kc) (v_cells s)))) (v_map s)) (v_next s).
Proof.
  intros H. apply vrun_reach in H. pose proof (reach_mem nl tr s H) as MI.
  split; [eapply reach_lock; eauto|]. split; [apply (M_keys s MI)|]. split; [apply (M_cells s MI)|]. apply (M_abs s MI).
Qed.

Theorem mutual_exclusion nl tr s t u : vrun (vinit nl) tr = Some s ->
  holds_write (v_pc s t) = true -> u <> t -> holds_write (v_pc s u) = false /\ holds_read (v_pc s u) = false.
Proof. intros H. apply vrun_reach in H. apply excl_w. eapply reach_lock; eauto. Qed.

Theorem map_access_under_lock nl tr s l s' : vrun (vinit nl) tr = Some s -> step s l = Some s' ->
  (v_map s' <> v_map s ->
     exists t, l = LTau t /\ g_wh s = Some t /\ v_wr s = true
               /\ forall u, u <> t -> holds_write (v_pc s u) = false /\ holds_read (v_pc s u) = false)
  /\ (forall t, l = LTau t -> In t (g_rh s) \/ g_wh s = Some t)
  /\ (forall t c o b a, l = LE (EAt t c KLoad o None b a true) -> In t (g_rh s) /\ g_wh s = None).
Proof.
  intros H Hs. apply vrun_reach in H. split; [|split].
  - eapply map_changes_only_under_write_lock; eauto.
  - intros t ->. eapply map_reads_only_under_lock; eauto.
  - intros t c o b a ->. eapply collect_loads_under_read_lock; eauto.
Qed.

(* a real trace of the implementation in which two threads race on the first request of one key *)
Definition race_trace : list event :=
  [ECall 0 (CWithInc [[97]] 1); ELock 0 0 LRead true; EUnlock 0 0 LRead; ECall 1 (CWithInc [[97]] 2); ELock 1 0 LRead true;
   EUnlock 1 0 LRead; ELock 1 0 LWrite true; ELock 0 0 LWrite false; EUnlock 1 0 LWrite; EAt 1 1 KFetchAdd Relaxed None 0 2 true;
   ERet 1 RUnit; ELock 0 0 LWrite true; EUnlock 0 0 LWrite; EAt 0 1 KFetchAdd Relaxed None 2 3 true; ERet 0 RUnit;
   ECall 0 CVCollect; ELock 0 0 LRead true; EAt 0 1 KLoad Relaxed None 3 3 true; EUnlock 0 0 LRead; ERet 0 (RColl [([[97]], 3)])].
(* a real trace in which one collection shows the second of two successive updates of a thread but not the first:
   the VALUES of a collection are not an atomic snapshot (its key set is) *)
Definition snapshot_trace : list event :=
  [ECall 0 (CWithInc [[97]] 4); ELock 0 0 LRead true; EUnlock 0 0 LRead; ELock 0 0 LWrite true; EUnlock 0 0 LWrite;
   EAt 0 1 KFetchAdd Relaxed None 0 4 true; ERet 0 RUnit; ECall 0 (CWithInc [[98]] 8); ELock 0 0 LRead true; EUnlock 0 0 LRead;
   ELock 0 0 LWrite true; EUnlock 0 0 LWrite; EAt 0 2 KFetchAdd Relaxed None 0 8 true; ERet 0 RUnit; ECall 1 CVCollect;
   ELock 1 0 LRead true; EAt 1 1 KLoad Relaxed None 4 4 true; ECall 0 (CWithInc [[97]] 1); ELock 0 0 LRead true; EUnlock 0 0 LRead;
   EAt 0 1 KFetchAdd Relaxed None 4 5 true; ERet 0 RUnit; ECall 0 (CWithInc [[98]] 2); ELock 0 0 LRead true; EUnlock 0 0 LRead;
   EAt 0 2 KFetchAdd Relaxed None 8 10 true; ERet 0 RUnit; EAt 1 2 KLoad Relaxed None 10 10 true; EUnlock 1 0 LRead;
   ERet 1 (RColl [([[97]], 4); ([[98]], 10)])].

(* a real sequential trace: request, remove, collect, request again, collect *)
Definition recreate_trace : list event :=
  [ECall 0 (CWithInc [[97]] 1); ELock 0 0 LRead true; EUnlock 0 0 LRead; ELock 0 0 LWrite true; EUnlock 0 0 LWrite;
   EAt 0 1 KFetchAdd Relaxed None 0 1 true; ERet 0 RUnit; ECall 0 (CRemove [[97]]); ELock 0 0 LWrite true; EUnlock 0 0 LWrite;
   ERet 0 RUnit; ECall 0 CVCollect; ELock 0 0 LRead true; EUnlock 0 0 LRead; ERet 0 (RColl []); ECall 0 (CWithInc [[97]] 2);
   ELock 0 0 LRead true; EUnlock 0 0 LRead; ELock 0 0 LWrite true; EUnlock 0 0 LWrite; EAt 0 2 KFetchAdd Relaxed None 0 2 true;
   ERet 0 RUnit; ECall 0 CVCollect; ELock 0 0 LRead true; EAt 0 2 KLoad Relaxed None 2 2 true; EUnlock 0 0 LRead;
   ERet 0 (RColl [([[97]], 2)])].
