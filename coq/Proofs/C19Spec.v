(* The executable statement of C19 (Spec/SpecC19.v, written from the property text) accepts the
   model's own output (Model/Static.v) on every round of the domain: well-formed declaration,
   label names of the vector a permutation of the keys, valid accessor calls. *)
Require Import PV.Base.Prelude PV.Base.StrFacts PV.Model.Proto PV.Model.Desc PV.Model.Value PV.Model.Vec PV.Model.Static PV.Spec.SpecC19.
Require Import PV.Proofs.C05Facts PV.Proofs.C19Facts.
From Coq Require Import Permutation.
Open Scope N_scope.

(* ================= 1. the spec's reading of a path = the model's ================= *)
Lemma alookup_find_enum e (l : list edef) :
  alookup e (map (fun d => (e_name d, e_vals d)) l) = option_map e_vals (find (fun x => str_eqb e (e_name x)) l).
Proof. induction l as [|x l IH]; cbn [map alookup find]; [reflexivity|]. destruct (str_eqb e (e_name x)); [reflexivity|exact IH]. Qed.
Lemma enum_lookup_find env e : enum_lookup env e = option_map e_vals (find (fun x => str_eqb e (e_name x)) (rev env)).
Proof. unfold enum_lookup. rewrite <- map_rev. apply alookup_find_enum. Qed.

Definition is_enumb (rl : rlabel) : bool := match rl_pats rl with Some _ => true | None => false end.
Lemma sp_values_resolve d l rl : resolve_label (dc_enums d) l = Some rl ->
  sp_values d l = Some (rl_vals rl, is_enumb rl) /\ rl_key rl = l_key l.
Proof.
  unfold resolve_label, sp_values. destruct (l_arm l) as [vs|e].
  - intros H; inversion H; subst. split; reflexivity.
  - rewrite enum_lookup_find. destruct (find (fun x => str_eqb e (e_name x)) (rev (dc_enums d))) as [x|]; cbn [option_map]; [|discriminate].
    intros H; inversion H; subst. split; reflexivity.
Qed.

Lemma existsb_find_str x vals :
  match find_str x vals with
  | Some v => existsb (fun v => str_eqb x (v_str v)) vals = true /\ v_str v = x
  | None => existsb (fun v => str_eqb x (v_str v)) vals = false
  end.
Proof.
  unfold find_str. induction vals as [|w vals IH]; cbn [find existsb]; [reflexivity|].
  destruct (str_eqb x (v_str w)) eqn:E; cbn [orb].
  - split; [reflexivity|]. apply str_eqb_eq in E. auto.
  - exact IH.
Qed.

Lemma sp_step_resolve d l rl s : resolve_label (dc_enums d) l = Some rl ->
  sp_step d l s = option_map v_str (step_value (has_try (dc_form d)) rl s).
Proof.
  intros R. destruct (sp_values_resolve d l rl R) as [V _]. unfold sp_step. rewrite V.
  destruct s as [id|id|x]; cbn [step_value].
  - reflexivity.
  - unfold is_enumb. destruct (rl_pats rl); reflexivity.
  - destruct (dc_form d); cbn [has_try]; [|reflexivity].
    pose proof (existsb_find_str x (rl_vals rl)) as F. destruct (find_str x (rl_vals rl)) as [v|].
    + destruct F as [F1 F2]. rewrite F1. cbn. congruence.
    + rewrite F. reflexivity.
Qed.

Lemma sp_path_resolve d : forall labels rls, resolve_labels (dc_enums d) labels = Some rls -> forall p,
  sp_path d labels p =
  match path_values (has_try (dc_form d)) rls p with
  | Some vs => if Nat.eqb (length vs) (length rls) then Some (combine (keys_of rls) (strs_of vs)) else None
  | None => None
  end.
Proof.
  induction labels as [|l labels IH]; intros rls R p; cbn [resolve_labels] in R.
  - inversion R; subst. destruct p as [|s p]; reflexivity.
  - destruct (resolve_label (dc_enums d) l) as [rl|] eqn:E; [|discriminate].
    destruct (resolve_labels (dc_enums d) labels) as [rs|] eqn:E2; [|discriminate]. inversion R; subst. clear R.
    destruct p as [|s p]; [reflexivity|]. cbn [sp_path path_values].
    rewrite (sp_step_resolve d l rl s E). destruct (step_value (has_try (dc_form d)) rl s) as [v|]; cbn [option_map]; [|reflexivity].
    rewrite (IH rs eq_refl p). destruct (path_values (has_try (dc_form d)) rs p) as [vs|]; [|reflexivity].
    cbn [length]. change (Nat.eqb (S (length vs)) (S (length rs))) with (Nat.eqb (length vs) (length rs)).
    destruct (Nat.eqb (length vs) (length rs)); [|reflexivity].
    destruct (sp_values_resolve d l rl E) as [_ K]. cbn. rewrite K. reflexivity.
Qed.
Lemma sp_path_denote d ls p : resolve d = Some ls ->
  sp_path d (dc_labels d) p = option_map (declared_map ls) (denote (has_try (dc_form d)) ls p).
Proof.
  intros R. rewrite (sp_path_resolve d _ ls R). unfold denote.
  destruct (path_values (has_try (dc_form d)) ls p) as [vs|]; [|reflexivity].
  destruct (Nat.eqb (length vs) (length ls)); reflexivity.
Qed.
Lemma resolve_labels_nth env : forall labels rls, resolve_labels env labels = Some rls ->
  forall i l, nth_error labels i = Some l -> exists rl, nth_error rls i = Some rl /\ resolve_label env l = Some rl.
Proof.
  induction labels as [|l0 labels IH]; intros rls R i l H; [destruct i; discriminate|]. cbn [resolve_labels] in R.
  destruct (resolve_label env l0) as [rl|] eqn:E; [|discriminate].
  destruct (resolve_labels env labels) as [rs|] eqn:E2; [|discriminate]. inversion R; subst.
  destruct i as [|i]; cbn in H |- *.
  - inversion H; subst. eauto.
  - eapply IH; eauto.
Qed.
Lemma resolve_labels_length env : forall labels rls, resolve_labels env labels = Some rls -> length rls = length labels.
Proof.
  induction labels as [|l0 labels IH]; intros rls R; cbn [resolve_labels] in R; [inversion R; reflexivity|].
  destruct (resolve_label env l0); [|discriminate]. destruct (resolve_labels env labels) as [rs|]; [|discriminate].
  inversion R; subst. cbn. f_equal. apply IH. reflexivity.
Qed.

(* ================= 2. the keys of the children store ================= *)
Definition kv_keys (m : kv) : list (list str) := map fst m.
Definition has_key (k : list str) (m : kv) : bool := existsb (key_eqb k) (kv_keys m).
Lemma has_key_In k m : has_key k m = true <-> In k (kv_keys m).
Proof.
  unfold has_key. rewrite existsb_exists. split.
  - intros (x & H & E). apply key_eqb_eq in E. subst. exact H.
  - intros H. exists k. split; auto. apply key_eqb_refl.
Qed.
Lemma kv_set_keys k x m : kv_keys (kv_set k x m) = if has_key k m then kv_keys m else kv_keys m ++ [k].
Proof.
  unfold has_key, kv_keys. induction m as [|[k0 y] m IH]; cbn [kv_set map existsb fst]; [reflexivity|].
  destruct (key_eqb k k0) eqn:E; cbn [orb map fst]; [reflexivity|].
  rewrite IH. destruct (existsb (key_eqb k) (map fst m)); reflexivity.
Qed.
Lemma kv_add_keys_in k x m : In k (kv_keys m) -> kv_keys (kv_add k x m) = kv_keys m.
Proof. intros H. unfold kv_add. rewrite kv_set_keys. apply has_key_In in H. rewrite H. reflexivity. Qed.
Lemma NoDup_snoc {X} (a : list X) x : NoDup a -> ~ In x a -> NoDup (a ++ [x]).
Proof.
  intros N H. apply NoDup_app_intro; auto.
  - constructor; [intros []|constructor].
  - intros y Hy [<-|[]]. contradiction.
Qed.
Lemma init_keys (all : list rleaf) : forall m, NoDup (kv_keys m) ->
  NoDup (kv_keys (fold_left (fun m l => kv_add (snd l) 0 m) all m))
  /\ (forall k, In k (kv_keys (fold_left (fun m l => kv_add (snd l) 0 m) all m)) <-> In k (kv_keys m) \/ In k (map snd all)).
Proof.
  induction all as [|l all IH]; intros m N; cbn [fold_left map].
  - split; auto. intros k. split; [auto|intros [H|[]]; auto].
  - assert (K : kv_keys (kv_add (snd l) 0 m) = if has_key (snd l) m then kv_keys m else kv_keys m ++ [snd l]).
    { unfold kv_add. apply kv_set_keys. }
    assert (N1 : NoDup (kv_keys (kv_add (snd l) 0 m))).
    { rewrite K. destruct (has_key (snd l) m) eqn:E; auto. apply NoDup_snoc; auto. intros C. apply has_key_In in C. congruence. }
    destruct (IH _ N1) as [A B]. split; auto. intros k. rewrite B. rewrite K.
    destruct (has_key (snd l) m) eqn:E.
    + apply has_key_In in E. cbn [In]. split; [intros [H|H]; auto|intros [H|[H|H]]; auto; subst; auto].
    + rewrite in_app_iff. cbn [In]. tauto.
Qed.
Lemma kv_get_In k y m : NoDup (kv_keys m) -> In (k, y) m -> kv_get k m = y.
Proof.
  unfold kv_keys. induction m as [|[k0 y0] m IH]; intros N H; [destruct H|]. cbn [map fst] in N. inversion N as [|? ? N1 N2]; subst.
  cbn [kv_get]. destruct (key_eqb k k0) eqn:E.
  - apply key_eqb_eq in E. subst k0. destruct H as [H|H]; [inversion H; reflexivity|].
    exfalso. apply N1. apply (in_map fst) in H. exact H.
  - destruct H as [H|H]; [inversion H; subst; rewrite key_eqb_refl in E; discriminate|]. apply IH; auto.
Qed.

(* ================= 3. no call creates or removes a child ================= *)
Lemma flush_leaf_keys st (l : rleaf) : In (snd l) (kv_keys (rt_store st)) ->
  kv_keys (rt_store (flush_leaf st l)) = kv_keys (rt_store st).
Proof.
  intros H. unfold flush_leaf. destruct (kv_get (fst l) (rt_bufs st) =? 0); [reflexivity|]. cbn [rt_store].
  apply kv_add_keys_in. exact H.
Qed.
Lemma flush_leaves_keys (lv : list rleaf) : forall st, (forall l, In l lv -> In (snd l) (kv_keys (rt_store st))) ->
  kv_keys (rt_store (flush_leaves st lv)) = kv_keys (rt_store st).
Proof.
  unfold flush_leaves. induction lv as [|l lv IH]; intros st H; cbn [fold_left]; [reflexivity|].
  assert (E : kv_keys (rt_store (flush_leaf st l)) = kv_keys (rt_store st)) by (apply flush_leaf_keys; apply H; left; reflexivity).
  rewrite IH; [exact E|]. intros x Hx. rewrite E. apply H. right. exact Hx.
Qed.

Section Keys.
  Variables (d : decl) (ls : list rlabel) (names : list str) (auto : bool) (off : layout).
  Hypothesis WF : wf_decl d ls.
  Hypothesis PERM : Permutation names (keys_of ls).
  Hypothesis INJ : layout_inj ls off.
  Let s := setup_with d ls names auto off.
  Let tg := has_try (dc_form d).
  Let all := all_leaves names ls.
  Definition covers (st : rt) : Prop := forall l, In l all -> In (snd l) (kv_keys (rt_store st)).

  Lemma step_keys st o st' : covers st -> step_op s st o = Some st' ->
    kv_keys (rt_store st') = kv_keys (rt_store st).
  Proof.
    intros C. pose proof (leaves_all d ls names auto off WF PERM) as LA. fold s in LA. fold all in LA.
    destruct o as [p x|p]; cbn [step_op].
    - unfold s at 1. rewrite (locate_eq d ls names auto off WF INJ). fold tg.
      destruct (denote tg ls p) as [vs|] eqn:D; cbn [option_map]; [|discriminate].
      pose proof (denote_spec _ _ _ _ D) as (_ & Ln & _). unfold s at 1. cbn [setup_with su_names].
      rewrite (resolve_static_leaf d ls names WF PERM vs Ln).
      pose proof (denote_in_all d ls names vs p D) as IN. fold all in IN.
      destruct (su_local s).
      + destruct (su_form s); [intros [= <-]; reflexivity|].
        destruct (su_auto s); [|intros [= <-]; reflexivity].
        change (su_names s) with names. rewrite LA. intros [= <-]. rewrite flush_leaves_keys; [reflexivity|].
        intros l Hl. cbn [rt_store]. apply C. exact Hl.
      + intros [= <-]. cbn [rt_store]. apply kv_add_keys_in. apply (C _ IN).
    - destruct (su_local s); cbn [negb]; [|discriminate]. change (su_names s) with names. destruct (su_form s).
      + unfold s at 1. rewrite su_tree_eq. fold tg. destruct (walk (static_tree tg ls) p) as [t|] eqn:Wk; [|discriminate].
        destruct (resolve_leaves names (tree_leaves t)) as [lv|] eqn:R; [|discriminate].
        intros [= <-]. apply flush_leaves_keys. intros l Hl. apply C.
        eapply (subtree_leaves d ls names WF PERM); eauto.
      + destruct p; [|discriminate]. rewrite LA. intros [= <-]. apply flush_leaves_keys. intros l Hl. apply C. exact Hl.
  Qed.
  Lemma run_keys ops : forall st st', covers st -> run_ops s st ops = Some st' ->
    kv_keys (rt_store st') = kv_keys (rt_store st).
  Proof.
    induction ops as [|o r IH]; intros st st' C; cbn [run_ops]; [intros [= <-]; reflexivity|].
    destruct (step_op s st o) as [st1|] eqn:E; [|discriminate]. intros H.
    pose proof (step_keys st o st1 C E) as K. rewrite (IH st1 st'); auto.
    intros l Hl. rewrite K. apply C. exact Hl.
  Qed.

  (* the children after X::from: one per distinct declared tuple *)
  Lemma init_store_keys : NoDup (kv_keys (init_store all))
    /\ (forall k, In k (kv_keys (init_store all)) <-> exists vs, In vs (all_paths ls) /\ k = child_of names ls vs).
  Proof.
    unfold init_store. destruct (init_keys all [] (NoDup_nil _)) as [A B]. split; [exact A|].
    intros k. rewrite B. cbn [kv_keys map In]. unfold all, all_leaves. rewrite map_map. cbn [leaf_of snd]. rewrite in_map_iff.
    split.
    - intros [[]|(vs & E & H)]. exists vs. split; auto.
    - intros (vs & H & E). right. exists vs. split; auto.
  Qed.
  Lemma init_covers : covers (mkRT (init_store all) []).
  Proof.
    intros l Hl. cbn [rt_store]. unfold all, all_leaves in Hl. apply in_map_iff in Hl as (vs & <- & H).
    apply init_store_keys. exists vs. split; auto.
  Qed.
End Keys.

(* ================= 4. label pairs as sets ================= *)
Lemma pairs_same_spec a b : pairs_same a b = true <-> length a = length b /\ (forall x, In x a -> In x b).
Proof.
  unfold pairs_same. rewrite andb_true_iff, forallb_forall. rewrite lenN_eq. split; intros [L H]; split; auto.
  - intros x Hx. apply H in Hx. apply existsb_exists in Hx as (y & Hy & E). apply andb_prop in E as [E1 E2].
    apply str_eqb_eq in E1, E2. destruct x, y; cbn in *; subst. exact Hy.
  - intros x Hx. apply existsb_exists. exists x. split; auto. rewrite !str_eqb_refl. reflexivity.
Qed.
Lemma bool_eq_iff (a b : bool) : (a = true <-> b = true) -> a = b.
Proof. intros [H1 H2]. destruct a, b; auto. symmetry. auto. Qed.
Lemma pairs_same_perm_l a a' b : Permutation a a' -> pairs_same a b = pairs_same a' b.
Proof.
  intros P. apply bool_eq_iff. rewrite !pairs_same_spec. rewrite (Permutation_length P). split; intros [L H]; split; auto; intros x Hx; apply H.
  - eapply Permutation_in; [apply Permutation_sym; exact P|exact Hx].
  - eapply Permutation_in; [exact P|exact Hx].
Qed.

Lemma tuple_from_pairs (f : str -> str) : forall names k, NoDup names -> length k = length names ->
  (forall n, In n names -> In (n, f n) (combine names k)) -> k = map f names.
Proof.
  induction names as [|n names IH]; intros k N L H; destruct k as [|k0 k]; cbn in L; try discriminate; [reflexivity|].
  inversion N as [|? ? N1 N2]; subst. cbn [map]. f_equal.
  - destruct (H n (or_introl eq_refl)) as [E|E]; [inversion E; reflexivity|].
    exfalso. apply N1. apply in_combine_l in E. exact E.
  - apply IH; auto. intros m Hm. destruct (H m (or_intror Hm)) as [E|E]; auto.
    inversion E; subst. contradiction.
Qed.

Section Pairs.
  Variables (d : decl) (ls : list rlabel) (names : list str).
  Hypothesis WF : wf_decl d ls.
  Hypothesis PERM : Permutation names (keys_of ls).

  Lemma names_nodup : NoDup names.
  Proof. destruct WF as (_ & (_ & NK & _) & _). eapply Permutation_NoDup; [apply Permutation_sym; exact PERM|exact NK]. Qed.

  Lemma pairs_same_child vs k : length vs = length ls -> length k = length names ->
    pairs_same (declared_map ls vs) (combine names k) = key_eqb (child_of names ls vs) k.
  Proof.
    intros Lv Lk. destruct WF as (_ & (_ & NK & _) & _).
    pose proof (child_pairs_perm names ls vs NK Lv PERM) as CP.
    destruct (key_eqb (child_of names ls vs) k) eqn:E.
    - apply key_eqb_eq in E. subst k. apply pairs_same_spec. split.
      + apply Permutation_length. apply Permutation_sym. exact CP.
      + intros x Hx. eapply Permutation_in; [apply Permutation_sym; exact CP|exact Hx].
    - destruct (pairs_same (declared_map ls vs) (combine names k)) eqn:PS; [|reflexivity]. exfalso.
      apply key_eqb_neq in E. apply E. symmetry. unfold child_of. apply tuple_from_pairs; auto; [apply names_nodup|].
      intros n Hn. apply pairs_same_spec in PS as [_ PS]. apply PS.
      assert (Hk : In n (map fst (declared_map ls vs))).
      { rewrite declared_map_keys; auto. eapply Permutation_in; eauto. }
      unfold value_of. destruct (alookup n (declared_map ls vs)) as [v|] eqn:A.
      + apply alookup_In in A. exact A.
      + apply alookup_None in A. contradiction.
  Qed.
  Lemma child_of_length vs : length (child_of names ls vs) = length names.
  Proof. unfold child_of. apply map_length. Qed.
  (* two children with the same label pairs are the same child *)
  Lemma pairs_same_children vs k : length vs = length ls -> length k = length names ->
    pairs_same (combine names (child_of names ls vs)) (combine names k) = key_eqb (child_of names ls vs) k.
  Proof.
    intros Lv Lk. destruct WF as (_ & (_ & NK & _) & _).
    rewrite (pairs_same_perm_l _ _ _ (child_pairs_perm names ls vs NK Lv PERM)). apply pairs_same_child; auto.
  Qed.

  (* ================= 5. the spec's accounting = the model's ================= *)
  Hypothesis RES : resolve d = Some ls.
  Let tg := has_try (dc_form d).

  Lemma sum_for_app a b pairs : sum_for (a ++ b) pairs = sum_for a pairs + sum_for b pairs.
  Proof. unfold sum_for. induction a as [|u a IH]; cbn [app fold_right]; [lia|]. rewrite IH. lia. Qed.
  Lemma sum_for_delivered k ops : length k = length names ->
    sum_for (sp_updates d ops) (combine names k) = delivered tg ls names k ops.
  Proof.
    intros Lk. induction ops as [|o r IH]; [reflexivity|]. unfold sp_updates in *. cbn [flat_map delivered].
    rewrite sum_for_app, IH. f_equal. destruct o as [p x|p]; cbn [delivered1]; [|reflexivity].
    unfold sum_for. cbn [fold_right]. rewrite N.add_0_r. unfold addresses. cbn [fst snd].
    rewrite (sp_path_denote d ls p RES). fold tg. destruct (denote tg ls p) as [vs|] eqn:D; cbn [option_map]; [|reflexivity].
    apply denote_spec in D as (_ & Lv & _). rewrite pairs_same_child; auto.
  Qed.
  Lemma count_for_unit ops pairs : count_for (sp_updates d ops) pairs = sum_for (sp_updates d (unit_ops ops)) pairs.
  Proof.
    unfold count_for, sum_for, sp_updates, unit_ops. induction ops as [|o r IH]; [reflexivity|].
    cbn [map flat_map]. destruct o as [p x|p]; cbn [app fold_right fst snd]; [|exact IH]. rewrite IH. reflexivity.
  Qed.
End Pairs.

(* ================= 6. the domain, the model's output, the theorem ================= *)
Definition names_okb (names keys : list str) : bool :=
  (lenN names =? lenN keys) && nodup_str names && forallb (fun n => mem_str n keys) names.
Lemma names_okb_perm names keys : NoDup keys -> names_okb names keys = true -> Permutation names keys.
Proof.
  intros N H. unfold names_okb in H. apply andb_prop in H as [H H3]. apply andb_prop in H as [H1 H2].
  apply lenN_eq in H1. apply nodup_str_NoDup in H2. rewrite forallb_forall in H3.
  apply incl_same_length_perm; auto. intros n Hn. apply mem_str_In. apply H3. exact Hn.
Qed.
Definition is_some {X} (o : option X) : bool := match o with Some _ => true | None => false end.
(* flush calls exist on local forms only: on any sub-struct / metric of a static struct, on the
   whole auto-flush struct; probes are try_get calls on a sub-struct of a static struct *)
Definition op_allowedb (d : decl) (ls : list rlabel) (o : sop) : bool :=
  match o with
  | OUpd _ _ => true
  | OFlush p => is_local_metric (dc_type d)
                && match dc_form d with FStatic => is_some (path_values true ls p) | FAuto => is_nil p end
  end.
Definition probe_allowedb (d : decl) (ls : list rlabel) (pr : list step * str) : bool :=
  match dc_form d with
  | FStatic => is_some (path_values true ls (fst pr)) && Nat.ltb (length (fst pr)) (length ls)
  | FAuto => false
  end.
Definition round_allowedb (c : c19case) : bool :=
  match resolve (c_decl c) with
  | None => false
  | Some ls => names_okb (c_names c) (keys_of ls) && forallb (op_allowedb (c_decl c) ls) (c_ops c)
               && forallb (probe_allowedb (c_decl c) ls) (c_probes c)
  end.

Definition counts_case (c : c19case) : c19case := mkCase (c_decl c) (c_names c) (c_auto c) (unit_ops (c_ops c)) (c_probes c).
(* the model's output in the shape of an implementation report: sums from the run, sample
   counts (histograms) from the run with every amount replaced by 1 *)
Definition model_obs (c : c19case) : implobs :=
  match model_c19 c, model_c19 (counts_case c) with
  | Some (ms, mp), Some (mc, _) =>
      Some (map (fun kvp => (fst kvp, snd kvp,
                             if is_histogram (dc_type (c_decl c))
                             then match child_value mc (fst kvp) with Some n => n | None => 0 end else 0)) ms, mp)
  | _, _ => None
  end.

Lemma model_c19_run c ls : wf_declb (c_decl c) = true -> wf_decl (c_decl c) ls -> Permutation (c_names c) (keys_of ls) ->
  model_c19 c =
  match run_ops (setup_with (c_decl c) ls (c_names c) (c_auto c) (default_layout ls))
                (mkRT (init_store (all_leaves (c_names c) ls)) []) (c_ops c) with
  | Some st => Some (map (fun kvp => (combine (c_names c) (fst kvp), snd kvp)) (rt_store st),
                     map (probe (static_tree (has_try (dc_form (c_decl c))) ls)) (c_probes c))
  | None => None
  end.
Proof.
  intros Wb W P. unfold model_c19. rewrite Wb. cbn [negb]. destruct W as (R & W'). rewrite R. rewrite mk_setup_default.
  rewrite (leaves_all _ _ _ (c_auto c) (default_layout ls) (conj R W') P). rewrite su_tree_eq. reflexivity.
Qed.

Lemma delivered_app tg ls names k a b : delivered tg ls names k (a ++ b) = delivered tg ls names k a + delivered tg ls names k b.
Proof. induction a as [|o a IH]; cbn [app delivered]; [lia|]. rewrite IH. lia. Qed.
Lemma rev_cons_snoc {X} (l : list X) x r : rev l = x :: r -> l = rev r ++ [x].
Proof. intros H. rewrite <- (rev_involutive l). rewrite H. reflexivity. Qed.
Lemma skipn_nth {X} : forall i (l : list X) x, nth_error l i = Some x -> exists rest, skipn i l = x :: rest.
Proof.
  induction i as [|i IH]; intros [|y l] x H; cbn in H; try discriminate.
  - inversion H; subst. eexists; reflexivity.
  - cbn. apply IH. exact H.
Qed.
Lemma filter_map_length {X Y} (P : Y -> bool) (g : X -> Y) l : length (filter P (map g l)) = length (filter (fun x => P (g x)) l).
Proof. induction l as [|x l IH]; cbn; [reflexivity|]. destruct (P (g x)); cbn; rewrite IH; reflexivity. Qed.
Lemma count_one c (m : kv) : NoDup (kv_keys m) -> In c (kv_keys m) -> length (filter (fun e => key_eqb c (fst e)) m) = 1%nat.
Proof.
  unfold kv_keys. induction m as [|[k y] m IH]; intros ND H; [destruct H|]. cbn [map fst] in ND, H. inversion ND as [|? ? N1 N2]; subst.
  cbn [filter fst]. destruct (key_eqb c k) eqn:E.
  - apply key_eqb_eq in E. subst k. cbn [length]. f_equal.
    assert (Z : forall m', ~ In c (map fst m') -> filter (fun e : list str * N => key_eqb c (fst e)) m' = []).
    { induction m' as [|[k' y'] m' IH']; intros Hn; [reflexivity|]. cbn [filter fst]. cbn [map fst] in Hn.
      destruct (key_eqb c k') eqn:E'; [apply key_eqb_eq in E'; subst; exfalso; apply Hn; left; reflexivity|].
      apply IH'. intros C. apply Hn. right. exact C. }
    rewrite Z; auto.
  - apply IH; auto. destruct H as [H|H]; auto. subst. rewrite key_eqb_refl in E. discriminate.
Qed.

(* a try_get probe on a sub-struct of a static struct is answered as the declaration says *)
Lemma probe_ok_model d ls pr : wf_decl d ls -> probe_allowedb d ls pr = true ->
  sp_probe d pr (probe (static_tree (has_try (dc_form d)) ls) pr) = true.
Proof.
  intros (R & (NE & NK & W) & FO) A. unfold probe_allowedb in A. destruct (dc_form d) eqn:Fm; [|discriminate]. cbn [has_try].
  apply andb_prop in A as [A1 A2]. destruct (path_values true ls (fst pr)) as [vs0|] eqn:E; [|discriminate].
  pose proof (path_values_length _ _ _ _ E) as L0.
  unfold sp_probe. destruct (nth_error (dc_labels d) (length (fst pr))) as [l|] eqn:NL; [|reflexivity].
  unfold resolve in R. destruct (resolve_labels_nth _ _ _ R _ _ NL) as (rl & Nrl & Rl).
  destruct (sp_values_resolve d l rl Rl) as [V _]. rewrite V.
  destruct (skipn_nth _ _ _ Nrl) as (rest & Sk). rewrite <- L0 in Sk.
  destruct (node_accessors (fun _ v => v) (static_leaf (keys_of ls)) true ls (fst pr) vs0 rl rest W E Sk) as (node & Wk & _ & T & _).
  unfold probe, static_tree. rewrite Wk. specialize (T (snd pr) eq_refl).
  destruct (existsb (fun v => str_eqb (snd pr) (v_str v)) (rl_vals rl)) eqn:EX.
  - apply existsb_exists in EX as (v & Hv & Ev). apply str_eqb_eq in Ev.
    destruct (acc_try (snd pr) node) eqn:AT; [reflexivity|]. exfalso. apply T; auto. rewrite Ev. apply in_map. exact Hv.
  - destruct (acc_try (snd pr) node) eqn:AT; [|reflexivity]. exfalso.
    assert (NI : ~ In (snd pr) (map v_str (rl_vals rl))).
    { intros C. apply in_map_iff in C as (v & Ev & Hv).
      assert (X : existsb (fun v => str_eqb (snd pr) (v_str v)) (rl_vals rl) = true).
      { apply existsb_exists. exists v. split; auto. rewrite Ev. apply str_eqb_refl. }
      congruence. }
    apply T in NI. congruence.
Qed.

Section Main.
  Variable c : c19case.
  Variable ls : list rlabel.
  Let d := c_decl c.
  Let names := c_names c.
  Let tg := has_try (dc_form d).
  Hypothesis WB : wf_declb d = true.
  Hypothesis WF : wf_decl d ls.
  Hypothesis PERM : Permutation names (keys_of ls).
  Let S := setup_with d ls names (c_auto c) (default_layout ls).
  Let all := all_leaves names ls.
  Let st0 := mkRT (init_store all) [].

  (* what is known about the store after any run *)
  Definition good_store (ops : list sop) (st : rt) : Prop :=
    NoDup (kv_keys (rt_store st))
    /\ (forall k, In k (kv_keys (rt_store st)) <-> exists vs, In vs (all_paths ls) /\ k = child_of names ls vs)
    /\ (forall k, kv_get k (rt_store st) = delivered tg ls names k ops).

  Lemma run_good ops st :
    (is_local_metric (dc_type d) = true -> exists ops', ops = ops' ++ [OFlush []]) ->
    run_ops S st0 ops = Some st -> good_store ops st.
  Proof.
    intros FL R. pose proof (default_layout_inj ls) as I.
    pose proof (run_keys d ls names (c_auto c) (default_layout ls) WF PERM I ops st0 st
                         (init_covers ls names) R) as K.
    destruct (init_store_keys ls names) as [N B]. cbn [rt_store st0] in K.
    split; [rewrite K; exact N|]. split; [intros k; rewrite K; apply B|].
    intros k. destruct (is_local_metric (dc_type d)) eqn:LO.
    - destruct (FL eq_refl) as (ops' & ->). rewrite delivered_app. cbn [delivered delivered1]. rewrite !N.add_0_r.
      eapply flush_delivers; eauto.
    - eapply direct_delivers; eauto.
  Qed.

  Lemma key_length st ops k : good_store ops st -> In k (kv_keys (rt_store st)) -> length k = length names.
  Proof. intros (_ & B & _) H. apply B in H as (vs & _ & ->). apply child_of_length. Qed.

  (* looking a child up by its label pairs in the reported list finds its value *)
  Lemma child_value_store (m : kv) k :
    (forall k', In k' (kv_keys m) -> exists vs, In vs (all_paths ls) /\ k' = child_of names ls vs) ->
    In k (kv_keys m) ->
    child_value (map (fun kvp => (combine names (fst kvp), snd kvp)) m) (combine names k) = Some (kv_get k m).
  Proof.
    intros A H. assert (Lk : length k = length names).
    { destruct (A k H) as (vs & _ & ->). apply child_of_length. }
    unfold child_value, kv_keys in *. induction m as [|[k0 y0] m IH]; [destruct H|]. cbn [map find fst snd kv_get].
    destruct (A k0 (or_introl eq_refl)) as (vs0 & Hv0 & E0).
    assert (PS : pairs_same (combine names k0) (combine names k) = key_eqb k0 k).
    { subst k0. apply (pairs_same_children d ls names WF PERM); auto. apply all_paths_length; auto. }
    rewrite PS. rewrite (key_eqb_sym k k0). destruct (key_eqb k0 k) eqn:E; [reflexivity|].
    apply IH.
    - intros k' Hk'. apply A. right. exact Hk'.
    - destruct H as [H|H]; auto. subst. rewrite key_eqb_refl in E. discriminate.
  Qed.

  Hypothesis RA : round_allowedb c = true.
  Hypothesis SA : sp_applicable c = true.

  Lemma resolve_ls : resolve d = Some ls.
  Proof. destruct WF as (R & _). exact R. Qed.

  Lemma upd_denotes p x : In (OUpd p x) (c_ops c) -> exists vs, denote tg ls p = Some vs.
  Proof.
    intros H. unfold sp_applicable in SA. apply andb_prop in SA as [SA1 _]. apply andb_prop in SA1 as [SA1 _]. apply andb_prop in SA1 as [SA1 _].
    rewrite forallb_forall in SA1. specialize (SA1 (sp_path d (dc_labels d) p, x)). cbn [fst] in SA1.
    assert (IN : In (sp_path d (dc_labels d) p, x) (sp_updates (c_decl c) (c_ops c))).
    { unfold sp_updates. apply in_flat_map. exists (OUpd p x). split; auto. left. reflexivity. }
    specialize (SA1 IN). rewrite (sp_path_denote d ls p resolve_ls) in SA1. fold tg in SA1.
    destruct (denote tg ls p) as [vs|]; [eauto|discriminate].
  Qed.
  Lemma allowed_parts : forallb (op_allowedb d ls) (c_ops c) = true /\ forallb (probe_allowedb d ls) (c_probes c) = true.
  Proof.
    unfold round_allowedb in RA. fold d in RA. rewrite resolve_ls in RA.
    apply andb_prop in RA as [RA1 RA3]. apply andb_prop in RA1 as [_ RA2]. split; assumption.
  Qed.
  Lemma ops_valid : Forall (op_valid d ls) (c_ops c).
  Proof.
    destruct allowed_parts as [A _]. rewrite forallb_forall in A. apply Forall_forall. intros o Ho.
    destruct o as [p x|p]; cbn [op_valid].
    - destruct (upd_denotes p x Ho) as (vs & E). fold tg. rewrite E. discriminate.
    - specialize (A _ Ho). cbn [op_allowedb] in A. apply andb_prop in A as [A1 A2]. split; auto.
      destruct (dc_form d); cbn [has_try].
      + destruct (path_values true ls p); [discriminate|discriminate A2].
      + destruct p; [reflexivity|discriminate].
  Qed.
  Lemma unit_ops_valid : Forall (op_valid d ls) (unit_ops (c_ops c)).
  Proof.
    pose proof ops_valid as V. unfold unit_ops. apply Forall_forall. intros o Ho. apply in_map_iff in Ho as (o' & <- & Ho').
    rewrite Forall_forall in V. specialize (V _ Ho'). destruct o'; exact V.
  Qed.
  Lemma final_flush : is_local_metric (dc_type d) = true -> exists ops', c_ops c = ops' ++ [OFlush []].
  Proof.
    intros LO. unfold sp_applicable in SA. apply andb_prop in SA as [_ SA2]. fold d in SA2. rewrite LO in SA2. cbn [negb orb] in SA2.
    destruct (rev (c_ops c)) as [|[p x|[|s p]] r] eqn:E; try discriminate. exists (rev r). apply rev_cons_snoc. exact E.
  Qed.
  Lemma final_flush_unit : is_local_metric (dc_type d) = true -> exists ops', unit_ops (c_ops c) = ops' ++ [OFlush []].
  Proof.
    intros LO. destruct (final_flush LO) as (ops' & E). exists (unit_ops ops'). rewrite E. unfold unit_ops. rewrite map_app. reflexivity.
  Qed.
  Lemma probes_model : probes_ok d (c_probes c) (map (probe (static_tree (has_try (dc_form d)) ls)) (c_probes c)) = true.
  Proof.
    destruct allowed_parts as [_ A]. revert A. generalize (c_probes c). induction l as [|pr l IH]; intros A; [reflexivity|].
    cbn [forallb] in A. apply andb_prop in A as [A1 A2]. cbn [map probes_ok]. rewrite (probe_ok_model d ls pr WF A1). cbn [andb]. apply IH. exact A2.
  Qed.

  Definition obs_of (st1 st2 : rt) : implobs :=
    Some (map (fun kvp : list (str * str) * N =>
                 (fst kvp, snd kvp,
                  if is_histogram (dc_type d)
                  then match child_value (map (fun kvp => (combine names (fst kvp), snd kvp)) (rt_store st2)) (fst kvp) with
                       | Some n => n | None => 0 end
                  else 0))
              (map (fun kvp => (combine names (fst kvp), snd kvp)) (rt_store st1)),
          map (probe (static_tree (has_try (dc_form d)) ls)) (c_probes c)).

  Lemma model_obs_eq : exists st1 st2,
    run_ops S st0 (c_ops c) = Some st1 /\ run_ops S st0 (unit_ops (c_ops c)) = Some st2
    /\ model_obs c = obs_of st1 st2.
  Proof.
    pose proof (default_layout_inj ls) as I.
    destruct (run_total d ls names (c_auto c) (default_layout ls) WF PERM I (c_ops c) ops_valid st0) as (st1 & R1).
    destruct (run_total d ls names (c_auto c) (default_layout ls) WF PERM I (unit_ops (c_ops c)) unit_ops_valid st0) as (st2 & R2).
    exists st1, st2. split; [exact R1|]. split; [exact R2|].
    unfold model_obs. rewrite (model_c19_run c ls WB WF PERM).
    rewrite (model_c19_run (counts_case c) ls WB WF PERM). cbn [counts_case c_decl c_names c_auto c_ops c_probes].
    unfold S, st0, all, names, d in R1, R2. rewrite R1, R2. reflexivity.
  Qed.

  Theorem spec_accepts_model_main : spec_c19 c (model_obs c) = true.
  Proof.
    destruct model_obs_eq as (st1 & st2 & R1 & R2 & E). rewrite E. clear E.
    pose proof (run_good _ _ final_flush R1) as G1. pose proof (run_good _ _ final_flush_unit R2) as G2.
    unfold spec_c19. rewrite SA. cbn [negb]. unfold obs_of. fold d.
    destruct G1 as (N1 & B1 & V1). destruct G2 as (N2 & B2 & V2).
    apply andb_true_intro; split; [apply andb_true_intro; split|].
    - (* every child holds exactly what the paths naming it added *)
      apply forallb_forall. intros ch Hch. rewrite map_map in Hch. apply in_map_iff in Hch as ([k y] & <- & Hk). cbn [fst snd].
      assert (Kin : In k (kv_keys (rt_store st1))) by (apply (in_map fst) in Hk; exact Hk).
      assert (Lk : length k = length names). { apply B1 in Kin as (vs & _ & ->). apply child_of_length. }
      rewrite (sum_for_delivered d ls names WF PERM resolve_ls k (c_ops c) Lk). fold tg. rewrite <- V1.
      rewrite (kv_get_In k y _ N1 Hk). rewrite N.eqb_refl. cbn [andb].
      destruct (is_histogram (dc_type d)); [|reflexivity].
      rewrite child_value_store.
      + rewrite V2. rewrite count_for_unit. rewrite (sum_for_delivered d ls names WF PERM resolve_ls k _ Lk). apply N.eqb_refl.
      + intros k' Hk'. apply B2. exact Hk'.
      + apply B2. apply B1. exact Kin.
    - (* the child named by a path exists once *)
      apply forallb_forall. intros u Hu. unfold sp_updates in Hu. apply in_flat_map in Hu as (o & Ho & Hu).
      destruct o as [p x|p]; [|destruct Hu]. destruct Hu as [<-|[]]. cbn [fst].
      destruct (upd_denotes p x Ho) as (vs & D). rewrite (sp_path_denote d ls p resolve_ls). fold tg. rewrite D. cbn [option_map].
      pose proof (denote_spec _ _ _ _ D) as (_ & Lv & F).
      rewrite map_map. unfold lenN. rewrite filter_map_length. cbn [fst snd].
      rewrite (filter_ext_in _ (fun e : list str * N => key_eqb (child_of names ls vs) (fst e))).
      + rewrite count_one; [reflexivity|exact N1|]. apply B1. exists vs. split; auto. apply all_paths_In. exact F.
      + intros [k y] Hk. cbn [fst]. apply (pairs_same_child d ls names WF PERM); auto.
        apply (in_map fst) in Hk. cbn [fst] in Hk. apply B1 in Hk as (vs' & _ & E'). rewrite E'. apply child_of_length.
    - apply probes_model.
  Qed.
  (* the same report is what the correspondence check accepts as "equal to the model" *)
  Lemma list_eqb_bool_refl (l : list bool) : list_eqb Bool.eqb l l = true.
  Proof. induction l as [|b l IH]; cbn; [reflexivity|]. rewrite IH. destruct b; reflexivity. Qed.
  Theorem model_obs_matches_main : c19_match c (model_obs c) = true.
  Proof.
    destruct model_obs_eq as (st1 & st2 & R1 & R2 & E). rewrite E. clear E.
    pose proof (run_good _ _ final_flush R1) as (N1 & B1 & V1). pose proof (run_good _ _ final_flush_unit R2) as (N2 & B2 & V2).
    unfold c19_match. change (mkCase (c_decl c) (c_names c) (c_auto c) (unit_ops (c_ops c)) (c_probes c)) with (counts_case c).
    rewrite (model_c19_run c ls WB WF PERM). rewrite (model_c19_run (counts_case c) ls WB WF PERM).
    cbn [counts_case c_decl c_names c_auto c_ops c_probes].
    unfold S, st0, all, names, d in R1, R2. rewrite R1, R2. unfold obs_of. fold d names.
    apply andb_true_intro; split; [apply andb_true_intro; split|].
    - unfold lenN. rewrite map_length. apply N.eqb_refl.
    - apply forallb_forall. intros ch Hch. rewrite map_map in Hch. apply in_map_iff in Hch as ([k y] & <- & Hk). cbn [fst snd].
      assert (Kin : In k (kv_keys (rt_store st1))) by (apply (in_map fst) in Hk; exact Hk).
      rewrite child_value_store; [|intros k' Hk'; apply B1; exact Hk'|exact Kin].
      rewrite (kv_get_In k y _ N1 Hk). cbn [optN_eqb]. rewrite N.eqb_refl. cbn [andb].
      destruct (is_histogram (dc_type d)); [|reflexivity].
      rewrite child_value_store; [|intros k' Hk'; apply B2; exact Hk'|apply B2; apply B1; exact Kin].
      cbn [optN_eqb]. apply N.eqb_refl.
    - apply list_eqb_bool_refl.
  Qed.
End Main.

(* ---- the statements without the auxiliary parameters ---- *)
Lemma domain_perm c ls : wf_decl (c_decl c) ls -> round_allowedb c = true -> Permutation (c_names c) (keys_of ls).
Proof.
  intros (R & (_ & NK & _) & _) RA. unfold round_allowedb in RA. rewrite R in RA.
  apply andb_prop in RA as [RA _]. apply andb_prop in RA as [RA _]. apply names_okb_perm; auto.
Qed.
Theorem spec_accepts_model c :
  wf_declb (c_decl c) = true -> round_allowedb c = true -> sp_applicable c = true -> spec_c19 c (model_obs c) = true.
Proof.
  intros WB RA SA. destruct (wf_declb_sound _ WB) as (ls & WF).
  exact (spec_accepts_model_main c ls WB WF (domain_perm c ls WF RA) RA SA).
Qed.
Theorem model_obs_matches c :
  wf_declb (c_decl c) = true -> round_allowedb c = true -> sp_applicable c = true -> c19_match c (model_obs c) = true.
Proof.
  intros WB RA SA. destruct (wf_declb_sound _ WB) as (ls & WF).
  exact (model_obs_matches_main c ls WB WF (domain_perm c ls WF RA) RA SA).
Qed.
