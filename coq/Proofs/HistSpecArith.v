(* The decoding argument of Spec/SpecC02: for values +-2^k with pairwise distinct exponents k < 63, a subset S is
   recovered from its sum: [decode] returns exactly the mask of S, [member] of that mask is membership in S, and the
   spec's counting folds count the members of S. *)
Require Import PV.Base.Prelude PV.Base.F64 PV.Model.Conc PV.Model.HistExec PV.Spec.SpecC02 PV.Proofs.HistValues.
From Coq Require Import ZArith Lia Bool Arith Permutation.
Open Scope Z_scope.

Definition vexp (v : Z) : Z := Z.log2 (Z.abs v).
Definition val_ok (v : Z) : bool := (Z.abs v =? 2 ^ vexp v) && (vexp v <? 63).
Fixpoint distinctb (l : list Z) : bool :=
  match l with [] => true | x :: r => negb (existsb (Z.eqb x) r) && distinctb r end.
(* the executable side condition on a value list: every value is +-2^k, k < 63, exponents pairwise distinct *)
Definition dom_vals (vals : list Z) : bool := forallb val_ok vals && distinctb (map vexp vals).

Definition Dom (vals : list Z) : Prop :=
  Forall (fun v => Z.abs v = 2 ^ vexp v /\ 0 <= vexp v < 63) vals /\ NoDup (map vexp vals).

Lemma distinctb_NoDup l : distinctb l = true -> NoDup l.
Proof.
  induction l as [|x l IH]; cbn; intros H; constructor; apply andb_true_iff in H as [H1 H2]; auto.
  intros Hin. apply negb_true_iff in H1. assert (existsb (Z.eqb x) l = true); [|congruence].
  apply existsb_exists. exists x. split; auto. apply Z.eqb_refl.
Qed.

Lemma dom_vals_Dom vals : dom_vals vals = true -> Dom vals.
Proof.
  unfold dom_vals. intros H. apply andb_true_iff in H as [H1 H2]. split; [|apply distinctb_NoDup; auto].
  apply Forall_forall. intros v Hv. rewrite forallb_forall in H1. specialize (H1 v Hv). unfold val_ok in H1.
  apply andb_true_iff in H1 as [A B]. apply Z.eqb_eq in A. apply Z.ltb_lt in B. repeat split; auto.
  unfold vexp. apply Z.log2_nonneg.
Qed.

Lemma NoDup_app_l {A} (a b : list A) : NoDup (a ++ b) -> NoDup a.
Proof.
  induction a as [|x a IH]; cbn; intros H; [constructor|]. inversion H; subst. constructor; auto.
  intros Hin. apply H2. apply in_app_iff. auto.
Qed.
Lemma NoDup_app_r {A} (a b : list A) : NoDup (a ++ b) -> NoDup b.
Proof. induction a as [|x a IH]; cbn; intros H; auto. inversion H; subst. auto. Qed.

Lemma Dom_app_l a b : Dom (a ++ b) -> Dom a.
Proof.
  intros [H1 H2]. split.
  - apply Forall_app in H1 as [H _]; auto.
  - rewrite map_app in H2. eapply NoDup_app_l; eauto.
Qed.

Lemma Dom_perm a b : Permutation a b -> Dom a -> Dom b.
Proof.
  intros P [H1 H2]. split.
  - eapply Permutation_Forall; eauto.
  - eapply Permutation_NoDup; [apply Permutation_map; eauto|auto].
Qed.

Lemma Dom_NoDup vals : Dom vals -> NoDup vals.
Proof. intros [_ H]. eapply NoDup_map_inv; eauto. Qed.

Lemma Dom_exp_inj vals a b : Dom vals -> In a vals -> In b vals -> vexp a = vexp b -> a = b.
Proof.
  intros [_ H]. revert a b. induction vals as [|x l IH]; intros a b Ha Hb E; [destruct Ha|].
  cbn in H. inversion H; subst. destruct Ha as [->|Ha], Hb as [->|Hb]; auto.
  - exfalso. apply H2. rewrite E. apply in_map; auto.
  - exfalso. apply H2. rewrite <- E. apply in_map; auto.
Qed.

Lemma Dom_in vals v : Dom vals -> In v vals -> Z.abs v = 2 ^ vexp v /\ 0 <= vexp v < 63.
Proof. intros [H _] Hv. rewrite Forall_forall in H. auto. Qed.

(* ---- masks ---- *)
Definition mask_of (l : list Z) : Z := fold_right (fun v a => Z.abs v + a) 0 l.

Lemma mask_of_app a b : mask_of (a ++ b) = mask_of a + mask_of b.
Proof. unfold mask_of. induction a; cbn [fold_right app]; lia. Qed.
Lemma mask_of_perm a b : Permutation a b -> mask_of a = mask_of b.
Proof. unfold mask_of. induction 1; cbn [fold_right]; lia. Qed.
Lemma zsum_perm a b : Permutation a b -> zsum a = zsum b.
Proof. unfold zsum. induction 1; cbn [fold_right]; lia. Qed.

Lemma testbit_add_pow2 m k j : 0 <= k -> 0 <= j -> Z.testbit m k = false ->
  Z.testbit (2 ^ k + m) j = (j =? k) || Z.testbit m j.
Proof.
  intros Hk Hj Hm.
  assert (Hl : Z.land (2 ^ k) m = 0).
  { apply Z.bits_inj'. intros n Hn. rewrite Z.land_spec, Z.bits_0, Z.pow2_bits_eqb by auto.
    destruct (Z.eqb_spec k n); [subst; rewrite Hm; reflexivity|reflexivity]. }
  rewrite (Z.add_nocarry_lxor _ _ Hl), Z.lxor_spec, Z.pow2_bits_eqb by auto.
  rewrite (Z.eqb_sym j k). destruct (Z.eqb_spec k j); [subst; rewrite Hm; reflexivity|]. cbn. destruct (Z.testbit m j); reflexivity.
Qed.

Lemma testbit_mask l e : Dom l -> 0 <= e -> Z.testbit (mask_of l) e = existsb (fun v => vexp v =? e) l.
Proof.
  revert e. induction l as [|v l IH]; intros e D He; cbn [mask_of fold_right existsb]; [apply Z.bits_0|].
  fold (mask_of l).
  assert (Dl : Dom l). { destruct D as [D1 D2]. inversion D1; subst. cbn in D2. inversion D2; subst. split; auto. }
  destruct (Dom_in _ v D (or_introl eq_refl)) as [Hv [Hv0 _]]. rewrite Hv.
  assert (Hn : Z.testbit (mask_of l) (vexp v) = false).
  { rewrite IH by auto. apply not_true_is_false. intros Hex. apply existsb_exists in Hex as (w & Hw & Ew). apply Z.eqb_eq in Ew.
    destruct D as [_ D2]. cbn in D2. inversion D2; subst. apply H1. rewrite <- Ew. apply in_map; auto. }
  rewrite testbit_add_pow2 by auto. rewrite IH by auto. rewrite (Z.eqb_sym e). reflexivity.
Qed.

(* membership in the decoded set *)
Lemma member_mask vals l v : Dom vals -> incl l vals -> NoDup l -> In v vals ->
  member (mask_of l) v = true <-> In v l.
Proof.
  intros D Hi Hn Hv. unfold member. fold (vexp v).
  assert (Dl : Dom l).
  { destruct D as [D1 D2]. split.
    - apply Forall_forall. intros w Hw. rewrite Forall_forall in D1. apply D1. apply Hi; auto.
    - clear - Hi Hn D1 D2. assert (Hinj : forall a b, In a l -> In b l -> vexp a = vexp b -> a = b).
      { intros a b Ha Hb. apply (Dom_exp_inj vals); [split; auto|apply Hi; auto|apply Hi; auto]. }
      clear Hi. induction l as [|a l IH]; cbn; constructor.
      + inversion Hn; subst. intros Hin. apply in_map_iff in Hin as (b & Eb & Hb).
        assert (b = a) by (apply Hinj; [right; auto|left; auto|auto]). subst. contradiction.
      + inversion Hn; subst. apply IH; auto. intros; apply Hinj; auto; right; auto. }
  destruct (Dom_in _ v D Hv) as [_ [H0 _]]. rewrite testbit_mask by auto. split.
  - intros Hex. apply existsb_exists in Hex as (w & Hw & Ew). apply Z.eqb_eq in Ew.
    assert (w = v) by (apply (Dom_exp_inj vals); auto). subst. auto.
  - intros Hin. apply existsb_exists. exists v. split; auto. apply Z.eqb_refl.
Qed.

(* ---- the spec's folds ---- *)
Lemma total_mask_eq obs : total_mask obs = mask_of (all_vals obs).
Proof.
  unfold total_mask, all_vals.
  assert (G : forall l a, fold_left (fun a v => a + Z.abs v) l a = a + mask_of l).
  { induction l as [|v l IH]; intros a; cbn [fold_left]; [unfold mask_of; cbn [fold_right]; lia|]. rewrite IH. unfold mask_of; cbn [fold_right]; lia. }
  assert (H : forall l a, fold_left (fun a oc => fold_left (fun a v => a + Z.abs v) (oc_vals oc) a) l a = a + mask_of (flat_map oc_vals l)).
  { induction l as [|oc l IH]; intros a; cbn [fold_left flat_map]; [unfold mask_of; cbn [fold_right]; lia|]. rewrite IH, G, mask_of_app. lia. }
  rewrite H. lia.
Qed.
Lemma total_sum_eq obs : total_sum obs = zsum (all_vals obs).
Proof.
  unfold total_sum, all_vals.
  assert (H : forall l a, fold_left (fun a oc => fold_left Z.add (oc_vals oc) a) l a = a + zsum (flat_map oc_vals l)).
  { induction l as [|oc l IH]; intros a; cbn [fold_left flat_map]; [unfold zsum; cbn [fold_right]; lia|]. rewrite IH, fold_left_add_zsum, zsum_app. lia. }
  rewrite H. lia.
Qed.
Lemma count_in_eq mask p obs : count_in mask p obs = zcount (fun v => member mask v && p v) (all_vals obs).
Proof.
  unfold count_in, all_vals.
  assert (G : forall l a, fold_left (fun a v => if member mask v && p v then a + 1 else a) l a = a + zcount (fun v => member mask v && p v) l).
  { induction l as [|v l IH]; intros a; cbn [fold_left]; [unfold zcount; cbn; lia|]. rewrite IH, zcount_cons. destruct (member mask v && p v); lia. }
  assert (H : forall l a, fold_left (fun a oc => fold_left (fun a v => if member mask v && p v then a + 1 else a) (oc_vals oc) a) l a
                          = a + zcount (fun v => member mask v && p v) (flat_map oc_vals l)).
  { induction l as [|oc l IH]; intros a; cbn [fold_left flat_map]; [unfold zcount; cbn; lia|]. rewrite IH, G, zcount_app. lia. }
  rewrite H. lia.
Qed.

(* counting the members of S among all values = counting in S *)
Lemma count_members vals l p : Dom vals -> incl l vals -> NoDup l ->
  zcount (fun v => member (mask_of l) v && p v) vals = zcount p l.
Proof.
  intros D Hi Hn. unfold zcount. f_equal. apply Permutation_length. apply NoDup_Permutation.
  - apply NoDup_filter. apply Dom_NoDup; auto.
  - apply NoDup_filter; auto.
  - intros v. rewrite !filter_In. split.
    + intros [Hv Hb]. apply andb_true_iff in Hb as [Hm Hp]. split; auto. apply (member_mask vals l v D Hi Hn Hv); auto.
    + intros [Hv Hp]. split; [apply Hi; auto|]. apply andb_true_iff. split; auto. apply (member_mask vals l v D Hi Hn); auto.
Qed.

(* subset masks *)
Lemma mask_subset l1 l2 : Dom l1 -> Dom l2 -> incl l1 l2 -> Z.land (mask_of l1) (Z.lnot (mask_of l2)) = 0.
Proof.
  intros D1 D2 Hi. apply Z.bits_inj'. intros n Hn. rewrite Z.land_spec, Z.lnot_spec, Z.bits_0, !testbit_mask by auto.
  destruct (existsb (fun v => vexp v =? n) l1) eqn:E; [|reflexivity].
  apply existsb_exists in E as (w & Hw & Ew). assert (existsb (fun v => vexp v =? n) l2 = true) as ->; [|reflexivity].
  apply existsb_exists. exists w. split; auto.
Qed.

(* ---- decode ---- *)
Lemma zsum_split l1 v l2 : zsum (l1 ++ v :: l2) = v + zsum (l1 ++ l2).
Proof. rewrite !zsum_app. unfold zsum; cbn [fold_right]. lia. Qed.
Lemma mask_split l1 v l2 : mask_of (l1 ++ v :: l2) = Z.abs v + mask_of (l1 ++ l2).
Proof. rewrite !mask_of_app. unfold mask_of; cbn [fold_right]. lia. Qed.

(* a sum of values whose exponents are all > k is a multiple of 2^(k+1) *)
Lemma high_sum_div k l : 0 <= k -> (forall v, In v l -> Z.abs v = 2 ^ vexp v /\ k < vexp v) -> exists M, zsum l = 2 ^ (k + 1) * M.
Proof.
  intros Hk. induction l as [|v l IH]; intros H.
  - exists 0. cbn. lia.
  - destruct IH as [M HM]; [intros; apply H; right; auto|].
    destruct (H v (or_introl eq_refl)) as [Hv Hlt].
    assert (E : 2 ^ vexp v = 2 ^ (k + 1) * 2 ^ (vexp v - (k + 1))) by (rewrite <- Z.pow_add_r by lia; f_equal; lia).
    unfold zsum in *. cbn [fold_right]. rewrite HM.
    destruct (Z.abs_eq_or_opp v) as [Ea|Ea].
    + exists (2 ^ (vexp v - (k + 1)) + M). lia.
    + exists (- 2 ^ (vexp v - (k + 1)) + M). lia.
Qed.

Lemma testbit_low k a M : 0 <= k -> Z.testbit (2 ^ (k + 1) * M) k = false /\ (Z.abs a = 2 ^ k -> Z.testbit (a + 2 ^ (k + 1) * M) k = true).
Proof.
  intros Hk. rewrite !Z.testbit_odd, !Z.shiftr_div_pow2 by auto.
  assert (E : 2 ^ (k + 1) = 2 ^ k * 2) by (rewrite Z.pow_add_r by lia; reflexivity).
  assert (Hp : 0 < 2 ^ k) by (apply Z.pow_pos_nonneg; lia).
  split.
  - rewrite E. replace (2 ^ k * 2 * M) with ((2 * M) * 2 ^ k) by lia. rewrite Z.div_mul by lia. rewrite Z.odd_mul. reflexivity.
  - intros Ha. rewrite E.
    destruct (Z.abs_eq_or_opp a) as [Ea|Ea]; rewrite Ea in Ha.
    + rewrite Ha. replace (2 ^ k + 2 ^ k * 2 * M) with ((1 + 2 * M) * 2 ^ k) by lia. rewrite Z.div_mul by lia. rewrite Z.odd_add_mul_2. reflexivity.
    + assert (a = - 2 ^ k) by lia. subst a. replace (- 2 ^ k + 2 ^ k * 2 * M) with ((-1 + 2 * M) * 2 ^ k) by lia.
      rewrite Z.div_mul by lia. rewrite Z.odd_add_mul_2. reflexivity.
Qed.

Lemma find_exp vals v : Dom vals -> In v vals -> find (fun w => Z.abs w =? 2 ^ vexp v) vals = Some v.
Proof.
  intros D Hv. destruct (find (fun w => Z.abs w =? 2 ^ vexp v) vals) as [w|] eqn:E.
  - apply find_some in E as [Hw Ew]. apply Z.eqb_eq in Ew. f_equal. apply (Dom_exp_inj vals); auto.
    destruct (Dom_in _ w D Hw) as [Hw1 [Hw2 _]]. destruct (Dom_in _ v D Hv) as [_ [Hv2 _]].
    rewrite Hw1 in Ew. apply Z.pow_inj_r in Ew; lia.
  - exfalso. pose proof (find_none _ _ E v Hv) as Hf. cbn in Hf. destruct (Dom_in _ v D Hv) as [Hv1 _]. rewrite Hv1, Z.eqb_refl in Hf. discriminate.
Qed.

Theorem decode_from_correct vals : Dom vals -> forall fuel k l mask,
  k + Z.of_nat fuel = 64 -> 0 <= k -> incl l vals -> NoDup l -> (forall v, In v l -> k <= vexp v) ->
  decode_from fuel k vals (zsum l) mask = Some (mask + mask_of l).
Proof.
  intros D. induction fuel as [|fuel IH]; intros k l mask Hf Hk Hi Hn Hge; cbn [decode_from].
  - (* no value has an exponent >= 64 *)
    destruct l as [|v l]; [cbn; f_equal; lia|].
    exfalso. pose proof (Hge v (or_introl eq_refl)). destruct (Dom_in _ v D (Hi v (or_introl eq_refl))) as [_ [_ H63]]. lia.
  - destruct (existsb (fun v => vexp v =? k) l) eqn:Ex.
    + apply existsb_exists in Ex as (v & Hv & Ev). apply Z.eqb_eq in Ev.
      apply in_split in Hv as (l1 & l2 & ->).
      assert (Hn' : NoDup (l1 ++ l2)) by (eapply NoDup_remove_1; eauto).
      assert (Hnv : ~ In v (l1 ++ l2)) by (eapply NoDup_remove_2; eauto).
      assert (Hi' : incl (l1 ++ l2) vals). { intros w Hw. apply Hi. apply in_app_iff in Hw as [Hw|Hw]; apply in_app_iff; [left|right; right]; auto. }
      assert (Hvin : In v vals) by (apply Hi; apply in_app_iff; right; left; auto).
      assert (Hge' : forall w, In w (l1 ++ l2) -> k + 1 <= vexp w).
      { intros w Hw. assert (Hwl : In w (l1 ++ v :: l2)) by (apply in_app_iff in Hw as [Hw|Hw]; apply in_app_iff; [left|right; right]; auto).
        pose proof (Hge w Hwl). assert (vexp w <> k); [|lia]. intros Ew. apply Hnv.
        assert (w = v) by (apply (Dom_exp_inj vals); auto; congruence). subst; auto. }
      destruct (high_sum_div k (l1 ++ l2) Hk) as [M HM].
      { intros w Hw. split; [apply (Dom_in vals); auto|]. pose proof (Hge' w Hw). lia. }
      destruct (Dom_in _ v D Hvin) as [Hav _].
      rewrite zsum_split, HM. destruct (testbit_low k v M Hk) as [_ Ht]. rewrite Ht by (rewrite Hav, Ev; reflexivity).
      rewrite <- Ev. rewrite (find_exp vals v D Hvin). rewrite Ev.
      replace (v + 2 ^ (k + 1) * M - v) with (zsum (l1 ++ l2)) by lia.
      rewrite (IH (k + 1) (l1 ++ l2) (mask + 2 ^ k)); auto; try lia.
      f_equal. rewrite mask_split, Hav, Ev. lia.
    + assert (Hge' : forall w, In w l -> k + 1 <= vexp w).
      { intros w Hw. pose proof (Hge w Hw). assert (vexp w <> k); [|lia]. intros Ew.
        assert (existsb (fun v => vexp v =? k) l = true); [|congruence]. apply existsb_exists. exists w. split; auto. apply Z.eqb_eq; auto. }
      destruct (high_sum_div k l Hk) as [M HM].
      { intros w Hw. split; [apply (Dom_in vals); auto|]. pose proof (Hge' w Hw). lia. }
      rewrite HM. destruct (testbit_low k 0 M Hk) as [Ht _]. rewrite Ht. rewrite <- HM.
      apply IH; auto; lia.
Qed.

Theorem decode_correct obs l : Dom (all_vals obs) -> incl l (all_vals obs) -> NoDup l ->
  decode obs (zsum l) = Some (mask_of l).
Proof.
  intros D Hi Hn. unfold decode. rewrite (decode_from_correct _ D 64 0 l 0); auto; try lia.
  intros v Hv. destruct (Dom_in _ v D (Hi v Hv)) as [_ [H _]]. auto.
Qed.
