(* Every event accepted by the executable histogram model is a stuttering step or exactly one
   step of the relational model; hence everything proved for all reachable states of the
   relational model holds along every validated implementation trace. *)
Require Import PV.Base.Prelude PV.Base.F64 PV.Model.Conc PV.Model.HistConc PV.Model.HistExec.
Require Import PV.Proofs.HistConcLemmas PV.Proofs.HistConcInv PV.Proofs.HistConcProof.
From Coq Require Import ZArith Lia Bool Arith.
Open Scope Z_scope.

Ltac break_match H :=
  repeat match type of H with
         | match ?t with _ => _ end = Some _ => let E := fresh "E" in destruct t eqn:E; try discriminate H
         | (if ?t then _ else _) = Some _ => let E := fresh "E" in destruct t eqn:E; try discriminate H
         end.

Ltac boolfacts :=
  repeat match goal with
         | H : _ && _ = true |- _ => apply andb_true_iff in H; destruct H
         | H : negb _ = false |- _ => apply negb_false_iff in H
         | H : negb _ = true |- _ => apply negb_true_iff in H
         | H : (_ =? _)%Z = true |- _ => apply Z.eqb_eq in H
         | H : (_ <=? _)%Z = true |- _ => apply Z.leb_le in H
         | H : Nat.eqb _ _ = true |- _ => apply Nat.eqb_eq in H
         | H : Bool.eqb _ _ = true |- _ => apply eqb_prop in H
         | H : N.eqb _ _ = true |- _ => apply N.eqb_eq in H
         end.

Section S.
Variable bounds : list Z.
Variable Od : ords.
Notation B := (length bounds).

Lemma find_pending_spec ws c pred k0 kk w :
  find_pending ws c pred k0 = Some (kk, w) ->
  exists j, kk = (k0 + j)%nat /\ nth_error ws j = Some w /\ w_done w = false /\ w_cell w = c /\ pred (w_d w) = true.
Proof.
  revert k0; induction ws as [|w0 ws IH]; intros k0 H; cbn in H; [discriminate|].
  destruct (negb (w_done w0) && Nat.eqb (w_cell w0) c && pred (w_d w0)) eqn:E.
  - inversion H; subst. exists O. boolfacts. repeat split; auto.
  - apply IH in H as (j & -> & H1 & H2 & H3 & H4). exists (S j). repeat split; auto. lia.
Qed.

Lemma forallb_le ws : forallb (fun p : nat * Z => Nat.leb (fst p) B) ws = true -> Forall (fun p => (fst p <= B)%nat) ws.
Proof. intros H. apply Forall_forall. intros p Hp. rewrite forallb_forall in H. apply Nat.leb_le. auto. Qed.

Theorem hexec_sound x e x' :
  hexec bounds x e = Some x' -> base x' = base x \/ step B Od (base x) (base x').
Proof.
  intros H. unfold hexec in H. destruct e; try discriminate H.
  - (* ECall *) break_match H; inversion H; subst; cbn [base xmk]; auto; right.
    + apply S_invoke_obs; auto. lia.
    + apply S_invoke_obs; auto. boolfacts. auto.
    + apply S_invoke_collect; auto.
  - (* ERet *) break_match H; inversion H; subst; cbn [base xmk]; auto.
  - (* EAt *)
    break_match H; inversion H; subst; cbn [base xmk]; auto; right; boolfacts.
    all: try (match goal with Hf : find_pending _ _ _ _ = Some _ |- _ =>
                apply find_pending_spec in Hf; destruct Hf as (jj & -> & Hn & Hd & Hc & Hp) end).
    all: try solve [eapply S_claim; eauto using forallb_le].
    all: try solve [cbn [Nat.add]; unfold wdone; rewrite <- ?Hc; eapply S_write; eauto].
    all: try solve [eapply S_publish; eauto].
    all: try solve [eapply S_flip; eauto].
    all: try solve [eapply S_wait_ok; eauto].
    all: try solve [eapply S_swapsum; eauto].
    all: try solve [subst; eapply S_bswap; eauto].
    all: try solve [subst; eapply S_badd; eauto].
    all: try solve [eapply S_addcnt; eauto].
    all: try solve [eapply S_addsum; eauto].
  - (* ELock *) break_match H; inversion H; subst; cbn [base xmk]; auto; right.
    apply S_lock; auto. unfold lock_free in *. destruct (lock (base x)); [discriminate|reflexivity].
  - (* EUnlock *) break_match H; inversion H; subst; cbn [base xmk]; auto; right.
    eapply S_unlock; eauto.
Qed.
End S.
