(* [fork of Proofs/C07SpecStep.v that allows custom collectors exposing no families]
   Layer B5 of the C07/C14 spec proofs: every operation (OpCustom with an empty family list, [op_lang]) keeps the
   world invariant [WI] (Proofs/C07SpecWorld.v), only extends the signatures ([frame]), and
   changes the slot table in one of three ways ([step_res]): not at all, by appending one handle,
   or by overwriting one slot with a handle that is neither a collector nor a registry (local
   metrics, timers, OpDrop).  Registries are not cloned ([clone_ok]). *)
Require Import PV.Base.Prelude PV.Base.Utf8 PV.Base.Fnv PV.Base.F64 PV.Base.StrFacts PV.Base.SortFacts.
Require Import PV.Model.Proto PV.Model.Desc PV.Model.Value PV.Model.Hist PV.Model.Vec PV.Model.Registry PV.Model.World.
Require Import PV.Proofs.DescFacts PV.Proofs.GatherFacts PV.Proofs.C07SpecGather PV.Proofs.C07SpecLabels PV.Proofs.C07SpecHist
               PV.Proofs.C07SpecCustomWorld.
From Coq Require Import Permutation Sorting.Sorted.
Open Scope N_scope.

Definition frame (w w' : world) : Prop :=
  sle (sigs_of w) (sigs_of w') /\ (length (w_reg w) <= length (w_reg w'))%nat.
Lemma frame_refl w : frame w w.
Proof. split; [apply sle_refl|lia]. Qed.
Lemma prefix_trans {A} (a b c : list A) : prefix a b -> prefix b c -> prefix a c.
Proof. intros [x ->] [y ->]. exists (x ++ y). rewrite app_assoc. reflexivity. Qed.
Lemma sle_trans a b c : sle a b -> sle b c -> sle a c.
Proof. intros (A1 & A2 & A3) (B1 & B2 & B3). repeat split; eapply prefix_trans; eauto. Qed.
Lemma frame_trans a b c : frame a b -> frame b c -> frame a c.
Proof.
  intros (A1 & A3) (B1 & B3). split; [eapply sle_trans; eauto|lia].
Qed.
Definition WF (w w' : world) : Prop := WI w' /\ frame w w'.
Lemma WF_trans a b c : WF a b -> WF b c -> WF a c.
Proof. intros [_ F1] [W F2]. split; auto. eapply frame_trans; eauto. Qed.
Lemma WF_refl w : WI w -> WF w w.
Proof. intros W. split; auto. apply frame_refl. Qed.

Lemma regslots_app a b : regslots (a ++ b) = regslots a ++ regslots b.
Proof. unfold regslots. apply flat_map_app. Qed.

Definition not_registry (h : handle) : Prop := forall r, h <> HRegistry r.

(* ---------- the primitive world updates ---------- *)
Lemma P_push w h : WI w -> slotwf w h -> WF w (push_slot w h).
Proof.
  intros W Hs. split.
  - apply (WI_step w); cbn; auto; try apply sle_refl; try (apply W).
    intros x Hx. apply in_app_or in Hx as [Hx|[<-|[]]]; auto.
  - split; [apply sle_refl|cbn; lia].
Qed.
Lemma P_put w s h : WI w -> slotwf w h -> WF w (put_slot w s h).
Proof.
  intros W Hs. split.
  - apply (WI_step w); cbn; auto; try apply sle_refl; try (apply W).
    intros x Hx. apply In_list_set in Hx as [Hx|Hx]; auto. subst x. auto.
  - split; [apply sle_refl|cbn; lia].
Qed.
Lemma P_newv w c : WI w -> vwf c -> WF w (set_v w (w_v w ++ [c])).
Proof.
  intros W Hc.
  assert (Hs : sle (sigs_of w) (sigs_of (set_v w (w_v w ++ [c])))).
  { unfold sigs_of. cbn. rewrite map_app. split; [apply prefix_snoc|]. split; apply prefix_refl. }
  split.
  - apply (WI_step w); cbn; auto; try (apply W).
    intros x Hx. apply in_app_or in Hx as [Hx|[<-|[]]]; auto.
  - split; auto; cbn; lia.
Qed.
Lemma P_updv w i f : WI w -> (forall x, vsig (f x) = vsig x) -> WF w (set_v w (upd (w_v w) i f)).
Proof.
  intros W Hf.
  assert (Hs : sle (sigs_of w) (sigs_of (set_v w (upd (w_v w) i f)))).
  { unfold sigs_of. cbn. rewrite (map_upd_same vsig _ _ _ Hf). apply sle_refl. }
  split.
  - apply (WI_step w); cbn; auto; try (apply W).
    intros x Hx. apply In_upd in Hx as [Hx|(y & Hy & ->)]; auto. right.
    pose proof (wi_v _ W) as Wv. rewrite Forall_forall in Wv. specialize (Wv y Hy). unfold vwf in *.
    specialize (Hf y). unfold vsig in Hf. inversion Hf as [[E1 E2 E3]]. rewrite E1, E3. exact Wv.
  - split; auto; cbn; lia.
Qed.
Lemma P_newh w h : WI w -> hwf h -> WF w (set_h w (w_h w ++ [h])).
Proof.
  intros W Hc.
  assert (Hs : sle (sigs_of w) (sigs_of (set_h w (w_h w ++ [h])))).
  { unfold sigs_of. cbn. rewrite map_app. split; [apply prefix_refl|]. split; [apply prefix_snoc|apply prefix_refl]. }
  split.
  - apply (WI_step w); cbn; auto; try (apply W).
    intros x Hx. apply in_app_or in Hx as [Hx|[<-|[]]]; auto.
  - split; auto; cbn; lia.
Qed.
Lemma P_updh w i f : WI w -> (forall x, hsig (f x) = hsig x /\ (Q x -> Q (f x))) -> WF w (set_h w (upd (w_h w) i f)).
Proof.
  intros W Hf.
  assert (Hs : sle (sigs_of w) (sigs_of (set_h w (upd (w_h w) i f)))).
  { unfold sigs_of. cbn. rewrite (map_upd_same hsig _ _ _ (fun x => proj1 (Hf x))). apply sle_refl. }
  split.
  - apply (WI_step w); cbn; auto; try (apply W).
    intros x Hx. apply In_upd in Hx as [Hx|(y & Hy & ->)]; auto. right.
    pose proof (wi_h _ W) as Wh. rewrite Forall_forall in Wh. destruct (Wh y Hy) as (A & B & C). unfold hwf.
    destruct (Hf y) as [E Hq]. unfold hsig in E. inversion E as [[E1 E2]]. rewrite E1, E2. auto.
  - split; auto; cbn; lia.
Qed.
Lemma P_newvec w v : WI w -> dwf (v_desc v) -> describe (v_opts v) = Some (v_desc v) -> v_children v = [] ->
  WF w (set_vec w (w_vec w ++ [v])).
Proof.
  intros W D E C.
  assert (Hs : sle (sigs_of w) (sigs_of (set_vec w (w_vec w ++ [v])))).
  { unfold sigs_of. cbn. rewrite map_app. split; [apply prefix_refl|]. split; [apply prefix_refl|apply prefix_snoc]. }
  split.
  - apply (WI_step w); cbn; auto; try (apply W).
    intros x Hx. apply in_app_or in Hx as [Hx|[<-|[]]]; auto. right. unfold vecwf. rewrite C. split; [exact D|]. split; [exact E|]. split; constructor.
  - split; auto; cbn; lia.
Qed.
Lemma P_children w vi v cs' : WI w -> nth_error (w_vec w) vi = Some v -> NoDup (map fst cs') ->
  Forall (child_ok (sigs_of w) v) cs' -> WF w (set_vec w (list_set (w_vec w) vi (vec_set_children v cs'))).
Proof.
  intros W E ND F.
  assert (Es : sigs_of (set_vec w (list_set (w_vec w) vi (vec_set_children v cs'))) = sigs_of w).
  { unfold sigs_of. cbn. f_equal. eapply map_list_set_same; eauto. }
  split.
  - apply (WI_step w); cbn [w_v w_h w_vec w_reg w_slots set_vec]; auto; try (apply W).
    + rewrite Es. apply sle_refl.
    + intros x Hx. apply In_list_set in Hx as [Hx|Hx]; auto. subst x. right. rewrite Es.
      pose proof (wi_vec _ W) as Wc. rewrite Forall_forall in Wc. destruct (Wc v (nth_error_In _ _ E)) as (A & B & _ & _).
      unfold vecwf. cbn. split; [exact A|]. split; [exact B|]. split; assumption.
  - split; [rewrite Es; apply sle_refl|cbn; lia].
Qed.
Lemma P_newreg w r : WI w -> r_collectors r = [] ->
  WF w (push_slot (set_reg w (w_reg w ++ [r])) (HRegistry (length (w_reg w)))).
Proof.
  intros W E. split.
  - apply (WI_step w); cbn [w_v w_h w_vec w_reg w_slots set_reg push_slot set_slots]; auto; try (apply W); try apply sle_refl.
    + rewrite app_length. lia.
    + intros x Hx. apply in_app_or in Hx as [Hx|[<-|[]]]; auto. right. unfold regwf. rewrite E. repeat split; constructor.
    + intros x Hx. apply in_app_or in Hx as [Hx|[<-|[]]]; auto. right. cbn. rewrite app_length. cbn. lia.
  - split; [apply sle_refl|cbn; rewrite app_length; lia].
Qed.
Lemma P_setreg w ri rc' : WI w -> regwf (sigs_of w) rc' -> WF w (set_reg w (list_set (w_reg w) ri rc')).
Proof.
  intros W R. split.
  - apply (WI_step w); cbn [w_v w_h w_vec w_reg w_slots set_reg]; auto; try (apply W); try apply sle_refl.
    + rewrite list_set_length. lia.
    + intros x Hx. apply In_list_set in Hx as [Hx|Hx]; auto. subst x. auto.
  - split; [apply sle_refl|cbn; rewrite list_set_length; lia].
Qed.
Lemma weq_frame w w' : weq w w' -> frame w w'.
Proof.
  intros E. pose proof (sigs_weq _ _ E) as Es. destruct E as (_ & _ & C & D & _).
  split; [rewrite Es; apply sle_refl|rewrite C; lia].
Qed.
Lemma P_weq w w' : WI w -> weq w w' -> WF w w'.
Proof. intros W E. split; [eapply WI_weq; eauto|apply weq_frame; auto]. Qed.

(* ---------- constructors ---------- *)
Definition opts_ok (o : Opts) : bool := nodup_str (map fst (o_consts o)).
Lemma describe_wf o d : opts_ok o = true -> describe o = Some d ->
  dwf d /\ d_fq_name d = opts_fq_name o /\ d_help d = o_help o /\ d_vars d = o_vars o.
Proof.
  intros Ho H. apply nodup_str_NoDup in Ho. destruct (desc_new_wf _ _ _ _ _ Ho H) as (A & B & C & D & _). auto.
Qed.
Lemma value_new_wf o t k vals c : value_new o t k vals = Ok c ->
  describe o = Some (vc_desc c) /\ vc_type c = t /\ length vals = length (d_vars (vc_desc c)) /\ vc_labels c = lpairs (vc_desc c) vals.
Proof.
  unfold value_new. destruct (describe o) as [d|]; [|discriminate]. destruct (make_label_pairs d vals) as [ls|] eqn:E; [|discriminate].
  intros H. inversion H; subst c. cbn. apply make_label_pairs_ok in E as [A B]. auto.
Qed.
Lemma hcore_new_wf o vals h : hcore_new o vals = Ok h ->
  describe (ho_common o) = Some (hc_desc h) /\ length vals = length (d_vars (hc_desc h)) /\ hc_labels h = lpairs (hc_desc h) vals /\ Q h.
Proof.
  intros H. pose proof (Q_new _ _ _ H) as Hq. revert H. unfold hcore_new, hopts_describe.
  destruct (describe (ho_common o)) as [d|]; [|discriminate]. destruct (has_le_label d); [discriminate|].
  destruct (make_label_pairs d vals) as [ls|] eqn:E; [|discriminate]. destruct (check_and_adjust_buckets (ho_buckets o)); [|discriminate].
  intros H. inversion H; subst h. cbn. apply make_label_pairs_ok in E as [A B]. auto.
Qed.
Lemma vec_create_wf o k v : vec_create o k = Ok v -> describe o = Some (v_desc v) /\ v_opts v = o /\ v_kind v = k /\ v_children v = [].
Proof.
  unfold vec_create. destruct (match k with VKHist _ => _ | _ => false end); [discriminate|].
  destruct (describe o) as [d|]; [|discriminate]. intros H. inversion H. cbn. auto.
Qed.

(* ---------- handles, entries ---------- *)
Definition cofh (h : handle) : collector :=
  match h with HValue c => CValue c | HHist c => CHist c | HVec v => CVec v | HPulling d v => CPulling d v
               | HCustom ds fams => CCustom ds fams | _ => CCustom [] [] end.
Definition is_cust (h : handle) : bool := match h with HCustom _ _ => true | _ => false end.
Definition is_coll (h : handle) : bool := match h with HValue _ | HHist _ | HVec _ | HPulling _ _ => true | _ => false end.
Definition kind_of (t : MetricType) : PV.Spec.SpecC07.ckind :=
  match t with GAUGE => PV.Spec.SpecC07.KGauge | HISTOGRAM => PV.Spec.SpecC07.KHist | _ => PV.Spec.SpecC07.KCounter end.
Definition went (S : sigs) (h : handle) : option (PV.Spec.SpecC07.ckind * str) :=
  if is_coll h then Some (kind_of (ctypeS S (cofh h)), d_fq_name (cdescS S (cofh h))) else None.

Lemma slot_wf w s : WI w -> slotwf w (slot w s).
Proof.
  intros W. unfold slot. destruct (nth_error (w_slots w) s) as [h|] eqn:E.
  - rewrite (nth_error_nth _ _ _ E). pose proof (wi_slots _ W) as Ws. rewrite Forall_forall in Ws. apply Ws. eapply nth_error_In; eauto.
  - apply nth_error_None in E. rewrite nth_overflow by lia. exact I.
Qed.
Lemma slot_not_registry_nth w s : (forall r, slot w s <> HRegistry r) -> not_registry (slot w s).
Proof. intros H r. apply H. Qed.
Lemma clib_of_slotwf w h : slotwf w h -> is_coll h = true -> clibS (sigs_of w) (cofh h).
Proof. destruct h; cbn; try discriminate; intros H _; rewrite ?map_length; auto. Qed.
Lemma collector_of_spec w h c ds : slotwf w h -> collector_of w h = Some (c, ds) ->
  (is_coll h = true /\ c = cofh h /\ ds = [cdescS (sigs_of w) c] /\ clibS (sigs_of w) c)
  \/ (is_cust h = true /\ c = cofh h /\ c = CCustom ds []).
Proof.
  intros Hs. destruct h; cbn in *; try discriminate.
  - destruct (nth_error (w_v w) c0) as [vc|] eqn:E; [|discriminate]. intros H. inversion H; subst. cbn. left.
    rewrite (map_nth_error vsig _ _ E). unfold vsig. rewrite map_length. auto.
  - destruct (nth_error (w_h w) c0) as [vc|] eqn:E; [|discriminate]. intros H. inversion H; subst. cbn. left.
    rewrite (map_nth_error hsig _ _ E). unfold hsig. rewrite map_length. auto.
  - destruct (nth_error (w_vec w) v) as [vc|] eqn:E; [|discriminate]. intros H. inversion H; subst. cbn. left.
    rewrite (map_nth_error vecsig _ _ E). unfold vecsig. rewrite map_length. auto.
  - intros H. inversion H; subst. right. auto.
  - intros H. inversion H; subst. cbn. left. auto.
Qed.
Lemma went_mono S S' h : sle S S' -> (is_coll h = true -> clibS S (cofh h)) -> went S' h = went S h.
Proof.
  intros Hs Hc. unfold went. destruct (is_coll h) eqn:E; auto. destruct (cdesc_mono S S' (cofh h) Hs (Hc eq_refl)) as [-> ->]. reflexivity.
Qed.

Lemma nth_snoc {A B} (f : A -> B) l c : nth_error (map f (l ++ [c])) (length l) = Some (f c).
Proof. apply map_nth_error. rewrite nth_error_app2 by lia. rewrite Nat.sub_diag. reflexivity. Qed.

(* a new plain value / histogram / vector and its handle *)
Lemma new_value_res w o t k c : WI w -> opts_ok o = true -> value_new o t k [] = Ok c ->
  let w' := push_slot (set_v w (w_v w ++ [c])) (HValue (length (w_v w))) in
  WF w w' /\ went (sigs_of w') (HValue (length (w_v w))) = Some (kind_of (valtype_mtype t), opts_fq_name o).
Proof.
  intros W Ho H. apply value_new_wf in H as (Ed & Et & Ll & Lb). destruct (describe_wf _ _ Ho Ed) as (D & En & _ & _).
  assert (Hc : vwf c) by (split; auto; exists []; auto).
  pose proof (P_newv w c W Hc) as F1. cbv zeta. split.
  - eapply WF_trans; [exact F1|]. apply P_push; [apply F1|]. cbn. rewrite app_length. cbn. lia.
  - unfold went. cbn [is_coll cofh ctypeS cdescS sigs_of VS push_slot set_slots set_v w_v].
    rewrite (nth_snoc vsig). unfold vsig. rewrite Et, En. reflexivity.
Qed.
Lemma new_hist_res w o h : WI w -> opts_ok (ho_common o) = true -> hcore_new o [] = Ok h ->
  let w' := push_slot (set_h w (w_h w ++ [h])) (HHist (length (w_h w))) in
  WF w w' /\ went (sigs_of w') (HHist (length (w_h w))) = Some (PV.Spec.SpecC07.KHist, opts_fq_name (ho_common o)).
Proof.
  intros W Ho H. apply hcore_new_wf in H as (Ed & Ll & Lb & Hq). destruct (describe_wf _ _ Ho Ed) as (D & En & _ & _).
  assert (Hc : hwf h) by (split; auto; split; auto; exists []; auto).
  pose proof (P_newh w h W Hc) as F1. cbv zeta. split.
  - eapply WF_trans; [exact F1|]. apply P_push; [apply F1|]. cbn. rewrite app_length. cbn. lia.
  - unfold went. cbn [is_coll cofh ctypeS cdescS sigs_of HS push_slot set_slots set_h w_h].
    rewrite (nth_snoc hsig). unfold hsig. rewrite En. reflexivity.
Qed.
Lemma new_vec_res w o k v : WI w -> opts_ok o = true -> vec_create o k = Ok v ->
  let w' := push_slot (set_vec w (w_vec w ++ [v])) (HVec (length (w_vec w))) in
  WF w w' /\ went (sigs_of w') (HVec (length (w_vec w))) = Some (kind_of (veckind_mtype k), opts_fq_name o).
Proof.
  intros W Ho H. apply vec_create_wf in H as (Ed & Eo & Ek & Ec). destruct (describe_wf _ _ Ho Ed) as (D & En & _ & _).
  assert (F1 : WF w (set_vec w (w_vec w ++ [v]))) by (apply P_newvec; auto; rewrite Eo; auto).
  cbv zeta. split.
  - eapply WF_trans; [exact F1|]. apply P_push; [apply F1|]. cbn. rewrite app_length. cbn. lia.
  - unfold went. cbn [is_coll cofh ctypeS cdescS sigs_of CS push_slot set_slots set_vec w_vec].
    rewrite (nth_snoc vecsig). unfold vecsig. rewrite Ek, En. reflexivity.
Qed.
Lemma opts_with_vars_ok o labels : opts_ok (opts_with_vars o labels) = opts_ok o.
Proof. reflexivity. Qed.
Lemma opts_with_vars_name o labels : opts_fq_name (opts_with_vars o labels) = opts_fq_name o.
Proof. reflexivity. Qed.

(* ---------- children of a vector ---------- *)
Lemma nlookup_None_notin {V} k (m : list (N * V)) : nlookup k m = None -> ~ In k (map fst m).
Proof.
  induction m as [|[k' v] m IH]; cbn; auto. destruct (k =? k') eqn:E; [discriminate|]. apply N.eqb_neq in E.
  intros H [E'|Hin]; [congruence|]. apply IH; auto.
Qed.
Lemma nlookup_Some_in {V} k (m : list (N * V)) v : nlookup k m = Some v -> In (k, v) m.
Proof.
  induction m as [|[k' v'] m IH]; cbn; [discriminate|]. destruct (k =? k') eqn:E; auto.
  apply N.eqb_eq in E. intros H. inversion H; subst. auto.
Qed.
Lemma nremove_sub {V} k (m : list (N * V)) x : In x (nremove k m) -> In x m.
Proof. induction m as [|[k' v'] m IH]; cbn; auto. destruct (k =? k'); cbn; intros H; auto. destruct H; auto. Qed.
Lemma nremove_nodup {V} k (m : list (N * V)) : NoDup (map fst m) -> NoDup (map fst (nremove k m)).
Proof.
  induction m as [|[k' v'] m IH]; cbn; auto. intros H. inversion H; subst. destruct (k =? k'); cbn; auto.
  constructor; auto. intros Hin. apply H2. apply in_map_iff in Hin as (x & Ex & Hx). apply in_map_iff. exists x. split; auto.
  eapply nremove_sub; eauto.
Qed.
Lemma Forall_sub {A} (P : A -> Prop) l l' : (forall x, In x l' -> In x l) -> Forall P l -> Forall P l'.
Proof. intros H F. apply Forall_forall. intros x Hx. rewrite Forall_forall in F. auto. Qed.

Lemma vec_wf_at w vi v : WI w -> nth_error (w_vec w) vi = Some v -> vecwf (sigs_of w) v.
Proof. intros W E. pose proof (wi_vec _ W) as Wc. rewrite Forall_forall in Wc. apply Wc. eapply nth_error_In; eauto. Qed.

Lemma vgc_res w vi v h vals w' hd : WI w -> nth_error (w_vec w) vi = Some v ->
  length vals = length (d_vars (v_desc v)) -> h = fnv1a (label_values_preimage vals) ->
  vec_get_or_create w vi h vals = Ok (w', hd) ->
  WF w w' /\ w_reg w' = w_reg w /\ w_slots w' = w_slots w /\ slotwf w' hd /\ is_coll hd = true
  /\ went (sigs_of w') hd = went (sigs_of w) (HVec vi).
Proof.
  intros W E L Eh. unfold vec_get_or_create. rewrite E. pose proof (vec_wf_at _ _ _ W E) as (D & Ed & ND & Fc).
  assert (Wv : went (sigs_of w) (HVec vi) = Some (kind_of (veckind_mtype (v_kind v)), d_fq_name (v_desc v))).
  { unfold went. cbn [is_coll cofh ctypeS cdescS sigs_of CS]. rewrite (map_nth_error vecsig _ _ E). reflexivity. }
  destruct (nlookup h (v_children v)) as [c|] eqn:El.
  - intros H. inversion H; subst w' hd. clear H. split; [apply WF_refl; auto|]. split; auto. split; auto.
    apply nlookup_Some_in in El. rewrite Forall_forall in Fc. destruct (Fc _ El) as (vals' & L' & _ & Hk). cbn [snd] in Hk.
    rewrite Wv. unfold child_handle, went. destruct (v_kind v) as [t k|bs]; cbn [is_coll cofh ctypeS cdescS slotwf veckind_mtype].
    + rewrite Hk. split; [|auto]. cbn [sigs_of VS] in Hk. rewrite <- (map_length vsig). apply nth_error_Some. congruence.
    + rewrite Hk. split; [|auto]. cbn [sigs_of HS] in Hk. rewrite <- (map_length hsig). apply nth_error_Some. congruence.
  - apply nlookup_None_notin in El. unfold build_child. destruct (v_kind v) as [t k|bs] eqn:Ek.
    + destruct (value_new (v_opts v) t k vals) as [c|] eqn:Ev; [|discriminate]. intros H. inversion H; subst w' hd. clear H.
      apply value_new_wf in Ev as (Ed' & Et & _ & Lb). rewrite Ed in Ed'. inversion Ed' as [Edd]. rewrite <- Edd in Lb.
      assert (Hc : vwf c) by (split; [rewrite <- Edd; auto|exists vals; rewrite <- Edd; auto]).
      pose proof (P_newv w c W Hc) as F1. set (w1 := set_v w (w_v w ++ [c])) in *.
      assert (E1 : nth_error (w_vec w1) vi = Some v) by exact E.
      assert (F2 : WF w1 (set_vec w1 (list_set (w_vec w1) vi (vec_set_children v (v_children v ++ [(h, length (w_v w))]))))).
      { apply P_children; auto; [apply F1| |].
        - rewrite map_app. cbn. apply NoDup_app_intro; auto; [repeat constructor; auto|]. intros x [<-|[]]. exact El.
        - apply Forall_app. split.
          + eapply Forall_impl; [|exact Fc]. intros hc. apply child_ok_mono. apply F1.
          + constructor; auto. exists vals. split; auto. split; auto. rewrite Ek. cbn [snd sigs_of VS w1 set_v w_v].
            rewrite (nth_snoc vsig). unfold vsig. rewrite <- Edd, Et, Lb. reflexivity. }
      split; [eapply WF_trans; eauto|]. split; auto. split; auto. cbn [slotwf is_coll]. split; [cbn; rewrite app_length; cbn; lia|]. split; auto.
      rewrite Wv. unfold went. cbn [is_coll cofh ctypeS cdescS sigs_of VS set_vec w_v w1 set_v]. rewrite (nth_snoc vsig). unfold vsig.
      rewrite <- Edd, Et. reflexivity.
    + destruct (hcore_new (mkHOpts (v_opts v) bs) vals) as [c|] eqn:Ev; [|discriminate]. intros H. inversion H; subst w' hd. clear H.
      apply hcore_new_wf in Ev as (Ed' & _ & Lb & Hq). cbn [ho_common] in Ed'. rewrite Ed in Ed'. inversion Ed' as [Edd]. rewrite <- Edd in Lb.
      assert (Hc : hwf c) by (split; [rewrite <- Edd; auto|split; auto; exists vals; rewrite <- Edd; auto]).
      pose proof (P_newh w c W Hc) as F1. set (w1 := set_h w (w_h w ++ [c])) in *.
      assert (E1 : nth_error (w_vec w1) vi = Some v) by exact E.
      assert (F2 : WF w1 (set_vec w1 (list_set (w_vec w1) vi (vec_set_children v (v_children v ++ [(h, length (w_h w))]))))).
      { apply P_children; auto; [apply F1| |].
        - rewrite map_app. cbn. apply NoDup_app_intro; auto; [repeat constructor; auto|]. intros x [<-|[]]. exact El.
        - apply Forall_app. split.
          + eapply Forall_impl; [|exact Fc]. intros hc. apply child_ok_mono. apply F1.
          + constructor; auto. exists vals. split; auto. split; auto. rewrite Ek. cbn [snd sigs_of HS w1 set_h w_h].
            rewrite (nth_snoc hsig). unfold hsig. rewrite <- Edd, Lb. reflexivity. }
      split; [eapply WF_trans; eauto|]. split; auto. split; auto. cbn [slotwf is_coll]. split; [cbn; rewrite app_length; cbn; lia|]. split; auto.
      rewrite Wv. unfold went. cbn [is_coll cofh ctypeS cdescS sigs_of HS set_vec w_h w1 set_h]. rewrite (nth_snoc hsig). unfold hsig.
      rewrite <- Edd. reflexivity.
Qed.

Lemma vec_delete_res w vi h w' : WI w -> vec_delete w vi h = Ok w' -> WF w w' /\ w_reg w' = w_reg w /\ w_slots w' = w_slots w.
Proof.
  intros W. unfold vec_delete. destruct (nth_error (w_vec w) vi) as [v|] eqn:E; [|discriminate].
  destruct (nlookup h (v_children v)); [|discriminate]. intros H. inversion H; subst w'. clear H.
  pose proof (vec_wf_at _ _ _ W E) as (D & Ed & ND & Fc). split; [|auto].
  apply P_children; auto; [apply nremove_nodup; auto|]. eapply Forall_sub; [|exact Fc]. intros x. apply nremove_sub.
Qed.

Lemma hash_label_values_ok d vals h : hash_label_values d vals = Ok h -> length vals = length (d_vars d) /\ h = fnv1a (label_values_preimage vals).
Proof.
  unfold hash_label_values, lenN. destruct (N.of_nat (length vals) =? N.of_nat (length (d_vars d))) eqn:E; cbn [negb]; [|discriminate].
  apply N.eqb_eq, Nat2N.inj in E. intros H. inversion H. auto.
Qed.
Lemma values_in_order_length names labels vs : values_in_declared_order names labels = Some vs -> length vs = length names.
Proof.
  revert vs; induction names as [|n r IH]; cbn; intros vs H; [inversion H; reflexivity|].
  destruct (alookup n labels); [|discriminate]. destruct (values_in_declared_order r labels) as [vs'|]; [|discriminate].
  inversion H; subst. cbn. f_equal. auto.
Qed.
Lemma hash_labels_ok d labels h vals : hash_labels d labels = Ok (h, vals) -> length vals = length (d_vars d) /\ h = fnv1a (label_values_preimage vals).
Proof.
  unfold hash_labels. destruct (negb _); [discriminate|]. destruct (values_in_declared_order (d_vars d) labels) as [vs|] eqn:E; [|discriminate].
  intros H. inversion H; subst. split; auto. eapply values_in_order_length; eauto.
Qed.

(* ====================================================================================== *)
(* The operations.                                                                         *)
(* ====================================================================================== *)
Import PV.Spec.SpecC07.
Definition op_lang (o : op) : bool :=
  match o with
  | OpCustom _ fams => is_nil fams
  | OpCounter _ o' | OpGauge _ o' | OpCounterVec _ o' _ | OpGaugeVec _ o' _ => opts_ok o'
  | OpHistogram ho | OpHistVec ho _ => opts_ok (ho_common ho)
  | _ => true
  end.
Definition clone_ok (w : world) (o : op) : bool :=
  match o with OpClone s => match slot w s with HRegistry _ => false | _ => true end | _ => true end.
Definition is_regop (o : op) : bool := match o with OpRegistry _ _ | OpRegister _ _ | OpUnregister _ _ => true | _ => false end.
Definition pushes (o : op) : bool :=
  match o with
  | OpCounter _ _ | OpGauge _ _ | OpHistogram _ | OpCounterVec _ _ _ | OpGaugeVec _ _ _ | OpHistVec _ _ | OpWith _ _ | OpWithMap _ _
  | OpLocal _ | OpClone _ | OpTimer _ | OpRegistry _ _ | OpCustom _ _ | OpPulling _ _ _ => true
  | _ => false
  end.
Definition entry_spec (w w' : world) (o : op) (h : handle) : Prop :=
  match o with
  | OpCounter _ o' | OpCounterVec _ o' _ => went (sigs_of w') h = Some (KCounter, opts_fq_name o')
  | OpGauge _ o' | OpGaugeVec _ o' _ => went (sigs_of w') h = Some (KGauge, opts_fq_name o')
  | OpHistogram ho | OpHistVec ho _ => went (sigs_of w') h = Some (KHist, opts_fq_name (ho_common ho))
  | OpPulling n _ _ => went (sigs_of w') h = Some (KGauge, n)
  | OpWith s _ | OpWithMap s _ | OpClone s => is_coll (slot w s) = true /\ went (sigs_of w') h = went (sigs_of w) (slot w s)
  | OpCustom _ _ => is_cust h = true
  | _ => False
  end.
(* handles that can be registered *)
Definition is_mem (h : handle) : bool := is_coll h || is_cust h.
(* handles the spec's bookkeeping depends on *)
Definition is_reg (h : handle) : bool := match h with HRegistry _ => true | _ => false end.
Definition stable (h : handle) : bool := is_coll h || is_reg h || is_cust h.
Record step_res (w : world) (o : op) (w' : world) (ob : obs) : Prop := mkSR {
  sr_wf : WF w w';
  sr_reg : w_reg w' = w_reg w;
  sr_slots : if pushes o
             then exists h, w_slots w' = w_slots w ++ [h] /\ not_registry h /\ (is_mem h = true -> is_ok ob = true /\ entry_spec w w' o h)
             else w_slots w' = w_slots w
                  \/ exists s h0 h', nth_error (w_slots w) s = Some h0 /\ w_slots w' = list_set (w_slots w) s h'
                                     /\ h0 <> HDead /\ stable h' = false /\ (stable h0 = false \/ h' = HDead) }.

Lemma res_dead w o ob : WI w -> pushes o = true -> step_res w o (push_slot w HDead) ob.
Proof.
  intros W P. split; [apply P_push; cbn; auto|reflexivity|]. rewrite P. exists HDead. split; [reflexivity|]. split; [intros r; discriminate|discriminate].
Qed.
Lemma res_push w o h ob : WI w -> pushes o = true -> slotwf w h -> stable h = false -> step_res w o (push_slot w h) ob.
Proof.
  intros W P Hs Hst. apply orb_false_iff in Hst as [Hst C]. apply orb_false_iff in Hst as [A B]. split; [apply P_push; auto|reflexivity|]. rewrite P. exists h. split; [reflexivity|].
  split; [intros r E; subst h; discriminate|]. intros E. unfold is_mem in E. rewrite A, C in E. discriminate.
Qed.
Lemma res_same w o ob : WI w -> pushes o = false -> step_res w o w ob.
Proof. intros W P. split; [apply WF_refl; auto|reflexivity|]. rewrite P. left. reflexivity. Qed.
Lemma res_nopush w o w' ob : pushes o = false -> WF w w' -> w_reg w' = w_reg w -> w_slots w' = w_slots w -> step_res w o w' ob.
Proof. intros P F R Sl. split; auto. rewrite P. left. exact Sl. Qed.
Lemma slot_nth_error w s h : slot w s = h -> h <> HDead -> nth_error (w_slots w) s = Some h.
Proof.
  intros E Hn. unfold slot in E. destruct (nth_error (w_slots w) s) as [h'|] eqn:En.
  - rewrite (nth_error_nth _ _ _ En) in E. congruence.
  - apply nth_error_None in En. rewrite nth_overflow in E by lia. congruence.
Qed.
(* overwriting slot s (which held h0) with h' after the world changed to w1 *)
Lemma res_put w o w1 s h0 h' ob : pushes o = false -> WF w w1 -> w_reg w1 = w_reg w -> w_slots w1 = w_slots w ->
  slot w s = h0 -> h0 <> HDead -> slotwf w1 h' -> stable h' = false -> (stable h0 = false \/ h' = HDead) ->
  step_res w o (put_slot w1 s h') ob.
Proof.
  intros P F R Sl Es Hn Hs Hst Hd. split.
  - eapply WF_trans; [exact F|]. apply P_put; auto. apply F.
  - exact R.
  - rewrite P. right. exists s, h0, h'. split; [apply slot_nth_error; auto|]. split; [cbn; rewrite Sl; reflexivity|]. auto.
Qed.

Ltac dslot w s W :=
  let Hs := fresh "Hs" in pose proof (slot_wf w s W) as Hs; destruct (slot w s) eqn:Es; cbn [slotwf] in Hs; try (exfalso; exact Hs).

Lemma pull_desc_new name help d : desc_new name help [] [] = Some d -> pull_desc d /\ d_fq_name d = name.
Proof.
  intros H. destruct (desc_new_wf name help [] [] d (NoDup_nil _) H) as (A & B & C & D & E). split; auto. split; auto.
Qed.

(* flushing local state into the shared cores *)
Definition quiet (w w' : world) : Prop := WF w w' /\ w_reg w' = w_reg w /\ w_slots w' = w_slots w.
Lemma quiet_refl w : WI w -> quiet w w.
Proof. intros W. split; [apply WF_refl; auto|auto]. Qed.
Lemma quiet_trans a b c : quiet a b -> quiet b c -> quiet a c.
Proof. intros (A1 & A2 & A3) (B1 & B2 & B3). split; [eapply WF_trans; eauto|]. split; congruence. Qed.
Lemma quiet_updv w i (g : numval -> numval) : WI w ->
  quiet w (set_v w (upd (w_v w) i (fun vc => mkVCore (vc_desc vc) (vc_type vc) (g (vc_val vc)) (vc_labels vc)))).
Proof. intros W. split; [apply P_updv; auto|auto]. Qed.
Lemma quiet_flush w c l : WI w -> quiet w (flush_lh w c l).
Proof.
  intros W. split; [|auto]. unfold flush_lh. apply P_updh; auto. intros x. destruct (hc_flush_desc x l). split; [unfold hsig; congruence|apply Q_flush].
Qed.
Lemma quiet_observe w c v : WI w -> quiet w (set_h w (upd (w_h w) c (fun h => hc_observe h v))).
Proof.
  intros W. split; [|auto]. apply P_updh; auto. intros x. destruct (hc_observe_desc x v). split; [unfold hsig; congruence|apply Q_observe].
Qed.
Lemma quiet_fold {A} (f : world -> A -> world) : (forall w a, WI w -> quiet w (f w a)) ->
  forall l w, WI w -> quiet w (fold_left f l w).
Proof.
  intros Hf. induction l as [|a l IH]; intros w W; cbn [fold_left]; [apply quiet_refl; auto|].
  eapply quiet_trans; [apply Hf; auto|]. apply IH. apply (Hf w a W).
Qed.
Lemma quiet_flush_cvec w (cache : list (N * (nat * numval))) : WI w ->
  quiet w (fold_left (fun w0 e => let '(_, (c, val)) := e in
             if num_is_zero val then w0
             else set_v w0 (upd (w_v w0) c (fun vc => mkVCore (vc_desc vc) (vc_type vc) (num_add (vc_val vc) val) (vc_labels vc)))) cache w).
Proof.
  intros W. apply quiet_fold; auto. intros w0 [h [c val]] W0. destruct (num_is_zero val); [apply quiet_refl; auto|].
  apply (quiet_updv w0 c (fun x => num_add x val)); auto.
Qed.
Lemma quiet_flush_hvec w (cache : list (N * (nat * lhist))) : WI w ->
  quiet w (fold_left (fun w0 e => let '(_, (c, l)) := e in flush_lh w0 c l) cache w).
Proof. intros W. apply quiet_fold; auto. intros w0 [h [c l]] W0. apply quiet_flush; auto. Qed.
Lemma res_put_q w o w1 s h0 h' ob : pushes o = false -> quiet w w1 ->
  slot w s = h0 -> h0 <> HDead -> slotwf w1 h' -> stable h' = false -> (stable h0 = false \/ h' = HDead) ->
  step_res w o (put_slot w1 s h') ob.
Proof. intros P (F & R & Sl). apply res_put; auto. Qed.
Lemma res_quiet w o w' ob : pushes o = false -> quiet w w' -> step_res w o w' ob.
Proof. intros P (F & R & Sl). apply res_nopush; auto. Qed.
Lemma vgc_quiet w vi v h vals w' hd : WI w -> nth_error (w_vec w) vi = Some v ->
  hash_label_values (v_desc v) vals = Ok h -> vec_get_or_create w vi h vals = Ok (w', hd) -> quiet w w'.
Proof.
  intros W Ev Eh Eg. apply hash_label_values_ok in Eh as [L Ehh].
  destruct (vgc_res w vi v h vals w' hd W Ev L Ehh Eg) as (F & R & Sl & _). split; auto.
Qed.
Lemma vec_delete_put w s h' vi h w' : WI w -> slotwf w h' -> vec_delete (put_slot w s h') vi h = Ok w' ->
  WF w w' /\ w_reg w' = w_reg w /\ w_slots w' = list_set (w_slots w) s h'.
Proof.
  intros W Hs Ed. pose proof (P_put w s h' W Hs) as F1. destruct (vec_delete_res _ _ _ _ (proj1 F1) Ed) as (F2 & R & Sl).
  split; [eapply WF_trans; [exact F1|exact F2]|]. split; [exact R|exact Sl].
Qed.
Lemma res_put_raw w o w' s h0 h' ob : pushes o = false -> WF w w' -> w_reg w' = w_reg w -> w_slots w' = list_set (w_slots w) s h' ->
  slot w s = h0 -> h0 <> HDead -> stable h' = false -> (stable h0 = false \/ h' = HDead) -> step_res w o w' ob.
Proof.
  intros P F R Sl Es Hn Hst Hd. split; auto. rewrite P. right. exists s, h0, h'. split; [apply slot_nth_error; auto|]. auto.
Qed.

Ltac fin :=
  first [ apply res_same; [assumption|reflexivity]
        | apply res_dead; [assumption|reflexivity]
        | apply res_push; [assumption|reflexivity|exact I|reflexivity]
        | eapply res_put_q; [reflexivity|apply quiet_refl; assumption|eassumption|discriminate|exact I|reflexivity|left; reflexivity] ].

Lemma step_other w o : WI w -> op_lang o = true -> clone_ok w o = true -> is_regop o = false ->
  step_res w o (fst (step w o)) (snd (step w o)).
Proof.
  intros W Hl Hc Hr. destruct o; try discriminate Hl; try discriminate Hr; cbn [op_lang clone_ok] in *; cbn [step].
  - (* OpDesc *) fin.
  - (* OpFqName *) fin.
  - (* OpCounter *) destruct (value_new o VCounter k []) as [c|e] eqn:E; cbn [fst snd]; [|fin].
    destruct (new_value_res w o VCounter k c W Hl E) as [F G]. split; auto. cbn [pushes]. eexists. split; [reflexivity|]. split; [intros r; discriminate|]. intros _. split; auto.
  - (* OpGauge *) destruct (value_new o VGauge k []) as [c|e] eqn:E; cbn [fst snd]; [|fin].
    destruct (new_value_res w o VGauge k c W Hl E) as [F G]. split; auto. cbn [pushes]. eexists. split; [reflexivity|]. split; [intros r; discriminate|]. intros _. split; auto.
  - (* OpHistogram *) destruct (hcore_new o []) as [c|e] eqn:E; cbn [fst snd]; [|fin].
    destruct (new_hist_res w o c W Hl E) as [F G]. split; auto. cbn [pushes]. eexists. split; [reflexivity|]. split; [intros r; discriminate|]. intros _. split; auto.
  - (* OpCounterVec *) destruct (vec_create (opts_with_vars o labels) (VKValue VCounter k)) as [c|e] eqn:E; cbn [fst snd]; [|fin].
    destruct (new_vec_res w (opts_with_vars o labels) _ c W Hl E) as [F G]. split; auto. cbn [pushes]. eexists. split; [reflexivity|]. split; [intros r; discriminate|]. intros _. split; auto.
  - (* OpGaugeVec *) destruct (vec_create (opts_with_vars o labels) (VKValue VGauge k)) as [c|e] eqn:E; cbn [fst snd]; [|fin].
    destruct (new_vec_res w (opts_with_vars o labels) _ c W Hl E) as [F G]. split; auto. cbn [pushes]. eexists. split; [reflexivity|]. split; [intros r; discriminate|]. intros _. split; auto.
  - (* OpHistVec *) destruct (vec_create (opts_with_vars (ho_common o) labels) (VKHist (ho_buckets o))) as [c|e] eqn:E; cbn [fst snd]; [|fin].
    destruct (new_vec_res w (opts_with_vars (ho_common o) labels) _ c W Hl E) as [F G]. split; auto. cbn [pushes]. eexists. split; [reflexivity|]. split; [intros r; discriminate|]. intros _. split; auto.
  - (* OpWith *) dslot w s W; try (fin; fail).
    destruct (nth_error (w_vec w) v) as [vv|] eqn:Ev; [|fin].
    destruct (hash_label_values (v_desc vv) vals) as [h|e] eqn:Eh; [|fin].
    destruct (vec_get_or_create w v h vals) as [[w' hd]|e] eqn:Eg; [|fin]. cbn [fst snd].
    apply hash_label_values_ok in Eh as [L Ehh].
    destruct (vgc_res w v vv h vals w' hd W Ev L Ehh Eg) as (F & R & Sl & Hsl & Hcl & Hw).
    split.
    + eapply WF_trans; [exact F|]. apply P_push; [apply F|exact Hsl].
    + exact R.
    + cbn [pushes push_slot set_slots w_slots]. rewrite Sl. eexists. split; [reflexivity|].
      split; [intros r E; rewrite E in Hcl; discriminate|]. intros _. split; [reflexivity|].
      cbn [entry_spec]. rewrite Es. split; [reflexivity|]. exact Hw.
  - (* OpWithMap *) dslot w s W; try (fin; fail).
    destruct (nth_error (w_vec w) v) as [vv|] eqn:Ev; [|fin].
    destruct (hash_labels (v_desc vv) (amap_of kvs)) as [[h vals]|e] eqn:Eh; [|fin].
    destruct (vec_get_or_create w v h vals) as [[w' hd]|e] eqn:Eg; [|fin]. cbn [fst snd].
    apply hash_labels_ok in Eh as [L Ehh].
    destruct (vgc_res w v vv h vals w' hd W Ev L Ehh Eg) as (F & R & Sl & Hsl & Hcl & Hw).
    split.
    + eapply WF_trans; [exact F|]. apply P_push; [apply F|exact Hsl].
    + exact R.
    + cbn [pushes push_slot set_slots w_slots]. rewrite Sl. eexists. split; [reflexivity|].
      split; [intros r E; rewrite E in Hcl; discriminate|]. intros _. split; [reflexivity|].
      cbn [entry_spec]. rewrite Es. split; [reflexivity|]. exact Hw.
  - (* OpRemove *) dslot w s W; try (fin; fail).
    destruct (nth_error (w_vec w) v) as [vv|] eqn:Ev; [|fin].
    destruct (hash_label_values (v_desc vv) vals) as [h|e] eqn:Eh; [|fin].
    destruct (vec_delete w v h) as [w'|e] eqn:Ed; [|fin]. cbn [fst snd].
    destruct (vec_delete_res _ _ _ _ W Ed) as (F & R & Sl). apply res_nopush; auto.
  - (* OpRemoveMap *) dslot w s W; try (fin; fail).
    destruct (nth_error (w_vec w) v) as [vv|] eqn:Ev; [|fin].
    destruct (hash_labels (v_desc vv) (amap_of kvs)) as [[h vals]|e] eqn:Eh; [|fin].
    destruct (vec_delete w v h) as [w'|e] eqn:Ed; [|fin]. cbn [fst snd].
    destruct (vec_delete_res _ _ _ _ W Ed) as (F & R & Sl). apply res_nopush; auto.
  - (* OpReset *) dslot w s W; try (fin; fail); cbn [fst snd].
    + apply res_nopush; auto. apply P_updv; auto.
    + apply res_nopush; auto. unfold upd. destruct (nth_error (w_vec w) v) as [vv|] eqn:Ev; [|apply nth_error_None in Ev; lia].
      apply P_children; auto; constructor.
  - (* OpInc *) dslot w s W; try (fin; fail); cbn [fst snd]. apply res_nopush; auto. apply P_updv; auto.
  - (* OpIncBy *) dslot w s W; try (fin; fail); cbn [fst snd]. apply res_nopush; auto. apply P_updv; auto.
  - (* OpDec *) dslot w s W; try (fin; fail); cbn [fst snd]. apply res_nopush; auto. apply P_updv; auto.
  - (* OpAdd *) dslot w s W; try (fin; fail); cbn [fst snd]. apply res_nopush; auto. apply P_updv; auto.
  - (* OpSub *) dslot w s W; try (fin; fail); cbn [fst snd]. apply res_nopush; auto. apply P_updv; auto.
  - (* OpSet *) dslot w s W; try (fin; fail); cbn [fst snd]. apply res_nopush; auto. apply P_updv; auto.
  - (* OpGet *) dslot w s W; try (fin; fail). destruct (nth_error (w_v w) c); fin.
  - (* OpObserve *) dslot w s W; try (fin; fail); cbn [fst snd]. apply res_quiet; auto. apply quiet_observe; auto.
  - (* OpSampleSum *) dslot w s W; try (fin; fail). destruct (nth_error (w_h w) c); fin.
  - (* OpSampleCount *) dslot w s W; try (fin; fail). destruct (nth_error (w_h w) c); fin.
  - (* OpLocal *) dslot w s W; try (fin; fail).
    + destruct (nth_error (w_v w) c); fin.
    + destruct (nth_error (w_vec w) v) as [vv|]; [destruct (v_kind vv)|]; fin.
  - (* OpFlush *) dslot w s W; try (fin; fail).
    + destruct (num_is_zero val); [fin|]. cbn [fst snd].
      eapply res_put_q; [reflexivity|apply (quiet_updv w c (fun x => num_add x val)); auto|eassumption|discriminate|exact I|reflexivity|left; reflexivity].
    + cbn [fst snd]. eapply res_put_q; [reflexivity|apply quiet_flush; auto|eassumption|discriminate|exact I|reflexivity|left; reflexivity].
    + cbn [fst snd]. eapply res_put_q; [reflexivity|apply quiet_flush_cvec; auto|eassumption|discriminate|exact I|reflexivity|left; reflexivity].
    + cbn [fst snd]. eapply res_put_q; [reflexivity|apply quiet_flush_hvec; auto|eassumption|discriminate|exact I|reflexivity|left; reflexivity].
  - (* OpClear *) dslot w s W; fin.
  - (* OpClone *) dslot w s W; try (fin; fail); try discriminate Hc; cbn [fst snd].
    + split; [apply P_push; auto|reflexivity|]. cbn [pushes]. eexists. split; [reflexivity|]. split; [intros r; discriminate|]. intros _. split; [reflexivity|].
      cbn [entry_spec]. rewrite Es. split; reflexivity.
    + split; [apply P_push; auto|reflexivity|]. cbn [pushes]. eexists. split; [reflexivity|]. split; [intros r; discriminate|]. intros _. split; [reflexivity|].
      cbn [entry_spec]. rewrite Es. split; reflexivity.
    + split; [apply P_push; auto|reflexivity|]. cbn [pushes]. eexists. split; [reflexivity|]. split; [intros r; discriminate|]. intros _. split; [reflexivity|].
      cbn [entry_spec]. rewrite Es. split; reflexivity.
  - (* OpDrop *) dslot w s W; try (fin; fail); cbn [fst snd];
      try (eapply res_put_q; [reflexivity|apply quiet_refl; assumption|eassumption|discriminate|exact I|reflexivity|right; reflexivity]; fail).
    + eapply res_put_q; [reflexivity|apply quiet_flush; auto|eassumption|discriminate|exact I|reflexivity|right; reflexivity].
    + eapply res_put_q; [reflexivity|apply quiet_flush_hvec; auto|eassumption|discriminate|exact I|reflexivity|right; reflexivity].
  - (* OpLvInc *) dslot w s W; try (fin; fail).
    match goal with |- context [nth_error (w_vec w) ?vi] => destruct (nth_error (w_vec w) vi) as [vv|] eqn:Ev end; [|fin].
    destruct (hash_label_values (v_desc vv) vals) as [h|e] eqn:Eh; [|fin].
    destruct (nlookup h cache) as [[c val]|]; [fin|].
    match goal with |- context [vec_get_or_create w ?vi h vals] => destruct (vec_get_or_create w vi h vals) as [[w' hd]|e] eqn:Eg end; [|fin].
    pose proof (vgc_quiet _ _ _ _ _ _ _ W Ev Eh Eg) as Hq. destruct hd; try fin. cbn [fst snd].
    eapply res_put_q; [reflexivity|exact Hq|eassumption|discriminate|exact I|reflexivity|left; reflexivity].
  - (* OpLvObserve *) dslot w s W; try (fin; fail).
    match goal with |- context [nth_error (w_vec w) ?vi] => destruct (nth_error (w_vec w) vi) as [vv|] eqn:Ev end; [|fin].
    destruct (hash_label_values (v_desc vv) vals) as [h|e] eqn:Eh; [|fin].
    destruct (nlookup h cache) as [[c l]|]; [fin|].
    match goal with |- context [vec_get_or_create w ?vi h vals] => destruct (vec_get_or_create w vi h vals) as [[w' hd]|e] eqn:Eg end; [|fin].
    pose proof (vgc_quiet _ _ _ _ _ _ _ W Ev Eh Eg) as Hq. destruct hd; try fin. cbn [fst snd].
    eapply res_put_q; [reflexivity|exact Hq|eassumption|discriminate|exact I|reflexivity|left; reflexivity].
  - (* OpLvRemove *) dslot w s W; try (fin; fail).
    + destruct (nth_error (w_vec w) v) as [vv|] eqn:Ev; [|fin].
      destruct (hash_label_values (v_desc vv) vals) as [h|e] eqn:Eh; [|fin].
      destruct (vec_delete (put_slot w s (HLocalCounterVec v (nremove h cache))) v h) as [w'|e] eqn:Ed; cbn [fst snd].
      * destruct (vec_delete_put w s (HLocalCounterVec v (nremove h cache)) v h w' W I Ed) as (F & R & Sl).
        eapply res_put_raw; [reflexivity|exact F|exact R|exact Sl|eassumption|discriminate|reflexivity|left; reflexivity].
      * fin.
    + destruct (nth_error (w_vec w) v) as [vv|] eqn:Ev; [|fin].
      destruct (hash_label_values (v_desc vv) vals) as [h|e] eqn:Eh; [|fin].
      set (w0 := match nlookup h cache with Some (c, l) => flush_lh w c l | None => w end).
      assert (Q0 : quiet w w0) by (unfold w0; destruct (nlookup h cache) as [[c l]|]; [apply quiet_flush|apply quiet_refl]; auto).
      destruct Q0 as (F0 & R0 & Sl0).
      destruct (vec_delete (put_slot w0 s (HLocalHistVec v (nremove h cache))) v h) as [w'|e] eqn:Ed; cbn [fst snd].
      * destruct (vec_delete_put w0 s (HLocalHistVec v (nremove h cache)) v h w' (proj1 F0) I Ed) as (F & R & Sl).
        eapply res_put_raw; [reflexivity|eapply WF_trans; eauto|congruence|rewrite Sl, Sl0; reflexivity|eassumption|discriminate|reflexivity|left; reflexivity].
      * eapply res_put_q; [reflexivity|split; [exact F0|split; assumption]|eassumption|discriminate|exact I|reflexivity|left; reflexivity].
  - (* OpTimer *) dslot w s W; fin.
  - (* OpTimerStop *) dslot w s W; try (fin; fail).
    + destruct m; cbn [fst snd];
        first [ eapply res_put_q; [reflexivity|apply quiet_observe; auto|eassumption|discriminate|exact I|reflexivity|right; reflexivity]
              | eapply res_put_q; [reflexivity|apply quiet_refl; auto|eassumption|discriminate|exact I|reflexivity|right; reflexivity] ].
    + destruct m; cbn [fst snd];
        (eapply res_put_q; [reflexivity|apply quiet_flush; auto|eassumption|discriminate|exact I|reflexivity|right; reflexivity]).
  - (* OpClosure *) dslot w s W; try (fin; fail); cbn [fst snd]. apply res_quiet; auto. apply quiet_observe; auto.
  - (* OpGather *) dslot w r W; try (fin; fail).
    destruct (nth_error (w_reg w) r0) as [rc|]; [|fin].
    destruct (collect_all w (r_collectors rc)) as [[fs w']|] eqn:E; [|fin]. cbn [fst snd].
    destruct (collect_all_pure _ _ _ _ (WI_WQ _ W) E) as [_ Hw]. pose proof Hw as (_ & _ & R & Sl & _).
    apply res_nopush; auto. apply P_weq; auto.
  - (* OpCustom *) destruct fams; [|discriminate Hl]. destruct (build_descs ds) as [l|]; cbn [fst snd]; [|fin].
    split; [apply P_push; auto; reflexivity|reflexivity|]. cbn [pushes]. eexists. split; [reflexivity|]. split; [intros r; discriminate|].
    intros _. split; reflexivity.
  - (* OpPulling *) destruct (desc_new name help [] []) as [d|] eqn:E; cbn [fst snd]; [|fin].
    destruct (pull_desc_new _ _ _ E) as [Hp En].
    split; [apply P_push; auto|reflexivity|]. cbn [pushes]. eexists. split; [reflexivity|]. split; [intros r; discriminate|]. intros _. split; [reflexivity|].
    cbn [entry_spec]. unfold went. cbn. rewrite En. reflexivity.
  - (* OpCollect *) destruct (collector_of w (slot w s)) as [[c ds]|]; [|fin].
    destruct (collect_collector w c) as [[fs w']|] eqn:E; [|fin]. cbn [fst snd].
    destruct (collect_collector_pure _ _ _ _ (WI_WQ _ W) E) as [_ Hw]. pose proof Hw as (_ & _ & R & Sl & _).
    apply res_nopush; auto. apply P_weq; auto.
  - (* OpDescOf *) destruct (collector_of w (slot w s)) as [[c ds]|]; fin.
  - (* OpLinearBuckets *) fin.
  - (* OpExpBuckets *) fin.
Qed.
