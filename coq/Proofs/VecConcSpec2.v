(* C10: further clauses of the executable relaxed spec on validated traces (remove Ok / Err, the value-decoding clauses). *)
Require Import PV.Base.Prelude PV.Base.StrFacts PV.Model.Conc PV.Model.VecConc PV.Spec.SpecC10.
Require Import PV.Proofs.VecConcBase PV.Proofs.VecConcLin PV.Proofs.VecConcFacts PV.Proofs.VecConcRT PV.Proofs.VecConcSpec.
From Coq Require Import Arith Lia Permutation Sorted.
Open Scope nat_scope.

(* ------------------------------------------------------------------ shapes of a call's logged operations *)
Lemma rm_get nl c r ls k x : ret_matches nl c r ls -> In (AGet k, x) ls ->
  exists d ch, c = CWithInc k d /\ length k = nl /\ r = RUnit /\ x = RChild ch /\ ls = [(AGet k, RChild ch); (AUpd ch d, RDone)].
Proof.
  destruct c; cbn; try tauto.
  - destruct (Nat.eqb (length k0) nl) eqn:E.
    + intros (-> & ch & ->) [H|[H|[]]]; inversion H; subst. apply Nat.eqb_eq in E. eexists _, _; repeat split; eauto.
    + intros (_ & ->) [].
  - destruct (Nat.eqb (length k0) nl).
    + intros [(_ & ->)|(_ & ->)] [H|[]]; discriminate.
    + intros (_ & ->) [].
  - intros (_ & ->) [H|[]]; discriminate.
  - intros (snap & vis & _ & -> & _) [H|H]; [discriminate | apply reads_no_get in H; tauto].
Qed.
Lemma reads_only_reads vis o x : In (o, x) (reads vis) -> exists c v, o = ARead c /\ x = RValue v.
Proof. unfold reads. intros H. apply in_map_iff in H as (y & E & _). inversion E; eauto. Qed.
Lemma rm_upd nl c r ls ch d x : ret_matches nl c r ls -> In (AUpd ch d, x) ls ->
  exists k, c = CWithInc k d /\ length k = nl /\ r = RUnit /\ ls = [(AGet k, RChild ch); (AUpd ch d, RDone)].
Proof.
  destruct c; cbn; try tauto.
  - destruct (Nat.eqb (length k) nl) eqn:E.
    + intros (-> & ch0 & ->) [H|[H|[]]]; inversion H; subst. apply Nat.eqb_eq in E. eexists; repeat split; eauto.
    + intros (_ & ->) [].
  - destruct (Nat.eqb (length k) nl).
    + intros [(_ & ->)|(_ & ->)] [H|[]]; discriminate.
    + intros (_ & ->) [].
  - intros (_ & ->) [H|[]]; discriminate.
  - intros (snap & vis & _ & -> & _) [H|H]; [discriminate | apply reads_only_reads in H as (? & ? & ? & _); discriminate].
Qed.
Lemma rm_remove nl c r ls k x : ret_matches nl c r ls -> In (ARemove k, x) ls ->
  c = CRemove k /\ length k = nl /\ ((x = RDone /\ r = RUnit) \/ (x = RAbsent /\ r = RErr)).
Proof.
  destruct c; cbn; try tauto.
  - destruct (Nat.eqb (length k0) nl).
    + intros (_ & ch0 & ->) [H|[H|[]]]; discriminate.
    + intros (_ & ->) [].
  - destruct (Nat.eqb (length k0) nl) eqn:E.
    + apply Nat.eqb_eq in E. intros [(-> & ->)|(-> & ->)] [H|[]]; inversion H; subst; auto.
    + intros (_ & ->) [].
  - intros (_ & ->) [H|[]]; discriminate.
  - intros (snap & vis & _ & -> & _) [H|H]; [discriminate | apply reads_only_reads in H as (? & ? & ? & _); discriminate].
Qed.
Lemma rm_reset nl c r ls x : ret_matches nl c r ls -> In (AReset, x) ls -> c = CVReset.
Proof.
  destruct c; cbn; try tauto.
  - destruct (Nat.eqb (length k) nl).
    + intros (_ & ch0 & ->) [H|[H|[]]]; discriminate.
    + intros (_ & ->) [].
  - destruct (Nat.eqb (length k) nl).
    + intros [(_ & ->)|(_ & ->)] [H|[]]; discriminate.
    + intros (_ & ->) [].
  - intros (snap & vis & _ & -> & _) [H|H]; [discriminate | apply reads_only_reads in H as (? & ? & ? & _); discriminate].
Qed.

(* ------------------------------------------------------------------ facts about the abstract specification along a log *)
Lemma run_present_get a L k : child_of a k = None -> child_of (arun a L) k <> None -> exists x, In (AGet k, x) L.
Proof.
  revert a; induction L as [|[o r] L IH]; intros a Ha Hp; cbn in *; [congruence|].
  destruct (child_of (fst (aspec a o)) k) eqn:E.
  - assert (o = AGet k).
    { destruct o; try (rewrite aspec_absent_stable in E by (auto; discriminate); discriminate).
      destruct (key_eqb k k0) eqn:Ek; [apply key_eqb_eq in Ek; subst; auto|].
      apply key_eqb_neq in Ek. rewrite aspec_absent_stable in E; [discriminate | auto | congruence]. }
    subst. eauto.
  - destruct (IH _ E Hp) as (x & Hx). eauto.
Qed.
(* no reset and no successful remove of k: the child of k stays *)
Lemma run_child_stable2 a L k c : consistent a L -> child_of a k = Some c ->
  (forall o r, In (o, r) L -> o <> AReset /\ ~ (o = ARemove k /\ r = RDone)) -> child_of (arun a L) k = Some c.
Proof.
  revert a; induction L as [|[o r] L IH]; intros a Hc Ha Hn; cbn [arun]; auto.
  cbn [consistent] in Hc. destruct Hc as [Hr Hc]. destruct (Hn o r (or_introl eq_refl)) as [N1 N2].
  apply IH; auto; [|intros; apply Hn; right; auto].
  destruct o; try (apply aspec_child_stable; auto; unfold kills; intros [H|H]; congruence).
  destruct (key_eqb k k0) eqn:Ek.
  - apply key_eqb_eq in Ek; subst k0. exfalso. apply N2. split; auto. rewrite <- Hr.
    unfold child_of in Ha. cbn. destruct (klookup k (a_map a)); [reflexivity | discriminate].
  - apply key_eqb_neq in Ek. apply aspec_child_stable; auto. unfold kills. intros [H|H]; congruence.
Qed.
Lemma child_of_ainit k : child_of ainit k = None.
Proof. reflexivity. Qed.

Section Tools.
Variables (nl : nat) (tr : list label) (s : vstate).
Hypothesis R : reach nl tr s.
Hypothesis Hopen : forall t, g_open s t = None.
Let cs := map (conv tr) (rev (g_done s)).
Let G := reach_ginv nl tr s R.

(* the completed call a logged operation belongs to *)
Lemma owner_done e : In e (g_lin s) ->
  exists c r ti trr, In (le_tid e, c, r, ti, trr) (g_done s) /\ ti <= le_time e <= trr
                     /\ In (opres e) (lins_in (le_tid e) ti trr (g_lin s)) /\ ret_matches nl c r (lins_in (le_tid e) ti trr (g_lin s))
                     /\ ti < trr /\ nth_error tr ti = Some (LE (ECall (le_tid e) c)) /\ nth_error tr trr = Some (LE (ERet (le_tid e) r)).
Proof.
  intros He. destruct (G_owner tr s G e He) as [(c & ti & Ho & _)|(c & r & ti & trr & Hd & Hle)]; [rewrite Hopen in Ho; discriminate|].
  destruct (G_done tr s G _ _ _ _ _ Hd) as (A & B & C & D & E). rewrite (reach_nl nl tr s R) in C.
  exists c, r, ti, trr. repeat split; auto; try lia.
  apply lins_in_In. exists e. repeat split; auto. unfold winb, mineb. rewrite Nat.eqb_refl.
  destruct Hle as [H1 H2]. apply Nat.leb_le in H1, H2. rewrite H1, H2. auto.
Qed.

(* a completed call and one of its logged operations *)
Lemma entry_of_done t c r ti trr x : In (t, c, r, ti, trr) (g_done s) -> In x (lins_in t ti trr (g_lin s)) ->
  exists e, In e (g_lin s) /\ opres e = x /\ le_tid e = t /\ ti <= le_time e <= trr.
Proof.
  intros Hd Hx. apply lins_in_In in Hx as (e & A & B & C). exists e. repeat split; auto.
  all: unfold winb, mineb in B; repeat (apply andb_true_iff in B as [B ?]).
  - apply Nat.eqb_eq in B; auto.
  - apply Nat.leb_le; auto.
  - apply Nat.leb_le; auto.
Qed.

Lemma in_cs2 c : In c cs <-> exists d, In d (g_done s) /\ c = conv tr d.
Proof. apply (in_cs tr s). Qed.

(* splitting the chronological log at two entries *)
Lemma chron_between e1 e2 : In e1 (g_lin s) -> In e2 (g_lin s) -> le_time e1 < le_time e2 ->
  exists L1 L2 L3, chron s = L1 ++ opres e1 :: L2 ++ opres e2 :: L3
                   /\ forall x, In x L2 -> exists e, In e (g_lin s) /\ opres e = x /\ le_time e1 < le_time e < le_time e2.
Proof.
  intros H1 H2 Hlt. destruct (sorted_split (g_lin s) e1 e2 (G_sorted tr s G) H1 H2 Hlt) as (A & B & C & Elog & HB).
  exists (map opres (rev C)), (map opres (rev B)), (map opres (rev A)). split.
  - unfold chron. rewrite Elog. rewrite rev_app_distr. cbn [rev]. rewrite rev_app_distr. cbn [rev].
    rewrite <- !app_assoc. cbn [app]. rewrite map_app. cbn [map]. rewrite map_app. cbn [map]. reflexivity.
  - intros x Hx. apply in_map_iff in Hx as (e & Ex & He). rewrite <- in_rev in He. exists e. repeat split; auto; try apply HB; auto.
    rewrite Elog. apply in_app_iff. right. right. apply in_app_iff. left; auto.
Qed.
Lemma chron_before e : In e (g_lin s) ->
  exists L1 L3, chron s = L1 ++ opres e :: L3 /\ forall x, In x L1 -> exists e0, In e0 (g_lin s) /\ opres e0 = x /\ le_time e0 < le_time e.
Proof.
  intros He. apply in_split in He as (A & B & Elog).
  destruct (sorted_before A e B ltac:(rewrite <- Elog; apply (G_sorted tr s G))) as (I1 & _ & _).
  exists (map opres (rev B)), (map opres (rev A)). split.
  - unfold chron. rewrite Elog, rev_app_distr. cbn [rev]. rewrite <- app_assoc. cbn [app]. rewrite map_app. reflexivity.
  - intros x Hx. apply in_map_iff in Hx as (e0 & Ex & He0). rewrite <- in_rev in He0. exists e0. repeat split; auto.
    + rewrite Elog. apply in_app_iff. right. right; auto.
    + rewrite Forall_forall in I1. auto.
Qed.

Lemma chron_cons : consistent ainit (chron s).
Proof. apply (chron_consistent nl tr s R). Qed.

(* evpos comparisons *)
Lemma ev_lt_of i j e : nth_error tr i = Some (LE e) -> i < j -> (N.of_nat (evpos tr i) <? N.of_nat (evpos tr j))%N = true.
Proof. intros H1 H2. apply N.ltb_lt. pose proof (evpos_strict tr i j e H1 H2). lia. Qed.
Lemma ev_lt_inv i j e : nth_error tr j = Some (LE e) -> (N.of_nat (evpos tr i) <? N.of_nat (evpos tr j))%N = true -> i < j.
Proof.
  intros H1 H2. apply N.ltb_lt in H2. destruct (Nat.lt_ge_cases i j); auto. pose proof (evpos_mono tr j i ltac:(lia)). lia.
Qed.
Lemma ev_nlt_inv i j e : nth_error tr i = Some (LE e) -> (N.of_nat (evpos tr i) <? N.of_nat (evpos tr j))%N = false -> j <= i.
Proof.
  intros H1 H2. apply N.ltb_ge in H2. destruct (Nat.le_gt_cases j i); auto. pose proof (evpos_strict tr i j e H1 ltac:(lia)). lia.
Qed.

(* k is present just before entry e  =>  some with_label_values(k) call was invoked before e's time *)
Lemma present_has_getter e L1 L3 k : In e (g_lin s) -> chron s = L1 ++ opres e :: L3 ->
  (forall x, In x L1 -> exists e0, In e0 (g_lin s) /\ opres e0 = x /\ le_time e0 < le_time e) ->
  child_of (arun ainit L1) k <> None ->
  exists t d rW ti trr, In (t, CWithInc k d, rW, ti, trr) (g_done s) /\ length k = nl /\ ti < le_time e
                         /\ nth_error tr ti = Some (LE (ECall t (CWithInc k d))).
Proof.
  intros He Ech HL1 Hp. destruct (run_present_get ainit L1 k (child_of_ainit k) Hp) as (x & Hx).
  destruct (HL1 _ Hx) as (e0 & He0 & Eo & Hlt).
  destruct (owner_done e0 He0) as (c & r & ti & trr & Hd & Hw & Hin & Hm & Hti & Hcall & _).
  rewrite Eo in Hin. destruct (rm_get _ _ _ _ _ _ Hm Hin) as (d & ch & -> & Hl & _).
  exists (le_tid e0), d, r, ti, trr. repeat split; auto. lia.
Qed.
End Tools.

Section RemoveOk.
Variables (nl : nat) (tr : list label) (s : vstate).
Hypothesis R : reach nl tr s.
Hypothesis Hopen : forall t, g_open s t = None.
Let cs := map (conv tr) (rev (g_done s)).
Let G := reach_ginv nl tr s R.

Lemma is_get_conv k t d r ti trr : length k = nl -> is_get nl k (conv tr (t, CWithInc k d, r, ti, trr)) = true.
Proof. intros H. unfold is_get; cbn. rewrite skey_eqb_key, key_eqb_refl, H, Nat.eqb_refl. reflexivity. Qed.

Lemma existsb_intro {A} (f : A -> bool) l x : In x l -> f x = true -> existsb f l = true.
Proof. intros. apply existsb_exists. eauto. Qed.

Lemma remove_ok_holds Rc : In Rc cs -> remove_ok nl cs Rc = true.
Proof.
  intros HR. apply (in_cs2 tr s) in HR as ([[[[t c] r] ti] trr] & Hd & ->). unfold remove_ok. cbn [conv c_call c_ret c_ci c_ri].
  destruct c; auto. destruct r; auto.
  - (* Ok *)
    destruct (G_done tr s G _ _ _ _ _ Hd) as (Hti & _ & Hm & Hcall & Hret). rewrite (reach_nl nl tr s R) in Hm. cbn in Hm.
    destruct (Nat.eqb (length k) nl) eqn:El; [|destruct Hm; discriminate]. destruct Hm as [(_ & Hls)|(Hx & _)]; [|discriminate].
    destruct (entry_of_done s t _ _ ti trr (ARemove k, RDone) Hd ltac:(rewrite Hls; left; auto)) as (eR & HeR & Eo & Et & Hw).
    destruct (chron_before nl tr s R eR HeR) as (L1 & L3 & Ech & HL1).
    pose proof (chron_cons nl tr s R) as Hc. rewrite Ech, Eo in Hc. apply consistent_mid in Hc as [Hr _].
    assert (Hp : child_of (arun ainit L1) k <> None).
    { unfold child_of. cbn in Hr. destruct (klookup k (a_map (arun ainit L1))); cbn; [discriminate | discriminate]. }
    rewrite Eo in Ech.
    destruct (present_has_getter nl tr s R Hopen eR L1 L3 k HeR ltac:(rewrite Eo; exact Ech) HL1 Hp) as (tw & d & rW & tiw & trw & HdW & Hl & Hlt & HcW).
    eapply existsb_intro; [apply (in_cs2 tr s); eexists; split; [exact HdW | reflexivity]|].
    rewrite is_get_conv by auto. cbn. eapply ev_lt_of; eauto. lia.
  - (* Err *)
    destruct (Nat.eqb (length k) nl) eqn:El; auto. apply negb_true_iff.
    match goal with |- ?e = false => destruct e eqn:Ex; auto end. exfalso.
    apply existsb_exists in Ex as (w & Hw & Hcond). apply andb_true_iff in Hcond as [Hcond Hnokill]. apply andb_true_iff in Hcond as [Hget Hbefore].
    apply negb_true_iff in Hnokill.
    destruct (G_done tr s G _ _ _ _ _ Hd) as (Hti & _ & Hm & Hcall & Hret). rewrite (reach_nl nl tr s R) in Hm. cbn in Hm. rewrite El in Hm.
    destruct Hm as [(Hx & _)|(_ & Hls)]; [discriminate|].
    destruct (entry_of_done s t _ _ ti trr (ARemove k, RAbsent) Hd ltac:(rewrite Hls; left; auto)) as (eR & HeR & Eo & Et & HwR).
    apply (in_cs2 tr s) in Hw as ([[[[tw cw] rw] tiw] trw] & HdW & ->). cbn [conv c_call c_ret c_ci c_ri] in *.
    unfold is_get in Hget; cbn in Hget. destruct cw; try discriminate. apply andb_true_iff in Hget as [Hk Hl].
    rewrite skey_eqb_key in Hk. apply key_eqb_eq in Hk. subst k0.
    destruct (G_done tr s G _ _ _ _ _ HdW) as (Htiw & _ & HmW & HcallW & HretW). rewrite (reach_nl nl tr s R) in HmW. cbn in HmW. rewrite Hl in HmW.
    destruct HmW as (_ & ch & HlsW).
    destruct (entry_of_done s tw _ _ tiw trw (AGet k, RChild ch) HdW ltac:(rewrite HlsW; left; auto)) as (eG & HeG & EoG & EtG & HwG).
    assert (Htrw : trw < ti) by (eapply ev_lt_inv; eauto).
    destruct (chron_between nl tr s R eG eR HeG HeR ltac:(lia)) as (L1 & L2 & L3 & Ech & HL2).
    pose proof (chron_cons nl tr s R) as Hc. rewrite Ech, EoG, Eo in Hc.
    apply consistent_mid in Hc as [HrG Hc]. apply consistent_mid in Hc as [HrR _].
    destruct (aspec_get_child _ _ _ HrG) as (c0 & Ec0 & Hch & _).
    assert (Hc2 : consistent (fst (aspec (arun ainit L1) (AGet k))) L2).
    { pose proof (chron_cons nl tr s R) as Hc'. rewrite Ech, EoG in Hc'. apply consistent_mid in Hc' as [_ Hc'].
      apply consistent_app in Hc'. tauto. }
    assert (Hstable : child_of (arun (fst (aspec (arun ainit L1) (AGet k))) L2) k = Some c0).
    { apply run_child_stable2; auto. intros o r0 Hin. destruct (HL2 _ Hin) as (e' & He' & Eo' & Ht').
      destruct (owner_done nl tr s R Hopen e' He') as (c' & r' & ti' & tr' & Hd' & Hw' & Hin' & Hm' & Hti' & Hcall' & Hret').
      rewrite Eo' in Hin'.
      assert (Hkill : forall (Hmk : may_kill nl k (conv tr (le_tid e', c', r', ti', tr')) = true), False).
      { intros Hmk.
        assert (Hin0 : In (conv tr (le_tid e', c', r', ti', tr')) cs) by (apply (in_cs2 tr s); eexists; split; [exact Hd' | reflexivity]).
        pose proof (existsb_false _ _ Hnokill _ Hin0) as Hf. cbn beta in Hf. rewrite Hmk in Hf. cbn [andb conv c_ci c_ri] in Hf.
        apply andb_false_iff in Hf as [Hf|Hf].
        - apply negb_false_iff in Hf. apply N.eqb_eq in Hf.
          assert (ti' = ti).
          { destruct (Nat.lt_trichotomy ti' ti) as [Hlt|[->|Hlt]]; auto.
            - pose proof (evpos_strict tr ti' ti _ Hcall' Hlt). lia.
            - pose proof (evpos_strict tr ti ti' _ Hcall Hlt). lia. }
          subst ti'. rewrite Hcall in Hcall'. inversion Hcall' as [[Htid Hcc]]. subst c'. rewrite <- Htid in Hd'.
          destruct (G_disj tr s G _ _ _ _ _ _ _ _ _ Hd Hd') as [E2|[E2|E2]]; try lia.
          inversion E2; subst. unfold may_kill in Hmk; cbn in Hmk. discriminate.
        - unfold SpecC10.between in Hf. cbn [c_ci c_ri] in Hf.
          rewrite (ev_lt_of tr tiw tr' _ HcallW ltac:(lia)), (ev_lt_of tr ti' trr _ Hcall' ltac:(lia)) in Hf. discriminate. }
      split.
      - intros ->. apply Hkill. rewrite (rm_reset _ _ _ _ _ Hm' Hin'). reflexivity.
      - intros [-> ->]. apply Hkill. destruct (rm_remove _ _ _ _ _ _ Hm' Hin') as (-> & Hl' & [(_ & ->)|(Hx & _)]); [|discriminate].
        unfold may_kill; cbn. rewrite skey_eqb_key, key_eqb_refl, Hl', Nat.eqb_refl. reflexivity. }
    assert (Hfind : snd (aspec (arun (fst (aspec (arun ainit L1) (AGet k))) L2) (ARemove k)) = RDone).
    { set (a2 := arun (fst (aspec (arun ainit L1) (AGet k))) L2) in *. unfold child_of in Hstable. cbn [aspec].
      destruct (klookup k (a_map a2)); cbn in Hstable |- *; [reflexivity | discriminate]. }
    rewrite Hfind in HrR. discriminate.
Qed.
End RemoveOk.

(* ------------------------------------------------------------------ sums of distinct powers of two (N) *)
Open Scope N_scope.
Definition sumN (l : list N) : N := fold_right N.add 0 l.
Definition is_pow2 (d : N) : Prop := d = 2 ^ N.log2 d /\ N.log2 d < 63.
Lemma pow2b_is_pow2 d : pow2b d = true -> is_pow2 d.
Proof.
  unfold pow2b, is_pow2. intros H. apply andb_true_iff in H as [H H3]. apply andb_true_iff in H as [H1 H2].
  apply N.eqb_eq in H2. apply N.ltb_lt in H1, H3. split; auto.
  apply N.log2_lt_pow2; auto.
Qed.
Lemma pow2_bit d n : is_pow2 d -> N.testbit d n = (N.log2 d =? n).
Proof. intros [H _]. rewrite H at 1. apply N.pow2_bits_eqb. Qed.
Lemma pow2_log_inj a b : is_pow2 a -> is_pow2 b -> N.log2 a = N.log2 b -> a = b.
Proof. intros [Ha _] [Hb _] E. rewrite Ha, Hb, E. reflexivity. Qed.

Lemma sum_bits xs : Forall is_pow2 xs -> NoDup xs -> forall n, N.testbit (sumN xs) n = existsb (fun x => N.log2 x =? n) xs.
Proof.
  induction xs as [|x xs IH]; intros HF ND n; cbn [sumN fold_right existsb]; [apply N.bits_0|].
  inversion HF as [|? ? Hx HF']; subst. inversion ND as [|? ? Hnx ND']; subst. fold (sumN xs).
  assert (Hland : N.land x (sumN xs) = 0).
  { apply N.bits_inj_iff. intros m. rewrite N.land_spec, N.bits_0, (pow2_bit x m Hx), IH by auto.
    destruct (N.log2 x =? m) eqn:E; auto. apply N.eqb_eq in E. subst m. cbn.
    destruct (existsb (fun x0 => N.log2 x0 =? N.log2 x) xs) eqn:Ex; auto. apply existsb_exists in Ex as (y & Hy & Ey).
    apply N.eqb_eq in Ey. rewrite Forall_forall in HF'. apply (pow2_log_inj y x) in Ey; auto. subst; tauto. }
  rewrite N.add_nocarry_lxor, N.lxor_lor, N.lor_spec, (pow2_bit x n Hx), IH by auto. reflexivity.
Qed.
Lemma sum_lt63 xs : Forall is_pow2 xs -> NoDup xs -> sumN xs < 2 ^ 63.
Proof.
  intros HF ND. destruct (N.lt_ge_cases (sumN xs) (2 ^ 63)) as [|Hge]; auto. exfalso.
  assert (Hnz : sumN xs <> 0) by (intros E; rewrite E in Hge; cbn in Hge; lia).
  pose proof (N.bit_log2 _ Hnz) as Hb. rewrite sum_bits in Hb by auto. apply existsb_exists in Hb as (y & Hy & Ey).
  apply N.eqb_eq in Ey. rewrite Forall_forall in HF. destruct (HF y Hy) as [_ Hlt].
  assert (63 <= N.log2 (sumN xs)) by (apply N.log2_le_pow2; lia). lia.
Qed.
Lemma has_bit_sum xs d : Forall is_pow2 xs -> NoDup xs -> is_pow2 d -> (has_bit (sumN xs) d = true <-> In d xs).
Proof.
  intros HF ND Hd. unfold has_bit. rewrite sum_bits by auto. split.
  - intros H. apply existsb_exists in H as (y & Hy & Ey). apply N.eqb_eq in Ey. rewrite Forall_forall in HF.
    apply (pow2_log_inj y d) in Ey; auto. subst; auto.
  - intros H. apply existsb_exists. exists d. split; auto. apply N.eqb_refl.
Qed.

Definition amounts (c : N) (log : list lent) : list N :=
  flat_map (fun e => match le_op e with AUpd c' d => if c' =? c then [d] else [] | _ => [] end) log.
Lemma upd_sum_amounts c log : upd_sum c log = sumN (amounts c log).
Proof.
  induction log as [|e log IH]; cbn [upd_sum amounts flat_map]; auto. fold (amounts c log). unfold sumN. rewrite fold_right_app. fold (sumN (amounts c log)).
  rewrite IH. unfold upd_amount. destruct (le_op e); cbn; auto. destruct (c0 =? c); cbn; auto.
Qed.
Lemma in_amounts c log d : In d (amounts c log) <-> exists e, In e log /\ le_op e = AUpd c d.
Proof.
  unfold amounts. rewrite in_flat_map. split.
  - intros (e & He & Hd). exists e. split; auto. destruct (le_op e); try (destruct Hd). destruct (c0 =? c) eqn:E; [|destruct Hd].
    apply N.eqb_eq in E. destruct Hd as [->|[]]. subst; auto.
  - intros (e & He & Ho). exists e. split; auto. rewrite Ho, N.eqb_refl. left; auto.
Qed.
Open Scope nat_scope.

Lemma incs_inj cs w w' k d k' : nodupN (incs cs) = true -> In w cs -> In w' cs ->
  c_call w = CWithInc k d -> c_call w' = CWithInc k' d -> w = w'.
Proof.
  induction cs as [|x cs IH]; intros Hn Hw Hw' E E'; [destruct Hw|].
  assert (Hin : forall y ky, In y cs -> c_call y = CWithInc ky d -> In d (incs cs)).
  { intros y ky Hy Ey. unfold incs. apply in_flat_map. exists y. split; auto. rewrite Ey. left; auto. }
  unfold incs in Hn. cbn [flat_map] in Hn. fold (incs cs) in Hn.
  destruct Hw as [->|Hw], Hw' as [->|Hw']; auto.
  - rewrite E in Hn. cbn in Hn. apply andb_true_iff in Hn as [Hn _]. apply negb_true_iff in Hn.
    apply memN_false in Hn. exfalso. apply Hn. eapply Hin; eauto.
  - rewrite E' in Hn. cbn in Hn. apply andb_true_iff in Hn as [Hn _]. apply negb_true_iff in Hn.
    apply memN_false in Hn. exfalso. apply Hn. eapply Hin; eauto.
  - apply IH; auto. destruct (c_call x); cbn in Hn; auto. apply andb_true_iff in Hn as [_ Hn]. auto.
Qed.

Lemma ssorted_nodup (log : list lent) : StronglySorted (fun a b => le_time b < le_time a) log -> NoDup log.
Proof.
  induction 1 as [|a l S IH F]; constructor; auto. intros Hin. rewrite Forall_forall in F. apply F in Hin. lia.
Qed.
Lemma nodup_amounts c0 log : NoDup log ->
  (forall e e' c d c', In e log -> In e' log -> le_op e = AUpd c d -> le_op e' = AUpd c' d -> e = e') -> NoDup (amounts c0 log).
Proof.
  induction log as [|x log IH]; intros ND Hinj; cbn; [constructor|]. inversion ND; subst. fold (amounts c0 log).
  assert (IH' : NoDup (amounts c0 log)) by (apply IH; auto; intros; eapply Hinj; eauto; right; auto).
  destruct (le_op x) eqn:E; cbn; auto. destruct (c =? c0)%N eqn:Ec; cbn; auto. constructor; auto.
  intros Hin. apply in_amounts in Hin as (e' & He' & Ho'). assert (x = e') by (eapply Hinj; eauto; [left; auto | right; auto]). subst; tauto.
Qed.

Lemma nodup_app_r {A} (a b : list A) : NoDup (a ++ b) -> NoDup b.
Proof. induction a as [|x a IH]; cbn; auto. intros H; inversion H; auto. Qed.

Section Values.
Variables (nl : nat) (tr : list label) (s : vstate).
Hypothesis R : reach nl tr s.
Hypothesis Hopen : forall t, g_open s t = None.
Let cs := map (conv tr) (rev (g_done s)).
Let G := reach_ginv nl tr s R.
Hypothesis Hincs : incs_ok cs = true.

Lemma upd_owner e c d : In e (g_lin s) -> le_op e = AUpd c d ->
  exists k r ti trr, In (le_tid e, CWithInc k d, r, ti, trr) (g_done s) /\ ti <= le_time e <= trr /\ length k = nl /\ ti < trr
    /\ lins_in (le_tid e) ti trr (g_lin s) = [(AGet k, RChild c); (AUpd c d, RDone)]
    /\ nth_error tr ti = Some (LE (ECall (le_tid e) (CWithInc k d))) /\ nth_error tr trr = Some (LE (ERet (le_tid e) r)).
Proof.
  intros He Ho. destruct (owner_done nl tr s R Hopen e He) as (c0 & r & ti & trr & Hd & Hw & Hin & Hm & Hti & Hcall & Hret).
  unfold opres in Hin. rewrite Ho in Hin. destruct (rm_upd _ _ _ _ _ _ _ Hm Hin) as (k & -> & Hl & _ & Hls).
  exists k, r, ti, trr. repeat split; auto; lia.
Qed.

Lemma incs_pow2 t k d r ti trr : In (t, CWithInc k d, r, ti, trr) (g_done s) -> is_pow2 d.
Proof.
  intros Hd. unfold incs_ok in Hincs. apply andb_true_iff in Hincs as [Hp _]. rewrite forallb_forall in Hp.
  apply pow2b_is_pow2. apply Hp. unfold incs. apply in_flat_map. exists (conv tr (t, CWithInc k d, r, ti, trr)). split.
  - apply (in_cs2 tr s). eexists; split; [exact Hd | reflexivity].
  - cbn. left; auto.
Qed.

Lemma evpos_inj i j e e' : nth_error tr i = Some (LE e) -> nth_error tr j = Some (LE e') -> evpos tr i = evpos tr j -> i = j.
Proof.
  intros Hi Hj E. destruct (Nat.lt_trichotomy i j) as [H|[H|H]]; auto.
  - pose proof (evpos_strict tr i j _ Hi H). lia.
  - pose proof (evpos_strict tr j i _ Hj H). lia.
Qed.

Lemma upd_inj e e' c d c' : In e (g_lin s) -> In e' (g_lin s) -> le_op e = AUpd c d -> le_op e' = AUpd c' d -> e = e'.
Proof.
  intros He He' Ho Ho'.
  destruct (upd_owner e c d He Ho) as (k & r & ti & trr & Hd & Hw & Hl & Hti & Hls & Hcall & Hret).
  destruct (upd_owner e' c' d He' Ho') as (k' & r' & ti' & trr' & Hd' & Hw' & Hl' & Hti' & Hls' & Hcall' & Hret').
  assert (Eq : conv tr (le_tid e, CWithInc k d, r, ti, trr) = conv tr (le_tid e', CWithInc k' d, r', ti', trr')).
  { unfold incs_ok in Hincs. apply andb_true_iff in Hincs as [_ Hn].
    apply (incs_inj cs _ _ k d k' Hn); [| | reflexivity | reflexivity].
    - apply (in_cs2 tr s); eexists; split; [exact Hd | reflexivity].
    - apply (in_cs2 tr s); eexists; split; [exact Hd' | reflexivity]. }
  inversion Eq as [[Et Ek Er Eci Eri]]. apply Nat2N.inj in Eci, Eri.
  assert (ti = ti') by (eapply evpos_inj; eauto). assert (trr = trr') by (eapply evpos_inj; eauto). subst ti' trr' k' r'. rewrite <- Et in *.
  rewrite Hls in Hls'. inversion Hls'; subst c'.
  (* both are the second entry of the window *)
  unfold lins_in in Hls. destruct (rev (filter (winb (le_tid e) ti trr) (g_lin s))) as [|e1 [|e2 [|e3 rest]]] eqn:Ef; try discriminate.
  inversion Hls as [[Hx1 Hx2]].
  assert (Hmem : forall x, In x (g_lin s) -> le_tid x = le_tid e -> ti <= le_time x <= trr -> x = e1 \/ x = e2).
  { intros x Hx Htx Hwx. assert (Hin : In x (rev (filter (winb (le_tid e) ti trr) (g_lin s)))).
    { rewrite <- in_rev. apply filter_In. split; auto. unfold winb, mineb. rewrite Htx, Nat.eqb_refl.
      destruct Hwx as [A B]. apply Nat.leb_le in A, B. rewrite A, B. auto. }
    rewrite Ef in Hin. destruct Hin as [->|[->|[]]]; auto. }
  destruct (Hmem e He eq_refl Hw) as [-> | ->]; [unfold opres in Hx1; rewrite Ho in Hx1; discriminate|].
  destruct (Hmem e' He' (eq_sym Et) Hw') as [-> | ->]; [unfold opres in Hx1; rewrite Ho' in Hx1; discriminate | reflexivity].
Qed.

Lemma amounts_good c log : incl log (g_lin s) -> NoDup log -> Forall is_pow2 (amounts c log) /\ NoDup (amounts c log).
Proof.
  intros Hi ND. split.
  - apply Forall_forall. intros d Hd. apply in_amounts in Hd as (e & He & Ho).
    destruct (upd_owner e c d (Hi e He) Ho) as (k & r & ti & trr & Hdn & _). eapply incs_pow2; eauto.
  - apply nodup_amounts; auto. intros e e' c1 d c2 He He' Ho Ho'. eapply upd_inj; eauto.
Qed.

(* the value a collection read for child c, decoded *)
Lemma read_value_bits newer tm t c v older d : g_lin s = newer ++ (tm, t, ARead c, RValue v) :: older -> is_pow2 d ->
  (v < 2 ^ 63)%N /\ (has_bit v d = true <-> exists e, In e older /\ le_op e = AUpd c d).
Proof.
  intros Elog Hd. pose proof (no_lost_update nl tr s R newer tm t c v older Elog) as Hv.
  assert (ND : NoDup (g_lin s)) by (apply ssorted_nodup, (G_sorted tr s G)).
  assert (Hincl : incl older (g_lin s)) by (intros x Hx; rewrite Elog; apply in_app_iff; right; right; auto).
  assert (NDo : NoDup older) by (rewrite Elog in ND; apply nodup_app_r in ND; inversion ND; auto).
  destruct (amounts_good c older Hincl NDo) as [HF HN].
  rewrite upd_sum_amounts in Hv. pose proof (sum_lt63 _ HF HN) as Hlt.
  assert (Hv' : v = sumN (amounts c older)).
  { rewrite Hv. unfold wrap64. apply N.mod_small. unfold two64. eapply N.lt_trans; [exact Hlt|]. reflexivity. }
  split; [rewrite Hv'; auto|]. rewrite Hv', has_bit_sum by auto. apply in_amounts.
Qed.
End Values.

Section NoLost.
Variables (nl : nat) (tr : list label) (s : vstate).
Hypothesis R : reach nl tr s.
Hypothesis Hopen : forall t, g_open s t = None.
Let cs := map (conv tr) (rev (g_done s)).
Let G := reach_ginv nl tr s R.
Hypothesis Hincs : incs_ok cs = true.

(* from a get-or-create of k to a later entry with no reset / successful remove of k in between: the child stays *)
Lemma child_stable eG e2 k ch : In eG (g_lin s) -> In e2 (g_lin s) -> opres eG = (AGet k, RChild ch) -> le_time eG < le_time e2 ->
  (forall e' c' r' ti' tr', In e' (g_lin s) -> le_time eG < le_time e' < le_time e2 -> In (le_tid e', c', r', ti', tr') (g_done s) ->
        ti' <= le_time e' <= tr' -> may_kill nl k (conv tr (le_tid e', c', r', ti', tr')) = false) ->
  exists L1 L3, chron s = L1 ++ opres e2 :: L3 /\ child_of (arun ainit L1) k = Some ch.
Proof.
  intros HeG He2 EoG Hlt Hnk.
  destruct (chron_between nl tr s R eG e2 HeG He2 Hlt) as (L1 & L2 & L3 & Ech & HL2).
  exists (L1 ++ opres eG :: L2), L3. split; [rewrite Ech, <- app_assoc; reflexivity|].
  pose proof (chron_cons nl tr s R) as Hc. rewrite Ech, EoG in Hc. apply consistent_mid in Hc as [HrG Hc].
  destruct (aspec_get_child _ _ _ HrG) as (c0 & Ec0 & Hch & _). inversion Ec0; subst c0.
  apply consistent_app in Hc as [Hc2 _]. rewrite arun_app, EoG. cbn [arun].
  apply run_child_stable2; auto. intros o r0 Hin. destruct (HL2 _ Hin) as (e' & He' & Eo' & Ht').
  destruct (owner_done nl tr s R Hopen e' He') as (c' & r' & ti' & tr' & Hd' & Hw' & Hin' & Hm' & _).
  rewrite Eo' in Hin'. specialize (Hnk e' c' r' ti' tr' He' Ht' Hd' Hw'). split.
  - intros ->. rewrite (rm_reset _ _ _ _ _ Hm' Hin') in Hnk. discriminate.
  - intros [-> ->]. destruct (rm_remove _ _ _ _ _ _ Hm' Hin') as (-> & Hl' & [(_ & ->)|(Hx & _)]); [|discriminate].
    unfold may_kill in Hnk; cbn in Hnk. rewrite skey_eqb_key, key_eqb_refl, Hl', Nat.eqb_refl in Hnk. discriminate.
Qed.

Lemma child_in_keys a k ch : child_of a k = Some ch -> In (k, ch) (a_keys (a_map a)).
Proof.
  unfold child_of. destruct (klookup k (a_map a)) as [[c v]|] eqn:E; cbn; [|discriminate]. intros H; inversion H; subst.
  apply klookup_In in E. unfold a_keys. apply in_map_iff. exists (k, (ch, v)). auto.
Qed.
Lemma coll_get_In k v l : NoDup (map fst l) -> In (k, v) l -> coll_get k l = Some v.
Proof.
  induction l as [|[k1 v1] l IH]; cbn; [tauto|]. intros ND [H|H]; inversion ND; subst.
  - inversion H; subst. rewrite skey_eqb_key, key_eqb_refl. reflexivity.
  - rewrite skey_eqb_key. destruct (key_eqb k k1) eqn:E; auto. apply key_eqb_eq in E; subst. exfalso. apply H2. apply in_map_iff. exists (k1, v); auto.
Qed.

Definition nolost_clause (nl : nat) (cs : list crec) (C : crec) (l : list (skey * N)) : bool :=
  forallb (fun w => match c_call w with
                    | CWithInc k d =>
                        if Nat.eqb (length k) nl && (c_ri w <? c_ci C)%N && negb (existsb (fun r => may_kill nl k r && SpecC10.between w r C) cs)
                        then match coll_get k l with Some v => has_bit v d | None => false end
                        else true
                    | _ => true end) cs.

(* a collection's record: its key-snapshot entry, and one read entry per shown pair *)
Lemma collect_entries t l ti trr : In (t, CVCollect, RColl l, ti, trr) (g_done s) ->
  exists snap vis eC, l = vis_result vis /\ Permutation (vis_keys vis) snap /\ In eC (g_lin s) /\ opres eC = (ACollect, RKeys snap)
    /\ ti <= le_time eC <= trr
    /\ forall k c v, In (k, c, v) vis -> exists eRd, In eRd (g_lin s) /\ opres eRd = (ARead c, RValue v) /\ ti <= le_time eRd <= trr.
Proof.
  intros Hd. destruct (G_done tr s G _ _ _ _ _ Hd) as (_ & _ & Hm & _). cbn in Hm. destruct Hm as (snap & vis & Hl & Hls & Hp).
  inversion Hl; subst l.
  destruct (entry_of_done s t _ _ ti trr (ACollect, RKeys snap) Hd ltac:(rewrite Hls; left; auto)) as (eC & A & B & _ & D).
  exists snap, vis, eC. repeat split; auto; try lia.
  intros k c v Hin. destruct (entry_of_done s t _ _ ti trr (ARead c, RValue v) Hd) as (eRd & A' & B' & _ & D').
  { rewrite Hls. right. unfold reads. apply in_map_iff. exists (k, c, v). auto. }
  exists eRd. auto.
Qed.

Lemma nolost_clause_holds C l : In C cs -> c_call C = CVCollect -> c_ret C = RColl l -> nolost_clause nl cs C l = true.
Proof.
  intros HC Hcall Hret.
  apply (in_cs2 tr s) in HC as ([[[[t2 c2] r2] ti2] tr2] & HdC & ->). cbn [conv c_call c_ret c_ci c_ri] in *. subst c2 r2.
  unfold nolost_clause. apply forallb_forall. intros w Hw.
  apply (in_cs2 tr s) in Hw as ([[[[tw cw] rw] tiw] trw] & HdW & ->). cbn [conv c_call c_ret c_ci c_ri].
  destruct cw; auto.
  match goal with |- (if ?c then _ else _) = true => destruct c eqn:Econd; auto end.
  apply andb_true_iff in Econd as [Econd Hnokill]. apply andb_true_iff in Econd as [Hl Hbefore]. apply negb_true_iff in Hnokill.
  apply Nat.eqb_eq in Hl.
  destruct (G_done tr s G _ _ _ _ _ HdW) as (Htiw & _ & HmW & HcallW & HretW). rewrite (reach_nl nl tr s R) in HmW. cbn in HmW.
  rewrite Hl, Nat.eqb_refl in HmW. destruct HmW as (_ & ch & HlsW).
  destruct (entry_of_done s tw _ _ tiw trw (AGet k, RChild ch) HdW ltac:(rewrite HlsW; left; auto)) as (eG & HeG & EoG & EtG & HwG).
  destruct (entry_of_done s tw _ _ tiw trw (AUpd ch d, RDone) HdW ltac:(rewrite HlsW; right; left; auto)) as (eU & HeU & EoU & EtU & HwU).
  destruct (G_done tr s G _ _ _ _ _ HdC) as (Hti2 & _ & _ & HcallC & HretC).
  assert (Htrw : trw < ti2) by (eapply ev_lt_inv; eauto).
  destruct (collect_entries t2 l ti2 tr2 HdC) as (snap & vis & eC & El & Hperm & HeC & EoC & HwC & Hreads).
  (* the child of k is still ch when the collection takes its key snapshot *)
  destruct (child_stable eG eC k ch HeG HeC EoG ltac:(lia)) as (L1 & L3 & Ech & Hch).
  { intros e' c' r' ti' tr' He' Ht' Hd' Hw'.
    assert (Hin0 : In (conv tr (le_tid e', c', r', ti', tr')) cs) by (apply (in_cs2 tr s); eexists; split; [exact Hd' | reflexivity]).
    pose proof (existsb_false _ _ Hnokill _ Hin0) as Hf. cbn beta in Hf.
    destruct (may_kill nl k (conv tr (le_tid e', c', r', ti', tr'))); auto. cbn [andb] in Hf.
    destruct (G_done tr s G _ _ _ _ _ Hd') as (_ & _ & _ & Hcall' & _).
    unfold SpecC10.between in Hf. cbn [conv c_ci c_ri] in Hf.
    rewrite (ev_lt_of tr tiw tr' _ HcallW ltac:(lia)), (ev_lt_of tr ti' tr2 _ Hcall' ltac:(lia)) in Hf. discriminate. }
  pose proof (chron_cons nl tr s R) as Hc. rewrite Ech, EoC in Hc. apply consistent_mid in Hc as [HrC _]. cbn [aspec snd] in HrC.
  inversion HrC as [Hsnap].
  assert (Hin_snap : In (k, ch) snap) by (rewrite <- Hsnap; apply child_in_keys; auto).
  apply Permutation_sym in Hperm. apply (Permutation_in _ Hperm) in Hin_snap.
  unfold vis_keys in Hin_snap. apply in_map_iff in Hin_snap as ([[k0 c0] v] & Ekc & Hvis). cbn in Ekc. inversion Ekc; subst k0 c0.
  destruct (Hreads k ch v Hvis) as (eRd & HeRd & EoRd & HwRd).
  assert (Hkv : In (k, v) l) by (rewrite El; unfold vis_result; apply in_map_iff; exists (k, ch, v); auto).
  rewrite (coll_get_In k v l); [| eapply (returned_collection_nodup nl tr s R); eauto | auto].
  (* decode the value *)
  destruct eRd as [[[tm t0] o0] r0]. unfold opres in EoRd; cbn in EoRd. inversion EoRd; subst o0 r0.
  apply in_split in HeRd as (newer & older & Elog).
  destruct (read_value_bits nl tr s R Hopen Hincs newer tm t0 ch v older d Elog (incs_pow2 tr s Hincs _ _ _ _ _ _ HdW)) as [_ Hbits].
  apply Hbits. exists eU. split; [|unfold opres in EoU; inversion EoU; auto].
  destruct (sorted_before newer (tm, t0, ARead ch, RValue v) older ltac:(rewrite <- Elog; apply (G_sorted tr s G))) as (_ & I2 & _).
  rewrite Elog in HeU. apply in_app_iff in HeU as [HeU|[HeU|HeU]]; auto.
  - rewrite Forall_forall in I2. apply I2 in HeU. cbn in HeU, HwRd. lia.
  - subst eU. cbn in HwU, HwRd. lia.
Qed.
End NoLost.

(* ------------------------------------------------------------------ the assembled statement (still partial) *)
Definition proved_clauses2 (nl : nat) (es : list event) : bool :=
  let (cs, wf) := extract es in
  proved_clauses nl es
  && forallb (remove_ok nl cs) cs
  && (if incs_ok cs
      then forallb (fun C => match c_call C, c_ret C with CVCollect, RColl l => nolost_clause nl cs C l | _, _ => true end) cs
      else true).

Theorem relaxed_spec_of_validated_partial2 nl nth es :
  vcheck nl nth es = true -> in_domain nth es = true -> proved_clauses2 nl es = true.
Proof.
  intros Hv Hd. pose proof (relaxed_spec_of_validated_partial nl nth es Hv Hd) as H1.
  destruct (extract_of_validated nl nth es Hv Hd) as (tr & s & R & Hvis & Hopen & Hex).
  unfold proved_clauses2. rewrite Hex, H1. cbn [andb].
  apply andb_true_iff. split.
  - apply forallb_forall. intros Rc HR. apply (remove_ok_holds nl tr s R Hopen); auto.
  - destruct (incs_ok (map (conv tr) (rev (g_done s)))) eqn:Hi; auto.
    apply forallb_forall. intros C HC. destruct (c_call C) eqn:E1; auto. destruct (c_ret C) eqn:E2; auto.
    eapply nolost_clause_holds; eauto.
Qed.

(* these too are conjuncts of the spec *)
Lemma relaxed_spec_implies_proved_clauses2 nl es : spec_c10_relaxed nl es = true -> incs_ok (fst (extract es)) = true -> proved_clauses2 nl es = true.
Proof.
  intros H Hi. pose proof (relaxed_spec_implies_proved_clauses nl es H Hi) as H1.
  unfold proved_clauses2. unfold spec_c10_relaxed, base_ok, pointwise in H. destruct (extract es) as [cs wf] eqn:Ex. cbn [fst] in Hi. rewrite Hi in H |- *.
  rewrite H1. cbn [andb].
  apply andb_true_iff in H as [H _]. apply andb_true_iff in H as [_ Hp]. apply andb_true_iff in Hp as [Hp Hrm]. apply andb_true_iff in Hp as [_ Hco].
  rewrite Hrm. cbn [andb]. apply forallb_forall. intros C HC. rewrite forallb_forall in Hco. specialize (Hco C HC).
  destruct (c_call C) eqn:E1; auto. destruct (c_ret C) eqn:E2; auto.
  unfold coll_ok in Hco. unfold nolost_clause. repeat (apply andb_true_iff in Hco as [Hco ?]). assumption.
Qed.
