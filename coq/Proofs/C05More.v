(* C05, statements at the level of the public API calls (World.step), derived from C05Facts:
   - two positional requests anywhere in a history without removals return the same child
     handle exactly when their tuples are equal (up to collisions of the 64-bit hash);
   - a map request does not depend on the order in which its entries are supplied;
   - what a request for a tuple that has no child yet creates: labels and start value;
   - a request with the wrong number of values returns Err and appends a dead slot only. *)
Require Import PV.Base.Prelude PV.Base.Utf8 PV.Base.Fnv PV.Base.F64 PV.Base.StrFacts PV.Base.SortFacts PV.Base.Utf8Facts.
Require Import PV.Model.Proto PV.Model.Desc PV.Model.Value PV.Model.Hist PV.Model.Vec PV.Model.Registry PV.Model.World.
Require Import PV.Proofs.DescFacts PV.Proofs.C05Facts.
From Coq Require Import Permutation.
Open Scope N_scope.

(* ================= 1. the map form in any key order ================= *)
Lemma amap_of_acc {V} (kvs : list (str * V)) : forall m, NoDup (map fst (m ++ kvs)) ->
  fold_left (fun m kv => ainsert (fst kv) (snd kv) m) kvs m = m ++ kvs.
Proof.
  induction kvs as [|[k v] kvs IH]; intros m N; cbn [fold_left]; [rewrite app_nil_r; reflexivity|].
  cbn [fst snd]. unfold ainsert.
  assert (E : alookup k m = None).
  { apply alookup_None. rewrite map_app in N. cbn [map fst] in N. apply NoDup_remove_2 in N.
    intros Hin. apply N. apply in_or_app. left. exact Hin. }
  rewrite E. rewrite IH; rewrite <- app_assoc; cbn [app]; auto.
Qed.
Lemma amap_of_nodup_id {V} (kvs : list (str * V)) : NoDup (map fst kvs) -> amap_of kvs = kvs.
Proof. intros N. unfold amap_of. rewrite amap_of_acc; auto. Qed.

(* a map request with pairwise distinct keys is the same call whatever the order of its entries *)
Theorem with_map_key_order w s kvs kvs' : NoDup (map fst kvs) -> Permutation kvs kvs' ->
  step w (OpWithMap s kvs) = step w (OpWithMap s kvs').
Proof.
  intros N P.
  assert (N' : NoDup (map fst kvs')) by (eapply Permutation_NoDup; [apply Permutation_map; exact P|exact N]).
  cbn [step]. rewrite (amap_of_nodup_id kvs N), (amap_of_nodup_id kvs' N').
  destruct (slot w s); try reflexivity. destruct (nth_error (w_vec w) v) as [vc|]; try reflexivity.
  rewrite (hash_labels_perm (v_desc vc) kvs kvs' N P). reflexivity.
Qed.

(* ================= 2. requests as steps of a history ================= *)
Lemma step_with_ok_inv w s t w1 : step w (OpWith s t) = (w1, ORes (Ok tt)) ->
  exists vi v h w1' hd, slot w s = HVec vi /\ nth_error (w_vec w) vi = Some v
    /\ hash_label_values (v_desc v) t = Ok h /\ vec_get_or_create w vi h t = Ok (w1', hd) /\ w1 = push_slot w1' hd.
Proof.
  cbn [step]. destruct (slot w s) as [| | |vi| | | | | | | | |]; try (intros H; inversion H; fail).
  destruct (nth_error (w_vec w) vi) as [v|] eqn:Hv; [|intros H; inversion H].
  destruct (hash_label_values (v_desc v) t) as [h|e] eqn:Hh; [|intros H; inversion H].
  destruct (vec_get_or_create w vi h t) as [[w1' hd]|e] eqn:Hg; intros H; inversion H.
  exists vi, v, h, w1', hd. auto.
Qed.

(* the vectors and heaps do not depend on the table of handles *)
Lemma world_ok_slots w sl : world_ok (set_slots w sl) <-> world_ok w.
Proof. unfold world_ok, vec_ok. cbn [w_vec set_slots]. split; intros H; exact H. Qed.

Lemma get_or_create_set_slots w vi h t sl :
  vec_get_or_create (set_slots w sl) vi h t =
  match vec_get_or_create w vi h t with Ok (w', hd) => Ok (set_slots w' sl, hd) | Err e => Err e end.
Proof.
  unfold vec_get_or_create. cbn [w_vec set_slots]. destruct (nth_error (w_vec w) vi) as [v|]; [|reflexivity].
  destruct (nlookup h (v_children v)); [reflexivity|].
  unfold build_child. destruct (v_kind v).
  - destruct (value_new _ _ _ _); reflexivity.
  - destruct (hcore_new _ _); reflexivity.
Qed.
Lemma get_or_create_slots_same w vi h t w' hd : vec_get_or_create w vi h t = Ok (w', hd) -> w_slots w' = w_slots w.
Proof. intros H. apply get_or_create_frame in H as [E _]. exact E. Qed.
Lemma set_slots_id w : set_slots w (w_slots w) = w.
Proof. destruct w; reflexivity. Qed.

Lemma slot_push_new w hd : slot (push_slot w hd) (length (w_slots w)) = hd.
Proof.
  unfold slot, push_slot. cbn [w_slots set_slots]. rewrite app_nth2; [|lia]. rewrite Nat.sub_diag. reflexivity.
Qed.

Lemma slot_push_new' w W hd : w_slots W = w_slots w -> slot (push_slot W hd) (length (w_slots w)) = hd.
Proof. intros E. rewrite <- E. apply slot_push_new. Qed.

(* Two successful positional requests on (clones of) one vector, with any operations that do not remove
   children in between, return the same child handle exactly when the tuples are equal - provided the two
   hashed byte strings do not collide under FNV-1a-64. *)
Theorem with_same_child_iff w s t1 w1 mid s' t2 w3 vi :
  world_ok w -> slot w s = HVec vi -> step w (OpWith s t1) = (w1, ORes (Ok tt)) ->
  forallb keeps mid = true ->
  slot (run_world w1 mid) s' = HVec vi -> step (run_world w1 mid) (OpWith s' t2) = (w3, ORes (Ok tt)) ->
  wf_strs t1 -> wf_strs t2 ->
  fnv_injective_on [label_values_preimage t1; label_values_preimage t2] ->
  (slot w1 (length (w_slots w)) = slot w3 (length (w_slots (run_world w1 mid))) <-> t1 = t2).
Proof.
  intros OK Hs S1 K Hs' S2 W1 W2 Inj.
  apply step_with_ok_inv in S1 as (vi1 & v & h1 & w1' & hd1 & Hs1 & Hv & H1 & G1 & ->).
  assert (vi1 = vi) by congruence. subst vi1.
  apply step_with_ok_inv in S2 as (vi2 & v2 & h2 & w3' & hd2 & Hs2 & Hv2 & H2 & G2 & ->).
  assert (vi2 = vi) by congruence. subst vi2.
  pose proof (get_or_create_slots_same _ _ _ _ _ _ G1) as E1.
  pose proof (get_or_create_slots_same _ _ _ _ _ _ G2) as E2.
  rewrite <- E2, slot_push_new. rewrite <- E1, slot_push_new.
  (* move the push of the first handle before the first request *)
  set (wp := set_slots w (w_slots w ++ [hd1])).
  assert (OKp : world_ok wp) by (apply world_ok_slots; exact OK).
  assert (G1p : vec_get_or_create wp vi h1 t1 = Ok (push_slot w1' hd1, hd1)).
  { unfold wp. rewrite get_or_create_set_slots, G1. unfold push_slot. rewrite E1. reflexivity. }
  assert (Hvp : nth_error (w_vec wp) vi = Some v) by exact Hv.
  (* the declared names seen by the second request are those of the first *)
  assert (Ed : v_desc v2 = v_desc v).
  { destruct (get_or_create_post _ _ _ _ _ _ OKp G1p) as (OK1 & v0 & v1 & c1 & Hv0 & Hv1 & X1 & _).
    assert (v0 = v) by congruence. subst v0.
    destruct (run_extends mid _ vi v1 K Hv1) as (v2' & Hv2' & X2 & _).
    assert (v2' = v2) by congruence. subst v2'.
    destruct X1 as (D1 & _). destruct X2 as (D2 & _). congruence. }
  rewrite Ed in H2.
  exact (same_child_iff wp vi v t1 t2 h1 h2 (push_slot w1' hd1) hd1 mid w3' hd2 OKp Hvp H1 G1p K H2 G2 W1 W2 Inj).
Qed.

(* ================= 3. what a request for a new tuple creates ================= *)
Lemma nth_error_snoc {A} (l : list A) x : nth_error (l ++ [x]) (length l) = Some x.
Proof. rewrite nth_error_app2; [|lia]. rewrite Nat.sub_diag. reflexivity. Qed.

(* counter / gauge vectors: the new child carries exactly (declared names x requested values) ++ constant
   labels, sorted by name, and the start value zero; nothing else changes *)
Theorem with_fresh_child_value w s vi v t tk nk h :
  world_ok w -> slot w s = HVec vi -> nth_error (w_vec w) vi = Some v -> v_kind v = VKValue tk nk ->
  hash_label_values (v_desc v) t = Ok h -> nlookup h (v_children v) = None ->
  exists w', step w (OpWith s t) = (w', ORes (Ok tt))
    /\ slot w' (length (w_slots w)) = HValue (length (w_v w))
    /\ w_v w' = w_v w ++ [mkVCore (v_desc v) tk (num_zero nk) (child_labels (v_desc v) t)]
    /\ w_h w' = w_h w /\ w_reg w' = w_reg w
    /\ w_vec w' = list_set (w_vec w) vi (vec_set_children v (v_children v ++ [(h, length (w_v w))])).
Proof.
  intros OK Hs Hv K H Hl. pose proof (hash_label_values_inv _ _ _ H) as [L _].
  destruct (Forall_nth_error _ _ _ _ OK Hv) as (C & _).
  cbn [step]. rewrite Hs, Hv, H. unfold vec_get_or_create. rewrite Hv, Hl.
  rewrite (build_child_value_ok w v t tk nk K C L). eexists. split; [reflexivity|].
  split; [apply slot_push_new'; reflexivity|]. cbn. auto.
Qed.
(* histogram vectors: same labels, an empty histogram (both shards zero) over the validated bounds *)
Theorem with_fresh_child_hist w s vi v t bs0 bs h :
  world_ok w -> slot w s = HVec vi -> nth_error (w_vec w) vi = Some v -> v_kind v = VKHist bs0 ->
  check_and_adjust_buckets bs0 = Some bs ->
  hash_label_values (v_desc v) t = Ok h -> nlookup h (v_children v) = None ->
  exists w', step w (OpWith s t) = (w', ORes (Ok tt))
    /\ slot w' (length (w_slots w)) = HHist (length (w_h w))
    /\ w_h w' = w_h w ++ [fresh_hcore (v_desc v) (child_labels (v_desc v) t) bs]
    /\ w_v w' = w_v w /\ w_reg w' = w_reg w
    /\ w_vec w' = list_set (w_vec w) vi (vec_set_children v (v_children v ++ [(h, length (w_h w))])).
Proof.
  intros OK Hs Hv K B H Hl. pose proof (hash_label_values_inv _ _ _ H) as [L _].
  destruct (Forall_nth_error _ _ _ _ OK Hv) as (C & _).
  cbn [step]. rewrite Hs, Hv, H. unfold vec_get_or_create. rewrite Hv, Hl.
  rewrite (build_child_hist_ok w v t bs0 bs K C L B). eexists. split; [reflexivity|].
  split; [apply slot_push_new'; reflexivity|]. cbn. auto.
Qed.
(* a request for a tuple whose key is present returns the registered child and changes nothing else *)
Theorem with_existing_child w s vi v t h c :
  slot w s = HVec vi -> nth_error (w_vec w) vi = Some v ->
  hash_label_values (v_desc v) t = Ok h -> nlookup h (v_children v) = Some c ->
  step w (OpWith s t) = (push_slot w (child_handle v c), ORes (Ok tt)).
Proof.
  intros Hs Hv H Hl. cbn [step]. rewrite Hs, Hv, H. rewrite (get_or_create_hit w vi v h t c Hv Hl). reflexivity.
Qed.
(* the labels of a child, spelled out *)
Theorem child_labels_exact d t :
  Permutation (child_labels d t) (declared_pairs d t ++ d_const_pairs d) /\ lp_sorted (child_labels d t).
Proof. split; [apply child_labels_perm|apply child_labels_sorted]. Qed.

(* ================= 4. erroneous requests ================= *)
Theorem with_wrong_cardinality w s vi v vals : slot w s = HVec vi -> nth_error (w_vec w) vi = Some v ->
  length vals <> length (d_vars (v_desc v)) ->
  step w (OpWith s vals) = (push_slot w HDead, ORes (Err (ECard (lenN (d_vars (v_desc v))) (lenN vals)))).
Proof. intros Hs Hv L. cbn [step]. rewrite Hs, Hv. rewrite hash_label_values_err; auto. Qed.
Theorem with_map_wrong_cardinality w s vi v kvs : slot w s = HVec vi -> nth_error (w_vec w) vi = Some v ->
  length (amap_of kvs) <> length (d_vars (v_desc v)) ->
  step w (OpWithMap s kvs) = (push_slot w HDead, ORes (Err (ECard (lenN (d_vars (v_desc v))) (lenN (amap_of kvs))))).
Proof. intros Hs Hv L. cbn [step]. rewrite Hs, Hv. rewrite hash_labels_card; auto. Qed.
Theorem with_map_wrong_names w s vi v kvs : slot w s = HVec vi -> nth_error (w_vec w) vi = Some v ->
  length (amap_of kvs) = length (d_vars (v_desc v)) ->
  (exists n, In n (d_vars (v_desc v)) /\ ~ In n (map fst (amap_of kvs))) ->
  step w (OpWithMap s kvs) = (push_slot w HDead, ORes (Err EMsg)).
Proof. intros Hs Hv L M. cbn [step]. rewrite Hs, Hv. rewrite hash_labels_missing; auto. Qed.
(* and these are the only ways for a request on a vector with valid buckets to fail *)
Theorem with_ok_iff w s vi v vals : world_ok w -> slot w s = HVec vi -> nth_error (w_vec w) vi = Some v -> good_buckets v ->
  (snd (step w (OpWith s vals)) = ORes (Ok tt) <-> length vals = length (d_vars (v_desc v))).
Proof.
  intros OK Hs Hv G. rewrite (with_result w s vi v vals OK Hs Hv G). split.
  - intros H. destruct (Nat.eq_dec (length vals) (length (d_vars (v_desc v)))) as [E|E]; auto.
    rewrite hash_label_values_err in H; auto. discriminate.
  - intros E. rewrite hash_label_values_ok; auto.
Qed.
Theorem with_map_ok_iff w s vi v kvs : world_ok w -> slot w s = HVec vi -> nth_error (w_vec w) vi = Some v -> good_buckets v ->
  NoDup (d_vars (v_desc v)) ->
  (snd (step w (OpWithMap s kvs)) = ORes (Ok tt) <-> Permutation (map fst (amap_of kvs)) (d_vars (v_desc v))).
Proof.
  intros OK Hs Hv G Nd. rewrite (with_map_result w s vi v kvs OK Hs Hv G).
  rewrite <- (hash_labels_ok_iff (v_desc v) (amap_of kvs) Nd (amap_of_nodup kvs)). split.
  - destruct (hash_labels (v_desc v) (amap_of kvs)) as [r|e]; [eauto|discriminate].
  - intros [r ->]. reflexivity.
Qed.
