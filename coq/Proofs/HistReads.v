(* get_sample_count / get_sample_sum, the call window of a collection, and the orderings checked at run time.
   - SInv: bookkeeping of the collect lock while it is held by get_sample_sum (the relational model only knows
     collectors); while it is held no collector is inside proto, so the hot shard index read first is still the
     hot shard index when the sum is read;
   - the value get_sample_count loads is the number of observations claimed so far; the value get_sample_sum loads
     is the sum applied so far and, when no observe / flush is in flight, exactly the sum of all observations;
   - the l0 / l1 bounds of a cut are the numbers of tickets at the collection's call marker and return marker;
   - an accepted publish event carries a release ordering, an accepted exit of the wait loop an acquire ordering. *)
Require Import PV.Base.Prelude PV.Base.F64 PV.Model.Conc PV.Model.HistConc PV.Model.HistExec.
Require Import PV.Proofs.HistConcLemmas PV.Proofs.HistConcInv PV.Proofs.HistConcProof PV.Proofs.HistConcOwn.
Require Import PV.Proofs.HistExecSound PV.Proofs.HistExecInv PV.Proofs.HistConcThms.
From Coq Require Import ZArith Lia Bool Arith.
Open Scope Z_scope.

Section R.
Variable bounds : list Z.
Notation B := (length bounds).
Notation hexec := (hexec bounds).
Notation Inv := (Inv B).

Definition sumlocked (a : aux) : bool := match a with ASSum true _ _ false => true | _ => false end.

Record SInv (x : xst) : Prop := {
  S_holder : forall t, slock x = Some t -> sumlocked (ax x t) = true;
  S_held : forall t, sumlocked (ax x t) = true -> slock x = Some t;
  S_excl : forall t, slock x = Some t -> lock (base x) = None;
  S_hot : forall t h v, ax x t = ASSum true (Some h) v false -> h = hot (base x)
}.

Lemma sinv_init : SInv xinit.
Proof. constructor; cbn; intros; discriminate. Qed.

Lemma set_ax_same x t a : set_ax x t a t = a.
Proof. unfold set_ax. rewrite Nat.eqb_refl. reflexivity. Qed.
Lemma set_ax_other x t a u : u <> t -> set_ax x t a u = ax x u.
Proof. unfold set_ax. intros H. destruct (Nat.eqb_spec u t); congruence. Qed.

(* an event of a thread that is not (and does not become) the sum-lock holder *)
Lemma sinv_other x b' t a' cuts' rd' :
  SInv x -> sumlocked (ax x t) = false -> sumlocked a' = false ->
  (forall u, slock x = Some u -> lock b' = None /\ hot b' = hot (base x)) ->
  SInv {| base := b'; ax := set_ax x t a'; slock := slock x; cuts := cuts'; reads := rd' |}.
Proof.
  intros S Ht Ha Hb. constructor; cbn [base ax slock].
  - intros u Hu. destruct (Nat.eq_dec u t) as [->|Hne].
    + pose proof (S_holder _ S _ Hu). congruence.
    + rewrite set_ax_other by auto. apply (S_holder _ S); auto.
  - intros u Hu. destruct (Nat.eq_dec u t) as [->|Hne].
    + rewrite set_ax_same in Hu. congruence.
    + rewrite set_ax_other in Hu by auto. apply (S_held _ S); auto.
  - intros u Hu. apply (Hb u Hu).
  - intros u h v Hu. destruct (Nat.eq_dec u t) as [->|Hne].
    + rewrite set_ax_same in Hu. subst a'. discriminate.
    + rewrite set_ax_other in Hu by auto. pose proof (S_hot _ S _ _ _ Hu).
      assert (slock x = Some u) by (apply (S_held _ S); rewrite Hu; reflexivity).
      destruct (Hb u) as [_ ->]; auto.
Qed.

(* an event of the sum-lock holder that keeps the lock *)
Lemma sinv_holder x t a' :
  SInv x -> sumlocked (ax x t) = true -> sumlocked a' = true ->
  (forall h v, a' = ASSum true (Some h) v false -> h = hot (base x)) ->
  SInv {| base := base x; ax := set_ax x t a'; slock := slock x; cuts := cuts x; reads := reads x |}.
Proof.
  intros S Ht Ha Hh. constructor; cbn [base ax slock].
  - intros u Hu. destruct (Nat.eq_dec u t) as [->|Hne]; [rewrite set_ax_same; auto|rewrite set_ax_other by auto; apply (S_holder _ S); auto].
  - intros u Hu. destruct (Nat.eq_dec u t) as [->|Hne]; [apply (S_held _ S); auto|rewrite set_ax_other in Hu by auto; apply (S_held _ S); auto].
  - apply (S_excl _ S).
  - intros u h v Hu. destruct (Nat.eq_dec u t) as [->|Hne]; [rewrite set_ax_same in Hu; eauto|rewrite set_ax_other in Hu by auto; eapply (S_hot _ S); eauto].
Qed.

Ltac side_other S I :=
  let u := fresh "u" in let Hu := fresh "Hu" in
  intros u Hu; cbn [lock hot mk]; split;
  [ first [ reflexivity | apply (S_excl _ S _ Hu)
          | exfalso; match goal with L : lock_free _ = true |- _ => unfold lock_free in L; rewrite Hu in L; destruct (lock (base _)); discriminate L end ]
  | first [ reflexivity
          | exfalso; match goal with E : thr (base _) ?t = CIn _ |- _ =>
                       pose proof (I_lock1 _ _ I _ _ E) as L1; pose proof (S_excl _ S _ Hu) as L2; congruence end ] ].

Theorem hexec_sinv x e x' : Inv (base x) -> SInv x -> hexec x e = Some x' -> SInv x'.
Proof.
  intros I S H. unfold HistExec.hexec in H. destruct e; try discriminate H.
  - (* ECall *)
    break_match H; inversion H; subst; unfold xmk;
      (apply sinv_other; [exact S|match goal with E : ax _ _ = _ |- _ => rewrite E; reflexivity end|reflexivity|side_other S I]).
  - (* ERet *)
    break_match H; inversion H; subst; unfold xmk;
      (apply sinv_other; [exact S|match goal with E : ax _ _ = _ |- _ => rewrite E; reflexivity end|reflexivity|side_other S I]).
  - (* EAt *)
    break_match H; inversion H; subst; try exact S; unfold xmk.
    all: try (apply sinv_other; [exact S|match goal with E : ax _ _ = _ |- _ => rewrite E; reflexivity end|reflexivity|side_other S I]; fail).
    (* get_sample_sum: the load of shard_and_count, then the load of the hot shard's sum *)
    all: apply sinv_holder; auto;
      [ match goal with E : ax _ _ = _ |- _ => rewrite E; reflexivity end
      | intros h v Hh; inversion Hh; subst; try reflexivity; match goal with E : ax _ _ = _ |- _ => apply (S_hot _ S _ _ _ E) end ].
  - (* ELock *)
    break_match H; inversion H; subst; try exact S; unfold xmk.
    + apply sinv_other; [exact S|match goal with E : ax _ _ = _ |- _ => rewrite E; reflexivity end|reflexivity|side_other S I].
    + (* get_sample_sum takes the lock *)
      match goal with L : lock_free _ = true |- _ => unfold lock_free in L; destruct (lock (base x)) eqn:El; [discriminate L|]; destruct (slock x) eqn:Es; [discriminate L|] end.
      constructor; cbn [base ax slock].
      * intros u Hu. inversion Hu; subst. rewrite set_ax_same. reflexivity.
      * intros u Hu. destruct (Nat.eq_dec u t) as [->|Hne]; [reflexivity|]. rewrite set_ax_other in Hu by auto.
        pose proof (S_held _ S _ Hu). congruence.
      * intros; auto.
      * intros u h v Hu. destruct (Nat.eq_dec u t) as [->|Hne]; [rewrite set_ax_same in Hu; discriminate|].
        rewrite set_ax_other in Hu by auto. assert (slock x = Some u) by (apply (S_held _ S); rewrite Hu; reflexivity). congruence.
  - (* EUnlock *)
    break_match H; inversion H; subst; try exact S; unfold xmk.
    + apply sinv_other; [exact S|match goal with E : ax _ _ = _ |- _ => rewrite E; reflexivity end|reflexivity|side_other S I].
    + (* get_sample_sum releases the lock *)
      boolfacts. subst.
      constructor; cbn [base ax slock].
      * intros u Hu. discriminate.
      * intros u Hu. destruct (Nat.eq_dec u t) as [->|Hne]; [rewrite set_ax_same in Hu; discriminate|].
        rewrite set_ax_other in Hu by auto. pose proof (S_held _ S _ Hu). congruence.
      * intros; discriminate.
      * intros u h0 v Hu. destruct (Nat.eq_dec u t) as [->|Hne]; [rewrite set_ax_same in Hu; discriminate|].
        rewrite set_ax_other in Hu by auto. eapply (S_hot _ S); eauto.
Qed.

Section Od.
Variable Od : ords.
Hypothesis Od_ok : sufficient_orderings Od = true.

Definition Good2 (x : xst) : Prop := Good bounds x /\ SInv x.

Lemma good2_init : Good2 xinit.
Proof. split; [apply good_init|apply sinv_init]. Qed.

Lemma good2_step x e x' : Good2 x -> hexec x e = Some x' -> Good2 x'.
Proof.
  intros [G S] H. split; [eapply (good_step bounds Od Od_ok); eauto|]. destruct G as (I & _ & _). eapply hexec_sinv; eauto.
Qed.

Theorem run_good2 es : forall x x', Good2 x -> xrun bounds x es = Some x' -> Good2 x'.
Proof.
  induction es as [|e es IH]; intros x x' G H; cbn in H.
  - inversion H; subst; auto.
  - destruct (hexec x e) as [x1|] eqn:E; [|discriminate]. eapply IH; [eapply good2_step; eauto|eauto].
Qed.
End Od.

(* ---- what the two read-only calls return ---- *)
Theorem sample_count_load_exact x t cell k o o2 before after ok x' :
  Inv (base x) -> ax x t = ASCount None -> hexec x (EAt t cell k o o2 before after ok) = Some x' ->
  ax x' t = ASCount (Some (sumf r_cnt (recs (base x)))) /\ base x' = base x.
Proof.
  intros I Ha H. unfold HistExec.hexec in H. rewrite Ha in H. break_match H; inversion H; subst. cbn [ax base xmk].
  rewrite set_ax_same. rewrite (I_n _ _ I). auto.
Qed.

Theorem sample_sum_load_exact x t h cell k o o2 before after ok x' :
  Inv (base x) -> Own (base x) -> SInv x -> ax x t = ASSum true (Some h) None false ->
  hexec x (EAt t cell k o o2 before after ok) = Some x' ->
  exists v, ax x' t = ASSum true (Some h) (Some v) false /\ base x' = base x /\ before = zbits v
            /\ v = sumf (applied O) (recs (base x))
            /\ ((forall u i, thr (base x) u <> OWork i) -> v = sumf (full O) (recs (base x))).
Proof.
  intros I Ow S Ha H.
  assert (Hs : slock x = Some t) by (apply (S_held _ S); rewrite Ha; reflexivity).
  pose proof (S_excl _ S _ Hs) as Hl. pose proof (S_hot _ S _ _ _ Ha) as Hh.
  unfold HistExec.hexec in H. rewrite Ha in H. break_match H; inversion H; subst. boolfacts. subst.
  eexists. cbn [ax base xmk]. rewrite set_ax_same. split; [reflexivity|]. split; [reflexivity|]. split; [auto|].
  assert (Hact : active (base x) = None) by (unfold active; rewrite Hl; reflexivity).
  pose proof (I_K0 _ _ I Hact) as HK.
  pose proof (I_hot_cell _ _ I O) as Hc. unfold stg_cell in Hc. rewrite Hact in Hc. unfold newA, new in Hc. rewrite HK in Hc. cbn [skipn] in Hc.
  split; [lia|]. intros Hq.
  destruct (quiescent_exact bounds (base x) I Ow Hq Hl) as (_ & _ & _ & Hcells & _). apply Hcells.
Qed.

(* the values the return markers carry are the loaded ones *)
Theorem sample_count_return x t b x' v :
  ax x t = ASCount (Some v) -> hexec x (ERet t (RVal b)) = Some x' -> Z.of_N b = v.
Proof. intros Ha H. unfold HistExec.hexec in H. rewrite Ha in H. break_match H. boolfacts. auto. Qed.
Theorem sample_sum_return x t b x' h v :
  ax x t = ASSum true (Some h) (Some v) true -> hexec x (ERet t (RVal b)) = Some x' -> b = zbits v.
Proof. intros Ha H. unfold HistExec.hexec in H. rewrite Ha in H. break_match H. boolfacts. auto. Qed.

(* ---- the call window of a collection: l0 / l1 are the ticket counts at the call and return markers ---- *)
Definition col_l0 (a : aux) : option nat :=
  match a with ACol l0 => Some l0 | AColRet l0 _ _ _ _ => Some l0 | _ => None end.

Lemma hexec_col_l0 x e x' t l :
  hexec x e = Some x' -> col_l0 (ax x t) = Some l -> (forall r, e <> ERet t r) -> col_l0 (ax x' t) = Some l.
Proof.
  intros H Hc Hne. unfold HistExec.hexec in H. destruct e; try discriminate H.
  all: break_match H; inversion H; subst; try exact Hc; cbn [ax xmk]; unfold set_ax.
  all: match goal with |- col_l0 (if Nat.eqb ?tt ?u then _ else _) = _ =>
         destruct (Nat.eqb_spec tt u); [subst|exact Hc] end.
  all: try (exfalso; eapply Hne; reflexivity).
  all: match goal with E : ax _ _ = _ |- _ => rewrite E in Hc; cbn in Hc; try discriminate Hc; try exact Hc end.
Qed.

Lemma xrun_col_l0 es : forall x x' t l,
  xrun bounds x es = Some x' -> col_l0 (ax x t) = Some l -> (forall r, ~ In (ERet t r) es) -> col_l0 (ax x' t) = Some l.
Proof.
  induction es as [|e es IH]; intros x x' t l H Hc Hn; cbn in H.
  - inversion H; subst; auto.
  - destruct (hexec x e) as [x1|] eqn:E; [|discriminate]. eapply IH; eauto.
    + eapply hexec_col_l0; eauto. intros r ->. eapply Hn. left. reflexivity.
    + intros r Hr. eapply Hn. right. eauto.
Qed.

Theorem collect_window x0 x1 es x2 x3 t cnt sum bks :
  hexec x0 (ECall t CCollect) = Some x1 -> xrun bounds x1 es = Some x2 -> (forall r, ~ In (ERet t r) es) ->
  hexec x2 (ERet t (RSnap cnt sum bks)) = Some x3 ->
  exists c, cuts x3 = c :: cuts x2 /\ cut_l0 c = lenr x0 /\ cut_l1 c = lenr x2.
Proof.
  intros H1 Hr Hn H3.
  assert (Hc : col_l0 (ax x1 t) = Some (lenr x0)).
  { unfold HistExec.hexec in H1. break_match H1; inversion H1; subst. cbn [ax xmk]. unfold set_ax. rewrite Nat.eqb_refl. reflexivity. }
  pose proof (xrun_col_l0 _ _ _ _ _ Hr Hc Hn) as Hc2.
  unfold HistExec.hexec in H3. break_match H3; inversion H3; subst. cbn [cuts].
  eexists. split; [reflexivity|]. cbn [cut_l0 cut_l1]. cbn in Hc2. inversion Hc2. auto.
Qed.

(* ---- the orderings the model needs are checked on the implementation's events ---- *)
Lemma set_thr_same2 s t a : set_thr s t a t = a.
Proof. unfold set_thr. rewrite Nat.eqb_refl. reflexivity. Qed.

Theorem publish_event_is_release x t i cell k o o2 before after ok x' :
  thr (base x) t = OWork i -> hexec x (EAt t cell k o o2 before after ok) = Some x' -> thr (base x') t = Idle -> is_release o = true.
Proof.
  intros Ht H Hi. unfold HistExec.hexec in H. rewrite Ht in H. break_match H; inversion H; subst; cbn [base xmk thr mk] in Hi; try congruence.
  all: boolfacts; auto.
Qed.

Theorem wait_exit_is_acquire x t N cell k o o2 before after ok x' :
  thr (base x) t = CIn (CWait N) -> hexec x (EAt t cell k o o2 before after ok) = Some x' ->
  thr (base x') t = CIn (CSwapSum N) -> is_acquire o = true.
Proof.
  intros Ht H Hi. unfold HistExec.hexec in H. rewrite Ht in H. break_match H; inversion H; subst; cbn [base xmk thr mk] in Hi; try congruence.
  all: boolfacts; auto.
Qed.

End R.
