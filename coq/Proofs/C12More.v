(* C12: local metrics hand over exactly what they accumulated - the statements over arbitrary
   histories of the sequential world model (World.v), built on the one-step facts of
   LocalFacts.v and the histogram-core facts of HistFacts.v.

   Part A  value cores (counters): history theorem, local counter handles, one-step laws
           (second flush, reset/clear, clone, drop).
   Part B  histogram cores: equality of cores up to which shard is hot ([heq]), the world
           invariant [wok], history theorem, count / sum / collection corollaries.
   Part C  local vectors: what one update does to the cache. *)
Require Import PV.Base.Prelude PV.Base.F64.
Require Import PV.Model.Proto PV.Model.Desc PV.Model.Value PV.Model.Hist PV.Model.Vec PV.Model.Registry PV.Model.World.
Require Import PV.Proofs.F64Facts PV.Proofs.HistFacts PV.Proofs.LocalFacts.
From Coq Require Import Relations.Relation_Operators.
Open Scope N_scope.

(* ================================================================ histories *)
Lemma run_world_app w a b : run_world w (a ++ b) = run_world (run_world w a) b.
Proof. revert w; induction a as [|o a IH]; intros w; cbn; auto. Qed.

Lemma run_slots_length w ops : (length (w_slots w) <= length (w_slots (run_world w ops)))%nat.
Proof.
  revert w; induction ops as [|o r IH]; intros w; cbn; auto.
  etransitivity; [apply (step_slots_length w o)|apply IH].
Qed.

Lemma run_slot_dead w ops s : (s < length (w_slots w))%nat -> slot w s = HDead -> slot (run_world w ops) s = HDead.
Proof.
  revert w; induction ops as [|o r IH]; intros w L H; cbn; auto.
  apply IH.
  - pose proof (step_slots_length w o). lia.
  - apply step_slot_dead; auto.
Qed.

(* ================================================================ Part A: value cores *)
(* the shared value is the fold of the direct updates and the flushed amounts, in the order
   applied; descriptor, type and label pairs never change *)
Theorem counter_history w ops c vc :
  nth_error (w_v w) c = Some vc ->
  nth_error (w_v (run_world w ops)) c
  = Some (vc_with vc (fold_left apply_veff (veffects_hist w ops c) (vc_val vc))).
Proof.
  revert w vc; induction ops as [|o r IH]; intros w vc N; cbn [run_world veffects_hist fold_left].
  - rewrite vc_with_same. exact N.
  - rewrite fold_left_app. rewrite (IH _ _ (step_vcore w o c vc N)). reflexivity.
Qed.

(* ---------- the local counter handle ---------- *)
Fixpoint lc_run (ops : list op) (s : nat) (val : numval) : option numval :=
  match ops with
  | [] => Some val
  | o :: r => match lc_next o s val with Some v => lc_run r s v | None => None end
  end.

Theorem local_counter_history w ops s c val :
  slot w s = HLocalCounter c val -> slot (run_world w ops) s = lc_handle c (lc_run ops s val).
Proof.
  revert w val; induction ops as [|o r IH]; intros w val H; cbn [run_world lc_run]; auto.
  pose proof (step_local_counter w o s c val H) as S1.
  destruct (lc_next o s val) as [v|]; cbn [lc_handle] in S1.
  - apply IH. exact S1.
  - cbn [lc_handle]. apply run_slot_dead; auto.
    assert (L : (s < length (w_slots w))%nat) by (apply slot_lt; rewrite H; discriminate).
    pose proof (step_slots_length w o). lia.
Qed.

(* between two flushes / resets the local value is the sum of the increments, in order *)
Lemma lc_run_incs s ds val : lc_run (map (OpIncBy s) ds) s val = Some (fold_left num_add ds val).
Proof.
  revert val; induction ds as [|d r IH]; intros val; cbn [map lc_run lc_next fold_left]; auto.
  rewrite Nat.eqb_refl. apply IH.
Qed.

Lemma num_is_zero_zero_like v : num_is_zero (zero_like v) = true.
Proof. destruct v; reflexivity. Qed.
Lemma zero_like_idem v : zero_like (zero_like v) = zero_like v.
Proof. destruct v; reflexivity. Qed.

(* ---------- world plumbing ---------- *)
Lemma set_h_same w : set_h w (w_h w) = w.
Proof. destruct w; reflexivity. Qed.
Lemma set_v_same w : set_v w (w_v w) = w.
Proof. destruct w; reflexivity. Qed.

Lemma list_set_nth {A} (l : list A) i d : (i < length l)%nat -> list_set l i (nth i l d) = l.
Proof. revert i; induction l; intros [|i] H; cbn in *; try lia; f_equal; auto. apply IHl; lia. Qed.

Lemma put_slot_same w s h : (s < length (w_slots w))%nat -> slot w s = h -> put_slot w s h = w.
Proof.
  intros L H. unfold put_slot, set_slots. subst h. unfold slot. rewrite list_set_nth by auto. apply world_eta.
Qed.

Lemma put_slot_twice w s a b : put_slot (put_slot w s a) s b = put_slot w s b.
Proof. unfold put_slot, set_slots; cbn. rewrite list_set_twice. reflexivity. Qed.

Lemma flush_lh_cleared w c l : flush_lh w c (lh_clear l) = w.
Proof.
  unfold flush_lh. rewrite upd_id; [apply set_h_same|]. intros x _. apply hc_flush_empty. reflexivity.
Qed.

Definition cv_zero (e : N * (nat * numval)) : N * (nat * numval) := let '(h, (c, val)) := e in (h, (c, zero_like val)).
Definition hv_clear (e : N * (nat * lhist)) : N * (nat * lhist) := let '(h, (c, l)) := e in (h, (c, lh_clear l)).

Lemma cv_fold_zeroed cache w : fold_left cv_flush1 (map cv_zero cache) w = w.
Proof.
  revert w; induction cache as [|[h [c val]] r IH]; intros w; cbn [map fold_left cv_zero cv_flush1]; auto.
  rewrite num_is_zero_zero_like. apply IH.
Qed.
Lemma hv_fold_cleared cache w : fold_left hv_flush1 (map hv_clear cache) w = w.
Proof.
  revert w; induction cache as [|[h [c l]] r IH]; intros w; cbn [map fold_left hv_clear hv_flush1]; auto.
  rewrite flush_lh_cleared. apply IH.
Qed.
Lemma cv_zero_idem cache : map cv_zero (map cv_zero cache) = map cv_zero cache.
Proof. rewrite map_map. apply map_ext. intros [h [c v]]; cbn. rewrite zero_like_idem. reflexivity. Qed.
Lemma hv_clear_idem cache : map hv_clear (map hv_clear cache) = map hv_clear cache.
Proof. rewrite map_map. apply map_ext. intros [h [c l]]; cbn. rewrite lh_clear_idem. reflexivity. Qed.

(* ---------- a second flush adds nothing ---------- *)
Theorem flush_twice w s :
  let w1 := fst (step w (OpFlush s)) in step w1 (OpFlush s) = (w1, snd (step w (OpFlush s))).
Proof.
  cbv zeta. destruct (slot w s) eqn:E.
  all: try (unfold step; rewrite E; cbn [fst snd]; rewrite E; reflexivity).
  all: assert (L : (s < length (w_slots w))%nat) by (apply slot_lt; rewrite E; discriminate).
  - (* local counter *)
    destruct (num_is_zero val) eqn:Z.
    + assert (EQ : step w (OpFlush s) = (w, OUnit)) by (unfold step; rewrite E, Z; reflexivity).
      rewrite EQ. cbn [fst snd]. exact EQ.
    + set (W1 := put_slot (set_v w (upd (w_v w) c (fun vc => mkVCore (vc_desc vc) (vc_type vc) (num_add (vc_val vc) val) (vc_labels vc))))
                          s (HLocalCounter c (zero_like val))).
      assert (EQ : step w (OpFlush s) = (W1, OUnit)) by (unfold step; rewrite E, Z; reflexivity).
      rewrite EQ. cbn [fst snd].
      assert (S1 : slot W1 s = HLocalCounter c (zero_like val)) by (apply slot_put_eq; exact L).
      unfold step. rewrite S1. rewrite num_is_zero_zero_like. reflexivity.
  - (* local histogram *)
    set (W1 := put_slot (flush_lh w c l) s (HLocalHist c (lh_clear l))).
    assert (EQ : step w (OpFlush s) = (W1, OUnit)) by (unfold step; rewrite E; reflexivity).
    rewrite EQ. cbn [fst snd].
    assert (L1 : (s < length (w_slots W1))%nat) by (unfold W1, put_slot, set_slots; cbn; rewrite length_list_set; exact L).
    assert (S1 : slot W1 s = HLocalHist c (lh_clear l)) by (apply slot_put_eq; exact L).
    unfold step. rewrite S1. rewrite flush_lh_cleared, lh_clear_idem. rewrite put_slot_same; auto.
  - (* local counter vector *)
    set (W1 := put_slot (fold_left cv_flush1 cache w) s (HLocalCounterVec v (map cv_zero cache))).
    assert (EQ : step w (OpFlush s) = (W1, OUnit)) by (unfold step; rewrite E; reflexivity).
    rewrite EQ. cbn [fst snd].
    assert (L0 : (s < length (w_slots (fold_left cv_flush1 cache w)))%nat) by (rewrite cv_fold_slots; exact L).
    assert (L1 : (s < length (w_slots W1))%nat) by (unfold W1, put_slot, set_slots; cbn; rewrite length_list_set; exact L0).
    assert (S1 : slot W1 s = HLocalCounterVec v (map cv_zero cache)) by (apply slot_put_eq; exact L0).
    unfold step. rewrite S1.
    change ((put_slot (fold_left cv_flush1 (map cv_zero cache) W1) s (HLocalCounterVec v (map cv_zero (map cv_zero cache))), OUnit) = (W1, OUnit)).
    rewrite cv_fold_zeroed, cv_zero_idem, put_slot_same; auto.
  - (* local histogram vector *)
    set (W1 := put_slot (fold_left hv_flush1 cache w) s (HLocalHistVec v (map hv_clear cache))).
    assert (EQ : step w (OpFlush s) = (W1, OUnit)) by (unfold step; rewrite E; reflexivity).
    rewrite EQ. cbn [fst snd].
    assert (L0 : (s < length (w_slots (fold_left hv_flush1 cache w)))%nat) by (rewrite hv_fold_slots; exact L).
    assert (L1 : (s < length (w_slots W1))%nat) by (unfold W1, put_slot, set_slots; cbn; rewrite length_list_set; exact L0).
    assert (S1 : slot W1 s = HLocalHistVec v (map hv_clear cache)) by (apply slot_put_eq; exact L0).
    unfold step. rewrite S1.
    change ((put_slot (fold_left hv_flush1 (map hv_clear cache) W1) s (HLocalHistVec v (map hv_clear (map hv_clear cache))), OUnit) = (W1, OUnit)).
    rewrite hv_fold_cleared, hv_clear_idem, put_slot_same; auto.
Qed.

(* ---------- reset / clear touches the local handle only ---------- *)
Definition cleared_handle (h : handle) : handle :=
  match h with
  | HLocalCounter c val => HLocalCounter c (zero_like val)
  | HLocalHist c l => HLocalHist c (lh_clear l)
  | h => h
  end.

Theorem clear_local_only w s :
  let w' := fst (step w (OpClear s)) in
  w_v w' = w_v w /\ w_h w' = w_h w /\ w_vec w' = w_vec w /\ w_reg w' = w_reg w
  /\ length (w_slots w') = length (w_slots w)
  /\ (forall s', s' <> s -> slot w' s' = slot w s')
  /\ slot w' s = cleared_handle (slot w s).
Proof.
  cbv zeta. unfold step. destruct (slot w s) eqn:E; cbn [fst cleared_handle]; try (repeat split; auto; fail).
  all: assert (L : (s < length (w_slots w))%nat) by (apply slot_lt; rewrite E; discriminate).
  all: repeat split; auto; try (cbn; apply length_list_set); try (intros s' D; apply slot_put_neq; auto); apply slot_put_eq; auto.
Qed.

(* ---------- a clone starts empty ---------- *)
Definition cloned_handle (h : handle) : handle :=
  match h with
  | HValue c => HValue c | HHist c => HHist c | HVec v => HVec v | HRegistry r => HRegistry r
  | HLocalCounter c val => HLocalCounter c (zero_like val)
  | HLocalHist c l => HLocalHist c (lh_clear l)
  | HLocalCounterVec v _ => HLocalCounterVec v []
  | HLocalHistVec v _ => HLocalHistVec v []
  | _ => HDead
  end.

Theorem clone_empty w s :
  let w' := fst (step w (OpClone s)) in
  w_v w' = w_v w /\ w_h w' = w_h w /\ w_vec w' = w_vec w /\ w_reg w' = w_reg w
  /\ w_slots w' = w_slots w ++ [cloned_handle (slot w s)].
Proof. cbv zeta. unfold step. destruct (slot w s); cbn; auto 10. Qed.

(* ---------- drop ---------- *)
Definition is_local_hist (h : handle) : Prop := match h with HLocalHist _ _ | HLocalHistVec _ _ => True | _ => False end.
Definition is_local_counter (h : handle) : Prop := match h with HLocalCounter _ _ | HLocalCounterVec _ _ => True | _ => False end.

(* dropping a local histogram (vector) leaves every shared core exactly as a flush does *)
Theorem drop_hist_flushes w s : is_local_hist (slot w s) ->
  let wd := fst (step w (OpDrop s)) in let wf := fst (step w (OpFlush s)) in
  w_h wd = w_h wf /\ w_v wd = w_v wf /\ w_vec wd = w_vec wf /\ w_reg wd = w_reg wf
  /\ slot wd s = HDead.
Proof.
  cbv zeta. intros H. unfold step. destruct (slot w s) eqn:E; try contradiction; cbn [fst].
  all: assert (L : (s < length (w_slots w))%nat) by (apply slot_lt; rewrite E; discriminate).
  - repeat split; auto. apply slot_put_eq; auto.
  - repeat split; auto. apply slot_put_eq.
    change (s < length (w_slots (fold_left hv_flush1 cache w)))%nat. rewrite hv_fold_slots. exact L.
Qed.

(* dropping a local counter (vector) discards what it holds: nothing shared changes *)
Theorem drop_counter_discards w s : is_local_counter (slot w s) ->
  let wd := fst (step w (OpDrop s)) in
  w_v wd = w_v w /\ w_h wd = w_h w /\ w_vec wd = w_vec w /\ w_reg wd = w_reg w /\ slot wd s = HDead.
Proof.
  cbv zeta. intros H. unfold step. destruct (slot w s) eqn:E; try contradiction; cbn [fst].
  all: assert (L : (s < length (w_slots w))%nat) by (apply slot_lt; rewrite E; discriminate).
  all: repeat split; auto; apply slot_put_eq; auto.
Qed.

(* ================================================================ Part B: histogram cores *)
(* ---------- equality of cores up to which of the two shards is the hot one ---------- *)
(* A collection flips the hot index, drains the shard observers wrote to into the other one and
   zeroes it; what the public API can see of a core (count, sum, what a collection returns) is a
   function of the quantities compared here. *)
Definition heq (a b : hcore) : Prop :=
  hc_desc a = hc_desc b /\ hc_labels a = hc_labels b /\ hc_bounds a = hc_bounds b /\ hc_total a = hc_total b
  /\ hc_shard a (hc_hot a) = hc_shard b (hc_hot b)
  /\ hc_shard a (negb (hc_hot a)) = hc_shard b (negb (hc_hot b)).

Lemma heq_refl a : heq a a.
Proof. unfold heq; auto 10. Qed.
Lemma heq_sym a b : heq a b -> heq b a.
Proof. unfold heq; intuition. Qed.
Lemma heq_trans a b c : heq a b -> heq b c -> heq a c.
Proof. unfold heq; intuition congruence. Qed.

Ltac heq_crush :=
  match goal with
  | a : hcore, b : hcore |- _ =>
      destruct a as [? ? ? [|] ? ? ?], b as [? ? ? [|] ? ? ?]; unfold heq in *; cbn in *;
      intuition (subst; try reflexivity; try congruence)
  end.

Lemma heq_observe a b v : heq a b -> heq (hc_observe a v) (hc_observe b v).
Proof. intros H. unfold hc_observe. heq_crush. Qed.

Lemma heq_flush a b l : heq a b -> heq (hc_flush a l) (hc_flush b l).
Proof. intros H. unfold hc_flush. destruct (lh_count l =? 0); [exact H|]. heq_crush. Qed.

Lemma heq_apply a b e : heq a b -> heq (apply_heff a e) (apply_heff b e).
Proof. destruct e; cbn; [apply heq_observe|apply heq_flush]. Qed.

Lemma heq_effects effs : forall a b, heq a b -> heq (fold_left apply_heff effs a) (fold_left apply_heff effs b).
Proof. induction effs as [|e r IH]; intros a b H; cbn; auto. apply IH. apply heq_apply; auto. Qed.

(* what the API shows is the same for equal cores *)
Lemma heq_count a b : heq a b -> hc_sample_count a = hc_sample_count b.
Proof. unfold heq, hc_sample_count; tauto. Qed.
Lemma heq_sum a b : heq a b -> hc_sample_sum a = hc_sample_sum b.
Proof. unfold hc_sample_sum. intros (_ & _ & _ & _ & -> & _). reflexivity. Qed.
Lemma heq_collect_view a b : heq a b -> option_map fst (hist_metric a) = option_map fst (hist_metric b).
Proof.
  intros (D & Ls & B & T & Hh & Hc). unfold hist_metric, hc_proto. rewrite Hh, T, B, Ls.
  destruct (negb (sh_count (hc_shard b (hc_hot b)) =? hc_total b)); reflexivity.
Qed.

(* ---------- the invariant of one core between operations ---------- *)
Record core_ok (h : hcore) : Prop := mkCoreOk {
  ok_cold : hc_shard h (negb (hc_hot h)) = shard_new (length (hc_bounds h));
  ok_len : length (sh_buckets (hc_shard h (hc_hot h))) = length (hc_bounds h);
  ok_cnt : sh_count (hc_shard h (hc_hot h)) < two64;
  ok_bk : Forall (fun x => x < two64) (sh_buckets (hc_shard h (hc_hot h)));
  ok_sum : is_negzero (sh_sum (hc_shard h (hc_hot h))) = false }.

Lemma core_ok_heq a b : heq a b -> core_ok a -> core_ok b.
Proof.
  intros (D & Ls & B & T & Hh & Hc) [C1 C2 C3 C4 C5]. constructor; rewrite <- ?Hh, <- ?Hc, <- ?B; auto.
Qed.

Lemma wrap64_lt x : wrap64 x < two64.
Proof. unfold wrap64. apply N.mod_lt. discriminate. Qed.

Lemma bump_lt j l : Forall (fun x => x < two64) l -> Forall (fun x => x < two64) (bump j 1 l).
Proof.
  revert j; induction l as [|x l IH]; intros [|j] H; cbn; auto; inversion H; subst; constructor; auto.
  apply wrap64_lt.
Qed.
Lemma zip_add_lt a b : Forall (fun x => x < two64) (zip_add a b).
Proof. revert b; induction a as [|x a IH]; intros [|y b]; cbn; constructor; auto. apply wrap64_lt. Qed.
Lemma zip_add_length a b : length a = length b -> length (zip_add a b) = length a.
Proof. revert b; induction a as [|x a IH]; intros [|y b] H; cbn in *; try discriminate; auto. Qed.

Lemma core_ok_observe h v : core_ok h -> core_ok (hc_observe h v).
Proof.
  intros [C1 C2 C3 C4 C5]. destruct (hc_observe_fields h v) as (B & Hh & T & Hc & Hs). cbv zeta in *.
  constructor; rewrite ?Hh, ?B, ?Hc, ?Hs; cbn [sh_buckets sh_count sh_sum]; auto.
  - destruct (find_bucket v (hc_bounds h) 0); [rewrite bump_length|]; auto.
  - apply wrap64_lt.
  - destruct (find_bucket v (hc_bounds h) 0); [apply bump_lt|]; auto.
  - apply add_not_negzero; auto.
Qed.

Lemma core_ok_flush h l : core_ok h -> length (lh_counts l) = length (hc_bounds h) -> core_ok (hc_flush h l).
Proof.
  intros [C1 C2 C3 C4 C5] Hl. destruct (N.eq_dec (lh_count l) 0) as [Z|NZ].
  - rewrite hc_flush_empty by auto. constructor; auto.
  - destruct (hc_flush_fields h l NZ) as (B & Hh & T & Hc & Hs). cbv zeta in *.
    constructor; rewrite ?Hh, ?B, ?Hc, ?Hs; cbn [sh_buckets sh_count sh_sum]; auto.
    + rewrite zip_add_length; congruence.
    + apply wrap64_lt.
    + apply zip_add_lt.
    + apply add_not_negzero; auto.
Qed.

Definition is_fresh (h : hcore) : Prop := exists o vals, hcore_new o vals = Ok h.

Lemma fresh_core_ok h : is_fresh h -> core_ok h.
Proof.
  intros (o & vals & H). destruct (hcore_new_fresh _ _ _ H) as (bs & _ & (B & Hh & T & S0 & S1)).
  constructor; rewrite ?Hh, ?B; cbn [negb hc_shard]; rewrite ?S0, ?S1; cbn [shard_new sh_buckets sh_count sh_sum]; auto.
  - apply repeat_length.
  - reflexivity.
  - clear. induction (length bs); cbn; constructor; auto. reflexivity.
Qed.

(* a collection keeps the core, up to the flip *)
Lemma hc_proto_static h p h' : hc_proto h = Some (p, h') -> hc_desc h' = hc_desc h /\ hc_labels h' = hc_labels h.
Proof.
  unfold hc_proto. destruct (negb _); [discriminate|]. intros H; inversion H; subst; clear H.
  destruct h as [? ? ? [|] ? ? ?]; cbn; auto.
Qed.

Lemma collect_heq h m h' : core_ok h -> hist_metric h = Some (m, h') -> heq h' h /\ core_ok h'.
Proof.
  intros [C1 C2 C3 C4 C5] H. unfold hist_metric in H. destruct (hc_proto h) as [[p h1]|] eqn:P; [|discriminate].
  inversion H; subst h1; clear H.
  assert (E : sh_count (hc_shard h (hc_hot h)) = hc_total h).
  { unfold hc_proto in P. destruct (sh_count (hc_shard h (hc_hot h)) =? hc_total h) eqn:Q; [|discriminate]. apply N.eqb_eq; auto. }
  destruct (hc_proto_static _ _ _ P) as (D & Ls).
  destruct (hc_proto_fields h E) as (h2 & P2 & B & Hh & T & Hnew & Hold). cbv zeta in *.
  rewrite P in P2. inversion P2; subst h2; clear P2.
  assert (Q : heq h' h).
  { unfold heq. repeat split; auto.
    - rewrite Hh, Hnew, C1. cbn [shard_new sh_sum sh_count sh_buckets].
      rewrite add_zero_l by auto. rewrite N.add_0_l, <- E, wrap64_small by auto.
      rewrite <- C2, zip_add_zero_l by auto. symmetry. apply shard_eta.
    - rewrite Hh, negb_involutive, Hold, C1, C2. reflexivity. }
  split; auto. eapply core_ok_heq; [apply heq_sym; exact Q|]. constructor; auto.
Qed.

Lemma cstar_heq a a' : cstar a a' -> core_ok a -> heq a' a /\ core_ok a'.
Proof.
  induction 1 as [x y (m & H)|x|x y z _ IH1 _ IH2]; intros C.
  - eapply collect_heq; eauto.
  - split; auto. apply heq_refl.
  - destruct (IH1 C) as (Q1 & C1). destruct (IH2 C1) as (Q2 & C2). split; auto. eapply heq_trans; eauto.
Qed.

Lemma hist_metric_bounds h m h' : hist_metric h = Some (m, h') -> hc_bounds h' = hc_bounds h.
Proof.
  unfold hist_metric, hc_proto. destruct (negb _); [discriminate|]. intros H; inversion H; subst; clear H.
  destruct h as [? ? ? [|] ? ? ?]; cbn; auto.
Qed.
Lemma cstar_bounds a a' : cstar a a' -> hc_bounds a' = hc_bounds a.
Proof.
  induction 1 as [x y (m & H)|x|x y z _ IH1 _ IH2]; auto; try congruence. eapply hist_metric_bounds; eauto.
Qed.

(* ---------- effects ---------- *)
Definition eff_ok (n : nat) (e : heff) : Prop := match e with HObs _ => True | HBatch l => length (lh_counts l) = n end.

Lemma apply_heff_bounds h e : hc_bounds (apply_heff h e) = hc_bounds h.
Proof.
  destruct e as [v|l]; cbn.
  - apply (hc_observe_fields h v).
  - unfold hc_flush. destruct (lh_count l =? 0); auto. destruct h as [? ? ? [|] ? ? ?]; reflexivity.
Qed.
Lemma effects_bounds effs : forall h, hc_bounds (fold_left apply_heff effs h) = hc_bounds h.
Proof. induction effs as [|e r IH]; intros h; cbn; auto. rewrite IH. apply apply_heff_bounds. Qed.

Lemma core_ok_effects effs : forall h, core_ok h -> Forall (eff_ok (length (hc_bounds h))) effs ->
  core_ok (fold_left apply_heff effs h).
Proof.
  induction effs as [|e r IH]; intros h C F; cbn; auto. inversion F; subst.
  apply IH.
  - destruct e; cbn in *; [apply core_ok_observe|apply core_ok_flush]; auto.
  - rewrite apply_heff_bounds. auto.
Qed.

(* count and sum of a core after a list of effects *)
Definition eff_count (e : heff) : N := match e with HObs _ => 1 | HBatch l => lh_count l end.
Definition eff_addends (e : heff) : list f64 :=
  match e with HObs v => [v] | HBatch l => if lh_count l =? 0 then [] else [lh_sum l] end.
Definition effs_count (effs : list heff) : N := fold_left N.add (map eff_count effs) 0.
Definition effs_addends (effs : list heff) : list f64 := flat_map eff_addends effs.

Lemma fold_add_shift l a : fold_left N.add l a = a + fold_left N.add l 0.
Proof.
  revert a; induction l as [|x l IH]; intros a; cbn [fold_left]; [lia|]. rewrite (IH (a + x)), (IH (0 + x)). lia.
Qed.

Lemma apply_heff_count h e : hc_sample_count (apply_heff h e) = hc_sample_count h + eff_count e.
Proof.
  unfold hc_sample_count. destruct e as [v|l]; cbn.
  - apply (hc_observe_fields h v).
  - destruct (N.eq_dec (lh_count l) 0) as [Z|NZ].
    + rewrite hc_flush_empty by auto. lia.
    + apply (hc_flush_fields h l NZ).
Qed.
Lemma apply_heff_sum h e :
  hc_sample_sum (apply_heff h e) = fold_left PrimFloat.add (eff_addends e) (hc_sample_sum h).
Proof.
  unfold hc_sample_sum. destruct e as [v|l]; cbn [apply_heff eff_addends].
  - destruct (hc_observe_fields h v) as (_ & Hh & _ & _ & Hs). cbv zeta in *. rewrite Hh, Hs. reflexivity.
  - destruct (N.eq_dec (lh_count l) 0) as [Z|NZ].
    + rewrite hc_flush_empty by auto. rewrite Z. reflexivity.
    + destruct (hc_flush_fields h l NZ) as (_ & Hh & _ & _ & Hs). cbv zeta in *. rewrite Hh, Hs.
      apply N.eqb_neq in NZ. rewrite NZ. reflexivity.
Qed.

Lemma effects_count effs : forall h, hc_sample_count (fold_left apply_heff effs h) = hc_sample_count h + effs_count effs.
Proof.
  unfold effs_count. induction effs as [|e r IH]; intros h; cbn [fold_left map]; [lia|].
  rewrite IH, apply_heff_count, (fold_add_shift _ (0 + eff_count e)). lia.
Qed.
Lemma effects_sum effs : forall h,
  hc_sample_sum (fold_left apply_heff effs h) = fold_left PrimFloat.add (effs_addends effs) (hc_sample_sum h).
Proof.
  unfold effs_addends. induction effs as [|e r IH]; intros h; cbn [fold_left flat_map]; auto.
  rewrite IH, apply_heff_sum, fold_left_app. reflexivity.
Qed.

(* ---------- the world invariant ---------- *)
(* Every histogram core satisfies [core_ok]; every local histogram anywhere (slot, cache entry of
   a local vector, private histogram of a local timer) refers to an existing core and has one
   count per bound of that core; histogram handles and the children of histogram vectors refer
   to existing cores.  It holds of the empty world and is kept by every operation. *)
Definition wbounds (w : world) : list (list f64) := map hc_bounds (w_h w).
Definition valid (B : list (list f64)) (c : nat) : Prop := exists bs, nth_error B c = Some bs.
Definition lok (B : list (list f64)) (c : nat) (l : lhist) : Prop :=
  exists bs, nth_error B c = Some bs /\ length (lh_counts l) = length bs.
Definition entry_ok (B : list (list f64)) (e : N * (nat * lhist)) : Prop := lok B (fst (snd e)) (snd (snd e)).
Definition handle_ok (B : list (list f64)) (h : handle) : Prop :=
  match h with
  | HHist c => valid B c
  | HLocalHist c l | HLocalTimer c l => lok B c l
  | HLocalHistVec _ cache => Forall (entry_ok B) cache
  | _ => True
  end.
Definition vec_ok (B : list (list f64)) (v : veccore) : Prop :=
  match v_kind v with VKHist _ => Forall (fun e => valid B (snd e)) (v_children v) | _ => True end.
Record wok (w : world) : Prop := mkWok {
  wok_cores : Forall core_ok (w_h w);
  wok_slots : Forall (handle_ok (wbounds w)) (w_slots w);
  wok_vecs : Forall (vec_ok (wbounds w)) (w_vec w) }.
Definition bmono (B B' : list (list f64)) : Prop := forall c bs, nth_error B c = Some bs -> nth_error B' c = Some bs.

Lemma wok0 : wok world0.
Proof. constructor; cbn; constructor. Qed.

Lemma bmono_refl B : bmono B B.
Proof. intros c bs H; exact H. Qed.
Lemma bmono_app B ext : bmono B (B ++ ext).
Proof. intros c bs H. apply nth_error_app_some; auto. Qed.
Lemma valid_mono B B' c : bmono B B' -> valid B c -> valid B' c.
Proof. intros M (bs & H). exists bs; auto. Qed.
Lemma lok_mono B B' c l : bmono B B' -> lok B c l -> lok B' c l.
Proof. intros M (bs & H & L). exists bs; auto. Qed.
Lemma handle_ok_mono B B' h : bmono B B' -> handle_ok B h -> handle_ok B' h.
Proof.
  intros M. destruct h; cbn; auto; try (apply lok_mono; auto); try (apply valid_mono; auto).
  apply Forall_impl. intros e. apply lok_mono; auto.
Qed.
Lemma vec_ok_mono B B' v : bmono B B' -> vec_ok B v -> vec_ok B' v.
Proof.
  intros M. unfold vec_ok. destruct (v_kind v); auto. apply Forall_impl. intros e. apply valid_mono; auto.
Qed.

Lemma nth_error_map_some {A B} (f : A -> B) l i y : nth_error (map f l) i = Some y -> exists x, nth_error l i = Some x /\ f x = y.
Proof. revert i; induction l as [|a l IH]; intros [|i]; cbn; try discriminate; eauto. intros H; inversion H; eauto. Qed.

Lemma bounds_of_nth w c bs : nth_error (wbounds w) c = Some bs -> bounds_of w c = bs.
Proof. intros H. apply nth_error_map_some in H as (h & N & <-). unfold bounds_of. rewrite N. reflexivity. Qed.

Lemma step_bounds_mono w o : bmono (wbounds w) (wbounds (fst (step w o))).
Proof.
  intros c bs H. apply nth_error_map_some in H as (h & N & <-).
  destruct (step_hcore w o c h N) as (h' & N' & S). unfold wbounds. rewrite (map_nth_error _ _ _ N').
  rewrite (cstar_bounds _ _ S), effects_bounds. reflexivity.
Qed.

Lemma slot_ok w s : Forall (handle_ok (wbounds w)) (w_slots w) -> handle_ok (wbounds w) (slot w s).
Proof.
  intros F. unfold slot. destruct (Nat.lt_ge_cases s (length (w_slots w))) as [L|L].
  - rewrite Forall_forall in F. apply F. apply nth_In; auto.
  - rewrite nth_overflow by auto. exact I.
Qed.

Lemma map_list_set {A B} (g : A -> B) l i x : map g (list_set l i x) = list_set (map g l) i (g x).
Proof. revert i; induction l; intros [|i]; cbn; auto; f_equal; auto. Qed.
Lemma map_upd_inv {A B} (g : A -> B) (f : A -> A) l c : (forall x, g (f x) = g x) -> map g (upd l c f) = map g l.
Proof.
  intros H. unfold upd. destruct (nth_error l c) eqn:N; auto. rewrite map_list_set, H.
  apply list_set_same. apply map_nth_error; auto.
Qed.

Lemma valid_new {A} (g : A -> list f64) l x : valid (map g (l ++ [x])) (length l).
Proof. exists (g x). rewrite map_app, nth_error_app2, map_length, Nat.sub_diag by (rewrite map_length; auto). reflexivity. Qed.

Lemma lh_observe_length bs l v : length (lh_counts (lh_observe bs l v)) = length (lh_counts l).
Proof. unfold lh_observe; cbn. destruct (find_bucket v bs 0); auto. apply bump_length. Qed.
Lemma lh_clear_length l : length (lh_counts (lh_clear l)) = length (lh_counts l).
Proof. cbn. apply repeat_length. Qed.
Lemma lh_new_length n : length (lh_counts (lh_new n)) = n.
Proof. cbn. apply repeat_length. Qed.

Lemma lok_observe B c l bs v : lok B c l -> lok B c (lh_observe bs l v).
Proof. intros (b & H & L). exists b. rewrite lh_observe_length. auto. Qed.
Lemma lok_clear B c l : lok B c l -> lok B c (lh_clear l).
Proof. intros (b & H & L). exists b. rewrite lh_clear_length. auto. Qed.
Lemma lok_new w c : valid (wbounds w) c -> lok (wbounds w) c (lh_new (length (bounds_of w c))).
Proof. intros (b & H). exists b. rewrite lh_new_length, (bounds_of_nth _ _ _ H). auto. Qed.

Lemma nlookup_In {V} k (m : list (N * V)) v : nlookup k m = Some v -> In (k, v) m.
Proof.
  induction m as [|[k' v'] t IH]; cbn; [discriminate|]. destruct (N.eqb_spec k k') as [->|D].
  - intros H; inversion H; auto.
  - auto.
Qed.
Lemma Forall_nremove {V} (P : N * V -> Prop) k m : Forall P m -> Forall P (nremove k m).
Proof. induction 1 as [|[k' v'] t H F IH]; cbn; auto. destruct (k =? k'); auto. Qed.

Lemma vgoc_handle_ok w vi h vals w' hd :
  Forall (vec_ok (wbounds w)) (w_vec w) -> vec_get_or_create w vi h vals = Ok (w', hd) -> handle_ok (wbounds w') hd.
Proof.
  intros WV. unfold vec_get_or_create. destruct (nth_error (w_vec w) vi) as [v|] eqn:NV; [|discriminate].
  assert (VO : vec_ok (wbounds w) v) by (rewrite Forall_forall in WV; apply WV; eapply nth_error_In; eauto).
  destruct (nlookup h (v_children v)) as [c|] eqn:NL.
  - intros H; inversion H; subst. unfold child_handle. unfold vec_ok in VO. destruct (v_kind v); cbn; auto.
    rewrite Forall_forall in VO. apply (VO (h, c)). apply nlookup_In; auto.
  - unfold build_child. destruct (v_kind v).
    + destruct (value_new _ _ _ _); [|discriminate]. intros H; inversion H; subst. exact I.
    + destruct (hcore_new _ _); [|discriminate]. intros H; inversion H; subst. cbn. apply valid_new.
Qed.

Lemma hc_flush_bounds l h : hc_bounds (hc_flush h l) = hc_bounds h.
Proof. apply (apply_heff_bounds h (HBatch l)). Qed.
Lemma hc_observe_bounds v h : hc_bounds (hc_observe h v) = hc_bounds h.
Proof. apply (apply_heff_bounds h (HObs v)). Qed.
Lemma flush_lh_bounds w c l : map hc_bounds (w_h (flush_lh w c l)) = map hc_bounds (w_h w).
Proof. unfold flush_lh; cbn. apply map_upd_inv. intros; apply hc_flush_bounds. Qed.
Lemma hv_fold_bounds cache w : map hc_bounds (w_h (fold_left hv_flush1 cache w)) = map hc_bounds (w_h w).
Proof.
  revert w; induction cache as [|[k [c l]] r IH]; intros w; cbn [fold_left hv_flush1]; auto.
  rewrite IH. apply flush_lh_bounds.
Qed.
Lemma cv_fold_h cache w : w_h (fold_left cv_flush1 cache w) = w_h w.
Proof. apply cv_flush_fold_frame. Qed.

Lemma entry_map_ok B (cache : list (N * (nat * lhist))) a n l l' :
  Forall (entry_ok B) cache -> nlookup a cache = Some (n, l) -> (lok B n l -> lok B n l') ->
  Forall (entry_ok B) (map (fun e => if fst e =? a then (a, (n, l')) else e) cache).
Proof.
  intros F NL K. apply Forall_map. rewrite Forall_forall in *. intros e In1. destruct (fst e =? a); auto.
  unfold entry_ok; cbn. apply K. apply (F (a, (n, l))). apply nlookup_In; auto.
Qed.

Lemma step_slots_ok w o : wok w -> Forall (handle_ok (wbounds (fst (step w o)))) (w_slots (fst (step w o))).
Proof.
  intros [WC WS WV].
  pose proof (step_bounds_mono w o) as M.
  assert (OLD : Forall (handle_ok (wbounds (fst (step w o)))) (w_slots w)).
  { eapply Forall_impl; [|exact WS]. intros h. apply handle_ok_mono; auto. }
  destruct o; unfold step in *; cbv beta iota zeta in *.
  all: repeat dmatch.
  all: cbv beta iota zeta in M, OLD.
  all: subst.
  all: try exact OLD.
  all: try (match goal with H : slot ?ww ?s = _, WS0 : Forall (handle_ok (wbounds ?ww)) (w_slots ?ww) |- _ =>
              let K := fresh "K" in pose proof (slot_ok ww s WS0) as K; rewrite H in K; cbn [handle_ok] in K end).
  all: try (match goal with H : vec_get_or_create ?ww _ _ _ = Ok _, WV0 : Forall (vec_ok (wbounds ?ww)) (w_vec ?ww) |- _ =>
              let VH := fresh "VH" in pose proof (vgoc_handle_ok _ _ _ _ _ _ WV0 H) as VH; apply vgoc_slots in H end).
  all: use_frames.
  all: unfold wbounds in *; world_cbn; fold_slots; slots_rw.
  all: rewrite ?flush_lh_bounds, ?hv_fold_bounds, ?cv_fold_h in *.
  all: try exact OLD.
  all: try (apply Forall_app; split; [exact OLD|constructor; [|constructor]]; cbn [handle_ok]; try exact I).
  all: try (apply Forall_list_set; [exact OLD|]; cbn [handle_ok]; try exact I).
  all: repeat match goal with H : w_h ?x = _ |- context[w_h ?x] => rewrite H end.
  all: rewrite ?map_upd_inv by (intros; apply hc_flush_bounds).
  all: try (first [ apply valid_new | exact VH | exact K | constructor; fail | apply lok_observe; exact K | apply lok_clear; exact K
                  | exact (lok_new _ _ K) | apply Forall_nremove; exact K
                  | eapply entry_map_ok; eauto; apply lok_observe ]).
  - apply Forall_map. eapply Forall_impl; [|exact K]. intros [h [c l]]. apply lok_clear.
  - apply Forall_app; split.
    + eapply Forall_impl; [|exact K]. intros e. apply lok_mono. exact M.
    + constructor; [|constructor]. unfold entry_ok; cbn [fst snd]. apply lok_observe. exact (lok_new w0 c VH).
Qed.

Lemma Forall_upd {A} (P : A -> Prop) l i f : Forall P l -> (forall x, P x -> P (f x)) -> Forall P (upd l i f).
Proof.
  intros F H. unfold upd. destruct (nth_error l i) eqn:N; auto. apply Forall_list_set; auto.
  apply H. rewrite Forall_forall in F. apply F. eapply nth_error_In; eauto.
Qed.

Lemma vgoc_vecs_ok w vi h vals w' hd :
  Forall (vec_ok (wbounds w)) (w_vec w) -> vec_get_or_create w vi h vals = Ok (w', hd) ->
  Forall (vec_ok (wbounds w')) (w_vec w').
Proof.
  intros WV. unfold vec_get_or_create. destruct (nth_error (w_vec w) vi) as [v|] eqn:NV; [|discriminate].
  assert (VO : vec_ok (wbounds w) v) by (rewrite Forall_forall in WV; apply WV; eapply nth_error_In; eauto).
  destruct (nlookup h (v_children v)) as [c|] eqn:NL.
  - intros H; inversion H; subst. auto.
  - unfold build_child. destruct (v_kind v) eqn:KV.
    + destruct (value_new _ _ _ _); [|discriminate]. intros H; inversion H; subst. cbn.
      apply Forall_list_set; auto. unfold vec_ok; cbn. rewrite KV. exact I.
    + destruct (hcore_new _ _); [|discriminate]. intros H; inversion H; subst. unfold wbounds; cbn.
      assert (MM : bmono (map hc_bounds (w_h w)) (map hc_bounds (w_h w ++ [a]))) by (rewrite map_app; apply bmono_app).
      apply Forall_list_set.
      * eapply Forall_impl; [|exact WV]. intros x. apply vec_ok_mono. exact MM.
      * unfold vec_ok in *; cbn. rewrite KV in *. apply Forall_app; split.
        -- eapply Forall_impl; [|exact VO]. intros e. apply valid_mono. exact MM.
        -- constructor; [|constructor]. cbn. apply valid_new.
Qed.

Lemma vec_delete_vecs_ok w vi h w' :
  vec_delete w vi h = Ok w' -> Forall (vec_ok (wbounds w)) (w_vec w) -> Forall (vec_ok (wbounds w')) (w_vec w').
Proof.
  unfold vec_delete. destruct (nth_error (w_vec w) vi) as [v|] eqn:NV; [|discriminate].
  destruct (nlookup h (v_children v)); [|discriminate]. intros H WV; inversion H; subst. unfold wbounds; cbn.
  assert (VO : vec_ok (wbounds w) v) by (rewrite Forall_forall in WV; apply WV; eapply nth_error_In; eauto).
  apply Forall_list_set; auto. unfold vec_ok in *; cbn. destruct (v_kind v); auto. apply Forall_nremove; auto.
Qed.

Lemma vec_create_children o k v : vec_create o k = Ok v -> v_children v = [] .
Proof.
  unfold vec_create. destruct (match k with VKValue _ _ => false | VKHist _ => _ end); [discriminate|].
  destruct (describe o); [|discriminate]. intros H; inversion H; reflexivity.
Qed.
Lemma vec_ok_empty B v : v_children v = [] -> vec_ok B v.
Proof. intros H. unfold vec_ok. rewrite H. destruct (v_kind v); auto. Qed.

Lemma hv_fold_vec cache w : w_vec (fold_left hv_flush1 cache w) = w_vec w.
Proof. apply hv_flush_fold_frame. Qed.
Lemma cv_fold_vec cache w : w_vec (fold_left cv_flush1 cache w) = w_vec w.
Proof. apply cv_flush_fold_frame. Qed.

Lemma step_vecs_ok w o : wok w -> Forall (vec_ok (wbounds (fst (step w o)))) (w_vec (fst (step w o))).
Proof.
  intros [WC WS WV].
  pose proof (step_bounds_mono w o) as M.
  assert (OLD : Forall (vec_ok (wbounds (fst (step w o)))) (w_vec w)).
  { eapply Forall_impl; [|exact WV]. intros h. apply vec_ok_mono; auto. }
  destruct o; unfold step in *; cbv beta iota zeta in *.
  all: repeat dmatch.
  all: cbv beta iota zeta in M, OLD.
  all: subst.
  all: try exact OLD.
  all: try (match goal with H : vec_get_or_create ?ww _ _ _ = Ok _, WV0 : Forall (vec_ok (wbounds ?ww)) (w_vec ?ww) |- _ =>
              let VH := fresh "VH" in pose proof (vgoc_vecs_ok _ _ _ _ _ _ WV0 H) as VH end).
  all: try (match goal with H : vec_delete ?ww _ _ = Ok _ |- _ =>
              let VD := fresh "VD" in pose proof (vec_delete_vecs_ok _ _ _ _ H) as VD; clear H end).
  all: use_frames.
  all: unfold wbounds in *; world_cbn.
  all: rewrite ?flush_lh_bounds, ?hv_fold_bounds, ?cv_fold_h, ?hv_fold_vec, ?cv_fold_vec in *.
  all: repeat match goal with H : w_vec ?x = _ |- context[w_vec ?x] => rewrite H end.
  all: try exact OLD.
  all: try exact VH.
  all: try (apply VD; assumption).
  all: try (apply Forall_app; split; [exact OLD|constructor; [|constructor]]; eapply vec_ok_empty, vec_create_children; eauto).
  all: try (apply Forall_upd; [exact OLD|]; intros; apply vec_ok_empty; reflexivity).
  all: try (apply VD; rewrite ?map_upd_inv by (intros; apply hc_flush_bounds); assumption).
Qed.

Lemma Forall_upd_at {A} (P : A -> Prop) l i f :
  Forall P l -> (forall x, nth_error l i = Some x -> P x -> P (f x)) -> Forall P (upd l i f).
Proof.
  intros F H. unfold upd. destruct (nth_error l i) eqn:N; auto. apply Forall_list_set; auto.
  apply H; auto. rewrite Forall_forall in F. apply F. eapply nth_error_In; eauto.
Qed.

Lemma flush_lh_cores_ok w c l : Forall core_ok (w_h w) -> lok (wbounds w) c l -> Forall core_ok (w_h (flush_lh w c l)).
Proof.
  intros WC (bs & N & L). unfold flush_lh; cbn. apply Forall_upd_at; auto. intros x Nx Cx.
  apply core_ok_flush; auto. unfold wbounds in N. rewrite (map_nth_error _ _ _ Nx) in N. inversion N; subst. exact L.
Qed.

Lemma hv_fold_cores_ok cache : forall w, Forall core_ok (w_h w) -> Forall (entry_ok (wbounds w)) cache ->
  Forall core_ok (w_h (fold_left hv_flush1 cache w)).
Proof.
  induction cache as [|[k [c l]] r IH]; intros w WC F; cbn [fold_left hv_flush1]; auto. inversion F; subst.
  apply IH.
  - apply flush_lh_cores_ok; auto.
  - unfold wbounds. rewrite flush_lh_bounds. auto.
Qed.

Lemma vgoc_cores_ok w vi h vals w' hd :
  Forall core_ok (w_h w) -> vec_get_or_create w vi h vals = Ok (w', hd) -> Forall core_ok (w_h w').
Proof.
  intros WC. unfold vec_get_or_create. destruct (nth_error (w_vec w) vi) as [v|] eqn:NV; [|discriminate].
  destruct (nlookup h (v_children v)) as [c|] eqn:NL.
  - intros H; inversion H; subst. auto.
  - unfold build_child. destruct (v_kind v) eqn:KV.
    + destruct (value_new _ _ _ _); [|discriminate]. intros H; inversion H; subst. exact WC.
    + destruct (hcore_new _ _) eqn:HN; [|discriminate]. intros H; inversion H; subst. cbn.
      apply Forall_app; split; auto. constructor; [|constructor]. apply fresh_core_ok. eexists; eexists; eauto.
Qed.

Lemma collect_hist_cores_ok w c m w' : Forall core_ok (w_h w) -> collect_hist w c = Some (m, w') -> Forall core_ok (w_h w').
Proof.
  intros WC. unfold collect_hist. destruct (nth_error (w_h w) c) as [h|] eqn:N; [|discriminate].
  destruct (hist_metric h) as [[m0 h']|] eqn:HM; [|discriminate]. intros H; inversion H; subst; cbn.
  apply Forall_list_set; auto. eapply collect_heq; eauto. rewrite Forall_forall in WC. apply WC. eapply nth_error_In; eauto.
Qed.
Lemma collect_children_cores_ok k cs : forall w ms w', Forall core_ok (w_h w) -> collect_children w k cs = Some (ms, w') ->
  Forall core_ok (w_h w').
Proof.
  induction cs as [|[hh c] r IH]; intros w ms w' WC; cbn.
  - intros H; inversion H; subst; auto.
  - destruct k.
    + destruct (nth_error (w_v w) c); [|discriminate].
      destruct (collect_children w (VKValue t k) r) as [[ms1 w1]|] eqn:E; [|discriminate].
      intros H; inversion H; subst. eapply IH; eauto.
    + destruct (collect_hist w c) as [[m w1]|] eqn:E1; [|discriminate].
      destruct (collect_children w1 (VKHist buckets) r) as [[ms1 w2]|] eqn:E2; [|discriminate].
      intros H; inversion H; subst. eapply IH; [|eauto]. eapply collect_hist_cores_ok; eauto.
Qed.
Lemma collect_collector_cores_ok w c fs w' : Forall core_ok (w_h w) -> collect_collector w c = Some (fs, w') -> Forall core_ok (w_h w').
Proof.
  intros WC. unfold collect_collector. destruct c.
  - destruct (nth_error (w_v w) c); [|discriminate]. intros H; inversion H; subst; auto.
  - destruct (nth_error (w_h w) c); [|discriminate]. destruct (collect_hist w c) as [[m w1]|] eqn:E; [|discriminate].
    intros H; inversion H; subst. eapply collect_hist_cores_ok; eauto.
  - destruct (nth_error (w_vec w) v) as [vc|]; [|discriminate].
    destruct (collect_children w (v_kind vc) (v_children vc)) as [[ms w1]|] eqn:E; [|discriminate].
    intros H; inversion H; subst. eapply collect_children_cores_ok; eauto.
  - intros H; inversion H; subst; auto.
  - intros H; inversion H; subst; auto.
Qed.
Lemma collect_all_cores_ok cs : forall w fs w', Forall core_ok (w_h w) -> collect_all w cs = Some (fs, w') -> Forall core_ok (w_h w').
Proof.
  induction cs as [|[i c] r IH]; intros w fs w' WC; cbn.
  - intros H; inversion H; subst; auto.
  - destruct (collect_collector w c) as [[fs1 w1]|] eqn:E1; [|discriminate].
    destruct (collect_all w1 r) as [[fs2 w2]|] eqn:E2; [|discriminate].
    intros H; inversion H; subst. eapply IH; [|eauto]. eapply collect_collector_cores_ok; eauto.
Qed.

Lemma step_cores_ok w o : wok w -> Forall core_ok (w_h (fst (step w o))).
Proof.
  intros [WC WS WV].
  destruct o; unfold step in *; cbv beta iota zeta in *.
  all: repeat dmatch.
  all: subst.
  all: try exact WC.
  all: try (match goal with H : slot ?ww ?s = _, WS0 : Forall (handle_ok (wbounds ?ww)) (w_slots ?ww) |- _ =>
              let K := fresh "K" in pose proof (slot_ok ww s WS0) as K; rewrite H in K; cbn [handle_ok] in K end).
  all: try (match goal with H : vec_get_or_create _ _ _ _ = Ok _ |- _ => apply (vgoc_cores_ok _ _ _ _ _ _ WC) in H end).
  all: try (match goal with H : collect_collector _ _ = Some _ |- _ => apply (collect_collector_cores_ok _ _ _ _ WC) in H end).
  all: try (match goal with H : collect_all _ _ = Some _ |- _ => apply (collect_all_cores_ok _ _ _ _ WC) in H end).
  all: use_frames.
  all: world_cbn.
  all: repeat match goal with H : w_h ?x = _ |- context[w_h ?x] => rewrite H end.
  all: try assumption.
  all: rewrite ?cv_fold_h.
  all: try assumption.
  all: try (apply Forall_app; split; [exact WC|constructor; [apply fresh_core_ok; eexists; eexists; eauto|constructor]]).
  all: try (apply Forall_upd; [exact WC|intros; apply core_ok_observe; auto]).
  all: try (exact (flush_lh_cores_ok _ _ _ WC K)).
  all: try (exact (flush_lh_cores_ok _ _ _ WC (lok_observe _ _ _ _ _ K))).
  all: try (exact (hv_fold_cores_ok _ _ WC K)).
  all: try (match goal with NL : nlookup ?a ?cache = Some (?n, ?l) |- _ =>
              apply nlookup_In in NL; rewrite Forall_forall in K; exact (flush_lh_cores_ok _ _ _ WC (K _ NL)) end).
Qed.

Theorem step_wok w o : wok w -> wok (fst (step w o)).
Proof. intros W. constructor; [apply step_cores_ok|apply step_slots_ok|apply step_vecs_ok]; exact W. Qed.

Theorem run_wok w ops : wok w -> wok (run_world w ops).
Proof. revert w; induction ops as [|o r IH]; intros w W; cbn; auto. apply IH, step_wok, W. Qed.

(* ---------- histories of one histogram core ---------- *)
Lemma lok_len w c l h : lok (wbounds w) c l -> nth_error (w_h w) c = Some h -> length (lh_counts l) = length (hc_bounds h).
Proof. intros (bs & N & L) Nh. unfold wbounds in N. rewrite (map_nth_error _ _ _ Nh) in N. inversion N; subst. exact L. Qed.

Lemma on_core_batch_ok w c' c l h : lok (wbounds w) c' l -> nth_error (w_h w) c = Some h ->
  Forall (eff_ok (length (hc_bounds h))) (on_core c' c [HBatch l]).
Proof.
  intros K Nh. unfold on_core. destruct (Nat.eqb_spec c' c) as [->|D]; constructor; [|constructor].
  cbn. eapply lok_len; eauto.
Qed.
Lemma on_core_obs_ok n c' c v : Forall (eff_ok n) (on_core c' c [HObs v]).
Proof. unfold on_core. destruct (Nat.eqb c' c); repeat constructor. Qed.
Lemma cache_batches_ok w c cache h : Forall (entry_ok (wbounds w)) cache -> nth_error (w_h w) c = Some h ->
  Forall (eff_ok (length (hc_bounds h))) (cache_batches c cache).
Proof.
  intros F Nh. unfold cache_batches. induction F as [|[k [c' l]] r K F IH]; cbn [flat_map]; [constructor|].
  apply Forall_app; split; auto. cbn [fst snd]. eapply on_core_batch_ok; eauto.
Qed.

Lemma heffects_ok w o c h : wok w -> nth_error (w_h w) c = Some h -> Forall (eff_ok (length (hc_bounds h))) (heffects w o c).
Proof.
  intros [WC WS WV] Nh. destruct o; unfold heffects; try (constructor; fail).
  all: match goal with |- context[slot ?ww ?s] => pose proof (slot_ok ww s WS) as K; destruct (slot ww s) eqn:E end.
  all: cbn [handle_ok] in K; try (constructor; fail); try apply on_core_obs_ok.
  all: try (eapply on_core_batch_ok; eauto; fail).
  all: try (eapply cache_batches_ok; eauto; fail).
  - destruct (nth_error (w_vec w) v); [|constructor]. destruct (hash_label_values _ _); [|constructor].
    destruct (nlookup a cache) as [[c' l]|] eqn:NL; [|constructor].
    eapply on_core_batch_ok; eauto. rewrite Forall_forall in K. apply (K _ (nlookup_In _ _ _ NL)).
  - unfold on_core. destruct (Nat.eqb c0 c); [|constructor]. destruct m; repeat constructor.
  - destruct m; eapply on_core_batch_ok; eauto; apply lok_observe; auto.
Qed.

(* one step: the core at [c] is, up to the flip, the old core after the listed effects *)
Theorem step_hcore_heq w o c h : wok w -> nth_error (w_h w) c = Some h ->
  exists h', nth_error (w_h (fst (step w o))) c = Some h' /\ heq h' (fold_left apply_heff (heffects w o c) h).
Proof.
  intros W Nh. destruct (step_hcore w o c h Nh) as (h' & N' & S). exists h'. split; auto.
  apply cstar_heq; auto. apply core_ok_effects.
  - pose proof (wok_cores _ W) as WC. rewrite Forall_forall in WC. apply WC. eapply nth_error_In; eauto.
  - apply heffects_ok; auto.
Qed.

(* any history: the shared histogram is, up to the flip, the fold of the direct observations and
   the flushed batches in the order applied - collections in between change nothing *)
Theorem world_hist_history w ops c h : wok w -> nth_error (w_h w) c = Some h ->
  exists h', nth_error (w_h (run_world w ops)) c = Some h'
             /\ heq h' (fold_left apply_heff (heffects_hist w ops c) h).
Proof.
  revert w h; induction ops as [|o r IH]; intros w h W Nh; cbn [run_world heffects_hist fold_left].
  - exists h; split; auto. apply heq_refl.
  - destruct (step_hcore_heq w o c h W Nh) as (h1 & N1 & Q1).
    destruct (IH _ _ (step_wok w o W) N1) as (h' & N' & Q'). exists h'. split; auto.
    rewrite fold_left_app. eapply heq_trans; [exact Q'|]. apply heq_effects. exact Q1.
Qed.

(* what the accessors and a collection show after any history *)
Corollary world_hist_observables w ops c h : wok w -> nth_error (w_h w) c = Some h ->
  exists h', nth_error (w_h (run_world w ops)) c = Some h'
    /\ hc_sample_count h' = hc_sample_count h + effs_count (heffects_hist w ops c)
    /\ hc_sample_sum h' = fold_left PrimFloat.add (effs_addends (heffects_hist w ops c)) (hc_sample_sum h)
    /\ option_map fst (hist_metric h') = option_map fst (hist_metric (fold_left apply_heff (heffects_hist w ops c) h)).
Proof.
  intros W Nh. destruct (world_hist_history w ops c h W Nh) as (h' & N' & Q). exists h'. split; auto.
  rewrite (heq_count _ _ Q), (heq_sum _ _ Q), effects_count, effects_sum. repeat split; auto. apply heq_collect_view; auto.
Qed.

(* a collection of a core of a well-formed world returns unless the observation count passed 2^64 *)
Lemma core_ok_collect_returns h : core_ok h -> hc_total h = sh_count (hc_shard h (hc_hot h)) -> exists m h', hist_metric h = Some (m, h').
Proof.
  intros C E. destruct (hc_proto_fields h (eq_sym E)) as (h' & P & _). unfold hist_metric. rewrite P. eauto.
Qed.

(* ================================================================ Part C: local vectors *)
(* a vector flush hands over every cache entry: none is skipped *)
Lemma cache_amounts_complete c cache h val :
  In (h, (c, val)) cache -> num_is_zero val = false -> In (VAddE val) (cache_amounts c cache).
Proof.
  intros I Z. unfold cache_amounts. apply in_flat_map. exists (h, (c, val)). split; auto.
  cbn. unfold flushed_amount, on_core. rewrite Nat.eqb_refl, Z. left; auto.
Qed.
Lemma cache_batches_complete c cache h l : In (h, (c, l)) cache -> In (HBatch l) (cache_batches c cache).
Proof.
  intros I. unfold cache_batches. apply in_flat_map. exists (h, (c, l)). split; auto.
  cbn. unfold on_core. rewrite Nat.eqb_refl. left; auto.
Qed.
(* and nothing else: every handed-over amount belongs to an entry of that child *)
Lemma cache_amounts_sound c cache e : In e (cache_amounts c cache) -> exists h val, In (h, (c, val)) cache /\ e = VAddE val.
Proof.
  unfold cache_amounts. intros I. apply in_flat_map in I as ([h [c' val]] & I1 & I2). cbn in I2.
  unfold flushed_amount, on_core in I2. destruct (Nat.eqb_spec c' c) as [->|D]; [|contradiction].
  destruct (num_is_zero val); [contradiction|]. destruct I2 as [<-|[]]. eauto.
Qed.
Lemma cache_batches_sound c cache e : In e (cache_batches c cache) -> exists h l, In (h, (c, l)) cache /\ e = HBatch l.
Proof.
  unfold cache_batches. intros I. apply in_flat_map in I as ([h [c' l]] & I1 & I2). cbn in I2.
  unfold on_core in I2. destruct (Nat.eqb_spec c' c) as [->|D]; [|contradiction]. destruct I2 as [<-|[]]. eauto.
Qed.

(* an update through a local vector changes the addressed cache entry only (existing key) *)
Lemma lv_inc_existing w s vi cache v vals d h c val :
  slot w s = HLocalCounterVec vi cache -> nth_error (w_vec w) vi = Some v ->
  hash_label_values (v_desc v) vals = Ok h -> nlookup h cache = Some (c, val) ->
  step w (OpLvInc s vals d)
  = (put_slot w s (HLocalCounterVec vi (map (fun e => if fst e =? h then (h, (c, num_add val d)) else e) cache)), OUnit).
Proof. intros E NV HH NL. unfold step. rewrite E, NV, HH, NL. reflexivity. Qed.

Lemma lv_observe_existing w s vi cache v vals x h c l :
  slot w s = HLocalHistVec vi cache -> nth_error (w_vec w) vi = Some v ->
  hash_label_values (v_desc v) vals = Ok h -> nlookup h cache = Some (c, l) ->
  step w (OpLvObserve s vals x)
  = (put_slot w s (HLocalHistVec vi (map (fun e => if fst e =? h then (h, (c, lh_observe (bounds_of w c) l x)) else e) cache)), OUnit).
Proof. intros E NV HH NL. unfold step. rewrite E, NV, HH, NL. reflexivity. Qed.

(* a new key: the child is looked up or created in the vector and a fresh local is cached for it *)
Lemma lv_inc_new w s vi cache v vals d h w1 c :
  slot w s = HLocalCounterVec vi cache -> nth_error (w_vec w) vi = Some v ->
  hash_label_values (v_desc v) vals = Ok h -> nlookup h cache = None ->
  vec_get_or_create w vi h vals = Ok (w1, HValue c) ->
  step w (OpLvInc s vals d)
  = (put_slot w1 s (HLocalCounterVec vi (cache ++ [(h, (c, num_add (zero_like d) d))])), OUnit).
Proof. intros E NV HH NL G. unfold step. rewrite E, NV, HH, NL, G. reflexivity. Qed.

Lemma lv_observe_new w s vi cache v vals x h w1 c :
  slot w s = HLocalHistVec vi cache -> nth_error (w_vec w) vi = Some v ->
  hash_label_values (v_desc v) vals = Ok h -> nlookup h cache = None ->
  vec_get_or_create w vi h vals = Ok (w1, HHist c) ->
  step w (OpLvObserve s vals x)
  = (put_slot w1 s (HLocalHistVec vi (cache ++ [(h, (c, lh_observe (bounds_of w1 c) (lh_new (length (bounds_of w1 c))) x))])), OUnit).
Proof. intros E NV HH NL G. unfold step. rewrite E, NV, HH, NL, G. reflexivity. Qed.

(* removing label values through a local histogram vector first hands the cached batch over *)
Lemma lv_remove_flushes w s vi cache v vals h c l :
  slot w s = HLocalHistVec vi cache -> nth_error (w_vec w) vi = Some v ->
  hash_label_values (v_desc v) vals = Ok h -> nlookup h cache = Some (c, l) ->
  heffects w (OpLvRemove s vals) c = [HBatch l].
Proof. intros E NV HH NL. unfold heffects. rewrite E, NV, HH, NL. unfold on_core. rewrite Nat.eqb_refl. reflexivity. Qed.

(* ================================================================ the local histogram handle *)
Fixpoint lh_run (w : world) (ops : list op) (s c : nat) (l : lhist) : option lhist :=
  match ops with
  | [] => Some l
  | o :: r => match lh_next w o s c l with Some l' => lh_run (fst (step w o)) r s c l' | None => None end
  end.

Theorem local_hist_history w ops s c l :
  slot w s = HLocalHist c l -> slot (run_world w ops) s = lh_handle c (lh_run w ops s c l).
Proof.
  revert w l; induction ops as [|o r IH]; intros w l H; cbn [run_world lh_run]; auto.
  pose proof (step_local_hist w o s c l H) as S1.
  destruct (lh_next w o s c l) as [l'|]; cbn [lh_handle] in S1.
  - apply IH. exact S1.
  - cbn [lh_handle]. apply run_slot_dead; auto.
    assert (L : (s < length (w_slots w))%nat) by (apply slot_lt; rewrite H; discriminate).
    pose proof (step_slots_length w o). lia.
Qed.

(* the bounds a local histogram buckets by are those of its shared core, for ever *)
Lemma run_bounds_of w ops c h : nth_error (w_h w) c = Some h -> bounds_of (run_world w ops) c = hc_bounds h.
Proof.
  revert w h; induction ops as [|o r IH]; intros w h N; cbn [run_world].
  - unfold bounds_of. rewrite N. reflexivity.
  - destruct (step_hcore w o c h N) as (h' & N' & S). rewrite (IH _ _ N').
    rewrite (cstar_bounds _ _ S), effects_bounds. reflexivity.
Qed.

(* between two flushes / clears the local histogram is the fold of its observations, in order *)
Lemma lh_run_observes vs : forall w s c l, slot w s = HLocalHist c l ->
  lh_run w (map (OpObserve s) vs) s c l = Some (fold_left (lh_observe (bounds_of w c)) vs l).
Proof.
  induction vs as [|v r IH]; intros w s c l H; cbn [map lh_run lh_next fold_left]; auto.
  rewrite Nat.eqb_refl.
  assert (L : (s < length (w_slots w))%nat) by (apply slot_lt; rewrite H; discriminate).
  assert (E : fst (step w (OpObserve s v)) = put_slot w s (HLocalHist c (lh_observe (bounds_of w c) l v))).
  { unfold step. rewrite H. reflexivity. }
  rewrite E. rewrite IH by (apply slot_put_eq; auto). reflexivity.
Qed.

(* ================================================================ what a flush hands over *)
Lemma flush_counter_amount w s c val c' : slot w s = HLocalCounter c val ->
  veffects w (OpFlush s) c' = if Nat.eqb c c' then (if num_is_zero val then [] else [VAddE val]) else [].
Proof. intros H. unfold veffects. rewrite H. reflexivity. Qed.
Lemma flush_hist_batch w s c l c' : slot w s = HLocalHist c l ->
  heffects w (OpFlush s) c' = if Nat.eqb c c' then [HBatch l] else [].
Proof. intros H. unfold heffects. rewrite H. reflexivity. Qed.
Lemma flush_counter_vec_amounts w s vi cache c' : slot w s = HLocalCounterVec vi cache ->
  veffects w (OpFlush s) c' = cache_amounts c' cache.
Proof. intros H. unfold veffects. rewrite H. reflexivity. Qed.
Lemma flush_hist_vec_batches w s vi cache c' : slot w s = HLocalHistVec vi cache ->
  heffects w (OpFlush s) c' = cache_batches c' cache /\ heffects w (OpDrop s) c' = cache_batches c' cache.
Proof. intros H. unfold heffects. rewrite H. auto. Qed.
(* local updates, reset / clear and clone are invisible to every shared core *)
Lemma local_ops_no_effect w o c :
  match o with
  | OpClear _ | OpClone _ | OpLocal _ | OpLvInc _ _ _ | OpLvObserve _ _ _ | OpTimer _ | OpGet _ | OpSampleSum _ | OpSampleCount _ => True
  | _ => False
  end -> veffects w o c = [] /\ heffects w o c = [].
Proof. destruct o; intros []; auto. Qed.
Lemma local_update_no_effect w s c :
  (exists c' val, slot w s = HLocalCounter c' val) \/ (exists c' l, slot w s = HLocalHist c' l) ->
  (forall d, veffects w (OpIncBy s d) c = [] /\ veffects w (OpInc s) c = [])
  /\ (forall v, heffects w (OpObserve s v) c = []) /\ (forall a b, heffects w (OpClosure s a b) c = []).
Proof.
  intros [(c' & val & H)|(c' & l & H)]; unfold veffects, heffects; rewrite H; auto.
Qed.
