(* C06  Registry admission is exact and a failed registration leaves no trace (lemmas).

   Layers:
   0. list / association-list / collector-id facts;
   1. the per-descriptor loop of RegistryCore::register restated as a verdict function on
      (registry tables, descriptors already seen in this collector, descriptor) - no staging,
      no accumulators ([reg_register_verdict]);
   2. an ABSTRACT registry (currently registered collectors as lists of descriptors + every
      descriptor ever registered) that never looks at a hash: descriptors are compared by
      (fq name, constant values), signatures by (help, constant-name set, variable-name set);
   3. the abstraction relation [reg_abs], its preservation by register / unregister, and the
      agreement of verdicts under the three "no collision" hypotheses;
   4. histories; the world-level no-op statement; the refutation by the FNV-1a collision. *)
Require Import PV.Base.Prelude PV.Base.StrFacts PV.Base.SortFacts PV.Base.Utf8 PV.Base.Fnv PV.Base.Utf8Facts PV.Base.F64.
Require Import PV.Model.Proto PV.Model.Desc PV.Model.Value PV.Model.Hist PV.Model.Vec PV.Model.Registry PV.Model.World.
Require Import PV.Proofs.DescFacts.
From Coq Require Import Permutation Sorting.Sorted.
Open Scope N_scope.

(* ====================================================================================== *)
(* 0. generic facts                                                                        *)
(* ====================================================================================== *)
Lemma memN_rev x l : memN x (rev l) = memN x l.
Proof.
  apply eq_true_iff_eq. rewrite !memN_In. rewrite <- in_rev. tauto.
Qed.
Lemma memN_map_existsb {A} (f : A -> N) x l : memN x (map f l) = existsb (fun a => x =? f a) l.
Proof. induction l as [|a l IH]; cbn; auto. rewrite IH. reflexivity. Qed.
Lemma existsb_ext_in {A} (f g : A -> bool) l : (forall x, In x l -> f x = g x) -> existsb f l = existsb g l.
Proof.
  induction l as [|a l IH]; cbn; auto. intros H. rewrite (H a (or_introl eq_refl)). f_equal. apply IH. intros; apply H; auto.
Qed.
Lemma existsb_false_iff {A} (f : A -> bool) l : existsb f l = false <-> forall x, In x l -> f x = false.
Proof.
  split.
  - intros H x Hx. destruct (f x) eqn:E; auto. rewrite <- H. symmetry. apply existsb_exists. eauto.
  - intros H. destruct (existsb f l) eqn:E; auto. apply existsb_exists in E as (x & Hx & Hfx). rewrite (H x Hx) in Hfx. discriminate.
Qed.

Lemma alookup_app {V} k (a b : list (str * V)) :
  alookup k (a ++ b) = match alookup k a with Some v => Some v | None => alookup k b end.
Proof. induction a as [|[k' v'] a IH]; cbn; auto. destruct (str_eqb k k'); auto. Qed.

Lemma alookup_map_replace {V} n k (v : V) m :
  alookup n (map (fun kv => if str_eqb k (fst kv) then (fst kv, v) else kv) m)
  = if str_eqb n k then match alookup k m with Some _ => Some v | None => None end else alookup n m.
Proof.
  induction m as [|[k' v'] m IH]; cbn [map alookup fst].
  - destruct (str_eqb n k); reflexivity.
  - destruct (str_eqb k k') eqn:E1; cbn [fst].
    + apply str_eqb_eq in E1. subst k'. destruct (str_eqb n k) eqn:E2; auto.
    + destruct (str_eqb n k') eqn:E2.
      * apply str_eqb_eq in E2. subst k'. rewrite str_eqb_sym, E1. reflexivity.
      * exact IH.
Qed.
Lemma alookup_ainsert {V} n k (v : V) m :
  alookup n (ainsert k v m) = if str_eqb n k then Some v else alookup n m.
Proof.
  unfold ainsert. destruct (alookup k m) as [v0|] eqn:E.
  - rewrite alookup_map_replace, E. reflexivity.
  - rewrite alookup_app. cbn [alookup]. destruct (str_eqb n k) eqn:E2.
    + apply str_eqb_eq in E2. subst n. rewrite E. reflexivity.
    + destruct (alookup n m); reflexivity.
Qed.
Lemma ainsert_In {V} n h k (v : V) m : In (n, h) (ainsert k v m) -> (n = k /\ h = v) \/ In (n, h) m.
Proof.
  unfold ainsert. destruct (alookup k m) as [v0|].
  - intros H. apply in_map_iff in H as ([k' v'] & E & Hin). cbn [fst] in E. destruct (str_eqb k k') eqn:E1.
    + apply str_eqb_eq in E1. inversion E; subst. auto.
    + inversion E; subst. auto.
  - intros H. apply in_app_or in H as [H|[H|[]]]; auto. inversion H; auto.
Qed.
Lemma alookup_some_key {V} k (m : list (str * V)) : In k (map fst m) -> exists v, alookup k m = Some v.
Proof.
  intros H. destruct (alookup k m) as [v|] eqn:E; eauto. apply alookup_None in E. contradiction.
Qed.

Definition ains {V} (m : list (str * V)) (kv : str * V) := ainsert (fst kv) (snd kv) m.
Lemma alookup_fold_ainsert {V} n (kvs : list (str * V)) : forall m,
  alookup n (fold_left ains kvs m) = match alookup n (rev kvs) with Some v => Some v | None => alookup n m end.
Proof.
  induction kvs as [|[k v] kvs IH]; intros m; cbn [fold_left rev]; auto.
  rewrite IH, alookup_app. destruct (alookup n (rev kvs)); auto. unfold ains. cbn [fst snd alookup].
  rewrite alookup_ainsert. destruct (str_eqb n k); auto.
Qed.

(* maps keyed by N *)
Lemma nlookup_None {V} k (m : list (N * V)) : nlookup k m = None <-> ~ In k (map fst m).
Proof.
  induction m as [|[k' v'] m IH]; cbn; [tauto|]. destruct (k =? k') eqn:E.
  - apply N.eqb_eq in E. subst. split; [discriminate|tauto].
  - apply N.eqb_neq in E. rewrite IH. split; intros H; [intros [H1|H1]; [congruence|tauto]|tauto].
Qed.
Lemma nlookup_Some_In {V} k (m : list (N * V)) v : nlookup k m = Some v -> In (k, v) m.
Proof.
  induction m as [|[k' v'] m IH]; cbn; [discriminate|]. destruct (k =? k') eqn:E; intros H; auto.
  apply N.eqb_eq in E. inversion H; subst. auto.
Qed.
Lemma nlookup_in_keys {V} k (m : list (N * V)) : In k (map fst m) -> exists v, nlookup k m = Some v.
Proof. intros H. destruct (nlookup k m) eqn:E; eauto. apply nlookup_None in E. contradiction. Qed.
Lemma nremove_In {V} k (m : list (N * V)) x : In x (nremove k m) <-> In x m /\ fst x <> k.
Proof.
  induction m as [|[k' v'] m IH]; cbn; [tauto|]. destruct (k =? k') eqn:E.
  - apply N.eqb_eq in E. subst k'. rewrite IH. split; [tauto|]. intros [[H|H] Hn]; auto. subst x. cbn in Hn. congruence.
  - apply N.eqb_neq in E. cbn. rewrite IH. split.
    + intros [H|H]; [subst x; cbn; split; auto|tauto].
    + intros [[H|H] Hn]; auto.
Qed.
Lemma nremove_map {A V} (f : A -> N * V) k (l : list A) :
  nremove k (map f l) = map f (filter (fun a => negb (fst (f a) =? k)) l).
Proof.
  induction l as [|a l IH]; cbn [map nremove filter]; auto. destruct (f a) as [k' v'] eqn:E. cbn [fst].
  rewrite (N.eqb_sym k' k). destruct (k =? k'); cbn [negb map]; rewrite IH; auto. rewrite E. reflexivity.
Qed.
Lemma nlookup_nremove_same {V} k (m : list (N * V)) : nlookup k (nremove k m) = None.
Proof. apply nlookup_None. intros H. apply in_map_iff in H as (x & E & Hx). apply nremove_In in Hx as [_ Hn]. congruence. Qed.
Lemma nlookup_nremove_other {V} k k' (m : list (N * V)) : k' <> k -> nlookup k' (nremove k m) = nlookup k' m.
Proof.
  intros Hn. induction m as [|[k0 v0] m IH]; cbn; auto. destruct (k =? k0) eqn:E.
  - apply N.eqb_eq in E. subst k0. rewrite IH. destruct (k' =? k) eqn:E2; auto. apply N.eqb_eq in E2. congruence.
  - cbn. rewrite IH. reflexivity.
Qed.

(* the collector id: FNV-1a over the SORTED descriptor ids, so it depends only on the set of ids
   (before commit edcf206 it was their wrapping sum, which collides for ordinary collectors) *)
Lemma Nleb_total x y : N.leb x y = true \/ N.leb y x = true.
Proof. destruct (N.leb x y) eqn:E; auto. right. apply N.leb_le. apply N.leb_gt in E. lia. Qed.
Lemma Nleb_trans x y z : N.leb x y = true -> N.leb y z = true -> N.leb x z = true.
Proof. rewrite !N.leb_le. lia. Qed.
Lemma ids_hash_perm l l' : Permutation l l' -> ids_hash l = ids_hash l'.
Proof.
  intros P. unfold ids_hash. f_equal. f_equal. apply (sort_by_perm_inv N.leb Nleb_total Nleb_trans); auto.
  intros x y _ _ H1 H2. apply N.leb_le in H1, H2. lia.
Qed.
Lemma ids_hash_rev l : ids_hash (rev l) = ids_hash l.
Proof. apply ids_hash_perm. apply Permutation_sym, Permutation_rev. Qed.

(* the distinct ids of a collector, in order of first occurrence *)
Lemma distinct_ids_nodup_gen ds : forall acc,
  NoDup (map d_id ds) -> (forall d, In d ds -> ~ In (d_id d) acc) -> distinct_ids ds acc = rev acc ++ map d_id ds.
Proof.
  induction ds as [|d ds IH]; intros acc ND Hd; cbn [distinct_ids map].
  - rewrite app_nil_r. reflexivity.
  - assert (E : memN (d_id d) acc = false) by (apply memN_false; apply Hd; left; auto). rewrite E.
    inversion ND as [|? ? Hn ND']; subst. rewrite IH; auto.
    + cbn [rev]. rewrite <- app_assoc. reflexivity.
    + intros d' Hd' [H|H]; [|eapply Hd; [right; exact Hd'|exact H]]. apply Hn. rewrite H. apply in_map. exact Hd'.
Qed.
Lemma distinct_ids_nodup ds : NoDup (map d_id ds) -> distinct_ids ds [] = map d_id ds.
Proof. intros ND. rewrite distinct_ids_nodup_gen; auto. Qed.
Lemma distinct_ids_spec ds : forall acc, NoDup acc ->
  NoDup (distinct_ids ds acc) /\ forall i, In i (distinct_ids ds acc) <-> In i acc \/ In i (map d_id ds).
Proof.
  induction ds as [|d ds IH]; intros acc ND; cbn [distinct_ids map].
  - split; [apply NoDup_rev; auto|]. intros i. rewrite <- in_rev. cbn. tauto.
  - destruct (memN (d_id d) acc) eqn:E.
    + destruct (IH acc ND) as [A B]. split; auto. intros i. rewrite B. cbn. apply memN_In in E.
      split; [tauto|]. intros [H|[H|H]]; auto. subst. auto.
    + apply memN_false in E. destruct (IH (d_id d :: acc)) as [A B]; [constructor; auto|]. split; auto.
      intros i. rewrite B. cbn. tauto.
Qed.
Lemma distinct_ids_In ds i : In i (distinct_ids ds []) <-> In i (map d_id ds).
Proof. destruct (distinct_ids_spec ds [] (NoDup_nil _)) as [_ H]. rewrite H. cbn. tauto. Qed.
Lemma distinct_ids_NoDup ds : NoDup (distinct_ids ds []).
Proof. apply (distinct_ids_spec ds [] (NoDup_nil _)). Qed.

(* collectors with the same set of descriptor ids have the same collector id *)
Lemma collector_id_same_set ds1 ds2 :
  (forall i, In i (map d_id ds1) <-> In i (map d_id ds2)) -> collector_id ds1 = collector_id ds2.
Proof.
  intros H. unfold collector_id. apply ids_hash_perm. apply NoDup_Permutation; try apply distinct_ids_NoDup.
  intros i. rewrite !distinct_ids_In. apply H.
Qed.
Lemma collector_id_nodup ds : NoDup (map d_id ds) -> collector_id ds = ids_hash (map d_id ds).
Proof. intros ND. unfold collector_id. rewrite distinct_ids_nodup; auto. Qed.

(* ====================================================================================== *)
(* 1. the registration loop as a verdict function                                          *)
(* ====================================================================================== *)
Definition clashes (labels : option (list (str * str))) (d : Desc) : bool :=
  match labels with
  | Some common => existsb (fun n => match alookup n common with Some _ => true | None => false end) (desc_label_names d)
  | None => false
  end.

(* the first error among the descriptors of a collector, given a per-descriptor verdict that
   may look at the descriptors that precede it in the collector *)
Fixpoint first_by (V : list Desc -> Desc -> option err) (pre ds : list Desc) : option err :=
  match ds with
  | [] => None
  | d :: rest => match V pre d with Some e => Some e | None => first_by V (pre ++ [d]) rest end
  end.

Lemma first_by_Some V ds : forall pre e,
  first_by V pre ds = Some e <->
  exists a d b, ds = a ++ d :: b /\ first_by V pre a = None /\ V (pre ++ a) d = Some e.
Proof.
  induction ds as [|x ds IH]; intros pre e; cbn [first_by].
  - split; [discriminate|]. intros (a & d & b & E & _). destruct a; discriminate.
  - destruct (V pre x) as [e0|] eqn:Ex.
    + split.
      * intros H. exists [], x, ds. rewrite app_nil_r. cbn. split; auto. split; auto. congruence.
      * intros (a & d & b & E & Ha & Hd). destruct a as [|y a]; cbn in E; inversion E; subst.
        -- rewrite app_nil_r in Hd. congruence.
        -- cbn [first_by] in Ha. rewrite Ex in Ha. discriminate.
    + rewrite IH. split.
      * intros (a & d & b & E & Ha & Hd). exists (x :: a), d, b. subst ds. cbn [app first_by]. rewrite Ex.
        rewrite <- app_assoc in Hd. cbn [app] in Hd. auto.
      * intros (a & d & b & E & Ha & Hd). destruct a as [|y a]; cbn in E; inversion E; subst.
        -- rewrite app_nil_r in Hd. congruence.
        -- cbn [first_by] in Ha. rewrite Ex in Ha. exists a, d, b. rewrite <- app_assoc. cbn [app]. auto.
Qed.
Lemma first_by_None_app V a : forall pre b,
  first_by V pre (a ++ b) = None <-> first_by V pre a = None /\ first_by V (pre ++ a) b = None.
Proof.
  induction a as [|x a IH]; intros pre b; cbn [app first_by].
  - rewrite app_nil_r. tauto.
  - destruct (V pre x); [split; [discriminate|intros [H _]; discriminate]|].
    rewrite IH, <- app_assoc. cbn [app]. tauto.
Qed.
Lemma first_by_ext V1 V2 ds : forall pre,
  (forall a d b, ds = a ++ d :: b -> V1 (pre ++ a) d = V2 (pre ++ a) d) -> first_by V1 pre ds = first_by V2 pre ds.
Proof.
  induction ds as [|x ds IH]; intros pre H; cbn [first_by]; auto.
  pose proof (H [] x ds eq_refl) as H0. rewrite app_nil_r in H0. rewrite H0. destruct (V2 pre x); auto. apply IH.
  intros a d b E. rewrite <- app_assoc. cbn [app]. apply (H (x :: a) d b). subst ds. reflexivity.
Qed.

Section Loop.
  Context {C : Type}.
  Implicit Types (r : regcore C) (d : Desc) (ds pre : list Desc).

  Definition dim_conflict (d' d : Desc) : bool := str_eqb (d_fq_name d') (d_fq_name d) && negb (d_dim d' =? d_dim d).

  (* what the loop body decides for descriptor [d] when [pre] are the descriptors of the same
     collector that precede it *)
  Definition desc_verdict r pre d : option err :=
    if memN (d_id d) (r_desc_ids r) then Some EAlreadyReg
    else if clashes (r_labels r) d then Some EMsg
    else if match alookup (d_fq_name d) (r_dim_hashes r) with Some h => negb (h =? d_dim d) | None => false end then Some EMsg
    else if existsb (fun d' => dim_conflict d' d) pre then Some EMsg
    else if memN (d_id d) (map d_id pre) then Some EMsg
    else None.

  Definition stage (pre : list Desc) : list (str * N) :=
    fold_left (fun m d => ainsert (d_fq_name d) (d_dim d) m) pre [].
  Lemma stage_snoc pre d : stage (pre ++ [d]) = ainsert (d_fq_name d) (d_dim d) (stage pre).
  Proof. unfold stage. rewrite fold_left_app. reflexivity. Qed.
  Lemma stage_In n h pre : In (n, h) (stage pre) -> exists d, In d pre /\ d_fq_name d = n /\ d_dim d = h.
  Proof.
    induction pre as [|d pre IH] using rev_ind; [intros []|].
    rewrite stage_snoc. intros H. apply ainsert_In in H as [[-> ->]|H].
    - exists d. split; auto. apply in_or_app. right. left. auto.
    - destruct (IH H) as (d' & Hin & E1 & E2). exists d'. split; auto. apply in_or_app. auto.
  Qed.
  Lemma stage_key pre d : In d pre -> exists h, alookup (d_fq_name d) (stage pre) = Some h.
  Proof.
    induction pre as [|x pre IH] using rev_ind; [intros []|].
    intros H. rewrite stage_snoc, alookup_ainsert. destruct (str_eqb (d_fq_name d) (d_fq_name x)) eqn:E; eauto.
    apply in_app_or in H as [H|[H|[]]]; auto. subst x. rewrite str_eqb_refl in E. discriminate.
  Qed.

  (* the descriptors already accepted in this collector agree with the recorded signatures
     and with each other *)
  Definition pre_ok r pre : Prop :=
    (forall d' h, In d' pre -> alookup (d_fq_name d') (r_dim_hashes r) = Some h -> h = d_dim d')
    /\ (forall d1 d2, In d1 pre -> In d2 pre -> d_fq_name d1 = d_fq_name d2 -> d_dim d1 = d_dim d2).

  Lemma staged_lookup r pre d :
    pre_ok r pre ->
    match alookup (d_fq_name d) (stage pre) with Some h => negb (h =? d_dim d) | None => false end
    = existsb (fun d' => dim_conflict d' d) pre.
  Proof.
    intros [_ Hc]. destruct (alookup (d_fq_name d) (stage pre)) as [h|] eqn:E.
    - apply alookup_In, stage_In in E as (d0 & Hin & En & Eh). subst h.
      destruct (d_dim d0 =? d_dim d) eqn:Ed; cbn [negb].
      + symmetry. apply existsb_false_iff. intros d' Hd'. unfold dim_conflict.
        destruct (str_eqb (d_fq_name d') (d_fq_name d)) eqn:E1; auto. apply str_eqb_eq in E1.
        rewrite (Hc d' d0 Hd' Hin) by congruence. rewrite Ed. reflexivity.
      + symmetry. apply existsb_exists. exists d0. split; auto. unfold dim_conflict. rewrite En, str_eqb_refl, Ed. reflexivity.
    - symmetry. apply existsb_false_iff. intros d' Hd'. unfold dim_conflict.
      destruct (str_eqb (d_fq_name d') (d_fq_name d)) eqn:E1; auto. apply str_eqb_eq in E1.
      destruct (stage_key pre d' Hd') as [h Hh]. rewrite E1 in Hh. congruence.
  Qed.

  Lemma pre_ok_snoc r pre d : pre_ok r pre -> desc_verdict r pre d = None -> pre_ok r (pre ++ [d]).
  Proof.
    intros [H1 H2] Hv. unfold desc_verdict in Hv.
    destruct (memN (d_id d) (r_desc_ids r)); [discriminate|]. destruct (clashes (r_labels r) d); [discriminate|].
    destruct (match alookup (d_fq_name d) (r_dim_hashes r) with Some h => negb (h =? d_dim d) | None => false end) eqn:E3; [discriminate|].
    destruct (existsb (fun d' => dim_conflict d' d) pre) eqn:E4; [discriminate|]. clear Hv.
    assert (Hpd : forall d', In d' pre -> d_fq_name d' = d_fq_name d -> d_dim d' = d_dim d).
    { intros d' Hd' En. pose proof (proj1 (existsb_false_iff _ _) E4 d' Hd') as Hc. unfold dim_conflict in Hc.
      rewrite En, str_eqb_refl in Hc. cbn in Hc. apply negb_false_iff, N.eqb_eq in Hc. exact Hc. }
    split.
    - intros d' h Hin Hl. apply in_app_or in Hin as [Hin|[<-|[]]]; [eauto|].
      rewrite Hl in E3. apply negb_false_iff, N.eqb_eq in E3. exact E3.
    - intros d1 d2 I1 I2 En. apply in_app_or in I1 as [I1|[<-|[]]]; apply in_app_or in I2 as [I2|[<-|[]]]; auto.
      symmetry. apply Hpd; auto.
  Qed.

  Lemma check_descs_verdict r ds : forall pre cid, pre_ok r pre ->
    reg_check_descs r ds (rev (map d_id pre)) cid (stage pre) =
    match first_by (desc_verdict r) pre ds with
    | Some e => Err e
    | None => Ok (rev (map d_id (pre ++ ds)), ids_hash (rev (map d_id (pre ++ ds))), stage (pre ++ ds))
    end.
  Proof.
    induction ds as [|d ds IH]; intros pre cid Hp; cbn [reg_check_descs first_by].
    - rewrite app_nil_r. reflexivity.
    - pose proof (pre_ok_snoc r pre d Hp) as Hsn. unfold desc_verdict in *.
      destruct (memN (d_id d) (r_desc_ids r)); [reflexivity|].
      fold (clashes (r_labels r) d). destruct (clashes (r_labels r) d); [reflexivity|].
      destruct (alookup (d_fq_name d) (r_dim_hashes r)) as [h|] eqn:El.
      + destruct (negb (h =? d_dim d)) eqn:Eh; [reflexivity|].
        assert (Ex : existsb (fun d' => dim_conflict d' d) pre = false).
        { apply existsb_false_iff. intros d' Hd'. unfold dim_conflict.
          destruct (str_eqb (d_fq_name d') (d_fq_name d)) eqn:E1; auto. apply str_eqb_eq in E1.
          destruct Hp as [H1 _]. rewrite <- E1 in El. rewrite <- (H1 d' h Hd' El).
          apply negb_false_iff in Eh. rewrite Eh. reflexivity. }
        rewrite Ex in *. rewrite memN_rev.
        destruct (memN (d_id d) (map d_id pre)); [reflexivity|].
        specialize (IH (pre ++ [d]) cid (Hsn eq_refl)).
        rewrite (map_app d_id pre [d]) in IH. cbn [map] in IH.
        rewrite rev_app_distr, stage_snoc in IH. cbn [rev app] in IH.
        rewrite IH, <- !app_assoc. reflexivity.
      + rewrite (staged_lookup r pre d Hp) in *.
        destruct (existsb (fun d' => dim_conflict d' d) pre); [reflexivity|].
        rewrite memN_rev. destruct (memN (d_id d) (map d_id pre)); [reflexivity|].
        specialize (IH (pre ++ [d]) cid (Hsn eq_refl)).
        rewrite (map_app d_id pre [d]) in IH. cbn [map] in IH.
        rewrite rev_app_distr, stage_snoc in IH. cbn [rev app] in IH.
        rewrite IH, <- !app_assoc. reflexivity.
  Qed.

  Lemma pre_ok_nil r : pre_ok r [].
  Proof. split; intros; contradiction. Qed.

  (* RegistryCore::register without the loop state *)
  Definition reg_register_spec r ds (c : C) : result (regcore C) :=
    match first_by (desc_verdict r) [] ds with
    | Some e => Err e
    | None =>
        match nlookup (ids_hash (map d_id ds)) (r_collectors r) with
        | Some _ => Err EAlreadyReg
        | None => Ok (mkReg (r_collectors r ++ [(ids_hash (map d_id ds), c)])
                            (fold_left ains (stage ds) (r_dim_hashes r))
                            (r_desc_ids r ++ map d_id ds) (r_labels r) (r_prefix r))
        end
    end.
  Theorem reg_register_verdict r ds c : reg_register r ds c = reg_register_spec r ds c.
  Proof.
    unfold reg_register, reg_register_spec.
    pose proof (check_descs_verdict r ds [] 0 (pre_ok_nil r)) as H. cbn [map rev app] in H.
    change (stage []) with (@nil (str * N)) in H. rewrite H.
    destruct (first_by (desc_verdict r) [] ds); auto. rewrite rev_involutive, ids_hash_rev. reflexivity.
  Qed.
End Loop.

(* ====================================================================================== *)
(* 2. the abstract registry: no hashes                                                     *)
(* ====================================================================================== *)
Definition cvalues (d : Desc) : list str := map lp_value (d_const_pairs d).
Definition cnames_of (d : Desc) : list str := map lp_name (d_const_pairs d).

(* equal descriptors: same fully-qualified name and constant-label values *)
Definition same_id (d1 d2 : Desc) : Prop := d_fq_name d1 = d_fq_name d2 /\ cvalues d1 = cvalues d2.
(* agreeing descriptors: same help text and label names (constant and variable, as sets) *)
Definition same_dim (d1 d2 : Desc) : Prop :=
  d_help d1 = d_help d2 /\ (forall x, In x (cnames_of d1) <-> In x (cnames_of d2))
  /\ (forall x, In x (d_vars d1) <-> In x (d_vars d2)).
(* the same collector: the same set of descriptors up to [same_id] (the API takes a fresh
   Box<dyn Collector> on every call, there is no other notion of identity) *)
Definition same_coll (ds1 ds2 : list Desc) : Prop :=
  (forall d, In d ds1 -> exists d', In d' ds2 /\ same_id d d') /\ (forall d, In d ds2 -> exists d', In d' ds1 /\ same_id d d').

Definition set_eqb (a b : list str) : bool := forallb (fun x => mem_str x b) a && forallb (fun x => mem_str x a) b.
Definition same_idb (d1 d2 : Desc) : bool :=
  str_eqb (d_fq_name d1) (d_fq_name d2) && list_eqb str_eqb (cvalues d1) (cvalues d2).
Definition same_dimb (d1 d2 : Desc) : bool :=
  str_eqb (d_help d1) (d_help d2) && set_eqb (cnames_of d1) (cnames_of d2) && set_eqb (d_vars d1) (d_vars d2).
Definition same_collb (ds1 ds2 : list Desc) : bool :=
  forallb (fun d => existsb (same_idb d) ds2) ds1 && forallb (fun d => existsb (same_idb d) ds1) ds2.

Lemma strs_eqb_eq a b : list_eqb str_eqb a b = true <-> a = b.
Proof.
  revert b; induction a as [|x a IH]; intros [|y b]; cbn; split; intros H; try congruence; try discriminate.
  - apply andb_true_iff in H as [H1 H2]. apply str_eqb_eq in H1. apply IH in H2. congruence.
  - inversion H; subst. rewrite str_eqb_refl. cbn. apply IH. reflexivity.
Qed.
Lemma set_eqb_spec a b : set_eqb a b = true <-> forall x, In x a <-> In x b.
Proof.
  unfold set_eqb. rewrite andb_true_iff, !forallb_forall. split.
  - intros [H1 H2] x. split; intros H; [apply mem_str_In, H1|apply mem_str_In, H2]; auto.
  - intros H. split; intros x Hx; apply mem_str_In, H; auto.
Qed.
Lemma same_idb_spec d1 d2 : same_idb d1 d2 = true <-> same_id d1 d2.
Proof. unfold same_idb, same_id. rewrite andb_true_iff, str_eqb_eq, strs_eqb_eq. tauto. Qed.
Lemma same_dimb_spec d1 d2 : same_dimb d1 d2 = true <-> same_dim d1 d2.
Proof. unfold same_dimb, same_dim. rewrite !andb_true_iff, str_eqb_eq, !set_eqb_spec. tauto. Qed.
Lemma same_idb_false d1 d2 : same_idb d1 d2 = false <-> ~ same_id d1 d2.
Proof. rewrite <- same_idb_spec. destruct (same_idb d1 d2); split; congruence. Qed.
Lemma same_dimb_false d1 d2 : same_dimb d1 d2 = false <-> ~ same_dim d1 d2.
Proof. rewrite <- same_dimb_spec. destruct (same_dimb d1 d2); split; congruence. Qed.
Lemma same_id_refl d : same_id d d. Proof. split; reflexivity. Qed.
Lemma same_id_sym d1 d2 : same_id d1 d2 -> same_id d2 d1. Proof. intros [A B]. split; auto. Qed.
Lemma same_id_trans d1 d2 d3 : same_id d1 d2 -> same_id d2 d3 -> same_id d1 d3.
Proof. intros [A B] [A' B']. split; congruence. Qed.
Lemma same_dim_refl d : same_dim d d. Proof. repeat split; auto. Qed.
Lemma same_dim_sym d1 d2 : same_dim d1 d2 -> same_dim d2 d1.
Proof. intros (A & B & D). repeat split; auto; intros; try apply B; try apply D; auto. Qed.
Lemma same_dim_trans d1 d2 d3 : same_dim d1 d2 -> same_dim d2 d3 -> same_dim d1 d3.
Proof.
  intros (A & B & D) (A' & B' & D'). split; [congruence|]. split; intros x; [rewrite B; apply B'|rewrite D; apply D'].
Qed.
Lemma same_collb_spec ds1 ds2 : same_collb ds1 ds2 = true <-> same_coll ds1 ds2.
Proof.
  unfold same_collb, same_coll. rewrite andb_true_iff, !forallb_forall.
  split; intros [H1 H2]; split; intros d Hd.
  - apply H1, existsb_exists in Hd as (d' & Hd' & E). apply same_idb_spec in E. eauto.
  - apply H2, existsb_exists in Hd as (d' & Hd' & E). apply same_idb_spec in E. eauto.
  - apply existsb_exists. destruct (H1 d Hd) as (d' & Hd' & E). apply same_idb_spec in E. eauto.
  - apply existsb_exists. destruct (H2 d Hd) as (d' & Hd' & E). apply same_idb_spec in E. eauto.
Qed.
Lemma same_coll_refl ds : same_coll ds ds.
Proof. split; intros d Hd; exists d; split; auto using same_id_refl. Qed.

(* the shape shared by the model's and the abstract registry's per-descriptor verdict *)
Definition gen_verdict (A B D : Desc -> bool) (Dc Id : Desc -> Desc -> bool) (pre : list Desc) (d : Desc) : option err :=
  if A d then Some EAlreadyReg
  else if B d then Some EMsg
  else if D d then Some EMsg
  else if existsb (fun d' => Dc d' d) pre then Some EMsg
  else if existsb (fun d' => Id d d') pre then Some EMsg
  else None.

Section Gen.
  Variables (A B D : Desc -> bool) (Dc Id : Desc -> Desc -> bool).
  Let V := gen_verdict A B D Dc Id.
  Definition g_state_ok (d : Desc) : Prop := A d = false /\ B d = false /\ D d = false.
  Definition g_compat (d' d : Desc) : Prop := Dc d' d = false /\ Id d d' = false.

  Lemma gen_verdict_None pre d : V pre d = None <-> g_state_ok d /\ Forall (fun d' => g_compat d' d) pre.
  Proof.
    unfold V, gen_verdict, g_state_ok, g_compat.
    destruct (A d); [split; [discriminate|intros [(H & _) _]; discriminate]|].
    destruct (B d); [split; [discriminate|intros [(_ & H & _) _]; discriminate]|].
    destruct (D d); [split; [discriminate|intros [(_ & _ & H) _]; discriminate]|].
    destruct (existsb (fun d' => Dc d' d) pre) eqn:E1.
    { split; [discriminate|]. intros [_ H]. apply existsb_exists in E1 as (d' & Hd' & E). rewrite Forall_forall in H.
      destruct (H d' Hd') as [H1 _]. congruence. }
    destruct (existsb (fun d' => Id d d') pre) eqn:E2.
    { split; [discriminate|]. intros [_ H]. apply existsb_exists in E2 as (d' & Hd' & E). rewrite Forall_forall in H.
      destruct (H d' Hd') as [_ H1]. congruence. }
    split; auto. intros _. split; auto. apply Forall_forall. intros d' Hd'. split.
    - apply (proj1 (existsb_false_iff _ _) E1 d' Hd').
    - apply (proj1 (existsb_false_iff _ _) E2 d' Hd').
  Qed.
  Lemma gen_verdict_kinds pre d e : V pre d = Some e ->
    (e = EAlreadyReg /\ A d = true)
    \/ (e = EMsg /\ A d = false /\ (B d = true \/ D d = true \/ (exists d', In d' pre /\ Dc d' d = true) \/ (exists d', In d' pre /\ Id d d' = true))).
  Proof.
    unfold V, gen_verdict. destruct (A d); [intros H; inversion H; auto|].
    destruct (B d); [intros H; inversion H; auto 6|]. destruct (D d); [intros H; inversion H; auto 6|].
    destruct (existsb (fun d' => Dc d' d) pre) eqn:E1.
    { intros H; inversion H. apply existsb_exists in E1. auto 7. }
    destruct (existsb (fun d' => Id d d') pre) eqn:E2; [|discriminate].
    intros H; inversion H. apply existsb_exists in E2. auto 7.
  Qed.
  Lemma gen_verdict_AlreadyReg pre d : V pre d = Some EAlreadyReg <-> A d = true.
  Proof.
    split.
    - intros H. apply gen_verdict_kinds in H as [[_ H]|[H _]]; [auto|discriminate].
    - intros H. unfold V, gen_verdict. rewrite H. reflexivity.
  Qed.
  Lemma gen_verdict_Msg pre d : V pre d = Some EMsg <->
    A d = false /\ (B d = true \/ D d = true \/ (exists d', In d' pre /\ Dc d' d = true) \/ (exists d', In d' pre /\ Id d d' = true)).
  Proof.
    split.
    - intros H. apply gen_verdict_kinds in H as [[H _]|[_ H]]; [discriminate|auto].
    - intros [HA H]. destruct (V pre d) as [e|] eqn:E.
      + apply gen_verdict_kinds in E as [[_ E]|[-> _]]; [congruence|reflexivity].
      + exfalso. apply gen_verdict_None in E as [(_ & HB & HD) HF]. rewrite Forall_forall in HF.
        destruct H as [H|[H|[(d' & Hd' & H)|(d' & Hd' & H)]]]; try congruence; destruct (HF d' Hd'); congruence.
  Qed.

  Lemma gen_first_None ds : forall pre,
    first_by V pre ds = None <->
    Forall g_state_ok ds /\ Forall (fun d => Forall (fun d' => g_compat d' d) pre) ds /\ ForallOrdPairs g_compat ds.
  Proof.
    induction ds as [|d ds IH]; intros pre; cbn [first_by].
    - split; auto. intros _. repeat split; constructor.
    - destruct (V pre d) as [e|] eqn:E.
      + split; [discriminate|]. intros (H1 & H2 & _). inversion H1; subst. inversion H2; subst.
        assert (V pre d = None) by (apply gen_verdict_None; auto). congruence.
      + apply gen_verdict_None in E as [E1 E2]. rewrite IH. split.
        * intros (H1 & H2 & H3). split; [constructor; auto|]. split.
          -- constructor; auto. eapply Forall_impl; [|exact H2]. intros x Hx. apply Forall_app in Hx. tauto.
          -- constructor; auto. eapply Forall_impl; [|exact H2]. intros x Hx. apply Forall_app in Hx as [_ Hx]. inversion Hx; auto.
        * intros (H1 & H2 & H3). inversion H1 as [|? ? Hd1 Hr1]; subst. inversion H2 as [|? ? Hd2 Hr2]; subst.
          inversion H3 as [|? ? Hd3 Hr3]; subst. split; auto. split; auto.
          apply Forall_forall. intros x Hx. apply Forall_app. split.
          -- rewrite Forall_forall in Hr2. auto.
          -- constructor; auto. rewrite Forall_forall in Hd3. auto.
  Qed.
End Gen.

Lemma FOP_In_sym (R : Desc -> Desc -> Prop) ds :
  (forall a b, R a b -> R b a) -> (forall a, R a a) ->
  (ForallOrdPairs R ds <-> forall a b, In a ds -> In b ds -> R a b).
Proof.
  intros Hs Hr. split.
  - intros H a b Ha Hb. destruct (ForallOrdPairs_In H a b Ha Hb) as [->|[?|?]]; auto.
  - intros H. apply ForallPairs_ForallOrdPairs. exact H.
Qed.
Lemma FOP_and (R1 R2 : Desc -> Desc -> Prop) ds :
  ForallOrdPairs (fun a b => R1 a b /\ R2 a b) ds <-> ForallOrdPairs R1 ds /\ ForallOrdPairs R2 ds.
Proof.
  induction ds as [|d ds IH].
  - split; intros; [split|]; constructor.
  - split.
    + intros H. inversion H as [|? ? Hd Hr]; subst. apply IH in Hr as [Hr1 Hr2]. split; constructor; auto.
      * eapply Forall_impl; [|exact Hd]. cbn. tauto.
      * eapply Forall_impl; [|exact Hd]. cbn. tauto.
    + intros [H1 H2]. inversion H1 as [|? ? Hd1 Hr1]; subst. inversion H2 as [|? ? Hd2 Hr2]; subst.
      constructor; [|apply IH; auto]. rewrite Forall_forall in *. auto.
Qed.
Lemma FOP_impl (R1 R2 : Desc -> Desc -> Prop) ds :
  (forall a b, In a ds -> In b ds -> R1 a b -> R2 a b) -> ForallOrdPairs R1 ds -> ForallOrdPairs R2 ds.
Proof.
  induction ds as [|d ds IH]; intros H F; [constructor|]. inversion F as [|? ? Hd Hr]; subst. constructor.
  - rewrite Forall_forall in *. intros x Hx. apply H; cbn; auto.
  - apply IH; auto. intros a b Ha Hb. apply H; cbn; auto.
Qed.
Lemma FOP_ids_NoDup ds : ForallOrdPairs (fun d' d => d_id d <> d_id d') ds <-> NoDup (map d_id ds).
Proof.
  induction ds as [|d ds IH]; cbn [map].
  - split; constructor.
  - split.
    + intros H. inversion H as [|? ? Hd Hr]; subst. constructor; [|apply IH; auto]. intros Hin. apply in_map_iff in Hin as (d' & E & Hd').
      rewrite Forall_forall in Hd. apply (Hd d' Hd'). auto.
    + intros H. inversion H as [|? ? Hn Hr]; subst. constructor; [|apply IH; auto]. apply Forall_forall. intros d' Hd' E.
      apply Hn. rewrite <- E. apply in_map. exact Hd'.
Qed.

Record sstate (C : Type) := mkS {
  s_cur : list (list Desc * C);     (* the currently registered collectors with their descriptors *)
  s_hist : list Desc }.             (* every descriptor ever successfully registered *)
Arguments mkS {C}.
Arguments s_cur {C}.
Arguments s_hist {C}.

Section Abstract.
  Context {C : Type}.
  Implicit Types (st : sstate C) (d : Desc) (ds pre : list Desc).

  Definition cur_descs st : list Desc := concat (map fst (s_cur st)).
  Definition name_disagrees (d' d : Desc) : bool := str_eqb (d_fq_name d') (d_fq_name d) && negb (same_dimb d' d).

  Definition a_verdict st labels : list Desc -> Desc -> option err :=
    gen_verdict (fun d => existsb (same_idb d) (cur_descs st))
                (fun d => clashes labels d)
                (fun d => existsb (fun d' => name_disagrees d' d) (s_hist st))
                name_disagrees same_idb.

  Definition registered_b st ds : bool := existsb (fun e => same_collb ds (fst e)) (s_cur st).

  Definition spec_register st labels ds (c : C) : result (sstate C) :=
    match first_by (a_verdict st labels) [] ds with
    | Some e => Err e
    | None => if registered_b st ds then Err EAlreadyReg
              else Ok (mkS (s_cur st ++ [(ds, c)]) (s_hist st ++ ds))
    end.
  Definition spec_unregister st ds : result (sstate C) :=
    if registered_b st ds
    then Ok (mkS (filter (fun e => negb (same_collb ds (fst e))) (s_cur st)) (s_hist st))
    else Err EMsg.

  (* ---- the readable (Prop) form ---- *)
  Definition equal_registered st d : Prop := exists d', In d' (cur_descs st) /\ same_id d d'.
  Definition agrees (d' d : Desc) : Prop := d_fq_name d' = d_fq_name d -> same_dim d' d.
  Definition coll_registered st ds : Prop := exists e, In e (s_cur st) /\ same_coll ds (fst e).

  (* the descriptors of a collector raise no objection *)
  Definition descs_fine st labels ds : Prop :=
    (forall d, In d ds -> ~ equal_registered st d)
    /\ (forall d, In d ds -> clashes labels d = false)
    /\ (forall d d', In d ds -> In d' (s_hist st) -> agrees d' d)
    /\ (forall d d', In d ds -> In d' ds -> agrees d' d)
    /\ ForallOrdPairs (fun d' d => ~ same_id d d') ds.
  Definition can_register st labels ds : Prop := descs_fine st labels ds /\ ~ coll_registered st ds.

  Lemma name_disagrees_false d' d : name_disagrees d' d = false <-> agrees d' d.
  Proof.
    unfold name_disagrees, agrees. destruct (str_eqb (d_fq_name d') (d_fq_name d)) eqn:E; cbn [andb].
    - apply str_eqb_eq in E. rewrite negb_false_iff, same_dimb_spec. tauto.
    - apply str_eqb_neq in E. split; auto. intros _ H. contradiction.
  Qed.
  Lemma name_disagrees_true d' d : name_disagrees d' d = true <-> d_fq_name d' = d_fq_name d /\ ~ same_dim d' d.
  Proof. unfold name_disagrees. rewrite andb_true_iff, str_eqb_eq, negb_true_iff, same_dimb_false. tauto. Qed.
  Lemma agrees_sym d' d : agrees d' d -> agrees d d'.
  Proof. intros H E. apply same_dim_sym, H. auto. Qed.
  Lemma agrees_refl d : agrees d d.
  Proof. intros _. apply same_dim_refl. Qed.
  Lemma equal_registered_b st d : existsb (same_idb d) (cur_descs st) = true <-> equal_registered st d.
  Proof.
    unfold equal_registered. rewrite existsb_exists. split; intros (d' & H & E); exists d'; split; auto; apply same_idb_spec; auto.
  Qed.
  Lemma registered_b_spec st ds : registered_b st ds = true <-> coll_registered st ds.
  Proof.
    unfold registered_b, coll_registered. rewrite existsb_exists.
    split; intros (e & H & E); exists e; split; auto; apply same_collb_spec; auto.
  Qed.

  Theorem a_first_fine st labels ds : first_by (a_verdict st labels) [] ds = None <-> descs_fine st labels ds.
  Proof.
    unfold a_verdict. rewrite gen_first_None. unfold descs_fine, g_state_ok, g_compat. split.
    - intros (H1 & _ & H3). rewrite Forall_forall in H1. apply FOP_and in H3 as [H3 H4]. split; [|split; [|split; [|split]]].
      + intros d Hd He. apply equal_registered_b in He. destruct (H1 d Hd) as (E & _). congruence.
      + intros d Hd. apply (H1 d Hd).
      + intros d d' Hd Hd'. destruct (H1 d Hd) as (_ & _ & E). apply name_disagrees_false.
        apply (proj1 (existsb_false_iff _ _) E d' Hd').
      + intros d d' Hd Hd'. revert d' d Hd' Hd. apply FOP_In_sym; [apply agrees_sym|apply agrees_refl|].
        eapply FOP_impl; [|exact H3]. cbn. intros a b _ _. apply name_disagrees_false.
      + eapply FOP_impl; [|exact H4]. cbn. intros a b _ _. apply same_idb_false.
    - intros (H1 & H2 & H3 & H4 & H5). split; [|split].
      + apply Forall_forall. intros d Hd. repeat split.
        * destruct (existsb (same_idb d) (cur_descs st)) eqn:E; auto. apply equal_registered_b in E. exfalso. eapply H1; eauto.
        * auto.
        * apply existsb_false_iff. intros d' Hd'. apply name_disagrees_false. auto.
      + apply Forall_forall. intros; constructor.
      + apply FOP_and. split.
        * apply ForallPairs_ForallOrdPairs. intros a b Ha Hb. apply name_disagrees_false. auto.
        * eapply FOP_impl; [|exact H5]. cbn. intros a b _ _. apply same_idb_false.
  Qed.

  (* the abstract registry admits exactly the collectors that can be registered *)
  Theorem spec_register_ok_iff st labels ds c :
    (exists st', spec_register st labels ds c = Ok st') <-> can_register st labels ds.
  Proof.
    unfold spec_register, can_register. rewrite <- a_first_fine, <- registered_b_spec.
    destruct (first_by (a_verdict st labels) [] ds); [split; [intros [? H]; discriminate|intros [H _]; discriminate]|].
    destruct (registered_b st ds); split; try (intros [? H]; discriminate); try (intros [_ H]; congruence); eauto.
  Qed.
  Lemma spec_register_ok_state st labels ds c st' :
    spec_register st labels ds c = Ok st' -> st' = mkS (s_cur st ++ [(ds, c)]) (s_hist st ++ ds).
  Proof.
    unfold spec_register. destruct (first_by (a_verdict st labels) [] ds); [discriminate|].
    destruct (registered_b st ds); [discriminate|]. intros H. inversion H. reflexivity.
  Qed.

  (* what is wrong with a descriptor that is not itself registered *)
  Definition objection st labels pre d : Prop :=
    clashes labels d = true
    \/ (exists d', In d' (s_hist st) /\ d_fq_name d' = d_fq_name d /\ ~ same_dim d' d)
    \/ (exists d', In d' pre /\ d_fq_name d' = d_fq_name d /\ ~ same_dim d' d)
    \/ (exists d', In d' pre /\ same_id d d').

  Lemma a_verdict_AlreadyReg st labels pre d : a_verdict st labels pre d = Some EAlreadyReg <-> equal_registered st d.
  Proof. unfold a_verdict. rewrite gen_verdict_AlreadyReg. apply equal_registered_b. Qed.
  Lemma a_verdict_Msg st labels pre d :
    a_verdict st labels pre d = Some EMsg <-> ~ equal_registered st d /\ objection st labels pre d.
  Proof.
    unfold a_verdict. rewrite gen_verdict_Msg. unfold objection. split.
    - intros [HA HB]. split.
      + intros He. apply equal_registered_b in He. congruence.
      + destruct HB as [HB|[HB|[(d' & I & HB)|(d' & I & HB)]]]; auto.
        * apply existsb_exists in HB as (d' & I & HB). apply name_disagrees_true in HB. right; left. eauto.
        * apply name_disagrees_true in HB. right; right; left. eauto.
        * apply same_idb_spec in HB. right; right; right. eauto.
    - intros [Hn Ho]. split.
      + destruct (existsb (same_idb d) (cur_descs st)) eqn:E; auto. apply equal_registered_b in E. contradiction.
      + destruct Ho as [H|[(d' & I & H)|[(d' & I & H)|(d' & I & H)]]]; auto.
        * right; left. apply existsb_exists. exists d'. split; auto. apply name_disagrees_true. auto.
        * right; right; left. exists d'. split; auto. apply name_disagrees_true. auto.
        * right; right; right. exists d'. split; auto. apply same_idb_spec. auto.
  Qed.
  Lemma a_verdict_kinds st labels pre d e : a_verdict st labels pre d = Some e -> e = EAlreadyReg \/ e = EMsg.
  Proof. unfold a_verdict. intros H. apply gen_verdict_kinds in H as [[-> _]|[-> _]]; auto. Qed.

  (* AlreadyReg: the first descriptor (in the collector's order) that raises any objection is
     equal to a registered one, or no descriptor raises an objection and the collector itself
     is registered *)
  Theorem spec_register_AlreadyReg st labels ds c :
    spec_register st labels ds c = Err EAlreadyReg <->
    (exists a d b, ds = a ++ d :: b /\ descs_fine st labels a /\ equal_registered st d)
    \/ (descs_fine st labels ds /\ coll_registered st ds).
  Proof.
    unfold spec_register. split.
    - destruct (first_by (a_verdict st labels) [] ds) as [e|] eqn:E.
      + intros H. inversion H; subst. left. apply first_by_Some in E as (a & d & b & Eds & Ha & Hd).
        exists a, d, b. split; auto. split; [apply a_first_fine; auto|]. apply a_verdict_AlreadyReg in Hd. exact Hd.
      + destruct (registered_b st ds) eqn:Er; [|discriminate]. intros _. right.
        split; [apply a_first_fine; auto|apply registered_b_spec; auto].
    - intros [(a & d & b & Eds & Ha & Hd)|[Hf Hr]].
      + assert (E : first_by (a_verdict st labels) [] ds = Some EAlreadyReg).
        { apply first_by_Some. exists a, d, b. split; auto. split; [apply a_first_fine; auto|].
          apply a_verdict_AlreadyReg. exact Hd. }
        rewrite E. reflexivity.
      + apply a_first_fine in Hf. rewrite Hf. apply registered_b_spec in Hr. rewrite Hr. reflexivity.
  Qed.
  Theorem spec_register_Msg st labels ds c :
    spec_register st labels ds c = Err EMsg <->
    exists a d b, ds = a ++ d :: b /\ descs_fine st labels a /\ ~ equal_registered st d /\ objection st labels a d.
  Proof.
    unfold spec_register. split.
    - destruct (first_by (a_verdict st labels) [] ds) as [e|] eqn:E.
      + intros H. inversion H; subst. apply first_by_Some in E as (a & d & b & Eds & Ha & Hd).
        exists a, d, b. split; auto. split; [apply a_first_fine; auto|]. cbn [app] in Hd.
        apply a_verdict_Msg in Hd. exact Hd.
      + destruct (registered_b st ds); discriminate.
    - intros (a & d & b & Eds & Ha & Hn & Ho).
      assert (E : first_by (a_verdict st labels) [] ds = Some EMsg).
      { apply first_by_Some. exists a, d, b. split; auto. split; [apply a_first_fine; auto|]. cbn [app].
        apply a_verdict_Msg. auto. }
      rewrite E. reflexivity.
  Qed.
  Lemma spec_register_err_kinds st labels ds c e :
    spec_register st labels ds c = Err e -> e = EAlreadyReg \/ e = EMsg.
  Proof.
    unfold spec_register. destruct (first_by (a_verdict st labels) [] ds) as [e0|] eqn:E.
    - intros H. inversion H; subst. apply first_by_Some in E as (a & d & b & _ & _ & Hd).
      apply a_verdict_kinds in Hd. exact Hd.
    - destruct (registered_b st ds); [|discriminate]. intros H. inversion H. auto.
  Qed.

  Theorem spec_unregister_ok_iff st ds : (exists st', spec_unregister st ds = Ok st') <-> coll_registered st ds.
  Proof.
    unfold spec_unregister. rewrite <- registered_b_spec. destruct (registered_b st ds); split; eauto; try discriminate.
    intros [? H]. discriminate.
  Qed.
  Lemma spec_unregister_err st ds e : spec_unregister st ds = Err e -> e = EMsg.
  Proof. unfold spec_unregister. destruct (registered_b st ds); [discriminate|]. intros H. inversion H. reflexivity. Qed.
  (* afterwards the collector is not registered, every other collector still is *)
  Theorem spec_unregister_effect st ds st' :
    spec_unregister st ds = Ok st' ->
    ~ coll_registered st' ds /\ s_hist st' = s_hist st
    /\ forall e, In e (s_cur st') <-> In e (s_cur st) /\ ~ same_coll ds (fst e).
  Proof.
    unfold spec_unregister. destruct (registered_b st ds); [|discriminate]. intros H. inversion H; subst. clear H. cbn.
    assert (F : forall e, In e (filter (fun e => negb (same_collb ds (fst e))) (s_cur st)) <-> In e (s_cur st) /\ ~ same_coll ds (fst e)).
    { intros e. rewrite filter_In, negb_true_iff, <- same_collb_spec. destruct (same_collb ds (fst e)); split; intros [? ?]; split; auto; congruence. }
    split; [|split; auto]. intros (e & He & Hs). cbn in He. apply F in He. tauto.
  Qed.
End Abstract.

(* ====================================================================================== *)
(* 3. the abstraction relation between the registry tables and the abstract registry       *)
(* ====================================================================================== *)
Lemma NoDup_map_filter {A B} (f : A -> B) (g : A -> bool) l : NoDup (map f l) -> NoDup (map f (filter g l)).
Proof.
  induction l as [|a l IH]; cbn; auto. intros H. inversion H as [|? ? Hn Hr]; subst.
  destruct (g a); cbn; auto. constructor; auto. intros Hin. apply Hn. apply in_map_iff in Hin as (x & E & Hx).
  apply filter_In in Hx as [Hx _]. rewrite <- E. apply in_map. exact Hx.
Qed.
Lemma concat_disjoint {A B} (G : A -> list B) l e e0 i :
  NoDup (concat (map G l)) -> In e l -> In e0 l -> e <> e0 -> In i (G e) -> In i (G e0) -> False.
Proof.
  induction l as [|x l IH]; cbn [map concat]; [intros _ []|]. intros ND He He0 Hne Hi Hi0.
  assert (Hc : forall y, In y l -> In i (G y) -> In i (concat (map G l))).
  { intros y Hy Hiy. apply in_concat. exists (G y). split; auto. apply in_map. exact Hy. }
  destruct He as [<-|He], He0 as [<-|He0].
  - congruence.
  - eapply NoDup_app_disj; [exact ND|exact Hi|]. eauto.
  - eapply NoDup_app_disj; [exact ND|exact Hi0|]. eauto.
  - apply IH; auto. eapply NoDup_app_r; eauto.
Qed.
Lemma filter_concat_map {A B} (G : A -> list B) (F : B -> bool) (g : A -> bool) l :
  (forall e, In e l -> g e = true -> forall i, In i (G e) -> F i = true) ->
  (forall e, In e l -> g e = false -> forall i, In i (G e) -> F i = false) ->
  filter F (concat (map G l)) = concat (map G (filter g l)).
Proof.
  induction l as [|x l IH]; cbn [map concat filter]; auto. intros H1 H2.
  rewrite filter_app, IH by (intros; eauto using in_cons).
  destruct (g x) eqn:E; cbn [map concat].
  - rewrite filter_all_true; auto. intros i Hi. eapply H1; eauto. left; auto.
  - rewrite filter_all_false; auto. intros i Hi. eapply H2; eauto. left; auto.
Qed.

Section Abs.
  Context {C : Type}.
  Implicit Types (st : sstate C) (r : regcore C) (d : Desc) (ds pre : list Desc).

  Definition entry_key (e : list Desc * C) : N * C := (collector_id (fst e), snd e).
  Definition cur_ids st : list N := concat (map (fun e => map d_id (fst e)) (s_cur st)).
  Lemma cur_ids_descs st : cur_ids st = map d_id (cur_descs st).
  Proof. unfold cur_ids, cur_descs. rewrite concat_map, map_map. reflexivity. Qed.

  Record reg_abs st r : Prop := mkAbs {
    abs_coll : r_collectors r = map entry_key (s_cur st);       (* the table holds exactly the registered collectors, keyed by id *)
    abs_keys : NoDup (map fst (r_collectors r));                (* distinct keys *)
    abs_ids : Permutation (r_desc_ids r) (cur_ids st);          (* desc_ids = ids of the descriptors of registered collectors *)
    abs_ids_nodup : NoDup (cur_ids st);                         (* ... none twice *)
    abs_dims : forall n h, alookup n (r_dim_hashes r) = Some h <-> exists d, In d (s_hist st) /\ d_fq_name d = n /\ d_dim d = h;
    abs_hist : forall d, In d (cur_descs st) -> In d (s_hist st);
    abs_clash : forall d, In d (cur_descs st) -> clashes (r_labels r) d = false }.

  Definition s_empty : sstate C := mkS [] [].
  Lemma reg_abs_empty labels prefix : reg_abs s_empty (mkReg [] [] [] labels prefix).
  Proof.
    constructor; cbn [s_empty r_collectors r_desc_ids r_dim_hashes r_labels s_cur s_hist map cur_ids cur_descs concat].
    - reflexivity.
    - constructor.
    - constructor.
    - constructor.
    - intros n h. cbn. split; [discriminate|]. intros (d & [] & _).
    - intros d [].
    - intros d [].
  Qed.

  (* ---- what a clean pass of the loop means in terms of hashes ---- *)
  Definition hash_fine r ds : Prop :=
    (forall d, In d ds -> ~ In (d_id d) (r_desc_ids r))
    /\ (forall d, In d ds -> clashes (r_labels r) d = false)
    /\ (forall d h, In d ds -> alookup (d_fq_name d) (r_dim_hashes r) = Some h -> h = d_dim d)
    /\ (forall d d', In d ds -> In d' ds -> d_fq_name d' = d_fq_name d -> d_dim d' = d_dim d)
    /\ NoDup (map d_id ds).

  Lemma desc_verdict_gen r pre d :
    desc_verdict r pre d =
    gen_verdict (fun d => memN (d_id d) (r_desc_ids r)) (fun d => clashes (r_labels r) d)
                (fun d => match alookup (d_fq_name d) (r_dim_hashes r) with Some h => negb (h =? d_dim d) | None => false end)
                dim_conflict (fun d d' => d_id d =? d_id d') pre d.
  Proof. unfold desc_verdict, gen_verdict. rewrite memN_map_existsb. reflexivity. Qed.

  Lemma dim_conflict_false d' d : dim_conflict d' d = false <-> (d_fq_name d' = d_fq_name d -> d_dim d' = d_dim d).
  Proof.
    unfold dim_conflict. destruct (str_eqb (d_fq_name d') (d_fq_name d)) eqn:E; cbn [andb].
    - apply str_eqb_eq in E. rewrite negb_false_iff, N.eqb_eq. tauto.
    - apply str_eqb_neq in E. split; auto. intros _ H. contradiction.
  Qed.

  Theorem verdict_None_hash r ds : first_by (desc_verdict r) [] ds = None <-> hash_fine r ds.
  Proof.
    rewrite (first_by_ext _ _ ds [] (fun a d b _ => desc_verdict_gen r ([] ++ a) d)).
    rewrite gen_first_None. unfold hash_fine, g_state_ok, g_compat. split.
    - intros (H1 & _ & H3). rewrite Forall_forall in H1. apply FOP_and in H3 as [H3 H4]. split; [|split; [|split; [|split]]].
      + intros d Hd. apply memN_false. apply (H1 d Hd).
      + intros d Hd. apply (H1 d Hd).
      + intros d h Hd El. destruct (H1 d Hd) as (_ & _ & E). rewrite El in E. apply negb_false_iff, N.eqb_eq in E. exact E.
      + intros d d' Hd Hd'. revert d' d Hd' Hd.
        apply (FOP_In_sym (fun d' d => d_fq_name d' = d_fq_name d -> d_dim d' = d_dim d)).
        * intros a b H E. symmetry. auto.
        * auto.
        * eapply FOP_impl; [|exact H3]. cbn. intros a b _ _. apply dim_conflict_false.
      + apply FOP_ids_NoDup. eapply FOP_impl; [|exact H4]. cbn. intros a b _ _. apply N.eqb_neq.
    - intros (H1 & H2 & H3 & H4 & H5). split; [|split].
      + apply Forall_forall. intros d Hd. repeat split; auto.
        * apply memN_false. auto.
        * destruct (alookup (d_fq_name d) (r_dim_hashes r)) as [h|] eqn:El; auto.
          rewrite (H3 d h Hd El), N.eqb_refl. reflexivity.
      + apply Forall_forall. intros; constructor.
      + apply FOP_and. split.
        * apply ForallPairs_ForallOrdPairs. intros a b Ha Hb. apply dim_conflict_false. auto.
        * apply FOP_ids_NoDup in H5. eapply FOP_impl; [|exact H5]. cbn. intros a b _ _. apply N.eqb_neq.
  Qed.

  (* ---- register preserves the relation (no hypothesis on hashes needed) ---- *)
  Definition s_add st ds (c : C) : sstate C := mkS (s_cur st ++ [(ds, c)]) (s_hist st ++ ds).
  Lemma cur_descs_add st ds c : cur_descs (s_add st ds c) = cur_descs st ++ ds.
  Proof. unfold cur_descs, s_add. cbn [s_cur]. rewrite map_app, concat_app. cbn. rewrite app_nil_r. reflexivity. Qed.
  Lemma cur_ids_add st ds c : cur_ids (s_add st ds c) = cur_ids st ++ map d_id ds.
  Proof. rewrite !cur_ids_descs, cur_descs_add, map_app. reflexivity. Qed.

  Theorem register_ok_inv r ds c r' :
    reg_register r ds c = Ok r' ->
    hash_fine r ds /\ nlookup (collector_id ds) (r_collectors r) = None
    /\ r' = mkReg (r_collectors r ++ [(collector_id ds, c)]) (fold_left ains (stage ds) (r_dim_hashes r))
                  (r_desc_ids r ++ map d_id ds) (r_labels r) (r_prefix r).
  Proof.
    rewrite reg_register_verdict. unfold reg_register_spec.
    destruct (first_by (desc_verdict r) [] ds) eqn:E; [discriminate|]. apply verdict_None_hash in E.
    assert (Ec : collector_id ds = ids_hash (map d_id ds)) by (apply collector_id_nodup, E). rewrite <- Ec.
    destruct (nlookup (collector_id ds) (r_collectors r)); [discriminate|]. intros H. inversion H. auto.
  Qed.

  Theorem register_abs st r ds c r' :
    reg_abs st r -> reg_register r ds c = Ok r' -> reg_abs (s_add st ds c) r'.
  Proof.
    intros A H. apply register_ok_inv in H as ((F1 & F2 & F3 & F4 & F5) & Hk & ->). destruct A as [A1 A2 A3 A4 A5 A6 A7].
    constructor; cbn [r_collectors r_desc_ids r_dim_hashes r_labels].
    - unfold s_add. cbn [s_cur]. rewrite map_app, A1. reflexivity.
    - rewrite map_app. cbn [map fst]. apply NoDup_app_intro; auto.
      + constructor; [intros []|constructor].
      + intros v [<-|[]]. apply nlookup_None. exact Hk.
    - rewrite cur_ids_add. apply Permutation_app_tail. exact A3.
    - rewrite cur_ids_add. apply NoDup_app_intro; auto. intros v Hv Hin. apply in_map_iff in Hv as (d & <- & Hd).
      apply (F1 d Hd). eapply Permutation_in; [apply Permutation_sym; exact A3|exact Hin].
    - intros n h. rewrite alookup_fold_ainsert. cbn [s_add s_hist]. split.
      + destruct (alookup n (rev (stage ds))) as [h'|] eqn:E.
        * intros Hh. inversion Hh; subst h'. apply alookup_In in E. apply in_rev in E.
          apply stage_In in E as (d & Hd & E1 & E2). exists d. split; auto. apply in_or_app. auto.
        * intros Hh. apply A5 in Hh as (d & Hd & E1 & E2). exists d. split; auto. apply in_or_app. auto.
      + intros (d & Hd & <- & <-). apply in_app_or in Hd as [Hd|Hd].
        * assert (Hl : alookup (d_fq_name d) (r_dim_hashes r) = Some (d_dim d)) by (apply A5; eauto).
          destruct (alookup (d_fq_name d) (rev (stage ds))) as [h'|] eqn:E; auto.
          apply alookup_In in E. apply in_rev in E. apply stage_In in E as (d' & Hd' & E1 & E2).
          rewrite <- E1 in Hl. rewrite (F3 d' _ Hd' Hl). congruence.
        * destruct (stage_key ds d Hd) as [h0 Hh0].
          destruct (alookup (d_fq_name d) (rev (stage ds))) as [h'|] eqn:E.
          -- apply alookup_In in E. apply in_rev in E. apply stage_In in E as (d' & Hd' & E1 & E2).
             rewrite <- E2. f_equal. apply F4; auto.
          -- exfalso. apply alookup_None in E. apply E. rewrite map_rev. apply -> in_rev.
             apply alookup_In in Hh0. apply (in_map fst) in Hh0. exact Hh0.
    - intros d. rewrite cur_descs_add. cbn [s_add s_hist]. intros Hd. apply in_app_or in Hd as [Hd|Hd]; apply in_or_app; auto.
    - intros d. rewrite cur_descs_add. intros Hd. apply in_app_or in Hd as [Hd|Hd]; auto.
  Qed.

  (* ---- unregister ---- *)
  Definition s_del st (cid : N) : sstate C :=
    mkS (filter (fun e => negb (collector_id (fst e) =? cid)) (s_cur st)) (s_hist st).

  Theorem unregister_ok_iff r ds :
    (exists r', reg_unregister r ds = Ok r') <-> In (collector_id ds) (map fst (r_collectors r)).
  Proof.
    unfold reg_unregister. destruct (nlookup (collector_id ds) (r_collectors r)) eqn:E.
    - split; eauto. intros _. apply nlookup_Some_In in E. apply (in_map fst) in E. exact E.
    - split; [intros [? H]; discriminate|]. intros H. apply nlookup_None in E. contradiction.
  Qed.
  Lemma unregister_ok_inv r ds r' :
    reg_unregister r ds = Ok r' ->
    In (collector_id ds) (map fst (r_collectors r))
    /\ r' = mkReg (nremove (collector_id ds) (r_collectors r)) (r_dim_hashes r)
                  (filter (fun i => negb (memN i (distinct_ids ds []))) (r_desc_ids r)) (r_labels r) (r_prefix r).
  Proof.
    intros H. split; [apply unregister_ok_iff; eauto|]. unfold reg_unregister in H.
    destruct (nlookup (collector_id ds) (r_collectors r)); inversion H. reflexivity.
  Qed.
  Lemma unregister_err r ds e : reg_unregister r ds = Err e -> e = EMsg.
  Proof. unfold reg_unregister. destruct (nlookup (collector_id ds) (r_collectors r)); intros H; inversion H. reflexivity. Qed.

  Lemma cur_descs_del_incl st cid d : In d (cur_descs (s_del st cid)) -> In d (cur_descs st).
  Proof.
    unfold cur_descs, s_del. cbn [s_cur]. intros H. apply in_concat in H as (l & Hl & Hd). apply in_map_iff in Hl as (e & <- & He).
    apply filter_In in He as [He _]. apply in_concat. exists (fst e). split; auto. apply in_map. exact He.
  Qed.

  (* [Hsame]: a registered collector with the id of [ds] has the same descriptor ids as [ds]
     (true when [ds] itself is the registered collector, or under the no-collision hypothesis) *)
  Theorem unregister_abs st r ds r' :
    reg_abs st r ->
    (forall e, In e (s_cur st) -> collector_id (fst e) = collector_id ds ->
               forall i, In i (map d_id (fst e)) <-> In i (map d_id ds)) ->
    reg_unregister r ds = Ok r' -> reg_abs (s_del st (collector_id ds)) r'.
  Proof.
    intros A Hsame H. apply unregister_ok_inv in H as [Hk ->]. destruct A as [A1 A2 A3 A4 A5 A6 A7].
    set (cid := collector_id ds) in *.
    (* the registered entry with this key *)
    assert (He0 : exists e0, In e0 (s_cur st) /\ collector_id (fst e0) = cid).
    { rewrite A1, map_map in Hk. apply in_map_iff in Hk as (e0 & E & He0). eauto. }
    destruct He0 as (e0 & He0 & Ek0).
    assert (Hids : filter (fun i => negb (memN i (distinct_ids ds []))) (cur_ids st) = cur_ids (s_del st cid)).
    { unfold cur_ids, s_del. cbn [s_cur]. apply filter_concat_map.
      - intros e He Hg i Hi. apply negb_true_iff, N.eqb_neq in Hg. apply negb_true_iff, memN_false.
        rewrite distinct_ids_In. intros Hin. apply (Hsame e0 He0 Ek0) in Hin.
        eapply (concat_disjoint (fun e => map d_id (fst e)) (s_cur st) e e0 i); eauto. congruence.
      - intros e He Hg i Hi. apply negb_false_iff, N.eqb_eq in Hg. apply negb_false_iff, memN_In.
        rewrite distinct_ids_In. apply (Hsame e He Hg). exact Hi. }
    constructor; cbn [r_collectors r_desc_ids r_dim_hashes r_labels].
    - rewrite A1. unfold s_del. cbn [s_cur]. rewrite nremove_map. reflexivity.
    - rewrite A1, nremove_map, map_map. rewrite A1, map_map in A2. apply NoDup_map_filter. exact A2.
    - rewrite <- Hids. apply Permutation_filter. exact A3.
    - rewrite <- Hids. apply NoDup_filter. exact A4.
    - exact A5.
    - intros d Hd. apply A6. eapply cur_descs_del_incl; eauto.
    - intros d Hd. apply A7. eapply cur_descs_del_incl; eauto.
  Qed.

  (* the collector is gone from the table gather() iterates over, every other one is kept *)
  Theorem unregister_table r ds r' :
    reg_unregister r ds = Ok r' ->
    nlookup (collector_id ds) (r_collectors r') = None
    /\ (forall kc, In kc (r_collectors r') <-> In kc (r_collectors r) /\ fst kc <> collector_id ds)
    /\ r_dim_hashes r' = r_dim_hashes r /\ r_labels r' = r_labels r /\ r_prefix r' = r_prefix r.
  Proof.
    intros H. apply unregister_ok_inv in H as [_ ->]. cbn. split; [apply nlookup_nremove_same|]. split; auto.
    intros kc. apply nremove_In.
  Qed.

  (* a registered collector can be unregistered and then registered again *)
  Theorem unregister_then_register st r ds c0 c :
    reg_abs st r -> In (ds, c0) (s_cur st) ->
    exists r1 r2, reg_unregister r ds = Ok r1 /\ reg_register r1 ds c = Ok r2
                  /\ reg_abs (s_add (s_del st (collector_id ds)) ds c) r2.
  Proof.
    intros A Hin. pose proof A as [A1 A2 A3 A4 A5 A6 A7].
    assert (Hk : In (collector_id ds) (map fst (r_collectors r))).
    { rewrite A1, map_map. apply in_map_iff. exists (ds, c0). auto. }
    destruct (proj2 (unregister_ok_iff r ds) Hk) as [r1 H1]. exists r1.
    assert (Hsame : forall e, In e (s_cur st) -> collector_id (fst e) = collector_id ds ->
                              forall i, In i (map d_id (fst e)) <-> In i (map d_id ds)).
    { intros e He Ek. rewrite A1, map_map in A2. cbn [entry_key fst] in A2.
      assert (e = (ds, c0)) by (eapply (NoDup_map_inj_on (fun e => collector_id (fst e))); eauto). subst e. tauto. }
    pose proof (unregister_abs st r ds r1 A Hsame H1) as B.
    pose proof H1 as H1'. apply unregister_ok_inv in H1' as [_ E1].
    assert (Hd_in : forall d, In d ds -> In d (cur_descs st)).
    { intros d Hd. apply in_concat. exists ds. split; auto. apply (in_map fst) in Hin. exact Hin. }
    assert (HND : NoDup (map d_id ds)).
    { apply in_split in Hin as (l1 & l2 & El). unfold cur_ids in A4. rewrite El, map_app, concat_app in A4. cbn in A4.
      apply NoDup_app_r, NoDup_app_l in A4. exact A4. }
    assert (Hh : forall d, In d ds -> alookup (d_fq_name d) (r_dim_hashes r) = Some (d_dim d)).
    { intros d Hd. apply A5. exists d. split; auto. }
    assert (HF : hash_fine r1 ds).
    { subst r1. unfold hash_fine. cbn [r_desc_ids r_labels r_dim_hashes]. split; [|split; [|split; [|split]]]; auto.
      - intros d Hd Hi. apply filter_In in Hi as [_ Hi]. apply negb_true_iff, memN_false in Hi. apply Hi.
        apply distinct_ids_In. apply in_map. exact Hd.
      - intros d h Hd El. rewrite (Hh d Hd) in El. congruence.
      - intros d d' Hd Hd' En. pose proof (Hh d Hd) as Hl. pose proof (Hh d' Hd') as Hl'. rewrite En in Hl'. congruence. }
    assert (Hreg : reg_register r1 ds c = reg_register_spec r1 ds c) by apply reg_register_verdict.
    unfold reg_register_spec in Hreg. apply verdict_None_hash in HF. rewrite HF in Hreg.
    rewrite <- (collector_id_nodup ds HND) in Hreg.
    assert (Hn : nlookup (collector_id ds) (r_collectors r1) = None) by (subst r1; apply nlookup_nremove_same).
    rewrite Hn in Hreg. eexists. split; auto. split; [exact Hreg|]. eapply register_abs; [exact B|exact Hreg].
  Qed.

  (* ---- agreement of the verdicts under the no-collision hypotheses ---- *)
  Section Pool.
    Variable P : Desc -> Prop.              (* the descriptors in play *)
    Variable CP : list Desc -> Prop.        (* the collectors in play *)
    Hypothesis CP_P : forall ds d, CP ds -> In d ds -> P d.
    (* ids are injective on the pool: equal ids exactly for equal (name, constant values) *)
    Hypothesis ids_exact : forall d1 d2, P d1 -> P d2 -> (d_id d1 = d_id d2 <-> same_id d1 d2).
    (* dimension hashes are injective on the pool, per name *)
    Hypothesis dims_exact : forall d1 d2, P d1 -> P d2 -> d_fq_name d1 = d_fq_name d2 ->
                                          (d_dim d1 = d_dim d2 <-> same_dim d1 d2).
    (* the collector id (ids_hash: FNV-1a over the sorted descriptor ids) is injective on the id sets of the collectors in play *)
    Hypothesis cids_exact : forall ds1 ds2, CP ds1 -> CP ds2 -> collector_id ds1 = collector_id ds2 ->
                                            forall i, In i (map d_id ds1) <-> In i (map d_id ds2).

    Definition st_in st : Prop := (forall d, In d (s_hist st) -> P d) /\ (forall e, In e (s_cur st) -> CP (fst e)).

    Lemma ids_exact_b d1 d2 : P d1 -> P d2 -> (d_id d1 =? d_id d2) = same_idb d1 d2.
    Proof. intros H1 H2. apply eq_true_iff_eq. rewrite N.eqb_eq, same_idb_spec. auto. Qed.
    Lemma dims_exact_b d1 d2 : P d1 -> P d2 -> dim_conflict d1 d2 = name_disagrees d1 d2.
    Proof.
      intros H1 H2. unfold dim_conflict, name_disagrees. destruct (str_eqb (d_fq_name d1) (d_fq_name d2)) eqn:E; auto.
      apply str_eqb_eq in E. cbn [andb]. f_equal. apply eq_true_iff_eq. rewrite N.eqb_eq, same_dimb_spec. auto.
    Qed.
    Lemma coll_exact ds1 ds2 : CP ds1 -> CP ds2 -> (collector_id ds1 = collector_id ds2 <-> same_coll ds1 ds2).
    Proof.
      intros H1 H2. split.
      - intros E. pose proof (cids_exact ds1 ds2 H1 H2 E) as S. split; intros d Hd.
        + assert (Hi : In (d_id d) (map d_id ds2)) by (apply S, in_map; auto).
          apply in_map_iff in Hi as (d' & E' & Hd'). exists d'. split; auto. apply ids_exact; eauto.
        + assert (Hi : In (d_id d) (map d_id ds1)) by (apply S, in_map; auto).
          apply in_map_iff in Hi as (d' & E' & Hd'). exists d'. split; auto. apply ids_exact; eauto.
      - intros [S1 S2]. apply collector_id_same_set. intros i. split; intros Hi; apply in_map_iff in Hi as (d & <- & Hd).
        + destruct (S1 d Hd) as (d' & Hd' & E). apply ids_exact in E; eauto. rewrite E. apply in_map. auto.
        + destruct (S2 d Hd) as (d' & Hd' & E). apply ids_exact in E; eauto. rewrite E. apply in_map. auto.
    Qed.
    Lemma coll_exact_b ds1 ds2 : CP ds1 -> CP ds2 -> (collector_id ds2 =? collector_id ds1) = same_collb ds1 ds2.
    Proof. intros H1 H2. apply eq_true_iff_eq. rewrite N.eqb_eq, same_collb_spec, <- coll_exact; auto. split; auto. Qed.


    Lemma seen_agree st r d :
      reg_abs st r -> st_in st -> P d -> memN (d_id d) (r_desc_ids r) = existsb (same_idb d) (cur_descs st).
    Proof.
      intros A [S1 S2] Hd. destruct A as [A1 A2 A3 A4 A5 A6 A7].
      assert (E : memN (d_id d) (r_desc_ids r) = memN (d_id d) (cur_ids st)).
      { apply eq_true_iff_eq. rewrite !memN_In. split; apply Permutation_in; auto. apply Permutation_sym. exact A3. }
      rewrite E, cur_ids_descs, memN_map_existsb. apply existsb_ext_in. intros d' Hd'. apply ids_exact_b; auto.
    Qed.
    Lemma recorded_agree st r d :
      reg_abs st r -> st_in st -> P d ->
      match alookup (d_fq_name d) (r_dim_hashes r) with Some h => negb (h =? d_dim d) | None => false end
      = existsb (fun d' => name_disagrees d' d) (s_hist st).
    Proof.
      intros A [S1 S2] Hd. destruct A as [A1 A2 A3 A4 A5 A6 A7].
      destruct (alookup (d_fq_name d) (r_dim_hashes r)) as [h|] eqn:El.
      - destruct (h =? d_dim d) eqn:Eh; cbn [negb]; symmetry.
        + apply N.eqb_eq in Eh. apply existsb_false_iff. intros d' Hd'. rewrite <- dims_exact_b by auto.
          apply dim_conflict_false. intros En.
          assert (Hl : alookup (d_fq_name d') (r_dim_hashes r) = Some (d_dim d')) by (apply A5; eauto). congruence.
        + apply A5 in El as (d0 & H0 & En & Ed). apply existsb_exists. exists d0. split; auto.
          rewrite <- dims_exact_b by auto. unfold dim_conflict. rewrite En, str_eqb_refl, Ed, Eh. reflexivity.
      - symmetry. apply existsb_false_iff. intros d' Hd'. unfold name_disagrees.
        destruct (str_eqb (d_fq_name d') (d_fq_name d)) eqn:En; auto. apply str_eqb_eq in En. exfalso.
        assert (Hl : alookup (d_fq_name d') (r_dim_hashes r) = Some (d_dim d')) by (apply A5; eauto). congruence.
    Qed.

    Theorem verdict_agree st r ds :
      reg_abs st r -> st_in st -> (forall d, In d ds -> P d) ->
      first_by (desc_verdict r) [] ds = first_by (a_verdict st (r_labels r)) [] ds.
    Proof.
      intros A S Hds. apply first_by_ext. intros a d b E. cbn [app]. rewrite desc_verdict_gen. unfold a_verdict, gen_verdict.
      assert (Hd : P d) by (apply Hds; subst ds; apply in_or_app; right; left; auto).
      assert (Ha : forall d', In d' a -> P d') by (intros d' Hd'; apply Hds; subst ds; apply in_or_app; auto).
      rewrite (seen_agree st r d A S Hd), (recorded_agree st r d A S Hd).
      rewrite (existsb_ext_in (fun d' => dim_conflict d' d) (fun d' => name_disagrees d' d) a)
        by (intros; apply dims_exact_b; auto).
      rewrite (existsb_ext_in (fun d' => d_id d =? d_id d') (same_idb d) a) by (intros; apply ids_exact_b; auto).
      reflexivity.
    Qed.

    Lemma nlookup_registered l ds :
      CP ds -> (forall e, In e l -> CP (fst e)) ->
      match nlookup (collector_id ds) (map entry_key l) with Some _ => true | None => false end
      = existsb (fun e => same_collb ds (fst e)) l.
    Proof.
      intros Hds. induction l as [|e l IH]; intros Hl; cbn [map nlookup existsb entry_key]; auto.
      rewrite <- (coll_exact_b ds (fst e)) by (auto; apply Hl; left; auto). rewrite N.eqb_sym.
      destruct (collector_id (fst e) =? collector_id ds); auto. apply IH. intros; apply Hl; right; auto.
    Qed.

    Theorem register_agree st r ds c :
      reg_abs st r -> st_in st -> CP ds ->
      res_unit (reg_register r ds c) = res_unit (spec_register st (r_labels r) ds c).
    Proof.
      intros A S Hds. rewrite reg_register_verdict. unfold reg_register_spec, spec_register.
      rewrite <- (verdict_agree st r ds A S) by (intros; eapply CP_P; eauto).
      destruct (first_by (desc_verdict r) [] ds) eqn:E; auto. apply verdict_None_hash in E.
      rewrite <- (collector_id_nodup ds) by apply E. unfold registered_b.
      rewrite <- (nlookup_registered (s_cur st) ds Hds (proj2 S)), <- (abs_coll st r A).
      destruct (nlookup (collector_id ds) (r_collectors r)); reflexivity.
    Qed.

    Lemma st_in_add st ds c : st_in st -> CP ds -> st_in (s_add st ds c).
    Proof.
      intros [S1 S2] Hds. split; cbn [s_add s_hist s_cur].
      - intros d Hd. apply in_app_or in Hd as [Hd|Hd]; eauto.
      - intros e He. apply in_app_or in He as [He|[<-|[]]]; auto.
    Qed.

    (* one registration: same outcome as the abstract registry, relation kept *)
    Theorem register_refines st r ds c :
      reg_abs st r -> st_in st -> CP ds ->
      match reg_register r ds c with
      | Ok r' => spec_register st (r_labels r) ds c = Ok (s_add st ds c)
                 /\ reg_abs (s_add st ds c) r' /\ st_in (s_add st ds c) /\ r_labels r' = r_labels r
      | Err e => spec_register st (r_labels r) ds c = Err e
      end.
    Proof.
      intros A S Hds. pose proof (register_agree st r ds c A S Hds) as E.
      destruct (reg_register r ds c) as [r'|e] eqn:H; cbn [res_unit] in E.
      - destruct (spec_register st (r_labels r) ds c) as [st'|] eqn:H'; [|discriminate].
        apply spec_register_ok_state in H'. subst st'. split; auto. split; [eapply register_abs; eauto|].
        split; [apply st_in_add; auto|]. apply register_ok_inv in H as (_ & _ & ->). reflexivity.
      - destruct (spec_register st (r_labels r) ds c); [discriminate|]. cbn [res_unit] in E. inversion E. reflexivity.
    Qed.

    Lemma spec_unregister_del st ds :
      st_in st -> CP ds ->
      spec_unregister st ds = if registered_b st ds then Ok (s_del st (collector_id ds)) else Err EMsg.
    Proof.
      intros [S1 S2] Hds. unfold spec_unregister, s_del. destruct (registered_b st ds); auto. do 2 f_equal.
      apply filter_ext_in. intros e He. rewrite <- (coll_exact_b ds (fst e)); auto.
    Qed.
    Lemma st_in_del st cid : st_in st -> st_in (s_del st cid).
    Proof. intros [S1 S2]. split; cbn [s_del s_hist s_cur]; auto. intros e He. apply filter_In in He as [He _]. auto. Qed.

    Theorem unregister_refines st r ds :
      reg_abs st r -> st_in st -> CP ds ->
      match reg_unregister r ds with
      | Ok r' => spec_unregister st ds = Ok (s_del st (collector_id ds))
                 /\ reg_abs (s_del st (collector_id ds)) r' /\ st_in (s_del st (collector_id ds)) /\ r_labels r' = r_labels r
      | Err e => spec_unregister st ds = Err e
      end.
    Proof.
      intros A S Hds. rewrite (spec_unregister_del st ds S Hds). unfold registered_b.
      rewrite <- (nlookup_registered (s_cur st) ds Hds (proj2 S)), <- (abs_coll st r A).
      destruct (reg_unregister r ds) as [r'|e] eqn:H.
      - pose proof H as H'. apply unregister_ok_inv in H' as [Hk E]. apply nlookup_in_keys in Hk as [v Hv]. rewrite Hv.
        split; auto. split; [|split; [apply st_in_del; auto|subst r'; reflexivity]].
        eapply unregister_abs; eauto. intros e He Ek. apply cids_exact; auto. apply (proj2 S); auto.
      - pose proof (unregister_err r ds e H) as ->. unfold reg_unregister in H.
        destruct (nlookup (collector_id ds) (r_collectors r)); [discriminate|reflexivity].
    Qed.

    (* ---- the statements of C06 in terms of the abstract registry ---- *)
    Theorem register_iff st r ds c :
      reg_abs st r -> st_in st -> CP ds ->
      ((exists r', reg_register r ds c = Ok r') <-> can_register st (r_labels r) ds).
    Proof.
      intros A S Hds. rewrite <- (spec_register_ok_iff st (r_labels r) ds c).
      pose proof (register_refines st r ds c A S Hds) as H. destruct (reg_register r ds c) as [r'|e].
      - destruct H as (H & _). split; eauto.
      - split; intros [x Hx]; congruence.
    Qed.
    Theorem register_AlreadyReg_iff st r ds c :
      reg_abs st r -> st_in st -> CP ds ->
      (reg_register r ds c = Err EAlreadyReg <->
       (exists a d b, ds = a ++ d :: b /\ descs_fine st (r_labels r) a /\ equal_registered st d)
       \/ (descs_fine st (r_labels r) ds /\ coll_registered st ds)).
    Proof.
      intros A S Hds. rewrite <- (spec_register_AlreadyReg st (r_labels r) ds c).
      pose proof (register_refines st r ds c A S Hds) as H. destruct (reg_register r ds c) as [r'|e].
      - destruct H as (H & _). rewrite H. split; discriminate.
      - rewrite H. split; congruence.
    Qed.
    Theorem register_Msg_iff st r ds c :
      reg_abs st r -> st_in st -> CP ds ->
      (reg_register r ds c = Err EMsg <->
       exists a d b, ds = a ++ d :: b /\ descs_fine st (r_labels r) a /\ ~ equal_registered st d /\ objection st (r_labels r) a d).
    Proof.
      intros A S Hds. rewrite <- (spec_register_Msg st (r_labels r) ds c).
      pose proof (register_refines st r ds c A S Hds) as H. destruct (reg_register r ds c) as [r'|e].
      - destruct H as (H & _). rewrite H. split; discriminate.
      - rewrite H. split; congruence.
    Qed.
    Theorem unregister_iff_abs st r ds :
      reg_abs st r -> st_in st -> CP ds ->
      ((exists r', reg_unregister r ds = Ok r') <-> coll_registered st ds).
    Proof.
      intros A S Hds. rewrite <- (spec_unregister_ok_iff st ds).
      pose proof (unregister_refines st r ds A S Hds) as H. destruct (reg_unregister r ds) as [r'|e].
      - destruct H as (H & _). split; eauto.
      - split; intros [x Hx]; congruence.
    Qed.
  End Pool.

  Lemma register_err_kinds r ds c e : reg_register r ds c = Err e -> e = EAlreadyReg \/ e = EMsg.
  Proof.
    rewrite reg_register_verdict. unfold reg_register_spec. destruct (first_by (desc_verdict r) [] ds) as [e0|] eqn:E.
    - intros H. inversion H; subst. apply first_by_Some in E as (a & d & b & _ & _ & Hd). rewrite desc_verdict_gen in Hd.
      apply gen_verdict_kinds in Hd as [[-> _]|[-> _]]; auto.
    - destruct (nlookup (ids_hash (map d_id ds)) (r_collectors r)); [|discriminate]. intros H. inversion H. auto.
  Qed.
End Abs.

(* ====================================================================================== *)
(* 4. histories                                                                            *)
(* ====================================================================================== *)
Definition ids_exact_on (P : Desc -> Prop) : Prop :=
  forall d1 d2, P d1 -> P d2 -> (d_id d1 = d_id d2 <-> same_id d1 d2).
Definition dims_exact_on (P : Desc -> Prop) : Prop :=
  forall d1 d2, P d1 -> P d2 -> d_fq_name d1 = d_fq_name d2 -> (d_dim d1 = d_dim d2 <-> same_dim d1 d2).
Definition cids_exact_on (CP : list Desc -> Prop) : Prop :=
  forall ds1 ds2, CP ds1 -> CP ds2 -> collector_id ds1 = collector_id ds2 ->
                  forall i, In i (map d_id ds1) <-> In i (map d_id ds2).

Inductive regop (C : Type) := RRegister (ds : list Desc) (c : C) | RUnregister (ds : list Desc).
Arguments RRegister {C}.
Arguments RUnregister {C}.

Section History.
  Context {C : Type}.
  Implicit Types (st : sstate C) (r : regcore C) (o : regop C) (ops : list (regop C)).

  Definition op_ds o : list Desc := match o with RRegister ds _ => ds | RUnregister ds => ds end.
  Definition reg_step r o : regcore C * result unit :=
    match o with
    | RRegister ds c => match reg_register r ds c with Ok r' => (r', Ok tt) | Err e => (r, Err e) end
    | RUnregister ds => match reg_unregister r ds with Ok r' => (r', Ok tt) | Err e => (r, Err e) end
    end.
  Definition spec_step labels st o : sstate C * result unit :=
    match o with
    | RRegister ds c => match spec_register st labels ds c with Ok st' => (st', Ok tt) | Err e => (st, Err e) end
    | RUnregister ds => match spec_unregister st ds with Ok st' => (st', Ok tt) | Err e => (st, Err e) end
    end.
  Fixpoint reg_trace r ops : list (result unit) :=
    match ops with [] => [] | o :: t => snd (reg_step r o) :: reg_trace (fst (reg_step r o)) t end.
  Fixpoint reg_final r ops : regcore C :=
    match ops with [] => r | o :: t => reg_final (fst (reg_step r o)) t end.
  Fixpoint spec_trace labels st ops : list (result unit) :=
    match ops with [] => [] | o :: t => snd (spec_step labels st o) :: spec_trace labels (fst (spec_step labels st o)) t end.
  Fixpoint spec_final labels st ops : sstate C :=
    match ops with [] => st | o :: t => spec_final labels (fst (spec_step labels st o)) t end.

  (* a failed call returns the registry it was given *)
  Lemma reg_step_err r o e : snd (reg_step r o) = Err e -> fst (reg_step r o) = r.
  Proof.
    destruct o as [ds c|ds]; cbn [reg_step].
    - destruct (reg_register r ds c); cbn; [discriminate|auto].
    - destruct (reg_unregister r ds); cbn; [discriminate|auto].
  Qed.

  Section Pool.
    Variable P : Desc -> Prop.
    Variable CP : list Desc -> Prop.
    Hypothesis CP_P : forall ds d, CP ds -> In d ds -> P d.
    Hypothesis Hids : ids_exact_on P.
    Hypothesis Hdims : dims_exact_on P.
    Hypothesis Hcids : cids_exact_on CP.

    Lemma step_refines st r o :
      reg_abs st r -> st_in P CP st -> CP (op_ds o) ->
      snd (reg_step r o) = snd (spec_step (r_labels r) st o)
      /\ reg_abs (fst (spec_step (r_labels r) st o)) (fst (reg_step r o))
      /\ st_in P CP (fst (spec_step (r_labels r) st o))
      /\ r_labels (fst (reg_step r o)) = r_labels r.
    Proof.
      intros A S Ho. destruct o as [ds c|ds]; cbn [reg_step spec_step op_ds] in *.
      - pose proof (register_refines P CP CP_P Hids Hdims Hcids st r ds c A S Ho) as H.
        destruct (reg_register r ds c) as [r'|e].
        + destruct H as (-> & H2 & H3 & H4). cbn. auto.
        + rewrite H. cbn. auto.
      - pose proof (unregister_refines P CP CP_P Hids Hcids st r ds A S Ho) as H.
        destruct (reg_unregister r ds) as [r'|e].
        + destruct H as (-> & H2 & H3 & H4). cbn. auto.
        + rewrite H. cbn. auto.
    Qed.

    Theorem history_refines ops : forall st r,
      reg_abs st r -> st_in P CP st -> Forall (fun o => CP (op_ds o)) ops ->
      reg_trace r ops = spec_trace (r_labels r) st ops
      /\ reg_abs (spec_final (r_labels r) st ops) (reg_final r ops)
      /\ st_in P CP (spec_final (r_labels r) st ops).
    Proof.
      induction ops as [|o ops IH]; intros st r A S F; cbn [reg_trace spec_trace reg_final spec_final]; auto.
      inversion F as [|? ? Ho Fr]; subst. destruct (step_refines st r o A S Ho) as (E1 & A' & S' & El).
      destruct (IH _ _ A' S' Fr) as (E2 & A'' & S''). rewrite El in *. rewrite E1, E2. auto.
    Qed.
  End Pool.

  (* the pool of a history: the descriptors and collectors occurring in it *)
  Definition hist_P ops (d : Desc) : Prop := exists o, In o ops /\ In d (op_ds o).
  Definition hist_CP ops (ds : list Desc) : Prop := exists o, In o ops /\ op_ds o = ds.
  Definition fresh_registry r : Prop := r = reg_empty \/ exists prefix labels, reg_new_custom prefix labels = Ok r.

  Lemma fresh_registry_abs r : fresh_registry r -> reg_abs s_empty r.
  Proof.
    intros [->|(prefix & labels & H)]; [apply reg_abs_empty|]. unfold reg_new_custom in H.
    destruct (_ || _); inversion H. apply reg_abs_empty.
  Qed.

  (* every history of register/unregister calls on a fresh registry, in every reachable state *)
  Theorem history_refines_fresh ops r0 :
    fresh_registry r0 -> ids_exact_on (hist_P ops) -> dims_exact_on (hist_P ops) -> cids_exact_on (hist_CP ops) ->
    forall pre post, ops = pre ++ post ->
      reg_trace r0 pre = spec_trace (r_labels r0) s_empty pre
      /\ reg_abs (spec_final (r_labels r0) s_empty pre) (reg_final r0 pre).
  Proof.
    intros Hf H1 H2 H3 pre post E.
    destruct (history_refines (hist_P ops) (hist_CP ops)) with (ops := pre) (st := @s_empty C) (r := r0) as (T & A & _); auto.
    - intros ds d (o & Ho & <-) Hd. exists o. auto.
    - apply fresh_registry_abs. exact Hf.
    - split; intros x [].
    - apply Forall_forall. intros o Ho. exists o. split; auto. subst ops. apply in_or_app. auto.
  Qed.
End History.

(* ====================================================================================== *)
(* 5. the world model: a refused registration changes nothing                              *)
(* ====================================================================================== *)
Lemma run_app w a : forall b, run w (a ++ b) = run w a ++ run (run_world w a) b.
Proof.
  revert w; induction a as [|o a IH]; intros w b; cbn [app run run_world]; auto.
  destruct (step w o) as [w' ob] eqn:E. cbn [fst]. rewrite IH. reflexivity.
Qed.

Theorem world_register_not_ok_noop w r s :
  snd (step w (OpRegister r s)) <> ORes (Ok tt) -> fst (step w (OpRegister r s)) = w.
Proof.
  unfold step. destruct (slot w r); try reflexivity. destruct (collector_of w (slot w s)) as [[c ds]|]; try reflexivity.
  destruct (nth_error (w_reg w) r0); try reflexivity. destruct (reg_register r1 ds c); cbn; [congruence|reflexivity].
Qed.
Theorem world_failed_register_noop w r s w' e : step w (OpRegister r s) = (w', ORes (Err e)) -> w' = w.
Proof.
  intros H. pose proof (world_register_not_ok_noop w r s) as N. rewrite H in N. cbn in N. apply N. discriminate.
Qed.
(* ... so the rest of any history runs exactly as if the call had not been made *)
Theorem world_failed_register_invisible w pre r s post e :
  snd (step (run_world w pre) (OpRegister r s)) = ORes (Err e) ->
  run w (pre ++ OpRegister r s :: post) = run w pre ++ ORes (Err e) :: run (run_world w pre) post
  /\ run w (pre ++ post) = run w pre ++ run (run_world w pre) post.
Proof.
  intros H. rewrite !run_app. split; auto. f_equal. cbn [run].
  destruct (step (run_world w pre) (OpRegister r s)) as [w' ob] eqn:E. cbn [snd] in H. subst ob.
  apply world_failed_register_noop in E. subst w'. reflexivity.
Qed.

(* what OpRegister / OpUnregister / OpGather do, in terms of the registry functions *)
Lemma world_register_step w r s ri rc c ds :
  slot w r = HRegistry ri -> collector_of w (slot w s) = Some (c, ds) -> nth_error (w_reg w) ri = Some rc ->
  step w (OpRegister r s) =
  match reg_register rc ds c with
  | Ok rc' => (set_reg w (list_set (w_reg w) ri rc'), ORes (Ok tt))
  | Err e => (w, ORes (Err e))
  end.
Proof. intros H1 H2 H3. unfold step. rewrite H1, H2, H3. reflexivity. Qed.
Lemma world_unregister_step w r s ri rc c ds :
  slot w r = HRegistry ri -> collector_of w (slot w s) = Some (c, ds) -> nth_error (w_reg w) ri = Some rc ->
  step w (OpUnregister r s) =
  match reg_unregister rc ds with
  | Ok rc' => (set_reg w (list_set (w_reg w) ri rc'), ORes (Ok tt))
  | Err e => (w, ORes (Err e))
  end.
Proof. intros H1 H2 H3. unfold step. rewrite H1, H2, H3. reflexivity. Qed.
Lemma world_gather_step w r ri rc :
  slot w r = HRegistry ri -> nth_error (w_reg w) ri = Some rc ->
  step w (OpGather r) =
  match collect_all w (r_collectors rc) with
  | None => (w, OHung)
  | Some (fs, w') => (w', OFams (gather_families (r_prefix rc) (r_labels rc) fs))
  end.
Proof. intros H1 H2. unfold step. rewrite H1, H2. reflexivity. Qed.
(* gather only reports what the collectors in the table produce *)
Lemma collect_all_sources cs : forall w fs w',
  collect_all w cs = Some (fs, w') ->
  forall f, In f fs -> exists k c w1 fs1 w2, In (k, c) cs /\ collect_collector w1 c = Some (fs1, w2) /\ In f fs1.
Proof.
  induction cs as [|[k c] cs IH]; intros w fs w' H f Hf; cbn [collect_all] in H.
  - inversion H; subst. contradiction.
  - destruct (collect_collector w c) as [[fs1 w1]|] eqn:E1; [|discriminate].
    destruct (collect_all w1 cs) as [[fs2 w2]|] eqn:E2; [|discriminate]. inversion H; subst.
    apply in_app_or in Hf as [Hf|Hf].
    + exists k, c, w, fs1, w1. split; [left; auto|]. auto.
    + destruct (IH _ _ _ E2 f Hf) as (k' & c' & wa & fsa & wb & Hin & Hc & Hfa). exists k', c', wa, fsa, wb. split; [right; auto|auto].
Qed.

(* ====================================================================================== *)
(* 6. where the hypotheses come from: descriptors built by Desc::new, FNV injective        *)
(* ====================================================================================== *)
Lemma sorted_map_lp l : StronglySorted (le lp_leb) l -> sorted_strs (map lp_name l).
Proof.
  induction 1 as [|x l S IH Hx]; cbn [map]; constructor; auto. apply Forall_forall. intros n Hn.
  apply in_map_iff in Hn as (y & <- & Hy). rewrite Forall_forall in Hx. apply (Hx y Hy).
Qed.
Lemma cpairs_names consts : map lp_name (cpairs consts) = cnames consts.
Proof.
  apply sorted_strs_unique.
  - apply sorted_map_lp. apply sort_by_sorted; [apply lp_leb_total|apply lp_leb_trans].
  - apply cnames_sorted.
  - eapply Permutation_trans; [apply Permutation_map, sort_by_perm|]. rewrite map_map. cbn.
    apply Permutation_sym. apply cnames_perm.
Qed.
Lemma cpairs_values consts : NoDup (map fst consts) -> map lp_value (cpairs consts) = cvals consts.
Proof.
  intros ND. unfold cvals. rewrite <- cpairs_names, map_map. apply map_ext_in. intros p Hp.
  apply (Permutation_in _ (sort_by_perm lp_leb _)) in Hp. apply in_map_iff in Hp as ([k v] & <- & Hkv). cbn.
  rewrite (alookup_NoDup_In k v consts ND Hkv). reflexivity.
Qed.

(* a descriptor produced by Desc::new from well-formed strings and a map (distinct keys) *)
Definition built (d : Desc) : Prop :=
  exists fq help vars consts,
    NoDup (map fst consts) /\ wf_str help /\ wf_consts consts /\ desc_new fq help vars consts = Some d.
Definition id_bytes_of (d : Desc) : list N := id_preimage (d_fq_name d) (cvalues d).
Definition dim_bytes_of (d : Desc) : list N :=
  match add_vars (d_vars d) (cnames_of d) with Some names => dim_preimage (d_help d) names | None => [] end.

Lemma built_id d : built d -> d_id d = fnv1a (id_bytes_of d) /\ wf_str (d_fq_name d) /\ wf_strs (cvalues d).
Proof.
  intros (fq & help & vars & consts & ND & Wh & Wc & H). apply desc_new_inv in H as (_ & Hfq & _ & names & _ & ->).
  unfold id_bytes_of, cvalues. cbn [d_id d_fq_name d_const_pairs]. rewrite cpairs_values by auto.
  split; auto. split; [apply valid_metric_name_wf; auto|apply cvals_wf; auto].
Qed.
Theorem built_ids_exact (P : Desc -> Prop) :
  (forall d, P d -> built d) ->
  (forall d1 d2, P d1 -> P d2 -> fnv1a (id_bytes_of d1) = fnv1a (id_bytes_of d2) -> id_bytes_of d1 = id_bytes_of d2) ->
  ids_exact_on P.
Proof.
  intros Hb Hinj d1 d2 H1 H2. destruct (built_id d1 (Hb _ H1)) as (E1 & W1 & V1). destruct (built_id d2 (Hb _ H2)) as (E2 & W2 & V2).
  unfold same_id. rewrite <- (id_preimage_inj _ _ _ _ W1 V1 W2 V2). fold (id_bytes_of d1) (id_bytes_of d2). rewrite E1, E2.
  split; [apply Hinj; auto|congruence].
Qed.

Lemma built_dim d : built d ->
  exists help vars consts b,
    NoDup (map fst consts) /\ wf_str help /\ Forall (fun n => is_valid_label_name n = true) (map fst consts)
    /\ desc_dim_bytes help vars consts = Some b /\ dim_bytes_of d = b /\ d_dim d = fnv1a b
    /\ d_help d = help /\ d_vars d = vars /\ Permutation (cnames_of d) (map fst consts) /\ NoDup vars.
Proof.
  intros (fq & help & vars & consts & ND & Wh & Wc & H). apply desc_new_inv in H as (_ & Hfq & Fc & names & Ha & ->).
  exists help, vars, consts, (dim_preimage help names). unfold desc_dim_bytes, dim_bytes_of, cnames_of.
  cbn [d_dim d_help d_vars d_const_pairs]. rewrite cpairs_names, Ha. cbn [option_map]. repeat split; auto.
  - apply cnames_perm.
  - apply (add_vars_nodup_vars vars (cnames consts) names); [apply cnames_sorted|apply cnames_nodup; exact ND|exact Ha].
Qed.
Theorem built_dims_exact (P : Desc -> Prop) :
  (forall d, P d -> built d) ->
  (forall d1 d2, P d1 -> P d2 -> fnv1a (dim_bytes_of d1) = fnv1a (dim_bytes_of d2) -> dim_bytes_of d1 = dim_bytes_of d2) ->
  dims_exact_on P.
Proof.
  intros Hb Hinj d1 d2 H1 H2 _.
  destruct (built_dim d1 (Hb _ H1)) as (help1 & vars1 & consts1 & b1 & ND1 & W1 & F1 & B1 & E1 & D1 & Eh1 & Ev1 & Pn1 & NV1).
  destruct (built_dim d2 (Hb _ H2)) as (help2 & vars2 & consts2 & b2 & ND2 & W2 & F2 & B2 & E2 & D2 & Eh2 & Ev2 & Pn2 & NV2).
  pose proof (desc_dim_bytes_iff help1 vars1 consts1 b1 help2 vars2 consts2 b2 W1 W2 ND1 ND2 F1 F2 B1 B2) as Hiff.
  assert (Hb12 : d_dim d1 = d_dim d2 <-> b1 = b2).
  { rewrite D1, D2. split; [|congruence]. intros E. rewrite <- E1, <- E2. apply Hinj; auto. rewrite E1, E2. exact E. }
  rewrite Hb12, Hiff. unfold same_dim. rewrite Eh1, Eh2, Ev1, Ev2.
  assert (NC1 : NoDup (cnames_of d1)) by (eapply Permutation_NoDup; [apply Permutation_sym; exact Pn1|exact ND1]).
  assert (NC2 : NoDup (cnames_of d2)) by (eapply Permutation_NoDup; [apply Permutation_sym; exact Pn2|exact ND2]).
  split.
  - intros (Eh & Pc & Pv). split; auto. split; intros x.
    + split; intros Hx.
      * eapply Permutation_in; [apply Permutation_sym; exact Pn2|]. eapply Permutation_in; [exact Pc|]. eapply Permutation_in; [exact Pn1|exact Hx].
      * eapply Permutation_in; [apply Permutation_sym; exact Pn1|]. eapply Permutation_in; [apply Permutation_sym; exact Pc|]. eapply Permutation_in; [exact Pn2|exact Hx].
    + split; apply Permutation_in; auto. apply Permutation_sym. exact Pv.
  - intros (Eh & Sc & Sv). split; auto. split.
    + eapply Permutation_trans; [apply Permutation_sym; exact Pn1|]. eapply Permutation_trans; [|exact Pn2].
      apply NoDup_Permutation; auto.
    + apply NoDup_Permutation; auto.
Qed.

(* ====================================================================================== *)
(* 7. without the hypothesis the iff is false: an FNV-1a-64 collision between metric names *)
(* ====================================================================================== *)
Definition coll_name1 : str := [105;110;100;98;102;113;101;121;115;98;110;112;115;102].   (* indbfqeysbnpsf *)
Definition coll_name2 : str := [105;118;108;116;108;100;103;109;111;99;116;121;98;100].   (* ivltldgmoctybd *)
Definition help_h : str := [104].

Theorem register_iff_refuted_by_collision :
  exists d1 d2 (r1 : regcore unit),
    desc_new coll_name1 help_h [] [] = Some d1 /\ desc_new coll_name2 help_h [] [] = Some d2
    /\ d_fq_name d1 <> d_fq_name d2
    /\ reg_register reg_empty [d1] tt = Ok r1
    /\ reg_register r1 [d2] tt = Err EAlreadyReg
    /\ reg_abs (s_add s_empty [d1] tt) r1
    /\ can_register (s_add s_empty [d1] tt) None [d2].
Proof.
  destruct (desc_new coll_name1 help_h [] []) as [d1|] eqn:E1; [|vm_compute in E1; discriminate].
  destruct (desc_new coll_name2 help_h [] []) as [d2|] eqn:E2; [|vm_compute in E2; discriminate].
  destruct (reg_register reg_empty [d1] tt) as [r1|] eqn:R1.
  2:{ vm_compute in E1. inversion E1; subst. vm_compute in R1. discriminate. }
  exists d1, d2, r1. split; auto. split; auto.
  assert (A : reg_abs (s_add s_empty [d1] tt) r1) by (eapply register_abs; [apply (reg_abs_empty None None)|exact R1]).
  vm_compute in E1, E2. inversion E1; subst d1. inversion E2; subst d2. vm_compute in R1. inversion R1; subst r1.
  split; [vm_compute; discriminate|]. split; auto. split; [vm_compute; reflexivity|]. split; auto.
  apply (spec_register_ok_iff _ None _ tt). eexists. vm_compute. reflexivity.
Qed.

(* ====================================================================================== *)
(* 8. the hash-level iff (no hypothesis at all) and gather after unregister                *)
(* ====================================================================================== *)
Theorem register_ok_iff_hash {C} (r : regcore C) ds c :
  (exists r', reg_register r ds c = Ok r') <-> hash_fine r ds /\ nlookup (collector_id ds) (r_collectors r) = None.
Proof.
  split.
  - intros [r' H]. apply register_ok_inv in H as (H1 & H2 & _). auto.
  - intros [H1 H2]. rewrite reg_register_verdict. unfold reg_register_spec.
    rewrite (proj2 (verdict_None_hash r ds) H1). rewrite <- (collector_id_nodup ds) by apply H1. rewrite H2. eauto.
Qed.

Theorem gather_after_unregister (r r' : regcore collector) ds w fs w' f :
  reg_unregister r ds = Ok r' -> collect_all w (r_collectors r') = Some (fs, w') -> In f fs ->
  exists k c w1 fs1 w2, In (k, c) (r_collectors r) /\ k <> collector_id ds
                        /\ collect_collector w1 c = Some (fs1, w2) /\ In f fs1.
Proof.
  intros H Hc Hf. destruct (collect_all_sources _ _ _ _ Hc f Hf) as (k & c & w1 & fs1 & w2 & Hin & Hcc & Hf1).
  apply unregister_table in H as (_ & Ht & _). apply Ht in Hin as [Hin Hk]. exists k, c, w1, fs1, w2. auto.
Qed.
