(* C10: "the linearisation search does not answer NotFound" on ALL validated traces in the domain - part 2: the spec's sequential map
   (keys and child ids, values, thread-local handle and key snapshot) simulates the abstract state along the linearisation list of
   Proofs/VecConcSpec5.v; hence [lin_exists], hence (dfs_notfound_exact) the FULL relaxed spec on validated traces. *)
Require Import PV.Base.Prelude PV.Base.StrFacts PV.Model.Conc PV.Model.VecConc PV.Spec.SpecC10.
Require Import PV.Proofs.VecConcBase PV.Proofs.VecConcLin PV.Proofs.VecConcFacts PV.Proofs.VecConcRT PV.Proofs.VecConcStrict.
Require Import PV.Proofs.VecConcSpec PV.Proofs.VecConcSpec2 PV.Proofs.VecConcSpec3 PV.Proofs.VecConcSpec4 PV.Proofs.VecConcSpec5.
From Coq Require Import Arith Lia Permutation Sorted.
Open Scope nat_scope.

(* ------------------------------------------------------------------ running a list of actions *)
Fixpoint run_acts (x : sst) (L : list act) : option sst :=
  match L with [] => Some x | a :: L' => match apply_act x a with Some x' => run_acts x' L' | None => None end end.
Lemma replay_app x L1 x' L2 : run_acts x L1 = Some x' -> replay_ok x' L2 -> replay_ok x (L1 ++ L2).
Proof.
  revert x; induction L1 as [|a L1 IH]; intros x H1 H2; cbn in *; [inversion H1; subst; auto|].
  destruct (apply_act x a) as [x1|] eqn:E; [|discriminate]. exists x1. split; auto.
Qed.

(* ------------------------------------------------------------------ the spec's maps *)
Lemma mget_In (L : list (skey * N)) k c : NoDup (map fst L) -> In (k, c) L -> mget k L = Some c.
Proof.
  induction L as [|[k1 c1] L IH]; cbn; [tauto|]. intros ND [H|H]; inversion ND; subst.
  - inversion H; subst. rewrite skey_eqb_key, key_eqb_refl. reflexivity.
  - rewrite skey_eqb_key. destruct (key_eqb k k1) eqn:E; auto. apply key_eqb_eq in E; subst. exfalso. apply H2. apply in_map_iff. exists (k1, c); auto.
Qed.
Lemma mget_notin (L : list (skey * N)) k : ~ In k (map fst L) -> mget k L = None.
Proof.
  induction L as [|[k1 c1] L IH]; cbn; auto. intros H. rewrite skey_eqb_key. destruct (key_eqb k k1) eqn:E.
  - apply key_eqb_eq in E; subst. tauto.
  - apply IH. tauto.
Qed.
Lemma mget_some_in (L : list (skey * N)) k c : mget k L = Some c -> In (k, c) L.
Proof.
  induction L as [|[k1 c1] L IH]; cbn; [discriminate|]. rewrite skey_eqb_key. destruct (key_eqb k k1) eqn:E; auto.
  apply key_eqb_eq in E; subst. intros H; inversion H; auto.
Qed.
Lemma mdel_app k (l1 l2 : list (skey * N)) : mdel k (l1 ++ l2) = mdel k l1 ++ mdel k l2.
Proof. induction l1 as [|[k1 c1] l1 IH]; cbn; auto. destruct (skey_eqb k k1); cbn; rewrite IH; auto. Qed.
Lemma mdel_rev k (l : list (skey * N)) : mdel k (rev l) = rev (mdel k l).
Proof.
  induction l as [|[k1 c1] l IH]; cbn; auto. rewrite mdel_app, IH. cbn. destruct (skey_eqb k k1); cbn; auto. rewrite app_nil_r; auto.
Qed.
Lemma mdel_In k (l : list (skey * N)) x : In x (mdel k l) -> In x l.
Proof. induction l as [|[k1 c1] l IH]; cbn; auto. destruct (skey_eqb k k1); cbn; [auto | intros [H|H]; auto]. Qed.
Lemma keys_insert k n (am : list (key * (N * N))) : klookup k am = None -> a_keys (kinsert k (n, 0%N) am) = a_keys am ++ [(k, n)].
Proof. intros H. rewrite kinsert_fresh by auto. unfold a_keys. rewrite map_app. reflexivity. Qed.
Lemma keys_bump c d (am : list (key * (N * N))) : a_keys (map (a_bump c d) am) = a_keys am.
Proof.
  unfold a_keys. induction am as [|[k [c1 v1]] am IH]; cbn; auto. rewrite IH. f_equal. unfold a_bump; cbn. destruct (c1 =? c)%N; reflexivity.
Qed.
Lemma keys_remove k (am : list (key * (N * N))) : a_keys (kremove k am) = mdel k (a_keys am).
Proof.
  unfold a_keys. induction am as [|[k1 [c1 v1]] am IH]; cbn; auto. change (skey_eqb k k1) with (key_eqb k k1). destruct (key_eqb k k1); cbn; rewrite IH; auto.
Qed.
Lemma keys_fst (am : list (key * (N * N))) : map fst (a_keys am) = map fst am.
Proof. unfold a_keys. rewrite map_map. reflexivity. Qed.
Lemma mget_rev_keys (am : list (key * (N * N))) k : NoDup (map fst am) -> mget k (rev (a_keys am)) = option_map fst (klookup k am).
Proof.
  intros ND. assert (ND' : NoDup (map fst (rev (a_keys am)))) by (rewrite map_rev, keys_fst; apply NoDup_rev; auto).
  destruct (klookup k am) as [[c v]|] eqn:E; cbn.
  - apply mget_In; auto. rewrite <- in_rev. unfold a_keys. apply in_map_iff. exists (k, (c, v)). split; auto. apply klookup_In; auto.
  - apply mget_notin. rewrite map_rev, keys_fst, <- in_rev. apply klookup_None; auto.
Qed.
Lemma nodup_run a L : NoDup (map fst (a_map a)) -> NoDup (map fst (a_map (arun a L))).
Proof. revert a; induction L as [|[o r] L IH]; intros a H; cbn; auto. apply IH. apply nodup_keys_step; auto. Qed.
Lemma mget_map_f (f : skey -> N) (l : list (skey * N)) k : In k (map fst l) -> mget k (map (fun kv => (fst kv, f (fst kv))) l) = Some (f k).
Proof.
  induction l as [|[k1 v1] l IH]; cbn; [tauto|]. rewrite skey_eqb_key. destruct (key_eqb k k1) eqn:E.
  - apply key_eqb_eq in E; subst; auto.
  - apply key_eqb_neq in E. intros [H|H]; [congruence | auto].
Qed.

(* values *)
Lemma vget_vadd_same c d m : In c (map fst m) -> vget c (vadd c d m) = (vget c m + d)%N.
Proof.
  induction m as [|[c1 v1] m IH]; cbn; [tauto|]. destruct (c =? c1)%N eqn:E; cbn; rewrite E; auto.
  apply N.eqb_neq in E. intros [H|H]; [congruence | auto].
Qed.
Lemma vget_vadd_other c c' d m : c' <> c -> vget c' (vadd c d m) = vget c' m.
Proof.
  intros Hn. induction m as [|[c1 v1] m IH]; cbn; auto. destruct (c =? c1)%N eqn:E; cbn.
  - apply N.eqb_eq in E; subst. destruct (c' =? c1)%N eqn:E2; auto. apply N.eqb_eq in E2. congruence.
  - rewrite IH. reflexivity.
Qed.
Lemma dom_vadd c d m : map fst (vadd c d m) = map fst m.
Proof. induction m as [|[c1 v1] m IH]; cbn; auto. destruct (c =? c1)%N; cbn; rewrite ?IH; auto. Qed.
Lemma sumN_app l1 l2 : sumN (l1 ++ l2) = (sumN l1 + sumN l2)%N.
Proof. unfold sumN. induction l1 as [|x l1 IH]; cbn; auto. rewrite IH. lia. Qed.
Lemma amounts_app c l1 l2 : amounts c (l1 ++ l2) = amounts c l1 ++ amounts c l2.
Proof. unfold amounts. apply flat_map_app. Qed.

Lemma subset_bits_sums A B : Forall is_pow2 B -> NoDup B -> NoDup A -> incl A B -> subset_bits (sumN A) (sumN B) = true.
Proof.
  intros FB NB NA Hi. assert (FA : Forall is_pow2 A) by (rewrite Forall_forall in *; auto).
  unfold subset_bits. apply N.eqb_eq. apply land_lnot_zero; [apply sum_lt63; auto|].
  intros n Hn. rewrite sum_bits in Hn |- * by auto. apply existsb_exists in Hn as (x & Hx & Ex). apply existsb_exists. exists x. auto.
Qed.

(* find on a list sorted by decreasing time returns the latest match *)
Lemma find_latest (p : lent -> bool) l e0 : StronglySorted (fun a b => le_time b < le_time a) l -> find p l = Some e0 ->
  In e0 l /\ p e0 = true /\ forall x, In x l -> p x = true -> le_time x <= le_time e0.
Proof.
  induction 1 as [|a l S IH F]; cbn; [discriminate|]. destruct (p a) eqn:Ea.
  - intros H; inversion H; subst. repeat split; auto. intros x [<-|Hx] _; [lia|]. rewrite Forall_forall in F. apply F in Hx. lia.
  - intros H. destruct (IH H) as (A & B & C). repeat split; auto. intros x [<-|Hx] Hp; [congruence | auto].
Qed.
Lemma asc_split (E1 : list lent) e E2 : StronglySorted (fun a b => le_time a < le_time b) (E1 ++ e :: E2) ->
  (forall x, In x E1 -> le_time x < le_time e) /\ (forall y, In y E2 -> le_time e < le_time y) /\ StronglySorted (fun a b => le_time a < le_time b) E1.
Proof.
  induction E1 as [|a E1 IH]; cbn; intros S.
  - apply StronglySorted_inv in S as [_ F]. rewrite Forall_forall in F. repeat split; auto; [intros x [] | constructor].
  - apply StronglySorted_inv in S as [S F]. destruct (IH S) as (A & B & C). rewrite Forall_forall in F. repeat split; auto.
    + intros x [<-|Hx]; auto. apply F. apply in_app_iff. right; left; auto.
    + constructor; auto. apply Forall_forall. intros y Hy. apply F. apply in_app_iff. left; auto.
Qed.

Lemma asc_nodup (l : list lent) : StronglySorted (fun a b => le_time a < le_time b) l -> NoDup l.
Proof. induction 1 as [|a l S IH F]; constructor; auto. intros Hin. rewrite Forall_forall in F. apply F in Hin. lia. Qed.

Definition last_of (t : nat) (E1 : list lent) : option lent := find (fun x => Nat.eqb (le_tid x) t) (rev E1).
Lemma last_of_snoc t E1 e : last_of t (E1 ++ [e]) = if Nat.eqb (le_tid e) t then Some e else last_of t E1.
Proof. unfold last_of. rewrite rev_app_distr. reflexivity. Qed.

Section Sim.
Variables (nl : nat) (tr : list label) (s : vstate).
Hypothesis R : reach nl tr s.
Hypothesis Hopen : forall t, g_open s t = None.
Let cs := map (conv tr) (rev (g_done s)).
Let G := reach_ginv nl tr s R.
Hypothesis Hincs : incs_ok cs = true.
Definition AB (E1 : list lent) : astate := arun ainit (map opres E1).

Record SimR (x : sst) (E1 : list lent) : Prop := {
  S_map : m_map x = rev (a_keys (a_map (AB E1)));
  S_next : m_next x = a_next (AB E1);
  S_val : forall c, vget c (m_val x) = sumN (amounts c E1);
  S_dom : forall k c, In (k, c) (m_map x) -> In c (map fst (m_val x));
  S_handle : forall t e0, last_of t E1 = Some e0 -> forall k c, opres e0 = (AGet k, RChild c) ->
               nget 0%N t (m_handle x) = c /\ In c (map fst (m_val x));
  S_snap : forall t e0, last_of t E1 = Some e0 -> forall r ti trr, odrec s e0 = (t, CVCollect, r, ti, trr) ->
             is_last s (odrec s e0) e0 = false ->
             forall snap, In (ACollect, RKeys snap) (lins_in t ti trr (g_lin s)) -> forall k c, In (k, c) snap -> mget k (nget [] t (m_snap x)) = Some c }.

Lemma sim_extend x x' E1 e : SimR x E1 ->
  m_map x' = rev (a_keys (a_map (AB (E1 ++ [e])))) -> m_next x' = a_next (AB (E1 ++ [e])) ->
  (forall c, vget c (m_val x') = sumN (amounts c (E1 ++ [e]))) ->
  (forall k c, In (k, c) (m_map x') -> In c (map fst (m_val x'))) ->
  (forall c, In c (map fst (m_val x)) -> In c (map fst (m_val x'))) ->
  (forall t, t <> le_tid e -> nget 0%N t (m_handle x') = nget 0%N t (m_handle x)) ->
  (forall t, t <> le_tid e -> nget [] t (m_snap x') = nget [] t (m_snap x)) ->
  (forall k c, opres e = (AGet k, RChild c) -> nget 0%N (le_tid e) (m_handle x') = c /\ In c (map fst (m_val x'))) ->
  (forall r ti trr, odrec s e = (le_tid e, CVCollect, r, ti, trr) -> is_last s (odrec s e) e = false ->
     forall snap, In (ACollect, RKeys snap) (lins_in (le_tid e) ti trr (g_lin s)) -> forall k c, In (k, c) snap ->
     mget k (nget [] (le_tid e) (m_snap x')) = Some c) ->
  SimR x' (E1 ++ [e]).
Proof.
  intros [I1 I2 I3 I4 I5 I6] Hm Hn Hv Hd Hmono Hho Hso Hhs Hss. constructor; auto.
  - intros t e0. rewrite last_of_snoc. destruct (Nat.eqb (le_tid e) t) eqn:Et.
    + apply Nat.eqb_eq in Et. subst t. intros H; inversion H; subst e0. auto.
    + apply Nat.eqb_neq in Et. intros H k c Ho. destruct (I5 t e0 H k c Ho) as [A B]. rewrite Hho by auto. auto.
  - intros t e0. rewrite last_of_snoc. destruct (Nat.eqb (le_tid e) t) eqn:Et.
    + apply Nat.eqb_eq in Et. subst t. intros H; inversion H; subst e0. auto.
    + apply Nat.eqb_neq in Et. intros H r ti trr Ho Hl snap Hs k c Hk. rewrite Hso by auto. eapply I6; eauto.
Qed.

(* ---- the prefix of the chronological log before an entry *)
Section Prefix.
Variables (E1 : list lent) (e : lent) (E2 : list lent).
Hypothesis HE : rev (g_lin s) = E1 ++ e :: E2.

Lemma pre_in x : In x E1 -> In x (g_lin s) /\ le_time x < le_time e.
Proof.
  intros Hx. pose proof (E_sorted nl tr s R) as S. rewrite HE in S. destruct (asc_split _ _ _ S) as (A & _ & _).
  split; auto. apply (in_E s). rewrite HE. apply in_app_iff; auto.
Qed.
Lemma pre_e : In e (g_lin s).
Proof. apply (in_E s). rewrite HE. apply in_app_iff. right; left; auto. Qed.
Lemma pre_mem x : In x (g_lin s) -> le_time x < le_time e -> In x E1.
Proof.
  intros Hx Hlt. pose proof (E_sorted nl tr s R) as S. rewrite HE in S. destruct (asc_split _ _ _ S) as (_ & B & _).
  apply (in_E s) in Hx. rewrite HE in Hx. apply in_app_iff in Hx as [Hx|[Hx|Hx]]; auto; [subst; lia | apply B in Hx; lia].
Qed.
Lemma pre_sorted : StronglySorted (fun a b => le_time a < le_time b) E1.
Proof. pose proof (E_sorted nl tr s R) as S. rewrite HE in S. apply (asc_split _ _ _ S). Qed.
Lemma pre_nodup : NoDup E1.
Proof.
  apply asc_nodup, pre_sorted.
Qed.
Lemma pre_cons : consistent ainit (map opres E1) /\ snd (aspec (AB E1) (le_op e)) = le_res e.
Proof.
  pose proof (chron_cons nl tr s R) as Hc. unfold chron in Hc. rewrite HE, map_app in Hc. cbn [map] in Hc. split.
  - apply consistent_app in Hc; tauto.
  - unfold opres in Hc at 2. apply consistent_mid in Hc. tauto.
Qed.
Lemma AB_snoc : AB (E1 ++ [e]) = fst (aspec (AB E1) (le_op e)).
Proof. unfold AB. rewrite map_app, arun_app. reflexivity. Qed.
Lemma AB_nodup : NoDup (map fst (a_map (AB E1))).
Proof. apply nodup_run. constructor. Qed.

(* the latest earlier entry of a thread *)
Lemma last_of_spec t e0 : last_of t E1 = Some e0 -> In e0 E1 /\ le_tid e0 = t /\ forall x, In x E1 -> le_tid x = t -> le_time x <= le_time e0.
Proof.
  intros H. unfold last_of in H. apply find_latest in H as (A & B & C).
  - rewrite <- in_rev in A. apply Nat.eqb_eq in B. repeat split; auto. intros x Hx Ht. apply C; [rewrite <- in_rev; auto | apply Nat.eqb_eq; auto].
  - apply (ssorted_rev (fun a b => le_time a < le_time b)). apply pre_sorted.
Qed.
Lemma last_of_exists t x : In x E1 -> le_tid x = t -> exists e0, last_of t E1 = Some e0.
Proof.
  intros Hx Ht. unfold last_of. destruct (find (fun y => Nat.eqb (le_tid y) t) (rev E1)) eqn:Ef; eauto.
  pose proof (find_none _ _ Ef x ltac:(rewrite <- in_rev; auto)) as Hn. cbn in Hn. rewrite Ht, Nat.eqb_refl in Hn. discriminate.
Qed.

(* an earlier entry of the same window exists: then the latest earlier entry of the thread is in that window too *)
Lemma last_in_window x c r ti trr : In (le_tid e, c, r, ti, trr) (g_done s) -> ti <= le_time e <= trr ->
  In x (g_lin s) -> le_tid x = le_tid e -> ti <= le_time x -> le_time x < le_time e ->
  exists e0, last_of (le_tid e) E1 = Some e0 /\ In e0 (g_lin s) /\ le_tid e0 = le_tid e /\ le_time x <= le_time e0 < le_time e
             /\ odrec s e0 = (le_tid e, c, r, ti, trr).
Proof.
  intros Hd Hw Hx Ht Hti Hlt. assert (HxE : In x E1) by (apply pre_mem; auto).
  destruct (last_of_exists _ x HxE Ht) as (e0 & Hl). exists e0. destruct (last_of_spec _ _ Hl) as (A & B & C).
  destruct (pre_in e0 A) as [A1 A2]. pose proof (C x HxE Ht). repeat split; auto; try lia.
  unfold odrec. rewrite (owner_unique nl tr s R e0 _ c r ti trr Hd B ltac:(lia)). reflexivity.
Qed.

(* no update of a child before it was handed out *)
Lemma no_upd_before c : (a_next (AB E1) <= c)%N -> amounts c E1 = [].
Proof.
  intros Hc. destruct (amounts c E1) as [|d l] eqn:Ea; auto. exfalso.
  assert (Hin : In d (amounts c E1)) by (rewrite Ea; left; auto). apply in_amounts in Hin as (x & Hx & Ho).
  destruct (pre_in x Hx) as [Hx1 Hx2].
  destruct (upd_owner nl tr s R Hopen x c d Hx1 Ho) as (k & r & ti & trr & Hd & Hw & Hl & Hti & Hls & _).
  destruct (window_list nl tr s R _ _ _ _ _ Hd) as (es & Hes & Ses & Hmem). rewrite Hls in Hes.
  destruct es as [|e1 [|e2 [|e3 es]]]; try discriminate. cbn [map] in Hes.
  assert (O1 : opres e1 = (AGet k, RChild c)) by congruence.
  assert (M : In x [e1; e2]) by (apply Hmem; auto). apply StronglySorted_inv in Ses as [_ F]. apply Forall_inv in F.
  assert (x = e2). { destruct M as [<-|[<-|[]]]; auto. unfold opres in O1. rewrite Ho in O1. discriminate. } subst e2.
  assert (H1 : In e1 E1). { apply pre_mem; [apply (Hmem e1); left; auto | lia]. }
  assert (Hg : In (AGet k, RChild c) (map opres E1)) by (rewrite <- O1; apply in_map; auto).
  pose proof (consistent_child_below ainit (map opres E1) (AGet k) c ainit_ids_below (proj1 pre_cons) Hg) as Hb. unfold AB in Hc. lia.
Qed.
End Prefix.

Lemma amounts_snoc_quiet c E1 e : (forall c' d, le_op e <> AUpd c' d) -> amounts c (E1 ++ [e]) = amounts c E1.
Proof.
  intros H. rewrite amounts_app. unfold amounts at 2. cbn. destruct (le_op e) eqn:Eo; rewrite ?app_nil_r; auto. exfalso. eapply H; eauto.
Qed.
Lemma nget_cons_other {A} (d : A) t u x l : t <> u -> nget d t ((u, x) :: l) = nget d t l.
Proof. intros H. cbn. destruct (Nat.eqb u t) eqn:E; auto. apply Nat.eqb_eq in E. congruence. Qed.
Lemma nget_cons_same {A} (d : A) t x l : nget d t ((t, x) :: l) = x.
Proof. cbn. rewrite Nat.eqb_refl. reflexivity. Qed.

Section Step.
Variables (E1 : list lent) (e : lent) (E2 : list lent).
Hypothesis HE : rev (g_lin s) = E1 ++ e :: E2.
Variable x : sst.
Hypothesis HS : SimR x E1.

Lemma step_get k : le_op e = AGet k -> exists x', run_acts x (entry_acts tr s e) = Some x' /\ SimR x' (E1 ++ [e]).
Proof.
  intros Hop. pose proof (pre_e _ _ _ HE) as He.
  destruct (entry_rec nl tr s R Hopen e He) as (c & r & ti & trr & Hd & Hw & Hin & Hm & Hti & Hcall & Eo).
  destruct (pre_cons _ _ _ HE) as [Hc1 Hr]. unfold opres in Hin. rewrite Hop in Hin, Hr.
  destruct (rm_get _ _ _ _ _ _ Hm Hin) as (d & ch & -> & Hl & _ & Hres & _).
  unfold entry_acts. rewrite Hop, Eo. cbn [kind_of_op run_acts]. unfold apply_act, mk. cbn [a_kind a_c conv c_call c_ret c_t].
  pose proof (AB_nodup E1) as NDk.
  assert (Hmg : mget k (m_map x) = option_map fst (klookup k (a_map (AB E1)))) by (rewrite (S_map _ _ HS); apply mget_rev_keys; auto).
  assert (Hq : forall c0, amounts c0 (E1 ++ [e]) = amounts c0 E1) by (intros; apply amounts_snoc_quiet; intros ? ?; rewrite Hop; discriminate).
  rewrite Hmg. cbn [aspec] in Hr. destruct (klookup k (a_map (AB E1))) as [[c0 v0]|] eqn:Ek; cbn [option_map fst snd] in Hr |- *.
  - (* the key is there *)
    eexists. split; [reflexivity|]. rewrite Hres in Hr. inversion Hr; subst c0.
    apply (sim_extend x _ E1 e HS); cbn [m_map m_next m_val m_handle m_snap]; rewrite ?(AB_snoc E1 e), ?Hop; cbn [aspec]; rewrite ?Ek; cbn [fst]; auto.
    + apply (S_map _ _ HS).
    + apply (S_next _ _ HS).
    + intros c0. rewrite Hq. apply (S_val _ _ HS).
    + apply (S_dom _ _ HS).
    + intros t Ht. apply nget_cons_other; auto.
    + intros k' c' Ho. unfold opres in Ho. rewrite Hres in Ho. inversion Ho; subst c'. rewrite nget_cons_same. split; auto.
      apply (S_dom _ _ HS k). apply mget_some_in. rewrite Hmg. reflexivity.
    + intros r0 ti0 tr0 Ho. rewrite Eo in Ho. discriminate.
  - (* a new child *)
    eexists. split; [reflexivity|]. rewrite Hres in Hr. inversion Hr; subst ch.
    pose proof (S_next _ _ HS) as Hnx.
    apply (sim_extend x _ E1 e HS); cbn [m_map m_next m_val m_handle m_snap]; rewrite ?(AB_snoc E1 e), ?Hop; cbn [aspec]; rewrite ?Ek; cbn [fst a_map a_next]; auto.
    + rewrite keys_insert by auto. rewrite rev_app_distr. cbn. rewrite Hnx, (S_map _ _ HS). reflexivity.
    + rewrite Hnx. reflexivity.
    + intros c0. rewrite Hq. cbn [vget]. destruct (c0 =? m_next x)%N eqn:Ec; [|apply (S_val _ _ HS)].
      apply N.eqb_eq in Ec. subst c0. rewrite (no_upd_before E1 e E2 HE); [reflexivity | rewrite Hnx; lia].
    + intros k' c' [Hi|Hi]; [inversion Hi; left; auto | right; apply (S_dom _ _ HS k'); auto].
    + intros c0 Hc0. right; auto.
    + intros t Ht. apply nget_cons_other; auto.
    + intros k' c' Ho. unfold opres in Ho. rewrite Hres in Ho. assert (Hc' : c' = m_next x) by (rewrite Hnx; inversion Ho; auto). subst c'.
      rewrite nget_cons_same. split; [reflexivity | left; reflexivity].
    + intros r0 ti0 tr0 Ho. rewrite Eo in Ho. discriminate.
Qed.

Lemma step_upd c d : le_op e = AUpd c d -> exists x', run_acts x (entry_acts tr s e) = Some x' /\ SimR x' (E1 ++ [e]).
Proof.
  intros Hop. pose proof (pre_e _ _ _ HE) as He.
  destruct (upd_owner nl tr s R Hopen e c d He Hop) as (k & r & ti & trr & Hd & Hw & Hl & Hti & Hls & _).
  assert (Eo : odrec s e = (le_tid e, CWithInc k d, r, ti, trr)) by (unfold odrec; rewrite (owner_unique nl tr s R e _ _ _ _ _ Hd eq_refl Hw); reflexivity).
  unfold entry_acts. rewrite Hop, Eo. cbn [kind_of_op run_acts]. unfold apply_act, mk. cbn [a_kind a_c conv c_call c_ret c_t].
  eexists. split; [reflexivity|].
  (* the handle of the thread is the child of the preceding get-or-create of the same call *)
  destruct (window_list nl tr s R _ _ _ _ _ Hd) as (es & Hes & Ses & Hmem). rewrite Hls in Hes.
  destruct es as [|e1 [|e2 [|e3 es]]]; try discriminate. cbn [map] in Hes.
  assert (O1 : opres e1 = (AGet k, RChild c)) by congruence.
  assert (M : In e [e1; e2]) by (apply Hmem; auto). apply StronglySorted_inv in Ses as [_ F]. apply Forall_inv in F.
  assert (e = e2). { destruct M as [<-|[<-|[]]]; auto. unfold opres in O1. rewrite Hop in O1. discriminate. } subst e2.
  assert (M1 : In e1 (g_lin s) /\ le_tid e1 = le_tid e /\ ti <= le_time e1 <= trr) by (apply Hmem; left; auto). destruct M1 as (M1 & M2 & M3).
  destruct (last_in_window E1 e E2 HE e1 _ _ _ _ Hd Hw M1 M2 ltac:(lia) F) as (e0 & Hlast & He0 & Ht0 & Htime & Eo0).
  assert (e0 = e1).
  { assert (M0 : In e0 [e1; e]) by (apply Hmem; repeat split; auto; lia). destruct M0 as [<-|[<-|[]]]; auto. lia. } subst e0.
  destruct (S_handle _ _ HS _ _ Hlast k c O1) as [Hh Hdom]. rewrite Hh.
  apply (sim_extend x _ E1 e HS); cbn [m_map m_next m_val m_handle m_snap]; rewrite ?(AB_snoc E1 e), ?Hop; cbn [aspec fst a_map a_next]; auto.
  - rewrite keys_bump. apply (S_map _ _ HS).
  - apply (S_next _ _ HS).
  - intros c0. rewrite amounts_app, sumN_app.
    assert (Hs1 : sumN [d] = d) by (unfold sumN; cbn [fold_right]; apply N.add_0_r).
    assert (Hs0 : sumN [] = 0%N) by reflexivity.
    unfold amounts at 2. cbn [flat_map]. rewrite Hop, app_nil_r. destruct (c =? c0)%N eqn:Ec.
    + apply N.eqb_eq in Ec. subst c0. rewrite vget_vadd_same by auto. rewrite (S_val _ _ HS), Hs1. reflexivity.
    + apply N.eqb_neq in Ec. rewrite vget_vadd_other by auto. rewrite (S_val _ _ HS), Hs0, N.add_0_r. reflexivity.
  - intros k' c' Hi. rewrite dom_vadd. apply (S_dom _ _ HS k'); auto.
  - intros c0. rewrite dom_vadd. auto.
  - intros k' c' Ho. unfold opres in Ho. rewrite Hop in Ho. discriminate.
  - intros r0 ti0 tr0 Ho. rewrite Eo in Ho. discriminate.
Qed.

Lemma step_remove k : le_op e = ARemove k -> exists x', run_acts x (entry_acts tr s e) = Some x' /\ SimR x' (E1 ++ [e]).
Proof.
  intros Hop. pose proof (pre_e _ _ _ HE) as He.
  destruct (entry_rec nl tr s R Hopen e He) as (c & r & ti & trr & Hd & Hw & Hin & Hm & Hti & Hcall & Eo).
  destruct (pre_cons _ _ _ HE) as [Hc1 Hr]. unfold opres in Hin. rewrite Hop in Hin, Hr.
  destruct (rm_remove _ _ _ _ _ _ Hm Hin) as (-> & Hl & Hres).
  unfold entry_acts. rewrite Hop, Eo. cbn [kind_of_op run_acts]. unfold apply_act, mk. cbn [a_kind a_c conv c_call c_ret c_t].
  pose proof (AB_nodup E1) as NDk.
  assert (Hmg : mget k (m_map x) = option_map fst (klookup k (a_map (AB E1)))) by (rewrite (S_map _ _ HS); apply mget_rev_keys; auto).
  assert (Hq : forall c0, amounts c0 (E1 ++ [e]) = amounts c0 E1) by (intros; apply amounts_snoc_quiet; intros ? ?; rewrite Hop; discriminate).
  rewrite Hmg. cbn [aspec] in Hr. destruct (klookup k (a_map (AB E1))) as [[c0 v0]|] eqn:Ek; cbn [option_map fst snd] in Hr |- *.
  - destruct Hres as [(Hx & ->)|(Hx & _)]; [|congruence]. eexists. split; [reflexivity|].
    apply (sim_extend x _ E1 e HS); cbn [m_map m_next m_val m_handle m_snap]; rewrite ?(AB_snoc E1 e), ?Hop; cbn [aspec]; rewrite ?Ek; cbn [fst a_map a_next]; auto.
    + rewrite keys_remove, <- mdel_rev, (S_map _ _ HS). reflexivity.
    + apply (S_next _ _ HS).
    + intros c1. rewrite Hq. apply (S_val _ _ HS).
    + intros k' c' Hi. apply mdel_In in Hi. apply (S_dom _ _ HS k'); auto.
    + intros k' c' Ho. unfold opres in Ho. rewrite Hop in Ho. discriminate.
    + intros r0 ti0 tr0 Ho. rewrite Eo in Ho. discriminate.
  - destruct Hres as [(Hx & _)|(Hx & ->)]; [congruence|]. eexists. split; [reflexivity|].
    apply (sim_extend x _ E1 e HS); cbn [m_map m_next m_val m_handle m_snap]; rewrite ?(AB_snoc E1 e), ?Hop; cbn [aspec]; rewrite ?Ek; cbn [fst a_map a_next]; auto.
    + apply (S_map _ _ HS).
    + apply (S_next _ _ HS).
    + intros c1. rewrite Hq. apply (S_val _ _ HS).
    + apply (S_dom _ _ HS).
    + intros k' c' Ho. unfold opres in Ho. rewrite Hop in Ho. discriminate.
    + intros r0 ti0 tr0 Ho. rewrite Eo in Ho. discriminate.
Qed.

Lemma step_reset : le_op e = AReset -> exists x', run_acts x (entry_acts tr s e) = Some x' /\ SimR x' (E1 ++ [e]).
Proof.
  intros Hop. pose proof (pre_e _ _ _ HE) as He.
  destruct (entry_rec nl tr s R Hopen e He) as (c & r & ti & trr & Hd & Hw & Hin & Hm & Hti & Hcall & Eo).
  unfold opres in Hin. rewrite Hop in Hin. rewrite (rm_reset _ _ _ _ _ Hm Hin) in *.
  unfold entry_acts. rewrite Hop, Eo. cbn [kind_of_op run_acts]. unfold apply_act, mk. cbn [a_kind a_c conv c_call c_ret c_t].
  assert (Hq : forall c0, amounts c0 (E1 ++ [e]) = amounts c0 E1) by (intros; apply amounts_snoc_quiet; intros ? ?; rewrite Hop; discriminate).
  eexists. split; [reflexivity|].
  apply (sim_extend x _ E1 e HS); cbn [m_map m_next m_val m_handle m_snap]; rewrite ?(AB_snoc E1 e), ?Hop; cbn [aspec fst a_map a_next]; auto.
  - apply (S_next _ _ HS).
  - intros c1. rewrite Hq. apply (S_val _ _ HS).
  - intros k' c' [].
  - intros k' c' Ho. unfold opres in Ho. rewrite Hop in Ho. discriminate.
  - intros r0 ti0 tr0 Ho. rewrite Eo in Ho. discriminate.
Qed.

(* the value a collection read for child c: the sum of the amounts logged before the read *)
Lemma read_sum eRd c v : In eRd (g_lin s) -> opres eRd = (ARead c, RValue v) ->
  exists older, (forall y, In y older <-> In y (g_lin s) /\ le_time y < le_time eRd) /\ NoDup older
                /\ v = sumN (amounts c older) /\ Forall is_pow2 (amounts c older) /\ NoDup (amounts c older).
Proof.
  intros He Ho. destruct eRd as [[[tm t0] o0] r0]. unfold opres in Ho; cbn in Ho. inversion Ho; subst o0 r0.
  apply in_split in He as (newer & older & Elog). exists older.
  pose proof (G_sorted tr s G) as S0. rewrite Elog in S0. destruct (sorted_before _ _ _ S0) as (I1 & I2 & _).
  assert (ND : NoDup (g_lin s)) by (apply ssorted_nodup, (G_sorted tr s G)).
  assert (Hincl : incl older (g_lin s)) by (intros y Hy; rewrite Elog; apply in_app_iff; right; right; auto).
  assert (NDo : NoDup older) by (rewrite Elog in ND; apply nodup_app_r in ND; inversion ND; auto).
  destruct (amounts_good nl tr s R Hopen Hincs c older Hincl NDo) as [HF HN].
  pose proof (no_lost_update nl tr s R newer tm t0 c v older Elog) as Hv. rewrite upd_sum_amounts in Hv.
  pose proof (sum_lt63 _ HF HN) as Hlt.
  assert (Hv' : v = sumN (amounts c older)).
  { rewrite Hv. unfold wrap64. apply N.mod_small. unfold two64. eapply N.lt_trans; [exact Hlt|]. reflexivity. }
  split; [|repeat split; auto]. intros y. split.
  - intros Hy. split; [apply Hincl; auto|]. rewrite Forall_forall in I1. apply I1 in Hy. exact Hy.
  - intros [Hy Hlt']. rewrite Elog in Hy. apply in_app_iff in Hy as [Hy|[Hy|Hy]]; auto.
    + rewrite Forall_forall in I2. apply I2 in Hy. cbn in Hy, Hlt'. lia.
    + subst y. cbn in Hlt'. lia.
Qed.

Lemma amounts_incl c (l1 l2 : list lent) : incl l1 l2 -> incl (amounts c l1) (amounts c l2).
Proof. intros H d Hd. apply in_amounts in Hd as (y & Hy & Ho). apply in_amounts. exists y. auto. Qed.
Lemma E1_good c : Forall is_pow2 (amounts c E1) /\ NoDup (amounts c E1).
Proof.
  apply (amounts_good nl tr s R Hopen Hincs c E1); [intros y Hy; apply (pre_in E1 e E2 HE y Hy) | apply (pre_nodup E1 e E2 HE)].
Qed.

(* the window of the collection e belongs to *)
Lemma collect_setup : (le_op e = ACollect \/ exists c0, le_op e = ARead c0) ->
  exists r ti trr e1 rest snap vis,
    In (le_tid e, CVCollect, r, ti, trr) (g_done s) /\ ti <= le_time e <= trr /\ odrec s e = (le_tid e, CVCollect, r, ti, trr)
    /\ r = RColl (vis_result vis) /\ Permutation (vis_keys vis) snap /\ opres e1 = (ACollect, RKeys snap) /\ map opres rest = reads vis
    /\ lins_in (le_tid e) ti trr (g_lin s) = (ACollect, RKeys snap) :: reads vis
    /\ StronglySorted (fun a b => le_time a < le_time b) (e1 :: rest)
    /\ (forall y, In y (e1 :: rest) <-> In y (g_lin s) /\ le_tid y = le_tid e /\ ti <= le_time y <= trr)
    /\ nth_error tr trr = Some (LE (ERet (le_tid e) r)).
Proof.
  intros Hop. pose proof (pre_e _ _ _ HE) as He.
  destruct (owner_done nl tr s R Hopen e He) as (c & r & ti & trr & Hd & Hw & Hin & Hm & Hti & Hcall & Hret).
  assert (c = CVCollect) by (unfold opres in Hin; eapply rm_collect_like; eauto). subst c.
  destruct (window_list nl tr s R _ _ _ _ _ Hd) as (es & Hes & Ses & Hmem).
  destruct (collect_window nl tr s R _ _ _ _ es Hd Hes) as (e1 & rest & snap & vis & -> & O1 & Hrest & Hr & Hp).
  exists r, ti, trr, e1, rest, snap, vis.
  assert (Eod : odrec s e = (le_tid e, CVCollect, r, ti, trr)) by (unfold odrec; rewrite (owner_unique nl tr s R e _ _ _ _ _ Hd eq_refl Hw); reflexivity).
  assert (Els : lins_in (le_tid e) ti trr (g_lin s) = (ACollect, RKeys snap) :: reads vis) by (rewrite <- Hes; cbn [map]; rewrite O1, Hrest; reflexivity).
  split; [exact Hd|]. split; [exact Hw|]. split; [exact Eod|]. split; [exact Hr|]. split; [exact Hp|]. split; [exact O1|]. split; [exact Hrest|].
  split; [exact Els|]. split; [exact Ses|]. split; [exact Hmem | exact Hret].
Qed.

Definition snap_of (x0 : sst) (l : list (skey * N)) : list (skey * N) :=
  map (fun kv => (fst kv, match mget (fst kv) (m_map x0) with Some ch => ch | None => 0%N end)) l.

Lemma step_collect : le_op e = ACollect -> exists x', run_acts x (entry_acts tr s e) = Some x' /\ SimR x' (E1 ++ [e]).
Proof.
  intros Hop. pose proof (pre_e _ _ _ HE) as He.
  destruct (collect_setup (or_introl Hop)) as (r & ti & trr & e1 & rest & snap & vis & Hd & Hw & Eo & Hr & Hp & O1 & Hrest & Els & Ses & Hmem & Hret).
  assert (e = e1).
  { assert (M : In e (e1 :: rest)) by (apply Hmem; auto). destruct M as [<-|M]; auto. destruct (read_op _ _ _ Hrest M) as (c2 & v2 & Po & _). congruence. }
  subst e1. apply StronglySorted_inv in Ses as [Srest F]. rewrite Forall_forall in F.
  destruct (pre_cons _ _ _ HE) as [Hc1 Hres]. rewrite Hop in Hres. cbn [aspec snd] in Hres.
  assert (Hsnap : snap = a_keys (a_map (AB E1))).
  { unfold opres in O1. assert (B : le_res e = RKeys snap) by congruence. rewrite B in Hres. inversion Hres; auto. }
  pose proof (AB_nodup E1) as NDk.
  assert (Hq : forall c0, amounts c0 (E1 ++ [e]) = amounts c0 E1) by (intros; apply amounts_snoc_quiet; intros ? ?; rewrite Hop; discriminate).
  subst r. set (l := vis_result vis) in *.
  assert (Hlen : Nat.eqb (length l) (length (m_map x)) = true).
  { apply Nat.eqb_eq. rewrite (S_map _ _ HS), rev_length, <- Hsnap. unfold l, vis_result. rewrite map_length.
    apply Permutation_length in Hp. unfold vis_keys in Hp. rewrite map_length in Hp. exact Hp. }
  assert (Hnd : nodup_keys (map fst l) = true) by (apply nodup_keys_NoDup; eapply (returned_collection_nodup nl tr s R); eauto).
  assert (Hkey : forall k c, In (k, c) snap -> mget k (m_map x) = Some c).
  { intros k c Hin. rewrite (S_map _ _ HS). apply mget_In; [rewrite map_rev, keys_fst; apply NoDup_rev; auto | rewrite <- in_rev, <- Hsnap; auto]. }
  assert (Hvk : forall k c v, In (k, c, v) vis -> In (k, c) snap).
  { intros k c v Hv. apply (Permutation_in _ Hp). unfold vis_keys. apply in_map_iff. exists (k, c, v). auto. }
  assert (Hfa : forallb (fun kv => match mget (fst kv) (m_map x) with Some ch => subset_bits (vget ch (m_val x)) (snd kv) | None => false end) l = true).
  { apply forallb_forall. intros [k v] Hkv. unfold l, vis_result in Hkv. apply in_map_iff in Hkv as ([[k0 c] v0] & Ekv & Hvis). cbn in Ekv. inversion Ekv; subst k0 v0. cbn [fst snd].
    rewrite (Hkey k c) by eauto.
    assert (Hrd : In (ARead c, RValue v) (map opres rest)) by (rewrite Hrest; unfold reads; apply in_map_iff; exists (k, c, v); auto).
    apply in_map_iff in Hrd as (eRd & Eo' & HeRd).
    assert (HeRd' : In eRd (g_lin s)) by (apply (Hmem eRd); right; auto).
    destruct (read_sum eRd c v HeRd' Eo') as (older & Hold & NDo & Hv & HF & HN).
    rewrite (S_val _ _ HS), Hv. apply subset_bits_sums; auto; [apply (proj2 (E1_good c))|].
    apply amounts_incl. intros y Hy. apply Hold. destruct (pre_in E1 e E2 HE y Hy) as [A B]. split; auto. pose proof (F eRd HeRd). lia. }
  set (x1 := {| m_map := m_map x; m_val := m_val x; m_next := m_next x; m_handle := m_handle x; m_snap := (le_tid e, snap_of x l) :: m_snap x |}).
  assert (Hsim : SimR x1 (E1 ++ [e])).
  { apply (sim_extend x x1 E1 e HS); unfold x1; cbn [m_map m_next m_val m_handle m_snap]; rewrite ?(AB_snoc E1 e), ?Hop; cbn [aspec fst]; auto.
    - apply (S_map _ _ HS).
    - apply (S_next _ _ HS).
    - intros c0. rewrite Hq. apply (S_val _ _ HS).
    - apply (S_dom _ _ HS).
    - intros t Ht. apply nget_cons_other; auto.
    - intros k' c' Ho. unfold opres in Ho. rewrite Hop in Ho. discriminate.
    - intros r0 ti0 tr0 Ho Hl snap' Hs k c Hk. rewrite Eo in Ho. inversion Ho; subst r0 ti0 tr0. rewrite Els in Hs.
      destruct Hs as [Hs|Hs]; [|apply reads_only_reads in Hs as (? & ? & ? & _); discriminate]. inversion Hs; subst snap'.
      rewrite nget_cons_same. unfold snap_of. rewrite (mget_map_f (fun k0 => match mget k0 (m_map x) with Some ch => ch | None => 0%N end)).
      + rewrite (Hkey k c Hk). reflexivity.
      + apply Permutation_sym in Hp. apply (Permutation_in _ Hp) in Hk. unfold vis_keys in Hk. apply in_map_iff in Hk as ([[k0 c0] v0] & Ek & Hv0).
        cbn in Ek. inversion Ek; subst k0 c0. unfold l, vis_result. rewrite map_map. cbn. apply in_map_iff. exists (k, c, v0). auto. }
  exists x1. split; auto.
  unfold entry_acts. rewrite Hop, Eo. cbn [run_acts]. unfold apply_act at 1. unfold mk. cbn [a_kind a_c conv c_call c_ret c_t]. fold l.
  match goal with |- context [if ?b then _ else _] =>
    replace b with true by (symmetry; apply andb_true_iff; split; [apply andb_true_iff; split; [exact Hlen | exact Hnd] | exact Hfa]) end.
  change (match Some x1 with Some x' => run_acts x' (end_part tr s (le_tid e, CVCollect, RColl l, ti, trr) e) | None => None end = Some x1).
  unfold end_part. destruct (is_last s (le_tid e, CVCollect, RColl l, ti, trr) e) eqn:El; [|reflexivity].
  (* nothing is shown: the end of the value reads follows at once *)
  assert (rest = []).
  { destruct rest as [|y rest']; auto. exfalso. rewrite is_last_spec in El.
    assert (Hy : In y (g_lin s) /\ le_tid y = le_tid e /\ ti <= le_time y <= trr) by (apply Hmem; right; left; auto).
    specialize (El y (proj1 Hy)). rewrite (proj2 (inwin_spec _ _ _ _ _ y)) in El by tauto. specialize (El eq_refl). pose proof (F y (or_introl eq_refl)). lia. }
  subst rest. assert (Hvis : vis = []) by (destruct vis; [auto | discriminate]). 
  cbn [run_acts]. unfold apply_act. cbn [a_kind a_c conv c_call c_ret c_t]. unfold l. rewrite Hvis. cbn. reflexivity.
Qed.

Lemma step_read c0 : le_op e = ARead c0 -> exists x', run_acts x (entry_acts tr s e) = Some x' /\ SimR x' (E1 ++ [e]).
Proof.
  intros Hop. pose proof (pre_e _ _ _ HE) as He.
  destruct (collect_setup (or_intror (ex_intro _ c0 Hop))) as (r & ti & trr & e1 & rest & snap & vis & Hd & Hw & Eo & Hr & Hp & O1 & Hrest & Els & Ses & Hmem & Hret).
  assert (P1 : le_op e1 = ACollect) by (unfold opres in O1; congruence).
  assert (Her : In e rest). { assert (M : In e (e1 :: rest)) by (apply Hmem; auto). destruct M as [<-|M]; auto. congruence. }
  apply StronglySorted_inv in Ses as [Srest F]. rewrite Forall_forall in F.
  assert (M1 : In e1 (g_lin s) /\ le_tid e1 = le_tid e /\ ti <= le_time e1 <= trr) by (apply Hmem; left; auto). destruct M1 as (M1 & M2 & M3).
  destruct (last_in_window E1 e E2 HE e1 _ _ _ _ Hd Hw M1 M2 ltac:(lia) (F e Her)) as (e0 & Hlast & He0 & Ht0 & Htime & Eo0).
  assert (Hnl0 : is_last s (odrec s e0) e0 = false).
  { rewrite Eo0. destruct (is_last s (le_tid e, CVCollect, r, ti, trr) e0) eqn:El; auto. rewrite is_last_spec in El.
    specialize (El e He). rewrite (proj2 (inwin_spec _ _ _ _ _ e)) in El by auto. specialize (El eq_refl). lia. }
  assert (Hsn : forall k c, In (k, c) snap -> mget k (nget [] (le_tid e) (m_snap x)) = Some c).
  { apply (S_snap _ _ HS (le_tid e) e0 Hlast r ti trr Eo0 Hnl0 snap). rewrite Els. left; auto. }
  assert (Hq : forall c1, amounts c1 (E1 ++ [e]) = amounts c1 E1) by (intros; apply amounts_snoc_quiet; intros ? ?; rewrite Hop; discriminate).
  assert (Hsim : SimR x (E1 ++ [e])).
  { apply (sim_extend x x E1 e HS); rewrite ?(AB_snoc E1 e), ?Hop; cbn [aspec fst]; auto.
    - apply (S_map _ _ HS).
    - apply (S_next _ _ HS).
    - intros c1. rewrite Hq. apply (S_val _ _ HS).
    - apply (S_dom _ _ HS).
    - intros k' c' Ho. unfold opres in Ho. rewrite Hop in Ho. discriminate.
    - intros r0 ti0 tr0 Ho Hl snap' Hs k c Hk. rewrite Eo in Ho. inversion Ho; subst r0 ti0 tr0. rewrite Els in Hs.
      destruct Hs as [Hs|Hs]; [|apply reads_only_reads in Hs as (? & ? & ? & _); discriminate]. inversion Hs; subst snap'. auto. }
  exists x. split; auto. unfold entry_acts. rewrite Hop, Eo. unfold end_part.
  destruct (is_last s (le_tid e, CVCollect, r, ti, trr) e) eqn:El; [|reflexivity].
  (* the end of the value reads *)
  subst r. set (l := vis_result vis) in *. cbn [run_acts]. unfold apply_act, mk. cbn [a_kind a_c conv c_call c_ret c_t].
  assert (Hfa : forallb (fun kv => match mget (fst kv) (nget [] (le_tid e) (m_snap x)) with Some ch => subset_bits (snd kv) (vget ch (m_val x)) | None => false end) l = true).
  { apply forallb_forall. intros [k v] Hkv. unfold l, vis_result in Hkv. apply in_map_iff in Hkv as ([[k0 c] v0] & Ekv & Hvis). cbn in Ekv. inversion Ekv; subst k0 v0. cbn [fst snd].
    rewrite (Hsn k c) by (apply (Permutation_in _ Hp); unfold vis_keys; apply in_map_iff; exists (k, c, v); auto).
    assert (Hrd : In (ARead c, RValue v) (map opres rest)) by (rewrite Hrest; unfold reads; apply in_map_iff; exists (k, c, v); auto).
    apply in_map_iff in Hrd as (eRd & Eo' & HeRd).
    assert (HeRd' : In eRd (g_lin s) /\ le_tid eRd = le_tid e /\ ti <= le_time eRd <= trr) by (apply (Hmem eRd); right; auto).
    destruct (read_sum eRd c v (proj1 HeRd') Eo') as (older & Hold & NDo & Hv & HF & HN).
    rewrite (S_val _ _ HS), Hv. destruct (E1_good c) as [GF GN]. apply subset_bits_sums; auto.
    apply amounts_incl. intros y Hy. apply Hold in Hy as [Hy1 Hy2]. apply (pre_mem E1 e E2 HE); auto.
    rewrite is_last_spec in El. specialize (El eRd (proj1 HeRd')). rewrite (proj2 (inwin_spec _ _ _ _ _ eRd)) in El by tauto. specialize (El eq_refl). lia. }
  match goal with |- context [if ?b then _ else _] => replace b with true by (symmetry; exact Hfa) end. reflexivity.
Qed.

Lemma sim_step : exists x', run_acts x (entry_acts tr s e) = Some x' /\ SimR x' (E1 ++ [e]).
Proof.
  destruct (le_op e) eqn:Hop; [eapply step_get | eapply step_upd | eapply step_remove | apply step_reset | apply step_collect | eapply step_read]; eauto.
Qed.
End Step.

Lemma replay_from6 : forall E2 E1 x, rev (g_lin s) = E1 ++ E2 -> SimR x E1 -> replay_ok x (flat_map (entry_acts tr s) E2).
Proof.
  induction E2 as [|e E2 IH]; intros E1 x HE HS; cbn [flat_map]; [exact I|].
  destruct (sim_step E1 e E2 HE x HS) as (x' & Hrun & HS'). eapply replay_app; eauto.
  apply (IH (E1 ++ [e])); auto. rewrite <- app_assoc. exact HE.
Qed.

Lemma sim_init : SimR sst0 [].
Proof.
  constructor; cbn; auto; try (intros; tauto); try discriminate.
Qed.

Theorem linearisation_exists_full : lin_exists sst0 (all_acts false nl cs).
Proof.
  unfold cs. rewrite (all_acts_rows nl tr s R Hopen). apply lin_from_list.
  - apply (lacts_tid5 nl tr s R Hopen).
  - apply (lacts_window5 nl tr s R Hopen).
  - apply (lacts_rt5 nl tr s R Hopen).
  - apply (replay_from6 (rev (g_lin s)) [] sst0); [reflexivity | apply sim_init].
Qed.
End Sim.

(* ------------------------------------------------------------------ the FULL relaxed spec on validated traces *)
Theorem search_not_refuted nl nth es :
  vcheck nl nth es = true -> in_domain nth es = true -> lin_search false nl (fst (extract es)) <> NotFound \/ incs_ok (fst (extract es)) = false.
Proof.
  intros Hv Hd. destruct (incs_ok (fst (extract es))) eqn:Hi; auto. left.
  destruct (extract_of_validated nl nth es Hv Hd) as (tr & s & R & Hvis & Hopen & Hex). rewrite Hex in *. cbn [fst] in *.
  pose proof (linearisation_exists_full nl tr s R Hopen Hi) as HL. unfold lin_search. intros Hs.
  destruct (dfs _ sst0 (all_acts false nl (map (conv tr) (rev (g_done s)))) search_budget) as [r b] eqn:E. cbn in Hs. subst r.
  eapply dfs_notfound_exact; eauto.
Qed.

Theorem relaxed_spec_of_validated_full nl nth es :
  vcheck nl nth es = true -> in_domain nth es = true -> spec_c10_relaxed nl es = true.
Proof.
  intros Hv Hd. rewrite (relaxed_spec_of_validated_is_search nl nth es Hv Hd). unfold search_ok.
  destruct (search_not_refuted nl nth es Hv Hd) as [H|H]; [|rewrite H; reflexivity].
  destruct (incs_ok (fst (extract es))); auto. destruct (lin_search false nl (fst (extract es))); auto; congruence.
Qed.
