(* C06, concurrent part, 4: exactness of the search of Spec/SpecC06Conc.v (a NotFound answer means that NO order of the completed
   calls consistent with program order and real time is explained by the abstract registry), agreement of the one-pass
   classifier used by the check driver with the spec, and the witness: the observable behaviour of the seeded refactoring
   (two overlapping registrations with a common descriptor both answered Ok) has no sequential explanation. *)
Require Import PV.Base.Prelude PV.Model.Desc PV.Model.Registry PV.Model.Conc PV.Model.RegConc PV.Spec.SpecC06 PV.Spec.SpecC06Conc.
Require Import PV.Proofs.RegConcFacts.
From Coq Require Import Arith Lia.
Open Scope N_scope.

Lemma qpop_lt i rem a rem' : qpop i rem = Some (a, rem') -> (i < length rem)%nat.
Proof.
  revert i a rem'; induction rem as [|l r IH]; intros [|i] a rem' H; cbn in *; try discriminate; try lia.
  destruct (qpop i r) as [[a0 r0]|] eqn:E; [|discriminate]. apply IH in E. lia.
Qed.

Section Exact.
Variable St : Type.
Variable app : St -> qcrec -> option St.

Lemma qtry_cands_complete k x rem cands bud b :
  (forall x' rem' b0 b1, k x' rem' b0 = (QNotFound, b1) -> ~ order_exists St app x' rem') ->
  qtry_cands St app k x rem cands bud = (QNotFound, b) ->
  forall i a rem' x', In i cands -> qpop i rem = Some (a, rem') -> qheads_ok a rem = true -> app x a = Some x' ->
                      ~ order_exists St app x' rem'.
Proof.
  intros Hk. revert bud b. induction cands as [|j cands IH]; intros bud b H i a rem' x' Hin Hp Hh Ha; [destruct Hin|].
  cbn [qtry_cands] in H. destruct bud as [|b0]; [discriminate|].
  destruct Hin as [->|Hin].
  - rewrite Hp, Hh, Ha in H. destruct (k x' rem' b0) as [[ | | ] b1] eqn:E; try discriminate. eapply Hk; eauto.
  - destruct (qpop j rem) as [[a0 rem0]|] eqn:E1; [|eapply IH; eauto].
    destruct (qheads_ok a0 rem) eqn:E2; [|eapply IH; eauto].
    destruct (app x a0) as [x0|] eqn:E3; [|eapply IH; eauto].
    destruct (k x0 rem0 b0) as [[ | | ] b1] eqn:E; try discriminate. eapply IH; eauto.
Qed.

Theorem qdfs_notfound_exact fuel x rem bud b : qdfs St app fuel x rem bud = (QNotFound, b) -> ~ order_exists St app x rem.
Proof.
  revert x rem bud b; induction fuel as [|f IH]; intros x rem bud b H; cbn [qdfs] in H; [discriminate|].
  destruct (qall_done rem) eqn:Ed; [discriminate|].
  intros L. inversion L as [? ? Hd | ? ? i a rem' x' Hp Hh Ha L']; subst; [congruence|].
  eapply (qtry_cands_complete (qdfs St app f)); eauto. apply in_seq. apply qpop_lt in Hp. lia.
Qed.

(* a Found answer is a real order (soundness of the search) *)
Lemma qtry_cands_sound k x rem cands bud b :
  (forall x' rem' b0 b1, k x' rem' b0 = (QFound, b1) -> order_exists St app x' rem') ->
  qtry_cands St app k x rem cands bud = (QFound, b) -> order_exists St app x rem.
Proof.
  intros Hk. revert bud b. induction cands as [|j cands IH]; intros bud b H; cbn [qtry_cands] in H; [discriminate|].
  destruct bud as [|b0]; [discriminate|].
  destruct (qpop j rem) as [[a0 rem0]|] eqn:E1; [|eapply IH; eauto].
  destruct (qheads_ok a0 rem) eqn:E2; [|eapply IH; eauto].
  destruct (app x a0) as [x0|] eqn:E3; [|eapply IH; eauto].
  destruct (k x0 rem0 b0) as [[ | | ] b1] eqn:E; try discriminate.
  - eapply ord_step; eauto.
  - eapply IH; eauto.
Qed.
Theorem qdfs_found_sound fuel x rem bud b : qdfs St app fuel x rem bud = (QFound, b) -> order_exists St app x rem.
Proof.
  revert x rem bud b; induction fuel as [|f IH]; intros x rem bud b H; cbn [qdfs] in H; [discriminate|].
  destruct (qall_done rem) eqn:Ed; [apply ord_done; auto|].
  eapply (qtry_cands_sound (qdfs St app f)); eauto.
Qed.
End Exact.

Theorem order_search_exact cs done : order_search cs done = QNotFound -> ~ sequential_order_exists cs done.
Proof.
  unfold order_search, search_from, sequential_order_exists. intros H.
  destruct (qdfs _ _ _ areg0 (all_calls done) conc_budget) as [r b] eqn:E. cbn in H. subst r. eapply qdfs_notfound_exact; eauto.
Qed.
Theorem order_search_sound cs done : order_search cs done = QFound -> sequential_order_exists cs done.
Proof.
  unfold order_search, search_from, sequential_order_exists. intros H.
  destruct (qdfs _ _ _ areg0 (all_calls done) conc_budget) as [r b] eqn:E. cbn in H. subst r. eapply qdfs_found_sound; eauto.
Qed.

(* a false spec on a well-formed trace means: no sequential order exists *)
Theorem spec_false_exact cs es :
  spec_c06conc cs es = false -> snd (qextract es) = true -> calls_in_range cs (fst (qextract es)) = true ->
  ~ sequential_order_exists cs (fst (qextract es)).
Proof.
  unfold spec_c06conc. destruct (qextract es) as [done wf]. cbn [fst snd]. intros H Hw Hr. rewrite Hw, Hr in H. cbn [andb] in H.
  apply order_search_exact. destruct (order_search cs done); auto; discriminate.
Qed.

(* the classifier agrees with the specs *)
Lemma conc_classify_spec cs es : spec_c06conc cs es = negb (conc_classify cs es =? 2).
Proof.
  unfold spec_c06conc, conc_classify. destruct (qextract es) as [done wf].
  destruct (wf && calls_in_range cs done); cbn [negb andb]; auto. destruct (order_search cs done); reflexivity.
Qed.
Lemma conc_classify_unknown cs es : conc_unknown cs es = (conc_classify cs es =? 1).
Proof.
  unfold conc_unknown, conc_classify. destruct (qextract es) as [done wf].
  destruct (wf && calls_in_range cs done); cbn [negb andb]; auto. destruct (order_search cs done); reflexivity.
Qed.

(* the real race trace has a sequential explanation; what the seeded refactoring exhibits has none *)
Theorem race_trace_explained : spec_c06conc race_cs reg_race_trace = true.
Proof. vm_compute. reflexivity. Qed.
Theorem split_trace_unexplained :
  snd (qextract reg_split_trace) = true /\ spec_c06conc race_cs reg_split_trace = false
  /\ ~ sequential_order_exists race_cs (fst (qextract reg_split_trace)).
Proof.
  split; [vm_compute; reflexivity|]. split; [vm_compute; reflexivity|].
  apply order_search_exact. vm_compute. reflexivity.
Qed.

(* ---- regression for the repaired defect C06-collector-id-sum (commit edcf206): a real sequential trace of the implementation ----
   A = [x{k="3"}/help B; y/h] is registered; B = [x{k="2"}/help B; x/h] is refused (it disagrees with itself) and was never
   registered.  While collectors were filed under the SUM of their descriptor ids, unregister B answered Ok and removed A (the id
   sums of A and B coincide: 8312363255629617082 + 643391356731576721 = 8311237355722518243 + 644517256638675560); now it is
   refused and the gather that follows shows A. *)
Definition sum_cs : list (list qdesc) :=
  [[([120], [104; 101; 108; 112; 32; 66], [], [([107], [51])]); ([121], [104], [], [])];
   [([120], [104; 101; 108; 112; 32; 66], [], [([107], [50])]); ([120], [104], [], [])]].
Definition sum_trace : list revent :=
  [RgCall 0 (RRegister 0); RgLock 0 0 LWrite true; RgDesc 0 0; RgUnlock 0 0 LWrite; RgRet 0 ROk; RgCall 0 (RRegister 1);
   RgLock 0 0 LWrite true; RgDesc 0 1; RgUnlock 0 0 LWrite; RgRet 0 RErrMsg; RgCall 0 (RUnregister 1); RgLock 0 0 LWrite true;
   RgDesc 0 1; RgDesc 0 1; RgUnlock 0 0 LWrite; RgRet 0 RErrMsg; RgCall 0 RGather; RgLock 0 0 LRead true; RgCollect 0 0;
   RgUnlock 0 0 LRead; RgRet 0 (RFams [([120], 1); ([121], 1)])].
(* what the code answered before the repair: not explained by any order *)
Definition sum_trace_before : list revent :=
  [RgCall 0 (RRegister 0); RgRet 0 ROk; RgCall 0 (RRegister 1); RgRet 0 RErrMsg; RgCall 0 (RUnregister 1); RgRet 0 ROk;
   RgCall 0 RGather; RgRet 0 (RFams [])].
Theorem sum_collision_regression :
  rcheck sum_cs 1 sum_trace = true /\ spec_c06conc sum_cs sum_trace = true
  /\ (exists ct, build_ctable sum_cs = Some ct
                 /\ map d_id (descs_of ct 0) = [8312363255629617082; 643391356731576721]
                 /\ map d_id (descs_of ct 1) = [8311237355722518243; 644517256638675560]
                 /\ collector_id (descs_of ct 0) <> collector_id (descs_of ct 1))
  /\ spec_c06conc sum_cs sum_trace_before = false
  /\ ~ sequential_order_exists sum_cs (fst (qextract sum_trace_before)).
Proof.
  split; [vm_compute; reflexivity|]. split; [vm_compute; reflexivity|]. split.
  - eexists. split; [vm_compute; reflexivity|]. split; [vm_compute; reflexivity|]. split; [vm_compute; reflexivity|].
    vm_compute. discriminate.
  - split; [vm_compute; reflexivity|]. apply order_search_exact. vm_compute. reflexivity.
Qed.
