(* The bit pattern of an integer-valued binary64 sum reads back as that integer: for |z| < 2^53,
   z_of_bits (zbits z) = Some z.  (Flocq: binary_normalize_correct, round_generic.) *)
From Coq Require Import Floats ZArith Reals Lia Lra Bool List.
Require Import PV.Base.Prelude PV.Base.F64 PV.Model.HistExec PV.Proofs.PbF64.
From Flocq Require Import Core BinarySingleNaN PrimFloat.
Import ListNotations.

Local Instance Hprec : FLX.Prec_gt_0 prec := eq_refl _.
Local Instance Hmax : Prec_lt_emax prec emax := eq_refl _.

Lemma normalize_exact (z : Z) : (Z.abs z < 2 ^ 53)%Z ->
  let b := binary_normalize prec emax Hprec Hmax mode_NE z 0 false in
  B2R b = IZR z /\ is_finite b = true.
Proof.
  intros Hz b.
  pose proof (binary_normalize_correct prec emax Hprec Hmax mode_NE z 0 false) as C. cbv zeta in C. fold b in C.
  assert (Hx : F2R (Float radix2 z 0) = IZR z) by (unfold F2R; cbn; lra).
  rewrite Hx in C.
  assert (G : generic_format radix2 (fexp prec emax) (IZR z)).
  { apply generic_format_FLT. apply (FLT_spec radix2 _ prec (IZR z) (Float radix2 z 0)); auto.
    - cbn [Fexp]. unfold emin, SpecFloat.emin, emax, prec. lia. }
  rewrite round_generic in C by (auto; apply valid_rnd_round_mode).
  assert (L : (Rabs (IZR z) < bpow radix2 emax)%R).
  { rewrite <- abs_IZR. apply Rlt_le_trans with (IZR (2 ^ 53)); [apply IZR_lt; auto|].
    change (2 ^ 53)%Z with (radix2 ^ 53)%Z. rewrite IZR_Zpower by lia. apply bpow_le. unfold emax. lia. }
  rewrite (Rlt_bool_true _ _ L) in C. destruct C as (C1 & C2 & _). auto.
Qed.

Theorem zbits_roundtrip (z : Z) : (Z.abs z < 2 ^ 53)%Z -> z_of_bits (zbits z) = Some z.
Proof.
  intros Hz. unfold z_of_bits. unfold zbits at 1. rewrite bits2f_f2bits.
  destruct (normalize_exact z Hz) as [HR HF].
  set (b := binary_normalize prec emax Hprec Hmax mode_NE z 0 false) in *.
  assert (E : Prim2SF (f_of_Z z) = B2SF b).
  { unfold f_of_Z. rewrite binary_normalize_equiv. apply Prim2SF_SF2Prim. apply valid_binary_B2SF. }
  rewrite E. destruct b as [s|s| |s m e He]; try discriminate HF; cbn [B2SF].
  - cbn in HR. f_equal. apply eq_IZR. auto.
  - cbn [B2R] in HR. unfold F2R in HR. cbn [Fnum Fexp] in HR.
    assert (V : (if (0 <=? e)%Z then Zpos m * 2 ^ e else Zpos m / 2 ^ (- e))%Z = Z.abs z /\ (z <> 0)%Z /\ s = (z <? 0)%Z).
    { assert (P : (0 < bpow radix2 e)%R) by apply bpow_gt_0.
      assert (Hsgn : s = (z <? 0)%Z /\ (z <> 0)%Z).
      { destruct s; cbn [cond_Zopp] in HR.
        - assert (IZR (- Zpos m) < 0)%R by (apply IZR_lt; lia). assert (IZR z < 0)%R by (rewrite <- HR; nra).
          apply lt_IZR in H0. split; [symmetry; apply Z.ltb_lt; auto|lia].
        - assert (0 < IZR (Zpos m))%R by (apply IZR_lt; lia). assert (0 < IZR z)%R by (rewrite <- HR; nra).
          apply lt_IZR in H0. split; [symmetry; apply Z.ltb_ge; lia|lia]. }
      destruct Hsgn as [Hs Hnz]. split; [|auto].
      assert (HA : (IZR (Zpos m) * bpow radix2 e = IZR (Z.abs z))%R).
      { rewrite abs_IZR, <- HR. rewrite Rabs_mult, (Rabs_pos_eq (bpow radix2 e)) by lra. f_equal.
        rewrite <- abs_IZR. f_equal. destruct s; cbn; reflexivity. }
      destruct (Z.leb_spec 0 e).
      - rewrite <- IZR_Zpower in HA by auto. rewrite <- mult_IZR in HA. apply eq_IZR in HA. exact HA.
      - assert (HB : IZR (Zpos m) = IZR (Z.abs z * 2 ^ (- e))).
        { rewrite mult_IZR. change 2%Z with (radix_val radix2). rewrite IZR_Zpower by lia. rewrite <- HA.
          rewrite Rmult_assoc, <- bpow_plus. replace (e + - e)%Z with 0%Z by lia. cbn. lra. }
        apply eq_IZR in HB. rewrite HB. apply Z.div_mul. apply Z.pow_nonzero; lia. }
    destruct V as (V1 & V2 & V3). rewrite V1.
    assert (Hv : (if s then (- Z.abs z)%Z else Z.abs z) = z) by (rewrite V3; destruct (Z.ltb_spec z 0); lia).
    rewrite Hv. unfold zbits at 2. rewrite N.eqb_refl. reflexivity.
Qed.
