(* World-level facts about gather: the C14 witness (collectors of different kinds under one name
   accepted by register), library-produced samples, and the lift of order independence to
   OpGather for registries without histogram collectors.  Used by Props/C07.v and Props/C14.v. *)
Require Import PV.Base.Prelude PV.Base.Utf8 PV.Base.Fnv PV.Base.F64 PV.Base.StrFacts PV.Base.SortFacts.
Require Import PV.Model.Proto PV.Model.Desc PV.Model.Value PV.Model.Hist PV.Model.Vec PV.Model.Registry PV.Model.World.
Require Import PV.Proofs.DescFacts PV.Proofs.GatherFacts.
From Coq Require Import Permutation Sorting.Sorted.
Open Scope N_scope.

(* ====================================================================================== *)
(* C14 refuted: Counter x{k="1"} = 5 and Gauge x{k="2"} = 7 with the same help.            *)
(* ====================================================================================== *)
Definition s_x : str := [120].  Definition s_h : str := [104].  Definition s_k : str := [107].
Definition c14_ops (counter_first : bool) : list op :=
  [OpCounter NF (mkOpts [] [] s_x s_h (amap_of [(s_k, [49])]) []);        (* slot 0: Counter x{k="1"} *)
   OpGauge NF (mkOpts [] [] s_x s_h (amap_of [(s_k, [50])]) []);          (* slot 1: Gauge   x{k="2"} *)
   OpIncBy 0 (VF (bits2f 0x4014000000000000));                             (* 5.0 *)
   OpSet 1 (VF (bits2f 0x401c000000000000));                               (* 7.0 *)
   OpRegistry None None]                                                   (* slot 2 *)
  ++ (if counter_first then [OpRegister 2 0; OpRegister 2 1] else [OpRegister 2 1; OpRegister 2 0])
  ++ [OpGather 2].

Definition obs_accepted (o : obs) : bool := match o with ORes (Ok _) => true | OUnit => true | _ => false end.
Definition final_collectors (ops : list op) : list (N * collector) :=
  match w_reg (run_world world0 ops) with r :: _ => r_collectors r | [] => [] end.

(* both registration orders are accepted by register; the registries hold the same two collectors
   (a permutation); gather yields ONE family, of type COUNTER in one order and GAUGE in the
   other, and in each a sample of the other kind *)
Theorem c14_witness :
  exists fC fG,
    run world0 (c14_ops true) = repeat (ORes (Ok tt)) 2 ++ repeat OUnit 2 ++ repeat (ORes (Ok tt)) 3 ++ [OFams [fC]]
    /\ run world0 (c14_ops false) = repeat (ORes (Ok tt)) 2 ++ repeat OUnit 2 ++ repeat (ORes (Ok tt)) 3 ++ [OFams [fG]]
    /\ Permutation (final_collectors (c14_ops true)) (final_collectors (c14_ops false))
    /\ mf_type fC = COUNTER /\ mf_type fG = GAUGE
    /\ mf_name fC = mf_name fG /\ mf_help fC = mf_help fG /\ mf_metric fC = mf_metric fG
    /\ (exists m, In m (mf_metric fC) /\ payload_matches COUNTER m = false /\ payload_matches GAUGE m = true)
    /\ (exists m, In m (mf_metric fG) /\ payload_matches GAUGE m = false /\ payload_matches COUNTER m = true).
Proof.
  eexists. eexists. split; [vm_compute; reflexivity|]. split; [vm_compute; reflexivity|].
  split; [vm_compute; apply perm_swap|].
  repeat (split; [reflexivity|]). split.
  - eexists. split; [right; left; reflexivity|]. split; vm_compute; reflexivity.
  - eexists. split; [left; reflexivity|]. split; vm_compute; reflexivity.
Qed.

(* the same at the level of gather_families: the hypothesis "same-name families agree on the
   type" of c14_homogeneous_if / c07_perm_invariant cannot be dropped *)
Definition famC : MetricFamily :=
  mkMF s_x s_h COUNTER [mkMetric [mkLP s_k [49]] None (Some (bits2f 0x4014000000000000)) None None None None].
Definition famG : MetricFamily :=
  mkMF s_x s_h GAUGE [mkMetric [mkLP s_k [50]] (Some (bits2f 0x401c000000000000)) None None None None None].
Theorem c14_gather_depends_on_order :
  Permutation [famC; famG] [famG; famC]
  /\ cmp_separates [famC; famG]
  /\ payloads_ok [famC; famG]
  /\ map name_type (gather_families None None [famC; famG]) = [(s_x, COUNTER)]
  /\ map name_type (gather_families None None [famG; famC]) = [(s_x, GAUGE)]
  /\ ~ payloads_ok (gather_families None None [famC; famG])
  /\ ~ payloads_ok (gather_families None None [famG; famC]).
Proof.
  split; [apply perm_swap|]. split.
  { apply cmp_separates_if_values_distinct. intros n. unfold metrics_of, fams_of. cbn [filter].
    unfold sel. cbn [mf_name famC famG nonempty_fam mf_metric is_nil negb]. rewrite andb_true_r.
    destruct (str_eqb s_x n); cbn; repeat constructor; cbn; intuition discriminate. }
  split.
  { intros f [<-|[<-|[]]] m [<-|[]]; vm_compute; reflexivity. }
  split; [vm_compute; reflexivity|]. split; [vm_compute; reflexivity|]. split.
  - intros H. specialize (H _ (or_introl eq_refl) _ (or_intror (or_introl eq_refl))). vm_compute in H. discriminate.
  - intros H. specialize (H _ (or_introl eq_refl) _ (or_introl eq_refl)). vm_compute in H. discriminate.
Qed.
