(* C07: the executable spec written from the property text ([spec_c07], Spec/SpecC07.v) holds of the
   world model.  Only pinned statements, closed by [exact], with their assumptions printed.

     forall ops, dom07 ops = true ->
       spec_c07 ops (run world0 ops) = true \/ known_mixed_kinds ops (run world0 ops) = true

   for the histories of ALL operations of Model/World.v except OpCustom (the spec assumes library
   collectors; a custom collector may expose anything).  Local metrics, timers and OpDrop are
   covered; OpDrop may kill the handle of a registered collector or of a registry: the spec stays
   true on the model (the proof follows such handles through a ghost slot table).
   The domain [dom07 ops] (executable, Proofs/C07SpecRegs.v) collects the side conditions the spec
   assumes: no OpCustom, const labels are maps (distinct keys), no OpClone of a registry handle
   (the spec does not follow clones), every registration the model accepts finds the same-name
   descriptors of that registry compatible ([register_compat]: equal dimension pre-images, i.e. no
   FNV-1a collision between dimension hashes - [c07_dom_compat_is_no_collision]), and every
   unregistration the model accepts names a slot that was registered in that registry (the spec
   identifies collectors with slots).
   The [..._partial] names are kept as aliases of the same statements. *)
Require Import PV.Base.Prelude PV.Base.F64.
Require Import PV.Model.Proto PV.Model.Desc PV.Model.Value PV.Model.Registry PV.Model.World.
Require Import PV.Proofs.DescFacts PV.Proofs.C07SpecLabels PV.Proofs.C07SpecStep PV.Proofs.C07SpecRegs PV.Proofs.C07Spec.
Require Import PV.Spec.SpecC07 PV.Spec.SpecC14.

Theorem c07_spec_of_model : forall ops, dom07 ops = true ->
  spec_c07 ops (run world0 ops) = true \/ known_mixed_kinds ops (run world0 ops) = true.
Proof. exact c07_spec_model. Qed.
Theorem c07_spec_model_partial : forall ops, dom07 ops = true ->
  spec_c07 ops (run world0 ops) = true \/ known_mixed_kinds ops (run world0 ops) = true.
Proof. exact c07_spec_of_model. Qed.
(* the sharper forms: strictly true unless collectors of different kinds meet under one name ... *)
Theorem c07_spec_of_model_strict : forall ops, dom07 ops = true ->
  mixed_kinds_registered ops (run world0 ops) = false -> spec_c07 ops (run world0 ops) = true.
Proof. exact c07_spec_strict. Qed.
Theorem c07_spec_strict_partial : forall ops, dom07 ops = true ->
  mixed_kinds_registered ops (run world0 ops) = false -> spec_c07 ops (run world0 ops) = true.
Proof. exact c07_spec_of_model_strict. Qed.
(* ... and then everything but the family type still holds *)
Theorem c07_known_class_delimited : forall ops, dom07 ops = true ->
  mixed_kinds_registered ops (run world0 ops) = true -> known_mixed_kinds ops (run world0 ops) = true.
Proof. exact c07_known_delimited. Qed.
Theorem c07_known_delimited_partial : forall ops, dom07 ops = true ->
  mixed_kinds_registered ops (run world0 ops) = true -> known_mixed_kinds ops (run world0 ops) = true.
Proof. exact c07_known_class_delimited. Qed.

(* the compatibility condition of the domain = equal dimension pre-images *)
Theorem c07_dom_compat_is_no_collision : forall fq1 help1 vars1 consts1 d1 b1 fq2 help2 vars2 consts2 d2 b2,
  NoDup (map fst consts1) -> NoDup (map fst consts2) -> wf_str help1 -> wf_str help2 ->
  desc_new fq1 help1 vars1 consts1 = Some d1 -> desc_new fq2 help2 vars2 consts2 = Some d2 ->
  desc_dim_bytes help1 vars1 consts1 = Some b1 -> desc_dim_bytes help2 vars2 consts2 = Some b2 ->
  (desc_compat d1 d2 = true <-> b1 = b2).
Proof. exact desc_compat_iff_dim_bytes. Qed.

(* non-vacuity: generated scenarios (tools/p_C07.py) are inside the domain *)
Example c07_dom_many_labels :
  dom07 ex_many_labels = true /\ mixed_kinds_registered ex_many_labels (run world0 ex_many_labels) = false
  /\ spec_c07 ex_many_labels (run world0 ex_many_labels) = true.
Proof. exact ex_many_labels_in_domain. Qed.
Example c07_dom_gathergen :
  dom07 ex_gathergen = true /\ mixed_kinds_registered ex_gathergen (run world0 ex_gathergen) = false
  /\ length (filter is_fams (run world0 ex_gathergen)) = 4%nat.
Proof. exact ex_gathergen_in_domain. Qed.
Example c07_dom_c14_witness :
  dom07 ex_c14_witness = true /\ mixed_kinds_registered ex_c14_witness (run world0 ex_c14_witness) = true
  /\ spec_c07 ex_c14_witness (run world0 ex_c14_witness) = false
  /\ spec_c14 ex_c14_witness (run world0 ex_c14_witness) = false
  /\ known_mixed_kinds ex_c14_witness (run world0 ex_c14_witness) = true.
Proof. exact ex_c14_witness_in_domain. Qed.

Example c07_dom_locals_drop :
  dom07 ex_locals_drop = true /\ mixed_kinds_registered ex_locals_drop (run world0 ex_locals_drop) = false
  /\ length (filter is_fams (run world0 ex_locals_drop)) = 5%nat
  /\ spec_c07 ex_locals_drop (run world0 ex_locals_drop) = true.
Proof. exact ex_locals_drop_in_domain. Qed.
(* the domain excludes exactly OpCustom among the operations *)
Example c07_op_lang_all_but_custom :
  op_lang (OpLocal 0) = true /\ op_lang (OpFlush 0) = true /\ op_lang (OpClear 0) = true /\ op_lang (OpDrop 0) = true
  /\ op_lang (OpLvInc 0 [] (VU 0)) = true /\ op_lang (OpLvRemove 0 []) = true /\ op_lang (OpTimer 0) = true
  /\ op_lang (OpTimerStop 0 TRecord 0 0) = true /\ op_lang (OpClosure 0 0 0) = true /\ op_lang (OpCustom [] []) = false.
Proof. repeat split; reflexivity. Qed.

Check c07_spec_of_model : forall ops, dom07 ops = true ->
  spec_c07 ops (run world0 ops) = true \/ known_mixed_kinds ops (run world0 ops) = true.
Check c07_spec_of_model_strict : forall ops, dom07 ops = true ->
  mixed_kinds_registered ops (run world0 ops) = false -> spec_c07 ops (run world0 ops) = true.
Check c07_spec_model_partial : forall ops, dom07 ops = true ->
  spec_c07 ops (run world0 ops) = true \/ known_mixed_kinds ops (run world0 ops) = true.
Check c07_spec_strict_partial : forall ops, dom07 ops = true ->
  mixed_kinds_registered ops (run world0 ops) = false -> spec_c07 ops (run world0 ops) = true.
Print Assumptions c07_spec_of_model.
Print Assumptions c07_spec_of_model_strict.
Print Assumptions c07_known_class_delimited.
Print Assumptions c07_dom_locals_drop.
Print Assumptions c07_spec_model_partial.
Print Assumptions c07_spec_strict_partial.
Print Assumptions c07_known_delimited_partial.
Print Assumptions c07_dom_compat_is_no_collision.
Print Assumptions c07_dom_many_labels.
Print Assumptions c07_dom_gathergen.
Print Assumptions c07_dom_c14_witness.

(* ---- the same uniform theorems for histories that may contain user-written collectors (OpCustom) exposing no families: the C14
   scenarios use them (a collector sharing a descriptor with a registered one).  [dom07c] = [dom07] with OpCustom ds [] allowed;
   the old domain is contained in it.  Proofs/C07SpecCustom*.v *)
Require PV.Proofs.C07SpecCustomRegs PV.Proofs.C07SpecCustom PV.Proofs.C07SpecCustomSub.
Theorem c07_spec_of_model_custom : forall ops, C07SpecCustomRegs.dom07c ops = true ->
  spec_c07 ops (run world0 ops) = true \/ known_mixed_kinds ops (run world0 ops) = true.
Proof. exact C07SpecCustom.c07_spec_model_custom. Qed.
Theorem c07_spec_of_model_strict_custom : forall ops, C07SpecCustomRegs.dom07c ops = true ->
  mixed_kinds_registered ops (run world0 ops) = false -> spec_c07 ops (run world0 ops) = true.
Proof. exact C07SpecCustom.c07_spec_strict_custom. Qed.
Theorem c07_known_class_delimited_custom : forall ops, C07SpecCustomRegs.dom07c ops = true ->
  mixed_kinds_registered ops (run world0 ops) = true -> known_mixed_kinds ops (run world0 ops) = true.
Proof. exact C07SpecCustom.c07_known_delimited_custom. Qed.
Theorem c07_dom_contained_in_custom_dom : forall ops, dom07 ops = true -> C07SpecCustomRegs.dom07c ops = true.
Proof. exact C07SpecCustomSub.dom07_sub_dom07c. Qed.
Example c07_dom_custom_gen :
  C07SpecCustomRegs.dom07c C07SpecCustom.ex_custom_gen = true
  /\ mixed_kinds_registered C07SpecCustom.ex_custom_gen (run world0 C07SpecCustom.ex_custom_gen) = false
  /\ length (filter C07SpecCustom.is_fams (run world0 C07SpecCustom.ex_custom_gen)) = 7%nat
  /\ spec_c07 C07SpecCustom.ex_custom_gen (run world0 C07SpecCustom.ex_custom_gen) = true.
Proof. exact C07SpecCustom.ex_custom_gen_in_domain. Qed.
Example c07_dom_custom_accepted :
  C07SpecCustomRegs.dom07c C07SpecCustom.ex_custom_accepted = true
  /\ mixed_kinds_registered C07SpecCustom.ex_custom_accepted (run world0 C07SpecCustom.ex_custom_accepted) = false
  /\ nth 13 (run world0 C07SpecCustom.ex_custom_accepted) OBad = ORes (Ok tt)
  /\ nth 14 (run world0 C07SpecCustom.ex_custom_accepted) OBad = ORes (Ok tt)
  /\ nth 15 (run world0 C07SpecCustom.ex_custom_accepted) OBad = ORes (Err EAlreadyReg)
  /\ nth 20 (run world0 C07SpecCustom.ex_custom_accepted) OBad = ORes (Ok tt)
  /\ length (filter C07SpecCustom.is_fams (run world0 C07SpecCustom.ex_custom_accepted)) = 6%nat
  /\ spec_c07 C07SpecCustom.ex_custom_accepted (run world0 C07SpecCustom.ex_custom_accepted) = true.
Proof. exact C07SpecCustom.ex_custom_accepted_in_domain. Qed.
Example c07_op_lang_custom :
  C07SpecCustomStep.op_lang (OpCustom [] []) = true /\ C07SpecCustomStep.op_lang (OpCustom [] [mkMF [] [] COUNTER []]) = false.
Proof. split; reflexivity. Qed.
Check c07_spec_of_model_custom : forall ops, C07SpecCustomRegs.dom07c ops = true ->
  spec_c07 ops (run world0 ops) = true \/ known_mixed_kinds ops (run world0 ops) = true.
Check c07_spec_of_model_strict_custom : forall ops, C07SpecCustomRegs.dom07c ops = true ->
  mixed_kinds_registered ops (run world0 ops) = false -> spec_c07 ops (run world0 ops) = true.
Print Assumptions c07_spec_of_model_custom.
Print Assumptions c07_spec_of_model_strict_custom.
Print Assumptions c07_known_class_delimited_custom.
Print Assumptions c07_dom_contained_in_custom_dom.
Print Assumptions c07_dom_custom_gen.
Print Assumptions c07_dom_custom_accepted.
