(* C08: the executable spec [spec_c08] (Spec/SpecC08.v, written from the property text) holds of
   the world model for ALL histories inside the executable domain [dom08]:

     c08_spec_model : forall ops, dom08 ops = true -> spec_c08 ops (run world0 ops) = true.

   [dom08 ops] collects the two side conditions the spec relies on:
     - fewer than 2^63 operations (hence fewer than 2^63 observations reach any histogram or
       local histogram: no counter wraps),
     - no FNV-1a collision between two distinct label-value tuples used in OpWith anywhere in
       the history (the spec keys the children of a HistogramVec by the tuple, the library by
       the 64-bit hash of the tuple).

   The proof is a simulation: a relation [Inv] between the spec's abstract state and the world
   (per histogram the invariant HInv of HistFacts.v, per local histogram [local_of], per vector
   the children map hashed key by key) is kept by every operation the spec judges, and every
   verdict is [true] on the model's own observation. *)
Require Import PV.Base.Prelude PV.Base.Utf8 PV.Base.Fnv PV.Base.F64 PV.Base.StrFacts.
Require Import PV.Model.Proto PV.Model.Desc PV.Model.Value PV.Model.Hist PV.Model.Vec PV.Model.Registry PV.Model.World.
Require Import PV.Proofs.DescFacts PV.Proofs.C05Facts.
Require Import PV.Proofs.F64Facts PV.Proofs.HistFacts PV.Proofs.LocalFacts PV.Proofs.C12More.
Require Import PV.Spec.SpecC08.
Open Scope N_scope.
Set Warnings "-inexact-float".

#[local] Arguments wrap64 : simpl never.

(* ================================================================ 1. acceptance, from the text = the model's *)
Lemma spec_default_is_default : spec_default_bounds = DEFAULT_BUCKETS.
Proof. vm_compute. reflexivity. Qed.

Lemma effective_with_default bs : effective bs = with_default bs.
Proof. destruct bs; cbn; [apply spec_default_is_default|reflexivity]. Qed.

Lemma is_number_not_nan x : is_number x = negb (f_is_nan x).
Proof. unfold is_number, f_is_nan. rewrite negb_involutive. reflexivity. Qed.

Lemma increasing_agree l : forallb is_number l && strictly_increasing l = buckets_increasing l.
Proof.
  induction l as [|a r IH]; [reflexivity|].
  cbn [forallb strictly_increasing buckets_increasing]. rewrite <- IH. rewrite is_number_not_nan.
  destruct (f_is_nan a) eqn:Na; cbn [negb andb]; [reflexivity|].
  destruct r as [|b r']; cbn [forallb strictly_increasing andb]; [reflexivity|].
  rewrite is_number_not_nan. destruct (f_is_nan b) eqn:Nb; cbn [negb andb].
  - destruct (PrimFloat.ltb a b), (negb (PrimFloat.leb b a)); reflexivity.
  - rewrite (nleb_ltb a b Na Nb).
    destruct (PrimFloat.ltb a b); cbn [andb]; rewrite ?andb_false_r; reflexivity.
Qed.

Lemma drop_trailing_spec l : drop_trailing_inf l = if is_pinf (last l f_zero) then removelast l else l.
Proof.
  induction l as [|x r IH]; [reflexivity|].
  cbn [drop_trailing_inf]. destruct r as [|y r'].
  - cbn. destruct (is_pinf x); reflexivity.
  - rewrite IH. change (last (x :: y :: r') f_zero) with (last (y :: r') f_zero).
    change (removelast (x :: y :: r')) with (x :: removelast (y :: r')).
    destruct (is_pinf (last (y :: r') f_zero)); reflexivity.
Qed.

Lemma acceptable_iff bs : acceptable bs = match check_and_adjust_buckets bs with Some _ => true | None => false end.
Proof.
  unfold acceptable, check_and_adjust_buckets. rewrite increasing_agree, effective_with_default.
  replace (if is_nil bs then DEFAULT_BUCKETS else bs) with (with_default bs) by (destruct bs; reflexivity).
  destruct (buckets_increasing (with_default bs)); reflexivity.
Qed.

Lemma configured_is_adjusted bs bs' : check_and_adjust_buckets bs = Some bs' -> configured bs = bs'.
Proof.
  unfold configured, check_and_adjust_buckets. rewrite effective_with_default.
  replace (if is_nil bs then DEFAULT_BUCKETS else bs) with (with_default bs) by (destruct bs; reflexivity).
  destruct (buckets_increasing (with_default bs)); [|discriminate]. intros H; inversion H; subst.
  rewrite drop_trailing_spec, (drop_last_inf_spec _ (with_default_nonempty bs)). reflexivity.
Qed.

Lemma acceptable_true bs bs' : check_and_adjust_buckets bs = Some bs' -> acceptable bs = true.
Proof. intros H. rewrite acceptable_iff, H. reflexivity. Qed.
Lemma acceptable_false bs : check_and_adjust_buckets bs = None -> acceptable bs = false.
Proof. intros H. rewrite acceptable_iff, H. reflexivity. Qed.

(* ================================================================ 2. list helpers *)
Lemma Forall2_list_set {A B} (R : A -> B -> Prop) l l' i x y :
  Forall2 R l l' -> R x y -> Forall2 R (list_set l i x) (list_set l' i y).
Proof. intros F H. revert i. induction F; intros [|i]; cbn; constructor; auto. Qed.

Lemma Forall2_nth_error {A B} (R : A -> B -> Prop) l l' i x :
  Forall2 R l l' -> nth_error l i = Some x -> exists y, nth_error l' i = Some y /\ R x y.
Proof. intros F. revert i. induction F; intros [|i]; cbn; try discriminate; eauto. intros E; inversion E; subst; eauto. Qed.

Lemma Forall2_nth_error_r {A B} (R : A -> B -> Prop) l l' i y :
  Forall2 R l l' -> nth_error l' i = Some y -> exists x, nth_error l i = Some x /\ R x y.
Proof. intros F. revert i. induction F; intros [|i]; cbn; try discriminate; eauto. intros E; inversion E; subst; eauto. Qed.

Lemma Forall2_nth {A B} (R : A -> B -> Prop) l l' i d d' : Forall2 R l l' -> R d d' -> R (nth i l d) (nth i l' d').
Proof. intros F D. revert i. induction F; intros [|i]; cbn; auto. Qed.

Lemma Forall2_impl {A B} (R R' : A -> B -> Prop) l l' : (forall x y, R x y -> R' x y) -> Forall2 R l l' -> Forall2 R' l l'.
Proof. intros H F. induction F; constructor; auto. Qed.

Lemma Forall2_pointwise {A B} (R : A -> B -> Prop) l l' :
  length l = length l' -> (forall i x y, nth_error l i = Some x -> nth_error l' i = Some y -> R x y) -> Forall2 R l l'.
Proof.
  revert l'. induction l as [|a l IH]; intros [|b l'] L H; cbn in L; try discriminate; constructor.
  - apply (H O); reflexivity.
  - apply IH; [lia|]. intros i x y Hx Hy. apply (H (S i)); auto.
Qed.

Lemma Forall2_len {A B} (R : A -> B -> Prop) l l' : Forall2 R l l' -> length l = length l'.
Proof. induction 1; cbn; auto. Qed.

Lemma nth_error_nth' {A} (l : list A) i x d : nth_error l i = Some x -> nth i l d = x.
Proof. revert i. induction l; intros [|i]; cbn; try discriminate; auto. intros H; inversion H; auto. Qed.

Lemma nth_nth_error {A} (l : list A) i d : (i < length l)%nat -> nth_error l i = Some (nth i l d).
Proof. revert i. induction l; intros [|i] H; cbn in *; try lia; auto. apply IHl; lia. Qed.

Lemma upd_as_set {A} (l : list A) i f x : nth_error l i = Some x -> upd l i f = list_set l i (f x).
Proof. intros H. unfold upd. rewrite H. reflexivity. Qed.

Lemma map_list_set_same {A B} (g : A -> B) l i x d : g x = g (nth i l d) -> (i < length l)%nat -> map g (list_set l i x) = map g l.
Proof.
  intros H L. rewrite map_list_set. apply list_set_same. rewrite H. apply map_nth_error. apply nth_nth_error; auto.
Qed.

Lemma list_set_overflow {A} (l : list A) i x : (length l <= i)%nat -> list_set l i x = l.
Proof. revert i. induction l; intros [|i] H; cbn in *; try lia; auto. f_equal. apply IHl; lia. Qed.

(* ================================================================ 3. how many values the abstract state holds *)
Fixpoint sumf {A} (f : A -> nat) (l : list A) : nat := match l with [] => O | x :: t => (f x + sumf f t)%nat end.

Lemma sumf_app {A} (f : A -> nat) a b : sumf f (a ++ b) = (sumf f a + sumf f b)%nat.
Proof. induction a; cbn; lia. Qed.

Lemma sumf_list_set {A} (f : A -> nat) l i x d : f d = O -> (sumf f (list_set l i x) + f (nth i l d) <= sumf f l + f x)%nat.
Proof.
  intros D. revert i. induction l as [|a l IH]; intros [|i]; cbn; try lia. specialize (IH i). lia.
Qed.

Lemma sumf_nth_le {A} (f : A -> nat) l i d : f d = O -> (f (nth i l d) <= sumf f l)%nat.
Proof. intros D. revert i. induction l as [|a l IH]; intros [|i]; cbn; try lia. specialize (IH i). lia. Qed.

Definition plen (a : aslot) : nat := match a with ALocal _ p _ => length p | _ => O end.
Definition olen (a : ahist) : nat := length (ah_obs a).
Definition held (s : sstate) : nat := (sumf olen (ss_h s) + sumf plen (ss_slots s))%nat.

Lemma held_push s a : held (ss_push s a) = (held s + plen a)%nat.
Proof. unfold held, ss_push; cbn. rewrite sumf_app. cbn. lia. Qed.
Lemma held_put s i a : (held (ss_put s i a) + plen (ss_slot s i) <= held s + plen a)%nat.
Proof. unfold held, ss_put, ss_slot; cbn. pose proof (sumf_list_set plen (ss_slots s) i a ADead eq_refl). lia. Qed.
Lemma held_set_hist s i a : (held (ss_set_hist s i a) + olen (ss_hist s i) <= held s + olen a)%nat.
Proof. unfold held, ss_set_hist, ss_hist; cbn. pose proof (sumf_list_set olen (ss_h s) i a ah_dummy eq_refl). lia. Qed.
Lemma held_new_hist s bs z vs : held (mkSS (ss_h s ++ [mkAH bs [] z]) vs (ss_slots s)) = held s.
Proof. unfold held; cbn. rewrite sumf_app. cbn. lia. Qed.
Lemma held_vecs s vs : held (mkSS (ss_h s) vs (ss_slots s)) = held s.
Proof. reflexivity. Qed.
Lemma olen_batch a p ps : (olen (ah_batch a p ps) <= olen a + length p)%nat.
Proof. unfold ah_batch, olen. destruct p; cbn [ah_obs]; [lia|]. rewrite app_length. lia. Qed.
Lemma olen_le_held s i : (olen (ss_hist s i) <= held s)%nat.
Proof. unfold held, ss_hist. pose proof (sumf_nth_le olen (ss_h s) i ah_dummy eq_refl). lia. Qed.
Lemma plen_le_held s i : (plen (ss_slot s i) <= held s)%nat.
Proof. unfold held, ss_slot. pose proof (sumf_nth_le plen (ss_slots s) i ADead eq_refl). lia. Qed.
Lemma both_le_held s i sl : (olen (ss_hist s i) + plen (ss_slot s sl) <= held s)%nat.
Proof.
  unfold held, ss_hist, ss_slot. pose proof (sumf_nth_le olen (ss_h s) i ah_dummy eq_refl).
  pose proof (sumf_nth_le plen (ss_slots s) sl ADead eq_refl). lia.
Qed.

(* one judged step adds at most one value *)
Lemma sstep_held s o ob s' b : sstep s o ob = Some (s', b) -> (held s' <= held s + 1)%nat.
Proof.
  destruct o; cbn [sstep]; repeat dmatch; intros H; inversion H; subst; clear H;
    rewrite ?held_push, ?held_new_hist; cbn [plen length]; try lia.
  all: try (match goal with |- context[held (mkSS (ss_h ?s ++ [mkAH ?bs [] ?z]) ?vs (ss_slots ?s))] =>
              rewrite (held_new_hist s bs z vs) end; lia).
  all: repeat match goal with
       | |- context[held (ss_put ?s ?i ?a)] =>
           lazymatch goal with _ : (held (ss_put s i a) + _ <= _)%nat |- _ => fail | _ => pose proof (held_put s i a) end
       | |- context[held (ss_set_hist ?s ?i ?a)] =>
           lazymatch goal with _ : (held (ss_set_hist s i a) + _ <= _)%nat |- _ => fail | _ => pose proof (held_set_hist s i a) end
       | H : context[held (ss_put (ss_set_hist ?s ?i ?a) _ _)] |- _ =>
           lazymatch goal with _ : (held (ss_set_hist s i a) + _ <= _)%nat |- _ => fail | _ => pose proof (held_set_hist s i a) end
       end.
  all: repeat match goal with H : context[ss_slot (ss_set_hist ?s ?i ?a) ?sl] |- _ => change (ss_slot (ss_set_hist s i a) sl) with (ss_slot s sl) in H end.
  all: repeat match goal with H : ss_slot _ _ = _ |- _ => rewrite H in * end.
  all: repeat match goal with H : context[olen (ah_batch ?a ?p ?ps)] |- _ =>
         lazymatch goal with _ : (olen (ah_batch a p ps) <= _)%nat |- _ => fail | _ => pose proof (olen_batch a p ps) end end.
  all: try (unfold held; cbn [ss_h ss_slots]; lia).
  all: unfold olen in *; cbn [plen ah_observe ah_obs length] in *; rewrite ?app_length in *; cbn [length] in *; try lia.
Qed.

(* ================================================================ 4. one abstract histogram vs. one core *)
Definition hrel (a : ahist) (h : hcore) : Prop :=
  chain_lt (ah_bounds a) /\ N.of_nat (length (ah_obs a)) < two64 /\
  exists hops, HInv (ah_bounds a) h hops /\ ah_obs a = hist_values hops /\ ah_sum a = spec_sum hops.

Lemma hrel_bounds a h : hrel a h -> hc_bounds h = ah_bounds a.
Proof. intros (_ & _ & hops & I & _). apply I. Qed.
Lemma hrel_count a h : hrel a h -> hc_sample_count h = N.of_nat (length (ah_obs a)).
Proof. intros (_ & _ & hops & I & E & _). unfold hc_sample_count. rewrite E. apply I. Qed.
Lemma hrel_sum a h : hrel a h -> hc_sample_sum h = ah_sum a.
Proof. intros (_ & _ & hops & I & _ & E). unfold hc_sample_sum. rewrite (inv_hot _ _ _ I), E. reflexivity. Qed.

Lemma hrel_fresh o vals h : hcore_new o vals = Ok h -> hrel (mkAH (configured (ho_buckets o)) [] f_zero) h.
Proof.
  intros H. destruct (hcore_new_fresh _ _ _ H) as (bs & C & F).
  rewrite (configured_is_adjusted _ _ C). unfold hrel; cbn [ah_bounds ah_obs ah_sum].
  split; [apply (check_and_adjust_accepted _ _ C)|]. split; [reflexivity|].
  exists []. split; [apply inv_fresh; auto|]. split; reflexivity.
Qed.

Lemma spec_sum_snoc_obs hops v : spec_sum (hops ++ [HObserve v]) = (spec_sum hops + v)%float.
Proof. unfold spec_sum. rewrite hist_addends_snoc. cbn [hop_addends]. apply fold_snoc. Qed.
Lemma spec_sum_snoc_batch hops p : p <> [] -> spec_sum (hops ++ [HFlush p]) = (spec_sum hops + batch_sum p)%float.
Proof.
  intros NE. unfold spec_sum. rewrite hist_addends_snoc. destruct p; [congruence|].
  change (hop_addends (HFlush (f :: p))) with [batch_sum (f :: p)]. apply fold_snoc.
Qed.

Lemma hrel_observe a h v : hrel a h -> N.of_nat (length (ah_obs a)) + 1 < two64 -> hrel (ah_observe a v) (hc_observe h v).
Proof.
  intros (C & L & hops & I & EO & ES) B. unfold hrel, ah_observe; cbn [ah_bounds ah_obs ah_sum].
  split; auto. split; [rewrite app_length; cbn [length]; lia|].
  exists (hops ++ [HObserve v]). split; [|split].
  - apply (inv_step _ _ _ (HObserve v) I C). rewrite hist_values_snoc, app_length, <- EO. cbn [hop_values length]. lia.
  - rewrite hist_values_snoc, EO. reflexivity.
  - rewrite spec_sum_snoc_obs, ES. reflexivity.
Qed.

Lemma local_of_nil bs : local_of bs [] = lh_new (length bs).
Proof. reflexivity. Qed.

Lemma hrel_batch a h p : hrel a h -> N.of_nat (length (ah_obs a) + length p) < two64 ->
  hrel (ah_batch a p (batch_sum p)) (hc_flush h (local_of (ah_bounds a) p)).
Proof.
  intros R B. destruct p as [|v0 p0].
  - cbn [ah_batch]. rewrite local_of_nil, hc_flush_empty by reflexivity. exact R.
  - destruct R as (C & L & hops & I & EO & ES). set (p := v0 :: p0) in *.
    unfold hrel. change (ah_batch a p (batch_sum p)) with (mkAH (ah_bounds a) (ah_obs a ++ p) (ah_sum a + batch_sum p)%float).
    cbn [ah_bounds ah_obs ah_sum].
    split; auto. split; [rewrite app_length; lia|].
    exists (hops ++ [HFlush p]). split; [|split].
    + pose proof (inv_step _ _ _ (HFlush p) I C) as S. cbn [hop_apply] in S. rewrite (inv_bounds _ _ _ I) in S.
      apply S. rewrite hist_values_snoc, app_length, <- EO. cbn [hop_values]. lia.
    + rewrite hist_values_snoc, EO. reflexivity.
    + rewrite spec_sum_snoc_batch by (unfold p; discriminate). rewrite ES. reflexivity.
Qed.

Lemma f64_eqb_refl x : f64_eqb x x = true.
Proof. unfold f64_eqb. apply N.eqb_refl. Qed.

Lemma buckets_ok_refl bs obs : buckets_ok (map (fun b => mkBucket (count_le b obs) b) bs) bs obs = true.
Proof.
  induction bs as [|b r IH]; [reflexivity|]. cbn [map buckets_ok b_cum b_upper].
  rewrite IH, f64_eqb_refl. change (count_le_spec b obs) with (count_le b obs). rewrite N.eqb_refl. reflexivity.
Qed.

Lemma hrel_collect a h : hrel a h -> exists p h', hc_proto h = Some (p, h') /\ hist_ok a p = true /\ hrel a h'.
Proof.
  intros (C & L & hops & I & EO & ES).
  destruct (inv_collect _ _ _ I C) as (h' & P & I'); [rewrite <- EO; exact L|].
  exists (spec_hist (ah_bounds a) hops), h'. split; [exact P|]. split.
  - unfold hist_ok, spec_hist. cbn [h_count h_sum h_bucket]. rewrite <- EO, <- ES, N.eqb_refl, f64_eqb_refl, buckets_ok_refl. reflexivity.
  - split; auto. split; auto. exists hops. auto.
Qed.

Lemma hrel_collected a h h' : hrel a h -> collected h h' -> hrel a h'.
Proof.
  intros R (m & H). destruct (hrel_collect a h R) as (p & h1 & P & _ & R1).
  unfold hist_metric in H. rewrite P in H. inversion H; subst. exact R1.
Qed.
Lemma hrel_cstar a h h' : cstar h h' -> hrel a h -> hrel a h'.
Proof. induction 1; intros R; eauto using hrel_collected. Qed.

(* the metric a collection of a related core yields *)
Lemma hrel_metric a h : hrel a h ->
  exists m h', hist_metric h = Some (m, h') /\ hrel a h' /\ exists p, m_histogram m = Some p /\ hist_ok a p = true.
Proof.
  intros R. destruct (hrel_collect a h R) as (p & h' & P & O & R'). unfold hist_metric. rewrite P.
  eexists; eexists; split; [reflexivity|]. split; auto. exists p. split; [reflexivity|exact O].
Qed.

(* ================================================================ 5. the simulation relation *)
Definition ext {A} (l l' : list A) : Prop := exists e, l' = l ++ e.
Lemma ext_refl {A} (l : list A) : ext l l.
Proof. exists []. rewrite app_nil_r. reflexivity. Qed.
Lemma ext_app {A} (l e : list A) : ext l (l ++ e).
Proof. exists e. reflexivity. Qed.
Lemma ext_nth {A} (l l' : list A) i x : ext l l' -> nth_error l i = Some x -> nth_error l' i = Some x.
Proof. intros [e ->] H. apply nth_error_app_some; auto. Qed.
Lemma ext_len {A} (l l' : list A) : ext l l' -> (length l <= length l')%nat.
Proof. intros [e ->]. rewrite app_length. lia. Qed.
Lemma ext_map {A B} (g : A -> B) l l' : ext l l' -> ext (map g l) (map g l').
Proof. intros [e ->]. exists (map g e). apply map_app. Qed.

Definition hk (kc : list str * nat) : N * nat := (fnv1a (enc_sep (fst kc)), snd kc).

Definition srel (B : list (list f64)) (vm : list nat) (KS : list veckind) (a : aslot) (h : handle) : Prop :=
  match a with
  | ADead => h = HDead
  | AOther => match h with
              | HDead | HValue _ | HLocalCounter _ _ | HLocalCounterVec _ _ | HRegistry _ | HCustom _ _ | HPulling _ _ => True
              | HVec vj => exists t k, nth_error KS vj = Some (VKValue t k)
              | _ => False
              end
  | AHist i => h = HHist i /\ (i < length B)%nat
  | AVec vi => exists vj, nth_error vm vi = Some vj /\ h = HVec vj
  | ALocal i p ps => exists bs, nth_error B i = Some bs /\ h = HLocalHist i (local_of bs p) /\ ps = batch_sum p
                                /\ N.of_nat (length p) < two64
  end.

Lemma srel_mono B B' vm vm' KS KS' a h : ext B B' -> ext vm vm' -> ext KS KS' -> srel B vm KS a h -> srel B' vm' KS' a h.
Proof.
  intros EB EV EK. destruct a; cbn [srel]; auto.
  - destruct h; auto. intros (t & k & H). exists t, k. eapply ext_nth; eauto.
  - intros [-> L]. split; auto. pose proof (ext_len _ _ EB). lia.
  - intros (vj & H & ->). exists vj. split; auto. eapply ext_nth; eauto.
  - intros (bs & H & R). exists bs. split; auto. eapply ext_nth; eauto.
Qed.

Definition vrel (K : list (list str)) (nh : nat) (av : avec) (v : veccore) : Prop :=
  coherent v /\ v_kind v = VKHist (av_buckets av) /\ length (d_vars (v_desc v)) = av_nlabels av
  /\ v_children v = map hk (av_children av)
  /\ Forall (fun kc => In (fst kc) K /\ (snd kc < nh)%nat) (av_children av)
  /\ (av_children av = [] \/ acceptable (av_buckets av) = true).

Lemma vrel_mono K nh nh' av v : (nh <= nh')%nat -> vrel K nh av v -> vrel K nh' av v.
Proof.
  intros L (C & KD & NL & CH & F & A). repeat split; auto; try apply C.
  eapply Forall_impl; [|exact F]. intros kc [I J]. split; auto. lia.
Qed.

Definition vsrel K nh (vm : list nat) (avs : list avec) (vecs : list veccore) : Prop :=
  length vm = length avs /\ NoDup vm /\
  forall vi av vj, nth_error avs vi = Some av -> nth_error vm vi = Some vj -> exists v, nth_error vecs vj = Some v /\ vrel K nh av v.

Definition InvC K vm (s : sstate) (H : list hcore) (V : list veccore) (S : list handle) : Prop :=
  Forall2 hrel (ss_h s) H
  /\ Forall2 (srel (map ah_bounds (ss_h s)) vm (map v_kind V)) (ss_slots s) S
  /\ vsrel K (length (ss_h s)) vm (ss_v s) V.
Definition Inv K vm (s : sstate) (w : world) : Prop := InvC K vm s (w_h w) (w_vec w) (w_slots w).

Lemma Inv0 K : Inv K [] ss0 world0.
Proof.
  unfold Inv, InvC; cbn. repeat split; try constructor. intros vi av vj H. destruct vi; discriminate.
Qed.

Lemma Inv_slot K vm s w sl : Inv K vm s w -> srel (map ah_bounds (ss_h s)) vm (map v_kind (w_vec w)) (ss_slot s sl) (slot w sl).
Proof. intros (_ & S & _). unfold ss_slot, slot. apply Forall2_nth; auto. reflexivity. Qed.

Lemma Inv_len_h K vm s H V S : InvC K vm s H V S -> length H = length (ss_h s).
Proof. intros (F & _). symmetry. eapply Forall2_len; eauto. Qed.

(* ---------- updates ---------- *)
Lemma InvC_push K vm s H V S a h : InvC K vm s H V S -> srel (map ah_bounds (ss_h s)) vm (map v_kind V) a h ->
  InvC K vm (ss_push s a) H V (S ++ [h]).
Proof. intros (IH & IS & IV) R. split; [|split]; auto. cbn. apply Forall2_app; auto. Qed.

Lemma InvC_put K vm s H V S i a h : InvC K vm s H V S -> srel (map ah_bounds (ss_h s)) vm (map v_kind V) a h ->
  InvC K vm (ss_put s i a) H V (list_set S i h).
Proof. intros (IH & IS & IV) R. split; [|split]; auto. cbn. apply Forall2_list_set; auto. Qed.

Lemma InvC_set_hist K vm s H V S i a' h' : InvC K vm s H V S -> hrel a' h' -> ah_bounds a' = ah_bounds (ss_hist s i) ->
  (i < length (ss_h s))%nat -> InvC K vm (ss_set_hist s i a') (list_set H i h') V S.
Proof.
  intros (IH & IS & IV) R EB L. unfold InvC, ss_set_hist; cbn [ss_h ss_v ss_slots].
  rewrite (map_list_set_same ah_bounds (ss_h s) i a' ah_dummy EB L), length_list_set.
  split; [|split]; auto. apply Forall2_list_set; auto.
Qed.

Lemma InvC_cores K vm s H H' V S : InvC K vm s H V S -> Forall2 hrel (ss_h s) H' -> InvC K vm s H' V S.
Proof. intros (IH & IS & IV) F. split; [|split]; auto. Qed.

Lemma vsrel_mono_nh K nh nh' vm avs V : (nh <= nh')%nat -> vsrel K nh vm avs V -> vsrel K nh' vm avs V.
Proof.
  intros L (A & B & C). split; [|split]; auto. intros vi av vj H1 H2. destruct (C _ _ _ H1 H2) as (v & N & R).
  exists v. split; auto. eapply vrel_mono; eauto.
Qed.

Lemma InvC_new_hist K vm s H V S a h : InvC K vm s H V S -> hrel a h ->
  InvC K vm (mkSS (ss_h s ++ [a]) (ss_v s) (ss_slots s)) (H ++ [h]) V S.
Proof.
  intros (IH & IS & IV) R. unfold InvC; cbn [ss_h ss_v ss_slots]. split; [|split].
  - apply Forall2_app; auto.
  - eapply Forall2_impl; [|exact IS]. intros x y. apply srel_mono; try apply ext_refl. rewrite map_app. apply ext_app.
  - eapply vsrel_mono_nh; [|exact IV]. rewrite app_length. lia.
Qed.

Lemma vsrel_vecs_ext K nh vm avs V V' : ext V V' -> vsrel K nh vm avs V -> vsrel K nh vm avs V'.
Proof.
  intros E (A & B & C). split; [|split]; auto. intros vi av vj H1 H2. destruct (C _ _ _ H1 H2) as (v & N & R).
  exists v. split; auto. eapply ext_nth; eauto.
Qed.

Lemma InvC_new_vec K vm s H V S v : InvC K vm s H V S -> InvC K vm s H (V ++ [v]) S.
Proof.
  intros (IH & IS & IV). split; [|split]; auto.
  - eapply Forall2_impl; [|exact IS]. intros x y. apply srel_mono; try apply ext_refl. rewrite map_app. apply ext_app.
  - eapply vsrel_vecs_ext; [apply ext_app|exact IV].
Qed.

Lemma vsrel_range K nh vm avs V vj : vsrel K nh vm avs V -> In vj vm -> (vj < length V)%nat.
Proof.
  intros (A & B & C) I. apply In_nth_error in I as (vi & N).
  assert (L : (vi < length avs)%nat) by (rewrite <- A; apply nth_error_Some; congruence).
  destruct (nth_error avs vi) as [av|] eqn:E; [|apply nth_error_None in E; lia].
  destruct (C _ _ _ E N) as (v & Nv & _). apply nth_error_Some. congruence.
Qed.

Lemma InvC_new_hist_vec K vm s H V S av v : InvC K vm s H V S -> vrel K (length (ss_h s)) av v ->
  InvC K (vm ++ [length V]) (mkSS (ss_h s) (ss_v s ++ [av]) (ss_slots s)) H (V ++ [v]) S.
Proof.
  intros (IH & IS & IV) R. unfold InvC; cbn [ss_h ss_v ss_slots]. split; [|split]; auto.
  - eapply Forall2_impl; [|exact IS]. intros x y. apply srel_mono; try apply ext_refl; [apply ext_app|rewrite map_app; apply ext_app].
  - pose proof IV as (A & B & C). split; [|split].
    + rewrite !app_length. cbn. lia.
    + apply NoDup_app_intro; auto; [repeat constructor; auto|].
      intros x [<-|[]] Hx. pose proof (vsrel_range _ _ _ _ _ _ IV Hx). lia.
    + intros vi av0 vj H1 H2. destruct (Nat.lt_ge_cases vi (length (ss_v s))) as [L|L].
      * rewrite nth_error_app1 in H1 by auto. rewrite nth_error_app1 in H2 by lia.
        destruct (C _ _ _ H1 H2) as (v0 & N & R0). exists v0. split; auto. apply nth_error_app_some; auto.
      * rewrite nth_error_app2 in H1 by auto. rewrite nth_error_app2 in H2 by lia. rewrite A in H2.
        destruct (vi - length (ss_v s))%nat as [|n]; [|destruct n; discriminate]. cbn in H1, H2. inversion H1; inversion H2; subst.
        exists v. split; auto. rewrite nth_error_app2, Nat.sub_diag; auto.
Qed.

Lemma map_kind_list_set V vj (v v' : veccore) : nth_error V vj = Some v -> v_kind v' = v_kind v ->
  map v_kind (list_set V vj v') = map v_kind V.
Proof. intros N E. rewrite map_list_set. apply list_set_same. rewrite E. apply map_nth_error. exact N. Qed.

Lemma InvC_value_vec K vm s H V S vj v v' t k : InvC K vm s H V S -> nth_error V vj = Some v -> v_kind v = VKValue t k ->
  v_kind v' = v_kind v -> InvC K vm s H (list_set V vj v') S.
Proof.
  intros (IH & IS & IV) N KV E. split; [|split]; auto.
  - rewrite (map_kind_list_set _ _ _ _ N E). exact IS.
  - destruct IV as (A & B & C). split; [|split]; auto. intros vi av vj0 H1 H2.
    destruct (C _ _ _ H1 H2) as (v0 & N0 & R0). exists v0. split; auto.
    rewrite LocalFacts.nth_error_list_set_neq; auto. intros ->. rewrite N in N0. inversion N0; subst.
    destruct R0 as (_ & KH & _). congruence.
Qed.

Lemma InvC_hist_vec K vm s H V S vi vj v av' v' : InvC K vm s H V S -> nth_error vm vi = Some vj -> nth_error V vj = Some v ->
  v_kind v' = v_kind v -> vrel K (length (ss_h s)) av' v' ->
  InvC K vm (mkSS (ss_h s) (list_set (ss_v s) vi av') (ss_slots s)) H (list_set V vj v') S.
Proof.
  intros (IH & IS & IV) NM N E R. unfold InvC; cbn [ss_h ss_v ss_slots]. split; [|split]; auto.
  - rewrite (map_kind_list_set _ _ _ _ N E). exact IS.
  - destruct IV as (A & B & C). split; [|split]; auto.
    + rewrite length_list_set. exact A.
    + intros vi0 av0 vj0 H1 H2. destruct (Nat.eq_dec vi0 vi) as [->|D].
      * rewrite NM in H2. inversion H2; subst vj0.
        assert (L : (vi < length (ss_v s))%nat) by (rewrite <- A; apply nth_error_Some; congruence).
        destruct (nth_error (ss_v s) vi) as [avo|] eqn:EO; [|apply nth_error_None in EO; lia].
        rewrite (LocalFacts.nth_error_list_set_eq _ _ _ _ EO) in H1. inversion H1; subst av0.
        exists v'. split; auto. eapply LocalFacts.nth_error_list_set_eq; eauto.
      * rewrite LocalFacts.nth_error_list_set_neq in H1 by auto.
        destruct (C _ _ _ H1 H2) as (v0 & N0 & R0). exists v0. split; auto.
        rewrite LocalFacts.nth_error_list_set_neq; auto. intros ->.
        apply D. rewrite NoDup_nth_error in B. apply B; [apply nth_error_Some; congruence|congruence].
Qed.

(* ---------- reading the relation ---------- *)
Lemma Inv_hist K vm s w i : Inv K vm s w -> (i < length (map ah_bounds (ss_h s)))%nat ->
  (i < length (ss_h s))%nat /\ nth_error (ss_h s) i = Some (ss_hist s i)
  /\ exists h, nth_error (w_h w) i = Some h /\ hrel (ss_hist s i) h.
Proof.
  intros (IH & _) L. rewrite map_length in L. split; auto.
  assert (N : nth_error (ss_h s) i = Some (ss_hist s i)) by (apply nth_nth_error; auto). split; auto.
  destruct (Forall2_nth_error _ _ _ _ _ IH N) as (h & Nh & R). eauto.
Qed.

Lemma Inv_hist_bs K vm s w i bs : Inv K vm s w -> nth_error (map ah_bounds (ss_h s)) i = Some bs ->
  (i < length (map ah_bounds (ss_h s)))%nat /\ bs = ah_bounds (ss_hist s i).
Proof.
  intros I N. assert (L : (i < length (map ah_bounds (ss_h s)))%nat) by (apply nth_error_Some; congruence). split; auto.
  destruct (Inv_hist _ _ _ _ _ I L) as (_ & E & _). rewrite (map_nth_error _ _ _ E) in N. inversion N; auto.
Qed.

Lemma bounds_of_hist w i h : nth_error (w_h w) i = Some h -> bounds_of w i = hc_bounds h.
Proof. intros N. unfold bounds_of. rewrite N. reflexivity. Qed.

Definition Sim K s w o : Prop :=
  forall s' b, sstep s o (snd (step w o)) = Some (s', b) -> b = true /\ exists vm', Inv K vm' s' (fst (step w o)).

Ltac same_state I := let E := fresh in intros ? ? E; inversion E; subst; clear E; split; [reflexivity|eexists; exact I].

(* ---------- OpHistogram ---------- *)
Lemma hopts_valid_err ho e : hopts_valid ho = true -> hcore_new ho [] = Err e -> check_and_adjust_buckets (ho_buckets ho) = None.
Proof.
  unfold hopts_valid, hcore_new. destruct (hopts_describe ho) as [d|]; [|discriminate].
  rewrite andb_true_iff, negb_true_iff. intros [L V]. rewrite L. unfold make_label_pairs.
  destruct (d_vars d); [|discriminate]. cbn [lenN length N.of_nat is_nil andb negb]. rewrite N.eqb_refl. cbn [negb].
  destruct (d_const_pairs d); cbn [is_nil]; destruct (check_and_adjust_buckets (ho_buckets ho)); auto; discriminate.
Qed.

Lemma sim_histogram K vm s w ho : Inv K vm s w -> Sim K s w (OpHistogram ho).
Proof.
  intros I s' b. unfold step. destruct (hcore_new ho []) as [c|e] eqn:E; cbn [fst snd sstep is_ok is_res andb].
  - intros Q; inversion Q; subst; clear Q. destruct (hcore_new_fresh _ _ _ E) as (bs & C & _).
    rewrite (acceptable_true _ _ C). split; [apply orb_true_r|]. exists vm.
    unfold Inv; cbn [push_slot set_h set_slots w_h w_vec w_slots].
    apply InvC_push; [apply InvC_new_hist; [exact I|eapply hrel_fresh; eauto]|].
    cbn [ss_h srel]. rewrite (Inv_len_h _ _ _ _ _ _ I). split; auto. rewrite map_length, app_length. cbn. lia.
  - intros Q; inversion Q; subst; clear Q. split.
    + destruct (hopts_valid ho) eqn:V; [|reflexivity]. cbn [negb orb].
      rewrite (acceptable_false _ (hopts_valid_err _ _ V E)). reflexivity.
    + exists vm. unfold Inv; cbn [push_slot set_slots w_h w_vec w_slots]. apply InvC_push; [exact I|reflexivity].
Qed.

(* ---------- OpObserve ---------- *)
Lemma sim_observe K vm s w sl v : Inv K vm s w -> N.of_nat (held s) + 1 < two64 -> Sim K s w (OpObserve sl v).
Proof.
  intros I BD. pose proof (Inv_slot _ _ _ _ sl I) as SR. unfold Sim, step. cbn [sstep].
  destruct (ss_slot s sl) eqn:ES; cbn [srel] in SR.
  - rewrite SR. same_state I.
  - destruct (slot w sl); try contradiction; same_state I.
  - destruct SR as [-> L]. destruct (Inv_hist _ _ _ _ _ I L) as (L' & NS & h & NH & R).
    cbn [fst snd]. intros s' b Q; inversion Q; subst; clear Q. split; [reflexivity|]. exists vm.
    unfold Inv; cbn [set_h w_h w_vec w_slots]. rewrite (upd_as_set _ _ _ _ NH).
    apply InvC_set_hist; auto.
    apply hrel_observe; auto. pose proof (olen_le_held s i). unfold olen in *. lia.
  - destruct SR as (vj & _ & ->). same_state I.
  - destruct SR as (bs & NB & -> & -> & LP). destruct (Inv_hist_bs _ _ _ _ _ _ I NB) as (L & ->).
    destruct (Inv_hist _ _ _ _ _ I L) as (L' & NS & h & NH & R).
    cbn [fst snd]. intros s' b Q; inversion Q; subst; clear Q. split; [reflexivity|]. exists vm.
    unfold Inv; cbn [put_slot set_slots w_h w_vec w_slots]. apply InvC_put; [exact I|].
    cbn [srel]. exists (ah_bounds (ss_hist s i)). split; auto.
    rewrite (bounds_of_hist _ _ _ NH), (hrel_bounds _ _ R). unfold local_of, batch_sum. rewrite !fold_snoc.
    repeat split; auto. rewrite app_length. cbn [length].
    pose proof (plen_le_held s sl) as PL. rewrite ES in PL. cbn [plen] in PL. lia.
Qed.

(* ---------- more plumbing ---------- *)
Lemma list_set_nth_any {A} (l : list A) i d : list_set l i (nth i l d) = l.
Proof. revert i. induction l; intros [|i]; cbn; auto. f_equal; auto. Qed.

Lemma sstate_eta s : mkSS (ss_h s) (ss_v s) (ss_slots s) = s.
Proof. destruct s; reflexivity. Qed.

Lemma InvC_put_same K vm s H V S sl h : InvC K vm s H V S -> srel (map ah_bounds (ss_h s)) vm (map v_kind V) (ss_slot s sl) h ->
  InvC K vm s H V (list_set S sl h).
Proof.
  intros I R. pose proof (InvC_put _ _ _ _ _ _ sl _ _ I R) as P.
  unfold ss_put, ss_slot in P. rewrite list_set_nth_any, sstate_eta in P. exact P.
Qed.

Lemma InvC_kill_dead K vm s H V S sl : InvC K vm s H V S -> nth sl S HDead = HDead -> InvC K vm (ss_put s sl ADead) H V S.
Proof.
  intros I E. pose proof (InvC_put _ _ _ _ _ _ sl ADead HDead I eq_refl) as P.
  rewrite <- E, list_set_nth_any in P. exact P.
Qed.

Lemma Forall2_list_set_r {A B} (R : A -> B -> Prop) l l' i x y :
  Forall2 R l l' -> nth_error l i = Some x -> R x y -> Forall2 R l (list_set l' i y).
Proof.
  intros F. revert i. induction F; intros [|i] HN Rxy; cbn in *; try discriminate.
  - inversion HN; subst. constructor; auto.
  - constructor; auto.
Qed.

Lemma bounds_set_hist s i a' : ah_bounds a' = ah_bounds (ss_hist s i) -> (i < length (ss_h s))%nat ->
  map ah_bounds (ss_h (ss_set_hist s i a')) = map ah_bounds (ss_h s).
Proof. intros E L. cbn. apply (map_list_set_same ah_bounds (ss_h s) i a' ah_dummy E L). Qed.

Lemma Inv_wcollected K vm s w w' : Inv K vm s w -> wcollected w w' -> length (w_h w') = length (w_h w) -> Inv K vm s w'.
Proof.
  intros (IH & IS & IV) (_ & EV & _ & ES & HC) L. unfold Inv, InvC. rewrite EV, ES. split; [|split]; auto.
  apply Forall2_pointwise; [rewrite L; eapply Forall2_len; eauto|].
  intros i a h' Na Nh'. destruct (Forall2_nth_error _ _ _ _ _ IH Na) as (h & Nh & R).
  destruct (HC _ _ Nh) as (h2 & N2 & CS). rewrite Nh' in N2. inversion N2; subst. eapply hrel_cstar; eauto.
Qed.

Lemma Inv_collect_collector K vm s w c fs w' : Inv K vm s w -> collect_collector w c = Some (fs, w') -> Inv K vm s w'.
Proof.
  intros I E. eapply Inv_wcollected; eauto.
  - eapply LocalFacts.collect_collector_frame; eauto.
  - apply C05Facts.collect_collector_frame in E. apply E.
Qed.
Lemma Inv_collect_all K vm s w cs fs w' : Inv K vm s w -> collect_all w cs = Some (fs, w') -> Inv K vm s w'.
Proof.
  intros I E. eapply Inv_wcollected; eauto.
  - eapply LocalFacts.collect_all_frame; eauto.
  - apply C05Facts.collect_all_frame in E. apply E.
Qed.

(* a frame: only value cores / registries changed *)
Lemma Inv_frame K vm s w w' : Inv K vm s w -> w_h w' = w_h w -> w_vec w' = w_vec w -> w_slots w' = w_slots w -> Inv K vm s w'.
Proof. unfold Inv. intros I -> -> ->. exact I. Qed.

Lemma local_sum bs p : N.of_nat (length p) < two64 -> lh_sum (local_of bs p) = batch_sum p.
Proof. intros L. rewrite local_of_spec by auto. reflexivity. Qed.
Lemma local_count bs p : N.of_nat (length p) < two64 -> lh_count (local_of bs p) = N.of_nat (length p).
Proof. intros L. rewrite local_of_spec by auto. reflexivity. Qed.

(* ---------- OpSampleSum / OpSampleCount ---------- *)
Lemma sim_sample_sum K vm s w sl : Inv K vm s w -> Sim K s w (OpSampleSum sl).
Proof.
  intros I. pose proof (Inv_slot _ _ _ _ sl I) as SR. unfold Sim, step. cbn [sstep].
  destruct (ss_slot s sl) eqn:ES; cbn [srel] in SR.
  - rewrite SR. same_state I.
  - destruct (slot w sl); try contradiction; same_state I.
  - destruct SR as [-> L]. destruct (Inv_hist _ _ _ _ _ I L) as (L' & NS & h & NH & R). rewrite NH. cbn [fst snd].
    intros s' b Q; inversion Q; subst; clear Q. split; [|eexists; exact I]. rewrite (hrel_sum _ _ R). apply f64_eqb_refl.
  - destruct SR as (vj & _ & ->). same_state I.
  - destruct SR as (bs & NB & -> & -> & LP). cbn [fst snd].
    intros s' b Q; inversion Q; subst; clear Q. split; [|eexists; exact I]. rewrite local_sum by auto. apply f64_eqb_refl.
Qed.

Lemma sim_sample_count K vm s w sl : Inv K vm s w -> Sim K s w (OpSampleCount sl).
Proof.
  intros I. pose proof (Inv_slot _ _ _ _ sl I) as SR. unfold Sim, step. cbn [sstep].
  destruct (ss_slot s sl) eqn:ES; cbn [srel] in SR.
  - rewrite SR. same_state I.
  - destruct (slot w sl); try contradiction; same_state I.
  - destruct SR as [-> L]. destruct (Inv_hist _ _ _ _ _ I L) as (L' & NS & h & NH & R). rewrite NH. cbn [fst snd].
    intros s' b Q; inversion Q; subst; clear Q. split; [|eexists; exact I]. rewrite (hrel_count _ _ R). apply N.eqb_refl.
  - destruct SR as (vj & _ & ->). same_state I.
  - destruct SR as (bs & NB & -> & -> & LP). cbn [fst snd].
    intros s' b Q; inversion Q; subst; clear Q. split; [|eexists; exact I]. rewrite local_count by auto. apply N.eqb_refl.
Qed.

(* ---------- OpLocal ---------- *)
Lemma sim_local K vm s w sl : Inv K vm s w -> Sim K s w (OpLocal sl).
Proof.
  intros I. pose proof (Inv_slot _ _ _ _ sl I) as SR. unfold Sim, step. cbn [sstep].
  destruct (ss_slot s sl) eqn:ES; cbn [srel] in SR; try (intros ? ? Q; discriminate Q).
  - rewrite SR. cbn [fst snd]. intros s' b Q; inversion Q; subst; clear Q. split; [reflexivity|]. exists vm.
    apply InvC_push; [exact I|reflexivity].
  - intros s' b Q.
    assert (E : s' = ss_push s AOther /\ b = true) by (destruct (slot w sl); inversion Q; auto). destruct E as [-> ->]. clear Q.
    split; [reflexivity|]. exists vm.
    destruct (slot w sl) eqn:HS; try contradiction; cbn [fst snd];
      try (apply InvC_push; [exact I|exact Logic.I]).
    + destruct (nth_error (w_v w) c); apply InvC_push; try exact I; exact Logic.I.
    + destruct SR as (t & k & NK). apply nth_error_map_some in NK as (v0 & NV & KV). rewrite NV, KV.
      apply InvC_push; [exact I|exact Logic.I].
  - destruct SR as [-> L]. destruct (Inv_hist _ _ _ _ _ I L) as (L' & NS & h & NH & R). cbn [fst snd].
    intros s' b Q; inversion Q; subst; clear Q. split; [reflexivity|]. exists vm.
    apply InvC_push; [exact I|]. cbn [srel]. exists (ah_bounds (ss_hist s i)). split; [apply map_nth_error; auto|].
    rewrite (bounds_of_hist _ _ _ NH), (hrel_bounds _ _ R). repeat split; reflexivity.
Qed.

(* ---------- OpFlush / OpClear / OpDrop / OpClone ---------- *)
(* the world after handing a local batch over, and the abstract state after the same *)
Lemma Inv_flush K vm s w i p :
  Inv K vm s w -> (i < length (map ah_bounds (ss_h s)))%nat -> N.of_nat (length (ah_obs (ss_hist s i)) + length p) < two64 ->
  InvC K vm (ss_set_hist s i (ah_batch (ss_hist s i) p (batch_sum p)))
       (w_h (flush_lh w i (local_of (ah_bounds (ss_hist s i)) p))) (w_vec w) (w_slots w)
  /\ map ah_bounds (ss_h (ss_set_hist s i (ah_batch (ss_hist s i) p (batch_sum p)))) = map ah_bounds (ss_h s).
Proof.
  intros I L BD. destruct (Inv_hist _ _ _ _ _ I L) as (L' & NS & h & NH & R).
  assert (EB : ah_bounds (ah_batch (ss_hist s i) p (batch_sum p)) = ah_bounds (ss_hist s i)) by (destruct p; reflexivity).
  split; [|apply bounds_set_hist; auto].
  unfold flush_lh; cbn [set_h w_h]. rewrite (upd_as_set _ _ _ _ NH). apply InvC_set_hist; auto. apply hrel_batch; auto.
Qed.

Lemma sim_flush K vm s w sl : Inv K vm s w -> N.of_nat (held s) + 1 < two64 -> Sim K s w (OpFlush sl).
Proof.
  intros I BD. pose proof (Inv_slot _ _ _ _ sl I) as SR. unfold Sim, step. cbn [sstep].
  destruct (ss_slot s sl) eqn:ES; cbn [srel] in SR.
  - rewrite SR. same_state I.
  - intros s' b Q. inversion Q; subst; clear Q. split; [reflexivity|]. exists vm.
    destruct (slot w sl) eqn:HS; try contradiction; cbn [fst snd]; try exact I.
    + destruct (num_is_zero val); cbn [fst snd]; [exact I|]. unfold Inv; cbn [put_slot set_slots set_v w_h w_vec w_slots].
      apply InvC_put_same; [exact I|]. rewrite ES. exact Logic.I.
    + destruct (cv_flush_fold_frame cache w) as (EH & ESl & EV & _). cbv zeta in *.
      unfold Inv; cbn [put_slot set_slots w_h w_vec w_slots].
      match goal with |- InvC _ _ _ (w_h ?W) _ _ => change W with (fold_left cv_flush1 cache w) end. rewrite EH, ESl, EV.
      apply InvC_put_same; [exact I|]. rewrite ES. exact Logic.I.
  - destruct SR as [-> L]. same_state I.
  - destruct SR as (vj & _ & ->). same_state I.
  - destruct SR as (bs & NB & -> & -> & LP). destruct (Inv_hist_bs _ _ _ _ _ _ I NB) as (L & ->). cbn [fst snd].
    intros s' b Q; inversion Q; subst; clear Q. split; [reflexivity|]. exists vm.
    destruct (Inv_flush K vm s w i pending I L) as (J & EB).
    { pose proof (both_le_held s i sl) as PL. rewrite ES in PL. unfold olen in PL. cbn [plen] in PL. lia. }
    unfold Inv; cbn [put_slot set_slots w_h w_vec w_slots]. change (w_vec (flush_lh w i ?l)) with (w_vec w).
    apply InvC_put; [exact J|]. rewrite EB. cbn [srel]. exists (ah_bounds (ss_hist s i)). split; auto.
    rewrite local_clear. repeat split; reflexivity.
Qed.

Lemma sim_clear K vm s w sl : Inv K vm s w -> Sim K s w (OpClear sl).
Proof.
  intros I. pose proof (Inv_slot _ _ _ _ sl I) as SR. unfold Sim, step. cbn [sstep].
  destruct (ss_slot s sl) eqn:ES; cbn [srel] in SR.
  - rewrite SR. same_state I.
  - intros s' b Q. inversion Q; subst; clear Q. split; [reflexivity|]. exists vm.
    destruct (slot w sl) eqn:HS; try contradiction; cbn [fst snd]; try exact I.
    unfold Inv; cbn [put_slot set_slots w_h w_vec w_slots]. apply InvC_put_same; [exact I|]. rewrite ES. exact Logic.I.
  - destruct SR as [-> L]. same_state I.
  - destruct SR as (vj & _ & ->). same_state I.
  - destruct SR as (bs & NB & -> & -> & LP). cbn [fst snd].
    intros s' b Q; inversion Q; subst; clear Q. split; [reflexivity|]. exists vm.
    unfold Inv; cbn [put_slot set_slots w_h w_vec w_slots]. apply InvC_put; [exact I|].
    cbn [srel]. exists bs. split; auto. rewrite local_clear. repeat split; reflexivity.
Qed.

Lemma sim_drop K vm s w sl : Inv K vm s w -> N.of_nat (held s) + 1 < two64 -> Sim K s w (OpDrop sl).
Proof.
  intros I BD. pose proof (Inv_slot _ _ _ _ sl I) as SR. unfold Sim, step. cbn [sstep].
  destruct (ss_slot s sl) eqn:ES; cbn [srel] in SR.
  - rewrite SR. same_state I.
  - intros s' b Q. inversion Q; subst; clear Q. split; [reflexivity|]. exists vm.
    destruct (slot w sl) eqn:HS; try contradiction; cbn [fst snd];
      try (unfold Inv; cbn [put_slot set_slots w_h w_vec w_slots]; apply InvC_put; [exact I|reflexivity]).
    apply InvC_kill_dead; [exact I|exact HS].
  - destruct SR as [-> L]. cbn [fst snd]. intros s' b Q. inversion Q; subst; clear Q. split; [reflexivity|]. exists vm.
    unfold Inv; cbn [put_slot set_slots w_h w_vec w_slots]; apply InvC_put; [exact I|reflexivity].
  - destruct SR as (vj & _ & ->). cbn [fst snd]. intros s' b Q. inversion Q; subst; clear Q. split; [reflexivity|]. exists vm.
    unfold Inv; cbn [put_slot set_slots w_h w_vec w_slots]; apply InvC_put; [exact I|reflexivity].
  - destruct SR as (bs & NB & -> & -> & LP). destruct (Inv_hist_bs _ _ _ _ _ _ I NB) as (L & ->). cbn [fst snd].
    intros s' b Q; inversion Q; subst; clear Q. split; [reflexivity|]. exists vm.
    destruct (Inv_flush K vm s w i pending I L) as (J & EB).
    { pose proof (both_le_held s i sl) as PL. rewrite ES in PL. unfold olen in PL. cbn [plen] in PL. lia. }
    unfold Inv; cbn [put_slot set_slots w_h w_vec w_slots]. change (w_vec (flush_lh w i ?l)) with (w_vec w).
    apply InvC_put; [exact J|reflexivity].
Qed.

Lemma sim_clone K vm s w sl : Inv K vm s w -> Sim K s w (OpClone sl).
Proof.
  intros I. pose proof (Inv_slot _ _ _ _ sl I) as SR. unfold Sim, step. cbn [sstep].
  destruct (ss_slot s sl) eqn:ES; cbn [srel] in SR.
  - rewrite SR. cbn [fst snd]. intros s' b Q. inversion Q; subst; clear Q. split; [reflexivity|]. exists vm.
    apply InvC_push; [exact I|reflexivity].
  - intros s' b Q. inversion Q; subst; clear Q. split; [reflexivity|]. exists vm.
    destruct (slot w sl) eqn:HS; try contradiction; cbn [fst snd]; (apply InvC_push; [exact I|]); try exact Logic.I. exact SR.
  - destruct SR as [-> L]. cbn [fst snd]. intros s' b Q. inversion Q; subst; clear Q. split; [reflexivity|]. exists vm.
    apply InvC_push; [exact I|]. split; auto.
  - destruct SR as (vj & NM & ->). cbn [fst snd]. intros s' b Q. inversion Q; subst; clear Q. split; [reflexivity|]. exists vm.
    apply InvC_push; [exact I|]. exists vj. auto.
  - destruct SR as (bs & NB & -> & -> & LP). cbn [fst snd].
    intros s' b Q; inversion Q; subst; clear Q. split; [reflexivity|]. exists vm.
    apply InvC_push; [exact I|]. cbn [srel]. exists bs. split; auto. rewrite local_clear. repeat split; reflexivity.
Qed.

(* ---------- OpCollect ---------- *)
Lemma collect_children_sim bs cs : forall w A, Forall2 hrel A (w_h w) -> Forall (fun c => (c < length A)%nat) (map snd cs) ->
  exists ms w', collect_children w (VKHist bs) cs = Some (ms, w') /\ Forall2 hrel A (w_h w')
    /\ w_vec w' = w_vec w /\ w_slots w' = w_slots w
    /\ Forall2 (fun c m => exists p, m_histogram m = Some p /\ hist_ok (nth c A ah_dummy) p = true) (map snd cs) ms.
Proof.
  induction cs as [|[k c] r IH]; intros w A F L; cbn [collect_children map snd].
  - exists [], w. repeat split; auto.
  - cbn [map snd] in L. inversion L as [|? ? Lc Lr]; subst.
    assert (NA : nth_error A c = Some (nth c A ah_dummy)) by (apply nth_nth_error; auto).
    destruct (Forall2_nth_error _ _ _ _ _ F NA) as (h & NH & R).
    destruct (hrel_metric _ _ R) as (m & h' & HM & R' & p & MP & OK).
    unfold collect_hist. rewrite NH, HM.
    destruct (IH (set_h w (list_set (w_h w) c h')) A) as (ms & w' & CC & F' & EV & ES & FM); auto.
    { cbn [set_h w_h]. eapply Forall2_list_set_r; eauto. }
    rewrite CC. exists (m :: ms), w'. repeat split; auto. constructor; eauto.
Qed.

Lemma all_matched_ordered exp ms :
  Forall2 (fun a m => exists p, m_histogram m = Some p /\ hist_ok a p = true) exp ms ->
  exists hs, opt_all (map m_histogram ms) = Some hs /\ all_matched exp hs = true.
Proof.
  induction 1 as [|a m exp ms (p & MP & OK) F (hs & OA & AM)]; cbn [map opt_all all_matched].
  - exists []. auto.
  - rewrite MP, OA. exists (p :: hs). split; auto. cbn [take_matching]. rewrite OK. exact AM.
Qed.

Lemma Forall2_map_l {A A' B} (f : A -> A') (P : A' -> B -> Prop) l ms :
  Forall2 (fun c m => P (f c) m) l ms -> Forall2 P (map f l) ms.
Proof. induction 1; cbn; constructor; auto. Qed.
Lemma Forall2_map_l_inv {A A' B} (f : A -> A') (P : A' -> B -> Prop) l ms :
  Forall2 P (map f l) ms -> Forall2 (fun c m => P (f c) m) l ms.
Proof. revert ms. induction l; intros ms H; inversion H; subst; constructor; auto. Qed.

Lemma map_snd_hk l : map snd (map hk l) = map snd l.
Proof. rewrite map_map. reflexivity. Qed.

Lemma Inv_vec K vm s w vi vj : Inv K vm s w -> nth_error vm vi = Some vj ->
  exists av v, nth_error (ss_v s) vi = Some av /\ nth vi (ss_v s) (mkAV [] 0 []) = av /\ nth_error (w_vec w) vj = Some v
               /\ vrel K (length (ss_h s)) av v.
Proof.
  intros (_ & _ & (A & B & C)) NM.
  assert (L : (vi < length (ss_v s))%nat) by (rewrite <- A; apply nth_error_Some; congruence).
  destruct (nth_error (ss_v s) vi) as [av|] eqn:E; [|apply nth_error_None in E; lia].
  destruct (C _ _ _ E NM) as (v & NV & R). exists av, v. split; [reflexivity|]. split; [eapply nth_error_nth'; eauto|]. split; auto.
Qed.

Lemma sim_collect K vm s w sl : Inv K vm s w -> Sim K s w (OpCollect sl).
Proof.
  intros I. pose proof (Inv_slot _ _ _ _ sl I) as SR. unfold Sim, step. cbn [sstep].
  destruct (ss_slot s sl) eqn:ES; cbn [srel] in SR.
  1,2,5: intros s' b Q; inversion Q; subst; clear Q; split; [reflexivity|]; exists vm;
    destruct (collector_of w (slot w sl)) as [[c ds]|]; [destruct (collect_collector w c) as [[fs w']|] eqn:CC|];
    cbn [fst snd]; eauto using Inv_collect_collector.
  - destruct SR as [-> L]. destruct (Inv_hist _ _ _ _ _ I L) as (L' & NS & h & NH & R).
    destruct (hrel_metric _ _ R) as (m & h' & HM & R' & p & MP & OK).
    unfold collector_of. rewrite NH. unfold collect_collector, collect_hist. rewrite NH, HM. cbn [fst snd hist_family mf_metric].
    intros s' b Q; inversion Q; subst; clear Q. rewrite MP. split; [exact OK|]. exists vm.
    unfold Inv; cbn [set_h w_h w_vec w_slots]. eapply InvC_cores; [exact I|]. eapply Forall2_list_set_r; eauto. apply I.
  - destruct SR as (vj & NM & ->). destruct (Inv_vec _ _ _ _ _ _ I NM) as (av & vc & NA & NA' & NV & (C & KD & NL & CH & FK & AC)).
    unfold collector_of. rewrite NV. unfold collect_collector. rewrite NV, KD, CH.
    destruct (collect_children_sim (av_buckets av) (map hk (av_children av)) w (ss_h s)) as (ms & w' & CC & F' & EV & ESl & FM).
    { apply I. }
    { rewrite map_snd_hk. apply Forall_map. eapply Forall_impl; [|exact FK]. intros kc [_ J]. exact J. }
    rewrite CC. cbn [fst snd mf_metric]. intros s' b Q; inversion Q; subst s' b; clear Q. rewrite NA'.
    rewrite map_snd_hk in FM.
    destruct (all_matched_ordered (map (fun c => ss_hist s (snd c)) (av_children av)) ms) as (hs & OA & AM).
    { apply Forall2_map_l. apply Forall2_map_l_inv in FM. exact FM. }
    rewrite OA. split; [exact AM|]. exists vm. unfold Inv. rewrite EV, ESl. eapply InvC_cores; [exact I|exact F'].
Qed.

(* ---------- OpHistVec ---------- *)
Lemma coherent_vars v : coherent v -> d_vars (v_desc v) = o_vars (v_opts v).
Proof.
  intros [D _]. unfold describe in D. apply desc_new_inv in D as (_ & _ & _ & names & _ & E). rewrite E. reflexivity.
Qed.

Lemma sim_hist_vec K vm s w ho labels : Inv K vm s w -> Sim K s w (OpHistVec ho labels).
Proof.
  intros I s' b. unfold step. destruct (vec_create _ _) as [v|e] eqn:E; cbn [fst snd sstep is_ok is_res].
  - intros Q; inversion Q; subst; clear Q. split; [reflexivity|]. exists (vm ++ [length (w_vec w)]).
    apply vec_create_inv in E as (C & EO & KD & CH).
    unfold Inv; cbn [push_slot set_vec set_slots w_h w_vec w_slots].
    apply InvC_push.
    + apply InvC_new_hist_vec; [exact I|]. unfold vrel; cbn [av_buckets av_nlabels av_children].
      rewrite CH, (coherent_vars _ C), EO. cbn. repeat split; auto; apply C.
    + cbn [srel ss_v]. exists (length (w_vec w)). split; auto.
      destruct I as (_ & _ & (A & _)). rewrite <- A, nth_error_app2, Nat.sub_diag; auto.
  - intros Q; inversion Q; subst; clear Q. split; [reflexivity|]. exists vm.
    unfold Inv; cbn [push_slot set_slots w_h w_vec w_slots]. apply InvC_push; [exact I|reflexivity].
Qed.

(* ---------- OpWith ---------- *)
Definition nocoll (K : list (list str)) : Prop :=
  forall a b, In a K -> In b K -> fnv1a (enc_sep a) = fnv1a (enc_sep b) -> a = b.

Lemma strs_eqb_eq a b : strs_eqb a b = true <-> a = b.
Proof.
  unfold strs_eqb. revert b. induction a as [|x a IH]; intros [|y b]; cbn [list_eqb]; split; intros H; try discriminate; auto.
  - apply andb_true_iff in H as [H1 H2]. apply str_eqb_eq in H1. apply IH in H2. congruence.
  - inversion H; subst. rewrite str_eqb_refl. apply IH. reflexivity.
Qed.

Lemma lookup_agree K vals nh l : nocoll K -> In vals K -> Forall (fun kc => In (fst kc) K /\ (snd kc < nh)%nat) l ->
  nlookup (fnv1a (enc_sep vals)) (map hk l) = child_lookup vals l.
Proof.
  intros NC IK. induction 1 as [|[k c] t [IK' _] F IH]; [reflexivity|].
  cbn [map hk fst snd nlookup child_lookup]. rewrite IH.
  replace (fnv1a (enc_sep vals) =? fnv1a (enc_sep k)) with (strs_eqb vals k); [reflexivity|].
  apply eq_true_iff_eq. rewrite strs_eqb_eq, N.eqb_eq. split; [intros ->; reflexivity|apply NC; auto].
Qed.

Lemma child_lookup_In vals l c : child_lookup vals l = Some c -> exists k, In (k, c) l.
Proof.
  induction l as [|[k i] t IH]; cbn [child_lookup]; [discriminate|]. destruct (strs_eqb vals k).
  - intros H; inversion H; subst. exists k. left; auto.
  - intros H. destruct (IH H) as (k' & J). exists k'. right; auto.
Qed.

Lemma hrel_fresh_core bs0 bs d ls : check_and_adjust_buckets bs0 = Some bs -> hrel (mkAH (configured bs0) [] f_zero) (fresh_hcore d ls bs).
Proof.
  intros C. rewrite (configured_is_adjusted _ _ C). unfold hrel; cbn [ah_bounds ah_obs ah_sum].
  split; [apply (check_and_adjust_accepted _ _ C)|]. split; [reflexivity|].
  exists []. split; [apply inv_fresh; unfold fresh_core, fresh_hcore; cbn; auto|]. split; reflexivity.
Qed.

Lemma build_child_hist_none w v t bs0 : v_kind v = VKHist bs0 -> coherent v -> length t = length (d_vars (v_desc v)) ->
  check_and_adjust_buckets bs0 = None -> build_child w v t = Err EMsg.
Proof.
  intros KD [D L] E B. unfold build_child, hcore_new, hopts_describe. rewrite KD. cbn [ho_common ho_buckets]. rewrite D.
  rewrite L by (rewrite KD; reflexivity). rewrite make_label_pairs_ok; auto; [|eapply describe_const_sorted; eauto].
  rewrite B. reflexivity.
Qed.

Lemma vgoc_value w vj h vals w' hd v0 t k : nth_error (w_vec w) vj = Some v0 -> v_kind v0 = VKValue t k ->
  vec_get_or_create w vj h vals = Ok (w', hd) ->
  (exists c, hd = HValue c) /\ w_h w' = w_h w /\ w_slots w' = w_slots w
  /\ (w_vec w' = w_vec w \/ exists ch, w_vec w' = list_set (w_vec w) vj (vec_set_children v0 ch)).
Proof.
  intros NV KV. unfold vec_get_or_create. rewrite NV. destruct (nlookup h (v_children v0)) as [c|].
  - intros Q; inversion Q; subst. unfold child_handle. rewrite KV. repeat split; eauto.
  - unfold build_child. rewrite KV. destruct (value_new _ _ _ _) as [c0|]; [|discriminate].
    intros Q; inversion Q; subst. cbn. repeat split; eauto.
Qed.

Lemma sim_with K vm s w sl vals : nocoll K -> In vals K -> Inv K vm s w -> Sim K s w (OpWith sl vals).
Proof.
  intros NC IK I. pose proof (Inv_slot _ _ _ _ sl I) as SR. unfold Sim, step. cbn [sstep].
  destruct (ss_slot s sl) eqn:ES; cbn [srel] in SR; try (intros ? ? Q; discriminate Q).
  - rewrite SR. cbn [fst snd]. intros s' b Q; inversion Q; subst; clear Q. split; [reflexivity|]. exists vm.
    apply InvC_push; [exact I|reflexivity].
  - intros s' b Q. inversion Q; subst; clear Q. split; [reflexivity|]. exists vm.
    destruct (slot w sl) eqn:HS; try contradiction; cbn [fst snd]; try (apply InvC_push; [exact I|exact Logic.I]).
    destruct SR as (t & k & NK). apply nth_error_map_some in NK as (v0 & NV & KV). rewrite NV.
    destruct (hash_label_values (v_desc v0) vals) as [h|e]; cbn [fst snd]; [|apply InvC_push; [exact I|exact Logic.I]].
    destruct (vec_get_or_create w v h vals) as [[w' hd]|e] eqn:G; cbn [fst snd]; [|apply InvC_push; [exact I|exact Logic.I]].
    destruct (vgoc_value _ _ _ _ _ _ _ _ _ NV KV G) as ((c & ->) & EH & ESl & EV).
    unfold Inv; cbn [push_slot set_slots w_h w_vec w_slots]. rewrite EH, ESl.
    apply InvC_push; [|exact Logic.I]. destruct EV as [->|(ch & ->)]; [exact I|].
    eapply InvC_value_vec; eauto.
  - destruct SR as (vj & NM & ->). destruct (Inv_vec _ _ _ _ _ _ I NM) as (av & vc & NA & NA' & NV & (C & KD & NL & CH & FK & AC)).
    rewrite NV, NA'.
    destruct (Nat.eq_dec (length vals) (length (d_vars (v_desc vc)))) as [EL|NL'].
    + (* the right number of values *)
      rewrite (hash_label_values_ok _ _ EL). unfold label_values_preimage, vec_get_or_create. rewrite NV, CH.
      rewrite (lookup_agree K vals (length (ss_h s)) (av_children av) NC IK FK).
      assert (J : Nat.eqb (length vals) (av_nlabels av) = true) by (apply Nat.eqb_eq; congruence).
      destruct (child_lookup vals (av_children av)) as [c|] eqn:CL.
      * (* existing child *)
        unfold child_handle. rewrite KD. cbn [fst snd is_ok is_res]. rewrite ?CL.
        intros s' b Q; inversion Q; subst s' b; clear Q. split.
        { rewrite J. destruct AC as [AC|AC]; [rewrite AC in CL; discriminate|]. rewrite AC. reflexivity. }
        exists vm. unfold Inv; cbn [push_slot set_slots w_h w_vec w_slots]. apply InvC_push; [exact I|].
        cbn [srel]. split; auto. rewrite map_length. destruct (child_lookup_In _ _ _ CL) as (k & IN).
        rewrite Forall_forall in FK. apply (FK _ IN).
      * (* a new child *)
        destruct (check_and_adjust_buckets (av_buckets av)) as [bs|] eqn:CB.
        { rewrite (build_child_hist_ok w vc vals _ bs KD C EL CB). cbn [fst snd is_ok is_res]. rewrite ?CL.
          intros s' b Q; inversion Q; subst s' b; clear Q. split.
          { rewrite (acceptable_true _ _ CB). rewrite orb_true_r. reflexivity. }
          exists vm. unfold Inv; cbn [push_slot set_slots set_vec set_h w_h w_vec w_slots].
          set (a := mkAH (configured (av_buckets av)) [] f_zero).
          set (s1 := mkSS (ss_h s ++ [a]) (ss_v s) (ss_slots s)).
          pose proof (InvC_new_hist _ _ _ _ _ _ a _ I (hrel_fresh_core _ _ (v_desc vc) (child_labels (v_desc vc) vals) CB)) as I1.
          fold s1 in I1.
          apply (InvC_push K vm (mkSS (ss_h s1) (list_set (ss_v s1) v (mkAV (av_buckets av) (av_nlabels av) (av_children av ++ [(vals, length (ss_h s))]))) (ss_slots s1))).
          - eapply InvC_hist_vec; eauto.
            unfold vrel; cbn [av_buckets av_nlabels av_children vec_set_children v_desc v_opts v_kind v_children].
            split; [apply coherent_set_children; exact C|]. split; [exact KD|]. split; [exact NL|]. split.
            { rewrite map_app. cbn [map hk fst snd]. rewrite (Inv_len_h _ _ _ _ _ _ I). reflexivity. }
            split.
            { unfold s1; cbn [ss_h]. rewrite app_length. cbn [length]. apply Forall_app. split.
              - eapply Forall_impl; [|exact FK]. intros kc [A1 A2]. split; auto. lia.
              - constructor; [|constructor]. cbn [fst snd]. split; auto. lia. }
            right. apply (acceptable_true _ _ CB).
          - cbn [srel ss_h]. unfold s1; cbn [ss_h]. rewrite (Inv_len_h _ _ _ _ _ _ I). split; auto.
            rewrite map_length, app_length. cbn [length]. lia. }
        { rewrite (build_child_hist_none w vc vals _ KD C EL CB). cbn [fst snd is_ok is_res].
          intros s' b Q; inversion Q; subst s' b; clear Q. split.
          { rewrite J, (acceptable_false _ CB). reflexivity. }
          exists vm. unfold Inv; cbn [push_slot set_slots w_h w_vec w_slots]. apply InvC_push; [exact I|reflexivity]. }
    + (* wrong cardinality: refused for another reason, not judged *)
      rewrite (hash_label_values_err _ _ NL'). cbn [fst snd is_ok is_res].
      intros s' b Q; inversion Q; subst s' b; clear Q. split.
      { assert (J : Nat.eqb (length vals) (av_nlabels av) = false) by (apply Nat.eqb_neq; congruence). rewrite J. reflexivity. }
      exists vm. unfold Inv; cbn [push_slot set_slots w_h w_vec w_slots]. apply InvC_push; [exact I|reflexivity].
Qed.

(* ---------- constructors of other kinds, operations that cannot touch a histogram ---------- *)
Ltac other_ctor I vm :=
  let Q := fresh "Q" in
  intros ? ? Q; inversion Q; subst; clear Q; split; [reflexivity|]; exists vm;
  unfold step; repeat dmatch; unfold Inv; cbn [fst push_slot set_v set_reg set_slots w_h w_vec w_slots];
  (apply InvC_push; [exact I|exact Logic.I]).

Lemma sim_counter K vm s w k o : Inv K vm s w -> Sim K s w (OpCounter k o).
Proof. intros I. other_ctor I vm. Qed.
Lemma sim_gauge K vm s w k o : Inv K vm s w -> Sim K s w (OpGauge k o).
Proof. intros I. other_ctor I vm. Qed.
Lemma sim_registry K vm s w p l : Inv K vm s w -> Sim K s w (OpRegistry p l).
Proof. intros I. other_ctor I vm. Qed.
Lemma sim_custom K vm s w ds fams : Inv K vm s w -> Sim K s w (OpCustom ds fams).
Proof. intros I. other_ctor I vm. Qed.
Lemma sim_pulling K vm s w n h v : Inv K vm s w -> Sim K s w (OpPulling n h v).
Proof. intros I. other_ctor I vm. Qed.

Lemma sim_value_vec K vm s w o t k : Inv K vm s w ->
  exists vm', Inv K vm' (ss_push s AOther)
    (fst (match vec_create o (VKValue t k) with
          | Ok v => (push_slot (set_vec w (w_vec w ++ [v])) (HVec (length (w_vec w))), ORes (Ok tt))
          | Err e => (push_slot w HDead, ORes (Err e))
          end)).
Proof.
  intros I. exists vm.
  destruct (vec_create o (VKValue t k)) as [v|e] eqn:E; unfold Inv; cbn [fst push_slot set_vec set_slots w_h w_vec w_slots].
  - apply InvC_push; [apply InvC_new_vec; exact I|]. cbn [srel]. apply vec_create_inv in E as (_ & _ & KV & _).
    exists t, k. rewrite map_app, nth_error_app2, map_length, Nat.sub_diag by (rewrite map_length; auto). cbn. congruence.
  - apply InvC_push; [exact I|exact Logic.I].
Qed.
Lemma sim_counter_vec K vm s w k o labels : Inv K vm s w -> Sim K s w (OpCounterVec k o labels).
Proof. intros I s' b Q; inversion Q; subst; clear Q. split; [reflexivity|]. eapply sim_value_vec; eauto. Qed.
Lemma sim_gauge_vec K vm s w k o labels : Inv K vm s w -> Sim K s w (OpGaugeVec k o labels).
Proof. intros I s' b Q; inversion Q; subst; clear Q. split; [reflexivity|]. eapply sim_value_vec; eauto. Qed.

(* operations that cannot touch a histogram's content *)
Ltac untouched I vm :=
  let Q := fresh "Q" in
  intros ? ? Q; inversion Q; subst; clear Q; split; [reflexivity|]; exists vm;
  unfold step; repeat dmatch; cbn [fst]; try exact I;
  try (eapply Inv_collect_all; eauto; fail);
  try (apply (Inv_frame _ _ _ _ _ I); reflexivity).

Lemma sim_desc K vm s w a b c d : Inv K vm s w -> Sim K s w (OpDesc a b c d).
Proof. intros I. untouched I vm. Qed.
Lemma sim_fqname K vm s w a b c : Inv K vm s w -> Sim K s w (OpFqName a b c).
Proof. intros I. untouched I vm. Qed.
Lemma sim_descof K vm s w a : Inv K vm s w -> Sim K s w (OpDescOf a).
Proof. intros I. untouched I vm. Qed.
Lemma sim_get K vm s w a : Inv K vm s w -> Sim K s w (OpGet a).
Proof. intros I. untouched I vm. Qed.
Lemma sim_register K vm s w a b : Inv K vm s w -> Sim K s w (OpRegister a b).
Proof. intros I. untouched I vm. Qed.
Lemma sim_unregister K vm s w a b : Inv K vm s w -> Sim K s w (OpUnregister a b).
Proof. intros I. untouched I vm. Qed.
Lemma sim_gather K vm s w a : Inv K vm s w -> Sim K s w (OpGather a).
Proof. intros I. untouched I vm. Qed.

(* updates of counters and gauges *)
Ltac value_update I vm sl :=
  let SR := fresh "SR" in let ES := fresh "ES" in let Q := fresh "Q" in
  pose proof (Inv_slot _ _ _ _ sl I) as SR; unfold Sim; cbn [sstep];
  destruct (ss_slot _ sl) eqn:ES; cbn [srel] in SR; try (intros ? ? Q; discriminate Q);
  intros ? ? Q; inversion Q; subst; clear Q; (split; [reflexivity|]); exists vm; unfold step;
  [ rewrite SR; exact I
  | destruct (slot _ sl) eqn:HS; try contradiction; cbn [fst]; try exact I;
    try (apply (Inv_frame _ _ _ _ _ I); reflexivity);
    try (unfold Inv; cbn [put_slot set_slots w_h w_vec w_slots]; apply InvC_put_same; [exact I|rewrite ES; exact Logic.I]) ].

Lemma sim_inc K vm s w sl : Inv K vm s w -> Sim K s w (OpInc sl).
Proof. intros I. value_update I vm sl. Qed.
Lemma sim_incby K vm s w sl x : Inv K vm s w -> Sim K s w (OpIncBy sl x).
Proof. intros I. value_update I vm sl. Qed.
Lemma sim_dec K vm s w sl : Inv K vm s w -> Sim K s w (OpDec sl).
Proof. intros I. value_update I vm sl. Qed.
Lemma sim_add K vm s w sl x : Inv K vm s w -> Sim K s w (OpAdd sl x).
Proof. intros I. value_update I vm sl. Qed.
Lemma sim_sub K vm s w sl x : Inv K vm s w -> Sim K s w (OpSub sl x).
Proof. intros I. value_update I vm sl. Qed.
Lemma sim_set K vm s w sl x : Inv K vm s w -> Sim K s w (OpSet sl x).
Proof. intros I. value_update I vm sl. Qed.

(* ---------- the helper constructors ---------- *)
Lemma lin_buckets_length a b st n : length (lin_buckets a b st n) = n.
Proof. revert st. induction n; intros st; cbn; auto. Qed.
Lemma exp_buckets_length a b n : length (exp_buckets a b n) = n.
Proof. revert a. induction n; intros a; cbn; auto. Qed.

Lemma f_of_N_zero : f_of_N (N.of_nat 0) = 0%float.
Proof. vm_compute. reflexivity. Qed.

(* start + width * 0 is numerically start when width is a positive finite number *)
Lemma lin_first start width :
  PrimFloat.leb width 0 = false -> is_number width = true -> is_pinf width = false -> is_number start = true ->
  PrimFloat.eqb (start + width * f_of_N (N.of_nat 0))%float start = true.
Proof.
  rewrite f_of_N_zero. unfold is_number, is_pinf. rewrite !eqb_spec, leb_spec, add_spec, mul_spec.
  change (Prim2SF 0) with (S754_zero false). change (Prim2SF infinity) with (S754_infinity false).
  destruct (Prim2SF width) as [[|]|[|]| |[|] mw ew]; cbn; try discriminate; intros _ _ _.
  destruct (Prim2SF start) as [[|]|[|]| |[|] ms es]; cbn; auto.
Qed.

Lemma sim_linear K vm s w start width count : Inv K vm s w -> Sim K s w (OpLinearBuckets start width count).
Proof.
  intros I s' b Q. cbn [sstep step fst snd] in *. inversion Q; subst; clear Q. split; [|exists vm; exact I].
  unfold linear_buckets, helper_ok. destruct (N.eqb_spec count 0) as [->|NZ]; [reflexivity|].
  assert (L : Nat.ltb (N.to_nat count) 1 = false) by (apply Nat.ltb_ge; lia). rewrite L.
  change f_zero with 0%float. destruct (PrimFloat.leb width 0) eqn:W; [reflexivity|]. cbn [orb negb andb].
  rewrite lin_buckets_length, N2Nat.id, N.eqb_refl. cbn [andb].
  destruct (N.to_nat count) as [|n] eqn:EN; [lia|]. cbn [lin_buckets].
  destruct (is_number width) eqn:NW; [|reflexivity]. destruct (is_pinf width) eqn:PW; [reflexivity|].
  destruct (is_number start) eqn:NS; [|reflexivity]. cbn [negb andb orb]. apply lin_first; auto.
Qed.

Lemma sim_exp K vm s w start factor count : Inv K vm s w -> Sim K s w (OpExpBuckets start factor count).
Proof.
  intros I s' b Q. cbn [sstep step fst snd] in *. inversion Q; subst; clear Q. split; [|exists vm; exact I].
  unfold exponential_buckets, helper_ok. destruct (N.eqb_spec count 0) as [->|NZ]; [reflexivity|].
  assert (L : Nat.ltb (N.to_nat count) 1 = false) by (apply Nat.ltb_ge; lia). rewrite L.
  change f_zero with 0%float. change f_one with 1%float.
  destruct (PrimFloat.leb start 0) eqn:W; [reflexivity|]. destruct (PrimFloat.leb factor 1) eqn:W1; [reflexivity|]. cbn [orb negb andb].
  rewrite exp_buckets_length, N2Nat.id, N.eqb_refl. cbn [andb].
  destruct (N.to_nat count) as [|n] eqn:EN; [lia|]. cbn [exp_buckets]. unfold is_number. destruct (PrimFloat.eqb start start); reflexivity.
Qed.

(* ================================================================ 6. one step, any operation *)
Lemma sim_step K vm s w o : nocoll K -> (forall sl vals, o = OpWith sl vals -> In vals K) ->
  Inv K vm s w -> N.of_nat (held s) + 1 < two64 -> Sim K s w o.
Proof.
  intros NC IK I BD.
  destruct o; try (intros s' b Q; cbn [sstep] in Q; discriminate Q);
    eauto using sim_desc, sim_fqname, sim_counter, sim_gauge, sim_histogram, sim_counter_vec, sim_gauge_vec, sim_hist_vec,
      sim_inc, sim_incby, sim_dec, sim_add, sim_sub, sim_set, sim_get, sim_observe, sim_sample_sum, sim_sample_count, sim_local,
      sim_flush, sim_clear, sim_clone, sim_drop, sim_registry, sim_register, sim_unregister, sim_gather, sim_custom, sim_pulling,
      sim_collect, sim_descof, sim_linear, sim_exp.
  eapply sim_with; eauto.
Qed.

(* ================================================================ 7. all histories *)
Lemma sjudge_run K : nocoll K -> forall ops s w vm,
  (forall sl vals, In (OpWith sl vals) ops -> In vals K) -> Inv K vm s w -> N.of_nat (held s + length ops) < two64 ->
  sjudge s ops (run w ops) = true.
Proof.
  intros NC. induction ops as [|o r IH]; intros s w vm IK I BD; [reflexivity|].
  cbn [run]. destruct (step w o) as [w' ob] eqn:ST. cbn [sjudge].
  destruct (sstep s o ob) as [[s' ok]|] eqn:SS; [|reflexivity].
  cbn [length] in BD.
  assert (SM : Sim K s w o).
  { eapply sim_step; eauto; [|lia]. intros sl vals ->. apply (IK sl vals). left; reflexivity. }
  unfold Sim in SM. rewrite ST in SM. cbn [fst snd] in SM. destruct (SM _ _ SS) as (-> & vm' & I').
  cbn [andb]. apply (IH s' w' vm'); auto.
  - intros sl vals J. apply (IK sl vals). right; exact J.
  - pose proof (sstep_held _ _ _ _ _ SS). lia.
Qed.

(* ================================================================ 8. the domain and the theorem *)
Definition with_keys (ops : list op) : list (list str) :=
  flat_map (fun o => match o with OpWith _ vals => [vals] | _ => [] end) ops.
Definition key_hash (k : list str) : N := fnv1a (enc_sep k).
(* no two DISTINCT label-value tuples of the history have the same FNV-1a hash *)
Definition no_collision (K : list (list str)) : bool :=
  forallb (fun k => forallb (fun k' => negb (key_hash k =? key_hash k') || strs_eqb k k') K) K.

Definition dom08 (ops : list op) : bool :=
  (N.of_nat (length ops) <? 2 ^ 63) && no_collision (with_keys ops).

Lemma no_collision_sound K : no_collision K = true -> nocoll K.
Proof.
  unfold no_collision, nocoll. rewrite forallb_forall. intros H a b Ia Ib E.
  specialize (H a Ia). rewrite forallb_forall in H. specialize (H b Ib). unfold key_hash in H.
  rewrite E, N.eqb_refl in H. cbn [negb orb] in H. apply strs_eqb_eq. exact H.
Qed.

Lemma with_keys_In ops sl vals : In (OpWith sl vals) ops -> In vals (with_keys ops).
Proof. intros H. unfold with_keys. apply in_flat_map. exists (OpWith sl vals). split; auto. left; reflexivity. Qed.

Theorem spec_c08_model ops : dom08 ops = true -> spec_c08 ops (run world0 ops) = true.
Proof.
  unfold dom08. rewrite andb_true_iff. intros [L NC]. apply N.ltb_lt in L.
  unfold spec_c08. apply (sjudge_run (with_keys ops) (no_collision_sound _ NC) ops ss0 world0 []).
  - apply with_keys_In.
  - apply Inv0.
  - change (held ss0) with O. cbn [Nat.add]. change (2 ^ 63) with two63 in L. pose proof two63_lt_two64. lia.
Qed.

(* the oracle cannot raise an alarm when the implementation's observations are the model's *)
Corollary spec_c08_no_false_alarm ops impl_obs :
  dom08 ops = true -> impl_obs = run world0 ops -> spec_c08 ops impl_obs = true.
Proof. intros D ->. apply spec_c08_model; auto. Qed.

(* the domain in words *)
Lemma dom08_iff ops : dom08 ops = true <->
  N.of_nat (length ops) < 2 ^ 63
  /\ forall a b, In a (with_keys ops) -> In b (with_keys ops) -> fnv1a (enc_sep a) = fnv1a (enc_sep b) -> a = b.
Proof.
  unfold dom08. rewrite andb_true_iff, N.ltb_lt. split; intros [L H]; split; auto.
  - apply no_collision_sound; auto.
  - unfold no_collision. rewrite forallb_forall. intros a Ia. rewrite forallb_forall. intros b Ib. unfold key_hash.
    destruct (N.eqb_spec (fnv1a (enc_sep a)) (fnv1a (enc_sep b))) as [E|NE]; [|reflexivity].
    cbn [negb orb]. apply strs_eqb_eq. apply H; auto.
Qed.

(* ================================================================ 9. the domain is inhabited by the generated scenario shapes *)
Definition ex_o (name : str) : Opts := mkOpts [] [] name [104;101;108;112] (amap_of []) [].
(* tools/p_C08.py direct(): one histogram, observations incl. a bound, NaN, -0, +inf; collections and reads *)
Definition ex_direct : list op :=
  [OpHistogram (mkHOpts (ex_o [104]) [bits2f 0x3f847ae147ae147b; bits2f 0x3fd3333333333333; bits2f 0x4059000000000000; bits2f 0x7ff0000000000000]);
   OpObserve 0%nat (bits2f 0xbfb999999999999a); OpObserve 0%nat (bits2f 0x3f847ae147ae147b); OpObserve 0%nat (bits2f 0x7ff8000000000000);
   OpObserve 0%nat (bits2f 0x8000000000000000); OpCollect 0%nat; OpObserve 0%nat (bits2f 0x7ff0000000000000); OpSampleSum 0%nat;
   OpSampleCount 0%nat; OpCollect 0%nat].
(* a refused configuration (NaN bound), then operations on the dead slot *)
Definition ex_refused : list op :=
  [OpHistogram (mkHOpts (ex_o [104]) [bits2f 0x3ff0000000000000; bits2f 0x7ff8000000000000]); OpObserve 0%nat (bits2f 0x3ff0000000000000); OpCollect 0%nat].
(* with_local(): local histograms observing, flushed, cleared, cloned, dropped; default buckets *)
Definition ex_local : list op :=
  [OpHistogram (mkHOpts (ex_o [108;97;116]) []); OpLocal 0%nat; OpObserve 1%nat (bits2f 0x3fb999999999999a); OpObserve 0%nat (bits2f 0x3fc999999999999a);
   OpObserve 1%nat (bits2f 0x3fd3333333333333); OpSampleSum 1%nat; OpSampleCount 1%nat; OpFlush 1%nat; OpCollect 0%nat; OpClone 1%nat;
   OpObserve 2%nat (bits2f 0x4024000000000000); OpObserve 1%nat (bits2f 0x3ff0000000000000); OpClear 1%nat; OpDrop 2%nat; OpLocal 0%nat;
   OpObserve 3%nat (bits2f 0x7ff8000000000000); OpFlush 3%nat; OpFlush 3%nat; OpCollect 0%nat; OpSampleSum 0%nat; OpSampleCount 0%nat].
(* vec(): a HistogramVec, children by label values (same tuple twice, another tuple, wrong cardinality), a local on a child *)
Definition ex_vec : list op :=
  [OpHistVec (mkHOpts (ex_o [97;58;98]) [bits2f 0x000012688b70e62b; bits2f 0x3f847ae147ae147b; bits2f 0x3fefffffffffffff; bits2f 0x40fe240c9fbe76c9]) [[97];[98]];
   OpWith 0%nat [[121];[121]]; OpObserve 1%nat (bits2f 0x3f847ae147ae147a); OpWith 0%nat [[120];[]]; OpWith 0%nat [[121];[121]];
   OpWith 0%nat [[121];[121];[122]]; OpObserve 3%nat (bits2f 0x3ff0000000000000); OpLocal 2%nat; OpObserve 5%nat (bits2f 0x40fe240c9fbe76c9);
   OpSampleCount 1%nat; OpCollect 0%nat; OpFlush 5%nat; OpCollect 2%nat; OpSampleSum 3%nat; OpCollect 0%nat].
(* helper(): a helper-made bucket list used as a configuration *)
Definition ex_helper : list op :=
  [OpLinearBuckets (bits2f 0xc008000000000000) (bits2f 0x3fe0000000000000) 5;
   OpExpBuckets (bits2f 0x3ff0000000000000) (bits2f 0x4000000000000000) 0;
   OpHistogram (mkHOpts (ex_o [104]) [bits2f 0xc008000000000000; bits2f 0xc004000000000000; bits2f 0xc000000000000000; bits2f 0xbff8000000000000; bits2f 0xbff0000000000000]);
   OpObserve 0%nat (bits2f 0xc000000000000000); OpObserve 0%nat (bits2f 0xc000000000000001); OpCollect 0%nat].
(* other metric kinds and the registry around a histogram *)
Definition ex_mixed : list op :=
  [OpCounter NF (ex_o [99]); OpRegistry None None; OpHistogram (mkHOpts (ex_o [104]) [bits2f 0x3ff0000000000000]); OpRegister 1%nat 2%nat; OpInc 0%nat;
   OpObserve 2%nat (bits2f 0x3ff0000000000000); OpGather 1%nat; OpCounterVec NU (ex_o [118]) [[108]]; OpWith 3%nat [[120]]; OpInc 4%nat; OpCollect 2%nat; OpGather 1%nat].

Example dom08_examples : map dom08 [ex_direct; ex_refused; ex_local; ex_vec; ex_helper; ex_mixed] = [true; true; true; true; true; true].
Proof. vm_compute. reflexivity. Qed.
(* (what the theorem says about them, recomputed) *)
Example spec_examples :
  map (fun ops => spec_c08 ops (run world0 ops)) [ex_direct; ex_refused; ex_local; ex_vec; ex_helper; ex_mixed] = [true; true; true; true; true; true].
Proof. vm_compute. reflexivity. Qed.
(* the scenarios are not trivial: the last observation of ex_local / ex_vec is a collected histogram with observations *)
Definition collected_counts (o : obs) : option (N * list N) :=
  match o with
  | OFamsU [mf] => match mf_metric mf with
                   | [m] => match m_histogram m with Some h => Some (h_count h, map b_cum (h_bucket h)) | None => None end
                   | _ => None
                   end
  | _ => None
  end.
(* values that reached the histogram: 0.2 directly, 0.1 and 0.3 flushed, 10 from the dropped clone, NaN flushed; 1.0 was cleared *)
Example ex_local_collects : collected_counts (nth 18 (run world0 ex_local) OBad) = Some (5, [0; 0; 0; 0; 1; 2; 3; 3; 3; 3; 4]).
Proof. vm_compute. reflexivity. Qed.

(* The no-collision condition cannot be dropped: two distinct label values with the same FNV-1a hash are
   served by ONE child (the C05 known finding), so what the text promises per label-value tuple fails. *)
Definition ex_collision : list op :=
  [OpHistVec (mkHOpts (ex_o [104]) [bits2f 0x3ff0000000000000]) [[108]];
   OpWith 0%nat [[105;110;100;98;102;113;101;121;115;98;110;112;115;102]];
   OpWith 0%nat [[105;118;108;116;108;100;103;109;111;99;116;121;98;100]];
   OpObserve 1%nat (bits2f 0x3ff0000000000000); OpSampleCount 2%nat].
Example collision_outside_domain : dom08 ex_collision = false /\ spec_c08 ex_collision (run world0 ex_collision) = false.
Proof. vm_compute. split; reflexivity. Qed.
