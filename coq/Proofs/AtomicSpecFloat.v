(* The float flavour's read-subset clauses of spec_c01 / spec_c11 on validated traces, which completes the uniform theorem
   "validator accepts the trace => the executable spec is true" for the float flavours.
     qf, qf_real, finite_qf     exact decoding of a float: x = q * 2^-1074 (the spec's qfloat is qf o bits2f)
     window_format, add_exact, sub_exact   if a and b are multiples of 2^lo and |a + b| < 2^(lo+53) (and < 2^2098, no overflow)
                                the binary64 sum of the floats decoding to a and b decodes to a + b: no rounding
                                (Flocq: Bplus_correct, generic_format_FLT, round_generic)
     win, win_spec              the executable window predicate: all amounts multiples of 2^lo, absolute sum < 2^(lo+53), < 2^2098
     ctr_float_exact, gauge_float_exact    along the linearisation the state decodes to the exact sum of the amounts
     clauseA_float, clauseA_gauge_float    clause (A) from the linearisation (AtomicSpecFull.prefix_sum_split, subset_sum_complete)
     c01_spec_of_validated_float_full : trace_ok FloatOps es = true -> dom01_float_full es = true -> spec_c01 true es = true
     c11_spec_of_validated_float_full : trace_ok FloatOps es = true -> dom11_float es = true -> spec_c11 true es = true *)
Require Import PV.Base.Prelude PV.Base.F64 PV.Model.Conc PV.Model.AtomicConc PV.Proofs.AtomicConcFacts PV.Spec.SpecC01 PV.Spec.SpecC11.
Require Import PV.Proofs.AtomicSpecFacts PV.Proofs.AtomicSpecFull.
From Coq Require Import Lia Lra Permutation ZArith Floats Reals.
Require Import PV.Proofs.F64Facts.
From Flocq Require Import Core BinarySingleNaN PrimFloat.
Import ListNotations.
Open Scope Z_scope.

Local Instance Hprec : FLX.Prec_gt_0 prec := eq_refl _.
Local Instance Hmax : Prec_lt_emax prec emax := eq_refl _.

(* ------------------------------------------------------------------ exact decoding of a float: x = q * 2^-1074 *)
Definition qf (x : f64) : option Z :=
  match Prim2SF x with
  | S754_zero _ => Some 0
  | S754_finite s m e => let k := e + 1074 in if 0 <=? k then let q := Zpos m * 2 ^ k in Some (if s then - q else q) else None
  | _ => None
  end.
Lemma qfloat_qf b : qfloat b = qf (bits2f b).
Proof. reflexivity. Qed.

Definition u1074 : R := bpow radix2 (-1074).
Lemma u1074_pos : (0 < u1074)%R. Proof. apply bpow_gt_0. Qed.

Lemma qf_real x q : qf x = Some q -> is_finite (Prim2B x) = true /\ B2R (Prim2B x) = (IZR q * u1074)%R.
Proof.
  unfold qf. pose proof (B2SF_Prim2B x) as E. destruct (Prim2B x) as [s|s| |s m e Hb]; cbn in E; rewrite <- E; try discriminate.
  - intros H. inversion H; subst. split; auto. cbn. lra.
  - cbv zeta. destruct (0 <=? e + 1074) eqn:K; try discriminate. apply Z.leb_le in K. intros [= <-].
    split; auto. cbn [B2R]. unfold F2R. cbn [Fnum Fexp].
    assert (P : IZR (2 ^ (e + 1074)) = bpow radix2 (e + 1074)) by (rewrite <- IZR_Zpower by lia; reflexivity).
    assert (Q : bpow radix2 e = (IZR (2 ^ (e + 1074)) * u1074)%R).
    { unfold u1074. rewrite P, <- bpow_plus. f_equal. lia. }
    rewrite Q. destruct s; unfold cond_Zopp; cbv beta iota;
      change (match 2 ^ (e + 1074) with 0 => 0 | Z.pos p1 => Z.pos (m * p1) | Z.neg p2 => Z.neg (m * p2) end) with (Z.pos m * 2 ^ (e + 1074));
      rewrite ?opp_IZR, ?mult_IZR; ring.
Qed.
Lemma finite_qf x : is_finite (Prim2B x) = true -> exists q, qf x = Some q.
Proof.
  unfold qf. pose proof (B2SF_Prim2B x) as E. pose proof (Prim2SF_valid x) as V.
  destruct (Prim2B x) as [s|s| |s m e Hb]; cbn in E; rewrite <- E in *; try discriminate; intros _; eauto.
  destruct (valid_bounds s m e V) as [_ [B _]]. cbv zeta. destruct (0 <=? e + 1074) eqn:K; eauto. apply Z.leb_gt in K. lia.
Qed.

(* ------------------------------------------------------------------ additions inside one 53-bit window are exact *)
Lemma qf_inj_real x q q' : qf x = Some q -> B2R (Prim2B x) = (IZR q' * u1074)%R -> q = q'.
Proof.
  intros H E. destruct (qf_real x q H) as [_ E2]. rewrite E in E2. apply Rmult_eq_reg_r in E2; [|pose proof u1074_pos; lra].
  symmetry. now apply eq_IZR.
Qed.

Lemma window_format (z lo : Z) : 0 <= lo -> (2 ^ lo | z) -> Z.abs z < 2 ^ (lo + 53) ->
  generic_format radix2 (SpecFloat.fexp prec emax) (IZR z * u1074)%R.
Proof.
  intros Hlo [k Hk] Hb.
  change (SpecFloat.fexp prec emax) with (FLT_exp (-1074) 53).
  apply generic_format_FLT. exists (Float radix2 k (lo - 1074)).
  - unfold F2R. cbn [Fnum Fexp]. unfold u1074. rewrite Hk, mult_IZR.
    replace (lo - 1074) with (lo + (-1074)) by lia. rewrite bpow_plus. rewrite <- (IZR_Zpower radix2 lo) by lia. change (Zpower radix2 lo) with (2 ^ lo). ring.
  - cbn [Fnum]. change (Zpower radix2 53) with (2 ^ 53).
    assert (0 < 2 ^ lo) by (apply Z.pow_pos_nonneg; lia).
    rewrite Hk, Z.abs_mul, (Z.abs_eq (2 ^ lo)), Z.pow_add_r in Hb by lia. nia.
  - cbn [Fexp]. lia.
Qed.

Lemma add_exact (x y : f64) a b lo : qf x = Some a -> qf y = Some b -> 0 <= lo -> (2 ^ lo | a) -> (2 ^ lo | b) ->
  Z.abs (a + b) < 2 ^ (lo + 53) -> Z.abs (a + b) < 2 ^ 2098 -> qf (x + y)%float = Some (a + b).
Proof.
  intros Hx Hy Hlo Da Db Hw Hr.
  destruct (qf_real x a Hx) as [Fx Rx]. destruct (qf_real y b Hy) as [Fy Ry].
  pose proof (Bplus_correct prec emax Hprec Hmax mode_NE (Prim2B x) (Prim2B y) Fx Fy) as C.
  assert (Es : (B2R (Prim2B x) + B2R (Prim2B y) = IZR (a + b) * u1074)%R) by (rewrite Rx, Ry, plus_IZR; ring).
  rewrite Es in C.
  rewrite (round_generic radix2 (SpecFloat.fexp prec emax) (round_mode mode_NE)) in C
    by (apply (window_format (a + b) lo); auto using Z.divide_add_r).
  rewrite Rlt_bool_true in C.
  - destruct C as [C1 [C2 _]]. rewrite <- add_equiv in C1, C2.
    destruct (finite_qf _ C2) as [q Hq]. rewrite Hq. f_equal. eapply qf_inj_real; eauto.
  - rewrite Rabs_mult, (Rabs_pos_eq u1074) by (pose proof u1074_pos; lra). rewrite <- abs_IZR.
    unfold u1074. change (bpow radix2 emax) with (bpow radix2 (2098 + (-1074))). rewrite bpow_plus.
    apply Rmult_lt_compat_r; [apply bpow_gt_0|]. rewrite <- (IZR_Zpower radix2 2098) by (apply Z.leb_le; reflexivity). apply IZR_lt. exact Hr.
Qed.

Lemma qf_opp (y : f64) b : qf y = Some b -> qf (- y)%float = Some (- b).
Proof.
  unfold qf. rewrite opp_spec. destruct (Prim2SF y) as [s|s| |s m e]; cbn [SFopp]; try discriminate.
  - intros [= <-]. reflexivity.
  - cbv zeta. destruct (0 <=? e + 1074); try discriminate. intros [= <-]. destruct s; cbv beta iota delta [negb]; rewrite ?Z.opp_involutive; reflexivity.
Qed.
Lemma sub_exact (x y : f64) a b lo : qf x = Some a -> qf y = Some b -> 0 <= lo -> (2 ^ lo | a) -> (2 ^ lo | b) ->
  Z.abs (a - b) < 2 ^ (lo + 53) -> Z.abs (a - b) < 2 ^ 2098 -> qf (x - y)%float = Some (a - b).
Proof.
  intros Hx Hy Hlo Da Db Hw Hr. rewrite sub_add_opp. replace (a - b) with (a + - b) in * by lia.
  apply (add_exact x (- y)%float a (- b) lo); auto using qf_opp. now apply Z.divide_opp_r.
Qed.

Lemma qf_zero_of_eqb (x : f64) q : PrimFloat.eqb x 0 = true -> qf x = Some q -> q = 0.
Proof.
  rewrite eqb_spec. unfold qf. change (Prim2SF 0) with (S754_zero false).
  destruct (Prim2SF x) as [s|s| |s m e]; cbn; try discriminate.
  - intros _ [= <-]. reflexivity.
  - destruct s; discriminate.
Qed.
Lemma qf_one : qf 1%float = Some (2 ^ 1074).
Proof. vm_compute. reflexivity. Qed.
Lemma qf_0 : qf 0%float = Some 0.
Proof. reflexivity. Qed.

(* ------------------------------------------------------------------ the executable window predicate *)
Definition lo_of (qs : list Z) : Z :=
  match filter (fun q => negb (q =? 0)) qs with
  | [] => 0
  | q0 :: r => fold_left (fun a q => Z.min a (low_bit q)) (q0 :: r) (low_bit q0)
  end.
Definition sumabsZ (qs : list Z) : Z := sumZ (map Z.abs qs).
Definition win (lo : Z) (qs : list Z) : bool :=
  (0 <=? lo) && forallb (fun q => q mod 2 ^ lo =? 0) qs && (sumabsZ qs <? 2 ^ (lo + 53)) && (sumabsZ qs <? 2 ^ 2098).
Lemma win_spec lo qs : win lo qs = true ->
  0 <= lo /\ (forall q, In q qs -> (2 ^ lo | q)) /\ sumabsZ qs < 2 ^ (lo + 53) /\ sumabsZ qs < 2 ^ 2098.
Proof.
  unfold win. intros H. apply andb_prop in H. destruct H as [H H4]. apply andb_prop in H. destruct H as [H H3].
  apply andb_prop in H. destruct H as [H1 H2]. apply Z.leb_le in H1. apply Z.ltb_lt in H3. apply Z.ltb_lt in H4.
  repeat split; auto. intros q Hq. rewrite forallb_forall in H2. specialize (H2 q Hq). apply Z.eqb_eq in H2.
  apply Z.mod_divide; auto. apply Z.pow_nonzero; lia.
Qed.
Lemma sumabsZ_nonneg qs : 0 <= sumabsZ qs.
Proof. apply sumZ_nonneg. intros x Hx. apply in_map_iff in Hx. destruct Hx as [q [<- _]]. lia. Qed.

Local Opaque bits2f f2bits.

(* ================================================================== C01, float flavour: clause (A) *)
Definition FT (c : crec) : Z := amount_or0 true c.
Lemma FT_zero c : isinc c = false -> FT c = 0.
Proof. unfold isinc, FT, amount_or0. destruct (c_call c); cbn [is_inc inc_amount]; auto; discriminate. Qed.
Definition decodes (c : crec) : bool := match inc_amount true (c_call c) with Some None => false | _ => true end.
Definition absT (l : list crec) : Z := sumabsZ (map FT l).

Lemma ctr_float_exact lo l : 0 <= lo -> forall s a sf os, replay f64 ctr_step_float s l = Some (sf, os) ->
  qf s = Some a -> (2 ^ lo | a) -> (forall c, In c l -> decodes c = true) -> (forall c, In c l -> (2 ^ lo | FT c)) ->
  Z.abs a + absT l < 2 ^ (lo + 53) -> Z.abs a + absT l < 2 ^ 2098 -> no_reset l ->
  qf sf = Some (a + sumZ (map FT l)).
Proof.
  intros Hlo. induction l as [|c l IH]; intros s a sf os H Hs Da Hdec Hdiv B1 B2 Hnr.
  - cbn in H. inversion H; subst. unfold sumZ; cbn. now rewrite Z.add_0_r.
  - cbn [replay] in H. unfold absT, sumabsZ in B1, B2. cbn [map] in B1, B2. cbn [map].
    change (sumZ (Z.abs (FT c) :: map Z.abs (map FT l))) with (Z.abs (FT c) + absT l) in B1, B2.
    change (sumZ (FT c :: map FT l)) with (FT c + sumZ (map FT l)).
    pose proof (sumabsZ_nonneg (map FT l)) as Hn. fold (absT l) in Hn.
    destruct (ctr_step_float s (c_call c)) as [[s1 o]|] eqn:E; try discriminate H.
    destruct (replay f64 ctr_step_float s1 l) as [[s2 o2]|] eqn:E2; try discriminate H. inversion H; subst s2 os. clear H.
    assert (Dc : (2 ^ lo | FT c)) by (apply Hdiv; now left).
    assert (K : qf s1 = Some (a + FT c)).
    { assert (Hd : decodes c = true) by (apply Hdec; now left).
      assert (Hr : is_reset (c_call c) = false) by (apply Hnr; now left).
      assert (W1 : Z.abs (a + FT c) < 2 ^ (lo + 53)) by lia. assert (W2 : Z.abs (a + FT c) < 2 ^ 2098) by lia.
      unfold decodes in Hd. unfold FT, amount_or0 in Dc, W1, W2 |- *.
      destruct (c_call c) as [ | |b|b|b| | |b|b|b| | | |k0 d0|k0| | | ]; cbn [ctr_step_float] in E; try discriminate E; try discriminate Hr;
        inversion E; subst s1 o; clear E; cbn [inc_amount qdec qone] in *.
      - apply (add_exact s 1%float a (2 ^ scale) lo); auto; try exact qf_one.
      - rewrite qfloat_qf in *. destruct (qf (bits2f b)) as [q|] eqn:Eq; try discriminate Hd.
        apply (add_exact s (bits2f b) a q lo); auto.
      - now rewrite Z.add_0_r.
      - rewrite qfloat_qf in *. destruct (qf (bits2f b)) as [q|] eqn:Eq; try discriminate Hd.
        destruct (PrimFloat.eqb (bits2f b) 0) eqn:Ez.
        + rewrite (qf_zero_of_eqb _ _ Ez Eq). now rewrite Z.add_0_r.
        + apply (add_exact s (bits2f b) a q lo); auto. }
    rewrite (IH s1 (a + FT c) sf o2 E2 K); auto.
    + f_equal. lia.
    + now apply Z.divide_add_r.
    + intros c0 Hc0. apply Hdec. now right.
    + intros c0 Hc0. apply Hdiv. now right.
    + lia.
    + lia.
    + intros c0 Hc0. apply Hnr. now right.
Qed.

Lemma absT_app a b : absT (a ++ b) = absT a + absT b.
Proof. unfold absT, sumabsZ. now rewrite !map_app, sumZ_app. Qed.
Lemma absT_perm a b : Permutation a b -> absT a = absT b.
Proof. intros H. unfold absT, sumabsZ. apply sumZ_perm. now apply Permutation_map, Permutation_map. Qed.
Lemma absT_nonneg l : 0 <= absT l.
Proof. apply sumabsZ_nonneg. Qed.

Section CtrFloatA.
Variables (cs ord : list crec) (sf : f64) (os : list (option N)) (lo : Z).
Hypothesis Hmem : forall x, In x cs <-> In x ord.
Hypothesis Hnd : NoDup (map c_inv ord).
Hypothesis Hndc : NoDup (map c_inv cs).
Hypothesis Hrt : RT ord.
Hypothesis Hret : forall c, In c cs -> exists r, c_res c = Some r /\ (c_inv c < r)%nat.
Hypothesis Hrep : replay f64 ctr_step_float 0%float ord = Some (sf, os).
Hypothesis Hok : Forall2 (fun c o => ret_ok same_float c o = true) ord os.
(* executable side conditions *)
Hypothesis Hdec : forall c, In c cs -> decodes c = true.
Hypothesis Hwin : win lo (map FT cs) = true.

Theorem clauseA_float g : In g cs -> is_get (c_call g) = true -> read_subset_ok true cs g = true.
Proof.
  intros Hin Hg. unfold read_subset_ok. destruct (Hret g Hin) as [r [Er _]]. rewrite Er.
  assert (Hio : In g ord) by now apply Hmem. apply in_split in Hio. destruct Hio as [l1 [l2 Hs]].
  destruct (fget_at cs ord sf os Hmem Hret Hrep Hok l1 g l2 Hs Hg) as [s1 [o1 [v [o2 [R1 [Ev [Eq R2]]]]]]]. rewrite Ev.
  destruct (existsb _ cs) eqn:Ex; auto.
  assert (Hl1 : forall c, In c l1 -> In c cs) by (intros c Hc; apply Hmem; rewrite Hs; apply in_or_app; now left).
  assert (Hnr : no_reset l1).
  { intros c Hc. destruct (is_reset (c_call c)) eqn:Er2; auto. exfalso.
    assert (existsb (fun r0 => is_reset (c_call r0) && negb (invoked_after_return r0 g)) cs = true).
    { apply existsb_exists. exists c. split; auto. rewrite Er2, (l1_not_after ord Hrt l1 l2 g Hs c Hc). reflexivity. }
    congruence. }
  destruct (win_spec _ _ Hwin) as [Hlo [Hdiv [W1 W2]]]. fold (absT cs) in W1, W2.
  assert (Hb : absT l1 <= absT cs).
  { rewrite (absT_perm _ _ (perm_cs_ord cs ord Hmem Hnd Hndc)), Hs, absT_app. pose proof (absT_nonneg (g :: l2)). lia. }
  assert (Hq : qf s1 = Some (0 + sumZ (map FT l1))).
  { apply (ctr_float_exact lo l1 Hlo 0%float 0 s1 o1 R1 qf_0); auto.
    - apply Z.divide_0_r.
    - intros c Hc. apply Hdiv. apply in_map. auto.
    - cbn [Z.abs]. lia.
    - cbn [Z.abs]. lia. }
  cbn [qdec]. rewrite qfloat_qf, Eq, Hq. rewrite fold_left_sumZ. change (amount_or0 true) with FT.
  rewrite (prefix_sum_split cs ord Hmem Hnd Hndc Hrt Hret l1 l2 g Hs FT isinc FT_zero). cbv zeta.
  apply subset_sum_complete.
Qed.
End CtrFloatA.

(* executable domain of the full float statement: counter calls; non-negative non-NaN increments (for clause (B)); every increment
   decodes (is finite); all increments of the trace are multiples of 2^lo * 2^-1074 and their absolute values sum to less than
   2^(lo+53) * 2^-1074 (one 53-bit window: every partial sum is exact) and to less than 2^1024 (no overflow), lo being the lowest
   set bit of any increment (lo_of) *)
Definition dom01_float_full (es : list event) : bool :=
  dom01_float es &&
  (let '(cs, _) := calls_of es O [] in forallb decodes cs && win (lo_of (map FT cs)) (map FT cs)).

Theorem c01_spec_of_validated_float_full es : trace_ok FloatOps es = true -> dom01_float_full es = true -> spec_c01 true es = true.
Proof.
  intros Hok Hd. unfold dom01_float_full in Hd. apply andb_prop in Hd. destruct Hd as [Hd0 Hd2].
  destruct (c01_spec_of_validated_float_partial es Hok Hd0) as [Hcore HB].
  apply spec_c01_from_clauses3; auto.
  unfold dom01_float in Hd0. apply andb_prop in Hd0. destruct Hd0 as [Hd1 _].
  destruct (lin_of_validated FloatOps float_laws f64 ctr_step_float same_float eq counter_call 0%float ctr_float_step float_same
              eq_refl es Hok (calls_in_spec _ _ Hd1)) as [cs [ord [sf [os [E [Fd [Hmem [Hnd [Hndc [Hrt [Hret [Hrep Hf]]]]]]]]]]]].
  unfold spec_c01_A. rewrite E in *. apply andb_prop in Hd2. destruct Hd2 as [Hdec Hwin].
  destruct (all_decode true cs); auto. apply forallb_forall. intros g Hg. destruct (is_get (c_call g)) eqn:Eg; auto.
  eapply clauseA_float; eauto. intros c Hc. rewrite forallb_forall in Hdec. auto.
Qed.

(* ================================================================== C11, float flavour: the read-subset clause *)
Definition FG (c : crec) : Z := amount0 true c.
Lemma FG_zero c : isar c = false -> FG c = 0.
Proof. unfold isar, FG, amount0, is_arith_call. destruct (c_call c); cbn [arith_amount]; auto; discriminate. Qed.
Definition gdecodes (c : crec) : bool := match arith_amount true (c_call c) with Some None => false | _ => true end.
Definition absG (l : list crec) : Z := sumabsZ (map FG l).
Lemma absG_app a b : absG (a ++ b) = absG a + absG b.
Proof. unfold absG, sumabsZ. now rewrite !map_app, sumZ_app. Qed.
Lemma absG_perm a b : Permutation a b -> absG a = absG b.
Proof. intros H. unfold absG, sumabsZ. apply sumZ_perm. now apply Permutation_map, Permutation_map. Qed.
Lemma absG_nonneg l : 0 <= absG l.
Proof. apply sumabsZ_nonneg. Qed.

Lemma gauge_float_exact lo l : 0 <= lo -> forall s a sf os, replay f64 gauge_step_float s l = Some (sf, os) ->
  qf s = Some a -> (2 ^ lo | a) -> (forall c, In c l -> gdecodes c = true) -> (forall c, In c l -> (2 ^ lo | FG c)) ->
  Z.abs a + absG l < 2 ^ (lo + 53) -> Z.abs a + absG l < 2 ^ 2098 -> no_set l ->
  qf sf = Some (a + sumZ (map FG l)).
Proof.
  intros Hlo. induction l as [|c l IH]; intros s a sf os H Hs Da Hdec Hdiv B1 B2 Hnr.
  - cbn in H. inversion H; subst. unfold sumZ; cbn. now rewrite Z.add_0_r.
  - cbn [replay] in H. unfold absG, sumabsZ in B1, B2. cbn [map] in B1, B2. cbn [map].
    change (sumZ (Z.abs (FG c) :: map Z.abs (map FG l))) with (Z.abs (FG c) + absG l) in B1, B2.
    change (sumZ (FG c :: map FG l)) with (FG c + sumZ (map FG l)).
    pose proof (sumabsZ_nonneg (map FG l)) as Hn. fold (absG l) in Hn.
    destruct (gauge_step_float s (c_call c)) as [[s1 o]|] eqn:E; try discriminate H.
    destruct (replay f64 gauge_step_float s1 l) as [[s2 o2]|] eqn:E2; try discriminate H. inversion H; subst s2 os. clear H.
    assert (Dc : (2 ^ lo | FG c)) by (apply Hdiv; now left).
    assert (K : qf s1 = Some (a + FG c)).
    { assert (Hd : gdecodes c = true) by (apply Hdec; now left).
      assert (Hr : is_set (c_call c) = false) by (apply Hnr; now left).
      assert (W1 : Z.abs (a + FG c) < 2 ^ (lo + 53)) by lia. assert (W2 : Z.abs (a + FG c) < 2 ^ 2098) by lia.
      unfold gdecodes in Hd. unfold FG, amount0 in Dc, W1, W2 |- *.
      destruct (c_call c) as [ | |b|b|b| | |b|b|b| | | |k0 d0|k0| | | ]; cbn [gauge_step_float] in E; try discriminate E; try discriminate Hr;
        inversion E; subst s1 o; clear E; cbn [arith_amount sdec qone] in *.
      - apply (add_exact s 1%float a (2 ^ scale) lo); auto; try exact qf_one.
      - replace (a + - 2 ^ scale) with (a - 2 ^ scale) in * by lia.
        apply (sub_exact s 1%float a (2 ^ scale) lo); auto; try exact qf_one. apply Z.divide_opp_r in Dc. now rewrite Z.opp_involutive in Dc.
      - rewrite qfloat_qf in *. destruct (qf (bits2f b)) as [q|] eqn:Eq; try discriminate Hd.
        apply (add_exact s (bits2f b) a q lo); auto.
      - rewrite qfloat_qf in *. destruct (qf (bits2f b)) as [q|] eqn:Eq; try discriminate Hd.
        replace (a + - q) with (a - q) in * by lia.
        apply (sub_exact s (bits2f b) a q lo); auto. apply Z.divide_opp_r in Dc. now rewrite Z.opp_involutive in Dc.
      - now rewrite Z.add_0_r. }
    rewrite (IH s1 (a + FG c) sf o2 E2 K); auto.
    + f_equal. lia.
    + now apply Z.divide_add_r.
    + intros c0 Hc0. apply Hdec. now right.
    + intros c0 Hc0. apply Hdiv. now right.
    + lia.
    + lia.
    + intros c0 Hc0. apply Hnr. now right.
Qed.

Section GaugeFloatA.
Variables (cs ord : list crec) (sf : f64) (os : list (option N)) (lo : Z).
Hypothesis Hmem : forall x, In x cs <-> In x ord.
Hypothesis Hnd : NoDup (map c_inv ord).
Hypothesis Hndc : NoDup (map c_inv cs).
Hypothesis Hrt : RT ord.
Hypothesis Hret : forall c, In c cs -> exists r, c_res c = Some r /\ (c_inv c < r)%nat.
Hypothesis Hrep : replay f64 gauge_step_float 0%float ord = Some (sf, os).
Hypothesis Hok : Forall2 (fun c o => ret_ok same_float c o = true) ord os.
Hypothesis Hdec : forall c, In c cs -> gdecodes c = true.
Hypothesis Hwin : win lo (map FG cs) = true.
Hypothesis Hnoset : no_set cs.

Theorem clauseA_gauge_float g : In g cs -> is_get (c_call g) = true -> gauge_read_ok true cs g = true.
Proof.
  intros Hin Hg. unfold gauge_read_ok. destruct (Hret g Hin) as [r [Er _]]. rewrite Er.
  assert (Hio : In g ord) by now apply Hmem. apply in_split in Hio. destruct Hio as [l1 [l2 Hs]].
  destruct (at_call f64 gauge_step_float same_float ord l1 g l2 0%float sf os Hs Hrep Hok) as [s1 [o1 [s2 [o [R1 [St [Ro [o2 R2]]]]]]]].
  destruct (c_call g) eqn:Ec; cbn in Hg; try discriminate Hg. cbn [gauge_step_float] in St. inversion St; subst s2 o.
  unfold ret_ok in Ro. rewrite Er in Ro. destruct (c_ret g) as [|v| | |] eqn:Ev; try discriminate Ro.
  unfold same_float in Ro. apply N.eqb_eq in Ro. apply f2bits_inj in Ro.
  assert (Hl1 : forall c, In c l1 -> In c cs) by (intros c Hc; apply Hmem; rewrite Hs; apply in_or_app; now left).
  destruct (win_spec _ _ Hwin) as [Hlo [Hdiv [W1 W2]]]. fold (absG cs) in W1, W2.
  assert (Hb : absG l1 <= absG cs).
  { rewrite (absG_perm _ _ (perm_cs_ord cs ord Hmem Hnd Hndc)), Hs, absG_app. pose proof (absG_nonneg (g :: l2)). lia. }
  assert (Hq : qf s1 = Some (0 + sumZ (map FG l1))).
  { apply (gauge_float_exact lo l1 Hlo 0%float 0 s1 o1 R1 qf_0); auto.
    - apply Z.divide_0_r.
    - intros c Hc. apply Hdiv. apply in_map. auto.
    - cbn [Z.abs]. lia.
    - cbn [Z.abs]. lia.
    - intros c Hc. apply Hnoset. auto. }
  cbn [sdec]. rewrite qfloat_qf, Ro, Hq. rewrite fold_left_sumZ. change (amount0 true) with FG.
  rewrite (prefix_sum_split cs ord Hmem Hnd Hndc Hrt Hret l1 l2 g Hs FG isar FG_zero). cbv zeta.
  apply subset_sum_complete.
Qed.
End GaugeFloatA.

(* executable domain: gauge calls; every amount decodes (is finite); all amounts of the trace are multiples of 2^lo * 2^-1074 and
   their absolute values sum to less than 2^(lo+53) * 2^-1074 and to less than 2^1024 *)
Definition dom11_float (es : list event) : bool :=
  calls_in gauge_call es &&
  (let '(cs, _) := calls_of es O [] in forallb gdecodes cs && win (lo_of (map FG cs)) (map FG cs)).

Theorem c11_spec_of_validated_float_full es : trace_ok FloatOps es = true -> dom11_float es = true -> spec_c11 true es = true.
Proof.
  intros Hok Hd. unfold dom11_float in Hd. apply andb_prop in Hd. destruct Hd as [Hd1 Hd2].
  apply spec_c11_from_clauses; [now apply c11_core_of_validated_float|].
  destruct (lin_of_validated FloatOps float_laws f64 gauge_step_float same_float eq gauge_call 0%float gauge_float_step float_same
              eq_refl es Hok (calls_in_spec _ _ Hd1)) as [cs [ord [sf [os [E [Fd [Hmem [Hnd [Hndc [Hrt [Hret [Hrep Hf]]]]]]]]]]]].
  unfold spec_c11_A. rewrite E in *. apply andb_prop in Hd2. destruct Hd2 as [Hdec Hwin].
  destruct (existsb (fun c => is_set (c_call c)) cs) eqn:Ex; cbn [negb andb]; auto.
  destruct (small_amounts true cs); auto.
  apply forallb_forall. intros g Hg. destruct (is_get (c_call g)) eqn:Eg; auto.
  eapply clauseA_gauge_float; eauto.
  - intros c Hc. rewrite forallb_forall in Hdec. auto.
  - intros c Hc. destruct (is_set (c_call c)) eqn:Es; auto.
    assert (existsb (fun c0 => is_set (c_call c0)) cs = true) by (apply existsb_exists; exists c; auto). congruence.
Qed.
