(* C10: a child id belongs to one key for ever and never re-enters the map once it has left it; with it, the two
   remaining value-decoding conjuncts of the executable relaxed spec ("shown" and "recreated-is-fresh") on validated traces. *)
Require Import PV.Base.Prelude PV.Base.StrFacts PV.Model.Conc PV.Model.VecConc PV.Spec.SpecC10.
Require Import PV.Proofs.VecConcBase PV.Proofs.VecConcLin PV.Proofs.VecConcFacts PV.Proofs.VecConcRT PV.Proofs.VecConcSpec PV.Proofs.VecConcSpec2.
From Coq Require Import Arith Lia Permutation Sorted.
Open Scope N_scope.

(* ------------------------------------------------------------------ the identity invariant, on logs consistent with the abstract specification *)
(* H = the (key, child id) pairs handed out so far *)
Record IdInv (a : astate) (H : list (key * N)) : Prop := {
  Id_map : forall k c v, In (k, (c, v)) (a_map a) -> In (k, c) H;       (* every child in the map was handed out under its key *)
  Id_one : forall k1 k2 c, In (k1, c) H -> In (k2, c) H -> k1 = k2;       (* an id is handed out under one key only *)
  Id_below : forall k c, In (k, c) H -> c < a_next a }.                    (* ids handed out are below the counter *)

Definition gets (L : list (aop * ares)) : list (key * N) :=
  flat_map (fun x => match x with (AGet k, RChild c) => [(k, c)] | _ => [] end) L.
Lemma in_gets k c L : In (k, c) (gets L) <-> In (AGet k, RChild c) L.
Proof.
  unfold gets. rewrite in_flat_map. split.
  - intros ([o r] & Hx & Hin). destruct o; cbn in Hin; try tauto. destruct r; cbn in Hin; try tauto. destruct Hin as [Hin|[]]. inversion Hin; subst; auto.
  - intros H. exists (AGet k, RChild c). split; auto. left; auto.
Qed.
Lemma gets_app L1 L2 : gets (L1 ++ L2) = gets L1 ++ gets L2.
Proof. unfold gets. apply flat_map_app. Qed.

Lemma idinv_init : IdInv ainit [].
Proof. constructor; cbn; intros; tauto. Qed.

Lemma idinv_step a H o r : IdInv a H -> snd (aspec a o) = r -> IdInv (fst (aspec a o)) (H ++ gets [(o, r)]).
Proof.
  intros [I1 I2 I3] Hr. destruct o; cbn [gets flat_map app] in *.
  - (* get-or-create *)
    cbn in Hr |- *. destruct (klookup k (a_map a)) as [[c v]|] eqn:E; cbn in Hr |- *; subst r.
    + pose proof (klookup_In _ _ _ E) as Hin. pose proof (I1 _ _ _ Hin) as Hh.
      constructor.
      * intros k1 c1 v1 H1. apply in_app_iff. left. eauto.
      * intros k1 k2 c1 H1 H2. apply in_app_iff in H1, H2. cbn in H1, H2.
        destruct H1 as [H1|[H1|[]]], H2 as [H2|[H2|[]]]; try (inversion H1; subst); try (inversion H2; subst); eauto.
      * intros k1 c1 H1. apply in_app_iff in H1. cbn in H1. destruct H1 as [H1|[H1|[]]]; [eauto | inversion H1; subst; eauto].
    + constructor; cbn [a_map a_next].
      * intros k1 c1 v1 H1. rewrite kinsert_fresh in H1 by auto. apply in_app_iff in H1 as [H1|[H1|[]]]; apply in_app_iff.
        -- left. eauto.
        -- inversion H1; subst. right. left; auto.
      * intros k1 k2 c1 H1 H2. apply in_app_iff in H1, H2. cbn in H1, H2.
        destruct H1 as [H1|[H1|[]]], H2 as [H2|[H2|[]]]; try (inversion H1; subst); try (inversion H2; subst); eauto.
        -- apply I3 in H1. lia.
        -- apply I3 in H2. lia.
      * intros k1 c1 H1. apply in_app_iff in H1. cbn in H1. destruct H1 as [H1|[H1|[]]]; [apply I3 in H1; lia | inversion H1; subst; lia].
  - (* update through a handle *)
    cbn. rewrite app_nil_r. constructor; cbn [a_map a_next]; auto.
    intros k1 c1 v1 H1. apply in_map_iff in H1 as ([k2 [c2 v2]] & E & H1). unfold a_bump in E; cbn in E.
    destruct (c2 =? c); inversion E; subst; eauto.
  - (* remove *)
    cbn. rewrite app_nil_r. destruct (klookup k (a_map a)) eqn:E; cbn; constructor; cbn [a_map a_next]; auto.
    intros k1 c1 v1 H1. apply kremove_In in H1 as [H1 _]. eauto.
  - cbn. rewrite app_nil_r. constructor; cbn [a_map a_next]; auto. intros ? ? ? [].
  - cbn. rewrite app_nil_r. constructor; auto.
  - cbn. rewrite app_nil_r. constructor; auto.
Qed.

Lemma idinv_run a H L : IdInv a H -> consistent a L -> IdInv (arun a L) (H ++ gets L).
Proof.
  revert a H; induction L as [|[o r] L IH]; intros a H I Hc; cbn [arun].
  - cbn. rewrite app_nil_r. auto.
  - cbn [consistent] in Hc. destruct Hc as [Hr Hc].
    change ((o, r) :: L) with ([(o, r)] ++ L). rewrite gets_app, app_assoc. apply IH; auto. apply idinv_step; auto.
Qed.

(* consequences for a log consistent from the initial state *)
Lemma log_idinv L : consistent ainit L -> IdInv (arun ainit L) (gets L).
Proof. intros H. apply (idinv_run ainit [] L idinv_init H). Qed.

(* a child id belongs to one key for ever *)
Theorem log_id_one_key L k1 k2 c : consistent ainit L -> In (AGet k1, RChild c) L -> In (AGet k2, RChild c) L -> k1 = k2.
Proof. intros Hc H1 H2. apply (Id_one _ _ (log_idinv L Hc) k1 k2 c); apply in_gets; auto. Qed.
Theorem log_map_handed L k c v : consistent ainit L -> In (k, (c, v)) (a_map (arun ainit L)) -> In (AGet k, RChild c) L.
Proof. intros Hc H. apply in_gets. apply (Id_map _ _ (log_idinv L Hc) k c v H). Qed.

(* ids: the child ids present in the map *)
Definition ids (a : astate) : list N := map (fun e => fst (snd e)) (a_map a).
Lemma ids_step a o c : c < a_next a -> ~ In c (ids a) -> ~ In c (ids (fst (aspec a o))).
Proof.
  unfold ids. intros Hlt Hn. destruct o; cbn; auto.
  - destruct (klookup k (a_map a)) eqn:E; cbn; auto. rewrite kinsert_fresh, map_app by auto. cbn. intros H.
    apply in_app_iff in H as [H|[H|[]]]; [tauto | lia].
  - rewrite map_map. intros H. apply Hn. apply in_map_iff in H as ([k1 [c1 v1]] & E & H). apply in_map_iff. exists (k1, (c1, v1)). split; auto.
    unfold a_bump in E; cbn in E. destruct (c1 =? c0); cbn in *; auto.
  - destruct (klookup k (a_map a)) eqn:E; cbn; auto. intros H. apply Hn. apply in_map_iff in H as ([k1 [c1 v1]] & E1 & H).
    apply kremove_In in H as [H _]. apply in_map_iff. exists (k1, (c1, v1)); auto.
Qed.
(* a child id that is below the counter and not in the map never (re-)enters the map *)
Theorem ids_never_return a L c : c < a_next a -> ~ In c (ids a) -> ~ In c (ids (arun a L)).
Proof.
  revert a; induction L as [|[o r] L IH]; intros a Hlt Hn; cbn [arun]; auto.
  apply IH; [pose proof (aspec_next_mono a o); lia | apply ids_step; auto].
Qed.
Lemma keys_ids a k c : In (k, c) (a_keys (a_map a)) -> In c (ids a).
Proof.
  unfold a_keys, ids. intros H. apply in_map_iff in H as ([k1 [c1 v1]] & E & H). inversion E; subst. apply in_map_iff. exists (k, (c, v1)); auto.
Qed.
Lemma keys_entry a k c : In (k, c) (a_keys (a_map a)) -> exists v, In (k, (c, v)) (a_map a).
Proof. unfold a_keys. intros H. apply in_map_iff in H as ([k1 [c1 v1]] & E & H). inversion E; subst. eauto. Qed.

Open Scope nat_scope.

(* ------------------------------------------------------------------ for reachable states of the vector model *)
Section ReachIds.
Variables (nl : nat) (tr : list label) (s : vstate).
Hypothesis R : reach nl tr s.

Theorem child_id_one_key k1 k2 c : In (AGet k1, RChild c) (chron s) -> In (AGet k2, RChild c) (chron s) -> k1 = k2.
Proof. apply log_id_one_key. apply (chron_consistent nl tr s R). Qed.
Theorem map_child_was_handed_out k c v : In (k, (c, v)) (a_map (g_abs s)) -> In (AGet k, RChild c) (chron s).
Proof.
  destruct (chron_consistent nl tr s R) as [Hc Hr]. rewrite <- Hr. apply log_map_handed; auto.
Qed.
(* once a handed-out child id is not in the map, it is never in the map again *)
Theorem child_id_never_returns L1 L2 c : chron s = L1 ++ L2 -> (c < a_next (arun ainit L1))%N -> ~ In c (ids (arun ainit L1)) ->
  ~ In c (ids (g_abs s)).
Proof.
  intros E Hlt Hn. destruct (chron_consistent nl tr s R) as [_ Hr]. rewrite <- Hr, E, arun_app. apply ids_never_return; auto.
Qed.
End ReachIds.

Section Decode.
Variables (nl : nat) (tr : list label) (s : vstate).
Hypothesis R : reach nl tr s.
Hypothesis Hopen : forall t, g_open s t = None.
Let cs := map (conv tr) (rev (g_done s)).
Let G := reach_ginv nl tr s R.
Hypothesis Hincs : incs_ok cs = true.

(* splitting the chronological log at two entries, keeping track of everything older than the first *)
Lemma chron_two e1 e2 : In e1 (g_lin s) -> In e2 (g_lin s) -> le_time e1 < le_time e2 ->
  exists L1 L2 L3, chron s = L1 ++ opres e1 :: L2 ++ opres e2 :: L3
                   /\ forall e0, In e0 (g_lin s) -> le_time e0 < le_time e1 -> In (opres e0) L1.
Proof.
  intros H1 H2 Hlt. pose proof (G_sorted tr s G) as S.
  apply in_split in H2 as (A & R1 & Elog). rewrite Elog in S. destruct (sorted_before A e2 R1 S) as (I1 & I2 & I3).
  assert (H1' : In e1 R1).
  { rewrite Elog in H1. apply in_app_iff in H1 as [H1|[H1|H1]]; auto.
    - rewrite Forall_forall in I2. apply I2 in H1. lia.
    - subst. lia. }
  apply in_split in H1' as (B & R2 & E1). rewrite E1 in I3. destruct (sorted_before B e1 R2 I3) as (J1 & J2 & _).
  exists (map opres (rev R2)), (map opres (rev B)), (map opres (rev A)). split.
  - unfold chron. rewrite Elog, E1. rewrite rev_app_distr. cbn [rev]. rewrite rev_app_distr. cbn [rev].
    rewrite <- !app_assoc. cbn [app]. rewrite map_app. cbn [map]. rewrite map_app. cbn [map]. reflexivity.
  - intros e0 H0 Hlt0. apply in_map. rewrite <- in_rev. rewrite Elog, E1 in H0.
    apply in_app_iff in H0 as [H0|[H0|H0]].
    + rewrite Forall_forall in I2. apply I2 in H0. lia.
    + subst. lia.
    + apply in_app_iff in H0 as [H0|[H0|H0]]; auto.
      * rewrite Forall_forall in J2. apply J2 in H0. lia.
      * subst. lia.
Qed.

(* what a collection that shows (k, v) logged *)
Lemma shown_pair t2 l ti2 tr2 k v : In (t2, CVCollect, RColl l, ti2, tr2) (g_done s) -> In (k, v) l ->
  exists snap eC c tm t0 newer older,
    In eC (g_lin s) /\ opres eC = (ACollect, RKeys snap) /\ ti2 <= le_time eC <= tr2 /\ In (k, c) snap
    /\ g_lin s = newer ++ (tm, t0, ARead c, RValue v) :: older /\ ti2 <= tm <= tr2.
Proof.
  intros Hd Hkv. destruct (collect_entries nl tr s R t2 l ti2 tr2 Hd) as (snap & vis & eC & El & Hperm & HeC & EoC & HwC & Hreads).
  rewrite El in Hkv. unfold vis_result in Hkv. apply in_map_iff in Hkv as ([[k0 c] v0] & E & Hvis). cbn in E. inversion E; subst k0 v0.
  destruct (Hreads k c v Hvis) as (eRd & HeRd & EoRd & HwRd).
  destruct eRd as [[[tm t0] o0] r0]. unfold opres in EoRd; cbn in EoRd. inversion EoRd; subst o0 r0. cbn in HwRd.
  apply in_split in HeRd as (newer & older & Elog).
  exists snap, eC, c, tm, t0, newer, older. repeat split; auto; try lia.
  apply (Permutation_in _ Hperm). unfold vis_keys. apply in_map_iff. exists (k, c, v). auto.
Qed.

(* a decoded bit belongs to the call with that increment, which requested the child the value was read from *)
Lemma bit_owner newer tm t0 c v older tw k' d rw tiw trw :
  g_lin s = newer ++ (tm, t0, ARead c, RValue v) :: older -> In (tw, CWithInc k' d, rw, tiw, trw) (g_done s) -> has_bit v d = true ->
  length k' = nl /\ tiw < tm
  /\ exists eG, In eG (g_lin s) /\ opres eG = (AGet k', RChild c) /\ tiw <= le_time eG <= trw.
Proof.
  intros Elog HdW Hbit.
  destruct (read_value_bits nl tr s R Hopen Hincs newer tm t0 c v older d Elog (incs_pow2 tr s Hincs _ _ _ _ _ _ HdW)) as [_ Hb].
  apply Hb in Hbit as (eU & HeUo & HoU).
  assert (HeU : In eU (g_lin s)) by (rewrite Elog; apply in_app_iff; right; right; auto).
  destruct (upd_owner nl tr s R Hopen eU c d HeU HoU) as (k2 & r2 & ti2 & trr2 & Hd2 & Hw2 & Hl2 & Hti2 & Hls2 & Hcall2 & Hret2).
  destruct (G_done tr s G _ _ _ _ _ HdW) as (HtiW & _ & _ & HcallW & HretW).
  assert (Eq : conv tr (le_tid eU, CWithInc k2 d, r2, ti2, trr2) = conv tr (tw, CWithInc k' d, rw, tiw, trw)).
  { unfold incs_ok in Hincs. apply andb_true_iff in Hincs as [_ Hn].
    apply (incs_inj cs _ _ k2 d k' Hn); [| | reflexivity | reflexivity].
    - apply (in_cs2 tr s); eexists; split; [exact Hd2 | reflexivity].
    - apply (in_cs2 tr s); eexists; split; [exact HdW | reflexivity]. }
  inversion Eq as [[Et Ek Er Eci Eri]]. apply Nat2N.inj in Eci, Eri.
  assert (ti2 = tiw) by (eapply (evpos_inj tr); eauto). assert (trr2 = trw) by (eapply (evpos_inj tr); eauto). subst ti2 trr2.
  assert (Hlt : le_time eU < tm).
  { pose proof (G_sorted tr s G) as S0. rewrite Elog in S0. destruct (sorted_before _ _ _ S0) as (I1 & _ & _).
    rewrite Forall_forall in I1. apply I1 in HeUo. exact HeUo. }
  split; [congruence|]. split; [lia|].
  rewrite Et in Hd2.
  destruct (entry_of_done s tw _ _ tiw trw (AGet k', RChild c) HdW) as (eG & A & B & _ & D).
  { rewrite <- Et, <- Ek, Hls2. left; auto. }
  exists eG. auto.
Qed.
End Decode.

Definition fresh_clause (nl : nat) (cs : list crec) (C : crec) (l : list (skey * N)) : bool :=
  forallb (fun kv =>
     forallb (fun w => match c_call w with
                       | CWithInc k d =>
                           if has_bit (snd kv) d && skey_eqb (fst kv) k
                           then negb (existsb (fun r => is_kill nl k r && (c_ri w <? c_ci r)%N && (c_ri r <? c_ci C)%N) cs)
                           else true
                       | _ => true end) cs) l.

Section Fresh.
Variables (nl : nat) (tr : list label) (s : vstate).
Hypothesis R : reach nl tr s.
Hypothesis Hopen : forall t, g_open s t = None.
Let cs := map (conv tr) (rev (g_done s)).
Let G := reach_ginv nl tr s R.
Hypothesis Hincs : incs_ok cs = true.

(* a completed remove of k / reset logged an operation that kills k *)
Lemma kill_entry tR cR rR tiR trR k : In (tR, cR, rR, tiR, trR) (g_done s) -> is_kill nl k (conv tr (tR, cR, rR, tiR, trR)) = true ->
  exists eK, In eK (g_lin s) /\ kills k (le_op eK) /\ tiR <= le_time eK <= trR.
Proof.
  intros Hd Hk. destruct (G_done tr s G _ _ _ _ _ Hd) as (_ & _ & Hm & _). rewrite (reach_nl nl tr s R) in Hm.
  unfold is_kill in Hk; cbn in Hk. destruct cR; try discriminate.
  - apply andb_true_iff in Hk as [A B]. rewrite skey_eqb_key in A. apply key_eqb_eq in A. subst k0. cbn in Hm. rewrite B in Hm.
    assert (Hx : exists x, In (ARemove k, x) (lins_in tR tiR trR (g_lin s))) by (destruct Hm as [(_ & ->)|(_ & ->)]; eexists; left; eauto).
    destruct Hx as (x & Hx). destruct (entry_of_done s tR _ _ tiR trR _ Hd Hx) as (eK & A1 & B1 & _ & D1).
    exists eK. repeat split; auto; try lia. right. unfold opres in B1. inversion B1; auto.
  - cbn in Hm. destruct Hm as (_ & Hls).
    destruct (entry_of_done s tR _ _ tiR trR (AReset, RDone) Hd ltac:(rewrite Hls; left; auto)) as (eK & A1 & B1 & _ & D1).
    exists eK. repeat split; auto; try lia. left. unfold opres in B1. inversion B1; auto.
Qed.

Lemma fresh_clause_holds C l : In C cs -> c_call C = CVCollect -> c_ret C = RColl l -> fresh_clause nl cs C l = true.
Proof.
  intros HC Hcall Hret.
  apply (in_cs2 tr s) in HC as ([[[[t2 c2] r2] ti2] tr2] & HdC & ->). cbn [conv c_call c_ret c_ci c_ri] in *. subst c2 r2.
  unfold fresh_clause. apply forallb_forall. intros [k v] Hkv. apply forallb_forall. intros w Hw.
  apply (in_cs2 tr s) in Hw as ([[[[tw cw] rw] tiw] trw] & HdW & ->). cbn [conv c_call c_ret c_ci c_ri fst snd].
  destruct cw; auto.
  match goal with |- (if ?c then _ else _) = true => destruct c eqn:Econd; auto end.
  apply andb_true_iff in Econd as [Hbit Hk]. rewrite skey_eqb_key in Hk. apply key_eqb_eq in Hk. subst k0.
  apply negb_true_iff. match goal with |- ?e = false => destruct e eqn:Ex; auto end. exfalso.
  apply existsb_exists in Ex as (r & Hr & Hcond). apply andb_true_iff in Hcond as [Hcond Hr2]. apply andb_true_iff in Hcond as [Hkill Hr1].
  apply (in_cs2 tr s) in Hr as ([[[[tR cR] rR] tiR] trR] & HdR & ->). cbn [conv c_call c_ret c_ci c_ri] in *.
  destruct (G_done tr s G _ _ _ _ _ HdR) as (_ & _ & _ & HcallR & _).
  destruct (G_done tr s G _ _ _ _ _ HdC) as (_ & _ & _ & HcallC & _).
  assert (H1 : trw < tiR) by (eapply ev_lt_inv; eauto).
  assert (H2 : trR < ti2) by (eapply ev_lt_inv; eauto).
  destruct (shown_pair nl tr s R t2 l ti2 tr2 k v HdC Hkv) as (snap & eC & c & tm & t0 & newer & older & HeC & EoC & HwC & Hsnap & Elog & Hwtm).
  destruct (bit_owner nl tr s R Hopen Hincs newer tm t0 c v older tw k d rw tiw trw Elog HdW Hbit) as (Hl & _ & eG & HeG & EoG & HwG).
  destruct (kill_entry tR cR rR tiR trR k HdR Hkill) as (eK & HeK & Hkills & HwK).
  destruct (chron_two nl tr s R eK eC HeK HeC ltac:(lia)) as (L1 & L2 & L3 & Ech & Hold).
  assert (HinG : In (AGet k, RChild c) L1) by (rewrite <- EoG; apply Hold; auto; lia).
  pose proof (chron_cons nl tr s R) as Hc. rewrite Ech, EoC in Hc.
  assert (Hc1 : consistent ainit L1) by (apply consistent_app in Hc; tauto).
  destruct (opres eK) as [oK xK] eqn:EoK.
  assert (HoK : le_op eK = oK) by (unfold opres in EoK; inversion EoK; auto). rewrite HoK in Hkills.
  apply consistent_mid in Hc as [HrK Hc]. apply consistent_mid in Hc as [HrC _].
  set (a1 := arun ainit L1) in *. set (aK := fst (aspec a1 oK)) in *.
  assert (Habs : child_of aK k = None) by (apply aspec_kill_absent; auto).
  assert (Hlt : (c < a_next aK)%N).
  { pose proof (consistent_child_below ainit L1 (AGet k) c ainit_ids_below Hc1 HinG). fold a1 in H. pose proof (aspec_next_mono a1 oK). fold aK in H0. lia. }
  assert (Hnot : ~ In c (ids aK)).
  { intros Hin. unfold ids in Hin. apply in_map_iff in Hin as ([k2 [c2 v2]] & E & Hin). cbn in E. subst c2.
    assert (HcK : consistent ainit (L1 ++ [(oK, xK)])) by (apply consistent_app; split; auto; cbn; auto).
    assert (HaK : arun ainit (L1 ++ [(oK, xK)]) = aK) by (rewrite arun_app; reflexivity).
    assert (Hh : In (AGet k2, RChild c) (L1 ++ [(oK, xK)])) by (apply (log_map_handed _ k2 c v2 HcK); rewrite HaK; exact Hin).
    assert (k2 = k) by (apply (log_id_one_key _ k2 k c HcK); auto; apply in_app_iff; left; auto). subst k2.
    unfold child_of in Habs. destruct (klookup k (a_map aK)) eqn:El; [discriminate|].
    apply klookup_None in El. apply El. apply in_map_iff. exists (k, (c, v2)). auto. }
  (* so c is not in the map when the collection takes its key snapshot, yet the snapshot shows it *)
  pose proof (ids_never_return aK L2 c Hlt Hnot) as Hnever.
  cbn [aspec snd] in HrC. inversion HrC as [Hs]. apply Hnever. apply (keys_ids _ k). rewrite Hs. exact Hsnap.
Qed.
End Fresh.

(* ------------------------------------------------------------------ the "shown" conjunct *)
Open Scope N_scope.
Lemma lor_fold_bit ds a n : N.testbit (fold_left N.lor ds a) n = N.testbit a n || existsb (fun d => N.testbit d n) ds.
Proof.
  revert a; induction ds as [|d ds IH]; intros a; cbn [fold_left existsb]; [rewrite orb_false_r; auto|].
  rewrite IH, N.lor_spec, orb_assoc. reflexivity.
Qed.
Lemma high_bits_zero v n : v < 2 ^ 63 -> 63 <= n -> N.testbit v n = false.
Proof.
  intros Hv Hn. destruct (N.eq_dec v 0) as [->|Hz]; [apply N.bits_0|]. apply N.bits_above_log2.
  assert (N.log2 v < 63) by (apply N.log2_lt_pow2; lia). lia.
Qed.
Lemma land_lnot_zero v M : v < 2 ^ 63 -> (forall n, N.testbit v n = true -> N.testbit M n = true) -> N.land v (N.lnot M 64) = 0.
Proof.
  intros Hv Hsub. apply N.bits_inj_iff. intros n. rewrite N.land_spec, N.bits_0.
  destruct (N.testbit v n) eqn:E; auto. cbn.
  assert (n < 63) by (destruct (N.lt_ge_cases n 63); auto; rewrite high_bits_zero in E by auto; discriminate).
  rewrite N.lnot_spec_low by lia. rewrite (Hsub n E). reflexivity.
Qed.
Lemma is_pow2_1 : is_pow2 1.
Proof. split; [reflexivity | cbn; lia]. Qed.
Open Scope nat_scope.

Definition shown_clause (nl : nat) (cs : list crec) (C : crec) (l : list (skey * N)) : bool :=
  forallb (fun kv =>
     existsb (fun w => is_get nl (fst kv) w && (c_ci w <? c_ri C)%N) cs
     && (snd kv <? 2 ^ 63)%N
     && forallb (fun w => match c_call w with
                          | CWithInc k d =>
                              if has_bit (snd kv) d then skey_eqb (fst kv) k && Nat.eqb (length k) nl && (c_ci w <? c_ri C)%N else true
                          | _ => true end) cs
     && (N.land (snd kv) (N.lnot (fold_left N.lor (incs cs) 0%N) 64) =? 0)%N) l.

Section Shown.
Variables (nl : nat) (tr : list label) (s : vstate).
Hypothesis R : reach nl tr s.
Hypothesis Hopen : forall t, g_open s t = None.
Let cs := map (conv tr) (rev (g_done s)).
Let G := reach_ginv nl tr s R.
Hypothesis Hincs : incs_ok cs = true.

Lemma in_chron e : In e (g_lin s) -> In (opres e) (chron s).
Proof. intros H. unfold chron. apply in_map. rewrite <- in_rev. auto. Qed.

Lemma shown_clause_holds C l : In C cs -> c_call C = CVCollect -> c_ret C = RColl l -> shown_clause nl cs C l = true.
Proof.
  intros HC Hcall Hret.
  apply (in_cs2 tr s) in HC as ([[[[t2 c2] r2] ti2] tr2] & HdC & ->). cbn [conv c_call c_ret c_ci c_ri] in *. subst c2 r2.
  destruct (G_done tr s G _ _ _ _ _ HdC) as (Hti2 & _ & _ & HcallC & HretC).
  unfold shown_clause. apply forallb_forall. intros [k v] Hkv. cbn [fst snd].
  destruct (shown_pair nl tr s R t2 l ti2 tr2 k v HdC Hkv) as (snap & eC & c & tm & t0 & newer & older & HeC & EoC & HwC & Hsnap & Elog & Hwtm).
  (* the state at the key snapshot *)
  destruct (chron_before nl tr s R eC HeC) as (L1 & L3 & Ech & HL1).
  pose proof (chron_cons nl tr s R) as Hc. rewrite Ech, EoC in Hc.
  assert (Hc1 : consistent ainit L1) by (apply consistent_app in Hc; tauto).
  apply consistent_mid in Hc as [HrC _]. cbn [aspec snd] in HrC. inversion HrC as [Hs].
  assert (Hentry : exists v', In (k, (c, v')) (a_map (arun ainit L1))) by (apply keys_entry; rewrite Hs; auto).
  destruct Hentry as (v' & Hentry).
  assert (HgetK : In (AGet k, RChild c) (chron s)).
  { rewrite Ech. apply in_app_iff. left. eapply log_map_handed; eauto. }
  (* the value *)
  assert (ND : NoDup (g_lin s)) by (apply ssorted_nodup, (G_sorted tr s G)).
  assert (Hincl : incl older (g_lin s)) by (intros x Hx; rewrite Elog; apply in_app_iff; right; right; auto).
  assert (NDo : NoDup older) by (rewrite Elog in ND; apply nodup_app_r in ND; inversion ND; auto).
  destruct (amounts_good nl tr s R Hopen Hincs c older Hincl NDo) as [HF HN].
  pose proof (no_lost_update nl tr s R newer tm t0 c v older Elog) as Hv. rewrite upd_sum_amounts in Hv.
  pose proof (sum_lt63 _ HF HN) as Hlt.
  assert (Hv' : v = sumN (amounts c older)).
  { rewrite Hv. unfold wrap64. apply N.mod_small. unfold two64. eapply N.lt_trans; [exact Hlt|]. reflexivity. }
  repeat (apply andb_true_iff; split).
  - (* somebody requested k before the collection returned *)
    assert (Hp : child_of (arun ainit L1) k <> None).
    { unfold child_of. destruct (klookup k (a_map (arun ainit L1))) eqn:El; cbn; [discriminate|].
      apply klookup_None in El. exfalso. apply El. apply in_map_iff. exists (k, (c, v')). auto. }
    destruct (present_has_getter nl tr s R Hopen eC L1 L3 k HeC Ech HL1 Hp) as (tw & d & rW & tiw & trw & HdW & Hl & Hltw & HcW).
    eapply existsb_intro; [apply (in_cs2 tr s); eexists; split; [exact HdW | reflexivity]|].
    rewrite is_get_conv by auto. cbn. eapply ev_lt_of; eauto. lia.
  - apply N.ltb_lt. rewrite Hv'. exact Hlt.
  - (* every decoded bit is an update for exactly this key, invoked before the collection returned *)
    apply forallb_forall. intros w Hw.
    apply (in_cs2 tr s) in Hw as ([[[[tw cw] rw] tiw] trw] & HdW & ->). cbn [conv c_call c_ret c_ci c_ri].
    destruct cw; auto. destruct (has_bit v d) eqn:Hbit; auto.
    destruct (bit_owner nl tr s R Hopen Hincs newer tm t0 c v older tw k0 d rw tiw trw Elog HdW Hbit) as (Hl & Hltw & eG & HeG & EoG & HwG).
    assert (k0 = k).
    { apply (child_id_one_key nl tr s R k0 k c); auto. rewrite <- EoG. apply in_chron; auto. }
    subst k0. destruct (G_done tr s G _ _ _ _ _ HdW) as (_ & _ & _ & HcallW & _).
    rewrite skey_eqb_key, key_eqb_refl, Hl, Nat.eqb_refl. cbn. eapply ev_lt_of; eauto. lia.
  - (* no bit outside the scenario's increments *)
    apply N.eqb_eq. apply land_lnot_zero; [rewrite Hv'; exact Hlt|].
    intros n Hn. rewrite Hv', sum_bits in Hn by auto. apply existsb_exists in Hn as (x & Hx & Ex). apply N.eqb_eq in Ex.
    rewrite lor_fold_bit. apply orb_true_iff. right. apply existsb_exists. exists x. split.
    + apply in_amounts in Hx as (e & He & Ho).
      destruct (upd_owner nl tr s R Hopen e c x (Hincl e He) Ho) as (k2 & r2 & ti3 & trr3 & Hd3 & _).
      unfold incs. apply in_flat_map. exists (conv tr (le_tid e, CWithInc k2 x, r2, ti3, trr3)). split.
      * apply (in_cs2 tr s). eexists; split; [exact Hd3 | reflexivity].
      * cbn. left; auto.
    + rewrite Forall_forall in HF. rewrite (pow2_bit x n (HF x Hx)). apply N.eqb_eq; auto.
Qed.
End Shown.

(* ------------------------------------------------------------------ assembled: everything of the relaxed spec except the search *)
Lemma coll_ok_split nl cs C l :
  coll_ok nl cs C l = nodup_keys (map fst l) && shown_clause nl cs C l && nolost_clause nl cs C l && removed_clause nl cs C l && fresh_clause nl cs C l.
Proof. reflexivity. Qed.

(* [proved_clauses3] = the whole of [base_ok]: well-formedness, result kinds, and - when the increments are distinct powers of two -
   every conjunct of [pointwise] (all five conjuncts of [coll_ok] for every collection, [remove_ok] for every call) *)
Definition proved_clauses3 (nl : nat) (es : list event) : bool :=
  let (cs, wf) := extract es in base_ok nl cs wf.

Theorem relaxed_spec_of_validated_partial3 nl nth es :
  vcheck nl nth es = true -> in_domain nth es = true -> proved_clauses3 nl es = true.
Proof.
  intros Hv Hd. destruct (extract_of_validated nl nth es Hv Hd) as (tr & s & R & Hvis & Hopen & Hex).
  unfold proved_clauses3. rewrite Hex. unfold base_ok. cbn [andb]. rewrite (kinds_ok nl tr s R). cbn [andb].
  destruct (incs_ok (map (conv tr) (rev (g_done s)))) eqn:Hi; [|apply (collections_nodup nl tr s R)].
  unfold pointwise. rewrite (kinds_ok nl tr s R). cbn [andb]. apply andb_true_iff. split.
  - apply forallb_forall. intros C HC. destruct (c_call C) eqn:E1; auto. destruct (c_ret C) eqn:E2; auto.
    rewrite coll_ok_split.
    pose proof (collections_nodup nl tr s R) as Hn. rewrite forallb_forall in Hn. specialize (Hn C HC). rewrite E2 in Hn.
    repeat (apply andb_true_iff; split).
    + exact Hn.
    + apply (shown_clause_holds nl tr s R Hopen Hi C l HC E1 E2).
    + apply (nolost_clause_holds nl tr s R Hopen Hi C l HC E1 E2).
    + apply (removed_clause_holds nl tr s R Hopen C l HC E1 E2).
    + apply (fresh_clause_holds nl tr s R Hopen Hi C l HC E1 E2).
  - apply forallb_forall. intros Rc HR. apply (remove_ok_holds nl tr s R Hopen); auto.
Qed.

Lemma relaxed_spec_implies_proved_clauses3 nl es : spec_c10_relaxed nl es = true -> proved_clauses3 nl es = true.
Proof.
  unfold spec_c10_relaxed, proved_clauses3. destruct (extract es) as [cs wf]. intros H. apply andb_true_iff in H. tauto.
Qed.

(* what remains for the full statement is exactly the search: on validated traces the relaxed spec IS "the search does not answer NotFound" *)
Theorem relaxed_spec_of_validated_is_search nl nth es :
  vcheck nl nth es = true -> in_domain nth es = true -> spec_c10_relaxed nl es = search_ok false nl (fst (extract es)).
Proof.
  intros Hv Hd. pose proof (relaxed_spec_of_validated_partial3 nl nth es Hv Hd) as H.
  unfold proved_clauses3 in H. unfold spec_c10_relaxed. destruct (extract es) as [cs wf]. rewrite H. reflexivity.
Qed.
Corollary relaxed_spec_of_validated_if_not_refuted nl nth es :
  vcheck nl nth es = true -> in_domain nth es = true -> lin_search false nl (fst (extract es)) <> NotFound -> spec_c10_relaxed nl es = true.
Proof.
  intros Hv Hd Hs. rewrite (relaxed_spec_of_validated_is_search nl nth es Hv Hd). unfold search_ok.
  destruct (incs_ok (fst (extract es))); auto. destruct (lin_search false nl (fst (extract es))) eqn:E; auto; congruence.
Qed.
