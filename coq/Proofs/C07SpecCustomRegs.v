(* [fork of Proofs/C07SpecRegs.v that allows custom collectors exposing no families]
   Layer C1 of the C07/C14 spec proofs: the registry operations, the executable domain of the
   theorems, and the correspondence between the registries the spec tracks from the operations
   ([reginfo]) and the registries of the world. *)
Require Import PV.Base.Prelude PV.Base.Utf8 PV.Base.Fnv PV.Base.F64 PV.Base.StrFacts PV.Base.SortFacts.
Require Import PV.Model.Proto PV.Model.Desc PV.Model.Value PV.Model.Hist PV.Model.Vec PV.Model.Registry PV.Model.World.
Require Import PV.Proofs.DescFacts PV.Proofs.GatherFacts PV.Proofs.C07SpecGather PV.Proofs.C07SpecLabels PV.Proofs.C07SpecHist
               PV.Proofs.C07SpecCustomWorld PV.Proofs.C07SpecCustomShape PV.Proofs.C07SpecCustomStep PV.Proofs.C06Facts.
Require Import PV.Spec.SpecC07.
From Coq Require Import Permutation Sorting.Sorted.
Open Scope N_scope.

(* ====================================================================================== *)
(* The domain.                                                                             *)
(* ====================================================================================== *)
(* same-name descriptors already registered must be compatible with the new one *)
Definition is_ccustom (c : collector) : bool := match c with CCustom _ _ => true | _ => false end.
Definition register_compat (S : sigs) (rc : regcore collector) (d : Desc) : bool :=
  forallb (fun kc => is_ccustom (snd kc) || negb (str_eqb (d_fq_name (cdescS S (snd kc))) (d_fq_name d)) || desc_compat (cdescS S (snd kc)) d)
          (r_collectors rc).
Definition op_dyn (w : world) (regs : list reginfo) (o : op) (ob : obs) : bool :=
  match o, ob with
  | OpRegister r s, ORes (Ok _) =>
      match slot w r, collector_of w (slot w s) with
      | HRegistry ri, Some (c, _) =>
          match nth_error (w_reg w) ri with
          | Some rc => is_ccustom c || register_compat (sigs_of w) rc (cdescS (sigs_of w) c)
          | None => true
          end
      | _, _ => true
      end
  | OpUnregister r s, ORes (Ok _) =>
      match ri_find r regs with Some x => existsb (Nat.eqb s) (ri_members x) | None => true end
  | _, _ => true
  end.
Definition track (w : world) (regs : list reginfo) (o : op) (ob : obs) : list reginfo :=
  match o, ob with
  | OpRegistry p l, ORes (Ok _) => mkRI (length (w_slots w)) p l [] :: regs
  | OpRegister r s, ORes (Ok _) => ri_update r (fun m => s :: m) regs
  | OpUnregister r s, ORes (Ok _) => ri_update r (remove_nat s) regs
  | _, _ => regs
  end.
Fixpoint dom_walk (w : world) (regs : list reginfo) (ops : list op) : bool :=
  match ops with
  | [] => true
  | o :: ops' =>
      let ob := snd (step w o) in
      op_lang o && clone_ok w o && op_dyn w regs o ob && dom_walk (fst (step w o)) (track w regs o ob) ops'
  end.
(* The domain of the theorems:
   - custom collectors (OpCustom) expose no families ([op_lang]: the family list is empty; any
     descriptors), const labels given as maps (distinct keys), registries not cloned;
   - a registration of a LIBRARY collector the model accepts finds the same-name descriptors of the
     library collectors of that registry compatible
     (same help and same label names - what the dimension hash enforces absent an FNV collision -
     with the same names being constant labels);
   - an unregistration the model accepts names a slot that was registered (the spec identifies
     collectors with slots). *)
Definition dom07c (ops : list op) : bool := dom_walk world0 [] ops.

(* ====================================================================================== *)
(* Registry operations.                                                                    *)
(* ====================================================================================== *)
Lemma FOP_snoc {A} (R : A -> A -> Prop) l x : ForallOrdPairs R l -> Forall (fun a => R a x) l -> ForallOrdPairs R (l ++ [x]).
Proof.
  intros F; induction F as [|a l Ha F IH]; intros H; cbn; [repeat constructor|]. inversion H; subst. constructor; auto.
  apply Forall_app. split; auto.
Qed.
Lemma FOP_sub_nremove {V} (R : N * V -> N * V -> Prop) k l : ForallOrdPairs R l -> ForallOrdPairs R (nremove k l).
Proof.
  intros F; induction F as [|[k' v'] l Ha F IH]; cbn; [constructor|]. destruct (k =? k'); auto. constructor; auto.
  eapply Forall_sub; [|exact Ha]. intros x. apply nremove_sub.
Qed.

Lemma reg_register_single {C} (rc : regcore C) d c rc' : reg_register rc [d] c = Ok rc' ->
  nlookup (collector_id [d]) (r_collectors rc) = None
  /\ r_collectors rc' = r_collectors rc ++ [(collector_id [d], c)] /\ r_prefix rc' = r_prefix rc /\ r_labels rc' = r_labels rc.
Proof.
  unfold reg_register. cbn [reg_check_descs].
  destruct (memN (d_id d) (r_desc_ids rc)); [discriminate|].
  destruct (match r_labels rc with Some common => _ | None => false end); [discriminate|].
  destruct (match match alookup (d_fq_name d) (r_dim_hashes rc) with Some h => Some h | None => alookup (d_fq_name d) [] end with
            | Some h => negb (h =? d_dim d) | None => false end); [discriminate|].
  cbn [memN]. change (collector_id [d]) with (ids_hash [d_id d]).
  destruct (nlookup (ids_hash [d_id d]) (r_collectors rc)); [discriminate|]. intros H. inversion H. cbn. auto.
Qed.
Lemma reg_unregister_spec {C} (rc : regcore C) ds rc' : reg_unregister rc ds = Ok rc' ->
  r_collectors rc' = nremove (collector_id ds) (r_collectors rc) /\ r_prefix rc' = r_prefix rc /\ r_labels rc' = r_labels rc.
Proof.
  unfold reg_unregister. destruct (nlookup (collector_id ds) (r_collectors rc)); [|discriminate]. intros H. inversion H. cbn. auto.
Qed.

Lemma reg_check_seen {C} (rc : regcore C) ds : forall seen cid staged seen' cid' staged',
  reg_check_descs rc ds seen cid staged = Ok (seen', cid', staged') ->
  seen' = rev (map d_id ds) ++ seen /\ cid' = ids_hash seen' /\ (NoDup seen -> NoDup seen').
Proof.
  induction ds as [|d ds IH]; intros seen cid staged seen' cid' staged'; cbn [reg_check_descs map rev].
  - intros H. inversion H; subst. auto.
  - destruct (memN (d_id d) (r_desc_ids rc)); [discriminate|].
    destruct (match r_labels rc with Some common => _ | None => false end); [discriminate|].
    destruct (match match alookup (d_fq_name d) (r_dim_hashes rc) with Some h => Some h | None => alookup (d_fq_name d) staged end with
              | Some h => negb (h =? d_dim d) | None => false end); [discriminate|].
    destruct (memN (d_id d) seen) eqn:Em; [discriminate|]. intros H. apply IH in H as (A & B & D). split; [|split; auto].
    + rewrite A, <- app_assoc. reflexivity.
    + intros ND. apply D. constructor; auto. apply memN_false. exact Em.
Qed.
Lemma reg_register_gen {C} (rc : regcore C) ds c rc' : reg_register rc ds c = Ok rc' ->
  nlookup (collector_id ds) (r_collectors rc) = None
  /\ r_collectors rc' = r_collectors rc ++ [(collector_id ds, c)] /\ r_prefix rc' = r_prefix rc /\ r_labels rc' = r_labels rc.
Proof.
  unfold reg_register. destruct (reg_check_descs rc ds [] 0 []) as [[[seen cid] staged]|] eqn:E; [|discriminate].
  apply reg_check_seen in E as (A & B & D). rewrite app_nil_r in A.
  assert (Ek : cid = collector_id ds).
  { rewrite B, A, ids_hash_rev. symmetry. apply collector_id_nodup. specialize (D (NoDup_nil _)). rewrite A in D.
    apply NoDup_rev in D. rewrite rev_involutive in D. exact D. }
  clear B. subst cid. destruct (nlookup (collector_id ds) (r_collectors rc)); [discriminate|]. intros H. inversion H. cbn. auto.
Qed.
Lemma register_regwf S rc c ds rc' : regwf S rc -> cokS S c -> collector_id ds = ckeyG S c ->
  (clibS S c -> register_compat S rc (cdescS S c) = true) ->
  reg_register rc ds c = Ok rc' -> regwf S rc'.
Proof.
  intros (F & ND & FO) L Ek Hc H. apply reg_register_gen in H as (Hn & Ec & _ & _). unfold regwf. rewrite Ec. split; [|split].
  - apply Forall_app. split; auto.
  - rewrite map_app. cbn. apply NoDup_app_intro; auto; [repeat constructor; auto|]. intros x [<-|[]]. apply nlookup_None_notin. exact Hn.
  - apply FOP_snoc; auto. apply Forall_forall. intros kc Hkc La Lb. cbn [snd] in Lb. specialize (Hc Lb).
    unfold register_compat in Hc. rewrite forallb_forall in Hc. specialize (Hc kc Hkc). unfold compat_rel. cbn [snd]. intros En.
    assert (Ecu : is_ccustom (snd kc) = false) by (destruct (snd kc); try reflexivity; destruct La).
    rewrite Ecu, En, str_eqb_refl in Hc. exact Hc.
Qed.
Lemma unregister_regwf S (rc : regcore collector) ds rc' : regwf S rc -> reg_unregister rc ds = Ok rc' -> regwf S rc'.
Proof.
  intros (F & ND & FO) H. apply reg_unregister_spec in H as (Ec & _ & _). unfold regwf. rewrite Ec. split; [|split].
  - eapply Forall_sub; [|exact F]. intros x. apply nremove_sub.
  - apply nremove_nodup. exact ND.
  - apply FOP_sub_nremove. exact FO.
Qed.

(* ====================================================================================== *)
(* Tracked registries, seen through a ghost slot table.                                    *)
(* ====================================================================================== *)
(* OpDrop may overwrite the handle of a registered collector or of a registry with HDead while the
   registry keeps the collector.  The ghost table [gs] is the slot table in which collector and
   registry handles are never overwritten; the spec's bookkeeping (member slots, registry slots) is
   related to the world through it. *)
Definition gslot (gs : list handle) (s : nat) : handle := nth s gs HDead.
Definition grel (g h : handle) : Prop := h = g \/ (stable g = true /\ h = HDead).
Definition GI (gs : list handle) (w : world) : Prop :=
  Forall2 grel gs (w_slots w) /\ Forall (slotwf w) gs /\ regslots gs = seq 0 (length (w_reg w)).
Definition cof (gs : list handle) (s : nat) : collector := cofh (gslot gs s).
Definition reg_of (gs : list handle) (w : world) (x : reginfo) : option (regcore collector) :=
  match gslot gs (ri_slot x) with HRegistry ri => nth_error (w_reg w) ri | _ => None end.
Lemma is_mem_stable h : is_mem h = true -> stable h = true.
Proof. unfold is_mem, stable. destruct (is_coll h), (is_reg h), (is_cust h); cbn; auto. Qed.
Definition RI1 (gs : list handle) (w : world) (x : reginfo) : Prop :=
  exists rc, reg_of gs w x = Some rc
    /\ r_prefix rc = ri_prefix x /\ r_labels rc = option_map (@amap_of str) (ri_labels x)
    /\ Permutation (map snd (r_collectors rc)) (map (cof gs) (ri_members x))
    /\ Forall (fun s => is_mem (gslot gs s) = true) (ri_members x).
Definition RI (gs : list handle) (w : world) (regs : list reginfo) : Prop := Forall (RI1 gs w) regs.
Definition Tracked (gs : list handle) (regs : list reginfo) : Prop :=
  forall s ri, gslot gs s = HRegistry ri -> exists x, In x regs /\ ri_slot x = s.
(* two ghost tables agree on the handles that matter *)
Definition sagree (gs gs' : list handle) : Prop :=
  (length gs <= length gs')%nat
  /\ (forall s, stable (gslot gs s) = true -> gslot gs' s = gslot gs s)
  /\ (forall s, (s < length gs)%nat -> stable (gslot gs' s) = true -> gslot gs' s = gslot gs s).

Lemma gslot_lt gs s : gslot gs s <> HDead -> (s < length gs)%nat.
Proof.
  intros H. destruct (Nat.ltb s (length gs)) eqn:E; [apply Nat.ltb_lt; auto|]. apply Nat.ltb_ge in E.
  unfold gslot in H. rewrite nth_overflow in H by lia. congruence.
Qed.
Lemma stable_not_dead h : stable h = true -> h <> HDead.
Proof. intros H E. subst. discriminate. Qed.
Lemma gslot_nth gs s h : nth_error gs s = Some h -> gslot gs s = h.
Proof. intros H. unfold gslot. apply nth_error_nth. exact H. Qed.
Lemma gslot_nth_error gs s : (s < length gs)%nat -> nth_error gs s = Some (gslot gs s).
Proof. intros H. unfold gslot. destruct (nth_error gs s) eqn:E; [rewrite (nth_error_nth _ _ _ E); auto|]. apply nth_error_None in E. lia. Qed.
Lemma gslot_snoc_old gs h s : (s < length gs)%nat -> gslot (gs ++ [h]) s = gslot gs s.
Proof. intros H. unfold gslot. apply app_nth1. exact H. Qed.
Lemma gslot_snoc_new gs h : gslot (gs ++ [h]) (length gs) = h.
Proof. unfold gslot. rewrite app_nth2 by lia. rewrite Nat.sub_diag. reflexivity. Qed.

Lemma slot_nth w s h : nth_error (w_slots w) s = Some h -> slot w s = h.
Proof. intros H. unfold slot. apply nth_error_nth. exact H. Qed.
Lemma GI_len gs w : GI gs w -> length gs = length (w_slots w).
Proof. intros (F & _). clear -F. induction F; cbn; auto. Qed.
Lemma GI_rel gs w s : GI gs w -> grel (gslot gs s) (slot w s).
Proof.
  intros (F & _). unfold gslot, slot. pose proof (Forall2_nth _ _ _ s F) as X.
  destruct (nth_error gs s) as [g|] eqn:E1; destruct (nth_error (w_slots w) s) as [h|] eqn:E2; try tauto.
  - rewrite (nth_error_nth _ _ _ E1), (nth_error_nth _ _ _ E2). exact X.
  - apply nth_error_None in E1, E2. rewrite !nth_overflow by lia. left. reflexivity.
Qed.
Lemma GI_real gs w s : GI gs w -> stable (slot w s) = true -> gslot gs s = slot w s.
Proof. intros G H. destruct (GI_rel gs w s G) as [E|[_ E]]; [auto|]. rewrite E in H. discriminate. Qed.
Lemma GI_wf gs w s : GI gs w -> slotwf w (gslot gs s).
Proof.
  intros (_ & F & _). unfold gslot. destruct (nth_error gs s) as [g|] eqn:E.
  - rewrite (nth_error_nth _ _ _ E). rewrite Forall_forall in F. apply F. eapply nth_error_In; eauto.
  - apply nth_error_None in E. rewrite nth_overflow by lia. exact I.
Qed.
Lemma slotwf_frame w w' h : frame w w' -> slotwf w h -> slotwf w' h.
Proof.
  intros ((PV & PH & PC) & Lr). cbn in PV, PH, PC. apply prefix_length in PV, PH, PC. rewrite !map_length in PV, PH, PC.
  destruct h; cbn; auto; lia.
Qed.

Lemma regslots_unique sl : NoDup (regslots sl) -> forall s s' r,
  nth_error sl s = Some (HRegistry r) -> nth_error sl s' = Some (HRegistry r) -> s = s'.
Proof.
  induction sl as [|h t IH]; intros ND s s' r H1 H2; [destruct s; discriminate|].
  assert (NDt : NoDup (regslots t)).
  { change (h :: t) with ([h] ++ t) in ND. rewrite regslots_app in ND. eapply NoDup_app_r; eauto. }
  assert (Hin : forall j, nth_error t j = Some (HRegistry r) -> In r (regslots t)).
  { intros j Hj. unfold regslots. apply in_flat_map. exists (HRegistry r). split; [eapply nth_error_In; eauto|left; auto]. }
  destruct s, s'; cbn in H1, H2; auto.
  - inversion H1; subst h. cbn in ND. inversion ND; subst. exfalso. apply H3. eapply Hin; eauto.
  - inversion H2; subst h. cbn in ND. inversion ND; subst. exfalso. apply H3. eapply Hin; eauto.
  - f_equal. eapply IH; eauto.
Qed.
Lemma GI_reg_unique gs w s s' r : GI gs w -> gslot gs s = HRegistry r -> gslot gs s' = HRegistry r -> s = s'.
Proof.
  intros (_ & _ & E) H1 H2. apply (regslots_unique gs) with (r := r).
  - rewrite E. apply seq_NoDup.
  - rewrite gslot_nth_error, H1; auto. apply gslot_lt. rewrite H1. discriminate.
  - rewrite gslot_nth_error, H2; auto. apply gslot_lt. rewrite H2. discriminate.
Qed.

Lemma sagree_refl gs : sagree gs gs.
Proof. split; [lia|]. split; auto. Qed.
Lemma RI1_frame gs gs' w w' x : sagree gs gs' ->
  (forall ri rc, nth_error (w_reg w) ri = Some rc -> nth_error (w_reg w') ri = Some rc) -> RI1 gs w x -> RI1 gs' w' x.
Proof.
  intros (_ & Sf & _) Hr (rc & Er & Ep & El & Pm & Fm). exists rc. unfold reg_of in *.
  destruct (gslot gs (ri_slot x)) eqn:E; try discriminate. rewrite (Sf (ri_slot x)) by (rewrite E; reflexivity). rewrite E.
  split; [apply Hr; auto|]. split; auto. split; auto.
  assert (Hm : forall s, In s (ri_members x) -> gslot gs' s = gslot gs s).
  { intros s Hs. rewrite Forall_forall in Fm. apply Sf. apply is_mem_stable. apply (Fm s Hs). }
  split.
  - replace (map (cof gs') (ri_members x)) with (map (cof gs) (ri_members x)); auto. apply map_ext_in. intros s Hs.
    unfold cof. rewrite (Hm s Hs). reflexivity.
  - apply Forall_forall. intros s Hs. rewrite (Hm s Hs). rewrite Forall_forall in Fm. auto.
Qed.
Lemma Tracked_frame gs gs' regs : sagree gs gs' -> (forall s, (length gs <= s)%nat -> is_reg (gslot gs' s) = false) ->
  Tracked gs regs -> Tracked gs' regs.
Proof.
  intros (_ & _ & Sb) Hn T s ri H. destruct (Nat.ltb s (length gs)) eqn:E.
  - apply Nat.ltb_lt in E. apply (T s ri). rewrite <- (Sb s E); auto. rewrite H. reflexivity.
  - apply Nat.ltb_ge in E. specialize (Hn s E). rewrite H in Hn. discriminate.
Qed.

(* ---------- the ghost follows the slot table ---------- *)
Lemma GI_frame_wf gs w w' : frame w w' -> Forall (slotwf w) gs -> Forall (slotwf w') gs.
Proof. intros F H. eapply Forall_impl; [|exact H]. intros h. apply slotwf_frame; auto. Qed.
Lemma ghost_same gs w w' : GI gs w -> frame w w' -> w_reg w' = w_reg w -> w_slots w' = w_slots w -> GI gs w'.
Proof. intros (A & B & C) F R Sl. split; [rewrite Sl; auto|]. split; [eapply GI_frame_wf; eauto|rewrite R; auto]. Qed.
Lemma ghost_push gs w w' h : GI gs w -> frame w w' -> w_reg w' = w_reg w -> w_slots w' = w_slots w ++ [h] ->
  not_registry h -> slotwf w' h -> GI (gs ++ [h]) w'.
Proof.
  intros (A & B & C) F R Sl Nr Hs. split; [|split].
  - rewrite Sl. apply Forall2_app; auto. constructor; [left; reflexivity|constructor].
  - apply Forall_app. split; [eapply GI_frame_wf; eauto|constructor; auto].
  - rewrite regslots_app, C, R. destruct h; cbn; try apply app_nil_r. exfalso. eapply Nr; eauto.
Qed.
Lemma sagree_push gs h : sagree gs (gs ++ [h]).
Proof.
  split; [rewrite app_length; lia|]. split.
  - intros s H. apply gslot_snoc_old. apply gslot_lt. apply stable_not_dead. exact H.
  - intros s Hl _. apply gslot_snoc_old. exact Hl.
Qed.
Lemma Forall2_list_set_r {A B} (R : A -> B -> Prop) l l' s g y :
  Forall2 R l l' -> nth_error l s = Some g -> R g y -> Forall2 R l (list_set l' s y).
Proof.
  intros F; revert s; induction F as [|a b l l' Hab F IH]; intros s; destruct s; cbn; try discriminate.
  - intros H Hr. inversion H; subst. constructor; auto.
  - intros H Hr. constructor; auto.
Qed.
Lemma Forall2_list_set_both {A B} (R : A -> B -> Prop) l l' s x y :
  Forall2 R l l' -> R x y -> Forall2 R (list_set l s x) (list_set l' s y).
Proof.
  intros F; revert s; induction F as [|a b l l' Hab F IH]; intros s Hr; destruct s; cbn; try constructor; auto.
Qed.
Lemma regslots_list_set gs s g h' : nth_error gs s = Some g -> is_reg g = false -> is_reg h' = false ->
  regslots (list_set gs s h') = regslots gs.
Proof.
  revert s; induction gs as [|a gs IH]; intros s; destruct s; cbn [list_set nth_error]; try discriminate.
  - intros H Hg Hh. inversion H; subst. destruct g, h'; cbn in *; try discriminate; reflexivity.
  - intros H Hg Hh. change (a :: list_set gs s h') with ([a] ++ list_set gs s h'). change (a :: gs) with ([a] ++ gs).
    rewrite !regslots_app. f_equal. eapply IH; eauto.
Qed.
Lemma gslot_list_set_eq gs s h : (s < length gs)%nat -> gslot (list_set gs s h) s = h.
Proof. intros H. apply gslot_nth. apply nth_list_set_eq. exact H. Qed.
Lemma gslot_list_set_neq gs s s' h : s <> s' -> gslot (list_set gs s h) s' = gslot gs s'.
Proof. intros H. unfold gslot. rewrite !(nth_error_nth' _ HDead) || idtac. destruct (nth_error gs s') eqn:E.
  - rewrite (nth_error_nth _ _ _ E). apply nth_error_nth. rewrite nth_list_set_neq; auto.
  - assert (E' : nth_error (list_set gs s h) s' = None) by (rewrite nth_list_set_neq; auto).
    apply nth_error_None in E, E'. rewrite !nth_overflow by lia. reflexivity.
Qed.
Lemma stable_split h : stable h = false -> is_coll h = false /\ is_reg h = false.
Proof. unfold stable. intros H. apply orb_false_iff in H as [H _]. apply orb_false_iff in H. exact H. Qed.
Lemma ghost_put gs w w' s h0 h' : GI gs w -> WI w' -> frame w w' -> w_reg w' = w_reg w ->
  nth_error (w_slots w) s = Some h0 -> w_slots w' = list_set (w_slots w) s h' -> h0 <> HDead -> stable h' = false ->
  (stable h0 = false \/ h' = HDead) ->
  exists gs', GI gs' w' /\ sagree gs gs' /\ length gs' = length gs.
Proof.
  intros G W' F R En Sl Hn Hst Hd. pose proof G as (A & B & C). pose proof (GI_len _ _ G) as Hlen.
  assert (Hs : (s < length gs)%nat) by (rewrite Hlen; apply nth_error_Some; congruence).
  pose proof (gslot_nth_error gs s Hs) as Eg. set (g := gslot gs s) in *.
  assert (Hrel : grel g h0) by (pose proof (GI_rel gs w s G) as X; rewrite (slot_nth _ _ _ En) in X; exact X).
  assert (Hw' : slotwf w' h').
  { pose proof (wi_slots _ W') as Ws. rewrite Forall_forall in Ws. apply Ws. rewrite Sl. eapply nth_error_In.
    apply nth_list_set_eq. apply nth_error_Some. congruence. }
  destruct (stable g) eqn:Sg.
  - exists gs. split; [|split; [apply sagree_refl|reflexivity]]. split; [|split; [eapply GI_frame_wf; eauto|rewrite R; auto]].
    rewrite Sl. eapply Forall2_list_set_r; eauto. destruct Hrel as [E|[_ E]]; [|congruence]. subst h0. right. split; auto.
    destruct Hd as [Hd|Hd]; [congruence|auto].
  - destruct Hrel as [E|[E _]]; [|congruence]. subst h0. destruct (stable_split _ Sg) as [Sc Sr]. destruct (stable_split _ Hst) as [Sc' Sr'].
    exists (list_set gs s h'). split; [|split].
    + split; [|split].
      * rewrite Sl. apply Forall2_list_set_both; auto. left. reflexivity.
      * apply Forall_forall. intros x Hx. apply In_list_set in Hx as [Hx|Hx]; [|subst; auto].
        pose proof (GI_frame_wf gs w w' F B) as B'. rewrite Forall_forall in B'. auto.
      * rewrite (regslots_list_set gs s g h'), R; auto.
    + split; [rewrite list_set_length; lia|]. split.
      * intros s' H. destruct (Nat.eq_dec s s') as [<-|Ne]; [fold g in H; congruence|]. apply gslot_list_set_neq; auto.
      * intros s' _ H. destruct (Nat.eq_dec s s') as [<-|Ne]; [rewrite gslot_list_set_eq in H by auto; congruence|]. apply gslot_list_set_neq; auto.
    + apply list_set_length.
Qed.

Lemma ri_find_some r regs x : ri_find r regs = Some x -> In x regs /\ ri_slot x = r.
Proof.
  induction regs as [|y t IH]; cbn; [discriminate|]. destruct (Nat.eqb (ri_slot y) r) eqn:E.
  - intros H. inversion H; subst. apply Nat.eqb_eq in E. auto.
  - intros H. destruct (IH H). auto.
Qed.
Lemma ri_find_none r regs : ri_find r regs = None -> forall x, In x regs -> ri_slot x <> r.
Proof.
  induction regs as [|y t IH]; cbn; [tauto|]. destruct (Nat.eqb (ri_slot y) r) eqn:E; [discriminate|]. apply Nat.eqb_neq in E.
  intros H x [<-|Hx]; auto.
Qed.

Lemma remove_nat_perm s l : In s l -> Permutation l (s :: remove_nat s l).
Proof.
  induction l as [|x l IH]; cbn; [tauto|]. destruct (Nat.eqb x s) eqn:E.
  - apply Nat.eqb_eq in E. subst. auto.
  - apply Nat.eqb_neq in E. intros [H|H]; [congruence|]. rewrite (IH H) at 1. apply perm_swap.
Qed.
Lemma remove_nat_sub s l x : In x (remove_nat s l) -> In x l.
Proof. induction l as [|y l IH]; cbn; auto. destruct (Nat.eqb y s); cbn; intros H; auto. destruct H; auto. Qed.
Lemma nremove_split {V} k (c : V) cs : NoDup (map fst cs) -> In (k, c) cs ->
  exists l1 l2, cs = l1 ++ (k, c) :: l2 /\ nremove k cs = l1 ++ l2.
Proof.
  induction cs as [|[k' c'] cs IH]; cbn; [tauto|]. intros ND. inversion ND as [|? ? Nk ND']; subst. intros [E|H].
  - inversion E; subst. rewrite N.eqb_refl. exists [], cs. split; auto.
    clear -Nk. induction cs as [|[k2 c2] cs IH]; cbn; auto. cbn in Nk. destruct (k =? k2) eqn:E.
    + apply N.eqb_eq in E. subst. tauto.
    + f_equal. apply IH. tauto.
  - destruct (k =? k') eqn:E.
    + apply N.eqb_eq in E. subst. exfalso. apply Nk. apply in_map_iff. exists (k', c). auto.
    + destruct (IH ND' H) as (l1 & l2 & -> & En). exists ((k', c') :: l1), l2. cbn. rewrite En. auto.
Qed.

(* a changed registry does not disturb the others *)
Lemma RI_setreg_other gs w ri rc' x : RI1 gs w x -> gslot gs (ri_slot x) <> HRegistry ri ->
  RI1 gs (set_reg w (list_set (w_reg w) ri rc')) x.
Proof.
  intros (rc & Er & Rest) Hn. exists rc. split; [|exact Rest]. unfold reg_of in *. cbn [set_reg w_reg].
  destruct (gslot gs (ri_slot x)); try discriminate. rewrite nth_list_set_neq; auto.
Qed.
