(* C09: the uniform theorem, pinned.  Only statements, closed by [exact], pinned by [Check], with
   their assumptions printed (to be re-exported by Props/C09.v).

   spec_c09 (Spec/SpecC09.v) is the executable spec written from the property text and evaluated on
   the IMPLEMENTATION's observations on every run.  c09_spec_model: the world model satisfies it for
   ALL histories over the full operation language of World.v (clause (a): every constructor, Desc::new
   and Registry::new_custom answers Ok exactly when the text says; clause (b): every family returned
   by gather has a valid name, every sample valid, pairwise distinct label names - prefix and common
   labels included - and no histogram-valued sample carries a label le).  c09_oracle_silent: hence the
   oracle cannot raise an alarm when the implementation's observations agree with the model's.
   dom09 ops (executable): the constant labels of every Opts value handed to a metric constructor have
   pairwise distinct keys (they are a HashMap; pvlib renders every Opts through amap_of:
   c09_rendered_opts_in_domain).  c09_dom_needed: on an Opts term that is not a map the statement fails.
   Histories using OpCustom are covered: the spec exempts their gathers, clause (a) still holds. *)
Require Import PV.Base.Prelude PV.Model.Desc PV.Model.World PV.Spec.SpecC09 PV.Proofs.OracleFacts PV.Proofs.C09Spec.

Theorem c09_spec_model ops : dom09 ops = true -> spec_c09 ops (run world0 ops) = true.
Proof. exact (spec_c09_model ops). Qed.

Theorem c09_oracle_silent ops impl :
  dom09 ops = true -> first_diff 0 (run world0 ops) impl = None -> spec_c09 ops impl = true.
Proof. exact (spec_c09_oracle_silent ops impl). Qed.

(* clause (a) alone, one call in any world (no invariant, OpCustom allowed) *)
Theorem c09_ctor_ok_model w o : op_dom09 o = true -> ctor_ok (o, snd (step w o)) = true.
Proof. exact (ctor_ok_model w o). Qed.

(* the invariant behind clause (b) holds in every world reachable without OpCustom *)
Theorem c09_reachable_inv ops : dom09 ops = true -> existsb uses_custom ops = false -> Inv (run_world world0 ops).
Proof. exact (spec_c09_reachable_inv ops). Qed.

Theorem c09_rendered_opts_in_domain ns sub name help consts vars :
  opts_map_like (mkOpts ns sub name help (amap_of consts) vars) = true.
Proof. exact (rendered_opts_in_domain ns sub name help consts vars). Qed.

(* non-vacuity: a registry scenario with three non-empty gathers and six refusals, two corpus scenarios *)
Example c09_spec_model_nonvacuous :
  dom09 ex09_reg = true /\ spec_c09 ex09_reg (run world0 ex09_reg) = true
  /\ fam_counts (run world0 ex09_reg) = [3%nat; 2%nat; 3%nat] /\ refused (run world0 ex09_reg) = 6%nat
  /\ dom09 ex09_corpus3 = true /\ spec_c09 ex09_corpus3 (run world0 ex09_corpus3) = true
  /\ fam_counts (run world0 ex09_corpus3) = [1%nat] /\ refused (run world0 ex09_corpus3) = 3%nat
  /\ dom09 ex09_corpus1 = true /\ spec_c09 ex09_corpus1 (run world0 ex09_corpus1) = true /\ refused (run world0 ex09_corpus1) = 3%nat.
Proof. exact spec_c09_model_nonvacuous. Qed.
Example c09_dom_needed : dom09 ex09_not_a_map = false /\ spec_c09 ex09_not_a_map (run world0 ex09_not_a_map) = false.
Proof. exact dom09_needed. Qed.

Check c09_spec_model : forall ops, dom09 ops = true -> spec_c09 ops (run world0 ops) = true.
Check c09_oracle_silent : forall ops impl,
  dom09 ops = true -> first_diff 0 (run world0 ops) impl = None -> spec_c09 ops impl = true.
Check c09_ctor_ok_model : forall w o, op_dom09 o = true -> ctor_ok (o, snd (step w o)) = true.
Print Assumptions c09_spec_model.
Print Assumptions c09_oracle_silent.
Print Assumptions c09_ctor_ok_model.
Print Assumptions c09_reachable_inv.
Print Assumptions c09_rendered_opts_in_domain.
Print Assumptions c09_spec_model_nonvacuous.
Print Assumptions c09_dom_needed.
