(* C20: the executable spec of Spec/SpecC20.v holds of the MODEL's own observations, for every arm of the
   harness table and every value set whose custom registry is accepted (lemmas).

   Shape of the proof: the model's world after the two registry creations is an explicit record; the macro side
   (eval_call) and the twin side (constructor, register) are evaluated symbolically on it for each of the four
   kinds of metric (scalar value, histogram, value vector, histogram vector), with case analyses on: constructor
   refused / accepted, registry refuses (a common label clashes with one of the metric's own) / accepts, and for
   vectors the outcome of reaching the child.  The spec is then computed on the two explicit observation lists. *)
From Coq Require Import String.
Require Import PV.Base.Prelude PV.Base.F64 PV.Base.StrFacts.
Require Import PV.Model.Proto PV.Model.Desc PV.Model.Value PV.Model.Hist PV.Model.Vec PV.Model.Registry PV.Model.World.
Require Import PV.Model.MacroRules PV.Model.Macros PV.Model.MacroCases.
Require Import PV.Proofs.C06Facts PV.Proofs.C20Facts PV.Spec.SpecC20.
Open Scope list_scope.
Open Scope N_scope.

(* ---------- reflexivity of the comparison of observations ---------- *)
Lemma list_eqb_refl' {X} (e : X -> X -> bool) l : (forall x, e x x = true) -> list_eqb e l l = true.
Proof. intros H. induction l as [|x l IH]; cbn; auto. rewrite H, IH. reflexivity. Qed.
Lemma opt_eqb_refl {X} (e : X -> X -> bool) o : (forall x, e x x = true) -> opt_eqb e o o = true.
Proof. intros H. destruct o; cbn; auto. Qed.
Lemma f64_eqb_refl x : f64_eqb x x = true.
Proof. unfold f64_eqb. apply N.eqb_refl. Qed.
Lemma lp_eqb_refl x : lp_eqb x x = true.
Proof. unfold lp_eqb. rewrite !str_eqb_refl. reflexivity. Qed.
Lemma metric_eqb_refl m : metric_eqb m m = true.
Proof.
  unfold metric_eqb.
  rewrite (list_eqb_refl' lp_eqb) by apply lp_eqb_refl.
  rewrite !(opt_eqb_refl f64_eqb) by apply f64_eqb_refl.
  rewrite (opt_eqb_refl Z.eqb) by apply Z.eqb_refl.
  rewrite (opt_eqb_refl summary_eqb), (opt_eqb_refl hist_eqb); auto.
  - intros h. unfold hist_eqb. rewrite N.eqb_refl, f64_eqb_refl. cbn. apply list_eqb_refl'.
    intros b. unfold bucket_eqb. rewrite N.eqb_refl, f64_eqb_refl. reflexivity.
  - intros s. unfold summary_eqb. rewrite N.eqb_refl, f64_eqb_refl. cbn. apply list_eqb_refl'.
    intros q. unfold quantile_eqb. rewrite !f64_eqb_refl. reflexivity.
Qed.
Lemma mf_eqb_refl f : mf_eqb f f = true.
Proof.
  unfold mf_eqb. rewrite !str_eqb_refl, (list_eqb_refl' metric_eqb) by apply metric_eqb_refl.
  destruct (mf_type f); reflexivity.
Qed.
Lemma err_eqb_refl e : err_eqb e e = true.
Proof. destruct e; cbn; auto. rewrite !N.eqb_refl. reflexivity. Qed.
Lemma multiset_eqb_refl {X} (e : X -> X -> bool) l : (forall x, e x x = true) -> multiset_eqb e l l = true.
Proof. intros H. induction l as [|x l IH]; cbn; auto. rewrite H. exact IH. Qed.
Lemma obs_eqb_refl o : obs_eqb o o = true.
Proof.
  destruct o; cbn; auto.
  - destruct r; cbn; auto. apply err_eqb_refl.
  - destruct v; cbn; [apply f64_eqb_refl|apply N.eqb_refl|apply Z.eqb_refl].
  - apply f64_eqb_refl.
  - apply N.eqb_refl.
  - apply str_eqb_refl.
  - apply opt_eqb_refl. intros [[i0 d0] c0]. rewrite !N.eqb_refl. cbn. apply list_eqb_refl', lp_eqb_refl.
  - apply list_eqb_refl'. intros [[[[[n0 h0] i0] d0] cp0] vs0]. cbn.
    rewrite !str_eqb_refl, !N.eqb_refl, (list_eqb_refl' lp_eqb), (list_eqb_refl' str_eqb); auto using lp_eqb_refl, str_eqb_refl.
  - apply list_eqb_refl', mf_eqb_refl.
  - apply list_eqb_refl'. intros f. unfold mf_eqb_u. rewrite !str_eqb_refl, multiset_eqb_refl by apply metric_eqb_refl.
    destruct (mf_type f); reflexivity.
  - apply opt_eqb_refl. intros l. apply list_eqb_refl', f64_eqb_refl.
Qed.
Lemma obs_list_eqb_refl l : obs_list_eqb l l = true.
Proof. induction l as [|o l IH]; cbn; auto. rewrite obs_eqb_refl. exact IH. Qed.

(* ---------- registering into a registry with empty tables ---------- *)
Definition clash (lbl : option (list (str * str))) (d : Desc) : bool :=
  match lbl with
  | Some common => existsb (fun n => match alookup n common with Some _ => true | None => false end) (desc_label_names d)
  | None => false
  end.
Lemma reg_register_fresh {C} lbl pre d (c : C) :
  reg_register (mkReg [] [] [] lbl pre) [d] c =
  if clash lbl d then Err EMsg
  else Ok (mkReg [(ids_hash [d_id d], c)] [(d_fq_name d, d_dim d)] [d_id d] lbl pre).
Proof.
  unfold reg_register, clash. cbn [reg_check_descs r_desc_ids r_labels r_dim_hashes r_collectors r_prefix memN alookup].
  destruct lbl as [common|].
  - destruct (existsb _ _); reflexivity.
  - reflexivity.
Qed.
Lemma reg_register_again {C} cols dims lbl pre d (c : C) :
  reg_register (mkReg cols dims [d_id d] lbl pre) [d] c = Err EAlreadyReg.
Proof. unfold reg_register. cbn [reg_check_descs r_desc_ids memN]. rewrite N.eqb_refl. reflexivity. Qed.

(* gathering one non-empty family yields one family *)
Lemma gather_one p l f : mf_metric f <> [] -> exists g, gather_families p l [f] = [g].
Proof.
  intros H. unfold gather_families, merge_families. cbn [fold_left]. destruct (mf_metric f) eqn:E; [contradiction|].
  cbn [is_nil bt_insert map]. eauto.
Qed.

(* ---------- evaluating histories one step at a time ---------- *)
Lemma mrun_op rho d w o r w' ob : step w o = (w', ob) -> mrun rho d w (MOp o :: r) = ob :: mrun rho d w' r.
Proof. intros H. cbn [mrun]. rewrite H. reflexivity. Qed.
Lemma mrun_call rho d w c r w' ob : eval_call rho d c w = (w', ob) -> mrun rho d w (MCall c :: r) = ob :: mrun rho d w' r.
Proof. intros H. cbn [mrun]. rewrite H. reflexivity. Qed.
Lemma run_cons w o r w' ob : step w o = (w', ob) -> run w (o :: r) = ob :: run w' r.
Proof. intros H. cbn [run]. rewrite H. reflexivity. Qed.

#[local] Arguments gather_families : simpl never.
#[local] Arguments reg_register : simpl never.
#[local] Arguments desc_obs : simpl never.
#[local] Arguments value_collect : simpl never.
#[local] Arguments num_add : simpl never.
#[local] Arguments hash_label_values : simpl never.
#[local] Arguments value_new : simpl never.
#[local] Arguments hcore_new : simpl never.
#[local] Arguments vec_create : simpl never.
#[local] Arguments hc_observe : simpl never.
#[local] Arguments hist_metric : simpl never.
#[local] Arguments hist_family : simpl never.
#[local] Arguments amap_of : simpl never.
#[local] Arguments reg_new_custom : simpl never.
#[local] Arguments ids_hash : simpl never.

Definition reg0 : regcore collector := mkReg [] [] [] None None.
Definition W00 : world := mkWorld [] [] [] [reg0] [HRegistry 0].
Lemma step_reg0 : step world0 (OpRegistry None None) = (W00, ORes (Ok Datatypes.tt)).
Proof. reflexivity. Qed.


#[local] Arguments obs_eqb : simpl never.
#[local] Arguments obs_list_eqb : simpl never.
Lemma gather_nil p l : gather_families p l [] = [].
Proof. reflexivity. Qed.

Lemma hcore_new_inv o vals hc : hcore_new o vals = Ok hc ->
  exists d ls bs, hc = mkHCore d ls bs false 0 (shard_new (length bs)) (shard_new (length bs)) /\ hopts_describe o = Some d.
Proof.
  unfold hcore_new. destruct (hopts_describe o) as [d|]; [|discriminate]. destruct (has_le_label d); [discriminate|].
  destruct (make_label_pairs d vals) as [ls|]; [|discriminate]. destruct (check_and_adjust_buckets (ho_buckets o)) as [bs|]; [|discriminate].
  intros H. inversion H; subst. eauto 6.
Qed.
(* a freshly built histogram that observed once can be collected (its collector does not wait) *)
Lemma hist_metric_fresh o vals hc x : hcore_new o vals = Ok hc -> exists m h2, hist_metric (hc_observe hc x) = Some (m, h2).
Proof.
  intros H. apply hcore_new_inv in H as (d & ls & bs & -> & _).
  unfold hist_metric, hc_proto, hc_observe. cbn. change (wrap64 (0 + 1) =? 0 + 1) with true. cbn. eauto.
Qed.
Lemma vec_create_inv o k v : vec_create o k = Ok v -> exists d, v = mkVec d o k [].
Proof.
  unfold vec_create. destruct (match k with VKHist _ => _ | _ => false end); [discriminate|].
  destruct (describe o) as [d|]; [|discriminate]. intros H. inversion H. eauto.
Qed.

Ltac mopw tac := erewrite mrun_op; [|cbn; tac; cbn; reflexivity].
Ltac topw tac := erewrite run_cons; [|cbn; tac; cbn; reflexivity].
Ltac mop := mopw idtac.
Ltac top := topw idtac.
Ltac fin :=
  cbn [mrun run]; cbn;
  rewrite ?gather_nil; cbn;
  rewrite ?obs_eqb_refl, ?obs_list_eqb_refl, ?err_eqb_refl; cbn; try reflexivity.

Section Shapes.
  Variables (rho : valuation) (c : callx) (cop : op) (wr : bool) (pre : option str) (lbl0 : option (list (str * str))).
  Hypothesis Hop : ctor_op rho c = Some cop.
  Let lbl : option (list (str * str)) := match lbl0 with Some l => Some (amap_of l) | None => None end.
  Hypothesis Hdom : @reg_new_custom collector pre lbl = Ok (mkReg [] [] [] lbl pre).
  Hypothesis Hr : reg_slot rho 0 (c_reg c) = if wr then 1%nat else 0%nat.

  Definition reg1 : regcore collector := mkReg [] [] [] lbl pre.
  Definition W0 : world := mkWorld [] [] [] [reg0; reg1] [HRegistry 0; HRegistry 1].
  Lemma step_reg1 : step W00 (OpRegistry pre lbl0) = (W0, ORes (Ok Datatypes.tt)).
  Proof. cbn [step]. fold lbl. rewrite Hdom. reflexivity. Qed.

  Ltac start :=
    rewrite (mrun_op _ _ _ _ _ _ _ step_reg0), (mrun_op _ _ _ _ _ _ _ step_reg1);
    rewrite (run_cons _ _ _ _ _ step_reg0), (run_cons _ _ _ _ _ step_reg1).
  Ltac mcall H := erewrite mrun_call; [|unfold eval_call; rewrite Hop, (ctor_step _ _ _ H), ?Hr; cbn; unfold reg0, reg1].
  Ltac regf := rewrite reg_register_fresh; cbn [clash]; reflexivity.
  Ltac regfE E := rewrite reg_register_fresh, E; reflexivity.
  Ltac rega := rewrite reg_register_again; reflexivity.
  Ltac treg := erewrite run_cons; [|cbn; unfold reg0, reg1; regf].
  Ltac tregE E := erewrite run_cons; [|cbn; unfold reg0, reg1; regfE E].
  Ltac trega := erewrite run_cons; [|cbn; rega].
  Ltac tctor H := erewrite run_cons; [|rewrite (ctor_step _ _ _ H); cbn; reflexivity].
  (* the constructor refuses: nt = number of touch observations *)
  Ltac refused H T :=
    mcall H; [|reflexivity]; tctor H; top; T; mcall H; [|reflexivity]; mop; mop; tctor H; top; top; top; fin.

  Ltac acc H RF TR RF2 TR2 tac MT TT :=
    mcall H; [|RF]; tctor H; TR;
    mopw tac; MT; mopw tac; mopw tac;
    mcall H; [|RF2]; mopw tac; mopw tac;
    topw tac; TT; topw tac; topw tac; tctor H; TR2; topw tac; topw tac; fin.
  (* the three registry situations: named registry refuses (E : clash = true), named accepts (E : clash = false), default *)
  Ltac threeA H E tac MT TT := acc H ltac:(regfE E) ltac:(tregE E) ltac:(regfE E) ltac:(tregE E) tac MT TT.
  Ltac threeB H E tac MT TT := acc H ltac:(regfE E) ltac:(tregE E) ltac:(rega) ltac:(trega) tac MT TT.
  Ltac threeC H tac MT TT := acc H ltac:(regf) ltac:(treg) ltac:(rega) ltac:(trega) tac MT TT.

  Section Scalar.
    Variable rv : result vcore.
    Hypothesis Hres : ctor_result cop = Some (res_map CrV rv).
    Lemma scalar_spec :
      spec_c20 (ShReg wr false)
        (mrun rho 0 world0 [MOp (OpRegistry None None); MOp (OpRegistry pre lbl0); MCall c; MOp (OpDescOf 2); MOp (OpInc 2);
                            MOp (OpGather 0); MOp (OpGather 1); MCall c; MOp (OpGather 0); MOp (OpGather 1)])
        (run world0 [OpRegistry None None; OpRegistry pre lbl0; cop; OpRegister (if wr then 1%nat else 0%nat) 2; OpDescOf 2; OpInc 2;
                     OpGather 0; OpGather 1; cop; OpRegister (if wr then 1%nat else 0%nat) 3; OpGather 0; OpGather 1]) = true.
    Proof.
      start. destruct rv as [vc|e]; cbn [res_map] in Hres.
      - (destruct wr; [destruct (clash lbl (vc_desc vc)) eqn:Ecl|]); [threeA Hres Ecl idtac ltac:(mop) ltac:(top)|threeB Hres Ecl idtac ltac:(mop) ltac:(top)|threeC Hres idtac ltac:(mop) ltac:(top)].
      - destruct wr; refused Hres ltac:(mop; mop; mop; mop; top; top; top; top).
    Qed.
  End Scalar.

  Section Hist.
    Variables (rh : result hcore) (x : f64).
    Hypothesis Hres : ctor_result cop = Some (res_map CrH rh).
    Hypothesis Hfresh : forall hc, rh = Ok hc -> exists m h2, hist_metric (hc_observe hc x) = Some (m, h2).
    Lemma hist_spec :
      spec_c20 (ShReg wr false)
        (mrun rho 0 world0 [MOp (OpRegistry None None); MOp (OpRegistry pre lbl0); MCall c; MOp (OpDescOf 2); MOp (OpObserve 2 x);
                            MOp (OpGather 0); MOp (OpGather 1); MCall c; MOp (OpGather 0); MOp (OpGather 1)])
        (run world0 [OpRegistry None None; OpRegistry pre lbl0; cop; OpRegister (if wr then 1%nat else 0%nat) 2; OpDescOf 2; OpObserve 2 x;
                     OpGather 0; OpGather 1; cop; OpRegister (if wr then 1%nat else 0%nat) 3; OpGather 0; OpGather 1]) = true.
    Proof.
      start. destruct rh as [hc|e]; cbn [res_map] in Hres.
      - destruct (Hfresh hc eq_refl) as (m & h2 & Hm). destruct (hist_metric h2) as [[m' h3]|] eqn:Hm2;
          ((destruct wr; [destruct (clash lbl (hc_desc hc)) eqn:Ecl|]); [threeA Hres Ecl ltac:(rewrite ?Hm, ?Hm2) ltac:(mop) ltac:(top)|threeB Hres Ecl ltac:(rewrite ?Hm, ?Hm2) ltac:(mop) ltac:(top)|threeC Hres ltac:(rewrite ?Hm, ?Hm2) ltac:(mop) ltac:(top)]).
      - destruct wr; refused Hres ltac:(mop; mop; mop; mop; top; top; top; top).
    Qed.
  End Hist.

  Section VecValue.
    Variables (rvec : result veccore) (t : valtype) (k : numkind) (vals : list str).
    Hypothesis Hres : ctor_result cop = Some (res_map CrVec rvec).
    Hypothesis Hv : forall v, rvec = Ok v -> exists d o, v = mkVec d o (VKValue t k) [].
    Lemma vec_spec :
      spec_c20 (ShReg wr true)
        (mrun rho 0 world0 [MOp (OpRegistry None None); MOp (OpRegistry pre lbl0); MCall c; MOp (OpDescOf 2); MOp (OpWith 2 vals); MOp (OpInc 3);
                            MOp (OpGather 0); MOp (OpGather 1); MCall c; MOp (OpGather 0); MOp (OpGather 1)])
        (run world0 [OpRegistry None None; OpRegistry pre lbl0; cop; OpRegister (if wr then 1%nat else 0%nat) 2; OpDescOf 2; OpWith 2 vals; OpInc 3;
                     OpGather 0; OpGather 1; cop; OpRegister (if wr then 1%nat else 0%nat) 4; OpGather 0; OpGather 1]) = true.
    Proof.
      start. destruct rvec as [v|e]; cbn [res_map] in Hres.
      - destruct (Hv v eq_refl) as (d & o & ->).
        destruct (hash_label_values d vals) as [h|eh] eqn:Eh; [destruct (value_new o t k vals) as [ch|ec] eqn:Ec|];
          ((destruct wr; [destruct (clash lbl d) eqn:Ecl|]); [threeA Hres Ecl ltac:(rewrite ?Eh, ?Ec, ?N.eqb_refl) ltac:(mopw ltac:(rewrite ?Eh, ?Ec); mop) ltac:(topw ltac:(rewrite ?Eh, ?Ec); top)|threeB Hres Ecl ltac:(rewrite ?Eh, ?Ec, ?N.eqb_refl) ltac:(mopw ltac:(rewrite ?Eh, ?Ec); mop) ltac:(topw ltac:(rewrite ?Eh, ?Ec); top)|threeC Hres ltac:(rewrite ?Eh, ?Ec, ?N.eqb_refl) ltac:(mopw ltac:(rewrite ?Eh, ?Ec); mop) ltac:(topw ltac:(rewrite ?Eh, ?Ec); top)]).
      - destruct wr; refused Hres ltac:(mop; mop; mop; mop; mop; top; top; top; top; top).
    Qed.
  End VecValue.

  Section VecHist.
    Variables (rvec : result veccore) (bs : list f64) (vals : list str) (x : f64).
    Hypothesis Hres : ctor_result cop = Some (res_map CrVec rvec).
    Hypothesis Hv : forall v, rvec = Ok v -> exists d o, v = mkVec d o (VKHist bs) [].
    Lemma vechist_spec :
      spec_c20 (ShReg wr true)
        (mrun rho 0 world0 [MOp (OpRegistry None None); MOp (OpRegistry pre lbl0); MCall c; MOp (OpDescOf 2); MOp (OpWith 2 vals); MOp (OpObserve 3 x);
                            MOp (OpGather 0); MOp (OpGather 1); MCall c; MOp (OpGather 0); MOp (OpGather 1)])
        (run world0 [OpRegistry None None; OpRegistry pre lbl0; cop; OpRegister (if wr then 1%nat else 0%nat) 2; OpDescOf 2; OpWith 2 vals; OpObserve 3 x;
                     OpGather 0; OpGather 1; cop; OpRegister (if wr then 1%nat else 0%nat) 4; OpGather 0; OpGather 1]) = true.
    Proof.
      start. destruct rvec as [v|e]; cbn [res_map] in Hres.
      - destruct (Hv v eq_refl) as (d & o & ->).
        destruct (hash_label_values d vals) as [h|eh] eqn:Eh; [destruct (hcore_new (mkHOpts o bs) vals) as [ch|ec] eqn:Ec|].
        + destruct (hist_metric_fresh _ _ _ x Ec) as (m & h2 & Hm). destruct (hist_metric h2) as [[m' h3]|] eqn:Hm2;
            ((destruct wr; [destruct (clash lbl d) eqn:Ecl|]); [threeA Hres Ecl ltac:(rewrite ?Eh, ?Ec, ?N.eqb_refl, ?Hm, ?Hm2) ltac:(mopw ltac:(rewrite ?Eh, ?Ec); mop) ltac:(topw ltac:(rewrite ?Eh, ?Ec); top)|threeB Hres Ecl ltac:(rewrite ?Eh, ?Ec, ?N.eqb_refl, ?Hm, ?Hm2) ltac:(mopw ltac:(rewrite ?Eh, ?Ec); mop) ltac:(topw ltac:(rewrite ?Eh, ?Ec); top)|threeC Hres ltac:(rewrite ?Eh, ?Ec, ?N.eqb_refl, ?Hm, ?Hm2) ltac:(mopw ltac:(rewrite ?Eh, ?Ec); mop) ltac:(topw ltac:(rewrite ?Eh, ?Ec); top)]).
        + ((destruct wr; [destruct (clash lbl d) eqn:Ecl|]); [threeA Hres Ecl ltac:(rewrite ?Eh, ?Ec) ltac:(mopw ltac:(rewrite ?Eh, ?Ec); mop) ltac:(topw ltac:(rewrite ?Eh, ?Ec); top)|threeB Hres Ecl ltac:(rewrite ?Eh, ?Ec) ltac:(mopw ltac:(rewrite ?Eh, ?Ec); mop) ltac:(topw ltac:(rewrite ?Eh, ?Ec); top)|threeC Hres ltac:(rewrite ?Eh, ?Ec) ltac:(mopw ltac:(rewrite ?Eh, ?Ec); mop) ltac:(topw ltac:(rewrite ?Eh, ?Ec); top)]).
        + ((destruct wr; [destruct (clash lbl d) eqn:Ecl|]); [threeA Hres Ecl ltac:(rewrite ?Eh) ltac:(mopw ltac:(rewrite ?Eh); mop) ltac:(topw ltac:(rewrite ?Eh); top)|threeB Hres Ecl ltac:(rewrite ?Eh) ltac:(mopw ltac:(rewrite ?Eh); mop) ltac:(topw ltac:(rewrite ?Eh); top)|threeC Hres ltac:(rewrite ?Eh) ltac:(mopw ltac:(rewrite ?Eh); mop) ltac:(topw ltac:(rewrite ?Eh); top)]).
      - destruct wr; refused Hres ltac:(mop; mop; mop; mop; mop; top; top; top; top; top).
    Qed.
  End VecHist.
End Shapes.

(* ---------- from the shapes to the arms of the harness table ---------- *)
Open Scope string_scope.
Definition oarg_of (f : oform) : oarg :=
  match f with
  | FN => OO (ONew "NAME" "HELP" []) | FV => OO (OVar "OPTS")
  | FHN => OH (HNew "NAME" "HELP") | FHB => OH (HBuckets (HNew "NAME" "HELP") "BUCKETS") | FHV => OH (HVar "HOPTS")
  end.
Definition canon (var : string) (k : mkind) (f : oform) (wr : bool) : callx :=
  mkCall var k (oarg_of f) (if kind_is_vec k then Some "LABELS" else None) (if wr then RVar "REG" else RDefault).
Definition kind_form_ok (k : mkind) (f : oform) : bool :=
  Bool.eqb (kind_is_hist k) (match f with FHN | FHB | FHV => true | _ => false end).
Open Scope N_scope.

Lemma reg_new_custom_ok {C} p l (r : regcore C) : reg_new_custom p l = Ok r -> r = mkReg [] [] [] l p.
Proof. unfold reg_new_custom. destruct (_ || _); [discriminate|]. intros H. inversion H. reflexivity. Qed.
Lemma domain_reg vs : vs_in_domain vs = true ->
  @reg_new_custom collector (vs_prefix vs) (match vs_rlabels vs with Some l => Some (amap_of l) | None => None end)
  = Ok (mkReg [] [] [] (match vs_rlabels vs with Some l => Some (amap_of l) | None => None end) (vs_prefix vs)).
Proof.
  unfold vs_in_domain. destruct (reg_new_custom _ _) as [r|] eqn:E; [|discriminate]. intros _.
  rewrite (reg_new_custom_ok _ _ _ E) at 1. reflexivity.
Qed.

Lemma family_spec var k f wr vs :
  kind_form_ok k f = true -> vs_in_domain vs = true ->
  spec_c20 (ShReg wr (kind_is_vec k)) (mrun (rho_of vs) 0 world0 (inv_mops (canon var k f wr) vs)) (run world0 (twin_ops k f wr vs)) = true.
Proof.
  intros Hk Hd. pose proof (domain_reg vs Hd) as Hdom.
  destruct k; destruct f; try discriminate Hk; clear Hk.
  all: try (eapply scalar_spec; [reflexivity|exact Hdom|destruct wr; reflexivity|reflexivity]).
  all: try (eapply hist_spec; [reflexivity|exact Hdom|destruct wr; reflexivity|reflexivity|intros hc Hc; eapply hist_metric_fresh; exact Hc]).
  all: try (eapply vec_spec; [reflexivity|exact Hdom|destruct wr; reflexivity|reflexivity|intros v Hv; apply vec_create_inv in Hv as (d & ->); eauto]).
  all: try (eapply vechist_spec; [reflexivity|exact Hdom|destruct wr; reflexivity|reflexivity|intros v Hv; apply vec_create_inv in Hv as (d & ->); eauto]).
Qed.

(* ---------- every arm of the harness table ---------- *)
Definition entry_run (e : string * nat * nat * armshape * armkind) (vs : vset) (id : N) : armrun :=
  let '(m, a, n, sh, k) := e in mkRun vs id m a n sh k [] [].
Definition entry_good (e : string * nat * nat * armshape * armkind) : Prop :=
  forall vs id, vs_in_domain vs = true ->
    spec_c20 (ar_shape (entry_run e vs id)) (model_mac (entry_run e vs id)) (model_twin (entry_run e vs id)) = true.

Lemma domain_arm_vs vs id : vs_in_domain (arm_vs vs id) = vs_in_domain vs.
Proof. reflexivity. Qed.

Ltac entry_tac :=
  intros vs id Hd;
  lazymatch goal with
  | |- spec_c20 (ar_shape (entry_run (_, _, _, ShValue, _) _ _)) _ _ = true =>
      unfold model_twin, entry_run; cbn [ar_shape ar_kind]; apply obs_list_eqb_refl
  | |- _ =>
      unfold model_twin, model_mac, entry_run, run_vs; cbn [ar_shape ar_kind ar_macro ar_arm ar_natoms ar_vs ar_id];
      unfold model_macro;
      lazymatch goal with
      | |- context [find_case ?m ?a ?n] =>
          let fc := eval vm_compute in (find_case m a n) in change (find_case m a n) with fc
      end;
      cbn [i_nf];
      lazymatch goal with
      | |- spec_c20 _ (mrun _ _ _ (inv_mops ?cx _)) (run _ (twin_ops ?k ?f ?wr _)) = true =>
          let v := eval cbn in (c_var cx) in exact (family_spec v k f wr (arm_vs vs id) eq_refl Hd)
      end
  end.

Lemma table_good : Forall entry_good harness_table.
Proof. unfold harness_table. repeat (constructor; [entry_tac|]). constructor. Qed.

Lemma shape_eqb_eq a b : shape_eqb a b = true -> a = b.
Proof.
  destruct a as [|w v], b as [|w' v']; cbn; intros H; try discriminate; auto.
  apply andb_true_iff in H as [H1 H2]. apply Bool.eqb_prop in H1, H2. congruence.
Qed.
Lemma armkind_eqb_eq a b : armkind_eqb a b = true -> a = b.
Proof.
  destruct a as [|k f], b as [|k' f']; cbn; intros H; try discriminate; auto.
  apply andb_true_iff in H as [H1 H2]. destruct k, k'; try discriminate H1; destruct f, f'; try discriminate H2; reflexivity.
Qed.

Theorem spec_model (c : armrun) :
  arm_in_table c = true -> vs_in_domain (ar_vs c) = true ->
  spec_c20 (ar_shape c) (model_mac c) (model_twin c) = true.
Proof.
  intros Ht Hd. unfold arm_in_table in Ht. apply existsb_exists in Ht as ([[[[m a] n] sh] k] & Hin & He).
  apply andb_true_iff in He as [He E5]. apply andb_true_iff in He as [He E4]. apply andb_true_iff in He as [He E3].
  apply andb_true_iff in He as [E1 E2].
  apply String.eqb_eq in E1. apply Nat.eqb_eq in E2, E3. apply shape_eqb_eq in E4. apply armkind_eqb_eq in E5.
  pose proof table_good as G. rewrite Forall_forall in G. specialize (G _ Hin (ar_vs c) (ar_id c) Hd).
  destruct c as [vs id m' a' n' sh' k' mo to]. cbn [ar_macro ar_arm ar_natoms ar_shape ar_kind ar_vs ar_id] in *. subst.
  exact G.
Qed.
