(* C06, concurrent part: pinned statements.  Only statements, closed by [exact], pinned by [Check], with their assumptions
   printed.  Model: Model/RegConc.v (small-step model of Registry::register / unregister / gather under the registry's RwLock,
   with the ghost linearisation log); proofs: Proofs/RegConcBase.v (lock word, tables), Proofs/RegConcLin.v (the log),
   Proofs/RegConcFacts.v (validator soundness, table accesses under the lock, linearizability, admission corollaries),
   Proofs/RegConcSearch.v (exactness of the order search of Spec/SpecC06Conc.v).
   All statements quantify over every trace [tr] of labelled steps: every interleaving / schedule, any number of threads, any
   programs (a thread may invoke any call on any collector of the table whenever it is idle), any collector table [ct].

   Property text (C06), read for histories issued from several threads: the calls behave as if executed one at a time, each
   registration being accepted or refused by the sequential rule on the registry state at that moment.
   WHAT IS PROVED, for all traces: [c06_conc_lin] (linearizable w.r.t. Model/Registry.v's reg_register / reg_unregister /
   gather_families, linearisation step inside the critical section and inside the call window), [c06_conc_admission] (every
   registration's result is the sequential verdict on the tables at its linearisation point), and from it
   [c06_conc_no_double_admission] / [c06_conc_no_disagreeing_admission].  The sequential iff-characterisation of that verdict
   in terms of descriptors (no hashes) is Props/C06.v [c06_register_iff] with its collision hypotheses.
   THE EXECUTABLE SPEC HOLDS OF EVERY VALIDATED TRACE ([c06_conc_spec_of_validated], proved in full, no bound on the search):
       rcheck cs nth es = true -> in_domain_tbl cs nth es = true -> no_collision_tbl cs = true -> spec_c06conc cs es = true
   where in_domain_tbl = the constant-label lists of the scenario's descriptors have distinct keys and every event belongs to one
   of the nth threads, and no_collision_tbl = the executable no-collision hypothesis of the sequential part (Proofs/C06More.v:
   ids / dimension hashes / collector ids exact on the descriptors of the table).  Proof: the ghost log orders the completed
   calls inside their windows and replays on Model/Registry.v ([c06_conc_lin]); the spec's marker bookkeeping is the model's
   (Proofs/RegConcExtract.v); under no collision each answer of the sequential registry is explained by the spec's structural
   registry (Proofs/RegConcSpecSeq.v, reusing register_refines / unregister_refines / expected_is_spec_register of the
   sequential part); such an order is an [order_exists] derivation (Proofs/RegConcOrder.v); and by exactness of the search
   ([c06_conc_search_exact]) it then cannot answer NotFound - so neither completeness of the search nor its budget matter.
   Without the no-collision hypothesis the statement is false (64-bit hashes decide identity); while building this check the
   spec refuted it on NATURAL collectors: collectors were filed under the wrapping SUM of their descriptor ids and such sums
   coincide for ordinary collectors (repaired in /repo by edcf206; regression pinned as [c06_conc_regression_id_sum]). *)
Require Import PV.Base.Prelude.
Require Import PV.Model.Desc PV.Model.Value PV.Model.Registry PV.Model.Conc PV.Model.RegConc.
Require Import PV.Proofs.RegSeqFacts PV.Proofs.RegConcBase PV.Proofs.RegConcLin PV.Proofs.RegConcFacts.
Require Import PV.Spec.SpecC06 PV.Spec.SpecC06Conc PV.Proofs.RegConcSearch PV.Proofs.RegConcSpecSeq PV.Proofs.RegConcSpecOf.
From Coq Require Import Sorted.
Open Scope nat_scope.

(* ---- linearizability with respect to the sequential registry ---- *)
(* [qg_lin s] logs, newest first, (time, thread, call, sequential result); a call is logged by its linearisation step: the silent
   commit of a registration / effect of an unregistration / read of a gather, taken between lock acquisition and release. *)
Theorem c06_conc_lin ct tr s : qrun (qstate0 ct) tr = Some s ->
  qreplay ct qinit (map ql_op (rev (qg_lin s))) = (q_tab s, map ql_res (rev (qg_lin s)))
  /\ StronglySorted (fun a b => ql_time b < ql_time a) (qg_lin s)
  /\ (forall e, In e (qg_lin s) -> nth_error tr (ql_time e) = Some (QTau (ql_tid e)))
  /\ (forall i t c, nth_error tr i = Some (QE (RgCall t c)) -> qg_open s t = Some (c, i) \/ exists r trr, In (t, c, r, i, trr) (qg_done s))
  /\ (forall i t r, nth_error tr i = Some (QE (RgRet t r)) -> exists c ti, In (t, c, r, ti, i) (qg_done s))
  /\ (forall t c r ti trr, In (t, c, r, ti, trr) (qg_done s) ->
        ti < trr /\ nth_error tr ti = Some (QE (RgCall t c)) /\ nth_error tr trr = Some (QE (RgRet t r))
        /\ qlins_in t ti trr (qg_lin s) = [(c, r)])
  /\ (forall e, In e (qg_lin s) -> q_owner_ok s e).
Proof. exact (reg_linearizable ct tr s). Qed.
Check c06_conc_lin.
Print Assumptions c06_conc_lin.

(* real time: what a call that returned logged precedes what a later call logs *)
Theorem c06_conc_real_time ct tr s t1 c1 r1 ti1 tr1 t2 c2 r2 ti2 tr2 e1 e2 : qrun (qstate0 ct) tr = Some s ->
  In (t1, c1, r1, ti1, tr1) (qg_done s) -> In (t2, c2, r2, ti2, tr2) (qg_done s) -> tr1 < ti2 ->
  In e1 (qg_lin s) -> qwinb t1 ti1 tr1 e1 = true -> In e2 (qg_lin s) -> qwinb t2 ti2 tr2 e2 = true ->
  ql_time e1 < ql_time e2.
Proof. intros H. exact (q_real_time_order s t1 c1 r1 ti1 tr1 t2 c2 r2 ti2 tr2 e1 e2). Qed.
Print Assumptions c06_conc_real_time.

(* ---- the lock discipline ---- *)
Theorem c06_conc_mutual_exclusion ct tr s t u : qrun (qstate0 ct) tr = Some s ->
  q_holds_write (q_pc s t) = true -> u <> t -> q_holds_write (q_pc s u) = false /\ q_holds_read (q_pc s u) = false.
Proof. exact (reg_mutual_exclusion ct tr s t u). Qed.
Print Assumptions c06_conc_mutual_exclusion.

(* the tables change only in a silent step of the thread that holds the write lock while nobody else is in a critical section;
   they are accessed only by lock holders; collect() is called on registered collectors by a reader while nobody writes *)
Theorem c06_conc_tables_under_lock ct tr s l s' : qrun (qstate0 ct) tr = Some s -> qstep s l = Some s' ->
  (q_tab s' <> q_tab s ->
     exists t, l = QTau t /\ qg_wh s = Some t /\ q_wr s = true
               /\ forall u, u <> t -> q_holds_write (q_pc s u) = false /\ q_holds_read (q_pc s u) = false)
  /\ (forall t, l = QTau t -> In t (qg_rh s) \/ qg_wh s = Some t)
  /\ (forall t i, l = QE (RgCollect t i) -> In t (qg_rh s) /\ qg_wh s = None /\ registered (q_tab s) i = true).
Proof. exact (reg_table_access_under_lock ct tr s l s'). Qed.
Print Assumptions c06_conc_tables_under_lock.

(* the sequential registry of the ghost log IS the concrete tables; a registration between its check and its commit holds the
   verdict of the tables as they are now; a gather holds the view of the tables as they are now *)
Theorem c06_conc_invariants ct tr s : qrun (qstate0 ct) tr = Some s ->
  QLockInv s /\ qg_abs s = q_tab s
  /\ (forall t i v, q_pc s t = QReg3 i v -> v = reg_register (q_tab s) (descs_of ct i) i)
  /\ (forall t view vis, q_pc s t = QGa3 view vis -> view = gather_view ct (q_tab s)).
Proof. exact (reg_invariants ct tr s). Qed.
Print Assumptions c06_conc_invariants.

(* ---- admission ---- *)
(* the result of every completed registration is exactly the sequential verdict (Registry.v reg_register) on the tables
   produced by the calls linearised before it; its linearisation step is a silent step of its thread inside its call window *)
Theorem c06_conc_admission ct tr s t i r ti trr : qrun (qstate0 ct) tr = Some s ->
  In (t, RRegister i, r, ti, trr) (qg_done s) ->
  exists e L1 L2,
    In e (qg_lin s) /\ ql_tid e = t /\ ti <= ql_time e <= trr /\ nth_error tr (ql_time e) = Some (QTau t)
    /\ qchron s = L1 ++ (RRegister i, r) :: L2
    /\ L1 = map qopres (rev (filter (fun x => Nat.ltb (ql_time x) (ql_time e)) (qg_lin s)))
    /\ r = ret_of (reg_register (qarun ct qinit L1) (descs_of ct i) i).
Proof. intros H. apply qrun_reach in H. exact (conc_admission ct tr s H t i r ti trr). Qed.
Check c06_conc_admission.
Print Assumptions c06_conc_admission.

(* hence: in a trace without unregister calls, two different completed registrations that both returned Ok share no descriptor
   id - two overlapping registrations of collectors with a common descriptor are never both accepted ... *)
Theorem c06_conc_no_double_admission ct tr s t1 i ti1 tr1 t2 j ti2 tr2 : qrun (qstate0 ct) tr = Some s ->
  (forall idx t k, nth_error tr idx <> Some (QE (RgCall t (RUnregister k)))) ->
  In (t1, RRegister i, ROk, ti1, tr1) (qg_done s) -> In (t2, RRegister j, ROk, ti2, tr2) (qg_done s) -> (t1, ti1) <> (t2, ti2) ->
  forall d1 d2, In d1 (descs_of ct i) -> In d2 (descs_of ct j) -> d_id d1 <> d_id d2.
Proof. intros H. apply qrun_reach in H. exact (conc_no_double_admission ct tr s H t1 i ti1 tr1 t2 j ti2 tr2). Qed.
Check c06_conc_no_double_admission.
Print Assumptions c06_conc_no_double_admission.
(* ... in general: between two successful registrations with a common descriptor id the log holds a successful unregistration *)
Theorem c06_conc_no_double_admission_log ct a L1 i L2 j L3 :
  qconsistent ct a (L1 ++ (RRegister i, ROk) :: L2 ++ (RRegister j, ROk) :: L3) ->
  (forall y, In y L2 -> ~ ok_unregister y) ->
  forall d1 d2, In d1 (descs_of ct i) -> In d2 (descs_of ct j) -> d_id d1 <> d_id d2.
Proof. exact (log_no_double_admission ct a L1 i L2 j L3). Qed.
Print Assumptions c06_conc_no_double_admission_log.
(* ... and (the C14 side) two different completed registrations that both returned Ok agree on the dimension hash (help and
   label names) of every name they share, whatever the interleaving and whatever lies between them *)
Theorem c06_conc_no_disagreeing_admission ct tr s t1 i ti1 tr1 t2 j ti2 tr2 : qrun (qstate0 ct) tr = Some s ->
  In (t1, RRegister i, ROk, ti1, tr1) (qg_done s) -> In (t2, RRegister j, ROk, ti2, tr2) (qg_done s) -> (t1, ti1) <> (t2, ti2) ->
  forall d1 d2, In d1 (descs_of ct i) -> In d2 (descs_of ct j) -> d_fq_name d1 = d_fq_name d2 -> d_dim d1 = d_dim d2.
Proof. intros H. apply qrun_reach in H. exact (conc_no_disagreeing_admission ct tr s H t1 i ti1 tr1 t2 j ti2 tr2). Qed.
Check c06_conc_no_disagreeing_admission.
Print Assumptions c06_conc_no_disagreeing_admission.

(* ---- the tie: every trace the validator accepts is the visible part of a path of the model ---- *)
Theorem c06_conc_validator_sound cs nth es :
  rcheck cs nth es = true ->
  exists ct tr s, build_ctable cs = Some ct /\ qreach ct tr s /\ qvisible tr = es /\ qfinal nth s = true.
Proof. exact (rvalidated_is_reachable cs nth es). Qed.
Print Assumptions c06_conc_validator_sound.

(* ---- the executable spec: a NotFound answer of the order search is exact ---- *)
Theorem c06_conc_search_exact cs es :
  spec_c06conc cs es = false -> snd (qextract es) = true -> calls_in_range cs (fst (qextract es)) = true ->
  ~ sequential_order_exists cs (fst (qextract es)).
Proof. exact (spec_false_exact cs es). Qed.
Print Assumptions c06_conc_search_exact.
Theorem c06_conc_search_sound cs done : order_search cs done = QFound -> sequential_order_exists cs done.
Proof. exact (order_search_sound cs done). Qed.
Print Assumptions c06_conc_search_sound.
Theorem c06_conc_classifier_is_spec cs es :
  spec_c06conc cs es = negb (N.eqb (conc_classify cs es) 2) /\ conc_unknown cs es = N.eqb (conc_classify cs es) 1.
Proof. exact (conj (conc_classify_spec cs es) (conc_classify_unknown cs es)). Qed.
Print Assumptions c06_conc_classifier_is_spec.

(* ---- the executable spec holds of every trace the validator accepts (uniform theorem of the concurrent part) ---- *)
Theorem c06_conc_spec_of_validated cs nth es :
  rcheck cs nth es = true -> in_domain_tbl cs nth es = true -> no_collision_tbl cs = true -> spec_c06conc cs es = true.
Proof. exact (c06_spec_of_validated cs nth es). Qed.
Check c06_conc_spec_of_validated.
Print Assumptions c06_conc_spec_of_validated.
(* one call of the sequential registry of the model is explained by the spec's structural registry, and the two stay related *)
Theorem c06_conc_seq_step cs ct : build_ctable cs = Some ct -> consts_ok cs = true -> no_collision_tbl cs = true ->
  forall x a o, SR ct x a -> (match o with RRegister i | RUnregister i => i < length ct | RGather => True end) ->
  exists x', apply_call cs x {| qc_t := 0; qc_call := o; qc_ret := snd (qspec ct a o); qc_ci := 0; qc_ri := 0 |} = Some x'
             /\ SR ct x' (fst (qspec ct a o)).
Proof. exact (sr_step cs ct). Qed.
Print Assumptions c06_conc_seq_step.
(* non-vacuity: the real traces above and the tables the generator uses lie in the domain of the theorem (a table with every
   descriptor of the generator's pool, alone and in the combinations of the fixed scenarios) *)
Definition pool_tbl : list (list qdesc) :=
  let x := [120]%N in let y := [121]%N in let z := [122]%N in let h := [104]%N in let hb := [104; 101; 108; 112; 32; 66]%N in let k := [107]%N in
  [[(x, h, [], [])]; [(x, hb, [], [])]; [(x, h, [], [(k, [49]%N)])]; [(x, h, [], [(k, [50]%N)])]; [(x, hb, [], [(k, [50]%N)])];
   [(x, hb, [], [(k, [51]%N)])]; [(y, h, [], [])]; [(y, hb, [], [(k, [49]%N)])]; [(z, h, [], [])];
   [(y, h, [], []); (x, h, [], [])]; [(x, hb, [], [(k, [51]%N)]); (y, h, [], [])]; [(x, hb, [], [(k, [50]%N)]); (x, h, [], [])];
   [(x, h, [], []); (y, h, [], []); (z, h, [], [])]].
Theorem c06_conc_in_domain_examples :
  (in_domain_tbl race_cs 2 reg_race_trace = true /\ no_collision_tbl race_cs = true)
  /\ (in_domain_tbl sum_cs 1 sum_trace = true /\ no_collision_tbl sum_cs = true)
  /\ (consts_ok pool_tbl = true /\ no_collision_tbl pool_tbl = true).
Proof. vm_compute. auto. Qed.
Print Assumptions c06_conc_in_domain_examples.

(* ---- regression for the repaired defect found by this check (collectors were filed under the wrapping SUM of their descriptor
   ids, and the sums of two natural, structurally different collectors coincide; /repo commit edcf206 hashes the sorted ids
   instead): the former witness, as the implementation answers it now, is a run of the model and is explained by the spec; the ids
   still have equal sums but the collector ids differ; what the code answered before the repair has no sequential explanation ---- *)
Theorem c06_conc_regression_id_sum :
  rcheck sum_cs 1 sum_trace = true /\ spec_c06conc sum_cs sum_trace = true
  /\ (exists ct, build_ctable sum_cs = Some ct
                 /\ map d_id (descs_of ct 0) = [8312363255629617082; 643391356731576721]%N
                 /\ map d_id (descs_of ct 1) = [8311237355722518243; 644517256638675560]%N
                 /\ collector_id (descs_of ct 0) <> collector_id (descs_of ct 1))
  /\ spec_c06conc sum_cs sum_trace_before = false
  /\ ~ sequential_order_exists sum_cs (fst (qextract sum_trace_before)).
Proof. exact sum_collision_regression. Qed.
Print Assumptions c06_conc_regression_id_sum.

(* ---- non-vacuity: a real trace of the implementation (two threads race to register collectors that share a descriptor; the
   loser is blocked, then refused with AlreadyReg) is accepted by the validator and explained by the spec; the lock pattern and
   the results of the seeded refactoring (check under the read lock, insert under a separate write lock, both accepted) are
   rejected by the validator and have no sequential explanation ---- *)
Theorem c06_conc_race_trace :
  rcheck race_cs 2 reg_race_trace = true /\ spec_c06conc race_cs reg_race_trace = true.
Proof. exact (conj reg_race_trace_valid race_trace_explained). Qed.
Print Assumptions c06_conc_race_trace.
Theorem c06_conc_split_refuted :
  (rcheck race_cs 2 reg_split_trace = false /\ rfirst_rejected race_cs reg_split_trace = Some 1%N)
  /\ snd (qextract reg_split_trace) = true /\ spec_c06conc race_cs reg_split_trace = false
  /\ ~ sequential_order_exists race_cs (fst (qextract reg_split_trace)).
Proof. exact (conj reg_split_trace_rejected split_trace_unexplained). Qed.
Print Assumptions c06_conc_split_refuted.
