(* [fork of Proofs/C14Spec.v that allows custom collectors exposing no families: domain dom14c]
   The executable spec of C14 (Spec/SpecC14.v) holds of the world model for every history inside
   the executable domain [dom14c] (= [dom07c], Proofs/C07SpecRegs.v) unless collectors of different
   kinds are registered under one name in one registry, in which case the delimitation of the
   recorded finding [known_c14] holds.  Everything is a corollary of [walk_model] (Proofs/C07Spec.v):
   in strict mode every gathered family is homogeneous and back-to-back gathers are equal. *)
Require Import PV.Base.Prelude PV.Base.F64 PV.Base.StrFacts.
Require Import PV.Model.Proto PV.Model.Desc PV.Model.Value PV.Model.Hist PV.Model.Vec PV.Model.Registry PV.Model.World.
Require Import PV.Proofs.GatherFacts PV.Proofs.C07SpecGather PV.Proofs.C07SpecCustomWorld PV.Proofs.C07SpecCustomStep PV.Proofs.C07SpecCustomRegs PV.Proofs.C07SpecCustom.
Require Import PV.Spec.SpecC07 PV.Spec.SpecC14.
Open Scope N_scope.

(* the executable domain of C14 is that of C07 *)
Definition dom14c (ops : list op) : bool := dom07c ops.


Lemma walk_weaken (chk chk' : world -> reginfo -> list MetricFamily -> bool) (same same' : list MetricFamily -> list MetricFamily -> bool) :
  (forall w x f, chk w x f = true -> chk' w x f = true) -> (forall a b, same a b = true -> same' a b = true) ->
  forall ops w regs rn obs, walk chk same w regs rn ops obs = true -> walk chk' same' w regs rn ops obs = true.
Proof.
  intros Hc Hs. induction ops as [|o ops IH]; intros w regs rn obs; [auto|]. destruct obs as [|ob obs]; [auto|].
  destruct (classic_gather o) as [[r ->]|Hn].
  - cbn [walk]. destruct ob; auto. destruct (ri_find r regs) as [x|]; auto.
    rewrite !andb_true_iff. intros [[A B] C]. repeat split; auto.
    rewrite forallb_forall in *. intros e He. specialize (B e He). destruct (gkey_eqb (fst e) (key_of x)); cbn [negb orb] in *; auto.
  - rewrite !walk_nongather by auto. apply IH.
Qed.
Lemma same_types_of_eqb a : forall b, list_eqb mf_eqb a b = true -> same_types a b = true.
Proof.
  unfold same_types. induction a as [|x a IH]; destruct b as [|y b]; cbn; auto.
  unfold mf_eqb at 1. rewrite !andb_true_iff. intros [[[[A B] C] D] E]. repeat split; auto.
Qed.
Theorem c14_spec_strict_custom ops : dom14c ops = true -> mixed_kinds_registered ops (World.run world0 ops) = false ->
  spec_c14 ops (World.run world0 ops) = true.
Proof.
  intros Hd Hm. destruct (walk_model true ops world0 [] [] [] [] (INVr_nil _ _ _ _ _ (INV0 true)) Hd (fun _ => Hm)) as [A B].
  unfold spec_c14. apply andb_true_iff. split.
  - apply (B eq_refl).
  - eapply walk_weaken; [| |exact A]; auto. apply same_types_of_eqb.
Qed.
Theorem c14_spec_model_custom ops : dom14c ops = true ->
  spec_c14 ops (World.run world0 ops) = true \/ known_c14 ops (World.run world0 ops) = true.
Proof.
  intros Hd. destruct (mixed_kinds_registered ops (World.run world0 ops)) eqn:Hm.
  - right. unfold known_c14. apply c07_known_delimited_custom; auto.
  - left. apply c14_spec_strict_custom; auto.
Qed.

(* the generated scenarios of Proofs/C07Spec.v: inside the domain, strict spec by the theorem *)
Example exc_many_labels_c14 : dom14c ex_many_labels_c = true /\ spec_c14 ex_many_labels_c (World.run world0 ex_many_labels_c) = true.
Proof. split; [vm_compute; reflexivity|]. apply c14_spec_strict_custom; vm_compute; reflexivity. Qed.
Example exc_gathergen_c14 : dom14c ex_gathergen_c = true /\ spec_c14 ex_gathergen_c (World.run world0 ex_gathergen_c) = true.
Proof. split; [vm_compute; reflexivity|]. apply c14_spec_strict_custom; vm_compute; reflexivity. Qed.
Example exc_c14_witness_c14 : dom14c ex_c14_witness_c = true /\ known_c14 ex_c14_witness_c (World.run world0 ex_c14_witness_c) = true.
Proof. split; vm_compute; reflexivity. Qed.
Example exc_locals_drop_c14 : dom14c ex_locals_drop_c = true /\ spec_c14 ex_locals_drop_c (World.run world0 ex_locals_drop_c) = true.
Proof. split; [vm_compute; reflexivity|]. apply c14_spec_strict_custom; vm_compute; reflexivity. Qed.
Example ex_custom_gen_c14 : dom14c ex_custom_gen = true /\ spec_c14 ex_custom_gen (World.run world0 ex_custom_gen) = true.
Proof. split; [vm_compute; reflexivity|]. apply c14_spec_strict_custom; vm_compute; reflexivity. Qed.
Example ex_custom_accepted_c14 : dom14c ex_custom_accepted = true /\ spec_c14 ex_custom_accepted (World.run world0 ex_custom_accepted) = true.
Proof. split; [vm_compute; reflexivity|]. apply c14_spec_strict_custom; vm_compute; reflexivity. Qed.
