(* C10, part 2: the ghost linearisation log.  For every reachable state: the log replays on the abstract
   specification to the abstract state and the logged results; every call's return value is the one its
   logged operations dictate; every logged operation lies inside the call/return window of its call;
   calls and returns of the trace are exactly the recorded ones. *)
Require Import PV.Base.Prelude PV.Base.StrFacts PV.Model.Conc PV.Model.VecConc PV.Proofs.VecConcBase.
From Coq Require Import Arith Lia Permutation Sorted.
Open Scope nat_scope.

Definition opres (e : lent) : aop * ares := (le_op e, le_res e).
Definition mineb (t ti : nat) (e : lent) : bool := Nat.eqb (le_tid e) t && Nat.leb ti (le_time e).
Definition winb (t ti tr : nat) (e : lent) : bool := mineb t ti e && Nat.leb (le_time e) tr.
(* operations logged by thread t since time ti / between ti and tr, oldest first *)
Definition lins_of (t ti : nat) (log : list lent) : list (aop * ares) := map opres (rev (filter (mineb t ti) log)).
Definition lins_in (t ti tr : nat) (log : list lent) : list (aop * ares) := map opres (rev (filter (winb t ti tr) log)).
Definition reads (vis : list (key * N * N)) : list (aop * ares) := map (fun x => (ARead (snd (fst x)), RValue (snd x))) vis.

(* what a call returns, given the abstract operations (with their abstract results) linearised for it *)
Definition ret_matches (nl : nat) (c : call) (r : retv) (ls : list (aop * ares)) : Prop :=
  match c with
  | CWithInc k d =>
      if Nat.eqb (length k) nl then r = RUnit /\ exists ch, ls = [(AGet k, RChild ch); (AUpd ch d, RDone)]
      else r = RErr /\ ls = []
  | CRemove k =>
      if Nat.eqb (length k) nl then (r = RUnit /\ ls = [(ARemove k, RDone)]) \/ (r = RErr /\ ls = [(ARemove k, RAbsent)])
      else r = RErr /\ ls = []
  | CVReset => r = RUnit /\ ls = [(AReset, RDone)]
  | CVCollect =>
      exists snap vis, r = RColl (vis_result vis) /\ ls = (ACollect, RKeys snap) :: reads vis /\ Permutation (vis_keys vis) snap
  | _ => False
  end.

(* the operations logged so far for the current call of a thread at program counter p *)
Definition pc_shape (nl : nat) (c : call) (p : pc) (ls : list (aop * ares)) : Prop :=
  match p with
  | PIdle => False
  | PG1 k d | PG2 k d | PG3 k d None | PG4 k d | PG5 k d | PG6 k d => c = CWithInc k d /\ length k = nl /\ ls = []
  | PG3 k d (Some ch) | PG7 k d ch | PU k ch d => c = CWithInc k d /\ length k = nl /\ ls = [(AGet k, RChild ch)]
  | PM1 k | PM2 k => c = CRemove k /\ length k = nl /\ ls = []
  | PM3 k ok => c = CRemove k /\ length k = nl /\ ls = [(ARemove k, if ok then RDone else RAbsent)]
  | PZ1 | PZ2 => c = CVReset /\ ls = []
  | PZ3 => c = CVReset /\ ls = [(AReset, RDone)]
  | PC1 => c = CVCollect /\ ls = []
  | PC2 snap vis => c = CVCollect /\ ls = (ACollect, RKeys snap) :: reads vis
  | PR r => ret_matches nl c r ls
  end.

Record GInv (tr : list label) (s : vstate) : Prop := {
  G_now : g_now s = length tr;
  G_time : Forall (fun e => le_time e < g_now s) (g_lin s);
  G_sorted : StronglySorted (fun a b => le_time b < le_time a) (g_lin s);
  G_replay : areplay ainit (map le_op (rev (g_lin s))) = (g_abs s, map le_res (rev (g_lin s)));
  G_open : forall t, match g_open s t with
                     | None => v_pc s t = PIdle
                     | Some (c, ti) =>
                         ti < g_now s /\ pc_shape (v_nl s) c (v_pc s t) (lins_of t ti (g_lin s))
                         /\ nth_error tr ti = Some (LE (ECall t c))
                         /\ (forall c' r' ti' tr', In (t, c', r', ti', tr') (g_done s) -> tr' < ti)
                     end;
  G_done : forall t c r ti trr, In (t, c, r, ti, trr) (g_done s) ->
             ti < trr /\ trr < g_now s /\ ret_matches (v_nl s) c r (lins_in t ti trr (g_lin s))
             /\ nth_error tr ti = Some (LE (ECall t c)) /\ nth_error tr trr = Some (LE (ERet t r));
  G_disj : forall t c1 r1 ti1 tr1 c2 r2 ti2 tr2,
             In (t, c1, r1, ti1, tr1) (g_done s) -> In (t, c2, r2, ti2, tr2) (g_done s) ->
             (c1, r1, ti1, tr1) = (c2, r2, ti2, tr2) \/ tr1 < ti2 \/ tr2 < ti1;
  G_owner : forall e, In e (g_lin s) ->
             (exists c ti, g_open s (le_tid e) = Some (c, ti) /\ ti <= le_time e)
             \/ (exists c r ti trr, In (le_tid e, c, r, ti, trr) (g_done s) /\ ti <= le_time e <= trr);
  G_calls : forall i t c, nth_error tr i = Some (LE (ECall t c)) ->
             g_open s t = Some (c, i) \/ exists r trr, In (t, c, r, i, trr) (g_done s);
  G_rets : forall i t r, nth_error tr i = Some (LE (ERet t r)) -> exists c ti, In (t, c, r, ti, i) (g_done s) }.

(* ------------------------------------------------------------------ lemmas on the log filters *)
Lemma lins_of_cons t ti e log :
  lins_of t ti (e :: log) = if mineb t ti e then lins_of t ti log ++ [opres e] else lins_of t ti log.
Proof. unfold lins_of. cbn. destruct (mineb t ti e); auto. cbn. rewrite map_app; auto. Qed.
Lemma lins_in_cons t ti tr e log :
  lins_in t ti tr (e :: log) = if winb t ti tr e then lins_in t ti tr log ++ [opres e] else lins_in t ti tr log.
Proof. unfold lins_in. cbn. destruct (winb t ti tr e); auto. cbn. rewrite map_app; auto. Qed.
Lemma lins_in_of t ti tr log : Forall (fun e => le_time e <= tr) log -> lins_in t ti tr log = lins_of t ti log.
Proof.
  intros H. unfold lins_in, lins_of. f_equal. f_equal. induction H as [|e log He _ IH]; cbn; auto.
  unfold winb at 1. apply Nat.leb_le in He. rewrite He, andb_true_r, IH; auto.
Qed.
Lemma lins_of_nil t ti log : Forall (fun e => le_time e < ti) log -> lins_of t ti log = [].
Proof.
  intros H. unfold lins_of. replace (filter (mineb t ti) log) with (@nil lent); auto.
  induction H as [|e log He _ IH]; cbn; auto. unfold mineb at 1.
  replace (Nat.leb ti (le_time e)) with false by (symmetry; apply Nat.leb_gt; auto). rewrite andb_false_r; auto.
Qed.

Lemma areplay_snoc a os o :
  areplay a (os ++ [o]) = (fst (aspec (fst (areplay a os)) o), snd (areplay a os) ++ [snd (aspec (fst (areplay a os)) o)]).
Proof.
  revert a; induction os as [|x os IH]; intros a; cbn.
  - destruct (aspec a o); auto.
  - destruct (aspec a x) as [a1 r1]. rewrite IH. destruct (areplay a1 os); cbn. auto.
Qed.

Lemma nth_error_snoc_old {A} (l : list A) x i : i < length l -> nth_error (l ++ [x]) i = nth_error l i.
Proof. intros H. apply nth_error_app1; auto. Qed.
Lemma nth_error_snoc_last {A} (l : list A) x : nth_error (l ++ [x]) (length l) = Some x.
Proof. rewrite nth_error_app2, Nat.sub_diag; auto. Qed.
Lemma nth_error_snoc_inv {A} (l : list A) x i y : nth_error (l ++ [x]) i = Some y ->
  (i < length l /\ nth_error l i = Some y) \/ (i = length l /\ y = x).
Proof.
  intros H. destruct (Nat.lt_ge_cases i (length l)) as [Hl|Hl].
  - left. rewrite nth_error_app1 in H; auto.
  - right. rewrite nth_error_app2 in H by auto. destruct (i - length l) as [|n] eqn:E.
    + cbn in H. inversion H. split; auto. lia.
    + cbn in H. destruct n; discriminate.
Qed.

Definition not_callret (l : label) : Prop :=
  match l with LE (ECall _ _) | LE (ERet _ _) => False | _ => True end.

Lemma coll_eqb_eq a b : coll_eqb a b = true -> a = b.
Proof.
  revert b; induction a as [|[k v] a IH]; destruct b as [|[k' v'] b]; cbn; try congruence.
  intros H. apply andb_true_iff in H as [H H3]. apply andb_true_iff in H as [H1 H2].
  apply key_eqb_eq in H1. apply N.eqb_eq in H2. subst. f_equal; auto.
Qed.
Lemma retv_eqb_eq a b : retv_eqb a b = true -> a = b.
Proof. destruct a, b; cbn; try discriminate; auto. intros H. apply coll_eqb_eq in H. congruence. Qed.

Lemma idle_no_open tr s t : GInv tr s -> v_pc s t = PIdle -> g_open s t = None.
Proof.
  intros G H. pose proof (G_open tr s G t) as Ho. destruct (g_open s t) as [[c ti]|]; auto.
  destruct Ho as (_ & Hs & _). rewrite H in Hs. destruct Hs.
Qed.
Lemma busy_open tr s t : GInv tr s -> v_pc s t <> PIdle -> exists c ti, g_open s t = Some (c, ti).
Proof.
  intros G H. pose proof (G_open tr s G t) as Ho. destruct (g_open s t) as [[c ti]|]; eauto. tauto.
Qed.

(* ------------------------------------------------------------------ the four kinds of ghost steps *)
Section Steps.
Variables (tr : list label) (s s' : vstate) (l : label) (t : nat).
Hypothesis G : GInv tr s.
Hypothesis Enow : g_now s' = S (g_now s).
Hypothesis Enl : v_nl s' = v_nl s.


(* a step that logs nothing and is neither a call nor a return marker *)
Lemma ginv_pc p' :
  g_lin s' = g_lin s -> g_open s' = g_open s -> g_done s' = g_done s -> g_abs s' = g_abs s ->
  (forall u, v_pc s' u = updf (v_pc s) t p' u) ->
  v_pc s t <> PIdle ->
  (forall c ls, pc_shape (v_nl s) c (v_pc s t) ls -> pc_shape (v_nl s) c p' ls) ->
  not_callret l -> GInv (tr ++ [l]) s'.
Proof.
  intros E1 E2 E3 E4 Hpc Hbusy Hshape Hl. pose proof (G_now tr s G) as Hlen. destruct G as [G1 G2 G3 G4 G5 G6 G7 G8 G9 G10].
  constructor; rewrite ?E1, ?E2, ?E3, ?E4, ?Enow, ?Enl.
  - rewrite app_length; cbn; lia.
  - eapply Forall_impl; [|exact G2]. cbn; intros; lia.
  - auto.
  - auto.
  - intros u. rewrite Hpc. specialize (G5 u). unfold updf. destruct (Nat.eqb u t) eqn:Eu.
    + apply Nat.eqb_eq in Eu; subst u. destruct (g_open s t) as [[c ti]|]; [|tauto].
      destruct G5 as (A & B & C & D). repeat split; auto. rewrite nth_error_snoc_old; auto; lia.
    + destruct (g_open s u) as [[c ti]|]; auto.
      destruct G5 as (A & B & C & D). repeat split; auto. rewrite nth_error_snoc_old; auto; lia.
  - intros u c r ti trr Hin. destruct (G6 _ _ _ _ _ Hin) as (A & B & C & D & E). repeat split; auto.
    all: rewrite nth_error_snoc_old; auto; lia.
  - auto.
  - auto.
  - intros i u c Hn. apply nth_error_snoc_inv in Hn as [[_ Hn]|[_ Hn]]; [eauto|]. subst l. destruct Hl.
  - intros i u r Hn. apply nth_error_snoc_inv in Hn as [[_ Hn]|[_ Hn]]; [eauto|]. subst l. destruct Hl.
Qed.

(* a linearisation step of thread t *)
Lemma ginv_lin p' o :
  g_lin s' = (g_now s, t, o, snd (aspec (g_abs s) o)) :: g_lin s ->
  g_open s' = g_open s -> g_done s' = g_done s -> g_abs s' = fst (aspec (g_abs s) o) ->
  (forall u, v_pc s' u = updf (v_pc s) t p' u) ->
  v_pc s t <> PIdle ->
  (forall c ls, pc_shape (v_nl s) c (v_pc s t) ls -> pc_shape (v_nl s) c p' (ls ++ [(o, snd (aspec (g_abs s) o))])) ->
  not_callret l -> GInv (tr ++ [l]) s'.
Proof.
  intros E1 E2 E3 E4 Hpc Hbusy Hshape Hl. pose proof (G_now tr s G) as Hlen. destruct (busy_open tr s t G Hbusy) as (c0 & ti0 & Hopen).
  destruct G as [G1 G2 G3 G4 G5 G6 G7 G8 G9 G10].
  set (e := (g_now s, t, o, snd (aspec (g_abs s) o))) in *.
  assert (Hti0 : ti0 < g_now s) by (specialize (G5 t); rewrite Hopen in G5; tauto).
  constructor; rewrite ?E1, ?E2, ?E3, ?E4, ?Enow, ?Enl.
  - rewrite app_length; cbn; lia.
  - constructor; [cbn; lia|]. eapply Forall_impl; [|exact G2]. cbn; intros; lia.
  - constructor; auto.
  - cbn [rev]. rewrite !map_app. cbn [map]. rewrite areplay_snoc, G4. reflexivity.
  - intros u. rewrite Hpc. specialize (G5 u). unfold updf. destruct (Nat.eqb u t) eqn:Eu.
    + apply Nat.eqb_eq in Eu; subst u. rewrite Hopen in *. destruct G5 as (A & B & C & D). repeat split; auto.
      * rewrite lins_of_cons. unfold mineb, e; cbn. rewrite Nat.eqb_refl.
        replace (Nat.leb ti0 (g_now s)) with true by (symmetry; apply Nat.leb_le; lia). cbn. apply Hshape; auto.
      * rewrite nth_error_snoc_old; auto; lia.
    + destruct (g_open s u) as [[c ti]|]; auto.
      destruct G5 as (A & B & C & D). repeat split; auto.
      * rewrite lins_of_cons. unfold mineb, e; cbn. rewrite Nat.eqb_sym, Eu. cbn. auto.
      * rewrite nth_error_snoc_old; auto; lia.
  - intros u c r ti trr Hin. destruct (G6 _ _ _ _ _ Hin) as (A & B & C & D & E). repeat split; auto.
    + rewrite lins_in_cons. unfold winb, e; cbn.
      replace (Nat.leb (g_now s) trr) with false by (symmetry; apply Nat.leb_gt; lia). rewrite andb_false_r. auto.
    + rewrite nth_error_snoc_old; auto; lia.
    + rewrite nth_error_snoc_old; auto; lia.
  - auto.
  - intros x [Hx|Hx]; [|auto]. subst x. left. exists c0, ti0. unfold e; cbn. split; auto. lia.
  - intros i u c Hn. apply nth_error_snoc_inv in Hn as [[_ Hn]|[_ Hn]]; [eauto|]. subst l. destruct Hl.
  - intros i u r Hn. apply nth_error_snoc_inv in Hn as [[_ Hn]|[_ Hn]]; [eauto|]. subst l. destruct Hl.
Qed.

(* a call marker *)
Lemma ginv_call c p' :
  l = LE (ECall t c) ->
  g_lin s' = g_lin s -> g_open s' = updf (g_open s) t (Some (c, g_now s)) -> g_done s' = g_done s -> g_abs s' = g_abs s ->
  (forall u, v_pc s' u = updf (v_pc s) t p' u) ->
  v_pc s t = PIdle -> pc_shape (v_nl s) c p' [] -> GInv (tr ++ [l]) s'.
Proof.
  intros El E1 E2 E3 E4 Hpc Hidle Hshape. pose proof (G_now tr s G) as Hlen. pose proof (idle_no_open tr s t G Hidle) as Hno.
  destruct G as [G1 G2 G3 G4 G5 G6 G7 G8 G9 G10].
  constructor; rewrite ?E1, ?E2, ?E3, ?E4, ?Enow, ?Enl.
  - rewrite app_length; cbn; lia.
  - eapply Forall_impl; [|exact G2]. cbn; intros; lia.
  - auto.
  - auto.
  - intros u. rewrite Hpc. specialize (G5 u). unfold updf. destruct (Nat.eqb u t) eqn:Eu.
    + apply Nat.eqb_eq in Eu; subst u. repeat split; auto.
      * rewrite lins_of_nil; auto.
      * rewrite Hlen, El. apply nth_error_snoc_last.
      * intros c' r' ti' tr' Hin. apply G6 in Hin. lia.
    + destruct (g_open s u) as [[c1 ti]|]; auto.
      destruct G5 as (A & B & C & D). repeat split; auto. rewrite nth_error_snoc_old; auto; lia.
  - intros u c1 r ti trr Hin. destruct (G6 _ _ _ _ _ Hin) as (A & B & C & D & E). repeat split; auto.
    all: rewrite nth_error_snoc_old; auto; lia.
  - auto.
  - intros x Hx. destruct (G8 x Hx) as [(c1 & ti & Ho & Hle)|H]; [|auto].
    left. exists c1, ti. split; auto. unfold updf. destruct (Nat.eqb (le_tid x) t) eqn:Ex; auto.
    apply Nat.eqb_eq in Ex. congruence.
  - intros i u c1 Hn. apply nth_error_snoc_inv in Hn as [[_ Hn]|[Hi Hn]].
    + destruct (G9 _ _ _ Hn) as [Ho|Hd]; auto. left. unfold updf. destruct (Nat.eqb u t) eqn:Eu; auto.
      apply Nat.eqb_eq in Eu. congruence.
    + subst l. inversion Hn; subst. left. rewrite updf_same. congruence.
  - intros i u r Hn. apply nth_error_snoc_inv in Hn as [[_ Hn]|[_ Hn]]; [eauto|]. subst l. discriminate.
Qed.

(* a return marker *)
Lemma ginv_ret c r ti :
  l = LE (ERet t r) ->
  g_lin s' = g_lin s -> g_open s' = updf (g_open s) t None -> g_done s' = (t, c, r, ti, g_now s) :: g_done s -> g_abs s' = g_abs s ->
  (forall u, v_pc s' u = updf (v_pc s) t PIdle u) ->
  v_pc s t = PR r -> g_open s t = Some (c, ti) -> GInv (tr ++ [l]) s'.
Proof.
  intros El E1 E2 E3 E4 Hpc Hr Hopen. pose proof (G_now tr s G) as Hlen.
  destruct G as [G1 G2 G3 G4 G5 G6 G7 G8 G9 G10].
  pose proof (G5 t) as Gt. rewrite Hopen, Hr in Gt. destruct Gt as (Gt1 & Gt2 & Gt3 & Gt4).
  constructor; rewrite ?E1, ?E2, ?E3, ?E4, ?Enow, ?Enl.
  - rewrite app_length; cbn; lia.
  - eapply Forall_impl; [|exact G2]. cbn; intros; lia.
  - auto.
  - auto.
  - intros u. rewrite Hpc. specialize (G5 u). unfold updf. destruct (Nat.eqb u t) eqn:Eu; auto.
    destruct (g_open s u) as [[c1 ti1]|]; auto.
    destruct G5 as (A & B & C & D). repeat split; auto.
    + rewrite nth_error_snoc_old; auto; lia.
    + intros c' r' ti' tr' [Hin|Hin]; [|eauto]. inversion Hin; subst. rewrite Nat.eqb_refl in Eu. discriminate.
  - intros u c1 r1 ti1 trr [Hin|Hin].
    + inversion Hin; subst. repeat split; auto.
      * rewrite lins_in_of; auto. eapply Forall_impl; [|exact G2]. cbn; intros; lia.
      * rewrite nth_error_snoc_old; auto; lia.
      * rewrite Hlen. apply nth_error_snoc_last.
    + destruct (G6 _ _ _ _ _ Hin) as (A & B & C & D & E). repeat split; auto.
      all: rewrite nth_error_snoc_old; auto; lia.
  - intros u c1 r1 ti1 tr1 c2 r2 ti2 tr2 [H1|H1] [H2|H2].
    + inversion H1; inversion H2; subst. auto.
    + inversion H1; subst. right; right. eapply Gt4; eauto.
    + inversion H2; subst. right; left. eapply Gt4; eauto.
    + eauto.
  - intros x Hx. destruct (G8 x Hx) as [(c1 & ti1 & Ho & Hle)|(c1 & r1 & ti1 & trr & Hin & Hle)].
    + destruct (Nat.eqb (le_tid x) t) eqn:Ex.
      * apply Nat.eqb_eq in Ex. rewrite Ex, Hopen in Ho. assert (Hc : c1 = c /\ ti1 = ti) by (inversion Ho; auto).
        destruct Hc as [-> ->]. right. exists c, r, ti, (g_now s).
        split; [left; congruence|]. rewrite Forall_forall in G2. apply G2 in Hx. lia.
      * left. exists c1, ti1. split; auto. unfold updf. rewrite Ex; auto.
    + right. exists c1, r1, ti1, trr. split; auto. right; auto.
  - intros i u c1 Hn. apply nth_error_snoc_inv in Hn as [[_ Hn]|[_ Hn]].
    + destruct (G9 _ _ _ Hn) as [Ho|(r1 & trr & Hd)].
      * destruct (Nat.eqb u t) eqn:Eu.
        -- apply Nat.eqb_eq in Eu; subst u. rewrite Hopen in Ho. assert (Hc : c = c1 /\ ti = i) by (inversion Ho; auto).
           destruct Hc as [<- <-]. right. exists r, (g_now s). left; auto.
        -- left. unfold updf. rewrite Eu; auto.
      * right. exists r1, trr. right; auto.
    + subst l. discriminate.
  - intros i u r1 Hn. apply nth_error_snoc_inv in Hn as [[_ Hn]|[Hi Hn]].
    + destruct (G10 _ _ _ Hn) as (c1 & ti1 & Hd). exists c1, ti1. right; auto.
    + subst l. inversion Hn; subst. exists c, ti. left. congruence.
Qed.
End Steps.

Lemma ginv_init nl : GInv [] (vinit nl).
Proof.
  constructor; cbn; auto; try apply Forall_nil; try apply SSorted_nil.
  all: try (intros [|i] ? ? HH; discriminate).
  all: try (intros; tauto).
Qed.

Lemma updf_self (s : vstate) t u : v_pc s u = updf (v_pc s) t (v_pc s t) u.
Proof. unfold updf. destruct (Nat.eqb u t) eqn:E; auto. apply Nat.eqb_eq in E; subst; auto. Qed.

Ltac pcne := match goal with E : v_pc _ _ = _ |- _ <> _ => rewrite E; discriminate end.
Ltac shape_intro :=
  let c0 := fresh "c0" in let ls := fresh "ls" in let Hs := fresh "Hs" in
  intros c0 ls Hs; match goal with E : v_pc _ _ = _ |- _ => rewrite E in Hs end; cbn [pc_shape] in Hs |- *.

Lemma NoDup_map_inv' {A B} (f : A -> B) l : NoDup (map f l) -> NoDup l.
Proof. apply NoDup_map_inv. Qed.

Lemma collect_perm m snap vis :
  snap = m -> incl (vis_keys vis) m -> NoDup (vis_cells vis) -> length vis = length m -> Permutation (vis_keys vis) snap.
Proof.
  intros -> Hi Hn Hl. apply NoDup_Permutation_bis; auto.
  - apply (NoDup_map_inv snd). unfold vis_keys, vis_cells in *. rewrite map_map. exact Hn.
  - unfold vis_keys. rewrite map_length. lia.
Qed.

Lemma ginv_step tr s l s' : LockInv s -> MemInv s -> GInv tr s -> step s l = Some s' -> GInv (tr ++ [l]) s'.
Proof.
  intros LI MI G H. unfold step in H. destruct (step0 s l) as [s0|] eqn:H0; [|discriminate]. inversion H; subst s'; clear H.
  inv_step H0; boolp.
  (* call markers *)
  all: try (match goal with |- context [ECall _ (CWithInc ?k _)] => destruct (Nat.eqb (length k) (v_nl s)) eqn:En
                       | |- context [ECall _ (CRemove ?k)] => destruct (Nat.eqb (length k) (v_nl s)) eqn:En end).
  all: try solve [eapply ginv_call with (t := t); [exact G | reflexivity | reflexivity | reflexivity | reflexivity | reflexivity | reflexivity | reflexivity
                                                  | intros u; reflexivity | assumption
                                                  | cbn [pc_shape ret_matches]; rewrite ?En; boolp; auto ]].
  (* return marker *)
  all: try solve [match goal with Hr : retv_eqb _ _ = true |- _ => apply retv_eqb_eq in Hr; subst end;
                  eapply ginv_ret with (t := t); [exact G | reflexivity | reflexivity | reflexivity | reflexivity | reflexivity | reflexivity | reflexivity
                                                 | intros u; reflexivity | eassumption | eassumption]].
  (* blocked lock attempts: nothing moves *)
  all: try solve [eapply ginv_pc with (t := t) (p' := v_pc s0 t);
                  [exact G | reflexivity | reflexivity | reflexivity | reflexivity | reflexivity | reflexivity | intros u; exact (updf_self (tick s0) t u)
                  | pcne | auto | exact I]].
  (* steps that log nothing and keep the shape *)
  all: try solve [eapply ginv_pc with (t := t);
                  [exact G | reflexivity | reflexivity | reflexivity | reflexivity | reflexivity | reflexivity | intros u; reflexivity
                  | pcne | shape_intro; exact Hs | exact I]].
  (* linearisation steps *)
  - (* collect: load of one child *)
    eapply ginv_lin with (t := t); [exact G | reflexivity | reflexivity | reflexivity | reflexivity | reflexivity | reflexivity | intros u; reflexivity
                                   | pcne | | exact I].
    shape_intro. destruct Hs as (-> & ->). split; auto. apply key_of_cell_In in E5.
    erewrite aspec_read by eauto. cbn [snd]. unfold reads. rewrite map_app. cbn. congruence.
  - (* fetch_add *)
    eapply ginv_lin with (t := t); [exact G | reflexivity | reflexivity | reflexivity | reflexivity | reflexivity | reflexivity | intros u; reflexivity
                                   | pcne | | exact I].
    shape_intro. destruct Hs as (-> & Hl & ->). cbn [ret_matches]. apply Nat.eqb_eq in Hl. rewrite Hl. split; auto. exists c. reflexivity.
  - (* collect: read-lock acquisition *)
    eapply ginv_lin with (t := t); [exact G | reflexivity | reflexivity | reflexivity | reflexivity | reflexivity | reflexivity | intros u; reflexivity
                                   | pcne | | exact I].
    shape_intro. destruct Hs as (-> & ->). split; auto.
  - (* collect: read-unlock *)
    eapply ginv_pc with (t := t); [exact G | reflexivity | reflexivity | reflexivity | reflexivity | reflexivity | reflexivity | intros u; reflexivity
                                  | pcne | | exact I].
    shape_intro. destruct Hs as (-> & ->). cbn [ret_matches]. exists snap, vis. repeat split; auto.
    pose proof (M_pc s MI t) as Hm. rewrite E3 in Hm. destruct Hm as (Hm1 & Hm2 & Hm3). eapply collect_perm; eauto.
  - (* remove: write-unlock *)
    eapply ginv_pc with (t := t); [exact G | reflexivity | reflexivity | reflexivity | reflexivity | reflexivity | reflexivity | intros u; reflexivity
                                  | pcne | | exact I].
    shape_intro. destruct Hs as (-> & Hl & ->). cbn [ret_matches]. apply Nat.eqb_eq in Hl. rewrite Hl. destruct ok; auto.
  - (* reset: write-unlock *)
    eapply ginv_pc with (t := t); [exact G | reflexivity | reflexivity | reflexivity | reflexivity | reflexivity | reflexivity | intros u; reflexivity
                                  | pcne | | exact I].
    shape_intro. destruct Hs as (-> & ->). cbn [ret_matches]. auto.
  - (* first lookup hits *)
    eapply ginv_lin with (t := t); [exact G | reflexivity | reflexivity | reflexivity | reflexivity | reflexivity | reflexivity | intros u; reflexivity
                                   | pcne | | exact I].
    shape_intro. destruct Hs as (-> & Hl & ->). erewrite aspec_get_hit by eauto. auto.
  - (* second lookup hits *)
    eapply ginv_lin with (t := t); [exact G | reflexivity | reflexivity | reflexivity | reflexivity | reflexivity | reflexivity | intros u; reflexivity
                                   | pcne | | exact I].
    shape_intro. destruct Hs as (-> & Hl & ->). erewrite aspec_get_hit by eauto. auto.
  - (* insert *)
    eapply ginv_lin with (t := t); [exact G | reflexivity | reflexivity | reflexivity | reflexivity | reflexivity | reflexivity | intros u; reflexivity
                                   | pcne | | exact I].
    shape_intro. destruct Hs as (-> & Hl & ->).
    pose proof (M_pc s MI t) as Hm. rewrite E0 in Hm. cbn in Hm. rewrite aspec_get_miss by auto. auto.
  - (* remove, present *)
    eapply ginv_lin with (t := t); [exact G | reflexivity | reflexivity | reflexivity | reflexivity | reflexivity | reflexivity | intros u; reflexivity
                                   | pcne | | exact I].
    shape_intro. destruct Hs as (-> & Hl & ->). erewrite aspec_remove_hit by eauto. auto.
  - (* remove, absent *)
    eapply ginv_lin with (t := t); [exact G | reflexivity | reflexivity | reflexivity | reflexivity | reflexivity | reflexivity | intros u; reflexivity
                                   | pcne | | exact I].
    shape_intro. destruct Hs as (-> & Hl & ->). rewrite aspec_remove_miss by auto. auto.
  - (* clear *)
    eapply ginv_lin with (t := t); [exact G | reflexivity | reflexivity | reflexivity | reflexivity | reflexivity | reflexivity | intros u; reflexivity
                                   | pcne | | exact I].
    shape_intro. destruct Hs as (-> & ->). auto.
Qed.

