(* C03-specific corollaries: the invariant after any number of flips, a quiescent collection describes exactly all
   observations, each accepted event adds at most one ticket (the claim: exactly one, carrying the call's values). *)
Require Import PV.Base.Prelude PV.Base.F64 PV.Model.Conc PV.Model.HistConc PV.Model.HistExec.
Require Import PV.Proofs.HistConcLemmas PV.Proofs.HistConcInv PV.Proofs.HistConcProof PV.Proofs.HistConcOwn.
Require Import PV.Proofs.HistExecSound PV.Proofs.HistExecInv PV.Proofs.HistConcThms.
Require Import PV.Proofs.HistValues PV.Proofs.HistLog PV.Proofs.HistReads PV.Proofs.HistWait PV.Proofs.HistMain.
From Coq Require Import ZArith Lia Bool Arith.
Open Scope Z_scope.

(* ---- paths of the relational model, counting the flips ---- *)
Definition flipped (s s' : st) : bool := negb (Bool.eqb (hot s) (hot s')).

Inductive reach_flips (B : nat) (Od : ords) : nat -> st -> Prop :=
| rf_init : reach_flips B Od O init
| rf_step n s s' : reach_flips B Od n s -> step B Od s s' -> reach_flips B Od (if flipped s s' then S n else n) s'.

Lemma reach_flips_reach B Od n s : reach_flips B Od n s -> reach B Od s.
Proof. induction 1; [apply reach_init|eapply reach_step; eauto]. Qed.

Theorem inv_after_any_flips B Od n s :
  sufficient_orderings Od = true -> reach_flips B Od n s ->
  Inv B s /\ forall k res, In (k, res) (snaps s) -> res = summary B (firstn k (recs s)).
Proof.
  intros Hod R. pose proof (reach_inv B Od Hod s (reach_flips_reach _ _ _ _ R)) as I. split; auto.
  intros k res H. apply (I_snaps _ _ I _ _ H).
Qed.

(* non-vacuity: three complete collections (three flips) with an observation spanning the first one *)
Ltac fwdf R tac :=
  match type of R with
  | reach_flips ?B ?Od ?n ?s =>
      let St := fresh "St" in
      eassert (St : step B Od s _) by tac;
      match type of St with
      | step _ _ _ ?s' =>
          let s'' := eval vm_compute in s' in
          let n' := eval vm_compute in (if flipped s s' then S n else n) in
          let R' := fresh "R" in
          assert (R' : reach_flips B Od n' s'') by (exact (rf_step B Od n s s' R St));
          clear R St; rename R' into R
      end
  end.

Ltac collect_once R Od t :=
  fwdf R ltac:(apply (S_invoke_collect 0 Od _ t); reflexivity);
  fwdf R ltac:(apply (S_lock 0 Od _ t); reflexivity);
  fwdf R ltac:(apply (S_flip 0 Od _ t); reflexivity);
  fwdf R ltac:(eapply (S_wait_ok 0 Od _ t); [reflexivity|left; reflexivity]);
  fwdf R ltac:(eapply (S_swapsum 0 Od _ t); reflexivity);
  fwdf R ltac:(eapply (S_addcnt 0 Od _ t); reflexivity);
  fwdf R ltac:(eapply (S_addsum 0 Od _ t); reflexivity);
  fwdf R ltac:(eapply (S_unlock 0 Od _ t); reflexivity).

Theorem three_flips_reachable :
  exists s, reach_flips 0 od_sc 3 s /\ map snd (snaps s) = [(2, 12, []); (2, 12, []); (1, 5, [])].
Proof.
  pose proof (rf_init 0 od_sc) as R.
  (* t0 observes 5 completely; t1 collects (residue 5 moves to the hot shard) *)
  fwdf R ltac:(apply (S_invoke_obs 0 od_sc _ 0%nat 1 [(O, 5)]); [reflexivity|lia]).
  fwdf R ltac:(apply (S_claim 0 od_sc _ 0%nat 1 [(O, 5)]); [reflexivity|lia|repeat constructor]).
  fwdf R ltac:(eapply (S_write 0 od_sc _ 0%nat 0%nat _ 0%nat); reflexivity).
  fwdf R ltac:(eapply (S_publish 0 od_sc _ 0%nat 0%nat); [reflexivity|reflexivity|reflexivity|left; reflexivity]).
  collect_once R od_sc 1%nat.
  (* t0 observes 7; t2 collects: the snapshot holds the residue of the first collection and the new value *)
  fwdf R ltac:(apply (S_invoke_obs 0 od_sc _ 0%nat 1 [(O, 7)]); [reflexivity|lia]).
  fwdf R ltac:(apply (S_claim 0 od_sc _ 0%nat 1 [(O, 7)]); [reflexivity|lia|repeat constructor]).
  fwdf R ltac:(eapply (S_write 0 od_sc _ 0%nat 1%nat _ 0%nat); reflexivity).
  fwdf R ltac:(eapply (S_publish 0 od_sc _ 0%nat 1%nat); [reflexivity|reflexivity|reflexivity|left; reflexivity]).
  collect_once R od_sc 2%nat.
  (* third collection: the buffers are reused a third time, everything is still there *)
  collect_once R od_sc 1%nat.
  match type of R with reach_flips _ _ _ ?s => exists s end. split; [exact R|reflexivity].
Qed.

Section C.
Variable bounds : list Z.
Notation B := (length bounds).

(* an accepted event adds no ticket, or exactly one: the whole value list of the claiming call *)
Theorem ostep_tickets o e o' :
  ostep bounds o e = Some o' ->
  (vlog o' = vlog o /\ owners o' = owners o)
  \/ (exists vs, vlog o' = vlog o ++ [vs] /\ owners o' = owners o ++ [(ev_tid e, ncalls o' (ev_tid e))] /\ vs = pend o' (ev_tid e)).
Proof.
  unfold ostep. destruct (hexec bounds (ox o) e) as [x'|]; [|discriminate]. intros H. inversion H; subst; clear H. cbn [vlog owners pend ncalls].
  destruct (negb (Nat.eqb (length (recs (base x'))) (length (recs (base (ox o)))))); [right; eexists; eauto|left; auto].
Qed.

(* a collection during which no ticket was claimed describes exactly the tickets claimed before it; if none was
   claimed since either, it describes exactly all observations *)
Theorem quiescent_collection_exact es o c :
  orun bounds oinit es = Some o -> In c (cuts (ox o)) -> cut_l0 c = cut_l1 c ->
  prefix_values o (cut_k c) = prefix_values o (cut_l0 c)
  /\ (cut_l1 c = length (vlog o) -> prefix_values o (cut_k c) = concat (vlog o)).
Proof.
  intros H Hc E. destruct (cut_describes_set bounds _ _ _ H Hc) as (A1 & A2 & A3 & _).
  assert (Hk : cut_k c = cut_l0 c) by lia. rewrite Hk. split; auto.
  intros El. unfold prefix_values. rewrite E, El, firstn_all. reflexivity.
Qed.

End C.
