(* Layer B2 of the C07/C14 spec proofs: collecting a quiescent histogram core twice in a row
   (two registries gathered back to back) returns the same snapshot.
   [Q h]: the shard that is not hot is empty (at least as many zero buckets as the hot shard has
   buckets), the hot shard's sum is not -0 and its counters are below 2^64.  It holds of a fresh
   core, is kept by observe, by flushing ANY local histogram and by a collection, and under it a
   second collection returns the first one's snapshot. *)
Require Import PV.Base.Prelude PV.Base.F64 PV.Model.Proto PV.Model.Desc PV.Model.Value PV.Model.Hist.
Require Import PV.Proofs.F64Facts PV.Proofs.HistFacts.
Open Scope N_scope.

#[local] Arguments wrap64 : simpl never.

Definition Qshards (hot other : shard) : Prop :=
  sh_sum other = f_zero /\ sh_count other = 0
  /\ (exists n, sh_buckets other = repeat 0 n /\ (length (sh_buckets hot) <= n)%nat)
  /\ is_negzero (sh_sum hot) = false /\ sh_count hot < two64 /\ Forall (fun x => x < two64) (sh_buckets hot).
Definition Q (h : hcore) : Prop := Qshards (hc_shard h (hc_hot h)) (hc_shard h (negb (hc_hot h))).

Lemma wrap64_lt x : wrap64 x < two64.
Proof. unfold wrap64. apply N.mod_lt. discriminate. Qed.
Lemma Forall_repeat0 n : Forall (fun x => x < two64) (repeat 0 n).
Proof. induction n; cbn; constructor; auto. reflexivity. Qed.

Lemma zip_add_zero_ge l : Forall (fun x => x < two64) l -> forall n, (length l <= n)%nat -> zip_add (repeat 0 n) l = l.
Proof.
  induction 1 as [|x l Hx F IH]; intros n Hn; [destruct n; reflexivity|]. destruct n as [|n]; [cbn in Hn; lia|].
  cbn [repeat zip_add]. rewrite N.add_0_l, wrap64_small by assumption. f_equal. apply IH. cbn in Hn. lia.
Qed.
Lemma zip_add_lt a : forall b, Forall (fun x => x < two64) (zip_add a b).
Proof. induction a as [|x a IH]; destruct b as [|y b]; cbn; constructor; auto. apply wrap64_lt. Qed.
Lemma zip_add_length_le a : forall b, (length (zip_add a b) <= length a)%nat.
Proof. induction a as [|x a IH]; destruct b as [|y b]; cbn; try lia. specialize (IH b). lia. Qed.

Lemma Q_new o vals h : hcore_new o vals = Ok h -> Q h.
Proof.
  unfold hcore_new. destruct (hopts_describe o); [|discriminate]. destruct (has_le_label d); [discriminate|].
  destruct (make_label_pairs d vals); [|discriminate]. destruct (check_and_adjust_buckets (ho_buckets o)); [|discriminate].
  intros H. inversion H. unfold Q, Qshards. cbn. repeat split; auto; [|apply Forall_repeat0].
  eexists. split; [reflexivity|]. rewrite repeat_length. lia.
Qed.

Lemma bump_lt j d l : Forall (fun x => x < two64) l -> Forall (fun x => x < two64) (bump j d l).
Proof.
  revert j; induction l as [|x l IH]; intros j H; [destruct j; cbn; auto|]. inversion H; subst.
  destruct j; cbn [bump]; constructor; auto. apply wrap64_lt.
Qed.
Lemma Q_observe h v : Q h -> Q (hc_observe h v).
Proof.
  unfold Q, Qshards, hc_observe. destruct h as [d ls bs hot tot s0 s1]. destruct hot; cbn.
  - intros (A & B & (n & C1 & C2) & D & E & F). repeat split; auto.
    + exists n. split; auto. destruct (find_bucket v bs 0); [rewrite bump_length|]; auto.
    + apply add_not_negzero. exact D.
    + apply wrap64_lt.
    + destruct (find_bucket v bs 0); auto. apply bump_lt. exact F.
  - intros (A & B & (n & C1 & C2) & D & E & F). repeat split; auto.
    + exists n. split; auto. destruct (find_bucket v bs 0); [rewrite bump_length|]; auto.
    + apply add_not_negzero. exact D.
    + apply wrap64_lt.
    + destruct (find_bucket v bs 0); auto. apply bump_lt. exact F.
Qed.
Lemma hc_observe_desc h v : hc_desc (hc_observe h v) = hc_desc h /\ hc_labels (hc_observe h v) = hc_labels h.
Proof. unfold hc_observe. destruct h as [d ls bs hot tot s0 s1]. destruct hot; cbn; auto. Qed.
(* flushing a local histogram of any shape *)
Lemma Q_flush h l : Q h -> Q (hc_flush h l).
Proof.
  unfold hc_flush. destruct (lh_count l =? 0); auto.
  unfold Q, Qshards. destruct h as [d ls bs hot tot s0 s1]. destruct hot; cbn.
  - intros (A & B & (n & C1 & C2) & D & E & F). repeat split; auto.
    + exists n. split; auto. pose proof (zip_add_length_le (sh_buckets s1) (lh_counts l)). lia.
    + apply add_not_negzero. exact D.
    + apply wrap64_lt.
    + apply zip_add_lt.
  - intros (A & B & (n & C1 & C2) & D & E & F). repeat split; auto.
    + exists n. split; auto. pose proof (zip_add_length_le (sh_buckets s0) (lh_counts l)). lia.
    + apply add_not_negzero. exact D.
    + apply wrap64_lt.
    + apply zip_add_lt.
Qed.
Lemma hc_flush_desc h l : hc_desc (hc_flush h l) = hc_desc h /\ hc_labels (hc_flush h l) = hc_labels h.
Proof. unfold hc_flush. destruct (lh_count l =? 0); auto. destruct h as [d ls bs hot tot s0 s1]. destruct hot; cbn; auto. Qed.

(* a collection of a quiescent core: the core stays quiescent, keeps descriptor and labels, and
   the next collection returns the same snapshot *)
Lemma hc_proto_again h p h' : Q h -> hc_proto h = Some (p, h') ->
  Q h' /\ hc_desc h' = hc_desc h /\ hc_labels h' = hc_labels h /\ exists h'', hc_proto h' = Some (p, h'').
Proof.
  unfold Q, Qshards, hc_proto. destruct h as [d ls bs hot tot s0 s1]. destruct hot; cbn.
  - intros (A & B & (n & C1 & C2) & D & E & F). destruct (sh_count s1 =? tot) eqn:Ec; cbn [negb]; [|discriminate].
    apply N.eqb_eq in Ec. intros H. inversion H; subst p h'. clear H. cbn.
    rewrite A, B, C1. rewrite add_zero_l by exact D. rewrite N.add_0_l. rewrite <- Ec, wrap64_small by exact E.
    rewrite zip_add_zero_ge by auto. rewrite N.eqb_refl. cbn [negb].
    split; [|split; [reflexivity|split; [reflexivity|eexists; reflexivity]]].
    split; [reflexivity|]. split; [reflexivity|]. split; [eexists; split; [reflexivity|lia]|]. split; [exact D|]. split; [exact E|exact F].
  - intros (A & B & (n & C1 & C2) & D & E & F). destruct (sh_count s0 =? tot) eqn:Ec; cbn [negb]; [|discriminate].
    apply N.eqb_eq in Ec. intros H. inversion H; subst p h'. clear H. cbn.
    rewrite A, B, C1. rewrite add_zero_l by exact D. rewrite N.add_0_l. rewrite <- Ec, wrap64_small by exact E.
    rewrite zip_add_zero_ge by auto. rewrite N.eqb_refl. cbn [negb].
    split; [|split; [reflexivity|split; [reflexivity|eexists; reflexivity]]].
    split; [reflexivity|]. split; [reflexivity|]. split; [eexists; split; [reflexivity|lia]|]. split; [exact D|]. split; [exact E|exact F].
Qed.
Lemma hist_metric_again h m h' : Q h -> hist_metric h = Some (m, h') ->
  Q h' /\ hc_desc h' = hc_desc h /\ hc_labels h' = hc_labels h /\ exists h'', hist_metric h' = Some (m, h'').
Proof.
  unfold hist_metric. destruct (hc_proto h) as [[p h1]|] eqn:E; [|discriminate]. intros Hq H. inversion H; subst m h'. clear H.
  destruct (hc_proto_again h p h1 Hq E) as (A & B & C & h'' & D). split; [exact A|]. split; [exact B|]. split; [exact C|]. rewrite D, C. eauto.
Qed.
Lemma hist_metric_labels h m h' : hist_metric h = Some (m, h') ->
  m_label m = hc_labels h /\ m_gauge m = None /\ m_counter m = None /\ m_summary m = None /\ m_untyped m = None
  /\ (exists p, m_histogram m = Some p) /\ m_ts m = None.
Proof.
  unfold hist_metric. destruct (hc_proto h) as [[p h1]|]; [|discriminate]. intros H. inversion H. cbn. repeat split; eauto.
Qed.
