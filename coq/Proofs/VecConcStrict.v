(* C10: exactness of the linearisation search of Spec/SpecC10.v (a NotFound answer means that no interleaving of the
   threads' atomic actions consistent with program order and real time is reproduced by the sequential map), and
   agreement of the one-pass classifier used by the check driver with the three specs. *)
Require Import PV.Base.Prelude PV.Model.Conc PV.Model.VecConc PV.Spec.SpecC10.
Require Import PV.Proofs.VecConcBase PV.Proofs.VecConcFacts.
From Coq Require Import Arith Lia.
Open Scope N_scope.

Lemma pop_lt i rem a rem' : pop i rem = Some (a, rem') -> (i < length rem)%nat.
Proof.
  revert i a rem'; induction rem as [|l r IH]; intros [|i] a rem' H; cbn in *; try discriminate; try lia.
  destruct (pop i r) as [[a0 r0]|] eqn:E; [|discriminate]. apply IH in E. lia.
Qed.

Lemma try_cands_complete k s rem cands bud b :
  (forall s' rem' b0 b1, k s' rem' b0 = (NotFound, b1) -> ~ lin_exists s' rem') ->
  try_cands k s rem cands bud = (NotFound, b) ->
  forall i a rem' s', In i cands -> pop i rem = Some (a, rem') -> heads_ok a rem = true -> apply_act s a = Some s' ->
                      ~ lin_exists s' rem'.
Proof.
  intros Hk. revert bud b. induction cands as [|j cs IH]; intros bud b H i a rem' s' Hin Hp Hh Ha; [destruct Hin|].
  cbn [try_cands] in H. destruct bud as [|b0]; [discriminate|].
  destruct Hin as [->|Hin].
  - rewrite Hp, Hh, Ha in H. destruct (k s' rem' b0) as [[ | | ] b1] eqn:E; try discriminate. eapply Hk; eauto.
  - destruct (pop j rem) as [[a0 rem0]|] eqn:E1; [|eapply IH; eauto].
    destruct (heads_ok a0 rem) eqn:E2; [|eapply IH; eauto].
    destruct (apply_act s a0) as [s0|] eqn:E3; [|eapply IH; eauto].
    destruct (k s0 rem0 b0) as [[ | | ] b1] eqn:E; try discriminate. eapply IH; eauto.
Qed.

Theorem dfs_notfound_exact fuel s rem bud b : dfs fuel s rem bud = (NotFound, b) -> ~ lin_exists s rem.
Proof.
  revert s rem bud b; induction fuel as [|f IH]; intros s rem bud b H; cbn [dfs] in H; [discriminate|].
  destruct (all_done rem) eqn:Ed; [discriminate|].
  intros L. inversion L as [? ? Hd | ? ? i a rem' s' Hp Hh Ha L']; subst; [congruence|].
  eapply (try_cands_complete (dfs f)); eauto. apply in_seq. apply pop_lt in Hp. lia.
Qed.

Theorem strict_search_exact nl cs : lin_search true nl cs = NotFound -> ~ strict_linearisation_exists nl cs.
Proof.
  unfold lin_search, strict_linearisation_exists. intros H.
  destruct (dfs _ sst0 (all_acts true nl cs) search_budget) as [r b] eqn:E. cbn in H. subst r. eapply dfs_notfound_exact; eauto.
Qed.

(* the classifier agrees with the specs *)
Lemma classify_strict nl es : spec_c10_strict nl es = negb ((classify nl es =? 1) || (classify nl es =? 2)).
Proof.
  unfold spec_c10_strict, classify, search_ok. destruct (extract es) as [cs wf].
  destruct (base_ok nl cs wf); cbn [negb andb]; auto. destruct (incs_ok cs); cbn [negb]; auto.
  destruct (lin_search true nl cs); auto.
  destruct (match lin_search false nl cs with NotFound => false | _ => true end && collect_overlaps_two nl cs); auto.
Qed.
Lemma classify_known nl es : known_c10 nl es = (classify nl es =? 1).
Proof.
  unfold known_c10, spec_c10_strict, spec_c10_relaxed, classify, search_ok. destruct (extract es) as [cs wf]. cbn [fst].
  destruct (base_ok nl cs wf); cbn [negb andb]; auto. destruct (incs_ok cs); cbn [negb andb]; auto.
  destruct (lin_search true nl cs); cbn [negb andb]; auto.
  destruct (lin_search false nl cs); cbn [andb]; destruct (collect_overlaps_two nl cs); auto.
Qed.
Lemma classify_unknown nl es : strict_unknown nl es = (classify nl es =? 3).
Proof.
  unfold strict_unknown, classify. destruct (extract es) as [cs wf].
  destruct (base_ok nl cs wf); cbn [negb andb]; auto. destruct (incs_ok cs); cbn [negb andb]; auto.
  destruct (lin_search true nl cs); auto.
  destruct (match lin_search false nl cs with NotFound => false | _ => true end && collect_overlaps_two nl cs); auto.
Qed.

(* the witness of the known finding C10-collect-values-not-snapshot: a real trace of the implementation, a path of the model,
   with no strict linearisation; the relaxed spec holds on it and it lies in the known class *)
Theorem strict_refuted_on_witness :
  vcheck 1 2 snapshot_trace = true
  /\ (exists tr s, reach 1 tr s /\ visible tr = snapshot_trace)
  /\ snd (extract snapshot_trace) = true
  /\ ~ strict_linearisation_exists 1 (fst (extract snapshot_trace))
  /\ spec_c10_strict 1 snapshot_trace = false /\ spec_c10_relaxed 1 snapshot_trace = true /\ known_c10 1 snapshot_trace = true.
Proof.
  assert (Hv : vcheck 1 2 snapshot_trace = true) by (vm_compute; reflexivity).
  split; [exact Hv|]. split.
  - destruct (validated_is_reachable 1 2 snapshot_trace Hv) as (tr & s & A & B & _). eauto.
  - split; [vm_compute; reflexivity|]. split; [apply strict_search_exact; vm_compute; reflexivity|].
    repeat split; vm_compute; reflexivity.
Qed.
