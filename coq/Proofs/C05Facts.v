(* Facts about src/vec.rs (after the C05 repair): the hashed bytes are an injective function of
   the label-value tuple, the map form, the labels and start value of a created child, the
   invariant of the children maps along every history, "same child iff same tuple" up to
   collisions of the 64-bit hash, errors create nothing, the local vectors' caches. *)
Require Import PV.Base.Prelude PV.Base.Utf8 PV.Base.Fnv PV.Base.F64 PV.Base.StrFacts PV.Base.SortFacts PV.Base.Utf8Facts.
Require Import PV.Model.Proto PV.Model.Desc PV.Model.Value PV.Model.Hist PV.Model.Vec PV.Model.Registry PV.Model.World.
Require Import PV.Proofs.DescFacts.
From Coq Require Import Permutation Sorting.Sorted.
Open Scope N_scope.

(* ================= A. the hashed byte string ================= *)
Theorem enc_inj t1 t2 : wf_strs t1 -> wf_strs t2 ->
  (label_values_preimage t1 = label_values_preimage t2 <-> t1 = t2).
Proof.
  intros W1 W2. split; [|intros ->; reflexivity]. unfold label_values_preimage. apply enc_sep_inj; auto.
Qed.

(* ================= B. the two hash functions ================= *)
Lemma lenN_eq {A B} (a : list A) (b : list B) : (lenN a =? lenN b) = true <-> length a = length b.
Proof. unfold lenN. rewrite N.eqb_eq. split; [apply Nat2N.inj|congruence]. Qed.
Lemma lenN_neq {A B} (a : list A) (b : list B) : (lenN a =? lenN b) = false <-> length a <> length b.
Proof. rewrite <- lenN_eq. destruct (lenN a =? lenN b); split; congruence. Qed.

Lemma hash_label_values_ok d t : length t = length (d_vars d) ->
  hash_label_values d t = Ok (fnv1a (label_values_preimage t)).
Proof. intros E. unfold hash_label_values. apply lenN_eq in E. rewrite E. reflexivity. Qed.
Lemma hash_label_values_err d t : length t <> length (d_vars d) ->
  hash_label_values d t = Err (ECard (lenN (d_vars d)) (lenN t)).
Proof. intros E. unfold hash_label_values. apply lenN_neq in E. rewrite E. reflexivity. Qed.
Lemma hash_label_values_inv d t h : hash_label_values d t = Ok h ->
  length t = length (d_vars d) /\ h = fnv1a (label_values_preimage t).
Proof.
  unfold hash_label_values. destruct (lenN t =? lenN (d_vars d)) eqn:E; cbn [negb]; [|discriminate].
  intros H. inversion H. split; auto. apply lenN_eq; auto.
Qed.
Lemma hash_label_values_err_inv d t e : hash_label_values d t = Err e ->
  length t <> length (d_vars d) /\ e = ECard (lenN (d_vars d)) (lenN t).
Proof.
  unfold hash_label_values. destruct (lenN t =? lenN (d_vars d)) eqn:E; cbn [negb]; [discriminate|].
  intros H. inversion H. split; auto. apply lenN_neq; auto.
Qed.

(* ---- the map form ---- *)
Definition value_of (labels : list (str * str)) (n : str) : str :=
  match alookup n labels with Some v => v | None => [] end.

Lemma vido_some names labels :
  (forall n, In n names -> In n (map fst labels)) ->
  values_in_declared_order names labels = Some (map (value_of labels) names).
Proof.
  induction names as [|n names IH]; intros H; cbn [values_in_declared_order map]; [reflexivity|].
  unfold value_of at 1. destruct (alookup n labels) as [v|] eqn:E.
  - rewrite IH; auto. intros m Hm. apply H. right; auto.
  - exfalso. apply alookup_None in E. apply E. apply H. left; auto.
Qed.
Lemma vido_none names labels :
  (exists n, In n names /\ ~ In n (map fst labels)) -> values_in_declared_order names labels = None.
Proof.
  induction names as [|n names IH]; intros (m & Hm & Hn); [destruct Hm|]. cbn [values_in_declared_order].
  destruct (alookup n labels) as [v|] eqn:E; auto.
  destruct Hm as [->|Hm].
  - exfalso. apply Hn. apply alookup_In in E. apply (in_map fst) in E. exact E.
  - rewrite IH; eauto.
Qed.
Lemma all_or_missing (names keys : list str) :
  (forall n, In n names -> In n keys) \/ (exists n, In n names /\ ~ In n keys).
Proof.
  induction names as [|n names [IH|IH]].
  - left. intros n [].
  - destruct (mem_str n keys) eqn:E.
    + left. intros m [<-|Hm]; auto. apply mem_str_In; auto.
    + right. exists n. split; [left; auto|]. apply mem_str_false; auto.
  - right. destruct IH as (m & Hm & Hn). exists m. split; auto. right; auto.
Qed.

(* exact characterisation of hash_labels *)
Theorem hash_labels_ok d labels :
  length labels = length (d_vars d) -> (forall n, In n (d_vars d) -> In n (map fst labels)) ->
  hash_labels d labels = Ok (fnv1a (label_values_preimage (map (value_of labels) (d_vars d))), map (value_of labels) (d_vars d)).
Proof.
  intros E H. unfold hash_labels. apply lenN_eq in E. rewrite E. cbn [negb]. rewrite vido_some; auto.
Qed.
Theorem hash_labels_card d labels :
  length labels <> length (d_vars d) -> hash_labels d labels = Err (ECard (lenN (d_vars d)) (lenN labels)).
Proof. intros E. unfold hash_labels. apply lenN_neq in E. rewrite E. reflexivity. Qed.
Theorem hash_labels_missing d labels :
  length labels = length (d_vars d) -> (exists n, In n (d_vars d) /\ ~ In n (map fst labels)) ->
  hash_labels d labels = Err EMsg.
Proof. intros E H. unfold hash_labels. apply lenN_eq in E. rewrite E. cbn [negb]. rewrite vido_none; auto. Qed.

Theorem hash_labels_card_iff d labels :
  hash_labels d labels = Err (ECard (lenN (d_vars d)) (lenN labels)) <-> length labels <> length (d_vars d).
Proof.
  split; [|apply hash_labels_card]. intros H E.
  destruct (all_or_missing (d_vars d) (map fst labels)) as [A|A].
  - rewrite hash_labels_ok in H; auto. discriminate.
  - rewrite hash_labels_missing in H; auto. discriminate.
Qed.
Theorem hash_labels_missing_iff d labels :
  length labels = length (d_vars d) ->
  (hash_labels d labels = Err EMsg <-> exists n, In n (d_vars d) /\ ~ In n (map fst labels)).
Proof.
  intros E. split; [|apply hash_labels_missing; auto]. intros H.
  destruct (all_or_missing (d_vars d) (map fst labels)) as [A|A]; auto.
  rewrite hash_labels_ok in H; auto. discriminate.
Qed.
(* every error is one of the two *)
Theorem hash_labels_err_inv d labels e : hash_labels d labels = Err e ->
  (length labels <> length (d_vars d) /\ e = ECard (lenN (d_vars d)) (lenN labels))
  \/ (length labels = length (d_vars d) /\ e = EMsg /\ exists n, In n (d_vars d) /\ ~ In n (map fst labels)).
Proof.
  intros H. destruct (Nat.eq_dec (length labels) (length (d_vars d))) as [E|E].
  - right. destruct (all_or_missing (d_vars d) (map fst labels)) as [A|A].
    + rewrite hash_labels_ok in H; auto. discriminate.
    + rewrite hash_labels_missing in H; auto. inversion H. auto.
  - left. rewrite hash_labels_card in H; auto. inversion H. auto.
Qed.
Theorem hash_labels_ok_inv d labels h vs : hash_labels d labels = Ok (h, vs) ->
  length labels = length (d_vars d) /\ (forall n, In n (d_vars d) -> In n (map fst labels))
  /\ vs = map (value_of labels) (d_vars d) /\ hash_label_values d vs = Ok h.
Proof.
  intros H. destruct (Nat.eq_dec (length labels) (length (d_vars d))) as [E|E].
  - destruct (all_or_missing (d_vars d) (map fst labels)) as [A|A].
    + rewrite hash_labels_ok in H; auto. inversion H; subst. repeat split; auto.
      apply hash_label_values_ok. apply map_length.
    + rewrite hash_labels_missing in H; auto. discriminate.
  - rewrite hash_labels_card in H; auto. discriminate.
Qed.

(* with distinct keys and distinct declared names: Ok exactly when the key set is the set of declared names *)
Lemma incl_same_length_perm (a b : list str) :
  NoDup a -> NoDup b -> length b = length a -> incl a b -> Permutation a b.
Proof. intros Na Nb E I. apply NoDup_Permutation_bis; auto. lia. Qed.

Theorem hash_labels_ok_iff d labels :
  NoDup (d_vars d) -> NoDup (map fst labels) ->
  ((exists r, hash_labels d labels = Ok r) <-> Permutation (map fst labels) (d_vars d)).
Proof.
  intros Nd Nl. split.
  - intros [[h vs] H]. apply hash_labels_ok_inv in H as (E & A & _ & _).
    apply Permutation_sym. apply incl_same_length_perm; auto. rewrite map_length. auto.
  - intros P. eexists. apply hash_labels_ok.
    + apply Permutation_length in P. rewrite map_length in P. auto.
    + intros n Hn. eapply Permutation_in; [apply Permutation_sym; exact P|auto].
Qed.

(* the iteration order of the map does not matter *)
Lemma value_of_perm labels labels' n :
  NoDup (map fst labels) -> Permutation labels labels' -> value_of labels n = value_of labels' n.
Proof. intros N P. unfold value_of. rewrite (alookup_perm n labels labels'); auto. Qed.
Theorem hash_labels_perm d labels labels' :
  NoDup (map fst labels) -> Permutation labels labels' -> hash_labels d labels = hash_labels d labels'.
Proof.
  intros N P. unfold hash_labels.
  assert (E : lenN labels = lenN labels') by (unfold lenN; rewrite (Permutation_length P); reflexivity).
  rewrite E. destruct (negb (lenN labels' =? lenN (d_vars d))); auto.
  assert (V : values_in_declared_order (d_vars d) labels = values_in_declared_order (d_vars d) labels').
  { induction (d_vars d) as [|n names IH]; cbn [values_in_declared_order]; auto.
    rewrite (alookup_perm n labels labels'); auto. rewrite IH. reflexivity. }
  rewrite V. reflexivity.
Qed.

(* the map form agrees with the positional form on the values read in declared order *)
Theorem map_form_is_positional d labels :
  Permutation (map fst labels) (d_vars d) ->
  exists h, hash_labels d labels = Ok (h, map (value_of labels) (d_vars d))
            /\ hash_label_values d (map (value_of labels) (d_vars d)) = Ok h.
Proof.
  intros P. eexists. split.
  - apply hash_labels_ok.
    + apply Permutation_length in P. rewrite map_length in P. auto.
    + intros n Hn. eapply Permutation_in; [apply Permutation_sym; exact P|auto].
  - apply hash_label_values_ok. apply map_length.
Qed.

(* HashMap built by successive inserts has distinct keys *)
Lemma ainsert_keys {V} k (v : V) m :
  map fst (ainsert k v m) = if mem_str k (map fst m) then map fst m else map fst m ++ [k].
Proof.
  unfold ainsert. destruct (alookup k m) as [x|] eqn:E.
  - assert (Hin : In k (map fst m)) by (apply alookup_In in E; apply (in_map fst) in E; exact E).
    apply mem_str_In in Hin. rewrite Hin. rewrite map_map. apply map_ext. intros [k' v']. cbn. destruct (str_eqb k k'); reflexivity.
  - apply alookup_None in E. apply mem_str_false in E. rewrite E. rewrite map_app. reflexivity.
Qed.
Lemma ainsert_nodup {V} k (v : V) m : NoDup (map fst m) -> NoDup (map fst (ainsert k v m)).
Proof.
  intros N. rewrite ainsert_keys. destruct (mem_str k (map fst m)) eqn:E; auto.
  apply mem_str_false in E. apply NoDup_app_intro; auto.
  - constructor; [intros []|constructor].
  - intros x [<-|[]]. auto.
Qed.
Lemma amap_of_nodup {V} (kvs : list (str * V)) : NoDup (map fst (amap_of kvs)).
Proof.
  unfold amap_of. assert (G : forall m, NoDup (map fst m) -> NoDup (map fst (fold_left (fun m kv => ainsert (fst kv) (snd kv) m) kvs m))).
  { induction kvs as [|kv kvs IH]; cbn; auto. intros m N. apply IH. apply ainsert_nodup; auto. }
  apply G. constructor.
Qed.

(* ================= C. the labels and the start value of a created child ================= *)
Definition declared_pairs (d : Desc) (t : list str) : list LabelPair :=
  map (fun nv => mkLP (fst nv) (snd nv)) (combine (d_vars d) t).
Definition child_labels (d : Desc) (t : list str) : list LabelPair :=
  sort_by lp_leb (declared_pairs d t ++ d_const_pairs d).
Definition lp_sorted (l : list LabelPair) : Prop := StronglySorted (le lp_leb) l.

Lemma child_labels_perm d t : Permutation (child_labels d t) (declared_pairs d t ++ d_const_pairs d).
Proof. apply sort_by_perm. Qed.
Lemma child_labels_sorted d t : lp_sorted (child_labels d t).
Proof. apply sort_by_sorted; [apply lp_leb_total|apply lp_leb_trans]. Qed.
Lemma child_labels_declared d t n v : In (n, v) (combine (d_vars d) t) -> In (mkLP n v) (child_labels d t).
Proof.
  intros H. eapply Permutation_in; [apply Permutation_sym, child_labels_perm|]. apply in_or_app. left.
  unfold declared_pairs. apply in_map_iff. exists (n, v). auto.
Qed.
Lemma child_labels_const d t lp : In lp (d_const_pairs d) -> In lp (child_labels d t).
Proof. intros H. eapply Permutation_in; [apply Permutation_sym, child_labels_perm|]. apply in_or_app. auto. Qed.
Lemma child_labels_only d t lp : In lp (child_labels d t) ->
  (exists n v, lp = mkLP n v /\ In (n, v) (combine (d_vars d) t)) \/ In lp (d_const_pairs d).
Proof.
  intros H. apply (Permutation_in _ (child_labels_perm d t)) in H. apply in_app_or in H as [H|H]; auto.
  left. unfold declared_pairs in H. apply in_map_iff in H as ([n v] & <- & H). eauto.
Qed.

Lemma describe_const_sorted o d : describe o = Some d -> lp_sorted (d_const_pairs d).
Proof.
  unfold describe. intros H. apply desc_new_inv in H as (_ & _ & _ & names & _ & ->). cbn [d_const_pairs].
  unfold cpairs. apply sort_by_sorted; [apply lp_leb_total|apply lp_leb_trans].
Qed.

Lemma make_label_pairs_ok d t : lp_sorted (d_const_pairs d) -> length t = length (d_vars d) ->
  make_label_pairs d t = Ok (child_labels d t).
Proof.
  intros S E. unfold make_label_pairs. assert (E' : (lenN (d_vars d) =? lenN t) = true) by (apply lenN_eq; auto).
  rewrite E'. cbn [negb]. unfold child_labels, declared_pairs.
  destruct (d_vars d) as [|n ns] eqn:Ev; cbn [is_nil andb combine map app]; [|reflexivity].
  destruct (d_const_pairs d) as [|c cs] eqn:Ec; cbn [is_nil]; [reflexivity|].
  rewrite sort_by_sorted_id; auto.
Qed.
Lemma make_label_pairs_err d t : length t <> length (d_vars d) ->
  make_label_pairs d t = Err (ECard (lenN (d_vars d)) (lenN t)).
Proof.
  intros E. unfold make_label_pairs. assert (E' : (lenN (d_vars d) =? lenN t) = false) by (apply lenN_neq; auto).
  rewrite E'. reflexivity.
Qed.

(* ---- MetricVec::create and MetricVecBuilder::build ---- *)
Definition is_hist (k : veckind) : bool := match k with VKHist _ => true | _ => false end.
(* what MetricVec::create establishes and nothing ever changes *)
Definition coherent (v : veccore) : Prop :=
  describe (v_opts v) = Some (v_desc v) /\ (is_hist (v_kind v) = true -> has_le_label (v_desc v) = false).

Lemma existsb_perm {A} (f : A -> bool) l l' : Permutation l l' -> existsb f l = existsb f l'.
Proof.
  intros P. apply eq_true_iff_eq. rewrite !existsb_exists. split; intros (x & Hx & Hf); exists x; split; auto.
  - eapply Permutation_in; eauto.
  - eapply Permutation_in; [apply Permutation_sym|]; eauto.
Qed.
Lemma existsb_map_comp {A B} (f : B -> bool) (g : A -> B) l : existsb f (map g l) = existsb (fun x => f (g x)) l.
Proof. induction l as [|x l IH]; cbn [map existsb]; auto. rewrite IH. reflexivity. Qed.
Lemma describe_le_label o d : describe o = Some d ->
  has_le_label d = existsb (str_eqb BUCKET_LABEL) (o_vars o) || existsb (fun kv => str_eqb BUCKET_LABEL (fst kv)) (o_consts o).
Proof.
  unfold describe. intros H. apply desc_new_inv in H as (_ & _ & _ & names & _ & ->). unfold has_le_label. cbn [d_vars d_const_pairs].
  f_equal. unfold cpairs. rewrite (existsb_perm _ _ _ (sort_by_perm lp_leb _)). rewrite existsb_map_comp. reflexivity.
Qed.
Lemma vec_create_inv o k v : vec_create o k = Ok v ->
  coherent v /\ v_opts v = o /\ v_kind v = k /\ v_children v = [].
Proof.
  unfold vec_create. intros H.
  destruct (describe o) as [d|] eqn:Ed.
  2:{ destruct (match k with VKHist _ => _ | _ => false end); discriminate. }
  pose proof (describe_le_label o d Ed) as Hle.
  destruct k as [t nk|bs].
  - inversion H; subst. cbn. repeat split; auto. cbn. discriminate.
  - rewrite <- Hle in H. destruct (has_le_label d) eqn:El; [discriminate|]. inversion H; subst. cbn. repeat split; auto.
Qed.

Definition heap_len (w : world) (k : veckind) : nat :=
  match k with VKValue _ _ => length (w_v w) | VKHist _ => length (w_h w) end.

Lemma child_handle_inj v c c' : child_handle v c = child_handle v c' -> c = c'.
Proof. unfold child_handle. destruct (v_kind v); intros H; inversion H; auto. Qed.

(* a value child: exactly the requested values under the declared names plus the constant labels, value zero *)
Lemma build_child_value_ok w v t tk nk : v_kind v = VKValue tk nk -> coherent v -> length t = length (d_vars (v_desc v)) ->
  build_child w v t = Ok (set_v w (w_v w ++ [mkVCore (v_desc v) tk (num_zero nk) (child_labels (v_desc v) t)]),
                          HValue (length (w_v w)), length (w_v w)).
Proof.
  intros K [D _] E. unfold build_child, value_new. rewrite K, D.
  rewrite make_label_pairs_ok; auto. eapply describe_const_sorted; eauto.
Qed.
Lemma build_child_value_err w v t tk nk : v_kind v = VKValue tk nk -> coherent v -> length t <> length (d_vars (v_desc v)) ->
  build_child w v t = Err (ECard (lenN (d_vars (v_desc v))) (lenN t)).
Proof. intros K [D _] E. unfold build_child, value_new. rewrite K, D. rewrite make_label_pairs_err; auto. Qed.

(* a histogram child: same labels, both shards empty: every bucket 0, count 0, sum +0 *)
Definition fresh_hcore (d : Desc) (ls : list LabelPair) (bs : list f64) : hcore :=
  mkHCore d ls bs false 0 (shard_new (length bs)) (shard_new (length bs)).
Lemma build_child_hist_ok w v t bs0 bs : v_kind v = VKHist bs0 -> coherent v -> length t = length (d_vars (v_desc v)) ->
  check_and_adjust_buckets bs0 = Some bs ->
  build_child w v t = Ok (set_h w (w_h w ++ [fresh_hcore (v_desc v) (child_labels (v_desc v) t) bs]),
                          HHist (length (w_h w)), length (w_h w)).
Proof.
  intros K [D L] E B. unfold build_child, hcore_new, hopts_describe. rewrite K. cbn [ho_common ho_buckets]. rewrite D.
  rewrite L by (rewrite K; reflexivity). rewrite make_label_pairs_ok; auto; [|eapply describe_const_sorted; eauto].
  rewrite B. reflexivity.
Qed.
Lemma build_child_hist_err w v t bs0 e : v_kind v = VKHist bs0 -> coherent v -> build_child w v t = Err e ->
  (length t <> length (d_vars (v_desc v)) /\ e = ECard (lenN (d_vars (v_desc v))) (lenN t))
  \/ (length t = length (d_vars (v_desc v)) /\ check_and_adjust_buckets bs0 = None /\ e = EMsg).
Proof.
  intros K [D L] H. unfold build_child, hcore_new, hopts_describe in H. rewrite K in H. cbn [ho_common ho_buckets] in H. rewrite D in H.
  rewrite L in H by (rewrite K; reflexivity).
  destruct (Nat.eq_dec (length t) (length (d_vars (v_desc v)))) as [E|E].
  - right. rewrite make_label_pairs_ok in H; auto; [|eapply describe_const_sorted; eauto].
    destruct (check_and_adjust_buckets bs0); inversion H. auto.
  - left. rewrite make_label_pairs_err in H; auto. inversion H. auto.
Qed.
(* the empty histogram really is empty *)
Lemma shard_new_zero n : sh_count (shard_new n) = 0 /\ sh_sum (shard_new n) = f_zero /\ Forall (fun c => c = 0) (sh_buckets (shard_new n)).
Proof. cbn. repeat split. apply Forall_forall. intros c Hc. apply repeat_spec in Hc. auto. Qed.

(* shape of a successful build, whatever the kind *)
Definition heaps_le (w w' : world) : Prop :=
  (length (w_v w) <= length (w_v w'))%nat /\ (length (w_h w) <= length (w_h w'))%nat.
Lemma heaps_le_refl w : heaps_le w w.
Proof. split; lia. Qed.
Lemma heaps_le_trans a b c : heaps_le a b -> heaps_le b c -> heaps_le a c.
Proof. intros [] []. split; lia. Qed.
Lemma heap_len_mono w w' k : heaps_le w w' -> (heap_len w k <= heap_len w' k)%nat.
Proof. intros []. destruct k; cbn; lia. Qed.

Lemma build_child_inv w v t w' hd c : build_child w v t = Ok (w', hd, c) ->
  c = heap_len w (v_kind v) /\ hd = child_handle v c /\ w_vec w' = w_vec w /\ w_reg w' = w_reg w /\ w_slots w' = w_slots w
  /\ heap_len w' (v_kind v) = S c /\ heaps_le w w'.
Proof.
  unfold build_child, child_handle, heap_len, heaps_le. destruct (v_kind v) as [tk nk|bs].
  - destruct (value_new _ _ _ _); [|discriminate]. intros H. inversion H; subst. cbn. rewrite app_length. cbn. repeat split; lia.
  - destruct (hcore_new _ _); [|discriminate]. intros H. inversion H; subst. cbn. rewrite app_length. cbn. repeat split; lia.
Qed.
Lemma build_child_err_value w v t tk nk e : v_kind v = VKValue tk nk -> coherent v -> build_child w v t = Err e ->
  length t <> length (d_vars (v_desc v)) /\ e = ECard (lenN (d_vars (v_desc v))) (lenN t).
Proof.
  intros K C H. destruct (Nat.eq_dec (length t) (length (d_vars (v_desc v)))) as [E|E].
  - rewrite (build_child_value_ok w v t tk nk K C E) in H. discriminate.
  - rewrite (build_child_value_err w v t tk nk K C E) in H. inversion H. auto.
Qed.

(* ================= D. the children maps along every history ================= *)
(* ---- list helpers ---- *)
Lemma nth_error_lt {A} (l : list A) i x : nth_error l i = Some x -> (i < length l)%nat.
Proof. intros H. apply nth_error_Some. congruence. Qed.
Lemma list_set_length {A} (l : list A) i x : length (list_set l i x) = length l.
Proof. revert i; induction l as [|y l IH]; intros [|i]; cbn; auto. Qed.
Lemma upd_length {A} (l : list A) i f : length (upd l i f) = length l.
Proof. unfold upd. destruct (nth_error l i); auto. apply list_set_length. Qed.
Lemma nth_error_list_set_eq {A} (l : list A) i x : (i < length l)%nat -> nth_error (list_set l i x) i = Some x.
Proof. revert i; induction l as [|y l IH]; intros [|i] H; cbn in *; try lia; auto. apply IH. lia. Qed.
Lemma nth_error_list_set_neq {A} (l : list A) i j x : i <> j -> nth_error (list_set l i x) j = nth_error l j.
Proof. revert i j; induction l as [|y l IH]; intros [|i] [|j] H; cbn; auto; try congruence. Qed.
Lemma nth_error_list_set {A} (l : list A) i j x y : nth_error (list_set l i x) j = Some y ->
  (i = j /\ y = x) \/ (i <> j /\ nth_error l j = Some y).
Proof.
  intros H. destruct (Nat.eq_dec i j) as [->|N].
  - left. split; auto. assert (j < length l)%nat.
    { apply nth_error_lt in H. rewrite list_set_length in H. auto. } 
    rewrite nth_error_list_set_eq in H; auto. congruence.
  - right. rewrite nth_error_list_set_neq in H; auto.
Qed.
Lemma Forall_list_set {A} (P : A -> Prop) l i x : Forall P l -> P x -> Forall P (list_set l i x).
Proof.
  revert i; induction l as [|y l IH]; intros i Hl Hx; [destruct i; constructor|].
  inversion Hl; subst. destruct i; cbn; constructor; auto.
Qed.
Lemma Forall_nth_error {A} (P : A -> Prop) l i x : Forall P l -> nth_error l i = Some x -> P x.
Proof. intros H E. rewrite Forall_forall in H. apply H. eapply nth_error_In; eauto. Qed.

Lemma nlookup_None {V} h (m : list (N * V)) : nlookup h m = None <-> ~ In h (map fst m).
Proof.
  induction m as [|[k v] m IH]; cbn; [tauto|]. destruct (N.eqb_spec h k) as [->|E].
  - split; [discriminate|tauto].
  - rewrite IH. split; intros H; [intros [H1|H1]; [congruence|tauto]|tauto].
Qed.
Lemma nlookup_In {V} h (m : list (N * V)) c : nlookup h m = Some c -> In (h, c) m.
Proof.
  induction m as [|[k v] m IH]; cbn; [discriminate|]. destruct (N.eqb_spec h k) as [->|E]; intros H.
  - inversion H; auto.
  - auto.
Qed.
Lemma nlookup_app {V} h (m e : list (N * V)) :
  nlookup h (m ++ e) = match nlookup h m with Some c => Some c | None => nlookup h e end.
Proof. induction m as [|[k v] m IH]; cbn; auto. destruct (h =? k); auto. Qed.
Lemma nremove_In {V} h (m : list (N * V)) x : In x (nremove h m) -> In x m.
Proof. induction m as [|[k v] m IH]; cbn; auto. destruct (h =? k); cbn; intros H; auto. destruct H; auto. Qed.
Lemma nremove_nodup {V W} (f : N * V -> W) h (m : list (N * V)) : NoDup (map f m) -> NoDup (map f (nremove h m)).
Proof.
  induction m as [|[k v] m IH]; cbn; auto. intros H. inversion H; subst. destruct (h =? k); cbn; auto.
  constructor; auto. intros Hin. apply H2. apply in_map_iff in Hin as (x & E & Hx). apply in_map_iff. exists x. split; auto.
  eapply nremove_In; eauto.
Qed.
Lemma NoDup_snd_inj {V W} (m : list (V * W)) a b c : NoDup (map snd m) -> In (a, c) m -> In (b, c) m -> a = b.
Proof.
  intros N Ha Hb. assert (E : (a, c) = (b, c)) by (eapply (NoDup_map_inj_on snd); eauto). inversion E; auto.
Qed.
Lemma NoDup_fst_inj {V W} (m : list (V * W)) a c c' : NoDup (map fst m) -> In (a, c) m -> In (a, c') m -> c = c'.
Proof.
  intros N Ha Hb. assert (E : (a, c) = (a, c')) by (eapply (NoDup_map_inj_on fst); eauto). inversion E; auto.
Qed.

(* ---- the invariant ---- *)
Definition vec_ok (w : world) (v : veccore) : Prop :=
  coherent v /\ NoDup (map fst (v_children v)) /\ NoDup (map snd (v_children v))
  /\ Forall (fun hc => (snd hc < heap_len w (v_kind v))%nat) (v_children v).
Definition world_ok (w : world) : Prop := Forall (vec_ok w) (w_vec w).

Lemma vec_ok_mono w w' v : heaps_le w w' -> vec_ok w v -> vec_ok w' v.
Proof.
  intros L (C & N1 & N2 & B). split; [exact C|]. split; [exact N1|]. split; [exact N2|].
  eapply Forall_impl; [|exact B]. cbn. intros hc H.
  pose proof (heap_len_mono w w' (v_kind v) L). lia.
Qed.
Lemma world0_ok : world_ok world0.
Proof. constructor. Qed.

(* how one API call may change the table of vectors.  [rm] says whether removals are allowed. *)
Inductive vec_trans (rm : bool) (w w' : world) : Prop :=
| VT_same : w_vec w' = w_vec w -> heaps_le w w' -> vec_trans rm w w'
| VT_new v : w_vec w' = w_vec w ++ [v] -> coherent v -> v_children v = [] -> heaps_le w w' -> vec_trans rm w w'
| VT_child vi v h : nth_error (w_vec w) vi = Some v -> nlookup h (v_children v) = None ->
    w_vec w' = list_set (w_vec w) vi (vec_set_children v (v_children v ++ [(h, heap_len w (v_kind v))])) ->
    (heap_len w (v_kind v) < heap_len w' (v_kind v))%nat -> heaps_le w w' -> vec_trans rm w w'
| VT_remove vi v h : rm = true -> nth_error (w_vec w) vi = Some v ->
    w_vec w' = list_set (w_vec w) vi (vec_set_children v (nremove h (v_children v))) -> heaps_le w w' -> vec_trans rm w w'
| VT_reset vi : rm = true -> w_vec w' = upd (w_vec w) vi (fun v => vec_set_children v []) -> heaps_le w w' -> vec_trans rm w w'.

(* only the vectors and the two heaps matter *)
Lemma vec_trans_proj rm w w' w'' : w_vec w'' = w_vec w' -> w_v w'' = w_v w' -> w_h w'' = w_h w' ->
  vec_trans rm w w' -> vec_trans rm w w''.
Proof.
  intros E1 E2 E3 T.
  assert (HL : forall k, heap_len w'' k = heap_len w' k) by (intros []; cbn; congruence).
  assert (LE : heaps_le w w' -> heaps_le w w'') by (unfold heaps_le; rewrite E2, E3; auto).
  destruct T as [E L|v E C Ch L|vi v h Hv Hn E Lt L|vi v h R Hv E L|vi R E L].
  - apply VT_same; [congruence|auto].
  - apply (VT_new _ _ _ v); [congruence|auto|auto|auto].
  - apply (VT_child _ _ _ vi v h); [auto|auto|congruence|rewrite HL; auto|auto].
  - apply (VT_remove _ _ _ vi v h); [auto|auto|congruence|auto].
  - apply (VT_reset _ _ _ vi); [auto|congruence|auto].
Qed.
Lemma vec_trans_weaken w w' : vec_trans false w w' -> vec_trans true w w'.
Proof.
  intros T. destruct T; [apply VT_same|eapply VT_new|eapply VT_child| |]; eauto; discriminate.
Qed.

Lemma coherent_set_children v c : coherent v -> coherent (vec_set_children v c).
Proof. intros H. exact H. Qed.

Lemma trans_ok rm w w' : world_ok w -> vec_trans rm w w' -> world_ok w'.
Proof.
  unfold world_ok. intros OK T. destruct T as [E L|v E C Ch L|vi v h Hv Hn E Lt L|vi v h _ Hv E L|vi _ E L]; rewrite E.
  - eapply Forall_impl; [|exact OK]. intros v. apply vec_ok_mono; auto.
  - apply Forall_app. split.
    + eapply Forall_impl; [|exact OK]. intros v0. apply vec_ok_mono; auto.
    + constructor; [|constructor]. split; [exact C|]. rewrite Ch. repeat split; constructor.
  - apply Forall_list_set.
    + eapply Forall_impl; [|exact OK]. intros v0. apply vec_ok_mono; auto.
    + destruct (Forall_nth_error _ _ _ _ OK Hv) as (C & N1 & N2 & B).
      split; [apply coherent_set_children; auto|]. cbn [vec_set_children v_children v_kind].
      rewrite !map_app. cbn [map fst snd]. split; [|split].
      * apply NoDup_app_intro; auto. { constructor; [intros []|constructor]. }
        intros x [<-|[]]. apply nlookup_None; auto.
      * apply NoDup_app_intro; auto. { constructor; [intros []|constructor]. }
        intros x [<-|[]] Hin. apply in_map_iff in Hin as (hc & Ehc & Hhc). rewrite Forall_forall in B. specialize (B hc Hhc). lia.
      * apply Forall_app. split.
        -- eapply Forall_impl; [|exact B]. cbn. intros hc Hhc. lia.
        -- constructor; [|constructor]. cbn. lia.
  - apply Forall_list_set.
    + eapply Forall_impl; [|exact OK]. intros v0. apply vec_ok_mono; auto.
    + destruct (Forall_nth_error _ _ _ _ OK Hv) as (C & N1 & N2 & B).
      split; [apply coherent_set_children; auto|]. cbn [vec_set_children v_children v_kind]. split; [|split].
      * apply nremove_nodup; auto.
      * apply nremove_nodup; auto.
      * apply Forall_forall. intros hc Hhc. apply nremove_In in Hhc. rewrite Forall_forall in B. specialize (B hc Hhc).
        pose proof (heap_len_mono w w' (v_kind v) L). lia.
  - unfold upd. destruct (nth_error (w_vec w) vi) as [v|] eqn:Hv.
    + apply Forall_list_set.
      * eapply Forall_impl; [|exact OK]. intros v0. apply vec_ok_mono; auto.
      * destruct (Forall_nth_error _ _ _ _ OK Hv) as (C & _). split; [apply coherent_set_children; auto|].
        cbn. repeat split; constructor.
    + eapply Forall_impl; [|exact OK]. intros v0. apply vec_ok_mono; auto.
Qed.

(* without removals a vector only ever gains children *)
Definition vec_extends (v v' : veccore) : Prop :=
  v_desc v' = v_desc v /\ v_opts v' = v_opts v /\ v_kind v' = v_kind v /\ exists ext, v_children v' = v_children v ++ ext.
Lemma vec_extends_refl v : vec_extends v v.
Proof. repeat split; auto. exists []. rewrite app_nil_r. auto. Qed.
Lemma vec_extends_trans a b c : vec_extends a b -> vec_extends b c -> vec_extends a c.
Proof.
  intros (A1 & A2 & A3 & e1 & A4) (B1 & B2 & B3 & e2 & B4). repeat split; try congruence.
  exists (e1 ++ e2). rewrite B4, A4, app_assoc. reflexivity.
Qed.
Lemma trans_extends w w' vi v : vec_trans false w w' -> nth_error (w_vec w) vi = Some v ->
  exists v', nth_error (w_vec w') vi = Some v' /\ vec_extends v v'.
Proof.
  intros T Hv. destruct T as [E L|v0 E C Ch L|vj v0 h Hv0 Hn E Lt L|vj v0 h F _ E L|vj F E L]; try discriminate.
  - exists v. rewrite E. split; auto. apply vec_extends_refl.
  - exists v. rewrite E. split; [|apply vec_extends_refl]. rewrite nth_error_app1; auto. eapply nth_error_lt; eauto.
  - destruct (Nat.eq_dec vj vi) as [->|Ne].
    + assert (v0 = v) by congruence. subst v0. eexists. rewrite E. split.
      * apply nth_error_list_set_eq. eapply nth_error_lt; eauto.
      * repeat split; auto. cbn. eexists. reflexivity.
    + exists v. rewrite E. split; [|apply vec_extends_refl]. rewrite nth_error_list_set_neq; auto.
Qed.

(* ---- lookup-or-create and delete ---- *)
Lemma get_or_create_cases w vi h t w' hd : vec_get_or_create w vi h t = Ok (w', hd) ->
  exists v, nth_error (w_vec w) vi = Some v /\
  ((exists c, nlookup h (v_children v) = Some c /\ w' = w /\ hd = child_handle v c)
   \/ (nlookup h (v_children v) = None /\ exists w1, build_child w v t = Ok (w1, hd, heap_len w (v_kind v))
       /\ hd = child_handle v (heap_len w (v_kind v))
       /\ w' = set_vec w1 (list_set (w_vec w) vi (vec_set_children v (v_children v ++ [(h, heap_len w (v_kind v))]))))).
Proof.
  unfold vec_get_or_create. destruct (nth_error (w_vec w) vi) as [v|] eqn:Hv; [|discriminate]. intros H. exists v. split; auto.
  destruct (nlookup h (v_children v)) as [c|] eqn:Hl.
  - left. inversion H; subst. eauto.
  - right. split; auto. destruct (build_child w v t) as [[[w1 hd1] c]|] eqn:Hb; [|discriminate].
    inversion H; subst. destruct (build_child_inv _ _ _ _ _ _ Hb) as (-> & -> & Ev & _). exists w1. rewrite Ev. auto.
Qed.
Lemma get_or_create_err w vi h t e : vec_get_or_create w vi h t = Err e ->
  nth_error (w_vec w) vi = None \/ exists v, nth_error (w_vec w) vi = Some v /\ nlookup h (v_children v) = None /\ build_child w v t = Err e.
Proof.
  unfold vec_get_or_create. destruct (nth_error (w_vec w) vi) as [v|] eqn:Hv; auto. right. exists v. split; auto.
  destruct (nlookup h (v_children v)) as [c|] eqn:Hl; [discriminate|]. split; auto.
  destruct (build_child w v t) as [[[w1 hd1] c]|]; [discriminate|]. congruence.
Qed.
Lemma get_or_create_trans rm w vi h t w' hd : vec_get_or_create w vi h t = Ok (w', hd) -> vec_trans rm w w'.
Proof.
  intros H. apply get_or_create_cases in H as (v & Hv & [(c & Hl & -> & _)|(Hl & w1 & Hb & _ & ->)]).
  - apply VT_same; auto. apply heaps_le_refl.
  - destruct (build_child_inv _ _ _ _ _ _ Hb) as (_ & _ & Ev & _ & _ & Hs & L).
    apply (VT_child _ _ _ vi v h); auto.
    + destruct (v_kind v); cbn in *; lia.
Qed.
Lemma vec_delete_trans w vi h w' : vec_delete w vi h = Ok w' -> vec_trans true w w'.
Proof.
  unfold vec_delete. destruct (nth_error (w_vec w) vi) as [v|] eqn:Hv; [|discriminate].
  destruct (nlookup h (v_children v)); [|discriminate]. intros H. inversion H; subst.
  apply (VT_remove _ _ _ vi v h); auto. split; cbn; lia.
Qed.

(* ---- flushing local caches touches neither the vectors nor the heap sizes ---- *)
Definition same_shape (w w' : world) : Prop :=
  w_vec w' = w_vec w /\ length (w_v w') = length (w_v w) /\ length (w_h w') = length (w_h w).
Lemma same_shape_refl w : same_shape w w.
Proof. repeat split. Qed.
Lemma same_shape_trans rm w w' : same_shape w w' -> vec_trans rm w w'.
Proof. intros (A & B & C). apply VT_same; auto. split; lia. Qed.
(* ... and additionally leaves the slot table alone *)
Definition same_frame (w w' : world) : Prop := same_shape w w' /\ w_slots w' = w_slots w.
Lemma same_frame_refl w : same_frame w w.
Proof. split; [apply same_shape_refl|reflexivity]. Qed.
Lemma same_frame_comp a b c : same_frame a b -> same_frame b c -> same_frame a c.
Proof. intros ((A & B & C) & D) ((A' & B' & C') & D'). repeat split; congruence. Qed.
Lemma frame_shape w w' : same_frame w w' -> same_shape w w'.
Proof. intros [H _]. exact H. Qed.
Lemma flush_lh_frame w c l : same_frame w (flush_lh w c l).
Proof. unfold flush_lh, same_frame, same_shape. cbn. rewrite upd_length. auto. Qed.
Lemma fold_frame {E} (f : world -> E -> world) (l : list E) w :
  (forall w0 e, same_frame w0 (f w0 e)) -> same_frame w (fold_left f l w).
Proof.
  intros Hf. revert w; induction l as [|e l IH]; intros w; cbn; [apply same_frame_refl|].
  eapply same_frame_comp; [apply Hf|apply IH].
Qed.
Lemma flush_cv_frame (cache : list (N * (nat * numval))) w :
  same_frame w (fold_left (fun w0 e => let '(_, (c, val)) := e in
                   if num_is_zero val then w0
                   else set_v w0 (upd (w_v w0) c (fun vc => mkVCore (vc_desc vc) (vc_type vc) (num_add (vc_val vc) val) (vc_labels vc))))
                 cache w).
Proof.
  apply fold_frame. intros w0 [h [c val]]. destruct (num_is_zero val); [apply same_frame_refl|].
  unfold same_frame, same_shape. cbn. rewrite upd_length. auto.
Qed.
Lemma flush_hv_frame (cache : list (N * (nat * lhist))) w :
  same_frame w (fold_left (fun w0 e => let '(_, (c, l)) := e in flush_lh w0 c l) cache w).
Proof. apply fold_frame. intros w0 [h [c l]]. apply flush_lh_frame. Qed.

(* ---- every API call is one of the five transitions ---- *)
Definition removing (o : op) : bool :=
  match o with OpRemove _ _ | OpRemoveMap _ _ | OpReset _ | OpLvRemove _ _ => true | _ => false end.

Lemma same_shape_put w w' s h : same_shape w w' -> same_shape w (put_slot w' s h).
Proof. intros H. exact H. Qed.
Lemma vec_trans_pre rm w w1 w' : same_shape w w1 -> vec_trans rm w1 w' -> vec_trans rm w w'.
Proof.
  intros (E1 & E2 & E3) T.
  assert (HL : forall k, heap_len w1 k = heap_len w k) by (intros []; cbn; congruence).
  assert (LE : heaps_le w1 w' -> heaps_le w w') by (unfold heaps_le; rewrite E2, E3; auto).
  destruct T as [E L|v E C Ch L|vi v h Hv Hn E Lt L|vi v h R Hv E L|vi R E L].
  - apply VT_same; [congruence|auto].
  - apply (VT_new _ _ _ v); [congruence|auto|auto|auto].
  - apply (VT_child _ _ _ vi v h); [congruence|auto|rewrite <- HL; congruence|rewrite <- HL; auto|auto].
  - apply (VT_remove _ _ _ vi v h); [auto|congruence|congruence|auto].
  - apply (VT_reset _ _ _ vi); [auto|congruence|auto].
Qed.

Lemma collect_hist_frame w c m w' : collect_hist w c = Some (m, w') -> same_frame w w'.
Proof.
  unfold collect_hist. destruct (nth_error (w_h w) c); [|discriminate]. destruct (hist_metric h) as [[m' h']|]; [|discriminate].
  intros H. inversion H; subst. unfold same_frame, same_shape. cbn. rewrite list_set_length. auto.
Qed.
Lemma collect_children_frame k cs : forall w ms w', collect_children w k cs = Some (ms, w') -> same_frame w w'.
Proof.
  induction cs as [|[h c] cs IH]; intros w ms w' H; cbn [collect_children] in H.
  - inversion H; subst. apply same_frame_refl.
  - destruct k.
    + destruct (nth_error (w_v w) c); [|discriminate]. destruct (collect_children w (VKValue t k) cs) as [[ms' w1]|] eqn:E; [|discriminate].
      inversion H; subst. eapply IH; eauto.
    + destruct (collect_hist w c) as [[m w1]|] eqn:E1; [|discriminate].
      destruct (collect_children w1 (VKHist buckets) cs) as [[ms' w2]|] eqn:E2; [|discriminate].
      inversion H; subst. eapply same_frame_comp; [eapply collect_hist_frame; eauto|eapply IH; eauto].
Qed.
Lemma collect_collector_frame w c fs w' : collect_collector w c = Some (fs, w') -> same_frame w w'.
Proof.
  destruct c; cbn [collect_collector].
  - destruct (nth_error (w_v w) c); [|discriminate]. intros H; inversion H; subst. apply same_frame_refl.
  - destruct (nth_error (w_h w) c); [|discriminate]. destruct (collect_hist w c) as [[m w1]|] eqn:E; [|discriminate].
    intros H; inversion H; subst. eapply collect_hist_frame; eauto.
  - destruct (nth_error (w_vec w) v) as [vc|]; [|discriminate].
    destruct (collect_children w (v_kind vc) (v_children vc)) as [[ms w1]|] eqn:E; [|discriminate].
    intros H; inversion H; subst. eapply collect_children_frame; eauto.
  - intros H; inversion H; subst. apply same_frame_refl.
  - intros H; inversion H; subst. apply same_frame_refl.
Qed.
Lemma collect_all_frame cs : forall w fs w', collect_all w cs = Some (fs, w') -> same_frame w w'.
Proof.
  induction cs as [|[i c] cs IH]; intros w fs w' H; cbn [collect_all] in H.
  - inversion H; subst. apply same_frame_refl.
  - destruct (collect_collector w c) as [[fs1 w1]|] eqn:E1; [|discriminate].
    destruct (collect_all w1 cs) as [[fs2 w2]|] eqn:E2; [|discriminate]. inversion H; subst.
    eapply same_frame_comp; [eapply collect_collector_frame; eauto|eapply IH; eauto].
Qed.

Ltac break_match :=
  match goal with
  | |- context [match ?x with _ => _ end] =>
      lazymatch x with
      | context [match _ with _ => _ end] => fail
      | _ => destruct x eqn:?
      end
  end.
Ltac unfold_world :=
  unfold flush_lh; unfold push_slot, put_slot; unfold set_slots, set_v, set_h, set_vec, set_reg; cbn [w_vec w_v w_h w_reg w_slots].
Ltac shape_leaf :=
  cbn [fst]; apply same_shape_trans; unfold same_shape; unfold_world; rewrite ?upd_length, ?list_set_length; auto.
Ltac grow_leaf :=
  cbn [fst]; apply VT_same; [reflexivity|]; unfold heaps_le; unfold_world;
  rewrite ?app_length, ?upd_length, ?list_set_length; cbn [length]; split; lia.
Ltac easy_leaf := solve [shape_leaf | grow_leaf].
Ltac new_vec_leaf :=
  match goal with
  | H : vec_create _ _ = Ok ?a |- _ =>
      cbn [fst]; apply vec_create_inv in H as (? & _ & _ & ?); apply (VT_new _ _ _ a); [reflexivity|auto|auto|split; cbn; lia]
  end.
Ltac goc_leaf :=
  match goal with
  | H : vec_get_or_create _ _ _ _ = Ok _ |- _ =>
      cbn [fst]; eapply vec_trans_proj; [| | |eapply get_or_create_trans; exact H]; reflexivity
  end.
Ltac del_leaf :=
  match goal with
  | H : vec_delete _ _ _ = Ok _ |- _ =>
      cbn [fst]; eapply vec_trans_pre; [|eapply vec_delete_trans; exact H]; unfold same_shape; unfold_world; rewrite ?upd_length; auto
  end.

Lemma step_trans w o : vec_trans (removing o) w (fst (step w o)).
Proof.
  destruct o; cbn [step removing]; try solve [repeat break_match; easy_leaf].
  - (* OpCounterVec *) repeat break_match; try easy_leaf; new_vec_leaf.
  - (* OpGaugeVec *) repeat break_match; try easy_leaf; new_vec_leaf.
  - (* OpHistVec *) repeat break_match; try easy_leaf; new_vec_leaf.
  - (* OpWith *) repeat break_match; try easy_leaf; goc_leaf.
  - (* OpWithMap *) repeat break_match; try easy_leaf; goc_leaf.
  - (* OpRemove *) repeat break_match; try easy_leaf; del_leaf.
  - (* OpRemoveMap *) repeat break_match; try easy_leaf; del_leaf.
  - (* OpReset *) repeat break_match; try easy_leaf. cbn [fst]. apply (VT_reset _ _ _ v); auto. split; cbn; lia.
  - (* OpFlush *) repeat break_match; try easy_leaf.
    + cbn [fst]. apply same_shape_trans. apply same_shape_put. apply frame_shape. apply flush_cv_frame.
    + cbn [fst]. apply same_shape_trans. apply same_shape_put. apply frame_shape. apply flush_hv_frame.
  - (* OpDrop *) repeat break_match; try easy_leaf.
    cbn [fst]. apply same_shape_trans. apply same_shape_put. apply frame_shape. apply flush_hv_frame.
  - (* OpLvInc *) repeat break_match; try easy_leaf; goc_leaf.
  - (* OpLvObserve *) repeat break_match; try easy_leaf; goc_leaf.
  - (* OpLvRemove *) repeat break_match; try easy_leaf; del_leaf.
  - (* OpGather *) repeat break_match; try easy_leaf. cbn [fst]. apply same_shape_trans. apply frame_shape. eapply collect_all_frame; eauto.
  - (* OpCollect *) repeat break_match; try easy_leaf. cbn [fst]. apply same_shape_trans. apply frame_shape. eapply collect_collector_frame; eauto.
Qed.

(* ---- hence the invariant holds in every reachable world ---- *)
Lemma step_ok w o : world_ok w -> world_ok (fst (step w o)).
Proof. intros H. eapply trans_ok; [exact H|apply step_trans]. Qed.
Lemma run_world_ok ops : forall w, world_ok w -> world_ok (run_world w ops).
Proof. induction ops as [|o ops IH]; intros w H; cbn; auto. apply IH. apply step_ok; auto. Qed.
Theorem reachable_ok ops : world_ok (run_world world0 ops).
Proof. apply run_world_ok. apply world0_ok. Qed.

Lemma trans_heaps rm w w' : vec_trans rm w w' -> heaps_le w w'.
Proof. intros T. destruct T; auto. Qed.
Definition keeps (o : op) : bool := negb (removing o).
Lemma run_extends mid : forall w vi v, forallb keeps mid = true -> nth_error (w_vec w) vi = Some v ->
  exists v', nth_error (w_vec (run_world w mid)) vi = Some v' /\ vec_extends v v' /\ heaps_le w (run_world w mid).
Proof.
  induction mid as [|o mid IH]; intros w vi v K Hv; cbn [run_world].
  - exists v. repeat split; auto; try apply vec_extends_refl; lia.
  - cbn [forallb] in K. apply andb_true_iff in K as [K1 K2]. unfold keeps in K1. apply negb_true_iff in K1.
    pose proof (step_trans w o) as T. rewrite K1 in T.
    destruct (trans_extends _ _ _ _ T Hv) as (v1 & Hv1 & X1).
    destruct (IH _ _ _ K2 Hv1) as (v2 & Hv2 & X2 & L2). exists v2. split; auto. split.
    + eapply vec_extends_trans; eauto.
    + eapply heaps_le_trans; [eapply trans_heaps; eauto|auto].
Qed.

(* ================= E. same child iff same tuple ================= *)
(* what a successful request establishes *)
Lemma get_or_create_post w vi h t w' hd : world_ok w -> vec_get_or_create w vi h t = Ok (w', hd) ->
  world_ok w' /\ exists v v' c, nth_error (w_vec w) vi = Some v /\ nth_error (w_vec w') vi = Some v' /\ vec_extends v v'
     /\ nlookup h (v_children v') = Some c /\ hd = child_handle v c
     /\ (nlookup h (v_children v) = None -> c = heap_len w (v_kind v)).
Proof.
  intros OK H. split; [eapply trans_ok; [exact OK|eapply (get_or_create_trans true); eauto]|].
  apply get_or_create_cases in H as (v & Hv & [(c & Hl & -> & ->)|(Hl & w1 & Hb & -> & ->)]).
  - exists v, v, c. repeat split; auto; try apply vec_extends_refl. congruence.
  - eexists v, _, _. split; [exact Hv|]. split.
    + cbn [w_vec set_vec]. apply nth_error_list_set_eq. eapply nth_error_lt; eauto.
    + split; [repeat split; auto; cbn; eexists; reflexivity|]. split; [|split; auto].
      cbn [vec_set_children v_children]. rewrite nlookup_app, Hl. cbn. rewrite N.eqb_refl. reflexivity.
Qed.

Theorem same_child_iff w vi v t1 t2 h1 h2 w1 hd1 mid w3 hd2 :
  world_ok w -> nth_error (w_vec w) vi = Some v ->
  hash_label_values (v_desc v) t1 = Ok h1 -> vec_get_or_create w vi h1 t1 = Ok (w1, hd1) ->
  forallb keeps mid = true ->
  hash_label_values (v_desc v) t2 = Ok h2 -> vec_get_or_create (run_world w1 mid) vi h2 t2 = Ok (w3, hd2) ->
  wf_strs t1 -> wf_strs t2 ->
  fnv_injective_on [label_values_preimage t1; label_values_preimage t2] ->
  (hd1 = hd2 <-> t1 = t2).
Proof.
  intros OK Hv H1 G1 K H2 G2 W1 W2 Inj.
  apply hash_label_values_inv in H1 as [L1 ->]. apply hash_label_values_inv in H2 as [L2 ->].
  destruct (get_or_create_post _ _ _ _ _ _ OK G1) as (OK1 & v0 & v1 & c1 & Hv0 & Hv1 & X1 & Hl1 & -> & _).
  assert (v0 = v) by congruence. subst v0.
  destruct (run_extends mid w1 vi v1 K Hv1) as (v2 & Hv2 & X2 & L12).
  pose proof (run_world_ok mid w1 OK1) as OK2.
  destruct (get_or_create_post _ _ _ _ _ _ OK2 G2) as (_ & v2' & v3 & c2 & Hv2' & _ & _ & Hl3 & -> & Hfresh).
  assert (v2' = v2) by congruence. subst v2'.
  destruct X1 as (_ & _ & K1 & _). destruct X2 as (_ & _ & K2 & ext & Ech).
  (* the first child is still registered under h1 in v2 *)
  assert (Hl2 : nlookup (fnv1a (label_values_preimage t1)) (v_children v2) = Some c1).
  { rewrite Ech, nlookup_app, Hl1. reflexivity. }
  assert (KK : child_handle v2 c2 = child_handle v c2) by (unfold child_handle; rewrite K2, K1; reflexivity).
  rewrite KK. split.
  - intros E. apply child_handle_inj in E. subst c2.
    destruct (Forall_nth_error _ _ _ _ OK2 Hv2) as (_ & N1 & N2 & B).
    destruct (nlookup (fnv1a (label_values_preimage t2)) (v_children v2)) as [c|] eqn:Hl.
    + (* hit: two keys of one child coincide *)
      assert (In (fnv1a (label_values_preimage t2), c) (v_children v2)) by (apply nlookup_In; auto).
      assert (In (fnv1a (label_values_preimage t1), c1) (v_children v2)) by (apply nlookup_In; auto).
      assert (c = c1).
      { destruct (get_or_create_cases _ _ _ _ _ _ G2) as (v2'' & Hv2'' & [(c' & Hl' & _ & Ehd)|(Hl' & _)]); [|congruence].
        assert (v2'' = v2) by congruence. subst v2''. rewrite Hl in Hl'. inversion Hl'; subst c'.
        apply child_handle_inj in Ehd. auto. }
      subst c.
      assert (Eh : fnv1a (label_values_preimage t1) = fnv1a (label_values_preimage t2)) by (eapply NoDup_snd_inj; eauto).
      apply Inj in Eh; cbn; auto. apply enc_inj in Eh; auto.
    + (* miss: a fresh child cannot be an old one *)
      exfalso. specialize (Hfresh eq_refl). rewrite Forall_forall in B.
      specialize (B _ (nlookup_In _ _ _ Hl2)). cbn in B. lia.
  - intros <-. f_equal.
    destruct (get_or_create_cases _ _ _ _ _ _ G2) as (v2'' & Hv2'' & [(c' & Hl' & _ & Ehd)|(Hl' & _)]).
    + assert (v2'' = v2) by congruence. subst v2''. rewrite Hl2 in Hl'. inversion Hl'; subst c'.
      apply child_handle_inj in Ehd. auto.
    + assert (v2'' = v2) by congruence. subst v2''. congruence.
Qed.

(* ================= F. requests as API calls: results, errors create nothing ================= *)
Definition good_buckets (v : veccore) : Prop :=
  match v_kind v with VKHist bs0 => check_and_adjust_buckets bs0 <> None | _ => True end.

Lemma get_or_create_succeeds w vi v h t : nth_error (w_vec w) vi = Some v -> coherent v -> good_buckets v ->
  length t = length (d_vars (v_desc v)) -> exists w' hd, vec_get_or_create w vi h t = Ok (w', hd).
Proof.
  intros Hv C G L. unfold vec_get_or_create. rewrite Hv. destruct (nlookup h (v_children v)); [eauto|].
  unfold good_buckets in G. destruct (v_kind v) as [tk nk|bs0] eqn:K.
  - rewrite (build_child_value_ok w v t tk nk K C L). eauto.
  - destruct (check_and_adjust_buckets bs0) as [bs|] eqn:B; [|congruence].
    rewrite (build_child_hist_ok w v t bs0 bs K C L B). eauto.
Qed.

(* the observable result of a positional request is that of the cardinality check alone *)
Theorem with_result w s vi v vals : world_ok w -> slot w s = HVec vi -> nth_error (w_vec w) vi = Some v -> good_buckets v ->
  snd (step w (OpWith s vals)) = ORes (res_unit (hash_label_values (v_desc v) vals)).
Proof.
  intros OK Hs Hv G. cbn [step]. rewrite Hs, Hv.
  destruct (hash_label_values (v_desc v) vals) as [h|e] eqn:H; [|reflexivity].
  apply hash_label_values_inv in H as [L _].
  destruct (Forall_nth_error _ _ _ _ OK Hv) as (C & _).
  destruct (get_or_create_succeeds w vi v h vals Hv C G L) as (w' & hd & ->). reflexivity.
Qed.
(* ... and of a map request that of the name / cardinality check alone *)
Theorem with_map_result w s vi v kvs : world_ok w -> slot w s = HVec vi -> nth_error (w_vec w) vi = Some v -> good_buckets v ->
  snd (step w (OpWithMap s kvs)) = ORes (res_unit (hash_labels (v_desc v) (amap_of kvs))).
Proof.
  intros OK Hs Hv G. cbn [step]. rewrite Hs, Hv.
  destruct (hash_labels (v_desc v) (amap_of kvs)) as [[h vs]|e] eqn:H; [|reflexivity].
  apply hash_labels_ok_inv in H as (_ & _ & -> & _).
  destruct (Forall_nth_error _ _ _ _ OK Hv) as (C & _).
  destruct (get_or_create_succeeds w vi v h (map (value_of (amap_of kvs)) (d_vars (v_desc v))) Hv C G (map_length _ _)) as (w' & hd & ->).
  reflexivity.
Qed.
(* a map request with exactly the declared names is the positional request for the values read in declared order *)
Theorem with_map_is_with w s vi v kvs : slot w s = HVec vi -> nth_error (w_vec w) vi = Some v ->
  Permutation (map fst (amap_of kvs)) (d_vars (v_desc v)) ->
  step w (OpWithMap s kvs) = step w (OpWith s (map (value_of (amap_of kvs)) (d_vars (v_desc v)))).
Proof.
  intros Hs Hv P. cbn [step]. rewrite Hs, Hv. destruct (map_form_is_positional _ _ P) as (h & -> & ->). reflexivity.
Qed.

(* an erroneous request changes nothing: no vector, value or histogram core is touched, only a dead slot is appended *)
Theorem with_error_creates_nothing w s vals e w' : step w (OpWith s vals) = (w', ORes (Err e)) -> w' = push_slot w HDead.
Proof. cbn [step]. repeat break_match; intros H; inversion H; auto. Qed.
Theorem with_map_error_creates_nothing w s kvs e w' : step w (OpWithMap s kvs) = (w', ORes (Err e)) -> w' = push_slot w HDead.
Proof. cbn [step]. repeat break_match; intros H; inversion H; auto. Qed.
Lemma push_dead_unchanged w : let w' := push_slot w HDead in
  w_vec w' = w_vec w /\ w_v w' = w_v w /\ w_h w' = w_h w /\ w_reg w' = w_reg w /\ w_slots w' = w_slots w ++ [HDead].
Proof. cbn. auto. Qed.

(* ================= G. the local vectors: caches keyed by the same hash ================= *)
(* every cache entry targets the child the vector currently serves under that key *)
Definition cache_targets {X} (w : world) (vi : nat) (cache : list (N * (nat * X))) : Prop :=
  exists v, nth_error (w_vec w) vi = Some v /\ forall h c x, nlookup h cache = Some (c, x) -> nlookup h (v_children v) = Some c.

Lemma slot_in_range w s : slot w s <> HDead -> (s < length (w_slots w))%nat.
Proof. intros H. destruct (Nat.lt_ge_cases s (length (w_slots w))); auto. exfalso. apply H. unfold slot. apply nth_overflow. auto. Qed.
Lemma slot_put w s hd : (s < length (w_slots w))%nat -> slot (put_slot w s hd) s = hd.
Proof.
  intros H. unfold slot, put_slot. cbn [w_slots set_slots]. apply nth_error_nth. apply nth_error_list_set_eq. auto.
Qed.
Lemma nlookup_map_upd {X} h (cache : list (N * (nat * X))) c x x' h' c' y :
  nlookup h cache = Some (c, x) ->
  nlookup h' (map (fun e => if fst e =? h then (h, (c, x')) else e) cache) = Some (c', y) ->
  exists y0, nlookup h' cache = Some (c', y0).
Proof.
  induction cache as [|[k [ck xk]] cache IH]; cbn [nlookup map fst]; [discriminate|].
  destruct (N.eqb_spec k h) as [->|Nk].
  - rewrite N.eqb_refl. intros H. inversion H; subst. cbn [nlookup]. destruct (N.eqb_spec h' h) as [->|Nh].
    + intros H'. inversion H'; subst. eauto.
    + intros H'. clear IH. revert H'. induction cache as [|[k2 [ck2 xk2]] cache IH2]; cbn [nlookup map fst]; [discriminate|].
      destruct (N.eqb_spec k2 h) as [->|N2]; cbn [nlookup].
      * destruct (N.eqb_spec h' h); [congruence|]. auto.
      * destruct (h' =? k2); eauto.
  - destruct (N.eqb_spec h k) as [->|Nh]; [congruence|]. intros H. cbn [nlookup]. destruct (h' =? k); eauto.
Qed.
Lemma nlookup_map_hit {X} h (cache : list (N * (nat * X))) c x x' :
  nlookup h cache = Some (c, x) -> nlookup h (map (fun e => if fst e =? h then (h, (c, x')) else e) cache) = Some (c, x').
Proof.
  induction cache as [|[k [ck xk]] cache IH]; cbn [nlookup map fst]; [discriminate|].
  destruct (N.eqb_spec h k) as [->|Nh].
  - rewrite N.eqb_refl. cbn [nlookup]. rewrite N.eqb_refl. reflexivity.
  - destruct (N.eqb_spec k h) as [->|Nk]; [congruence|]. cbn [nlookup]. destruct (N.eqb_spec h k); [congruence|]. auto.
Qed.

(* a direct request for a key that is present returns the registered child and changes nothing *)
Lemma get_or_create_hit w vi v h t c : nth_error (w_vec w) vi = Some v -> nlookup h (v_children v) = Some c ->
  vec_get_or_create w vi h t = Ok (w, child_handle v c).
Proof. intros Hv Hl. unfold vec_get_or_create. rewrite Hv, Hl. reflexivity. Qed.

Section LocalStep.
  Context {X : Type}.
  (* shared reasoning for both local vectors: after serving key h (hit or miss) the slot's cache targets, under h,
     the child a direct request returns *)
  Lemma cache_after_miss w vi (cache : list (N * (nat * X))) v h t w1 hd x0 s hnew :
    world_ok w -> cache_targets w vi cache -> nth_error (w_vec w) vi = Some v ->
    nlookup h cache = None -> vec_get_or_create w vi h t = Ok (w1, hd) ->
    exists c, hd = child_handle v c /\ cache_targets (put_slot w1 s hnew) vi (cache ++ [(h, (c, x0))])
              /\ nlookup h (cache ++ [(h, (c, x0))]) = Some (c, x0)
              /\ vec_get_or_create (put_slot w1 s hnew) vi h t = Ok (put_slot w1 s hnew, hd).
  Proof.
    intros OK (v0 & Hv0 & CT) Hv Hc G. assert (v0 = v) by congruence. subst v0.
    destruct (get_or_create_post _ _ _ _ _ _ OK G) as (_ & v' & v1 & c & Hv' & Hv1 & (K1 & K2 & K3 & ext & Ech) & Hl1 & -> & _).
    assert (v' = v) by congruence. subst v'. exists c. split; auto. split; [|split].
    - exists v1. split; [exact Hv1|]. intros h' c' x'. rewrite nlookup_app.
      destruct (nlookup h' cache) as [[c0 x1]|] eqn:E.
      + intros H. inversion H; subst. rewrite Ech, nlookup_app, (CT _ _ _ E). reflexivity.
      + cbn [nlookup]. destruct (N.eqb_spec h' h) as [->|]; [|discriminate]. intros H. inversion H; subst. auto.
    - rewrite nlookup_app, Hc. cbn [nlookup]. rewrite N.eqb_refl. reflexivity.
    - unfold vec_get_or_create. cbn [w_vec put_slot set_slots]. rewrite Hv1, Hl1. unfold child_handle. rewrite K3. reflexivity.
  Qed.
End LocalStep.

(* LocalCounterVec::with_label_values(t).inc_by(d) *)
Theorem lv_inc_targets w s vi cache v t d h :
  world_ok w -> slot w s = HLocalCounterVec vi cache -> cache_targets w vi cache ->
  nth_error (w_vec w) vi = Some v -> is_hist (v_kind v) = false -> hash_label_values (v_desc v) t = Ok h ->
  exists w' cache' c x, step w (OpLvInc s t d) = (w', OUnit) /\ slot w' s = HLocalCounterVec vi cache'
    /\ cache_targets w' vi cache' /\ nlookup h cache' = Some (c, x)
    /\ vec_get_or_create w' vi h t = Ok (w', HValue c).
Proof.
  intros OK Hs CT Hv K H. pose proof (hash_label_values_inv _ _ _ H) as [L _].
  assert (Hr : (s < length (w_slots w))%nat) by (apply slot_in_range; rewrite Hs; discriminate).
  assert (CH : forall c, child_handle v c = HValue c) by (intros c; unfold child_handle; destruct (v_kind v); [auto|discriminate]).
  cbn [step]. rewrite Hs, Hv, H. destruct (nlookup h cache) as [[c val]|] eqn:Hc.
  - eexists _, _, c, _. split; [reflexivity|]. split; [apply slot_put; auto|]. split; [|split].
    + destruct CT as (v0 & Hv0 & CT). exists v0. split; [exact Hv0|]. intros h' c' x' Hl'.
      pose proof (nlookup_map_upd _ _ _ _ _ _ _ _ Hc Hl') as (y0 & Hy). eapply CT; eauto.
    + eapply nlookup_map_hit. exact Hc.
    + destruct CT as (v0 & Hv0 & CT). assert (v0 = v) by congruence. subst v0. rewrite <- CH.
      unfold vec_get_or_create. cbn [w_vec put_slot set_slots]. rewrite Hv, (CT _ _ _ Hc). reflexivity.
  - destruct (Forall_nth_error _ _ _ _ OK Hv) as (C & _).
    assert (G : good_buckets v) by (unfold good_buckets; destruct (v_kind v); [exact I|discriminate]).
    destruct (get_or_create_succeeds w vi v h t Hv C G L) as (w1 & hd & Hg). rewrite Hg.
    destruct (cache_after_miss w vi cache v h t w1 hd
                (num_add (match d with VF _ => VF f_zero | VU _ => VU 0 | VI _ => VI 0%Z end) d) s
                (HLocalCounterVec vi (cache ++ [(h, (heap_len w (v_kind v), num_add (match d with VF _ => VF f_zero | VU _ => VU 0 | VI _ => VI 0%Z end) d))]))
                OK CT Hv Hc Hg) as (c & -> & _).
    rewrite CH.
    destruct (cache_after_miss w vi cache v h t w1 (child_handle v c)
                (num_add (match d with VF _ => VF f_zero | VU _ => VU 0 | VI _ => VI 0%Z end) d) s
                (HLocalCounterVec vi (cache ++ [(h, (c, num_add (match d with VF _ => VF f_zero | VU _ => VU 0 | VI _ => VI 0%Z end) d))]))
                OK CT Hv Hc Hg) as (c' & Ec & CT' & Hl' & G').
    apply child_handle_inj in Ec. subst c'.
    eexists _, _, c, _. split; [reflexivity|]. split; [apply slot_put|].
    + destruct (get_or_create_cases _ _ _ _ _ _ Hg) as (v0 & _ & [(c0 & _ & -> & _)|(_ & w2 & Hb & _ & ->)]); auto.
      cbn [w_slots set_vec]. destruct (build_child_inv _ _ _ _ _ _ Hb) as (_ & _ & _ & _ & -> & _). auto.
    + split; [exact CT'|]. split; [exact Hl'|]. rewrite <- CH. exact G'.
Qed.

(* LocalHistogramVec::with_label_values(t).observe(x) *)
Theorem lv_observe_targets w s vi cache v t x h :
  world_ok w -> slot w s = HLocalHistVec vi cache -> cache_targets w vi cache ->
  nth_error (w_vec w) vi = Some v -> is_hist (v_kind v) = true -> good_buckets v -> hash_label_values (v_desc v) t = Ok h ->
  exists w' cache' c l, step w (OpLvObserve s t x) = (w', OUnit) /\ slot w' s = HLocalHistVec vi cache'
    /\ cache_targets w' vi cache' /\ nlookup h cache' = Some (c, l)
    /\ vec_get_or_create w' vi h t = Ok (w', HHist c).
Proof.
  intros OK Hs CT Hv K G H. pose proof (hash_label_values_inv _ _ _ H) as [L _].
  assert (Hr : (s < length (w_slots w))%nat) by (apply slot_in_range; rewrite Hs; discriminate).
  assert (CH : forall c, child_handle v c = HHist c) by (intros c; unfold child_handle; destruct (v_kind v); [discriminate|auto]).
  cbn [step]. rewrite Hs, Hv, H. destruct (nlookup h cache) as [[c l]|] eqn:Hc.
  - eexists _, _, c, _. split; [reflexivity|]. split; [apply slot_put; auto|]. split; [|split].
    + destruct CT as (v0 & Hv0 & CT). exists v0. split; [exact Hv0|]. intros h' c' x' Hl'.
      pose proof (nlookup_map_upd _ _ _ _ _ _ _ _ Hc Hl') as (y0 & Hy). eapply CT; eauto.
    + eapply nlookup_map_hit. exact Hc.
    + destruct CT as (v0 & Hv0 & CT). assert (v0 = v) by congruence. subst v0. rewrite <- CH.
      unfold vec_get_or_create. cbn [w_vec put_slot set_slots]. rewrite Hv, (CT _ _ _ Hc). reflexivity.
  - destruct (Forall_nth_error _ _ _ _ OK Hv) as (C & _).
    destruct (get_or_create_succeeds w vi v h t Hv C G L) as (w1 & hd & Hg). rewrite Hg.
    destruct (cache_after_miss w vi cache v h t w1 hd (lh_new 0) s HDead OK CT Hv Hc Hg) as (c & -> & _).
    rewrite CH.
    destruct (cache_after_miss w vi cache v h t w1 (child_handle v c)
                (lh_observe (bounds_of w1 c) (lh_new (length (bounds_of w1 c))) x) s
                (HLocalHistVec vi (cache ++ [(h, (c, lh_observe (bounds_of w1 c) (lh_new (length (bounds_of w1 c))) x))]))
                OK CT Hv Hc Hg) as (c' & Ec & CT' & Hl' & G').
    apply child_handle_inj in Ec. subst c'.
    eexists _, _, c, _. split; [reflexivity|]. split; [apply slot_put|].
    + destruct (get_or_create_cases _ _ _ _ _ _ Hg) as (v0 & _ & [(c0 & _ & -> & _)|(_ & w2 & Hb & _ & ->)]); auto.
      cbn [w_slots set_vec]. destruct (build_child_inv _ _ _ _ _ _ Hb) as (_ & _ & _ & _ & -> & _). auto.
    + split; [exact CT'|]. split; [exact Hl'|]. rewrite <- CH. exact G'.
Qed.

(* two tuples address the same cache entry exactly when their keys are equal; under the collision-freedom
   hypothesis that is exactly when the tuples are equal *)
Theorem local_key_iff d t1 t2 h1 h2 : wf_strs t1 -> wf_strs t2 ->
  hash_label_values d t1 = Ok h1 -> hash_label_values d t2 = Ok h2 ->
  fnv_injective_on [label_values_preimage t1; label_values_preimage t2] ->
  (h1 = h2 <-> t1 = t2).
Proof.
  intros W1 W2 H1 H2 Inj. apply hash_label_values_inv in H1 as [_ ->]. apply hash_label_values_inv in H2 as [_ ->].
  split; [|intros ->; reflexivity]. intros E. apply Inj in E; cbn; auto. apply enc_inj in E; auto.
Qed.

(* ---- along every history without removals, every local cache keeps targeting the vector's own children ---- *)
Definition handle_ok (w : world) (hd : handle) : Prop :=
  match hd with
  | HLocalCounterVec vi cache => cache_targets w vi cache
  | HLocalHistVec vi cache => cache_targets w vi cache
  | _ => True
  end.
Definition locals_ok (w : world) : Prop := Forall (handle_ok w) (w_slots w).

Lemma cache_targets_ext {X} w w' vi (cache : list (N * (nat * X))) :
  (forall v, nth_error (w_vec w) vi = Some v -> exists v', nth_error (w_vec w') vi = Some v' /\ vec_extends v v') ->
  cache_targets w vi cache -> cache_targets w' vi cache.
Proof.
  intros Hx (v & Hv & CT). destruct (Hx v Hv) as (v' & Hv' & X1). destruct X1 as (_ & _ & _ & ext & E). exists v'. split; auto.
  intros h c x Hl. rewrite E, nlookup_app, (CT _ _ _ Hl). reflexivity.
Qed.
Lemma handle_ok_trans w w' hd : vec_trans false w w' -> handle_ok w hd -> handle_ok w' hd.
Proof.
  intros T. destruct hd; cbn [handle_ok]; auto; apply cache_targets_ext; intros v0 Hv0; eapply trans_extends; eauto.
Qed.
Lemma handle_ok_vec w w' hd : w_vec w' = w_vec w -> handle_ok w hd -> handle_ok w' hd.
Proof. intros E. destruct hd; cbn [handle_ok]; auto; unfold cache_targets; rewrite E; auto. Qed.
Lemma slot_handle_ok w s : locals_ok w -> handle_ok w (slot w s).
Proof.
  intros H. unfold slot. destruct (nth_in_or_default s (w_slots w) HDead) as [Hin| ->]; [|exact I].
  unfold locals_ok in H. rewrite Forall_forall in H. auto.
Qed.

Inductive slots_class (w w' : world) : Prop :=
| SC_same : w_slots w' = w_slots w -> slots_class w w'
| SC_push hd : w_slots w' = w_slots w ++ [hd] -> handle_ok w' hd -> slots_class w w'
| SC_put s hd : w_slots w' = list_set (w_slots w) s hd -> handle_ok w' hd -> slots_class w w'.

Lemma class_locals w w' : vec_trans false w w' -> locals_ok w -> slots_class w w' -> locals_ok w'.
Proof.
  intros T LO C. assert (M : Forall (handle_ok w') (w_slots w)).
  { eapply Forall_impl; [|exact LO]. intros hd. apply handle_ok_trans; auto. }
  unfold locals_ok. destruct C as [E|hd E H|s hd E H]; rewrite E; auto.
  - apply Forall_app. split; auto.
  - apply Forall_list_set; auto.
Qed.

Lemma get_or_create_frame w vi h t w' hd : vec_get_or_create w vi h t = Ok (w', hd) ->
  w_slots w' = w_slots w /\ exists v c, nth_error (w_vec w) vi = Some v /\ hd = child_handle v c.
Proof.
  intros H. apply get_or_create_cases in H as (v & Hv & [(c & _ & -> & ->)|(_ & w1 & Hb & -> & ->)]).
  - split; auto. eauto.
  - split; [|eauto]. cbn [w_slots set_vec]. destruct (build_child_inv _ _ _ _ _ _ Hb) as (_ & _ & _ & _ & -> & _). auto.
Qed.
Lemma handle_ok_child w v c : handle_ok w (child_handle v c).
Proof. unfold child_handle. destruct (v_kind v); exact I. Qed.

Lemma nlookup_map_keep {X} (f : X -> X) h (cache : list (N * (nat * X))) c x :
  nlookup h (map (fun e => let '(k, (c0, x0)) := e in (k, (c0, f x0))) cache) = Some (c, x) ->
  exists x0, nlookup h cache = Some (c, x0).
Proof.
  induction cache as [|[k [c0 x0]] cache IH]; cbn [nlookup map]; [discriminate|].
  destruct (h =? k); auto. intros H. inversion H; subst. eauto.
Qed.

Ltac slots_unfold :=
  unfold flush_lh; unfold push_slot, put_slot; unfold set_slots, set_v, set_h, set_vec, set_reg; cbn [w_vec w_v w_h w_reg w_slots].
Ltac slots_leaf :=
  cbn [fst];
  solve [ apply SC_same; slots_unfold; reflexivity
        | eapply SC_push; [slots_unfold; reflexivity|exact I]
        | eapply SC_put; [slots_unfold; reflexivity|exact I] ].

Lemma w_slots_put W s h : w_slots (put_slot W s h) = list_set (w_slots W) s h.
Proof. reflexivity. Qed.
Lemma w_slots_push W h : w_slots (push_slot W h) = w_slots W ++ [h].
Proof. reflexivity. Qed.
Ltac goc_push_leaf :=
  match goal with
  | H : vec_get_or_create _ _ _ _ = Ok _ |- _ =>
      let Es := fresh "Es" in
      destruct (get_or_create_frame _ _ _ _ _ _ H) as (Es & ? & ? & _ & ->); cbn [fst];
      eapply SC_push; [rewrite w_slots_push, Es; reflexivity|apply handle_ok_child]
  end.
Ltac slot_ct Hs CT :=
  match goal with
  | LO : locals_ok ?w, Hs' : slot ?w ?s = _ |- _ =>
      pose proof (slot_handle_ok w s LO) as CT; rewrite Hs' in CT; cbn [handle_ok] in CT
  end.

Lemma child_handle_value v c c' : HValue c = child_handle v c' -> c' = c.
Proof. unfold child_handle. destruct (v_kind v); intros H; inversion H; auto. Qed.
Lemma child_handle_hist v c c' : HHist c = child_handle v c' -> c' = c.
Proof. unfold child_handle. destruct (v_kind v); intros H; inversion H; auto. Qed.

Lemma step_slots w o : world_ok w -> locals_ok w -> removing o = false -> slots_class w (fst (step w o)).
Proof.
  intros OK LO R. destruct o; cbn [removing] in R; try discriminate R; cbn [step]; try solve [repeat break_match; slots_leaf].
  - (* OpWith *) repeat break_match; try slots_leaf; goc_push_leaf.
  - (* OpWithMap *) repeat break_match; try slots_leaf; goc_push_leaf.
  - (* OpLocal *) repeat break_match; try slots_leaf; cbn [fst];
      (eapply SC_push; [reflexivity|]); cbn [handle_ok]; eexists; (split; [eassumption|]); intros; discriminate.
  - (* OpFlush *) repeat break_match; try slots_leaf; cbn [fst]; slot_ct Hs CT.
    + destruct (flush_cv_frame cache w) as ((Ev & _) & Es).
      eapply SC_put; [rewrite w_slots_put, Es; reflexivity|]. cbn [handle_ok].
      destruct CT as (v0 & Hv0 & CT). exists v0. split; [cbn [w_vec put_slot set_slots]; rewrite Ev; exact Hv0|].
      intros h c x Hl. apply nlookup_map_keep in Hl as (x0 & Hl). eapply CT; eauto.
    + destruct (flush_hv_frame cache w) as ((Ev & _) & Es).
      eapply SC_put; [rewrite w_slots_put, Es; reflexivity|]. cbn [handle_ok].
      destruct CT as (v0 & Hv0 & CT). exists v0. split; [cbn [w_vec put_slot set_slots]; rewrite Ev; exact Hv0|].
      intros h c x Hl. apply nlookup_map_keep in Hl as (x0 & Hl). eapply CT; eauto.
  - (* OpClone *) repeat break_match; try slots_leaf; cbn [fst]; slot_ct Hs CT;
      (eapply SC_push; [reflexivity|]); cbn [handle_ok]; destruct CT as (v0 & Hv0 & _); exists v0; (split; [exact Hv0|]); intros; discriminate.
  - (* OpDrop *) repeat break_match; try slots_leaf; cbn [fst].
    destruct (flush_hv_frame cache w) as (_ & Es). eapply SC_put; [rewrite w_slots_put, Es; reflexivity|exact I].
  - (* OpLvInc *)
    destruct (slot w s) as [| | | | | |vi cache| | | | | |] eqn:Hs; try slots_leaf.
    destruct (nth_error (w_vec w) vi) as [vc|] eqn:Hv; try slots_leaf.
    destruct (hash_label_values (v_desc vc) vals) as [h|e] eqn:Hh; try slots_leaf.
    slot_ct Hs CT.
    destruct (nlookup h cache) as [[c val]|] eqn:Hc.
    + cbn [fst]. eapply SC_put; [reflexivity|]. cbn [handle_ok].
      destruct CT as (v0 & Hv0 & CT). exists v0. split; [exact Hv0|]. intros h' c' x' Hl'.
      pose proof (nlookup_map_upd _ _ _ _ _ _ _ _ Hc Hl') as (y0 & Hy). eapply CT; eauto.
    + destruct (vec_get_or_create w vi h vals) as [[w0 hd]|e] eqn:Hg; try slots_leaf.
      destruct hd; try slots_leaf. cbn [fst].
      destruct (get_or_create_frame _ _ _ _ _ _ Hg) as (Es & _).
      eapply SC_put; [rewrite w_slots_put, Es; reflexivity|]. cbn [handle_ok].
      match goal with |- cache_targets (put_slot _ _ ?hn) _ (_ ++ [(_, (_, ?x0))]) =>
        destruct (cache_after_miss w vi cache vc h vals w0 _ x0 s hn OK CT Hv Hc Hg) as (c' & Ec & CT' & _) end.
      apply child_handle_value in Ec. subst c'. exact CT'.
  - (* OpLvObserve *)
    destruct (slot w s) as [| | | | | | |vi cache| | | | |] eqn:Hs; try slots_leaf.
    destruct (nth_error (w_vec w) vi) as [vc|] eqn:Hv; try slots_leaf.
    destruct (hash_label_values (v_desc vc) vals) as [h|e] eqn:Hh; try slots_leaf.
    slot_ct Hs CT.
    destruct (nlookup h cache) as [[c l]|] eqn:Hc.
    + cbn [fst]. eapply SC_put; [reflexivity|]. cbn [handle_ok].
      destruct CT as (v0 & Hv0 & CT). exists v0. split; [exact Hv0|]. intros h' c' x' Hl'.
      pose proof (nlookup_map_upd _ _ _ _ _ _ _ _ Hc Hl') as (y0 & Hy). eapply CT; eauto.
    + destruct (vec_get_or_create w vi h vals) as [[w0 hd]|e] eqn:Hg; try slots_leaf.
      destruct hd; try slots_leaf. cbn [fst].
      destruct (get_or_create_frame _ _ _ _ _ _ Hg) as (Es & _).
      eapply SC_put; [rewrite w_slots_put, Es; reflexivity|]. cbn [handle_ok].
      match goal with |- cache_targets (put_slot _ _ ?hn) _ (_ ++ [(_, (_, ?x0))]) =>
        destruct (cache_after_miss w vi cache vc h vals w0 _ x0 s hn OK CT Hv Hc Hg) as (c' & Ec & CT' & _) end.
      apply child_handle_hist in Ec. subst c'. exact CT'.
  - (* OpGather *) repeat break_match; try slots_leaf. cbn [fst]. apply SC_same. eapply collect_all_frame; eauto.
  - (* OpCollect *) repeat break_match; try slots_leaf. cbn [fst]. apply SC_same. eapply collect_collector_frame; eauto.
Qed.

Lemma step_locals w o : world_ok w -> locals_ok w -> removing o = false -> locals_ok (fst (step w o)).
Proof.
  intros OK LO R. eapply class_locals; [|exact LO|apply step_slots; auto].
  pose proof (step_trans w o) as T. rewrite R in T. exact T.
Qed.
Lemma run_locals ops : forall w, world_ok w -> locals_ok w -> forallb keeps ops = true -> locals_ok (run_world w ops).
Proof.
  induction ops as [|o ops IH]; intros w OK LO K; cbn [run_world]; auto.
  cbn [forallb] in K. apply andb_true_iff in K as [K1 K2]. unfold keeps in K1. apply negb_true_iff in K1.
  apply IH; auto. { apply step_ok; auto. } apply step_locals; auto.
Qed.

(* in every history without removals: whatever a local vector has cached under a key is the child a direct request
   with that key is served with (and such a request changes nothing) *)
Theorem local_entry_is_direct ops s vi h t : forallb keeps ops = true ->
  let w := run_world world0 ops in
  (forall cache c x, slot w s = HLocalCounterVec vi cache -> nlookup h cache = Some (c, x) ->
     exists v, nth_error (w_vec w) vi = Some v /\ vec_get_or_create w vi h t = Ok (w, child_handle v c))
  /\ (forall cache c x, slot w s = HLocalHistVec vi cache -> nlookup h cache = Some (c, x) ->
     exists v, nth_error (w_vec w) vi = Some v /\ vec_get_or_create w vi h t = Ok (w, child_handle v c)).
Proof.
  intros K w. assert (LO : locals_ok w) by (apply run_locals; auto; [apply world0_ok|constructor]).
  split; intros cache c x Hs Hl; pose proof (slot_handle_ok w s LO) as CT; rewrite Hs in CT; cbn [handle_ok] in CT;
    destruct CT as (v & Hv & CT); exists v; (split; [exact Hv|]); apply get_or_create_hit; auto; eapply CT; eauto.
Qed.

(* ================= H. the unconditional statement is false: a genuine FNV-1a-64 collision ================= *)
Definition colA : str := [105; 110; 100; 98; 102; 113; 101; 121; 115; 98; 110; 112; 115; 102].   (* "indbfqeysbnpsf" *)
Definition colB : str := [105; 118; 108; 116; 108; 100; 103; 109; 111; 99; 116; 121; 98; 100].  (* "ivltldgmoctybd" *)
Definition col_opts : Opts := mkOpts [] [] [99] [104] [] [].       (* name "c", help "h" *)
(* IntCounterVec with one label "l"; request both tuples; add 1 through the first handle and 2 through the second; read both *)
Definition col_ops : list op :=
  [OpCounterVec NU col_opts [[108]]; OpWith 0 [colA]; OpWith 0 [colB];
   OpIncBy 1 (VU 1); OpIncBy 2 (VU 2); OpGet 1; OpGet 2; OpCollect 0].

Lemma col_wf : wf_strs [colA] /\ wf_strs [colB].
Proof. split; repeat constructor; unfold scalar; lia. Qed.
Lemma col_hash : fnv1a (label_values_preimage [colA]) = 0x6d71ee49b44fadc6 /\ fnv1a (label_values_preimage [colB]) = 0x6d71ee49b44fadc6.
Proof. split; vm_compute; reflexivity. Qed.

Theorem refuted_collision :
  exists t1 t2, wf_strs t1 /\ wf_strs t2 /\ t1 <> t2
    /\ fnv1a (label_values_preimage t1) = fnv1a (label_values_preimage t2)
    /\ (* on a one-label IntCounterVec both requests succeed and are served by ONE child: increments made through
          the two handles add up in one cell, and one metric is collected *)
       exists o ls,
       let obs := run world0 [OpCounterVec NU o ls; OpWith 0 t1; OpWith 0 t2; OpIncBy 1 (VU 1); OpIncBy 2 (VU 2);
                              OpGet 1; OpGet 2; OpCollect 0] in
       nth_error obs 1 = Some (ORes (Ok tt)) /\ nth_error obs 2 = Some (ORes (Ok tt))
       /\ nth_error obs 5 = Some (ONum (VU 3)) /\ nth_error obs 6 = Some (ONum (VU 3))
       /\ exists f, nth_error obs 7 = Some (OFamsU [f]) /\ length (mf_metric f) = 1%nat.
Proof.
  exists [colA], [colB]. destruct col_wf as [W1 W2]. destruct col_hash as [H1 H2].
  split; [exact W1|]. split; [exact W2|]. split; [discriminate|]. split; [congruence|].
  exists col_opts, [[108]]. vm_compute. repeat split. eexists. split; reflexivity.
Qed.

(* the same at the level of the theorem [same_child_iff]: without the collision-freedom hypothesis it is false *)
Definition col_w : world := run_world world0 [OpCounterVec NU col_opts [[108]]].
Definition col_h : N := 0x6d71ee49b44fadc6.
Definition col_v : veccore :=
  Eval vm_compute in match nth_error (w_vec col_w) 0 with Some v => v | None => mkVec (mkDesc [] [] [] [] 0 0) col_opts (VKHist []) [] end.
Definition col_w1 : world :=
  Eval vm_compute in match vec_get_or_create col_w 0 col_h [colA] with Ok (w, _) => w | Err _ => world0 end.

Theorem unconditional_iff_false :
  ~ (forall w vi v t1 t2 h1 h2 w1 hd1 w3 hd2,
       world_ok w -> nth_error (w_vec w) vi = Some v ->
       hash_label_values (v_desc v) t1 = Ok h1 -> vec_get_or_create w vi h1 t1 = Ok (w1, hd1) ->
       hash_label_values (v_desc v) t2 = Ok h2 -> vec_get_or_create w1 vi h2 t2 = Ok (w3, hd2) ->
       wf_strs t1 -> wf_strs t2 -> (hd1 = hd2 <-> t1 = t2)).
Proof.
  intros H. destruct col_wf as [W1 W2].
  assert (E : HValue 0 = HValue 0 <-> [colA] = [colB]).
  { apply (H col_w 0%nat col_v [colA] [colB] col_h col_h col_w1 (HValue 0) col_w1 (HValue 0)); auto;
      try apply reachable_ok; vm_compute; reflexivity. }
  destruct E as [E _]. specialize (E eq_refl). discriminate.
Qed.

(* non-vacuity of [same_child_iff]: its hypotheses are satisfiable, e.g. for the boundary-shifted pair
   ["ab";"c"] / ["a";"bc"] on a two-label vector, whose hashed bytes and hashes differ *)
Example same_child_nonvacuous :
  let t1 := [[97; 98]; [99]] in let t2 := [[97]; [98; 99]] in
  wf_strs t1 /\ wf_strs t2 /\ fnv_injective_on [label_values_preimage t1; label_values_preimage t2]
  /\ label_values_preimage t1 <> label_values_preimage t2
  /\ exists obs, run world0 [OpCounterVec NU col_opts [[108]; [109]]; OpWith 0 t1; OpWith 0 t2; OpIncBy 1 (VU 1); OpIncBy 2 (VU 2);
                             OpGet 1; OpGet 2] = obs
       /\ nth_error obs 5 = Some (ONum (VU 1)) /\ nth_error obs 6 = Some (ONum (VU 2)).
Proof.
  cbn zeta. split; [repeat constructor; unfold scalar; lia|]. split; [repeat constructor; unfold scalar; lia|]. split; [|split].
  - intros a b Ha Hb. cbn [In] in Ha, Hb.
    destruct Ha as [<-|[<-|[]]], Hb as [<-|[<-|[]]]; auto; vm_compute; intros E; discriminate E.
  - vm_compute. discriminate.
  - eexists. split; [reflexivity|]. vm_compute. split; reflexivity.
Qed.
