From Coq Require Import List ZArith Lia Bool Arith.
Import ListNotations.
Require Import PV.Model.HistConc PV.Proofs.HistConcLemmas PV.Proofs.HistConcInv.
Open Scope Z_scope.

Arguments Nat.ltb : simpl never.
Arguments Nat.leb : simpl never.
Arguments Nat.eqb : simpl never.
Section P.
Variable B : nat.
Variable Od : ords.
Hypothesis Od_ok : sufficient_orderings Od = true.
Notation Inv := (Inv B).

Lemma active_same s s' :
  lock s' = lock s -> (forall u, lock s = Some u -> thr s' u = thr s u) -> active s' = active s.
Proof. unfold active; intros -> H. destruct (lock s) as [u|]; auto. rewrite H; auto. Qed.

Lemma not_holder s t : Inv s -> (forall p, thr s t <> CIn p) -> forall u, lock s = Some u -> u <> t.
Proof. intros I H u Hu ->. destruct (I_lock2 _ _ I _ Hu) as [p Hp]. eapply H; eauto. Qed.

Lemma set_thr_other s t x u : u <> t -> set_thr s t x u = thr s u.
Proof. unfold set_thr. intros H. destruct (Nat.eqb_spec u t); congruence. Qed.
Lemma set_thr_same s t x : set_thr s t x t = x.
Proof. unfold set_thr. rewrite Nat.eqb_refl. reflexivity. Qed.

(* A step that only changes thr at a non-holder thread t, to a non-CIn state. *)
Lemma inv_thr_only s t x :
  Inv s -> (forall p, thr s t <> CIn p) -> (forall p, x <> CIn p) ->
  Inv (mk s (n s) (hot s) (sh s) (lock s) (recs s) (K s) (set_thr s t x) (snaps s)).
Proof.
  intros I Ht Hx.
  assert (Hact : active (mk s (n s) (hot s) (sh s) (lock s) (recs s) (K s) (set_thr s t x) (snaps s)) = active s).
  { apply active_same; cbn; auto. intros u Hu. apply set_thr_other. eapply not_holder; eauto. }
  destruct I. constructor; unfold stg_cell, stg_cnt, oldA, newA, oldP, newP, old, new, cold in *; rewrite ?Hact; cbn; eauto.
  - intros u p. unfold set_thr. destruct (Nat.eqb_spec u t); [subst; intros E; exfalso; eapply Hx; eauto | eauto].
  - intros u Hu. rewrite set_thr_other; auto. intros ->. destruct (I_lock2 _ Hu) as [p Hp]. eapply Ht; eauto.
Qed.


Lemma step_invoke_obs s t c ws :
  Inv s -> thr s t = Idle -> Inv (mk s (n s) (hot s) (sh s) (lock s) (recs s) (K s) (set_thr s t (OClaim c ws)) (snaps s)).
Proof. intros I H. apply inv_thr_only; auto; intros p; congruence. Qed.

Lemma step_invoke_collect s t :
  Inv s -> thr s t = Idle -> Inv (mk s (n s) (hot s) (sh s) (lock s) (recs s) (K s) (set_thr s t CLockWait) (snaps s)).
Proof. intros I H. apply inv_thr_only; auto; intros p; congruence. Qed.


Definition fresh (c : Z) (ws : list (nat*Z)) (h : bool) : rec :=
  {| r_cnt := c; r_ws := map (fun p => {| w_cell := fst p; w_d := snd p; w_done := false |}) ws; r_pub := false; r_tgt := h |}.

Arguments fresh : simpl never.
Arguments applied : simpl never.
Arguments pubcnt : simpl never.
Lemma pubcnt_fresh c ws h : pubcnt (fresh c ws h) = 0.
Proof. reflexivity. Qed.
Lemma applied_fresh x c ws h : applied x (fresh c ws h) = 0.
Proof. unfold applied, fresh; cbn. induction ws; cbn; auto. Qed.

Lemma cpc_ok_old s s' p : old s' = old s -> K s' = K s -> cpc_ok B s p -> cpc_ok B s' p.
Proof. intros Ho Hk. unfold cpc_ok, bvals. rewrite Ho, Hk. auto. Qed.

Lemma step_claim s t c ws :
  Inv s -> thr s t = OClaim c ws -> 1 <= c -> Forall (fun p => (fst p <= B)%nat) ws ->
  Inv (mk s (n s + c) (hot s) (sh s) (lock s) (recs s ++ [fresh c ws (hot s)]) (K s)
          (set_thr s t (OWork (length (recs s)))) (snaps s)).
Proof.
  intros I Ht Hc Hws.
  set (s' := mk s _ _ _ _ _ _ _ _).
  assert (Hact : active s' = active s).
  { apply active_same; cbn; auto. intros u Hu. apply set_thr_other. eapply not_holder; eauto. intros p; congruence. }
  pose proof (I_Kle _ _ I) as HK.
  assert (Hold : old s' = old s) by (unfold old, s'; cbn; apply firstn_app_le; auto).
  assert (Hnew : new s' = new s ++ [fresh c ws (hot s)]) by (unfold new, s'; cbn; apply skipn_app_le; auto).
  destruct I. constructor; unfold stg_cell, stg_cnt, oldA, newA, oldP, newP, cold in *; rewrite ?Hact, ?Hold, ?Hnew; cbn; eauto.
  - rewrite sumf_app; unfold fresh; cbn. lia.
  - rewrite app_length; cbn; lia.
  - intros x. rewrite sumf_app; cbn. rewrite applied_fresh. rewrite I_hot_cell. lia.
  - rewrite sumf_app; cbn. rewrite pubcnt_fresh. lia.
  - intros i r Hi Hp. destruct (Nat.lt_ge_cases i (length (recs s))) as [Hlt|Hge].
    + rewrite nth_error_app1 in Hi by auto. eauto.
    + rewrite nth_error_app2 in Hi by auto. destruct (i - length (recs s))%nat as [|m] eqn:E; cbn in Hi; [|destruct m; discriminate].
      inversion Hi; subst. destruct (Nat.ltb_spec i (K s)); [lia|reflexivity].
  - intros r Hr. apply in_app_or in Hr as [Hr|[<-|[]]]; eauto. unfold fresh; cbn; discriminate.
  - intros r Hr. apply in_app_or in Hr as [Hr|[<-|[]]]; eauto. split; unfold fresh; cbn; auto.
    rewrite Forall_map. cbn. auto.
  - intros u p. unfold set_thr. destruct (Nat.eqb_spec u t); [discriminate | eauto].
  - intros u Hu. rewrite set_thr_other; eauto. intros ->. destruct (I_lock2 _ Hu) as [p Hp]. congruence.
  - intros p Hp. eapply cpc_ok_old; eauto.
  - intros k res Hk. destruct (I_snaps _ _ Hk) as [H1 H2]. rewrite app_length; split; [lia|]. rewrite firstn_app_le; auto.
Qed.


Definition wdone (w : wr) : wr := {| w_cell := w_cell w; w_d := w_d w; w_done := true |}.
Definition rec_write (r : rec) (k : nat) (w : wr) : rec :=
  {| r_cnt := r_cnt r; r_ws := set_nth k (wdone w) (r_ws r); r_pub := false; r_tgt := r_tgt r |}.
Arguments rec_write : simpl never.

Lemma applied_write c r k w :
  nth_error (r_ws r) k = Some w -> w_done w = false ->
  applied c (rec_write r k w) = applied c r + (if Nat.eqb (w_cell w) c then w_d w else 0).
Proof.
  intros Hk Hd. unfold applied, rec_write; cbn [r_ws].
  rewrite (sumf_set_nth _ _ _ _ _ Hk). unfold wr_applied, wdone; cbn. rewrite Hd; cbn. lia.
Qed.

Lemma full_write c r k w :
  nth_error (r_ws r) k = Some w -> full c (rec_write r k w) = full c r.
Proof.
  intros Hk. unfold full, rec_write; cbn [r_ws].
  rewrite (sumf_set_nth _ _ _ _ _ Hk). unfold wr_full, wdone; cbn. lia.
Qed.

Lemma set_sh_same s b x : set_sh s b x b = x.
Proof. unfold set_sh. rewrite Bool.eqb_reflx. reflexivity. Qed.
Lemma set_sh_other s b x u : u <> b -> set_sh s b x u = sh s u.
Proof. unfold set_sh. intros H. destruct (Bool.eqb_spec u b); congruence. Qed.
Lemma negb_neq b : negb b <> b. Proof. destruct b; discriminate. Qed.
Lemma neq_negb b : b <> negb b. Proof. destruct b; discriminate. Qed.

Lemma not_past_stage s p : active s = Some p -> past_wait p = false ->
  (forall c, stg_cell s c = InCold) /\ stg_cnt s = InCold.
Proof. unfold stg_cell, stg_cnt. intros -> H. destruct p; try discriminate; auto. Qed.

Lemma none_stage s : active s = None -> (forall c, stg_cell s c = InCold) /\ stg_cnt s = InCold.
Proof. unfold stg_cell, stg_cnt. intros ->. auto. Qed.

(* an unpublished old record forces all stages to InCold *)
Lemma unpub_old_stage s i r : Inv s -> nth_error (recs s) i = Some r -> r_pub r = false -> (i < K s)%nat ->
  (forall c, stg_cell s c = InCold) /\ stg_cnt s = InCold.
Proof.
  intros I Hi Hp Hlt. destruct (active s) as [p|] eqn:Ea.
  - destruct (past_wait p) eqn:Ep; [|eapply not_past_stage; eauto].
    exfalso. assert (In r (old s)). { unfold old. eapply nth_error_In. rewrite nth_error_firstn_lt; eauto. }
    rewrite (I_past _ _ I _ Ea Ep r H) in Hp. discriminate.
  - apply none_stage; auto.
Qed.


Lemma cpc_ok_pres s s' p :
  (forall c, sumf (full c) (old s') = sumf (full c) (old s)) ->
  sumf r_cnt (old s') = sumf r_cnt (old s) -> K s' = K s ->
  cpc_ok B s p -> cpc_ok B s' p.
Proof.
  intros Hf Hc Hk. unfold cpc_ok, bvals. rewrite Hc, Hk.
  assert (E : forall j, map (fun i => sumf (full (S i)) (old s')) (seq 0 j) = map (fun i => sumf (full (S i)) (old s)) (seq 0 j)).
  { intros j. apply map_ext. intros a. apply Hf. }
  destruct p; rewrite ?Hf, ?E; auto.
Qed.

Lemma summary_pres l l' :
  (forall c, sumf (full c) l' = sumf (full c) l) -> sumf r_cnt l' = sumf r_cnt l -> summary B l' = summary B l.
Proof.
  intros Hf Hc. unfold summary. rewrite Hc, Hf. f_equal. apply map_ext. intros a. apply Hf.
Qed.

Lemma sumf_firstn_set_nth_same {A} (f : A -> Z) k i x y l :
  nth_error l i = Some x -> f y = f x -> sumf f (firstn k (set_nth i y l)) = sumf f (firstn k l).
Proof. intros H E. rewrite (sumf_firstn_set_nth f k i x y l H). destruct (i <? k)%nat; lia. Qed.
Lemma sumf_skipn_set_nth_same {A} (f : A -> Z) k i x y l :
  nth_error l i = Some x -> f y = f x -> sumf f (skipn k (set_nth i y l)) = sumf f (skipn k l).
Proof. intros H E. rewrite (sumf_skipn_set_nth f k i x y l H). destruct (i <? k)%nat; lia. Qed.
Lemma sumf_set_nth_same {A} (f : A -> Z) i x y l :
  nth_error l i = Some x -> f y = f x -> sumf f (set_nth i y l) = sumf f l.
Proof. intros H E. rewrite (sumf_set_nth f l i x y H). lia. Qed.

Lemma In_firstn_set_nth {A} k i (y : A) l z : In z (firstn k (set_nth i y l)) -> (z = y /\ (i < k)%nat) \/ In z (firstn k l).
Proof.
  rewrite firstn_set_nth. destruct (Nat.ltb_spec i k); auto.
  intros H'. apply In_set_nth in H'. destruct H'; auto.
Qed.

Lemma step_write s t i r k w :
  Inv s -> thr s t = OWork i -> nth_error (recs s) i = Some r -> r_pub r = false ->
  nth_error (r_ws r) k = Some w -> w_done w = false ->
  Inv (mk s (n s) (hot s)
          (set_sh s (r_tgt r) (add_cell (sh s (r_tgt r)) (w_cell w) (w_d w)))
          (lock s) (set_nth i (rec_write r k w) (recs s)) (K s) (thr s) (snaps s)).
Proof.
  intros I Ht Hi Hp Hk Hd.
  set (s' := mk s _ _ _ _ _ _ _ _).
  assert (Hact : active s' = active s) by reflexivity.
  assert (HoA : forall c, oldA s' c = oldA s c + if (i <? K s)%nat then (if Nat.eqb (w_cell w) c then w_d w else 0) else 0).
  { intros c. unfold oldA, old, s'; cbn [mk recs K]. rewrite (sumf_firstn_set_nth _ _ _ _ _ _ Hi), applied_write by auto.
    destruct (i <? K s)%nat; lia. }
  assert (HnA : forall c, newA s' c = newA s c + if (i <? K s)%nat then 0 else (if Nat.eqb (w_cell w) c then w_d w else 0)).
  { intros c. unfold newA, new, s'; cbn [mk recs K]. rewrite (sumf_skipn_set_nth _ _ _ _ _ _ Hi), applied_write by auto.
    destruct (i <? K s)%nat; lia. }
  assert (Hpc : pubcnt (rec_write r k w) = pubcnt r) by (unfold pubcnt, rec_write; cbn; rewrite Hp; reflexivity).
  assert (HoP : oldP s' = oldP s) by (unfold oldP, old, s'; cbn [mk recs K]; eapply sumf_firstn_set_nth_same; eauto).
  assert (HnP : newP s' = newP s) by (unfold newP, new, s'; cbn [mk recs K]; eapply sumf_skipn_set_nth_same; eauto).
  assert (Hfo : forall c, sumf (full c) (old s') = sumf (full c) (old s)).
  { intros c. unfold old, s'; cbn [mk recs K]. eapply sumf_firstn_set_nth_same; eauto. apply full_write; auto. }
  assert (Hco : sumf r_cnt (old s') = sumf r_cnt (old s)).
  { unfold old, s'; cbn [mk recs K]. eapply sumf_firstn_set_nth_same; eauto. }
  pose proof (I_tgt _ _ I _ _ Hi Hp) as Htgt.
  assert (Hstage : (i < K s)%nat -> (forall c, stg_cell s c = InCold) /\ stg_cnt s = InCold)
    by (intros; eapply unpub_old_stage; eauto).
  constructor.
  - cbn. rewrite (I_n _ _ I). symmetry. eapply sumf_set_nth_same; eauto.
  - cbn. rewrite set_nth_length. apply (I_Kle _ _ I).
  - (* cold cell *) intros c. unfold stg_cell. rewrite Hact. fold (stg_cell s c). rewrite HoA.
    change (cold s') with (cold s). cbn [mk sh s']. unfold cold in *.
    destruct (Nat.ltb_spec i (K s)) as [Hlt|Hge].
    + destruct (Hstage Hlt) as [Hc _]. rewrite Hc. rewrite Htgt, set_sh_same. cbn.
      unfold cupd. pose proof (I_cold_cell _ _ I c) as E. rewrite Hc in E. unfold cold in E.
      destruct (Nat.eqb_spec c (w_cell w)); destruct (Nat.eqb_spec (w_cell w) c); subst; try congruence; lia.
    + rewrite Htgt, set_sh_other by apply negb_neq. pose proof (I_cold_cell _ _ I c) as E. unfold cold in E. rewrite E.
      destruct (stg_cell s c); lia.
  - (* hot cell *) intros c. unfold stg_cell. rewrite Hact. fold (stg_cell s c). rewrite HoA, HnA.
    cbn [mk sh hot s'].
    destruct (Nat.ltb_spec i (K s)) as [Hlt|Hge].
    + destruct (Hstage Hlt) as [Hc _]. rewrite Hc. rewrite Htgt. unfold cold. rewrite set_sh_other by apply neq_negb.
      pose proof (I_hot_cell _ _ I c) as E. rewrite Hc in E. lia.
    + rewrite Htgt, set_sh_same. cbn. unfold cupd.
      pose proof (I_hot_cell _ _ I c) as E.
      destruct (stg_cell s c); destruct (Nat.eqb_spec c (w_cell w)); destruct (Nat.eqb_spec (w_cell w) c); subst; try congruence; lia.
  - (* cold cnt *) unfold stg_cnt. rewrite Hact. fold (stg_cnt s). rewrite HoP. change (cold s') with (cold s). cbn [mk sh s'].
    pose proof (I_cold_cnt _ _ I) as E.
    destruct (Bool.eqb_spec (cold s) (r_tgt r)) as [Eq|Ne].
    + rewrite <- Eq, set_sh_same. cbn. exact E.
    + rewrite set_sh_other by auto. exact E.
  - (* hot cnt *) unfold stg_cnt. rewrite Hact. fold (stg_cnt s). rewrite HoP, HnP. cbn [mk sh hot s'].
    pose proof (I_hot_cnt _ _ I) as E.
    destruct (Bool.eqb_spec (hot s) (r_tgt r)) as [Eq|Ne].
    + rewrite <- Eq, set_sh_same. cbn. exact E.
    + rewrite set_sh_other by auto. exact E.
  - (* tgt *) intros j r' Hj Hp'. cbn [mk recs K hot s'] in *. change (cold s') with (cold s).
    destruct (Nat.eq_dec i j) as [<-|Ne].
    + rewrite nth_error_set_nth_eq in Hj by (apply nth_error_Some; congruence). inversion Hj; subst. exact Htgt.
    + rewrite nth_error_set_nth_neq in Hj by auto. eapply (I_tgt _ _ I); eauto.
  - intros r' Hr Hp'. cbn [mk recs s'] in Hr. apply In_set_nth in Hr as [->|Hr]; [discriminate|]. eapply (I_pub_done _ _ I); eauto.
  - intros r' Hr. cbn [mk recs s'] in Hr. apply In_set_nth in Hr as [->|Hr]; [|eapply (I_wf _ _ I); eauto].
    destruct (I_wf _ _ I r (nth_error_In _ _ Hi)) as [W1 W2]. split; [exact W1|].
    unfold rec_write; cbn [mk r_ws]. rewrite Forall_forall in *. intros x Hx. apply In_set_nth in Hx as [->|Hx]; auto.
    apply (W2 w). eapply nth_error_In; eauto.
  - intros p Ha Hpw r' Hr. rewrite Hact in Ha. unfold old, s' in Hr; cbn [mk recs K] in Hr.
    apply In_firstn_set_nth in Hr as [[-> Hlt]|Hr]; [|eapply (I_past _ _ I); eauto].
    exfalso. assert (In r (old s)) by (unfold old; eapply nth_error_In; rewrite nth_error_firstn_lt; eauto).
    rewrite (I_past _ _ I _ Ha Hpw r H) in Hp. discriminate.
  - apply (I_lock1 _ _ I).
  - apply (I_lock2 _ _ I).
  - intros Ha. rewrite Hact in Ha. apply (I_K0 _ _ I Ha).
  - intros p Ha. rewrite Hact in Ha. eapply cpc_ok_pres; eauto. apply (I_cpc _ _ I _ Ha).
  - intros k' res Hk'. cbn [mk snaps recs s'] in *. destruct (I_snaps _ _ I _ _ Hk') as [H1 H2]. rewrite set_nth_length. split; auto.
    rewrite H2. symmetry. apply summary_pres.
    + intros c. eapply sumf_firstn_set_nth_same; eauto. apply full_write; auto.
    + eapply sumf_firstn_set_nth_same; eauto.
Qed.


Lemma active_holder s t p : Inv s -> thr s t = CIn p -> active s = Some p.
Proof. intros I H. unfold active. rewrite (I_lock1 _ _ I _ _ H), H. reflexivity. Qed.

Lemma active_set_holder s t p n' hot' sh' recs' K' snaps' :
  lock s = Some t ->
  active (mk s n' hot' sh' (lock s) recs' K' (set_thr s t (CIn p)) snaps') = Some p.
Proof. intros H. unfold active, mk; cbn. rewrite H, set_thr_same. reflexivity. Qed.

Lemma firstn_all' {A} (l : list A) : firstn (length l) l = l. Proof. apply firstn_all. Qed.
Lemma skipn_all' {A} (l : list A) : skipn (length l) l = []. Proof. apply skipn_all. Qed.

Lemma lock1_set s t p u q : Inv s -> lock s = Some t -> set_thr s t (CIn p) u = CIn q -> lock s = Some u.
Proof.
  intros I Hl. unfold set_thr. destruct (Nat.eqb_spec u t); [subst; auto|]. intros H. apply (I_lock1 _ _ I _ _ H).
Qed.
Lemma lock2_set s t p u : Inv s -> lock s = Some u -> exists q, set_thr s t (CIn p) u = CIn q.
Proof.
  intros I Hl. unfold set_thr. destruct (Nat.eqb_spec u t); [eauto|]. apply (I_lock2 _ _ I _ Hl).
Qed.

Lemma step_flip s t :
  Inv s -> thr s t = CIn CFlip ->
  Inv (mk s (n s) (negb (hot s)) (sh s) (lock s) (recs s) (length (recs s)) (set_thr s t (CIn (CWait (n s)))) (snaps s)).
Proof.
  intros I Ht.
  set (s' := mk s _ _ _ _ _ _ _ _).
  pose proof (I_lock1 _ _ I _ _ Ht) as Hl.
  pose proof (active_holder _ _ _ I Ht) as Ha.
  assert (Ha' : active s' = Some (CWait (n s))) by (apply active_set_holder; auto).
  pose proof (I_cpc _ _ I _ Ha) as HK0. cbn in HK0.
  assert (Ho : old s = []) by (unfold old; rewrite HK0; reflexivity).
  assert (Hn : new s = recs s) by (unfold new; rewrite HK0; reflexivity).
  assert (Ho' : old s' = recs s) by (unfold old, s', mk; cbn; apply firstn_all).
  assert (Hn' : new s' = []) by (unfold new, s', mk; cbn; apply skipn_all).
  assert (Hc' : cold s' = hot s) by (unfold cold, s', mk; cbn; apply negb_involutive).
  assert (Hh' : hot s' = cold s) by reflexivity.
  assert (Hsc : forall c, stg_cell s c = InCold) by (intros c; unfold stg_cell; rewrite Ha; reflexivity).
  assert (Hsn : stg_cnt s = InCold) by (unfold stg_cnt; rewrite Ha; reflexivity).
  constructor.
  - apply (I_n _ _ I).
  - unfold s', mk; cbn. lia.
  - intros c. unfold stg_cell. rewrite Ha'. cbn [cstage_cell]. rewrite Hc'. unfold oldA. rewrite Ho'.
    change (sh s' (hot s)) with (sh s (hot s)).
    rewrite (I_hot_cell _ _ I c), Hsc. unfold newA. rewrite Hn. lia.
  - intros c. unfold stg_cell. rewrite Ha'. cbn [cstage_cell]. rewrite Hh'. unfold newA. rewrite Hn'.
    change (sh s' (cold s)) with (sh s (cold s)).
    rewrite (I_cold_cell _ _ I c), Hsc. unfold oldA. rewrite Ho. reflexivity.
  - unfold stg_cnt. rewrite Ha'. cbn [cstage_cnt]. rewrite Hc'. unfold oldP. rewrite Ho'.
    change (sh s' (hot s)) with (sh s (hot s)). rewrite (I_hot_cnt _ _ I), Hsn. unfold newP. rewrite Hn. lia.
  - unfold stg_cnt. rewrite Ha'. cbn [cstage_cnt]. rewrite Hh'. unfold newP. rewrite Hn'.
    change (sh s' (cold s)) with (sh s (cold s)). rewrite (I_cold_cnt _ _ I), Hsn. unfold oldP. rewrite Ho. reflexivity.
  - intros i r Hi Hp. rewrite Hc'. change (K s') with (length (recs s)). change (recs s') with (recs s) in Hi.
    assert (i < length (recs s))%nat by (apply nth_error_Some; congruence).
    destruct (Nat.ltb_spec i (length (recs s))); [|lia].
    rewrite (I_tgt _ _ I _ _ Hi Hp), HK0. reflexivity.
  - apply (I_pub_done _ _ I).
  - apply (I_wf _ _ I).
  - intros p Hp Hpw. rewrite Ha' in Hp. inversion Hp; subst. discriminate.
  - intros u q. apply (lock1_set _ _ _ _ _ I Hl).
  - intros u. apply (lock2_set _ _ _ _ I).
  - rewrite Ha'. discriminate.
  - intros p Hp. rewrite Ha' in Hp. inversion Hp; subst. unfold cpc_ok. rewrite Ho'. apply (I_n _ _ I).
  - apply (I_snaps _ _ I).
Qed.


(* generic collector step: pc p -> p', shards replaced, everything else unchanged *)
Lemma inv_collector_step s t p p' sh' :
  Inv s -> thr s t = CIn p ->
  let s' := mk s (n s) (hot s) sh' (lock s) (recs s) (K s) (set_thr s t (CIn p')) (snaps s) in
  (past_wait p' = true -> forall r, In r (old s) -> r_pub r = true) ->
  cpc_ok B s p' ->
  (forall c, cells (sh' (cold s)) c = match cstage_cell p' c with InCold => oldA s c | _ => 0 end) ->
  (forall c, cells (sh' (hot s)) c = newA s c + match cstage_cell p' c with InHot => oldA s c | _ => 0 end) ->
  cnt (sh' (cold s)) = match cstage_cnt p' with InCold => oldP s | _ => 0 end ->
  cnt (sh' (hot s)) = newP s + match cstage_cnt p' with InHot => oldP s | _ => 0 end ->
  Inv s'.
Proof.
  intros I Ht s' Hpast Hcpc Hcc Hhc Hcn Hhn.
  pose proof (I_lock1 _ _ I _ _ Ht) as Hl.
  assert (Ha' : active s' = Some p') by (apply active_set_holder; auto).
  constructor.
  - apply (I_n _ _ I).
  - apply (I_Kle _ _ I).
  - intros c. unfold stg_cell. rewrite Ha'. apply Hcc.
  - intros c. unfold stg_cell. rewrite Ha'. apply Hhc.
  - unfold stg_cnt. rewrite Ha'. apply Hcn.
  - unfold stg_cnt. rewrite Ha'. apply Hhn.
  - apply (I_tgt _ _ I).
  - apply (I_pub_done _ _ I).
  - apply (I_wf _ _ I).
  - intros q Hq Hpw. rewrite Ha' in Hq. inversion Hq; subst. apply Hpast; auto.
  - intros u q. apply (lock1_set _ _ _ _ _ I Hl).
  - intros u. apply (lock2_set _ _ _ _ I).
  - rewrite Ha'. discriminate.
  - intros q Hq. rewrite Ha' in Hq. inversion Hq; subst. exact Hcpc.
  - apply (I_snaps _ _ I).
Qed.

Lemma all_done_applied c r : all_done r = true -> applied c r = full c r.
Proof.
  unfold all_done, applied, full. intros H. apply sumf_ext. intros w Hw.
  rewrite forallb_forall in H. unfold wr_applied, wr_full. rewrite (H w Hw). reflexivity.
Qed.

Lemma old_pub_applied s c : Inv s -> (forall r, In r (old s) -> r_pub r = true) -> oldA s c = sumf (full c) (old s).
Proof.
  intros I H. unfold oldA. apply sumf_ext. intros r Hr. apply all_done_applied.
  apply (I_pub_done _ _ I); auto. unfold old in Hr. eapply In_firstn; eauto.
Qed.

Lemma old_pub_cnt s : (forall r, In r (old s) -> r_pub r = true) -> oldP s = sumf r_cnt (old s).
Proof. intros H. unfold oldP. apply sumf_ext. intros r Hr. unfold pubcnt. rewrite (H r Hr). reflexivity. Qed.

(* if the published count of a list equals its total count and all counts are >= 1, everything is published *)
Lemma pub_all l : (forall r, In r l -> 1 <= r_cnt r) -> sumf pubcnt l = sumf r_cnt l -> forall r, In r l -> r_pub r = true.
Proof.
  induction l as [|x l IH]; intros Hpos Heq r Hr; [destruct Hr|].
  assert (Hle : forall l', (forall r, In r l' -> 1 <= r_cnt r) -> sumf pubcnt l' <= sumf r_cnt l').
  { induction l' as [|y l' IH']; cbn; intros Hp; [lia|]. specialize (IH' (fun r H => Hp r (or_intror H))).
    pose proof (Hp y (or_introl eq_refl)). unfold pubcnt at 1. destruct (r_pub y); lia. }
  cbn in Heq. pose proof (Hle l (fun r H => Hpos r (or_intror H))) as Hl.
  pose proof (Hpos x (or_introl eq_refl)) as Hx.
  assert (pubcnt x = r_cnt x /\ sumf pubcnt l = sumf r_cnt l) as [Ex El].
  { unfold pubcnt in *. destruct (r_pub x); lia. }
  destruct Hr as [Hr|Hr].
  - subst x. unfold pubcnt in Ex. destruct (r_pub r); auto; lia.
  - apply IH; auto. intros; apply Hpos; right; auto.
Qed.


Lemma applied_big c r : rec_wf B r -> (B < c)%nat -> applied c r = 0.
Proof.
  intros [_ H] Hc. unfold applied. induction (r_ws r) as [|w l IH]; cbn; auto.
  inversion H; subst. rewrite IH by auto. unfold wr_applied.
  destruct (Nat.eqb_spec (w_cell w) c); [lia|]. rewrite andb_false_r. reflexivity.
Qed.

Lemma oldA_big s c : Inv s -> (B < c)%nat -> oldA s c = 0.
Proof.
  intros I Hc. unfold oldA. rewrite (sumf_ext _ (fun _ => 0)).
  - induction (old s); cbn; auto.
  - intros r Hr. apply applied_big; auto. apply (I_wf _ _ I). eapply In_firstn; eauto.
Qed.

Lemma set_cell_cells sd c v x : cells (set_cell sd c v) x = if Nat.eqb x c then v else cells sd x.
Proof. reflexivity. Qed.
Lemma add_cell_cells sd c v x : cells (add_cell sd c v) x = if Nat.eqb x c then cells sd c + v else cells sd x.
Proof. reflexivity. Qed.

Ltac stage_facts I Ha :=
  let Hc := fresh "Hcc" in let Hh := fresh "Hhc" in let Hcn := fresh "Hccn" in let Hhn := fresh "Hhcn" in
  pose proof (fun c => I_cold_cell _ _ I c) as Hc; pose proof (fun c => I_hot_cell _ _ I c) as Hh;
  pose proof (I_cold_cnt _ _ I) as Hcn; pose proof (I_hot_cnt _ _ I) as Hhn;
  unfold stg_cell in Hc, Hh; unfold stg_cnt in Hcn, Hhn; rewrite Ha in Hc, Hh, Hcn, Hhn; cbn [cstage_cell cstage_cnt] in Hc, Hh, Hcn, Hhn.

Lemma step_wait_ok s t N :
  Inv s -> thr s t = CIn (CWait N) -> cnt (sh s (negb (hot s))) = N ->
  Inv (mk s (n s) (hot s) (set_sh s (negb (hot s)) (set_cnt (sh s (negb (hot s))) 0)) (lock s) (recs s) (K s)
          (set_thr s t (CIn (CSwapSum N))) (snaps s)).
Proof.
  intros I Ht Hcnt.
  pose proof (active_holder _ _ _ I Ht) as Ha. pose proof (I_cpc _ _ I _ Ha) as HN. cbn in HN.
  stage_facts I Ha. fold (cold s) in *.
  assert (Hpub : forall r, In r (old s) -> r_pub r = true).
  { apply pub_all. - intros r Hr. apply (I_wf _ _ I). eapply In_firstn; eauto. - fold (oldP s). congruence. }
  eapply inv_collector_step; eauto; cbn [cstage_cell cstage_cnt].
  - intros c. rewrite set_sh_same. cbn. apply Hcc.
  - intros c. rewrite set_sh_other by apply neq_negb. rewrite Hhc. reflexivity.
  - rewrite set_sh_same. reflexivity.
  - rewrite set_sh_other by apply neq_negb. rewrite Hhcn. reflexivity.
Qed.


Lemma bvals_S s j : bvals s (S j) = sumf (full (S j)) (old s) :: bvals s j.
Proof. unfold bvals. rewrite seq_S, map_app, rev_app_distr. reflexivity. Qed.

Lemma step_swapsum s t N :
  Inv s -> thr s t = CIn (CSwapSum N) ->
  Inv (mk s (n s) (hot s) (set_sh s (negb (hot s)) (set_cell (sh s (negb (hot s))) O 0)) (lock s) (recs s) (K s)
          (set_thr s t (CIn (if (0 <? B)%nat then CBucket N (cells (sh s (negb (hot s))) O) O []
                             else CAddCnt N (cells (sh s (negb (hot s))) O) []))) (snaps s)).
Proof.
  intros I Ht.
  pose proof (active_holder _ _ _ I Ht) as Ha. pose proof (I_cpc _ _ I _ Ha) as HN. cbn in HN.
  stage_facts I Ha. fold (cold s) in *.
  assert (Hpub : forall r, In r (old s) -> r_pub r = true) by (apply (I_past _ _ I _ Ha); reflexivity).
  assert (Hv : cells (sh s (cold s)) O = sumf (full O) (old s)) by (rewrite Hcc; apply old_pub_applied; auto).
  destruct (Nat.ltb_spec 0 B) as [HB|HB]; eapply inv_collector_step; eauto; cbn [cstage_cell cstage_cnt past_wait cpc_ok].
  - repeat split; auto.
  - intros c. rewrite set_sh_same, set_cell_cells. destruct c as [|i]; cbn [Nat.eqb]; [reflexivity|].
    change (S i =? 0)%nat with false. cbn. rewrite Hcc. destruct (i <? 0)%nat eqn:E; [apply Nat.ltb_lt in E; lia|reflexivity].
  - intros c. rewrite set_sh_other by apply neq_negb. rewrite Hhc. destruct c as [|i]; [reflexivity|].
    destruct (i <? 0)%nat eqn:E; [apply Nat.ltb_lt in E; lia|reflexivity].
  - rewrite set_sh_same. cbn. exact Hccn.
  - rewrite set_sh_other by apply neq_negb. exact Hhcn.
  - repeat split; auto. replace B with O by lia. reflexivity.
  - intros c. rewrite set_sh_same, set_cell_cells. destruct c as [|i]; [reflexivity|].
    change (S i =? 0)%nat with false. cbn. rewrite Hcc. apply oldA_big; auto. lia.
  - intros c. rewrite set_sh_other by apply neq_negb. rewrite Hhc. destruct c as [|i]; [reflexivity|].
    rewrite (oldA_big s (S i)) by (auto; lia). reflexivity.
  - rewrite set_sh_same. cbn. exact Hccn.
  - rewrite set_sh_other by apply neq_negb. exact Hhcn.
Qed.

Lemma step_bswap s t N sumv j bs :
  Inv s -> thr s t = CIn (CBucket N sumv j bs) ->
  Inv (mk s (n s) (hot s) (set_sh s (negb (hot s)) (set_cell (sh s (negb (hot s))) (S j) 0)) (lock s) (recs s) (K s)
          (set_thr s t (CIn (CBucketAdd N sumv j (cells (sh s (negb (hot s))) (S j)) bs))) (snaps s)).
Proof.
  intros I Ht.
  pose proof (active_holder _ _ _ I Ht) as Ha. pose proof (I_cpc _ _ I _ Ha) as (HN & Hs & Hj & Hbs). 
  stage_facts I Ha. fold (cold s) in *.
  assert (Hpub : forall r, In r (old s) -> r_pub r = true) by (apply (I_past _ _ I _ Ha); reflexivity).
  assert (Hv : cells (sh s (cold s)) (S j) = sumf (full (S j)) (old s)).
  { rewrite Hcc. rewrite Nat.ltb_irrefl. apply old_pub_applied; auto. }
  eapply inv_collector_step; eauto; cbn [cstage_cell cstage_cnt past_wait cpc_ok].
  - repeat split; auto.
  - intros c. rewrite set_sh_same, set_cell_cells. destruct c as [|i]; [apply Hcc|].
    specialize (Hcc (S i)). cbn beta iota in Hcc.
    destruct (Nat.eqb_spec (S i) (S j)) as [E|E].
    + inversion E; subst. rewrite Nat.ltb_irrefl, Nat.eqb_refl. reflexivity.
    + destruct (Nat.ltb_spec i j); [exact Hcc|]. destruct (Nat.eqb_spec i j); [congruence|exact Hcc].
  - intros c. rewrite set_sh_other by apply neq_negb. rewrite Hhc. destruct c as [|i]; [reflexivity|].
    destruct (Nat.ltb_spec i j); [reflexivity|]. destruct (Nat.eqb_spec i j); reflexivity.
  - rewrite set_sh_same. cbn. exact Hccn.
  - rewrite set_sh_other by apply neq_negb. exact Hhcn.
Qed.


Ltac stage_crush :=
  repeat match goal with
  | |- context [(?a <? ?b)%nat] => destruct (Nat.ltb_spec a b)
  | |- context [(?a =? ?b)%nat] => destruct (Nat.eqb_spec a b)
  end; try congruence; try lia; try reflexivity.

Lemma step_badd s t N sumv j v bs :
  Inv s -> thr s t = CIn (CBucketAdd N sumv j v bs) ->
  Inv (mk s (n s) (hot s) (set_sh s (hot s) (add_cell (sh s (hot s)) (S j) v)) (lock s) (recs s) (K s)
          (set_thr s t (CIn (if (S j <? B)%nat then CBucket N sumv (S j) (v :: bs) else CAddCnt N sumv (v :: bs)))) (snaps s)).
Proof.
  intros I Ht.
  pose proof (active_holder _ _ _ I Ht) as Ha. pose proof (I_cpc _ _ I _ Ha) as (HN & Hs & Hj & Hbs & Hv).
  stage_facts I Ha. fold (cold s) in *.
  assert (Hpub : forall r, In r (old s) -> r_pub r = true) by (apply (I_past _ _ I _ Ha); reflexivity).
  assert (HvA : v = oldA s (S j)) by (rewrite Hv; symmetry; apply old_pub_applied; auto).
  assert (Hbs' : v :: bs = bvals s (S j)) by (rewrite bvals_S; congruence).
  destruct (Nat.ltb_spec (S j) B) as [HB|HB]; eapply inv_collector_step; eauto; cbn [cstage_cell cstage_cnt past_wait cpc_ok].
  - repeat split; auto.
  - intros c. rewrite set_sh_other by apply negb_neq. rewrite Hcc. destruct c as [|i]; [reflexivity|]. stage_crush.
  - intros c. rewrite set_sh_same, add_cell_cells. destruct c as [|i].
    + change (0 =? S j)%nat with false. cbn. apply Hhc.
    + destruct (Nat.eqb_spec (S i) (S j)) as [E|E].
      * inversion E; subst. rewrite Hhc. stage_crush.
      * rewrite Hhc. stage_crush.
  - rewrite set_sh_other by apply negb_neq. exact Hccn.
  - rewrite set_sh_same. cbn. exact Hhcn.
  - repeat split; auto. replace B with (S j) by lia. auto.
  - intros c. rewrite set_sh_other by apply negb_neq. rewrite Hcc. destruct c as [|i]; [reflexivity|].
    destruct (Nat.ltb_spec i j); [reflexivity|]. destruct (Nat.eqb_spec i j); [reflexivity|].
    apply oldA_big; auto. lia.
  - intros c. rewrite set_sh_same, add_cell_cells. destruct c as [|i].
    + change (0 =? S j)%nat with false. cbn. apply Hhc.
    + destruct (Nat.eqb_spec (S i) (S j)) as [E|E].
      * inversion E; subst. rewrite Hhc. rewrite Nat.ltb_irrefl, Nat.eqb_refl. lia.
      * rewrite Hhc. destruct (Nat.ltb_spec i j); [reflexivity|]. destruct (Nat.eqb_spec i j); [congruence|].
        rewrite (oldA_big s (S i)) by (auto; lia). reflexivity.
  - rewrite set_sh_other by apply negb_neq. exact Hccn.
  - rewrite set_sh_same. cbn. exact Hhcn.
Qed.

Lemma step_addcnt s t N sumv bs :
  Inv s -> thr s t = CIn (CAddCnt N sumv bs) ->
  Inv (mk s (n s) (hot s) (set_sh s (hot s) (add_cnt (sh s (hot s)) N)) (lock s) (recs s) (K s)
          (set_thr s t (CIn (CAddSum N sumv bs))) (snaps s)).
Proof.
  intros I Ht.
  pose proof (active_holder _ _ _ I Ht) as Ha. pose proof (I_cpc _ _ I _ Ha) as (HN & Hs & Hbs).
  stage_facts I Ha. fold (cold s) in *.
  assert (Hpub : forall r, In r (old s) -> r_pub r = true) by (apply (I_past _ _ I _ Ha); reflexivity).
  eapply inv_collector_step; eauto; cbn [cstage_cell cstage_cnt past_wait cpc_ok].
  - repeat split; auto.
  - intros c. rewrite set_sh_other by apply negb_neq. apply Hcc.
  - intros c. rewrite set_sh_same. cbn. apply Hhc.
  - rewrite set_sh_other by apply negb_neq. exact Hccn.
  - rewrite set_sh_same. cbn. rewrite Hhcn, (old_pub_cnt s Hpub). lia.
Qed.

Lemma step_addsum s t N sumv bs :
  Inv s -> thr s t = CIn (CAddSum N sumv bs) ->
  Inv (mk s (n s) (hot s) (set_sh s (hot s) (add_cell (sh s (hot s)) O sumv)) (lock s) (recs s) (K s)
          (set_thr s t (CIn (CUnlock N sumv bs))) (snaps s)).
Proof.
  intros I Ht.
  pose proof (active_holder _ _ _ I Ht) as Ha. pose proof (I_cpc _ _ I _ Ha) as (HN & Hs & Hbs).
  stage_facts I Ha. fold (cold s) in *.
  assert (Hpub : forall r, In r (old s) -> r_pub r = true) by (apply (I_past _ _ I _ Ha); reflexivity).
  assert (HsA : sumv = oldA s O) by (rewrite Hs; symmetry; apply old_pub_applied; auto).
  eapply inv_collector_step; eauto; cbn [cstage_cell cstage_cnt past_wait cpc_ok].
  - repeat split; auto.
  - intros c. rewrite set_sh_other by apply negb_neq. rewrite Hcc. destruct c; reflexivity.
  - intros c. rewrite set_sh_same, add_cell_cells. destruct c as [|i]; cbn [Nat.eqb].
    + rewrite Nat.eqb_refl, Hhc. lia.
    + change (S i =? 0)%nat with false. cbn. apply Hhc.
  - rewrite set_sh_other by apply negb_neq. exact Hccn.
  - rewrite set_sh_same. cbn. exact Hhcn.
Qed.


Definition rec_pub (r : rec) : rec := {| r_cnt := r_cnt r; r_ws := r_ws r; r_pub := true; r_tgt := r_tgt r |}.
Arguments rec_pub : simpl never.

Lemma step_publish s t i r :
  Inv s -> thr s t = OWork i -> nth_error (recs s) i = Some r -> r_pub r = false -> all_done r = true ->
  Inv (mk s (n s) (hot s)
          (set_sh s (r_tgt r) (add_cnt (sh s (r_tgt r)) (r_cnt r)))
          (lock s) (set_nth i (rec_pub r) (recs s)) (K s) (set_thr s t Idle) (snaps s)).
Proof.
  intros I Ht Hi Hp Hd.
  set (s' := mk s _ _ _ _ _ _ _ _).
  assert (Hact : active s' = active s).
  { apply active_same; cbn; auto. intros u Hu. apply set_thr_other. eapply not_holder; eauto. intros p; congruence. }
  assert (Happ : forall c, applied c (rec_pub r) = applied c r) by reflexivity.
  assert (Hful : forall c, full c (rec_pub r) = full c r) by reflexivity.
  assert (Hpc : pubcnt (rec_pub r) = pubcnt r + r_cnt r) by (unfold pubcnt, rec_pub; cbn; rewrite Hp; lia).
  assert (HoA : forall c, oldA s' c = oldA s c) by (intros c; unfold oldA, old, s'; cbn [mk recs K]; eapply sumf_firstn_set_nth_same; eauto).
  assert (HnA : forall c, newA s' c = newA s c) by (intros c; unfold newA, new, s'; cbn [mk recs K]; eapply sumf_skipn_set_nth_same; eauto).
  assert (HoP : oldP s' = oldP s + if (i <? K s)%nat then r_cnt r else 0).
  { unfold oldP, old, s'; cbn [mk recs K]. rewrite (sumf_firstn_set_nth _ _ _ _ _ _ Hi), Hpc. destruct (i <? K s)%nat; lia. }
  assert (HnP : newP s' = newP s + if (i <? K s)%nat then 0 else r_cnt r).
  { unfold newP, new, s'; cbn [mk recs K]. rewrite (sumf_skipn_set_nth _ _ _ _ _ _ Hi), Hpc. destruct (i <? K s)%nat; lia. }
  assert (Hfo : forall c, sumf (full c) (old s') = sumf (full c) (old s)).
  { intros c. unfold old, s'; cbn [mk recs K]. eapply sumf_firstn_set_nth_same; eauto. }
  assert (Hco : sumf r_cnt (old s') = sumf r_cnt (old s)).
  { unfold old, s'; cbn [mk recs K]. eapply sumf_firstn_set_nth_same; eauto. }
  pose proof (I_tgt _ _ I _ _ Hi Hp) as Htgt.
  assert (Hstage : (i < K s)%nat -> (forall c, stg_cell s c = InCold) /\ stg_cnt s = InCold)
    by (intros; eapply unpub_old_stage; eauto).
  constructor.
  - cbn. rewrite (I_n _ _ I). symmetry. eapply sumf_set_nth_same; eauto.
  - cbn. rewrite set_nth_length. apply (I_Kle _ _ I).
  - intros c. unfold stg_cell. rewrite Hact. fold (stg_cell s c). rewrite HoA. change (cold s') with (cold s). cbn [mk sh s'].
    pose proof (I_cold_cell _ _ I c) as E.
    destruct (Bool.eqb_spec (cold s) (r_tgt r)) as [Eq|Ne].
    + rewrite <- Eq, set_sh_same. cbn. exact E.
    + rewrite set_sh_other by auto. exact E.
  - intros c. unfold stg_cell. rewrite Hact. fold (stg_cell s c). rewrite HoA, HnA. cbn [mk sh hot s'].
    pose proof (I_hot_cell _ _ I c) as E.
    destruct (Bool.eqb_spec (hot s) (r_tgt r)) as [Eq|Ne].
    + rewrite <- Eq, set_sh_same. cbn. exact E.
    + rewrite set_sh_other by auto. exact E.
  - unfold stg_cnt. rewrite Hact. fold (stg_cnt s). rewrite HoP. change (cold s') with (cold s). cbn [mk sh s']. unfold cold in *.
    pose proof (I_cold_cnt _ _ I) as E. unfold cold in E.
    destruct (Nat.ltb_spec i (K s)) as [Hlt|Hge].
    + destruct (Hstage Hlt) as [_ Hc]. rewrite Hc in *. rewrite Htgt, set_sh_same. cbn. lia.
    + rewrite Htgt, set_sh_other by apply negb_neq. rewrite E. destruct (stg_cnt s); lia.
  - unfold stg_cnt. rewrite Hact. fold (stg_cnt s). rewrite HoP, HnP. cbn [mk sh hot s'].
    pose proof (I_hot_cnt _ _ I) as E.
    destruct (Nat.ltb_spec i (K s)) as [Hlt|Hge].
    + destruct (Hstage Hlt) as [_ Hc]. rewrite Hc in *. rewrite Htgt. unfold cold. rewrite set_sh_other by apply neq_negb. lia.
    + rewrite Htgt, set_sh_same. cbn. rewrite E. destruct (stg_cnt s); lia.
  - intros j r' Hj Hp'. cbn [mk recs K hot s'] in *. change (cold s') with (cold s).
    destruct (Nat.eq_dec i j) as [<-|Ne].
    + rewrite nth_error_set_nth_eq in Hj by (apply nth_error_Some; congruence). inversion Hj; subst. discriminate.
    + rewrite nth_error_set_nth_neq in Hj by auto. eapply (I_tgt _ _ I); eauto.
  - intros r' Hr Hp'. cbn [mk recs s'] in Hr. apply In_set_nth in Hr as [->|Hr]; [exact Hd|]. eapply (I_pub_done _ _ I); eauto.
  - intros r' Hr. cbn [mk recs s'] in Hr. apply In_set_nth in Hr as [->|Hr]; [|eapply (I_wf _ _ I); eauto].
    apply (I_wf _ _ I r (nth_error_In _ _ Hi)).
  - intros p Ha Hpw r' Hr. rewrite Hact in Ha. unfold old, s' in Hr; cbn [mk recs K] in Hr.
    apply In_firstn_set_nth in Hr as [[-> Hlt]|Hr]; [reflexivity|eapply (I_past _ _ I); eauto].
  - intros u p. unfold s', mk; cbn. unfold set_thr. destruct (Nat.eqb_spec u t); [discriminate|apply (I_lock1 _ _ I)].
  - intros u Hu. unfold s', mk in *; cbn in *. rewrite set_thr_other; [apply (I_lock2 _ _ I _ Hu)|].
    intros ->. destruct (I_lock2 _ _ I _ Hu) as [p Hp']. congruence.
  - intros Ha. rewrite Hact in Ha. apply (I_K0 _ _ I Ha).
  - intros p Ha. rewrite Hact in Ha. eapply cpc_ok_pres; eauto. apply (I_cpc _ _ I _ Ha).
  - intros k' res Hk'. cbn [mk snaps recs s'] in *. destruct (I_snaps _ _ I _ _ Hk') as [H1 H2]. rewrite set_nth_length. split; auto.
    rewrite H2. symmetry. apply summary_pres.
    + intros c. eapply sumf_firstn_set_nth_same; eauto.
    + eapply sumf_firstn_set_nth_same; eauto.
Qed.


Lemma step_lock s t :
  Inv s -> thr s t = CLockWait -> lock s = None ->
  Inv (mk s (n s) (hot s) (sh s) (Some t) (recs s) (K s) (set_thr s t (CIn CFlip)) (snaps s)).
Proof.
  intros I Ht Hl.
  set (s' := mk s _ _ _ _ _ _ _ _).
  assert (Ha : active s = None) by (unfold active; rewrite Hl; reflexivity).
  assert (Ha' : active s' = Some CFlip) by (unfold active, s', mk; cbn; rewrite set_thr_same; reflexivity).
  pose proof (I_K0 _ _ I Ha) as HK.
  pose proof (fun c => I_cold_cell _ _ I c) as Hcc. pose proof (fun c => I_hot_cell _ _ I c) as Hhc.
  pose proof (I_cold_cnt _ _ I) as Hcn. pose proof (I_hot_cnt _ _ I) as Hhn.
  unfold stg_cell in Hcc, Hhc. unfold stg_cnt in Hcn, Hhn. rewrite Ha in *.
  constructor.
  - apply (I_n _ _ I).
  - apply (I_Kle _ _ I).
  - intros c. unfold stg_cell. rewrite Ha'. apply Hcc.
  - intros c. unfold stg_cell. rewrite Ha'. apply Hhc.
  - unfold stg_cnt. rewrite Ha'. apply Hcn.
  - unfold stg_cnt. rewrite Ha'. apply Hhn.
  - apply (I_tgt _ _ I).
  - apply (I_pub_done _ _ I).
  - apply (I_wf _ _ I).
  - intros q Hq Hpw. rewrite Ha' in Hq. inversion Hq; subst. discriminate.
  - intros u q. unfold s', mk; cbn. unfold set_thr. destruct (Nat.eqb_spec u t); [subst; reflexivity|].
    intros H. rewrite (I_lock1 _ _ I _ _ H) in Hl. discriminate.
  - intros u Hu. unfold s', mk in *; cbn in *. inversion Hu; subst. rewrite set_thr_same. eauto.
  - rewrite Ha'. discriminate.
  - intros q Hq. rewrite Ha' in Hq. inversion Hq; subst. exact HK.
  - apply (I_snaps _ _ I).
Qed.

Lemma sumf_firstn_skipn {A} (f : A -> Z) k l : sumf f (firstn k l) + sumf f (skipn k l) = sumf f l.
Proof. rewrite <- sumf_app, firstn_skipn. reflexivity. Qed.

Lemma step_unlock s t N sumv bs :
  Inv s -> thr s t = CIn (CUnlock N sumv bs) ->
  Inv (mk s (n s) (hot s) (sh s) None (recs s) O (set_thr s t Idle) ((K s, (N, sumv, rev bs)) :: snaps s)).
Proof.
  intros I Ht.
  set (s' := mk s _ _ _ _ _ _ _ _).
  pose proof (active_holder _ _ _ I Ht) as Ha. pose proof (I_cpc _ _ I _ Ha) as (HN & Hs & Hbs).
  pose proof (I_lock1 _ _ I _ _ Ht) as Hl.
  stage_facts I Ha. fold (cold s) in *.
  assert (Hpub : forall r, In r (old s) -> r_pub r = true) by (apply (I_past _ _ I _ Ha); reflexivity).
  assert (Ha' : active s' = None) by reflexivity.
  assert (Ho' : old s' = []) by reflexivity.
  assert (Hn' : new s' = recs s) by reflexivity.
  constructor.
  - apply (I_n _ _ I).
  - cbn. lia.
  - intros c. unfold stg_cell. rewrite Ha'. unfold oldA at 1. rewrite Ho'. cbn. change (cold s') with (cold s). apply Hcc.
  - intros c. unfold stg_cell. rewrite Ha'. unfold newA at 1. rewrite Hn'. cbn [sumf]. change (hot s') with (hot s).
    change (sh s' (hot s)) with (sh s (hot s)). rewrite Hhc. unfold newA, oldA, new, old.
    pose proof (sumf_firstn_skipn (applied c) (K s) (recs s)). lia.
  - unfold stg_cnt. rewrite Ha'. unfold oldP at 1. rewrite Ho'. cbn. change (cold s') with (cold s). apply Hccn.
  - unfold stg_cnt. rewrite Ha'. unfold newP at 1. rewrite Hn'. cbn [sumf]. change (hot s') with (hot s).
    change (sh s' (hot s)) with (sh s (hot s)). rewrite Hhcn. unfold newP, oldP, new, old.
    pose proof (sumf_firstn_skipn pubcnt (K s) (recs s)). lia.
  - intros i r Hi Hp. change (K s') with O. change (hot s') with (hot s). change (recs s') with (recs s) in Hi.
    rewrite (I_tgt _ _ I _ _ Hi Hp). destruct (Nat.ltb_spec i (K s)) as [Hlt|Hge]; [|reflexivity].
    exfalso. assert (In r (old s)) by (unfold old; eapply nth_error_In; rewrite nth_error_firstn_lt; eauto).
    rewrite (Hpub r H) in Hp. discriminate.
  - apply (I_pub_done _ _ I).
  - apply (I_wf _ _ I).
  - intros q Hq. rewrite Ha' in Hq. discriminate.
  - intros u q. unfold s', mk; cbn. unfold set_thr. destruct (Nat.eqb_spec u t); [discriminate|].
    intros H. pose proof (I_lock1 _ _ I _ _ H). congruence.
  - intros u Hu. discriminate.
  - reflexivity.
  - intros q Hq. rewrite Ha' in Hq. discriminate.
  - intros k res [Hk|Hk].
    + inversion Hk; subst. split; [apply (I_Kle _ _ I)|]. unfold summary. fold (old s). unfold bvals. rewrite rev_involutive. reflexivity.
    + apply (I_snaps _ _ I _ _ Hk).
Qed.

Theorem step_inv s s' : Inv s -> step B Od s s' -> Inv s'.
Proof.
  intros I H. destruct H.
  - apply step_invoke_obs; auto.
  - apply step_claim; auto.
  - apply (step_write s t i r k w); auto.
  - apply (step_publish s t i r); auto.
    match goal with H : _ \/ _ |- _ => destruct H as [H|H]; [exact H|] end.
    unfold sufficient_orderings in Od_ok. apply andb_true_iff in Od_ok as [E _]. congruence.
  - apply step_invoke_collect; auto.
  - apply step_lock; auto.
  - apply step_flip; auto.
  - apply step_wait_ok; auto.
    match goal with H : _ \/ _ |- _ => destruct H as [H|H]; [exact H|] end.
    unfold sufficient_orderings in Od_ok. apply andb_true_iff in Od_ok as [_ E]. congruence.
  - exact I.
  - apply step_swapsum; auto.
  - apply step_bswap; auto.
  - apply step_badd; auto.
  - apply step_addcnt; auto.
  - apply step_addsum; auto.
  - apply step_unlock; auto.
Qed.


Definition init : st :=
  {| n := 0; hot := false; sh := fun _ => {| cnt := 0; cells := fun _ => 0 |}; lock := None;
     recs := []; K := O; thr := fun _ => Idle; snaps := [] |}.

Lemma inv_init : Inv init.
Proof.
  constructor; cbn; auto; try (intros; discriminate); try (intros; contradiction).
  - intros i r H. destruct i; discriminate.
Qed.

Inductive reach : st -> Prop :=
| reach_init : reach init
| reach_step s s' : reach s -> step B Od s s' -> reach s'.

Theorem reach_inv s : reach s -> Inv s.
Proof. induction 1; [apply inv_init|eapply step_inv; eauto]. Qed.

(* C02 core: every snapshot ever returned, by any collector thread, under any interleaving of any number of
   observer / flusher / collector threads, is the summary of a ticket prefix of the observations. *)
Theorem snapshot_is_prefix s k res :
  reach s -> In (k, res) (snaps s) -> (k <= length (recs s))%nat /\ res = summary B (firstn k (recs s)).
Proof. intros R H. apply (I_snaps _ _ (reach_inv _ R) _ _ H). Qed.

End P.

