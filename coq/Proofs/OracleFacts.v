(* Generic facts used by the uniform theorems (Proofs/C15Spec.v, Proofs/C09Spec.v) to state that the
   oracle is silent whenever the implementation's observations agree with the model's: agreement as
   decided by World.first_diff, and boolean checkers that respect it. *)
Require Import PV.Base.Prelude PV.Base.StrFacts.
Require Import PV.Model.Proto PV.Model.Desc PV.Model.Value PV.Model.World.
Open Scope N_scope.

Lemma list_eqb_spec {A} (e : A -> A -> bool) :
  (forall x y, e x y = true <-> x = y) -> forall a b, list_eqb e a b = true <-> a = b.
Proof.
  intros He. induction a as [|x a IH]; intros [|y b]; cbn [list_eqb]; split; intros H; try congruence; try discriminate.
  - apply andb_true_iff in H as [H1 H2]. apply He in H1. apply IH in H2. congruence.
  - inversion H; subst. apply andb_true_iff. split; [apply He; reflexivity|apply IH; reflexivity].
Qed.
Lemma lp_eqb_spec x y : lp_eqb x y = true <-> x = y.
Proof.
  unfold lp_eqb. rewrite andb_true_iff, !str_eqb_eq. destruct x, y; cbn. split; [intros [-> ->]; reflexivity|intros H; inversion H; auto].
Qed.

(* agreement of two observation lists, as decided by World.first_diff *)
Definition obs_agree (a b : list obs) : Prop := Forall2 (fun x y => obs_eqb x y = true) a b.
Lemma first_diff_none a : forall i b, first_diff i a b = None -> obs_agree a b.
Proof.
  induction a as [|x a IH]; intros i [|y b] H; cbn [first_diff] in H; try discriminate; [constructor|].
  destruct (obs_eqb x y) eqn:E; [|discriminate]. constructor; [exact E|]. eapply IH; eauto.
Qed.
Definition rel_oo (x y : op * obs) : Prop := fst x = fst y /\ obs_eqb (snd x) (snd y) = true.
Lemma combine_agree ops : forall a b, obs_agree a b -> Forall2 rel_oo (combine ops a) (combine ops b).
Proof.
  induction ops as [|o ops IH]; intros a b H; cbn [combine]; [constructor|].
  destruct H as [|x y a b Hxy H]; [constructor|]. constructor; [split; [reflexivity|exact Hxy]|]. apply IH; exact H.
Qed.
Lemma forallb_rel2 {A} (R : A -> A -> Prop) (f g : A -> bool) l l' :
  (forall x y, R x y -> f x = g y) -> Forall2 R l l' -> forallb f l = forallb g l'.
Proof. intros Hf. induction 1 as [|x y l l' Hxy _ IH]; cbn [forallb]; auto. rewrite (Hf x y Hxy), IH. reflexivity. Qed.
Lemma forallb_rel {A} (R : A -> A -> Prop) (f : A -> bool) l l' :
  (forall x y, R x y -> f x = f y) -> Forall2 R l l' -> forallb f l = forallb f l'.
Proof. apply forallb_rel2. Qed.
Lemma forallb_list_eqb {A} (e : A -> A -> bool) (f : A -> bool) :
  (forall x y, e x y = true -> f x = f y) -> forall l l', list_eqb e l l' = true -> forallb f l = forallb f l'.
Proof.
  intros H. induction l as [|x l IH]; intros [|y l'] E; cbn [list_eqb] in E; try discriminate; auto.
  apply andb_true_iff in E as [E1 E2]. cbn [forallb]. rewrite (H x y E1), (IH l' E2). reflexivity.
Qed.
