(* C09: only well-formed, pairwise distinct names reach an exposed sample.
   Facts about the constructors (Desc::new through describe, value_new, hcore_new, vec_create,
   Registry::new_custom), about make_label_pairs and about gather. *)
Require Import PV.Base.Prelude PV.Base.Utf8 PV.Base.Fnv PV.Base.F64 PV.Base.StrFacts PV.Base.SortFacts PV.Base.Utf8Facts.
Require Import PV.Model.Proto PV.Model.Desc PV.Model.Value PV.Model.Hist PV.Model.Vec PV.Model.Registry.
Require Import PV.Proofs.DescFacts.
From Coq Require Import Permutation Sorting.Sorted.
Open Scope N_scope.

(* ---------- vocabulary ---------- *)
Definition valid_label (s : str) : Prop := is_valid_label_name s = true.
Definition valid_metric (s : str) : Prop := is_valid_metric_name s = true.
(* a list of label names as it appears on one sample *)
Definition names_wf (ns : list str) : Prop := Forall valid_label ns /\ NoDup ns.
Definition metric_wf (m : Metric) : Prop := names_wf (map lp_name (m_label m)).
Definition family_wf (mf : MetricFamily) : Prop := valid_metric (mf_name mf) /\ Forall metric_wf (mf_metric mf).

Lemma names_wf_perm a b : Permutation a b -> names_wf a -> names_wf b.
Proof.
  intros P [F ND]. split.
  - eapply Permutation_Forall; eauto.
  - eapply Permutation_NoDup; eauto.
Qed.

(* ---------- HashMap::insert semantics of the constant-label list ---------- *)
Lemma ainsert_keys_in {V} k (v : V) m x : In x (map fst (ainsert k v m)) <-> x = k \/ In x (map fst m).
Proof.
  unfold ainsert. destruct (alookup k m) as [v0|] eqn:E.
  - assert (Hk : In k (map fst m)) by (apply alookup_In in E; apply (in_map fst) in E; exact E).
    assert (Em : map fst (map (fun kv : str * V => if str_eqb k (fst kv) then (fst kv, v) else kv) m) = map fst m).
    { rewrite map_map. apply map_ext. intros [a b]. cbn. destruct (str_eqb k a); reflexivity. }
    rewrite Em. split; auto. intros [->|H]; auto.
  - rewrite map_app, in_app_iff. cbn. split; intros [H|H]; auto.
    + destruct H as [H|[]]; auto.
Qed.
Lemma ainsert_keys_nodup {V} k (v : V) m : NoDup (map fst m) -> NoDup (map fst (ainsert k v m)).
Proof.
  intros ND. unfold ainsert. destruct (alookup k m) as [v0|] eqn:E.
  - assert (Em : map fst (map (fun kv : str * V => if str_eqb k (fst kv) then (fst kv, v) else kv) m) = map fst m).
    { rewrite map_map. apply map_ext. intros [a b]. cbn. destruct (str_eqb k a); reflexivity. }
    rewrite Em. exact ND.
  - rewrite map_app. cbn. apply NoDup_app_intro; auto.
    + constructor; [intros []|constructor].
    + intros x [<-|[]]. apply alookup_None. exact E.
Qed.
Lemma fold_ainsert_keys {V} (kvs : list (str * V)) : forall m,
  NoDup (map fst m) ->
  NoDup (map fst (fold_left (fun m kv => ainsert (fst kv) (snd kv) m) kvs m))
  /\ forall x, In x (map fst (fold_left (fun m kv => ainsert (fst kv) (snd kv) m) kvs m)) <-> In x (map fst kvs) \/ In x (map fst m).
Proof.
  induction kvs as [|[k v] kvs IH]; intros m ND; cbn [fold_left map fst snd].
  - split; auto. intros x. split; auto. intros [[]|H]; auto.
  - destruct (IH (ainsert k v m) (ainsert_keys_nodup k v m ND)) as [A B]. split; auto.
    intros x. rewrite B, ainsert_keys_in. cbn [In]. split; intros H.
    + destruct H as [H|[H|H]]; auto.
    + destruct H as [[H|H]|H]; auto.
Qed.
Lemma amap_of_nodup {V} (kvs : list (str * V)) : NoDup (map fst (amap_of kvs)).
Proof. unfold amap_of. apply fold_ainsert_keys. constructor. Qed.
Lemma amap_of_keys {V} (kvs : list (str * V)) x : In x (map fst (amap_of kvs)) <-> In x (map fst kvs).
Proof.
  unfold amap_of. destruct (fold_ainsert_keys kvs [] (NoDup_nil _)) as [_ B]. rewrite B. cbn. tauto.
Qed.

(* ---------- the metric-name language is closed under appending tail characters ---------- *)
Definition TailChar (c : N) : Prop := MetricHead c \/ Digit c.     (* [a-zA-Z0-9_:] *)

Lemma valid_metric_cons c r : valid_metric (c :: r) <-> MetricHead c /\ Forall TailChar r.
Proof.
  unfold valid_metric. rewrite metric_name_iff. unfold Ident. split.
  - intros (c' & r' & E & H1 & H2). inversion E; subst. auto.
  - intros [H1 H2]. exists c, r. auto.
Qed.
Lemma valid_metric_nil : ~ valid_metric [].
Proof. unfold valid_metric. cbn. discriminate. Qed.
Lemma valid_metric_tail s : valid_metric s -> Forall TailChar s.
Proof.
  destruct s as [|c r]; [constructor|]. rewrite valid_metric_cons. intros [H1 H2]. constructor; auto. left; auto.
Qed.
Lemma valid_metric_app_iff a b : a <> [] -> (valid_metric (a ++ b) <-> valid_metric a /\ Forall TailChar b).
Proof.
  destruct a as [|c a]; [congruence|]. intros _. cbn [app]. rewrite !valid_metric_cons, Forall_app. tauto.
Qed.
Lemma valid_metric_app a b : valid_metric a -> Forall TailChar b -> valid_metric (a ++ b).
Proof.
  intros Ha Hb. apply valid_metric_app_iff; auto. intros ->. exact (valid_metric_nil Ha).
Qed.
Lemma uscore_tail : TailChar USCORE.
Proof. left. left. right. reflexivity. Qed.

(* registry prefix: prefix ++ "_" ++ name *)
Lemma prefixed_name_valid p n : valid_metric p -> valid_metric n -> valid_metric (p ++ [USCORE_] ++ n).
Proof.
  intros Hp Hn. apply valid_metric_app; auto. cbn [app]. constructor; [exact uscore_tail|]. apply valid_metric_tail; auto.
Qed.

(* build_fq_name: which (namespace, subsystem, name) triples give a valid fully-qualified name *)
Theorem fq_name_valid_iff ns sub name :
  valid_metric (build_fq_name ns sub name) <->
  name <> [] /\
  match ns, sub with
  | [], [] => valid_metric name
  | [], _ :: _ => valid_metric sub /\ Forall TailChar name
  | _ :: _, [] => valid_metric ns /\ Forall TailChar name
  | _ :: _, _ :: _ => valid_metric ns /\ Forall TailChar sub /\ Forall TailChar name
  end.
Proof.
  unfold build_fq_name. destruct name as [|n0 name].
  - cbn [is_nil]. split; [intros H; destruct (valid_metric_nil H)|intros [H _]; congruence].
  - cbn [is_nil]. assert (U : Forall TailChar [USCORE]) by (constructor; [apply uscore_tail|constructor]).
    destruct ns as [|a ns], sub as [|b sub]; cbn [is_nil].
    + split; [intros H; split; [discriminate|auto]|tauto].
    + rewrite valid_metric_app_iff by discriminate. rewrite !Forall_app.
      split; [intros (A & _ & B); repeat split; auto; discriminate|intros (_ & A & B); repeat split; auto].
    + rewrite valid_metric_app_iff by discriminate. rewrite !Forall_app.
      split; [intros (A & _ & B); repeat split; auto; discriminate|intros (_ & A & B); repeat split; auto].
    + rewrite valid_metric_app_iff by discriminate. rewrite !Forall_app.
      split; [intros (A & _ & B & _ & D); repeat split; auto; discriminate
             |intros (_ & A & B & D); repeat split; auto].
Qed.

(* ---------- Desc::new: the label names a descriptor carries ---------- *)
Definition desc_wf (d : Desc) : Prop := valid_metric (d_fq_name d) /\ names_wf (desc_label_names d).

Lemma cpairs_names consts : Permutation (map lp_name (cpairs consts)) (map fst consts).
Proof.
  unfold cpairs. eapply Permutation_trans; [apply Permutation_map; apply sort_by_perm|].
  rewrite map_map. cbn. apply Permutation_refl.
Qed.

Lemma desc_new_fields fq help vars consts d :
  desc_new fq help vars consts = Some d ->
  d_fq_name d = fq /\ d_help d = help /\ d_const_pairs d = cpairs consts /\ d_vars d = vars.
Proof. intros H. apply desc_new_inv in H as (_ & _ & _ & names & _ & ->). cbn. auto. Qed.

Lemma desc_new_label_names fq help vars consts d :
  desc_new fq help vars consts = Some d -> Permutation (desc_label_names d) (map fst consts ++ vars).
Proof.
  intros H. apply desc_new_fields in H as (_ & _ & E1 & E2). unfold desc_label_names. rewrite E1, E2.
  apply Permutation_app_tail. apply cpairs_names.
Qed.

Lemma desc_new_wf fq help vars consts d :
  NoDup (map fst consts) -> desc_new fq help vars consts = Some d -> desc_wf d.
Proof.
  intros ND H. pose proof (desc_new_label_names _ _ _ _ _ H) as P.
  pose proof (desc_new_fields _ _ _ _ _ H) as (E & _).
  destruct (proj1 (desc_new_ok_iff fq help vars consts ND) (ex_intro _ d H)) as (_ & Hfq & F & NDall).
  split; [unfold valid_metric; rewrite E; exact Hfq|].
  apply (names_wf_perm (map fst consts ++ vars)); [apply Permutation_sym; exact P|]. split; auto.
Qed.

(* the same acceptance condition phrased on the raw list handed to HashMap::insert *)
Theorem desc_new_amap_ok_iff fq help vars (kvs : list (str * str)) :
  (exists d, desc_new fq help vars (amap_of kvs) = Some d) <->
  help <> [] /\ valid_metric fq
  /\ Forall valid_label (map fst kvs ++ vars)
  /\ NoDup vars /\ (forall v, In v vars -> ~ In v (map fst kvs)).
Proof.
  rewrite (desc_new_ok_iff fq help vars (amap_of kvs) (amap_of_nodup kvs)). unfold valid_metric, valid_label.
  rewrite !Forall_app. split.
  - intros (A & B & [C1 C2] & D). repeat split; auto.
    + apply Forall_forall. intros x Hx. rewrite Forall_forall in C1. apply C1. apply amap_of_keys. exact Hx.
    + eapply NoDup_app_r; eauto.
    + intros v Hv Hin. apply (proj2 (amap_of_keys kvs v)) in Hin. revert Hv. eapply NoDup_app_disj; eauto.
  - intros (A & B & [C1 C2] & D & E). repeat split; auto.
    + apply Forall_forall. intros x Hx. rewrite Forall_forall in C1. apply C1. apply amap_of_keys. exact Hx.
    + apply NoDup_app_intro; auto using amap_of_nodup. intros v Hv Hin. apply (proj1 (amap_of_keys kvs v)) in Hin. exact (E v Hv Hin).
Qed.

(* ---------- make_label_pairs ---------- *)
Lemma lenN_eqb {A B} (a : list A) (b : list B) : (lenN a =? lenN b) = true <-> length a = length b.
Proof. unfold lenN. rewrite N.eqb_eq. split; [apply Nat2N.inj|congruence]. Qed.

Lemma map_fst_combine {A B} (a : list A) (b : list B) : length a = length b -> map fst (combine a b) = a.
Proof.
  revert b; induction a as [|x a IH]; intros [|y b]; cbn; try discriminate; auto. intros H. f_equal. apply IH. congruence.
Qed.

Lemma make_label_pairs_ok_iff d vals :
  (exists ls, make_label_pairs d vals = Ok ls) <-> length (d_vars d) = length vals.
Proof.
  unfold make_label_pairs. destruct (lenN (d_vars d) =? lenN vals) eqn:E; cbn [negb].
  - apply lenN_eqb in E. split; auto. intros _.
    destruct (is_nil (d_vars d) && is_nil (d_const_pairs d)); [eauto|]. destruct (is_nil (d_vars d)); eauto.
  - split; [intros [ls H]; discriminate|]. intros H. apply lenN_eqb in H. congruence.
Qed.

Lemma map_lp_name_mk (l : list (str * str)) : map lp_name (map (fun nv => mkLP (fst nv) (snd nv)) l) = map fst l.
Proof. rewrite map_map. apply map_ext. reflexivity. Qed.

(* every sample of a metric carries exactly the label names of its descriptor *)
Lemma make_label_pairs_names d vals ls :
  make_label_pairs d vals = Ok ls -> Permutation (map lp_name ls) (desc_label_names d).
Proof.
  unfold make_label_pairs, desc_label_names. destruct (lenN (d_vars d) =? lenN vals) eqn:E; cbn [negb]; [|discriminate].
  apply lenN_eqb in E. intros H.
  assert (G : Permutation (map lp_name (sort_by lp_leb (map (fun nv => mkLP (fst nv) (snd nv)) (combine (d_vars d) vals) ++ d_const_pairs d)))
                          (map lp_name (d_const_pairs d) ++ d_vars d)).
  { eapply Permutation_trans; [apply Permutation_map; apply sort_by_perm|].
    rewrite map_app, map_lp_name_mk. rewrite map_fst_combine by exact E. apply Permutation_app_comm. }
  destruct (is_nil (d_vars d)) eqn:Ev.
  - destruct (d_vars d); [|discriminate]. cbn [andb] in H. destruct (is_nil (d_const_pairs d)) eqn:Ec.
    + destruct (d_const_pairs d); [|discriminate]. injection H as <-. constructor.
    + injection H as <-. rewrite app_nil_r. apply Permutation_refl.
  - cbn [andb] in H. injection H as <-. exact G.
Qed.

Lemma make_label_pairs_wf d vals ls : desc_wf d -> make_label_pairs d vals = Ok ls -> names_wf (map lp_name ls).
Proof.
  intros [_ W] H. apply (names_wf_perm (desc_label_names d)); auto. apply Permutation_sym. eapply make_label_pairs_names; eauto.
Qed.

(* ---------- describe / value_new ---------- *)
(* the acceptance condition of Desc::new on an Opts value (constant labels = a map: distinct keys) *)
Definition opts_accept (o : Opts) : Prop :=
  o_help o <> [] /\ valid_metric (opts_fq_name o)
  /\ Forall valid_label (map fst (o_consts o) ++ o_vars o)
  /\ NoDup (map fst (o_consts o) ++ o_vars o).

Lemma describe_ok_iff o : NoDup (map fst (o_consts o)) -> ((exists d, describe o = Some d) <-> opts_accept o).
Proof. intros ND. unfold describe, opts_accept. apply desc_new_ok_iff. exact ND. Qed.

Lemma describe_fields o d : describe o = Some d ->
  d_fq_name d = opts_fq_name o /\ d_help d = o_help o /\ d_const_pairs d = cpairs (o_consts o) /\ d_vars d = o_vars o.
Proof. apply desc_new_fields. Qed.
Lemma describe_wf o d : NoDup (map fst (o_consts o)) -> describe o = Some d -> desc_wf d.
Proof. intros ND. apply desc_new_wf. exact ND. Qed.
Lemma describe_label_names o d : describe o = Some d -> Permutation (desc_label_names d) (map fst (o_consts o) ++ o_vars o).
Proof. apply desc_new_label_names. Qed.

Lemma value_new_inv o t k vals c : value_new o t k vals = Ok c ->
  exists d ls, describe o = Some d /\ make_label_pairs d vals = Ok ls /\ c = mkVCore d t (num_zero k) ls.
Proof.
  unfold value_new. destruct (describe o) as [d|]; [|discriminate]. destruct (make_label_pairs d vals) as [ls|e] eqn:E; [|discriminate].
  intros H. inversion H; subst. eauto.
Qed.

Theorem value_new_ok_iff o t k vals :
  NoDup (map fst (o_consts o)) ->
  ((exists c, value_new o t k vals = Ok c) <-> opts_accept o /\ length vals = length (o_vars o)).
Proof.
  intros ND. rewrite <- (describe_ok_iff o ND). split.
  - intros [c H]. apply value_new_inv in H as (d & ls & Hd & Hl & _). split; eauto.
    apply describe_fields in Hd as (_ & _ & _ & <-). symmetry. apply make_label_pairs_ok_iff. eauto.
  - intros [[d Hd] Hlen]. unfold value_new. rewrite Hd.
    destruct (proj2 (make_label_pairs_ok_iff d vals)) as [ls Hls].
    { apply describe_fields in Hd as (_ & _ & _ & ->). auto. }
    rewrite Hls. eauto.
Qed.

(* the sample of a value metric: label names = the descriptor's, which are valid and distinct *)
Lemma value_new_wf o t k vals c :
  NoDup (map fst (o_consts o)) -> value_new o t k vals = Ok c ->
  describe o = Some (vc_desc c) /\ desc_wf (vc_desc c) /\ Permutation (map lp_name (vc_labels c)) (desc_label_names (vc_desc c)).
Proof.
  intros ND H. apply value_new_inv in H as (d & ls & Hd & Hl & ->). cbn [vc_desc vc_labels]. split; [auto|split].
  - eapply describe_wf; eauto.
  - eapply make_label_pairs_names; eauto.
Qed.

(* ---------- histograms: additionally no label named le ---------- *)
Lemma existsb_str_eqb x l : existsb (str_eqb x) l = true <-> In x l.
Proof.
  rewrite existsb_exists. split.
  - intros (y & Hy & E). apply str_eqb_eq in E. subst. exact Hy.
  - intros H. exists x. split; auto. apply str_eqb_refl.
Qed.
Lemma has_le_label_iff d : has_le_label d = true <-> In BUCKET_LABEL (desc_label_names d).
Proof.
  unfold has_le_label, desc_label_names. rewrite orb_true_iff, in_app_iff, existsb_str_eqb, existsb_exists, in_map_iff.
  split; intros [H|H]; auto.
  - left. destruct H as (lp & Hlp & E). apply str_eqb_eq in E. eauto.
  - right. destruct H as (lp & E & Hlp). exists lp. split; auto. apply str_eqb_eq. auto.
Qed.
Lemma has_le_label_false d : has_le_label d = false <-> ~ In BUCKET_LABEL (desc_label_names d).
Proof. rewrite <- has_le_label_iff. destruct (has_le_label d); split; congruence. Qed.

Lemma hcore_new_inv o vals h : hcore_new o vals = Ok h ->
  exists d ls bs, describe (ho_common o) = Some d /\ has_le_label d = false /\ make_label_pairs d vals = Ok ls
    /\ check_and_adjust_buckets (ho_buckets o) = Some bs /\ hc_desc h = d /\ hc_labels h = ls.
Proof.
  unfold hcore_new, hopts_describe. destruct (describe (ho_common o)) as [d|]; [|discriminate].
  destruct (has_le_label d) eqn:El; [discriminate|]. destruct (make_label_pairs d vals) as [ls|e] eqn:E; [|discriminate].
  destruct (check_and_adjust_buckets (ho_buckets o)) as [bs|] eqn:Eb; [|discriminate].
  intros H. inversion H; subst. cbn [hc_desc hc_labels]. exists d, ls, bs. repeat split; auto.
Qed.

Theorem hcore_new_ok_iff o vals :
  NoDup (map fst (o_consts (ho_common o))) ->
  ((exists h, hcore_new o vals = Ok h) <->
   opts_accept (ho_common o)
   /\ ~ In BUCKET_LABEL (map fst (o_consts (ho_common o)) ++ o_vars (ho_common o))
   /\ length vals = length (o_vars (ho_common o))
   /\ check_and_adjust_buckets (ho_buckets o) <> None).
Proof.
  intros ND. rewrite <- (describe_ok_iff _ ND). split.
  - intros [h H]. apply hcore_new_inv in H as (d & ls & bs & Hd & Hle & Hl & Hb & _). repeat split; eauto.
    + apply has_le_label_false in Hle. intros Hin. apply Hle.
      eapply Permutation_in; [apply Permutation_sym; eapply describe_label_names; eauto|exact Hin].
    + apply describe_fields in Hd as (_ & _ & _ & <-). symmetry. apply make_label_pairs_ok_iff. eauto.
    + congruence.
  - intros ([d Hd] & Hle & Hlen & Hb). unfold hcore_new, hopts_describe. rewrite Hd.
    assert (El : has_le_label d = false).
    { apply has_le_label_false. intros Hin. apply Hle. eapply Permutation_in; [eapply describe_label_names; eauto|exact Hin]. }
    rewrite El. destruct (proj2 (make_label_pairs_ok_iff d vals)) as [ls Hls].
    { apply describe_fields in Hd as (_ & _ & _ & ->). auto. }
    rewrite Hls. destruct (check_and_adjust_buckets (ho_buckets o)) as [bs|]; [eauto|congruence].
Qed.

Lemma hcore_new_wf o vals h :
  NoDup (map fst (o_consts (ho_common o))) -> hcore_new o vals = Ok h ->
  describe (ho_common o) = Some (hc_desc h) /\ desc_wf (hc_desc h)
  /\ Permutation (map lp_name (hc_labels h)) (desc_label_names (hc_desc h))
  /\ ~ In BUCKET_LABEL (desc_label_names (hc_desc h)).
Proof.
  intros ND H. apply hcore_new_inv in H as (d & ls & bs & Hd & Hle & Hl & _ & -> & ->). split; [auto|split; [|split]].
  - eapply describe_wf; eauto.
  - eapply make_label_pairs_names; eauto.
  - apply has_le_label_false; auto.
Qed.

(* ---------- vectors ---------- *)
Definition is_hist_kind (k : veckind) : Prop := match k with VKHist _ => True | _ => False end.

Lemma existsb_fst_str_eqb x (l : list (str * str)) : existsb (fun kv => str_eqb x (fst kv)) l = true <-> In x (map fst l).
Proof.
  rewrite existsb_exists, in_map_iff. split.
  - intros (kv & Hkv & E). apply str_eqb_eq in E. eauto.
  - intros (kv & E & Hkv). exists kv. split; auto. apply str_eqb_eq. auto.
Qed.

Lemma vec_create_inv o k v : vec_create o k = Ok v ->
  exists d, describe o = Some d /\ v = mkVec d o k []
            /\ (is_hist_kind k -> ~ In BUCKET_LABEL (map fst (o_consts o) ++ o_vars o)).
Proof.
  unfold vec_create. destruct k as [t n|bs].
  - destruct (describe o) as [d|]; [|discriminate]. intros H. inversion H; subst. exists d. split; [auto|split; [auto|]]. intros [].
  - destruct (existsb (str_eqb BUCKET_LABEL) (o_vars o) || existsb (fun kv => str_eqb BUCKET_LABEL (fst kv)) (o_consts o)) eqn:E; [discriminate|].
    destruct (describe o) as [d|]; [|discriminate]. intros H. inversion H; subst. exists d. split; [auto|split; [auto|]].
    intros _ Hin. apply orb_false_iff in E as [E1 E2]. apply in_app_or in Hin as [Hin|Hin].
    + apply existsb_fst_str_eqb in Hin. congruence.
    + apply existsb_str_eqb in Hin. congruence.
Qed.

Theorem vec_create_ok_iff o k :
  NoDup (map fst (o_consts o)) ->
  ((exists v, vec_create o k = Ok v) <->
   opts_accept o /\ (is_hist_kind k -> ~ In BUCKET_LABEL (map fst (o_consts o) ++ o_vars o))).
Proof.
  intros ND. rewrite <- (describe_ok_iff o ND). split.
  - intros [v H]. apply vec_create_inv in H as (d & Hd & _ & Hle). split; eauto.
  - intros [[d Hd] Hle]. unfold vec_create. destruct k as [t n|bs].
    + rewrite Hd. eauto.
    + destruct (existsb (str_eqb BUCKET_LABEL) (o_vars o) || existsb (fun kv => str_eqb BUCKET_LABEL (fst kv)) (o_consts o)) eqn:E.
      * exfalso. apply (Hle I). apply in_or_app. apply orb_true_iff in E as [E|E].
        -- right. apply existsb_str_eqb. exact E.
        -- left. apply existsb_fst_str_eqb. exact E.
      * rewrite Hd. eauto.
Qed.

(* ---------- Registry::new_custom ---------- *)
Definition prefix_ok (prefix : option str) : Prop := match prefix with Some p => valid_metric p | None => True end.
Definition common_names (labels : option (list (str * str))) : list str :=
  match labels with Some l => map fst l | None => [] end.

Lemma existsb_reserved (l : list (str * str)) :
  existsb (fun kv => str_eqb reserved_le (fst kv)) l = true <-> In reserved_le (map fst l).
Proof.
  rewrite existsb_exists. split.
  - intros (kv & Hkv & E). apply str_eqb_eq in E. rewrite E. apply in_map. exact Hkv.
  - intros H. apply in_map_iff in H as (kv & E & Hkv). exists kv. split; auto. rewrite E. apply str_eqb_eq. reflexivity.
Qed.

(* after the reserved-le repair: the reserved histogram label is refused as a common label *)
Theorem reg_new_custom_ok_iff {C} prefix labels :
  (exists r : regcore C, reg_new_custom prefix labels = Ok r) <->
  prefix_ok prefix /\ Forall valid_label (common_names labels) /\ ~ In reserved_le (common_names labels).
Proof.
  unfold reg_new_custom, prefix_ok, common_names, valid_metric, valid_label.
  assert (HL : forall l : list (str * str), forallb (fun kv => is_valid_label_name (fst kv)) l = true
                                     <-> Forall (fun s => is_valid_label_name s = true) (map fst l)).
  { intros l. rewrite forallb_forall, Forall_forall. split.
    - intros H x Hx. apply in_map_iff in Hx as (kv & <- & Hkv). auto.
    - intros H kv Hkv. apply H. apply in_map. auto. }
  assert (LB : forall l : list (str * str),
             (negb (forallb (fun kv => is_valid_label_name (fst kv)) l) || existsb (fun kv => str_eqb reserved_le (fst kv)) l) = false
             <-> Forall (fun s => is_valid_label_name s = true) (map fst l) /\ ~ In reserved_le (map fst l)).
  { intros l. rewrite orb_false_iff, negb_false_iff, HL. rewrite <- existsb_reserved.
    destruct (existsb (fun kv => str_eqb reserved_le (fst kv)) l).
    - split; [intros [_ B]; discriminate|intros [_ B]; exfalso; apply B; reflexivity].
    - split; intros [A _]; (split; [exact A|]); [intros X; discriminate|reflexivity]. }
  set (PB := match prefix with Some p => is_nil p || negb (is_valid_metric_name p) | None => false end).
  set (LBv := match labels with
              | Some l => negb (forallb (fun kv => is_valid_label_name (fst kv)) l) || existsb (fun kv => str_eqb reserved_le (fst kv)) l
              | None => false end).
  assert (HP : PB = false <-> match prefix with Some p => is_valid_metric_name p = true | None => True end).
  { unfold PB. destruct prefix as [p|]; [|tauto]. destruct (is_valid_metric_name p) eqn:Ep.
    - destruct p as [|c p]; [discriminate|]. cbn. tauto.
    - rewrite orb_true_r. split; discriminate. }
  assert (HLb : LBv = false <-> Forall (fun s => is_valid_label_name s = true) (match labels with Some l => map fst l | None => [] end)
                              /\ ~ In reserved_le (match labels with Some l => map fst l | None => [] end)).
  { unfold LBv. destruct labels as [l|]; [apply LB|]. split; [intros _; split; [constructor|intros []]|reflexivity]. }
  destruct PB eqn:E1; cbn [orb].
  - split; [intros [r H]; discriminate|]. intros [H _]. apply HP in H. discriminate.
  - destruct LBv eqn:E2.
    + split; [intros [r H]; discriminate|]. intros [_ H]. apply HLb in H. discriminate.
    + split; [|eauto]. intros _. split; [apply HP; reflexivity|apply HLb; reflexivity].
Qed.

Lemma reg_new_custom_fields {C} prefix labels (r : regcore C) :
  reg_new_custom prefix labels = Ok r -> r_prefix r = prefix /\ r_labels r = labels /\ r_collectors r = [].
Proof.
  unfold reg_new_custom. destruct (_ || _); [discriminate|]. intros H. inversion H; subst. cbn. auto.
Qed.

(* ---------- registration refuses label names that clash with the common labels ---------- *)
Definition desc_clear (labels : option (list (str * str))) (d : Desc) : Prop :=
  forall n, In n (desc_label_names d) -> ~ In n (common_names labels).

Lemma clash_test_false labels d :
  match labels with
  | Some common => existsb (fun n => match alookup n common with Some _ => true | None => false end) (desc_label_names d)
  | None => false
  end = false <-> desc_clear labels d.
Proof.
  unfold desc_clear, common_names. destruct labels as [common|]; [|split; auto].
  split.
  - intros H n Hn Hin. assert (E : existsb (fun n => match alookup n common with Some _ => true | None => false end) (desc_label_names d) = true).
    { apply existsb_exists. exists n. split; auto. destruct (alookup n common) eqn:E; auto. apply alookup_None in E. contradiction. }
    congruence.
  - intros H. destruct (existsb _ _) eqn:E; auto. apply existsb_exists in E as (n & Hn & E).
    destruct (alookup n common) eqn:E2; [|discriminate]. exfalso. apply (H n Hn).
    apply alookup_In in E2. apply (in_map fst) in E2. exact E2.
Qed.

Lemma reg_check_descs_clear {C} (r : regcore C) ds : forall seen cid staged x,
  reg_check_descs r ds seen cid staged = Ok x -> forall d, In d ds -> desc_clear (r_labels r) d.
Proof.
  induction ds as [|d0 ds IH]; intros seen cid staged x H d Hd; [destruct Hd|]. cbn [reg_check_descs] in H.
  destruct (memN (d_id d0) (r_desc_ids r)); [discriminate|].
  match type of H with (if ?c then _ else _) = _ => destruct c eqn:Ec; [discriminate|] end.
  match type of H with (if ?c then _ else _) = _ => destruct c; [discriminate|] end.
  destruct (memN (d_id d0) seen); [discriminate|].
  destruct Hd as [<-|Hd].
  - apply clash_test_false. exact Ec.
  - eapply IH; eauto.
Qed.

Lemma reg_register_clear {C} (r r' : regcore C) ds c :
  reg_register r ds c = Ok r' -> (forall d, In d ds -> desc_clear (r_labels r) d)
  /\ r_labels r' = r_labels r /\ r_prefix r' = r_prefix r.
Proof.
  unfold reg_register. destruct (reg_check_descs r ds [] 0 []) as [[[seen cid] staged]|e] eqn:E; [|discriminate].
  destruct (nlookup cid (r_collectors r)); [discriminate|]. intros H. inversion H; subst. cbn. split; auto.
  eapply reg_check_descs_clear; eauto.
Qed.
Lemma reg_unregister_fields {C} (r r' : regcore C) ds :
  reg_unregister r ds = Ok r' -> r_labels r' = r_labels r /\ r_prefix r' = r_prefix r.
Proof.
  unfold reg_unregister. destruct (nlookup _ _); [|discriminate]. intros H. inversion H; subst. cbn. auto.
Qed.

(* a clash is refused *)
Lemma reg_register_refuses_clash {C} (r : regcore C) ds c d n :
  In d ds -> In n (desc_label_names d) -> In n (common_names (r_labels r)) -> exists e, reg_register r ds c = Err e.
Proof.
  intros Hd Hn Hc. destruct (reg_register r ds c) as [r'|e] eqn:E; [|eauto].
  exfalso. apply reg_register_clear in E as (H & _). exact (H d Hd n Hn Hc).
Qed.

(* ---------- gather: merging by name keeps names and samples ---------- *)
Section Merge.
  Variable NameP : str -> Prop.
  Variable Q : Metric -> Prop.
  Definition fam_all (mf : MetricFamily) : Prop := NameP (mf_name mf) /\ Forall Q (mf_metric mf).

  Lemma bt_insert_all mf m : fam_all mf -> Forall fam_all m -> Forall fam_all (bt_insert mf m).
  Proof.
    intros Hmf. induction 1 as [|x t Hx Ht IH]; cbn [bt_insert].
    - constructor; auto.
    - destruct (str_cmp (mf_name mf) (mf_name x)).
      + constructor; [|exact Ht]. destruct Hx as [A B], Hmf as [A' B']. split; cbn [mf_name mf_metric]; auto.
        apply Forall_app; auto.
      + constructor; auto.
      + constructor; auto.
  Qed.
  Lemma merge_families_all collected : Forall fam_all collected -> Forall fam_all (merge_families collected).
  Proof.
    unfold merge_families. generalize (@nil MetricFamily) (Forall_nil fam_all).
    induction collected as [|mf l IH]; intros acc Hacc H; cbn [fold_left]; auto.
    inversion H as [|? ? Hmf Hl]; subst. apply IH; auto. destruct (is_nil (mf_metric mf)); auto. apply bt_insert_all; auto.
  Qed.
End Merge.

Lemma sort_metrics_Forall (Q : Metric -> Prop) l : Forall Q l -> Forall Q (sort_by metric_leb l).
Proof. intros H. eapply Permutation_Forall; [apply Permutation_sym; apply sort_by_perm|exact H]. Qed.

(* what a sample must satisfy before the common labels are appended *)
Definition metric_pre (labels : option (list (str * str))) (m : Metric) : Prop :=
  names_wf (map lp_name (m_label m)) /\ forall n, In n (map lp_name (m_label m)) -> ~ In n (common_names labels).

Lemma common_pairs_names (l : list (str * str)) :
  Permutation (map lp_name (sort_by lp_leb (map (fun kv => mkLP (fst kv) (snd kv)) l))) (map fst l).
Proof. exact (cpairs_names l). Qed.

Lemma apply_prefix_labels_wf prefix labels mf :
  prefix_ok prefix -> names_wf (common_names labels) ->
  valid_metric (mf_name mf) -> Forall (metric_pre labels) (mf_metric mf) ->
  family_wf (apply_prefix_labels prefix labels mf).
Proof.
  intros Hp [Fc NDc] Hn Hm. unfold apply_prefix_labels, family_wf. cbn [mf_name mf_metric]. split.
  - destruct prefix as [p|]; auto. apply prefixed_name_valid; auto.
  - destruct labels as [l|].
    + apply Forall_forall. intros m' Hm'. apply in_map_iff in Hm' as (m & <- & Hin).
      rewrite Forall_forall in Hm. destruct (Hm m Hin) as [[F ND] Hd]. unfold metric_wf. cbn [m_label].
      rewrite map_app. pose proof (common_pairs_names l) as P. cbn [common_names] in *. split.
      * apply Forall_app. split; auto. eapply Permutation_Forall; [apply Permutation_sym; exact P|exact Fc].
      * apply NoDup_app_intro; auto.
        -- eapply Permutation_NoDup; [apply Permutation_sym; exact P|exact NDc].
        -- intros v Hv Hv'. apply (Hd v Hv'). eapply Permutation_in; [exact P|exact Hv].
    + eapply Forall_impl; [|exact Hm]. intros m [W _]. exact W.
Qed.

(* gather in terms of descriptors: every collected family belongs to a well-formed descriptor whose
   label names do not meet the registry's common labels *)
Definition family_of_desc (d : Desc) (mf : MetricFamily) : Prop :=
  mf_name mf = d_fq_name d
  /\ Forall (fun m => Permutation (map lp_name (m_label m)) (desc_label_names d)) (mf_metric mf).

Theorem gather_names_wf_gen prefix labels collected :
  prefix_ok prefix -> names_wf (common_names labels) ->
  Forall (fun mf => exists d, desc_wf d /\ desc_clear labels d /\ family_of_desc d mf) collected ->
  Forall family_wf (gather_families prefix labels collected).
Proof.
  intros Hp Hc H. unfold gather_families.
  assert (A : Forall (fam_all valid_metric (metric_pre labels)) collected).
  { eapply Forall_impl; [|exact H]. intros mf (d & [Wn Wl] & Hclear & En & Hm). split.
    - unfold valid_metric. rewrite En. exact Wn.
    - eapply Forall_impl; [|exact Hm]. intros m P. split.
      + eapply names_wf_perm; [apply Permutation_sym; exact P|exact Wl].
      + intros n Hn. apply Hclear. eapply Permutation_in; [exact P|exact Hn]. }
  apply merge_families_all in A. apply Forall_forall. intros mf' Hmf'. apply in_map_iff in Hmf' as (mf & <- & Hin).
  rewrite Forall_forall in A. destruct (A mf Hin) as [Hn Hm]. apply apply_prefix_labels_wf; auto.
  cbn [mf_metric]. apply sort_metrics_Forall. exact Hm.
Qed.

(* ---------- the families the library's own metrics produce ---------- *)
(* a core after any number of updates: descriptor and label pairs are those fixed at construction *)
Definition same_vmeta (c c0 : vcore) : Prop := vc_desc c = vc_desc c0 /\ vc_labels c = vc_labels c0.
Definition same_hmeta (h h0 : hcore) : Prop := hc_desc h = hc_desc h0 /\ hc_labels h = hc_labels h0.
(* a HashMap has distinct keys *)
Definition map_like (consts : list (str * str)) : Prop := NoDup (map fst consts).

(* a sample of a child built by MetricVecBuilder::build from the vector's Opts *)
Inductive lib_child (o : Opts) : veckind -> Metric -> Prop :=
| LCValue t k vals c0 c :
    value_new o t k vals = Ok c0 -> same_vmeta c c0 -> lib_child o (VKValue t k) (value_metric c)
| LCHist bs vals h0 h m h' :
    hcore_new (mkHOpts o bs) vals = Ok h0 -> same_hmeta h h0 -> hist_metric h = Some (m, h') -> lib_child o (VKHist bs) m.

(* [lib_family d mf]: mf is what a library metric with descriptor d hands to gather *)
Inductive lib_family : Desc -> MetricFamily -> Prop :=
| LFValue o t k vals c0 c :
    map_like (o_consts o) -> value_new o t k vals = Ok c0 -> same_vmeta c c0 ->
    lib_family (vc_desc c0) (value_collect c)
| LFHist o vals h0 h m h' :
    map_like (o_consts (ho_common o)) -> hcore_new o vals = Ok h0 -> same_hmeta h h0 -> hist_metric h = Some (m, h') ->
    lib_family (hc_desc h0) (mkMF (d_fq_name (hc_desc h)) (d_help (hc_desc h)) HISTOGRAM [m])
| LFVec o kind v ms :
    map_like (o_consts o) -> vec_create o kind = Ok v -> Forall (lib_child o kind) ms ->
    lib_family (v_desc v) (mkMF (d_fq_name (v_desc v)) (d_help (v_desc v)) (veckind_mtype kind) ms)
| LFPulling name help v d :
    desc_new name help [] [] = Some d ->
    lib_family d (mkMF (d_fq_name d) (d_help d) GAUGE [mkMetric [] (Some v) None None None None None]).

Lemma hist_metric_labels h m h' : hist_metric h = Some (m, h') -> m_label m = hc_labels h.
Proof.
  unfold hist_metric. destruct (hc_proto h) as [[p h1]|]; [|discriminate]. intros H. inversion H; subst. reflexivity.
Qed.
Lemma value_metric_labels c : m_label (value_metric c) = vc_labels c.
Proof. unfold value_metric. destruct (vc_type c); reflexivity. Qed.

Lemma lib_child_names o kind m d :
  map_like (o_consts o) -> describe o = Some d -> lib_child o kind m ->
  Permutation (map lp_name (m_label m)) (desc_label_names d).
Proof.
  intros ND Hd H. destruct H as [t k vals c0 c Hn [E1 E2]|bs vals h0 h m h' Hn [E1 E2] Hm].
  - apply (value_new_wf o t k vals c0 ND) in Hn as (Hd' & _ & P). rewrite value_metric_labels, E2.
    assert (d = vc_desc c0) by congruence. subst d. exact P.
  - apply (hcore_new_wf (mkHOpts o bs) vals h0 ND) in Hn as (Hd' & _ & P & _). cbn [ho_common] in Hd'.
    rewrite (hist_metric_labels _ _ _ Hm), E2. assert (d = hc_desc h0) by congruence. subst d. exact P.
Qed.

Lemma lib_family_of_desc d mf : lib_family d mf -> desc_wf d /\ family_of_desc d mf.
Proof.
  intros H. destruct H as [o t k vals c0 c ND Hn [E1 E2]|o vals h0 h m h' ND Hn [E1 E2] Hm|o kind v ms ND Hv Hms|name help v d Hd].
  - apply (value_new_wf o t k vals c0 ND) in Hn as (_ & W & P). split; auto. split.
    + cbn. congruence.
    + cbn [value_collect mf_metric]. constructor; [|constructor]. rewrite value_metric_labels, E2. exact P.
  - apply (hcore_new_wf o vals h0 ND) in Hn as (_ & W & P & _). split; auto. split.
    + cbn. congruence.
    + cbn [mf_metric]. constructor; [|constructor]. rewrite (hist_metric_labels _ _ _ Hm), E2. exact P.
  - apply vec_create_inv in Hv as (d & Hd & -> & _). cbn [v_desc]. split; [eapply describe_wf; eauto|]. split; [reflexivity|].
    cbn [mf_metric]. eapply Forall_impl; [|exact Hms]. intros m Hm. eapply lib_child_names; eauto.
  - split; [eapply desc_new_wf; eauto; constructor|]. split; [reflexivity|]. cbn [mf_metric]. constructor; [|constructor].
    cbn [m_label map]. apply Permutation_sym. eapply Permutation_trans; [eapply desc_new_label_names; eauto|]. cbn. constructor.
Qed.

(* ---------- registries reachable from Registry::new_custom ---------- *)
Inductive reg_reach {C} (prefix : option str) (labels : option (list (str * str))) : regcore C -> Prop :=
| RRnew r : reg_new_custom prefix labels = Ok r -> reg_reach prefix labels r
| RRregister r ds c r' : reg_reach prefix labels r -> reg_register r ds c = Ok r' -> reg_reach prefix labels r'
| RRunregister r ds r' : reg_reach prefix labels r -> reg_unregister r ds = Ok r' -> reg_reach prefix labels r'.

Lemma reg_reach_fields {C} prefix labels (r : regcore C) :
  reg_reach prefix labels r -> r_prefix r = prefix /\ r_labels r = labels.
Proof.
  induction 1 as [r H|r ds c r' _ [IH1 IH2] H|r ds r' _ [IH1 IH2] H].
  - apply reg_new_custom_fields in H as (A & B & _). auto.
  - apply reg_register_clear in H as (_ & A & B). split; congruence.
  - apply reg_unregister_fields in H as (A & B). split; congruence.
Qed.

(* descriptor d was presented in a successful register call on such a registry *)
Definition admitted {C} (prefix : option str) (labels : option (list (str * str))) (d : Desc) : Prop :=
  exists (r r' : regcore C) ds c, reg_reach prefix labels r /\ reg_register r ds c = Ok r' /\ In d ds.

Lemma admitted_clear {C} prefix labels d : @admitted C prefix labels d -> desc_clear labels d.
Proof.
  intros (r & r' & ds & c & Hr & Hreg & Hd). apply reg_reach_fields in Hr as (_ & <-).
  apply reg_register_clear in Hreg as (H & _). auto.
Qed.

(* C09, second sentence: every sample returned by gather has a valid metric name and valid,
   pairwise distinct label names, including the registry-level prefix and common labels *)
Theorem gather_names_wf {C} prefix labels collected :
  (exists r0 : regcore C, reg_new_custom prefix labels = Ok r0) ->
  map_like match labels with Some l => l | None => [] end ->
  Forall (fun mf => exists d, lib_family d mf /\ @admitted C prefix labels d) collected ->
  Forall family_wf (gather_families prefix labels collected).
Proof.
  intros Hr ND H. apply reg_new_custom_ok_iff in Hr as [Hp [Hl _]]. apply gather_names_wf_gen; auto.
  - split; auto. unfold common_names, map_like in *. destruct labels; auto; constructor.
  - eapply Forall_impl; [|exact H]. intros mf (d & Hf & Ha). exists d. apply lib_family_of_desc in Hf as [W F].
    split; auto. split; auto. eapply admitted_clear; eauto.
Qed.

(* for a registry reached from new_custom the arguments of gather are its own fields *)
Corollary gather_names_wf_reg {C} prefix labels (r : regcore C) collected :
  reg_reach prefix labels r ->
  map_like match labels with Some l => l | None => [] end ->
  Forall (fun mf => exists d, lib_family d mf /\ @admitted C prefix labels d) collected ->
  Forall family_wf (gather_families (r_prefix r) (r_labels r) collected).
Proof.
  intros Hr ND H. destruct (reg_reach_fields _ _ _ Hr) as [-> ->]. apply (@gather_names_wf C); auto.
  clear H. induction Hr as [r H|r ds c r' _ IH H|r ds r' _ IH H]; eauto.
Qed.

(* without the clash check the conclusion fails: a common label equal to a metric's own label *)
Example gather_clash_refuted_without_check :
  exists prefix labels mf d, desc_wf d /\ family_of_desc d mf /\ prefix_ok prefix /\ names_wf (common_names labels)
    /\ ~ Forall family_wf (gather_families prefix labels [mf]).
Proof.
  exists None, (Some [([97], [50])]).
  exists (mkMF [99] [104] COUNTER [mkMetric [mkLP [97] [49]] None (Some f_zero) None None None None]).
  exists (mkDesc [99] [104] [mkLP [97] [49]] [] 0 0).
  split; [split; [reflexivity|split; [repeat constructor|repeat constructor; cbn; tauto]]|].
  split; [split; [reflexivity|repeat constructor]|]. split; [exact I|]. split; [split; repeat constructor; cbn; tauto|].
  intros H. vm_compute in H. inversion H as [|? ? [_ Hm] _]; subst. inversion Hm as [|? ? [_ ND] _]; subst.
  cbn in ND. inversion ND as [|? ? Hn _]; subst. apply Hn. left. reflexivity.
Qed.

(* ---------- non-vacuity: a concrete registry, counter and histogram vector ---------- *)
(* registry with prefix "p" and common label z="1"; a counter c{a="1"}; a histogram vector n_v{b}
   with one child b="x" that has observed 1.0 *)
Definition ex_prefix : option str := Some [112].
Definition ex_labels : option (list (str * str)) := Some [([122], [49])].
Definition ex_o : Opts := mkOpts [] [] [99] [104] [([97], [49])] [].
Definition ex_ov : Opts := mkOpts [110] [] [118] [104] [] [[98]].
Definition ex_bs : list f64 := [f_one].
Definition ex_get {A} (r : result A) (dflt : A) : A := match r with Ok a => a | Err _ => dflt end.
Definition ex_d0 : Desc := mkDesc [] [] [] [] 0 0.
Definition ex_r0 : regcore nat := ex_get (reg_new_custom ex_prefix ex_labels) reg_empty.
Definition ex_c : vcore := ex_get (value_new ex_o VCounter NF []) (mkVCore ex_d0 VCounter (VU 0) []).
Definition ex_v : veccore := ex_get (vec_create ex_ov (VKHist ex_bs)) (mkVec ex_d0 ex_ov (VKHist ex_bs) []).
Definition ex_h : hcore :=
  ex_get (hcore_new (mkHOpts ex_ov ex_bs) [[120]]) (mkHCore ex_d0 [] [] false 0 (shard_new 0) (shard_new 0)).
Definition ex_r1 : regcore nat := ex_get (reg_register ex_r0 [vc_desc ex_c] 0%nat) reg_empty.
Definition ex_r2 : regcore nat := ex_get (reg_register ex_r1 [v_desc ex_v] 1%nat) reg_empty.
Definition ex_hm : Metric * hcore :=
  match hist_metric (hc_observe ex_h f_one) with Some x => x | None => (empty_metric [], ex_h) end.
Definition ex_collected : list MetricFamily :=
  [value_collect ex_c; mkMF (d_fq_name (v_desc ex_v)) (d_help (v_desc ex_v)) HISTOGRAM [fst ex_hm]].

Example gather_names_wf_example :
  (exists r0 : regcore nat, reg_new_custom ex_prefix ex_labels = Ok r0)
  /\ map_like match ex_labels with Some l => l | None => [] end
  /\ Forall (fun mf => exists d, lib_family d mf /\ @admitted nat ex_prefix ex_labels d) ex_collected
  /\ map mf_name (gather_families ex_prefix ex_labels ex_collected) = [[112; 95; 99]; [112; 95; 110; 95; 118]]
  /\ map (fun mf => map (fun m => map lp_name (m_label m)) (mf_metric mf)) (gather_families ex_prefix ex_labels ex_collected)
     = [[[[97]; [122]]]; [[[98]; [122]]]].
Proof.
  assert (R0 : reg_new_custom ex_prefix ex_labels = Ok ex_r0) by (vm_compute; reflexivity).
  assert (R1 : reg_register ex_r0 [vc_desc ex_c] 0%nat = Ok ex_r1) by (vm_compute; reflexivity).
  assert (R2 : reg_register ex_r1 [v_desc ex_v] 1%nat = Ok ex_r2) by (vm_compute; reflexivity).
  split; [eauto|]. split; [repeat constructor; cbn; tauto|]. split; [|split; vm_compute; reflexivity].
  constructor; [|constructor; [|constructor]].
  - exists (vc_desc ex_c). split.
    + apply (LFValue ex_o VCounter NF [] ex_c ex_c).
      * repeat constructor; cbn; tauto.
      * vm_compute; reflexivity.
      * split; reflexivity.
    + exists ex_r0, ex_r1, [vc_desc ex_c], 0%nat. split; [apply RRnew; exact R0|]. split; [exact R1|left; reflexivity].
  - exists (v_desc ex_v). split.
    + apply (LFVec ex_ov (VKHist ex_bs) ex_v [fst ex_hm]).
      * constructor.
      * vm_compute; reflexivity.
      * constructor; [|constructor].
        apply (LCHist ex_ov ex_bs [[120]] ex_h (hc_observe ex_h f_one) (fst ex_hm) (snd ex_hm)).
        -- vm_compute; reflexivity.
        -- split; vm_compute; reflexivity.
        -- vm_compute; reflexivity.
    + exists ex_r1, ex_r2, [v_desc ex_v], 1%nat. split; [|split; [exact R2|left; reflexivity]].
      eapply RRregister; [apply RRnew; exact R0|exact R1].
Qed.
