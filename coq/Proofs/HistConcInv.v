From Coq Require Import List ZArith Lia Bool Arith.
Import ListNotations.
Require Import PV.Model.HistConc PV.Proofs.HistConcLemmas.
Open Scope Z_scope.

Section Inv.
Variable B : nat.

Definition cold (s : st) := negb (hot s).
Definition old (s : st) := firstn (K s) (recs s).
Definition new (s : st) := skipn (K s) (recs s).
Definition active (s : st) : option cpc :=
  match lock s with
  | Some t => match thr s t with CIn p => Some p | _ => None end
  | None => None
  end.
Definition stg_cnt s := match active s with Some p => cstage_cnt p | None => InCold end.
Definition stg_cell s c := match active s with Some p => cstage_cell p c | None => InCold end.
Definition oldA s c := sumf (applied c) (old s).
Definition newA s c := sumf (applied c) (new s).
Definition oldP s := sumf pubcnt (old s).
Definition newP s := sumf pubcnt (new s).

Definition past_wait (p : cpc) : bool := match p with CFlip | CWait _ => false | _ => true end.

Definition bvals (s : st) (j : nat) : list Z := rev (map (fun i => sumf (full (S i)) (old s)) (seq 0 j)).

Definition cpc_ok (s : st) (p : cpc) : Prop :=
  match p with
  | CFlip => K s = O
  | CWait N => N = sumf r_cnt (old s)
  | CSwapSum N => N = sumf r_cnt (old s)
  | CBucket N sumv j bs => N = sumf r_cnt (old s) /\ sumv = sumf (full O) (old s) /\ (j < B)%nat /\ bs = bvals s j
  | CBucketAdd N sumv j v bs => N = sumf r_cnt (old s) /\ sumv = sumf (full O) (old s) /\ (j < B)%nat /\ bs = bvals s j /\ v = sumf (full (S j)) (old s)
  | CAddCnt N sumv bs | CAddSum N sumv bs | CUnlock N sumv bs =>
      N = sumf r_cnt (old s) /\ sumv = sumf (full O) (old s) /\ bs = bvals s B
  end.

Definition rec_wf (r : rec) : Prop := 1 <= r_cnt r /\ Forall (fun w => (w_cell w <= B)%nat) (r_ws r).

Definition summary (l : list rec) : Z * Z * list Z :=
  (sumf r_cnt l, sumf (full O) l, map (fun i => sumf (full (S i)) l) (seq 0 B)).

Record Inv (s : st) : Prop := {
  I_n : n s = sumf r_cnt (recs s);
  I_Kle : (K s <= length (recs s))%nat;
  I_cold_cell : forall c, cells (sh s (cold s)) c = match stg_cell s c with InCold => oldA s c | _ => 0 end;
  I_hot_cell : forall c, cells (sh s (hot s)) c = newA s c + match stg_cell s c with InHot => oldA s c | _ => 0 end;
  I_cold_cnt : cnt (sh s (cold s)) = match stg_cnt s with InCold => oldP s | _ => 0 end;
  I_hot_cnt : cnt (sh s (hot s)) = newP s + match stg_cnt s with InHot => oldP s | _ => 0 end;
  I_tgt : forall i r, nth_error (recs s) i = Some r -> r_pub r = false ->
                      r_tgt r = if (i <? K s)%nat then cold s else hot s;
  I_pub_done : forall r, In r (recs s) -> r_pub r = true -> all_done r = true;
  I_wf : forall r, In r (recs s) -> rec_wf r;
  I_past : forall p, active s = Some p -> past_wait p = true -> forall r, In r (old s) -> r_pub r = true;
  I_lock1 : forall t p, thr s t = CIn p -> lock s = Some t;
  I_lock2 : forall t, lock s = Some t -> exists p, thr s t = CIn p;
  I_K0 : active s = None -> K s = O;
  I_cpc : forall p, active s = Some p -> cpc_ok s p;
  I_snaps : forall k res, In (k, res) (snaps s) -> (k <= length (recs s))%nat /\ res = summary (firstn k (recs s))
}.

End Inv.
